/-
C18 — Repeat re-sends the latest event at the configured pace and count.

Model: EdzedModel/Repeat.lean (mirrors `Repeat._event`, `Repeat._maintask`, `AddonMainTask.stop_async`
with the repairs patches/C18-repeat-chain.diff and patches/C18-stale-resend.diff applied; the
unrepaired code violates `newer_restarts_and_supersedes` and `chain_of_two`, which the oracle of
harness/props/c18.py shows with a replay).  Time is the integer-µs virtual clock.
All statements hold for every configuration, every state, every arrival time / placement /
data and every operation sequence (no bound on lengths).
-/
import EdzedModel.Repeat
import EdzedModel.Gen.TranslatedRepeat
import EdzedProofs.Repeat

namespace Edzed.Repeat

/-- An event of the configured type arriving at `t` is forwarded in that very step, stamped `t`,
    with `repeat=0` (whatever was going on before, stopped or not): it is the last thing offered
    to the destination in the step, after the timeouts preceding the arrival, whatever the answer;
    with an accepting destination (`s.resp = []`) it is the last thing sent in the step and the
    output becomes 0. -/
theorem forward_immediately_repeat0 (c : Cfg) (s : State) (t : Nat) (pl : Placement) (data : Data) :
    (event c s t pl c.etype data).2 =
        (advance c s (pl.horizon t)).2 ++
          [⟨t, c.etype, 0, outData c (withOrig data) 0, (advance c s (pl.horizon t)).1.answer⟩]
    ∧ (s.resp = [] →
        (event c s t pl c.etype data).2 =
          (advance c s (pl.horizon t)).2 ++ [⟨t, c.etype, 0, outData c (withOrig data) 0, .ok⟩]
        ∧ (event c s t pl c.etype data).1.out = 0) := by
  refine ⟨?_, fun h => ⟨event_sends c s t pl data h, by rw [event_state _ _ _ _ _ h]⟩⟩
  simp only [event, arrive_head c (advance c s (pl.horizon t)).1 t data]

/-- `n` is the number of repetitions due by time `t` for an event that arrived at `t0`:
    the `n`-th is due (`t0 + n·I ≤ t`), and either the count is exhausted or the next one
    is not due yet -/
def DueBy (c : Cfg) (t0 t n : Nat) : Prop :=
  (∀ m, c.count = some m → n ≤ m) ∧ t0 + n * c.interval ≤ t ∧
    (c.count = some n ∨ t < t0 + (n + 1) * c.interval)

/-- such an `n` exists for every `t ≥ t0` (the schedule theorem below is never vacuous) -/
theorem dueBy_exists (c : Cfg) (hI : 0 < c.interval) (t0 t : Nat) (h : t0 ≤ t) : ∃ n, DueBy c t0 t n := by
  have h1 : (t - t0) / c.interval * c.interval ≤ t - t0 := Nat.div_mul_le_self _ _
  have h2 : t - t0 < c.interval * ((t - t0) / c.interval + 1) := Nat.lt_mul_div_succ _ hI
  rw [Nat.mul_comm] at h2
  unfold DueBy
  cases hc : c.count with
  | none =>
    refine ⟨(t - t0) / c.interval, ?_, ?_, ?_⟩
    · intro m e; cases e
    · omega
    · exact Or.inr (by omega)
  | some m =>
    by_cases hm : m ≤ (t - t0) / c.interval
    · refine ⟨m, ?_, ?_, Or.inl rfl⟩
      · intro m' e; cases e; exact Nat.le_refl _
      · have : m * c.interval ≤ (t - t0) / c.interval * c.interval := Nat.mul_le_mul_right _ hm
        omega
    · refine ⟨(t - t0) / c.interval, ?_, by omega, Or.inr (by omega)⟩
      intro m' e; cases e; omega

/-- After an event arrived at `t0` (block not stopped), letting time pass until `t` sends exactly
    the repetitions `k = 1 … n`, the `k`-th at `t0 + k·interval` with `repeat = k` and the data of
    that event, where `n` is the number due by `t` – limited by `count`; the output then shows `n`. -/
theorem repetition_schedule (c : Cfg) (hI : 0 < c.interval) (s : State) (hs : s.stopped = false)
    (hacc : s.resp = [])
    (t0 : Nat) (pl : Placement) (data : Data) (t n : Nat) (hn : DueBy c t0 t n) :
    (advance c (event c s t0 pl c.etype data).1 t).2 =
        (List.range n).map (fun k =>
          ⟨t0 + (k + 1) * c.interval, c.etype, k + 1, outData c (withOrig data) (k + 1), .ok⟩)
      ∧ (advance c (event c s t0 pl c.etype data).1 t).1.out = n := by
  obtain ⟨hcnt, hdue, hend⟩ := hn
  rw [event_state _ _ _ _ _ hacc, hs]
  by_cases hr : repeating c 0 = true
  · -- repeating: closed form of `advance`
    have key := advance_spec c hI t n
      { out := 0, cur := some ⟨withOrig data, 0, t0 + c.interval⟩, stopped := false, resp := [] }
      ⟨withOrig data, 0, t0 + c.interval⟩ rfl rfl rfl
      (by
        intro k hk
        have : (k + 1) * c.interval ≤ n * c.interval := Nat.mul_le_mul_right _ (by omega)
        rw [Nat.succ_mul] at this
        show t0 + c.interval + k * c.interval ≤ t
        omega)
      (by
        intro k hk1 hk
        simp only [repeating, Nat.zero_add]
        cases hc : c.count with
        | none => rfl
        | some m => have := hcnt m hc; simp; omega)
      (by
        rcases hend with he | he
        · left
          have hn0 : 0 < n := by
            cases n with
            | zero => simp [repeating, he] at hr
            | succ n => omega
          exact ⟨hn0, by simp [repeating, he]⟩
        · right
          rw [Nat.succ_mul] at he
          show t < t0 + c.interval + n * c.interval
          omega)
    simp only [hr, Bool.not_false, Bool.true_and, if_true]
    rw [key]
    constructor
    · simp only [sends]
      apply List.map_congr_left
      intro k _
      simp only [nthSend, Nat.zero_add]
      rw [Nat.succ_mul]
      have : t0 + c.interval + k * c.interval = t0 + (k * c.interval + c.interval) := by omega
      rw [this]
    · cases n with
      | zero => simp [after]
      | succ n => simp [after]
  · -- count = 0: nothing is ever repeated
    have hr' : repeating c 0 = false := by simpa using hr
    have hn0 : n = 0 := by
      cases hc : c.count with
      | none => simp [repeating, hc] at hr'
      | some m =>
        have : m = 0 := by simpa [repeating, hc] using hr'
        have := hcnt m hc; omega
    subst hn0
    simp [hr', advance_none]

/-- A newer event restarts the block and supersedes the older one: (a) the state after the arrival
    is the same whatever was being repeated before, (b) hence every continuation behaves as if the
    older events had never been there – nothing of them is sent any more –, and (c) what the step
    itself still sent of older events precedes the forward and is stamped no later than the
    placement's horizon: strictly before `t` for an arrival before / in the loop iteration of a
    timeout due at `t` (`B`, `T`: the explicit same-iteration rule), at most `t` for `A`. -/
theorem newer_restarts_and_supersedes (c : Cfg) (s s' : State) (hst : s.stopped = s'.stopped)
    (hacc : s.resp = []) (hacc' : s'.resp = []) (t : Nat) (pl : Placement) (data : Data) :
    (event c s t pl c.etype data).1 = (event c s' t pl c.etype data).1
    ∧ (∀ ops, run c (event c s t pl c.etype data).1 ops = run c (event c s' t pl c.etype data).1 ops)
    ∧ (∀ x ∈ (event c s t pl c.etype data).2.dropLast,
        x.t ≤ t ∧ (pl ≠ .A → 0 < t → x.t < t)) := by
  have h1 : (event c s t pl c.etype data).1 = (event c s' t pl c.etype data).1 := by
    rw [event_state _ _ _ _ _ hacc, event_state _ _ _ _ _ hacc', hst]
  refine ⟨h1, fun ops => by rw [h1], ?_⟩
  intro x hx
  rw [event_sends _ _ _ _ _ hacc, List.dropLast_concat] at hx
  have := advanceFuel_times c (pl.horizon t) _ s x hx
  cases pl <;> simp only [Placement.horizon] at this <;> refine ⟨by omega, ?_⟩ <;> intro h ht
  · omega
  · omega
  · exact absurd rfl h

/-- Events of other types are ignored: the step is just the passing of time. -/
theorem other_types_ignored (c : Cfg) (s : State) (t : Nat) (pl : Placement) (etype : String)
    (data : Data) (h : etype ≠ c.etype) :
    event c s t pl etype data = advance c s (pl.horizon t) ∧ arrive c s t etype data = (s, []) := by
  simp [event, arrive_other c _ t etype data h]

/-- The items of an event sent for received data `d` with repeat number `rep`: `source` names the
    Repeat block, `orig_source` holds the received `source` (None when there was none), `repeat`
    is the number (replacing a `repeat` item of the received event), every other item is kept. -/
theorem data_preserved_source_rewritten (c : Cfg) (d : Data) (rep : Nat) :
    (outData c (withOrig d) rep).get? "source" = some (Val.str c.name)
    ∧ (outData c (withOrig d) rep).get? "orig_source" = some ((d.get? "source").getD Val.none)
    ∧ (outData c (withOrig d) rep).get? "repeat" = some (Val.int rep)
    ∧ ∀ k, k ≠ "source" → k ≠ "orig_source" → k ≠ "repeat" →
        (outData c (withOrig d) rep).get? k = d.get? k := by
  refine ⟨?_, ?_, ?_, ?_⟩
  · simp [outData, Data.get?_set]
  · simp [outData, withOrig, Data.get?_set]
  · simp [outData, Data.get?_set]
  · intro k h1 h2 h3
    simp [outData, withOrig, Data.get?_set, h1, h2, h3]

/-- … and every event a block ever sends (from its initial state, any operation sequence) has
    that shape for the data `d` of one of the received events, with the configured event type. -/
theorem every_send_is_a_received_event (c : Cfg) (answers : List Resp) (ops : List Op) :
    ∀ x ∈ (run c { resp := answers } ops).2,
      x.etype = c.etype ∧ ∃ d ∈ eventData ops, x.data = outData c (withOrig d) x.rep :=
  run_shape c (eventData ops) ops { resp := answers } (by intro p hp; cases hp) (fun _ h => h)

/-- The output equals the repeat number of the last event sent (the previous output if nothing
    was sent), after every operation sequence from every state; initially it is 0. -/
theorem output_is_repeat (c : Cfg) (s : State) (ops : List Op) :
    (run c s ops).1.out = ((run c s ops).2.getLast?.map (·.rep)).getD s.out
    ∧ (run c {} ops).1.out = ((run c {} ops).2.getLast?.map (·.rep)).getD 0 := by
  constructor
  · rw [run_out, lastRep_eq_getLast]
  · rw [run_out, lastRep_eq_getLast]

/-- After the stop nothing is re-sent: time alone produces nothing, and whatever operation
    sequence follows, every event sent is the immediate forward (`repeat=0`) of an event that
    arrived at that instant. -/
theorem nothing_after_stop (c : Cfg) (s : State) (hacc : s.resp = []) :
    (∀ t, advance c (stop s) t = (stop s, []))
    ∧ ∀ ops, ∀ x ∈ (run c (stop s) ops).2,
        x.rep = 0 ∧ ∃ pl d, Op.event x.t pl c.etype d ∈ ops := by
  refine ⟨fun t => advance_none c _ t rfl, ?_⟩
  intro ops x hx
  rw [run_stopped c (stop s) ops rfl rfl hacc] at hx
  obtain ⟨op, hop, hx⟩ := List.mem_flatMap.mp hx
  cases op with
  | event t pl e d =>
    simp only [forwardOf] at hx
    split at hx
    · next he =>
      simp only [List.mem_singleton] at hx
      subst hx; subst he
      exact ⟨rfl, pl, d, hop⟩
    · cases hx
  | advance t => cases hx
  | stop => cases hx

/-- A Repeat feeding a Repeat (same event type): an event arriving at the first block at `t`
    reaches the destination in the same step, stamped `t`, with `repeat=0`; it names the second
    block as `source` and the first one as `orig_source`, the `repeat` item written by the first
    block is replaced (the unrepaired code raises TypeError here), all other items are kept.
    More generally, whatever the first block sends – including its repetitions `repeat=k` – is
    forwarded by the second block at the same instant with `repeat=0`. -/
theorem chain_of_two (c1 c2 : Cfg) (hty : c2.etype = c1.etype) (ch : Chain) (t : Nat) (pl : Placement)
    (data : Data) (flags : List Bool) (r : Chain × List Sent) (hacc : ch.s1.resp = [])
    (hr : Chain.event c1 c2 ch t pl c1.etype data flags = some r) :
    (∃ a, (⟨t, c2.etype, 0, outData c2 (withOrig (outData c1 (withOrig data) 0)) 0, a⟩ : Sent) ∈ r.2)
    ∧ r.1.s1.out = 0
    ∧ (∀ x ∈ (event c1 ch.s1 t pl c1.etype data).2,
        ∃ a, (⟨x.t, c2.etype, 0, outData c2 (withOrig x.data) 0, a⟩ : Sent) ∈ r.2)
    ∧ ∀ k j, (outData c2 (withOrig (outData c1 (withOrig data) k)) j).get? "repeat" = some (Val.int j)
        ∧ (outData c2 (withOrig (outData c1 (withOrig data) k)) j).get? "source" = some (Val.str c2.name)
        ∧ (outData c2 (withOrig (outData c1 (withOrig data) k)) j).get? "orig_source" = some (Val.str c1.name)
        ∧ ∀ key, key ≠ "source" → key ≠ "orig_source" → key ≠ "repeat" →
            (outData c2 (withOrig (outData c1 (withOrig data) k)) j).get? key = data.get? key := by
  simp only [Chain.event, Chain.finish] at hr
  split at hr
  · next s2' ys hfeed =>
    cases hr
    have hall : ∀ x ∈ (event c1 ch.s1 t pl c1.etype data).2,
        ∃ a, (⟨x.t, c2.etype, 0, outData c2 (withOrig x.data) 0, a⟩ : Sent) ∈ ys := by
      intro x hx
      have hshape : x.etype = c2.etype := by
        rw [hty]
        rw [event_sends _ _ _ _ _ hacc] at hx
        rcases List.mem_append.mp hx with h | h
        · exact advanceFuel_etype c1 _ _ _ x h
        · simp only [List.mem_singleton] at h; subst h; rfl
      exact feed_forwards c2 _ _ _ _ _ hfeed x hx hshape
    refine ⟨?_, ?_, ?_, ?_⟩
    · have hm : (⟨t, c1.etype, 0, outData c1 (withOrig data) 0, .ok⟩ : Sent) ∈
          (event c1 ch.s1 t pl c1.etype data).2 := by
        rw [event_sends _ _ _ _ _ hacc]; simp
      obtain ⟨a, ha⟩ := hall _ hm
      exact ⟨a, List.mem_append_left _ ha⟩
    · show (event c1 ch.s1 t pl c1.etype data).1.out = 0
      rw [event_state _ _ _ _ _ hacc]
    · intro x hx
      obtain ⟨a, ha⟩ := hall x hx
      exact ⟨a, List.mem_append_left _ ha⟩
    · intro k j
      obtain ⟨a1, a2, a3, a4⟩ := data_preserved_source_rewritten c2 (outData c1 (withOrig data) k) j
      obtain ⟨b1, b2, b3, b4⟩ := data_preserved_source_rewritten c1 data k
      refine ⟨a3, a1, ?_, ?_⟩
      · rw [a2, b1]; rfl
      · intro key h1 h2 h3
        rw [a4 key h1 h2 h3, b4 key h1 h2 h3]
  · cases hr

/-! ### destinations that refuse a delivery

`Repeat._event` forwards the event synchronously and queues it for the main task only AFTERWARDS
(`send`, then `self._queue.put_nowait(data)`): an exception of the forward leaves the handler
before anything is queued. -/

/-- An event whose original forwarding the destination refuses with `EdzedUnknownEvent` (the
    destination does not know the event type) is never repeated and disturbs nothing:
    (a) apart from the output 0 and the consumed answer the state is the one just before the
    arrival – NO ITEM IS QUEUED, the block is not stopped (the simulation runs on), an event that
    was being repeated goes on with its own schedule and numbering;
    (b) the sender is told (`Ret.unknown`), the step sends the due older repetitions and this one
    refused forward;
    (c) if nothing was being repeated, then whatever time passes nothing is sent. -/
theorem refused_event_never_repeated (c : Cfg) (s : State) (t : Nat) (pl : Placement) (data : Data)
    (h : (advance c s (pl.horizon t)).1.answer = .unknown) :
    (event c s t pl c.etype data).1 =
        { (advance c s (pl.horizon t)).1 with
            out := 0, resp := (advance c s (pl.horizon t)).1.resp.tail }
    ∧ (event c s t pl c.etype data).2 =
        (advance c s (pl.horizon t)).2 ++ [⟨t, c.etype, 0, outData c (withOrig data) 0, .unknown⟩]
    ∧ (deliver c s t pl c.etype data false).2.2 = .unknown
    ∧ ((advance c s (pl.horizon t)).1.cur = none →
        ∀ t', (advance c (event c s t pl c.etype data).1 t').2 = []) := by
  have hst : (event c s t pl c.etype data).1 =
      { (advance c s (pl.horizon t)).1 with
          out := 0, resp := (advance c s (pl.horizon t)).1.resp.tail } := by
    simp only [event, arrive_unknown _ _ _ _ h]
  refine ⟨hst, by simp only [event, arrive_unknown _ _ _ _ h], ?_, ?_⟩
  · simp [deliver, h]
  · intro hn t'
    rw [hst, advance_none _ _ _ (by simpa using hn)]

/-- the same for a block that is idle: the refused event leaves no trace but the output 0 -/
theorem refused_first_forward_leaves_idle (c : Cfg) (rs : List Resp) (t : Nat) (pl : Placement)
    (data : Data) :
    (event c { resp := .unknown :: rs } t pl c.etype data).1 = { resp := rs } := by
  have h0 : advance c { resp := .unknown :: rs } (pl.horizon t) = ({ resp := .unknown :: rs }, []) :=
    advance_none _ _ _ rfl
  have h := (refused_event_never_repeated c { resp := .unknown :: rs } t pl data
    (by rw [h0]; rfl)).1
  rw [h, h0]
  rfl

/-- A repetition the destination refuses – for whatever reason – is the last thing the block
    does: the exception is raised inside the monitored main task, the simulation is aborted
    (block stopped, nothing pending), the output shows the number of the failed repetition. -/
theorem refused_repetition_stops_simulation (c : Cfg) (s : State) (p : Pending) (t : Nat)
    (hs : s.cur = some p) (hd : p.deadline ≤ t) (ha : s.answer ≠ .ok) :
    advance c s t =
      ({ out := p.rep + 1, cur := none, stopped := true, resp := s.resp.tail },
       [⟨p.deadline, c.etype, p.rep + 1, outData c p.data (p.rep + 1), s.answer⟩]) := by
  have hf : fire c s p =
      ({ out := p.rep + 1, cur := none, stopped := true, resp := s.resp.tail },
       ⟨p.deadline, c.etype, p.rep + 1, outData c p.data (p.rep + 1), s.answer⟩) := by
    unfold fire
    split
    · next e => exact absurd e ha
    · rfl
  simp only [advance, advanceFuel, hs, if_pos hd, hf]
  rw [advanceFuel_none _ _ _ _ rfl]

/-- A forward that fails with any other exception aborts the simulation (the exception passes
    through `Repeat`'s own `SBlock.event`): the block is stopped, nothing is queued for the
    event; at most a timeout of that very instant (deadline `≤ t`, the event that was being
    repeated) is still on its way, and once it has fired nothing is pending. -/
theorem failed_forward_stops_simulation (c : Cfg) (s : State) (t : Nat) (pl : Placement) (data : Data)
    (h : (advance c s (pl.horizon t)).1.answer = .fatal) :
    (event c s t pl c.etype data).1.stopped = true
    ∧ (∀ p, (event c s t pl c.etype data).1.cur = some p →
        (advance c s (pl.horizon t)).1.cur = some p ∧ p.deadline ≤ t)
    ∧ (deliver c s t pl c.etype data false).2.2 = .fatal
    ∧ ∀ (st : State) (p : Pending), st.stopped = true → (fire c st p).1.cur = none := by
  refine ⟨?_, ?_, by simp [deliver, h], ?_⟩
  · simp only [event, arrive, bne_self_eq_false, Bool.false_eq_true, if_false, h]
  · intro p hp
    simp only [event, arrive, bne_self_eq_false, Bool.false_eq_true, if_false, h] at hp
    split at hp
    · next q hq =>
      split at hp
      · next hd => cases hp; exact ⟨hq, hd⟩
      · cases hp
    · cases hp
  · intro st p hst
    unfold fire
    split
    · simp [hst]
    · rfl

/-- `deliver` is `event` plus the result for the sender; an external event (`ExtEvent.send`) is
    refused without reaching the block once the simulation is not running -/
theorem deliver_is_event (c : Cfg) (s : State) (t : Nat) (pl : Placement) (etype : String) (data : Data) :
    ((deliver c s t pl etype data false).1, (deliver c s t pl etype data false).2.1) =
        event c s t pl etype data
    ∧ ((advance c s (pl.horizon t)).1.stopped = true →
        deliver c s t pl etype data true =
          ((advance c s (pl.horizon t)).1, (advance c s (pl.horizon t)).2, .notReady)) := by
  constructor
  · simp [deliver, event]
  · intro h; simp [deliver, h]

/-! ### non-vacuity: concrete runs (interval 10 µs) -/

/-- count 3: an event at 5, a newer one at 35 in the loop iteration of the third timeout (`T`):
    the third repetition of the older event is superseded; then three repetitions and silence -/
example : ((run ⟨"r", "put", 10, some 3⟩ {}
      [.event 5 .T "put" [("value", Val.int 1)], .advance 30,
       .event 35 .T "put" [("value", Val.int 2)], .event 40 .B "other" [], .advance 100]).2.map
      fun x => (x.t, x.rep, x.data.get? "value")) =
    [(5, 0, some (Val.int 1)), (15, 1, some (Val.int 1)), (25, 2, some (Val.int 1)),
     (35, 0, some (Val.int 2)), (45, 1, some (Val.int 2)), (55, 2, some (Val.int 2)),
     (65, 3, some (Val.int 2))] := by decide +kernel

/-- the same arrival after the loop has settled (`A`): the third repetition comes first -/
example : ((run ⟨"r", "put", 10, some 3⟩ {}
      [.event 5 .T "put" [], .event 35 .A "put" [], .advance 50]).2.map fun x => (x.t, x.rep)) =
    [(5, 0), (15, 1), (25, 2), (35, 3), (35, 0), (45, 1)] := by decide +kernel

/-- a destination refusing deliveries: the event at 5 is accepted and repeated; the one at 18 is
    refused with EdzedUnknownEvent (third answer) – it is never repeated and the first event goes
    on (`repeat=2` at 25); the repetition at 35 fails (fifth answer): the block is stopped -/
example : ((run ⟨"r", "put", 10, none⟩ { resp := [.ok, .ok, .unknown, .ok, .fatal] }
      [.event 5 .A "put" [("value", Val.int 1)], .event 18 .T "put" [("value", Val.int 2)],
       .advance 100]).2.map fun x => (x.t, x.rep, x.data.get? "value", x.resp)) =
    [(5, 0, some (Val.int 1), Resp.ok), (15, 1, some (Val.int 1), Resp.ok),
     (18, 0, some (Val.int 2), Resp.unknown), (25, 2, some (Val.int 1), Resp.ok),
     (35, 3, some (Val.int 1), Resp.fatal)] := by decide +kernel

example : (run ⟨"r", "put", 10, none⟩ { resp := [.ok, .ok, .unknown, .ok, .fatal] }
      [.event 5 .A "put" [("value", Val.int 1)], .event 18 .T "put" [("value", Val.int 2)],
       .advance 100]).1 = { out := 3, cur := none, stopped := true, resp := [] } := by decide +kernel

example : DueBy ⟨"r", "put", 10, some 3⟩ 5 1000 3 := by
  refine ⟨?_, by decide, Or.inl rfl⟩
  intro m e; cases e; exact Nat.le_refl _

/-- a chain r1 (interval 10, count 1) → r2 (interval 4, count none): the hypotheses of
    `chain_of_two` are satisfiable and the second block repeats what the first one sends -/
example : ((Chain.event ⟨"r1", "put", 10, some 1⟩ ⟨"r2", "put", 4, none⟩ {} 5 .T "put"
      [("value", Val.int 1), ("source", Val.str "src")] []).bind fun r =>
      (Chain.advance ⟨"r1", "put", 10, some 1⟩ ⟨"r2", "put", 4, none⟩ r.1 20 [false]).map fun q =>
        (r.2 ++ q.2).map fun x => (x.t, x.rep, x.data.get? "orig_source")) =
    some [(5, 0, some (Val.str "r1")), (9, 1, some (Val.str "r1")), (13, 2, some (Val.str "r1")),
          (15, 0, some (Val.str "r1")), (19, 1, some (Val.str "r1"))] := by decide +kernel

end Edzed.Repeat

/-! ### tie by translation (`tools/py2lean_repeat.py`, scheme `TrAct`)

`Gen.TrR.repeatEventActs` is the list of primitive actions of `Repeat._event`, translated from
the current source in program order. -/

namespace Edzed.Repeat.TrTie

open Edzed.Repeat Edzed.Gen.TrR

/-- What a list of primitive actions of the handler does at time `t` to a block in state `s`
    holding the event data `d`.  `send` offers the event to the destination, whose answer is the
    next one of the script; when it REFUSES, the exception leaves the handler and the rest of the
    list is skipped (`unknown`: nothing else happens; `fatal`: `SBlock.event` of the Repeat block
    aborts the simulation – a timeout of that very instant is still on its way).  `enqueue`: the
    main task takes the item in the same instant and starts to wait for `interval`. -/
def runActs (c : Cfg) (t : Nat) : State → Data → List Act → State × List Sent
  | s, _, [] => (s, [])
  | s, _, .ret :: _ => (s, [])
  | s, d, .warnOnce :: r => runActs c t s d r
  | s, d, .setItemFromItem dst src :: r => runActs c t s (d.set dst ((d.get? src).getD Val.none)) r
  | s, d, .setOutput n :: r => runActs c t { s with out := n } d r
  | s, d, .send rep :: r =>
    let x : Sent := ⟨t, c.etype, rep, outData c d rep, s.answer⟩
    match s.answer with
    | .ok => let q := runActs c t { s with resp := s.resp.tail } d r; (q.1, x :: q.2)
    | .unknown => ({ s with resp := s.resp.tail }, [x])
    | .fatal =>
      ({ s with
          cur := match s.cur with
            | some p => if p.deadline ≤ t then some p else none
            | none => none
          stopped := true
          resp := s.resp.tail }, [x])
  | s, d, .enqueue :: r =>
    runActs c t { s with cur := if !s.stopped && repeating c 0 then some ⟨d, 0, t + c.interval⟩ else none } d r

/-- the model's handler `arrive` IS the meaning of the actions of `Repeat._event`, translated from the source -/
theorem translated_event_is_model (c : Cfg) (s : State) (t : Nat) (etype : String) (data : Data) :
    runActs c t s data (repeatEventActs (etype != c.etype)) = arrive c s t etype data := by
  unfold repeatEventActs arrive
  cases h : (etype != c.etype)
  · cases hr : s.resp with
    | nil => simp [runActs, withOrig, State.answer, hr]
    | cons a rs =>
      cases a <;> simp [runActs, withOrig, State.answer, hr]
      cases s.cur <;> rfl
  · simp [runActs]

/-- In the source the synchronous forward PRECEDES the queueing, which is the last action: an
    exception of the forward leaves the handler before anything is queued. -/
theorem send_precedes_queue :
    ∃ pre, repeatEventActs false = pre ++ [Act.send 0, Act.enqueue]
      ∧ Act.enqueue ∉ pre ∧ ∀ n, Act.send n ∉ pre := by
  refine ⟨(repeatEventActs false).take ((repeatEventActs false).length - 2), by decide, by decide, ?_⟩
  intro n; unfold repeatEventActs; simp

/-- … hence, by the meaning of the translated actions: a refused forward queues nothing -/
theorem translated_refused_forward_queues_nothing (c : Cfg) (s : State) (t : Nat) (data : Data)
    (h : s.answer = .unknown) :
    (runActs c t s data (repeatEventActs false)).1.cur = s.cur
    ∧ (runActs c t s data (repeatEventActs false)).1.stopped = s.stopped := by
  unfold repeatEventActs
  cases hr : s.resp with
  | nil => simp [State.answer, hr] at h
  | cons a rs =>
    cases a <;> simp [State.answer, hr] at h
    simp [runActs, State.answer, hr]

/-! #### `Repeat._maintask`: one iteration of its loop, translated (`Gen.TrR.maintaskIter`) -/

/-- What the actions of an iteration do to a block that is repeating `p` (time = the expired
    deadline).  A `send` the destination refuses raises inside the main task: the task dies, the
    monitor aborts the simulation (`true` in the last component), the rest is skipped. -/
def runMActs (c : Cfg) (p : Pending) : State → List MAct → State × List Sent × Bool
  | s, [] => (s, [], false)
  | s, .setOutput n :: r => runMActs c p { s with out := n } r
  | s, .send rep :: r =>
    let x : Sent := ⟨p.deadline, c.etype, rep, outData c p.data rep, s.answer⟩
    match s.answer with
    | .ok => let q := runMActs c p { s with resp := s.resp.tail } r; (q.1, x :: q.2.1, q.2.2)
    | _ => ({ out := s.out, cur := none, stopped := true, resp := s.resp.tail }, [x], true)

/-- … and the state in which the next iteration waits: with the new `repeat`, for `interval`
    again when `repeating` (a task that survived an abort is cancelled before it can wait). -/
def afterIter (c : Cfg) (p : Pending) (o : IterOut) (s : State) : State × List Sent :=
  let q := runMActs c p s o.acts
  if q.2.2 then (q.1, q.2.1)
  else
    ({ q.1 with
        cur := if !q.1.stopped && o.repeating
               then some { p with rep := o.rep, deadline := p.deadline + c.interval } else none },
     q.2.1)

/-- the model's `fire` IS the meaning of the translated iteration that ends with a timeout and an
    empty queue: `repeat += 1`, `set_output(repeat)`, the re-send with that `repeat`, then
    `repeating = count is None or repeat < count`; `data` is kept -/
theorem translated_timeout_is_fire (c : Cfg) (s : State) (p : Pending) :
    ∃ o, maintaskIter c.count true p.rep (.timeout true) = some o
      ∧ o.newData = false ∧ o.continued = false
      ∧ afterIter c p o s = ((fire c s p).1, [(fire c s p).2]) := by
  refine ⟨⟨false, p.rep + 1, [.setOutput (p.rep + 1), .send (p.rep + 1)], repeating c (p.rep + 1), false⟩,
    ?_, rfl, rfl, ?_⟩
  · unfold maintaskIter repeating
    cases c.count <;> simp
  · unfold afterIter fire
    cases hr : s.resp with
    | nil => simp [runMActs, State.answer, hr]
    | cons a rs => cases a <;> simp [runMActs, State.answer, hr]

/-- an iteration that gets an item (idle or repeating alike): `data` is the new item, the numbering
    restarts at 0, NOTHING is sent (the original was forwarded by the handler), and the task
    repeats iff `count is None or 0 < count` – this is the meaning of `Act.enqueue` in `runActs` -/
theorem translated_item_restarts (c : Cfg) (b : Bool) (r : Nat) :
    maintaskIter c.count b r .item = some ⟨true, 0, [], repeating c 0, false⟩ := by
  unfold maintaskIter repeating
  cases b <;> cases c.count <;> simp

theorem translated_item_is_enqueue (c : Cfg) (s : State) (t : Nat) (d : Data) (b : Bool) (r : Nat) :
    ∃ o, maintaskIter c.count b r .item = some o ∧ o.acts = [] ∧
      (runActs c t s d [Act.enqueue]).1.cur =
        (if !s.stopped && o.repeating then some ⟨d, o.rep, t + c.interval⟩ else none) :=
  ⟨_, translated_item_restarts c b r, rfl, rfl⟩

/-- THE SAME-ITERATION RULE in the source: a timeout that finds the queue non-empty sends nothing
    and changes nothing (`continue`) – the new item supersedes the event repeated so far -/
theorem translated_timeout_superseded (count : Option Nat) (r : Nat) :
    maintaskIter count true r (.timeout false) = some ⟨false, r, [], true, true⟩ := by
  unfold maintaskIter; simp

/-- an idle task waits without a timeout, and the task starts idle -/
theorem translated_idle_never_times_out (count : Option Nat) (r : Nat) (q : Bool) :
    maintaskIter count false r (.timeout q) = none ∧ maintaskInit = false := by
  unfold maintaskIter; simp [maintaskInit]

end Edzed.Repeat.TrTie
