/-
C06 — the saved state always matches the last completed event and survives a restart.

Model: EdzedModel/Persist.lean (storage = finite map with value semantics; `AddonPersistence.event`,
`save_persistent_state`, `init_from_persistent_data`, `_check_persistent_data`, the two
initialisation passes, save after init, save + time stamp at stop iff `start_ok`;
`get_state`/`_restore_state` of Input, Counter, FSM/Timer/InputExp, TimeDate/TimeSpan).
The FSM part mirrors the code with `patches/C04-timer-state-after-fire.diff` applied.

The stop is two steps: `stopBegin` (what `run_forever` does before the first `await` of the clean-up:
save every persistent block and the stop time) and `stopEnd` (the clean-up is over, completed or
interrupted by a cancellation of the simulation task); `stop` = both at one instant.

All statements hold for every circuit (any number of blocks of any kind, any FSM tables that
pass `_build_tables`), every initial storage content, every calendar predicate `env`, every
history (`List Op`, no bound) and every instant.
-/
import EdzedModel.Persist
import EdzedProofs.Persist
import EdzedModel.Gen.TranslatedPersist
import EdzedModel.Gen.TranslatedPersist2
import EdzedModel.Gen.TranslatedCronCfg
import Mathlib.Tactic.NormNum
import Mathlib.Tactic.Linarith
import Mathlib.Tactic.Ring

namespace Edzed.Persist

/-- a circuit as the application builds it: not started, every block has its own key
    (`str(block)`, never `edzed-…`), FSM tables accepted by `_build_tables`, blocks uninitialised -/
structure Fresh0 (c : Circ) : Prop where
  idle : c.phase = .idle
  nodup : (keys c.blocks).Nodup
  plain : ∀ k ∈ keys c.blocks, reserved k = false
  valid : ∀ b ∈ c.blocks, KindValid b.kind
  uninit : ∀ b ∈ c.blocks, b.dyn.inited = false
  untouched : ∀ b ∈ c.blocks, b.steps = 0 ∧ b.restored = false

/-- …without events between the blocks (`Circ.start` and the histories do not follow `on_output` links; the
    start-up of circuits WITH links is `Circ.startL`, see the last section) -/
structure Fresh (c : Circ) : Prop extends Fresh0 c where
  nolinks : ∀ b ∈ c.blocks, b.link = none

theorem Fresh.inv {c : Circ} (h : Fresh c) (cal : Val → Option Bool) (now : Time) (mode : StartMode) :
    Inv (c.start cal now mode) :=
  inv_start c cal now mode h.idle h.nodup h.plain h.valid h.uninit

/-! ### the storage follows the state -/

/-- `storage_refines_state`, part 1: after a successful initialisation the storage holds the state
    of EVERY persistent block (sync_state or not) -/
theorem storage_holds_state_after_init (c0 : Circ) (h0 : Fresh c0) (cal : Val → Option Bool) (now : Time)
    (hr : (c0.start cal now .ok).phase = .running) :
    ∀ b ∈ (c0.start cal now .ok).blocks, b.persistent = true →
      (c0.start cal now .ok).store.get? b.key = getState b.kind b.dyn := by
  have hi := h0.inv cal now .ok
  have hs : ∃ s, (c0.start cal now .ok).store = saveAll s (c0.start cal now .ok).blocks := by
    unfold Circ.start at hr ⊢
    simp only [h0.idle, bne_self_eq_false, Bool.false_eq_true, if_false] at hr ⊢
    split
    · exact ⟨_, rfl⟩
    · next hc => simp [hc] at hr
  obtain ⟨s, hs⟩ := hs
  intro b hb hp
  rw [hs]
  exact saveAll_mem _ hi.nodup s hb hp

/-- `storage_refines_state`, part 2: for every history, after initialisation and after every event
    (handled, rejected with an exception, or delivered by a timer) the storage slot of every
    block with `persistent and sync_state` holds exactly `get_state()` of that block -/
theorem storage_refines_state (env : Time → Val → Option Bool) (c0 : Circ) (h0 : Fresh c0) (now : Time)
    (ops : List Op) :
    let c := run env (c0.start (env now) now .ok) ops
    (c.phase = .running ∨ c.phase = .aborted) →
    ∀ b ∈ c.blocks, b.persistent = true → b.sync = true → c.store.get? b.key = getState b.kind b.dyn :=
  fun hg => (inv_run env ops (h0.inv (env now) now .ok)).synced (hg.elim Or.inl (fun h => Or.inr (Or.inl h)))

/-- the single step behind it: a handled event of a block with `persistent and sync_state` ends with
    the block's new state in its slot (in any circuit state, reachable or not) -/
theorem handled_event_is_saved (c c' : Circ) (cal : Val → Option Bool) (i : Nat) (ev : Ev) (v : Val)
    (h : c.event cal i ev = some (c', .ret v)) :
    ∀ b, c.blocks[i]? = some b → b.persistent = true → b.sync = true →
      ∃ b', c'.blocks[i]? = some b' ∧ b'.key = b.key ∧ c'.store.get? b.key = getState b'.kind b'.dyn := by
  intro b hb hp hsy
  unfold Circ.event at h
  split at h
  · simp at h
  · rw [hb] at h
    simp only at h
    generalize blockEvent b.kind cal c.now b.dyn ev = p at h
    obtain ⟨d, r0⟩ := p
    cases r0 <;> simp only [Option.some.injEq, Prod.mk.injEq, reduceCtorEq, and_false] at h
    obtain ⟨rfl, _⟩ := h
    have hlen : i < c.blocks.length := (List.getElem?_eq_some_iff.mp hb).1
    refine ⟨{ b with dyn := d }, by simp [hlen], rfl, ?_⟩
    simp only [hp, hsy, Bool.and_self, if_true]
    exact saveBlk_same c.store _ rfl

/-! ### nothing is written once a handler has failed -/

/-- `frozen_after_handler_error`: when the handler of block `i` fails in a history, the slot of that
    block keeps, for the rest of the run and through the stop, the content it had before the failing
    event (= the state after the last completed event, by `storage_refines_state`) -/
theorem frozen_after_handler_error (env : Time → Val → Option Bool) (c0 : Circ) (h0 : Fresh c0) (now : Time)
    (ops : List Op) (cal : Val → Option Bool) (i : Nat) (ev : Ev) (c1 : Circ) (b : Blk)
    (hb : (run env (c0.start (env now) now .ok) ops).blocks[i]? = some b)
    (h : (run env (c0.start (env now) now .ok) ops).event cal i ev = some (c1, .handlerError))
    (later : List Op) (t : Time) :
    (run env c1 later).store.get? b.key = (run env (c0.start (env now) now .ok) ops).store.get? b.key ∧
    ((run env c1 later).stop t).store.get? b.key = (run env (c0.start (env now) now .ok) ops).store.get? b.key := by
  have hi := inv_run env ops (h0.inv (env now) now .ok)
  generalize run env (c0.start (env now) now .ok) ops = c at hi hb h
  have hres : reserved b.key = false := hi.plain _ (List.mem_map_of_mem (List.mem_of_getElem? hb))
  have hf : Frozen b.key (c.store.get? b.key) c1 := by
    unfold Circ.event at h
    split at h
    · simp at h
    · rw [hb] at h
      simp only at h
      generalize blockEvent b.kind cal c.now b.dyn ev = p at h
      obtain ⟨d, r0⟩ := p
      cases r0 <;> simp only [Option.some.injEq, Prod.mk.injEq, reduceCtorEq, and_false] at h
      obtain ⟨rfl, _⟩ := h
      refine ⟨?_, rfl⟩
      intro x hx hk
      rcases mem_set_key hi.nodup hb hx with rfl | ⟨_, hne⟩
      · rfl
      · exact absurd hk hne
  exact ⟨(frozen_run env later hf).2, frozen_stop (frozen_run env later hf) hres t⟩

/-! ### failed start -/

/-- `no_write_on_failed_start`: when `abort()` precedes the start nothing at all is touched; when a
    block's `start()` raises only the unused entries are removed (sanctioned by the property) —
    no block state and no stop time is written, whatever time the failure is noticed -/
theorem no_write_on_failed_start (c0 : Circ) (h0 : Fresh c0) (cal : Val → Option Bool) (now t : Time) :
    ((c0.start cal now .abortedBefore).stop t).store = c0.store ∧
    ((c0.start cal now .startRaises).stop t).store = cleanUnused c0.store c0.blocks := by
  constructor <;> simp [Circ.start, Circ.stop, Circ.stopBegin, Circ.stopEnd, h0.idle]

/-- what the removal of unused entries keeps: reserved entries and the entries of persistent blocks -/
theorem cleanUnused_keeps (s : Storage) (bs : List Blk) (k : String)
    (h : reserved k = true ∨ ∃ b ∈ bs, b.persistent = true ∧ b.key = k) :
    (cleanUnused s bs).get? k = s.get? k := by
  unfold cleanUnused
  rw [Storage.get?_filterKey (fun k => reserved k || (persistentKeys bs).contains k)]
  have : (reserved k || (persistentKeys bs).contains k) = true := by
    rcases h with h | ⟨b, hb, hp, rfl⟩
    · simp [h]
    · have : (persistentKeys bs).contains b.key = true := by
        simp only [persistentKeys, List.contains_eq_mem, List.mem_map, List.mem_filter, decide_eq_true_eq]
        exact ⟨b, ⟨hb, hp⟩, rfl⟩
      rw [this, Bool.or_true]
  rw [if_pos this]

/-! ### stop -/

/-- `stop_saves_all_with_timestamp`: for every history of a circuit whose start went through, the stop
    at time `t` leaves the state of EVERY persistent block (sync_state or not) and the stop time -/
theorem stop_saves_all_with_timestamp (env : Time → Val → Option Bool) (c0 : Circ) (h0 : Fresh c0) (now : Time)
    (ops : List Op) (t : Time) :
    let c := run env (c0.start (env now) now .ok) ops
    (c.stop t).store.get? stopKey = some (.ts t) ∧
    ∀ b ∈ c.blocks, b.persistent = true → (c.stop t).store.get? b.key = getState b.kind b.dyn := by
  intro c
  have hi : Inv c := inv_run env ops (h0.inv (env now) now .ok)
  have hl : Live c := live_run env ops (live_start c0 (env now) now h0.idle)
  rw [stop_store c hl t]
  refine ⟨Storage.get?_set_same .., ?_⟩
  intro b hb hp
  have hne : b.key ≠ stopKey := fun h => by
    have := hi.plain _ (List.mem_map_of_mem hb)
    rw [h, reserved_stopKey] at this; simp at this
  rw [Storage.get?_set_ne _ _ hne]
  exact saveAll_mem _ hi.nodup _ hb hp

/-! ### round trips  `restore (get_state b) ≈ b` -/

/-- Input: same value, same output -/
theorem input_round_trip (i : Val) (d : Dyn) (hd : DynOk (.input i) d) (hi : d.inited = true)
    (cal : Val → Option Bool) (now' : Time) :
    ∃ e d', getState (.input i) d = some e ∧ restore (.input i) cal now' e = some d' ∧
      d'.inited = true ∧ d'.value = d.value ∧ d'.out = d.out := by
  refine ⟨.val d.value, { inited := true, value := d.value, out := d.value }, by simp [getState, hi], ?_, rfl, rfl, hd.1.symm⟩
  simp [restore, hd.2.1, hd.2.2.1, hd.2.2.2.1]

/-- Counter: same value, same output (the restored value passes through `_setmod` again) -/
theorem counter_round_trip (m : Option Int) (i : Int) (d : Dyn) (hd : DynOk (.counter m i) d)
    (hi : d.inited = true) (cal : Val → Option Bool) (now' : Time) :
    ∃ e d', getState (.counter m i) d = some e ∧ restore (.counter m i) cal now' e = some d' ∧
      d'.inited = true ∧ d'.value = d.value ∧ d'.out = d.out := by
  obtain ⟨⟨v, hv⟩, ho, _⟩ := hd
  have hrr : reduce m (reduce m v) = reduce m v := by
    cases m with
    | none => rfl
    | some m => exact Int.fmod_fmod v m
  refine ⟨.val d.value, { inited := true, value := d.value, out := d.value }, by simp [getState, hi], ?_, rfl, rfl, ho.symm⟩
  rw [hv]
  simp only [restore, intOf_int, hrr]

/-- TimeDate / TimeSpan: same configuration; the output is what the calendar says at the restart -/
theorem cal_round_trip (i : Val) (d : Dyn) (hi : d.inited = true) (cal : Val → Option Bool) (now' : Time)
    (o : Bool) (hc : cal d.value = some o) :
    ∃ e d', getState (.cal i) d = some e ∧ restore (.cal i) cal now' e = some d' ∧
      d'.inited = true ∧ d'.value = d.value ∧ d'.out = .bool o := by
  refine ⟨.val d.value, { inited := true, value := d.value, out := .bool o }, by simp [getState, hi], ?_, rfl, rfl, rfl⟩
  simp [restore, hc]

/-- FSM (generic, Timer, InputExp): same state, same `sdata`, same output, NO entry action run, the
    timer — if one is running and has not run out yet — expires at the same absolute time and
    delivers the same event -/
theorem fsm_round_trip (c : FsmCls) (d : Dyn) (hd : DynOk (.fsm c) d) (hi : d.inited = true)
    (cal : Val → Option Bool) (now' : Time) (hrun : ∀ t tev, d.timer = some (t, tev) → now' < t) :
    ∃ e d', getState (.fsm c) d = some e ∧ restore (.fsm c) cal now' e = some d' ∧
      d'.inited = true ∧ d'.fstate = d.fstate ∧ d'.sdata = d.sdata ∧ d'.out = d.out ∧
      d'.timer = d.timer ∧ d'.entered = [] := by
  obtain ⟨hs0, ho, ht⟩ := hd
  have hs : d.fstate ∈ c.states := by simpa using hs0
  refine ⟨.fsm d.fstate (d.timer.map (·.1)) d.sdata, ?_⟩
  cases htm : d.timer with
  | none =>
    refine ⟨{ inited := true, fstate := d.fstate, sdata := d.sdata, out := d.out }, by simp [getState, hi, htm], ?_,
      rfl, rfl, rfl, rfl, rfl, rfl⟩
    simp [restore, hs, ho]
  | some p =>
    obtain ⟨t, tev⟩ := p
    have h1 := hrun t tev htm
    have h2 := ht t tev htm
    refine ⟨{ inited := true, fstate := d.fstate, sdata := d.sdata, out := d.out, timer := some (t, tev) },
      by simp [getState, hi, htm], ?_, rfl, rfl, rfl, rfl, rfl, rfl⟩
    simp [restore, hs, ho, h2, Nat.not_le.mpr h1]

/-- `expired_timer_discarded`: a saved FSM state whose timer ran out during the downtime (expiry at or
    before the restart instant) is not restored -/
theorem expired_timer_discarded (c : FsmCls) (st : String) (t : Time) (sd : Data) (cal : Val → Option Bool)
    (now' : Time) (h : t ≤ now') : restore (.fsm c) cal now' (.fsm st (some t) sd) = none := by
  simp only [restore]
  split
  · rfl
  · split
    · rfl
    · simp

/-! ### expiration -/

/-- `expiration_rule`: the saved state is disregarded iff `expiration` is set and either is `≤ 0` or the
    recorded stop time plus `expiration` lies before the restart instant; without a valid stop time
    a positive expiration is not checked -/
theorem expiration_rule (x : Option Int) (ts : Option Time) (now' : Time) :
    expired x ts now' = true ↔
      ∃ e, x = some e ∧ (e ≤ 0 ∨ ∃ t, ts = some t ∧ (t : Int) + e < (now' : Int)) := by
  unfold expired
  cases x with
  | none => simp
  | some e =>
    by_cases he : e ≤ 0
    · simp [he]
    · cases ts with
      | none => simp [he]
      | some t => simp [he]

/-- what `init_from_persistent_data` hands to the block -/
theorem load_rule (b : Blk) (store : Storage) (ts : Option Time) (cal : Val → Option Bool) (now' : Time)
    (e : Entry) (hp : b.persistent = true) (he : store.get? b.key = some e) :
    load b store ts cal now' = if expired b.expiration ts now' then none else restore b.kind cal now' e := by
  simp [load, hp, he]

/-! ### restart from any snapshot -/

/-- how the restored block relates to the saved one -/
def Same (k : Kind) (cal : Val → Option Bool) (d d' : Dyn) : Prop :=
  d'.inited = true ∧
  match k with
  | .fsm _ => d'.fstate = d.fstate ∧ d'.sdata = d.sdata ∧ d'.out = d.out ∧ d'.timer = d.timer ∧ d'.entered = []
  | .cal _ => d'.value = d.value ∧ ∃ o, cal d.value = some o ∧ d'.out = .bool o
  | _ => d'.value = d.value ∧ d'.out = d.out

theorem round_trip (k : Kind) (d : Dyn) (hd : DynOk k d) (hi : d.inited = true) (cal : Val → Option Bool)
    (now' : Time) (hrun : ∀ t tev, d.timer = some (t, tev) → now' < t)
    (hcal : ∀ i, k = .cal i → (cal d.value).isSome = true) :
    ∃ e d', getState k d = some e ∧ restore k cal now' e = some d' ∧ Same k cal d d' := by
  cases k with
  | input i =>
    obtain ⟨e, d', h1, h2, h3, h4, h5⟩ := input_round_trip i d hd hi cal now'
    exact ⟨e, d', h1, h2, h3, h4, h5⟩
  | counter m i =>
    obtain ⟨e, d', h1, h2, h3, h4, h5⟩ := counter_round_trip m i d hd hi cal now'
    exact ⟨e, d', h1, h2, h3, h4, h5⟩
  | cal i =>
    have := hcal i rfl
    obtain ⟨o, ho⟩ := Option.isSome_iff_exists.mp this
    obtain ⟨e, d', h1, h2, h3, h4, h5⟩ := cal_round_trip i d hi cal now' o ho
    exact ⟨e, d', h1, h2, h3, h4, o, ho, h5⟩
  | fsm c =>
    obtain ⟨e, d', h1, h2, h3, h4, h5, h6, h7, h8⟩ := fsm_round_trip c d hd hi cal now' hrun
    exact ⟨e, d', h1, h2, h3, h4, h5, h6, h7, h8⟩

/-- the core of a restart: a slot that holds `get_state()` of a well-formed state `d`, not expired and its
    timer not run out, makes the block of the new circuit come up as `d` -/
theorem restart_restores_block (c2 : Circ) (h2 : Fresh c2) (cal : Val → Option Bool) (now' : Time)
    (k : Kind) (d : Dyn) (hd : DynOk k d) (hin : d.inited = true)
    (j : Nat) (b2 : Blk) (hb2 : c2.blocks[j]? = some b2) (hkind : b2.kind = k) (hp2 : b2.persistent = true)
    (hstore : c2.store.get? b2.key = getState k d)
    (hexp : expired b2.expiration (readTs c2.store) now' = false)
    (hrun : ∀ t tev, d.timer = some (t, tev) → now' < t)
    (hcal : ∀ i, k = .cal i → (cal d.value).isSome = true) :
    ∃ b2', (c2.start cal now' .ok).blocks[j]? = some b2' ∧ b2'.key = b2.key ∧ Same k cal d b2'.dyn := by
  obtain ⟨e, d', he, hre, hsame⟩ := round_trip k d hd hin cal now' hrun hcal
  have hstore' : c2.store.get? b2.key = some e := by rw [hstore, he]
  have hload : load b2 (cleanUnused c2.store c2.blocks) (readTs c2.store) cal now' = some d' := by
    rw [load_cleanUnused b2 c2.blocks (List.mem_of_getElem? hb2), load_rule b2 _ _ cal now' e hp2 hstore',
      hexp, hkind]
    simpa using hre
  have h1 : (pass1 c2.blocks (cleanUnused c2.store c2.blocks) (readTs c2.store) cal now')[j]?
      = some { b2 with dyn := d', restored := true } := by
    simp [pass1, List.getElem?_map, hb2, hload]
  have h2' := pass2_inited cal now' _ h1 hsame.1
  refine ⟨{ b2 with dyn := d', restored := true }, ?_, rfl, hsame⟩
  unfold Circ.start
  simp only [h2.idle, bne_self_eq_false, Bool.false_eq_true, if_false]
  split <;> exact h2'

/-- `restart_from_any_snapshot`: take ANY history of a circuit and the storage as it is at that point
    (a crash point: the circuit is running or an error is pending).  A new circuit `c2` over that
    storage — any blocks, any settings — is started at any later instant `now'`.  Every block `b2`
    of it that is persistent and has the key and kind of a block `b` of the first circuit with
    `persistent and sync_state` comes up, when the saved state is neither expired nor its timer ran
    out, in the state of `b` at the crash point: same state/sdata/output, timer at the same
    absolute time, no entry action run (TimeDate/TimeSpan: same configuration, output per calendar).  -/
theorem restart_from_any_snapshot (env : Time → Val → Option Bool) (c0 : Circ) (h0 : Fresh c0) (now : Time)
    (ops : List Op) (c2 : Circ) (h2 : Fresh c2) (cal : Val → Option Bool) (now' : Time) :
    let c := run env (c0.start (env now) now .ok) ops
    (c.phase = .running ∨ c.phase = .aborted) → c2.store = c.store →
    ∀ b ∈ c.blocks, b.persistent = true → b.sync = true →
    ∀ (j : Nat) (b2 : Blk), c2.blocks[j]? = some b2 → b2.key = b.key → b2.kind = b.kind → b2.persistent = true →
      expired b2.expiration (readTs c.store) now' = false →
      (∀ t tev, b.dyn.timer = some (t, tev) → now' < t) →
      (∀ i, b.kind = .cal i → (cal b.dyn.value).isSome = true) →
      ∃ b2', (c2.start cal now' .ok).blocks[j]? = some b2' ∧ b2'.key = b.key ∧ Same b.kind cal b.dyn b2'.dyn := by
  intro c hg0 hst b hb hp hsy j b2 hb2 hk hkind hp2 hexp hrun hcal
  have hg : Good c := hg0.elim Or.inl (fun h => Or.inr (Or.inl h))
  have hi : Inv c := inv_run env ops (h0.inv (env now) now .ok)
  have hdyn := hi.ok hg b hb (Or.inr hp)
  obtain ⟨b2', h1, h2', h3⟩ := restart_restores_block c2 h2 cal now' b.kind b.dyn hdyn.1 hdyn.2 j b2 hb2 hkind hp2
    (by rw [hst, hk]; exact hi.synced hg b hb hp hsy) (by rw [hst]; exact hexp) hrun hcal
  exact ⟨b2', h1, h2'.trans hk, h3⟩

/-- …and a state that is expired, or whose timer ran out, is discarded in favour of the normal
    initialisation (stated for a second start that succeeds) -/
theorem expired_state_discarded (c2 : Circ) (h2 : Fresh c2) (cal : Val → Option Bool) (now' : Time)
    (j : Nat) (b2 : Blk) (hb2 : c2.blocks[j]? = some b2)
    (hdis : expired b2.expiration (readTs c2.store) now' = true ∨
      ∃ st t sd, c2.store.get? b2.key = some (.fsm st (some t) sd) ∧ t ≤ now' ∧ ∃ cl, b2.kind = .fsm cl)
    (hrun : (c2.start cal now' .ok).phase = .running) :
    (c2.start cal now' .ok).blocks[j]? = some { b2 with dyn := (regularInit b2.kind cal now').1 } := by
  have hload : load b2 (cleanUnused c2.store c2.blocks) (readTs c2.store) cal now' = none := by
    rw [load_cleanUnused b2 c2.blocks (List.mem_of_getElem? hb2)]
    unfold load
    split
    · rfl
    · rcases hdis with hx | ⟨st, t, sd, hst, ht, cl, hcl⟩
      · split
        · rfl
        · simp [hx]
      · rw [hst]
        simp only
        split
        · rfl
        · rw [hcl]; exact expired_timer_discarded cl st t sd cal now' ht
  have h1 : (pass1 c2.blocks (cleanUnused c2.store c2.blocks) (readTs c2.store) cal now')[j]? = some b2 := by
    simp [pass1, List.getElem?_map, hb2, hload]
  have hun : b2.dyn.inited = false := h2.uninit b2 (List.mem_of_getElem? hb2)
  unfold Circ.start at hrun ⊢
  simp only [h2.idle, bne_self_eq_false, Bool.false_eq_true, if_false] at hrun ⊢
  split
  · next hc =>
    simp only [Bool.and_eq_true] at hc
    exact pass2_fresh cal now' _ hc.1 h1 hun
  · next hc => simp [hc] at hrun

/-! ### any stop: the states and the time stamp of THIS stop are in the storage before the clean-up starts -/

/-- `stop_begin_saves_all_with_timestamp`: for every history of a circuit whose start went through, when the
    stop begins at `t` — before the first `await` of the clean-up — the storage holds the state of EVERY
    persistent block and the stop time `t` (the instant the stop began, not the end of the clean-up) -/
theorem stop_begin_saves_all_with_timestamp (env : Time → Val → Option Bool) (c0 : Circ) (h0 : Fresh c0)
    (now : Time) (ops : List Op) (t : Time) :
    let c := run env (c0.start (env now) now .ok) ops
    (c.stopBegin t).store.get? stopKey = some (.ts t) ∧
    (∀ b ∈ c.blocks, b.persistent = true → (c.stopBegin t).store.get? b.key = getState b.kind b.dyn) ∧
    (c.stopBegin t).blocks = c.blocks := by
  intro c
  have hi : Inv c := inv_run env ops (h0.inv (env now) now .ok)
  have hl : Live c := live_run env ops (live_start c0 (env now) now h0.idle)
  rw [stopBegin_store c hl t]
  refine ⟨Storage.get?_set_same .., ?_, ?_⟩
  · intro b hb hp
    have hne : b.key ≠ stopKey := fun h => by
      have := hi.plain _ (List.mem_map_of_mem hb)
      rw [h, reserved_stopKey] at this; simp at this
    rw [Storage.get?_set_ne _ _ hne]
    exact saveAll_mem _ hi.nodup _ hb hp
  · unfold Circ.stopBegin; split <;> rfl

/-- `stamp_of_this_stop_survives_cleanup`: whatever happens during the clean-up (events, timers firing, time
    passing — `later`) and however it ends (`complete` or interrupted: the simulation task cancelled while
    it awaits a `stop_async`), the storage holds the time stamp of THIS stop: the instant `t` it began.
    Hence the next start reads `persistent_ts = t` in both cases. -/
theorem stamp_of_this_stop_survives_cleanup (env : Time → Val → Option Bool) (c0 : Circ) (h0 : Fresh c0)
    (now : Time) (ops : List Op) (t : Time) (later : List Op) (t' : Time) (complete : Bool) :
    let c := run env (c0.start (env now) now .ok) ops
    let s := ((run env (c.stopBegin t) later).stopEnd t' complete).store
    s.get? stopKey = some (.ts t) ∧ readTs s = some t := by
  intro c s
  have hi : Inv (c.stopBegin t) := inv_stopBegin (inv_run env ops (h0.inv (env now) now .ok)) t
  have hst := (stop_begin_saves_all_with_timestamp env c0 h0 now ops t).1
  have hf := frozen_run env later (frozen_stamp hi.plain)
  have : s.get? stopKey = some (.ts t) := by
    show ((run env (c.stopBegin t) later).stopEnd t' complete).store.get? stopKey = _
    rw [stopEnd_store, hf.2]; exact hst
  exact ⟨this, by simp [readTs, this]⟩

/-- the end of the clean-up writes nothing: an interrupted stop leaves exactly the storage of a completed one -/
theorem interrupted_stop_leaves_same_storage (c : Circ) (t1 t2 : Time) :
    (c.stopEnd t1 false).store = (c.stopEnd t2 true).store := by
  rw [stopEnd_store, stopEnd_store]

/-- so the next start's expiration decision after an interrupted stop is the decision after an
    uninterrupted one: the age is measured from the instant this stop began -/
theorem expiration_decision_after_any_stop (env : Time → Val → Option Bool) (c0 : Circ) (h0 : Fresh c0)
    (now : Time) (ops : List Op) (t : Time) (later : List Op) (t' : Time) (complete : Bool)
    (x : Option Int) (now' : Time) :
    let c := run env (c0.start (env now) now .ok) ops
    expired x (readTs ((run env (c.stopBegin t) later).stopEnd t' complete).store) now' = expired x (some t) now' := by
  intro c
  rw [(stamp_of_this_stop_survives_cleanup env c0 h0 now ops t later t' complete).2]

/-- the new stamp is not older than the one found at the start (when that one was not in the future and
    the clock did not go back): time stamps of consecutive stops never decrease -/
theorem stamp_monotone (env : Time → Val → Option Bool) (c0 : Circ) (h0 : Fresh c0) (now : Time)
    (ops : List Op) (t t0 : Time)
    (hold : readTs c0.store = some t0) (hpast : t0 ≤ now)
    (hclock : (run env (c0.start (env now) now .ok) ops).now ≤ t) :
    (run env (c0.start (env now) now .ok) ops).ts = some t0 ∧ t0 ≤ t := by
  have h1 := start_now c0 (env now) now .ok h0.idle
  have h2 := now_run env ops (c0.start (env now) now .ok)
  refine ⟨?_, Nat.le_trans hpast (Nat.le_trans (by rw [h1.1] at h2; exact h2) hclock)⟩
  have hts : ∀ (ops : List Op) (c : Circ), (run env c ops).ts = c.ts := by
    intro ops
    induction ops with
    | nil => intro c; rfl
    | cons op r ih =>
      intro c
      show (run env (step env c op) r).ts = c.ts
      rw [ih]
      cases op with
      | ev i ev =>
        simp only [step]
        split
        · next c' r' h => exact event_ts h
        · rfl
      | fire i =>
        simp only [step]
        split
        · split
          · split
            · next c' r' h =>
              unfold Circ.fire at h
              split at h
              · simp at h
              · split at h
                · simp at h
                · split at h
                  · simp at h
                  · split at h
                    · simp at h
                    · exact (event_ts h).trans rfl
            · rfl
          · rfl
        · rfl
      | adv t =>
        simp only [step]
        cases h : c.advance t with
        | none => rfl
        | some c' =>
          unfold Circ.advance at h
          split at h
          · simp at h
          · split at h
            · split at h
              · simp at h
              · simp only [Option.some.injEq] at h; rw [← h]; rfl
            · simp only [Option.some.injEq] at h; rw [← h]; rfl
  rw [hts, h1.2]; simpa using hold

/-- sync_state blocks go on being saved during the clean-up: in every state of it the slot of a block with
    `persistent and sync_state` holds its current state -/
theorem storage_refines_state_during_cleanup (env : Time → Val → Option Bool) (c0 : Circ) (h0 : Fresh c0)
    (now : Time) (ops : List Op) (t : Time) (later : List Op) :
    let c := run env ((run env (c0.start (env now) now .ok) ops).stopBegin t) later
    c.phase = .stopping →
    ∀ b ∈ c.blocks, b.persistent = true → b.sync = true → c.store.get? b.key = getState b.kind b.dyn :=
  fun hg => (inv_run env later (inv_stopBegin (inv_run env ops (h0.inv (env now) now .ok)) t)).synced
    (Or.inr (Or.inr hg))

/-- …and a persistent block WITHOUT sync_state keeps, through the whole clean-up and however it ends, exactly
    the state that was saved when the stop began -/
theorem unsynced_block_keeps_stop_state (env : Time → Val → Option Bool) (c0 : Circ) (h0 : Fresh c0)
    (now : Time) (ops : List Op) (t : Time) (later : List Op) (t' : Time) (complete : Bool) :
    let c := run env (c0.start (env now) now .ok) ops
    ∀ b ∈ c.blocks, b.persistent = true → b.sync = false →
      ((run env (c.stopBegin t) later).stopEnd t' complete).store.get? b.key = getState b.kind b.dyn := by
  intro c b hb hp hsy
  have hi : Inv c := inv_run env ops (h0.inv (env now) now .ok)
  obtain ⟨_, hsaved, hblocks⟩ := stop_begin_saves_all_with_timestamp env c0 h0 now ops t
  have hq : Quiet b.key (getState b.kind b.dyn) (c.stopBegin t) := by
    refine ⟨?_, hsaved b hb hp⟩
    intro x hx hk
    rw [hblocks] at hx
    have : x = b := mem_key_inj hi.nodup hx hb hk
    rw [this, hsy]; simp
  rw [stopEnd_store]
  exact (quiet_run env later hq).2

/-- `restart_after_any_stop`: the storage left by a stop whose clean-up was interrupted (or not), with any
    events in between, restores — subject to expiration measured from the instant `t` the stop began —
    every `persistent and sync_state` block in the state it had when the clean-up ended -/
theorem restart_after_any_stop (env : Time → Val → Option Bool) (c0 : Circ) (h0 : Fresh c0) (now : Time)
    (ops : List Op) (t : Time) (later : List Op) (t' : Time) (complete : Bool)
    (c2 : Circ) (h2 : Fresh c2) (cal : Val → Option Bool) (now' : Time) :
    let c := run env ((run env (c0.start (env now) now .ok) ops).stopBegin t) later
    c.phase = .stopping → c2.store = (c.stopEnd t' complete).store →
    ∀ b ∈ c.blocks, b.persistent = true → b.sync = true →
    ∀ (j : Nat) (b2 : Blk), c2.blocks[j]? = some b2 → b2.key = b.key → b2.kind = b.kind → b2.persistent = true →
      expired b2.expiration (some t) now' = false →
      (∀ t tev, b.dyn.timer = some (t, tev) → now' < t) →
      (∀ i, b.kind = .cal i → (cal b.dyn.value).isSome = true) →
      ∃ b2', (c2.start cal now' .ok).blocks[j]? = some b2' ∧ b2'.key = b.key ∧ Same b.kind cal b.dyn b2'.dyn := by
  intro c hph hst b hb hp hsy j b2 hb2 hk hkind hp2 hexp hrun hcal
  have hg : Good c := Or.inr (Or.inr hph)
  have hi : Inv c := inv_run env later (inv_stopBegin (inv_run env ops (h0.inv (env now) now .ok)) t)
  have hdyn := hi.ok hg b hb (Or.inr hp)
  have hts := (stamp_of_this_stop_survives_cleanup env c0 h0 now ops t later t' complete).2
  obtain ⟨b2', h1, h2', h3⟩ := restart_restores_block c2 h2 cal now' b.kind b.dyn hdyn.1 hdyn.2 j b2 hb2 hkind hp2
    (by rw [hst, stopEnd_store, hk]; exact hi.synced hg b hb hp hsy) (by rw [hst, hts]; exact hexp) hrun hcal
  exact ⟨b2', h1, h2'.trans hk, h3⟩

/-! ### unused entries are removed, reserved ones kept -/

/-- `unused_removed_reserved_kept`: after the start (successful or failing in a `start()`), an entry whose
    key is neither reserved nor the key of a persistent block is gone; every reserved entry —
    the old stop time included — is exactly as it was -/
theorem unused_removed_reserved_kept (c0 : Circ) (h0 : Fresh c0) (cal : Val → Option Bool) (now : Time)
    (mode : StartMode) (hm : mode ≠ .abortedBefore) (k : String) :
    (reserved k = true → (c0.start cal now mode).store.get? k = c0.store.get? k) ∧
    (reserved k = false → (∀ b ∈ c0.blocks, b.persistent = true → b.key ≠ k) →
      (c0.start cal now mode).store.get? k = none) := by
  have hclean_res : reserved k = true → (cleanUnused c0.store c0.blocks).get? k = c0.store.get? k :=
    fun h => cleanUnused_keeps _ _ _ (Or.inl h)
  have hclean_un : reserved k = false → (∀ b ∈ c0.blocks, b.persistent = true → b.key ≠ k) →
      (cleanUnused c0.store c0.blocks).get? k = none := by
    intro hr hb
    unfold cleanUnused
    rw [Storage.get?_filterKey (fun k => reserved k || (persistentKeys c0.blocks).contains k)]
    have : (persistentKeys c0.blocks).contains k = false := by
      simp only [persistentKeys, List.contains_eq_mem, List.mem_map, List.mem_filter, decide_eq_false_iff_not,
        not_exists, not_and, and_imp]
      intro b hbm hp; exact hb b hbm hp
    rw [hr, this]; rfl
  have hi := h0.inv cal now mode
  have hother : ∀ s : Storage, (∀ b ∈ (c0.start cal now mode).blocks, b.persistent = true → k ≠ b.key) →
      (saveAll s (c0.start cal now mode).blocks).get? k = s.get? k := fun s h => saveAll_other _ s h
  cases mode with
  | abortedBefore => exact absurd rfl hm
  | startRaises =>
    simp only [Circ.start, h0.idle, bne_self_eq_false, Bool.false_eq_true, if_false]
    exact ⟨hclean_res, hclean_un⟩
  | ok =>
    simp only [Circ.start, h0.idle, bne_self_eq_false, Bool.false_eq_true, if_false]
    generalize hp : pass2 cal now (pass1 c0.blocks (cleanUnused c0.store c0.blocks) (readTs c0.store) cal now) = p
    obtain ⟨bs, ok⟩ := p
    have hk : keys bs = keys c0.blocks := by
      have := keys_pass2 cal now (pass1 c0.blocks (cleanUnused c0.store c0.blocks) (readTs c0.store) cal now)
      rw [hp, keys_pass1] at this; exact this
    have hpers : ∀ b ∈ bs, b.persistent = true → ∃ y ∈ c0.blocks, y.persistent = true ∧ y.key = b.key := by
      intro b hb hpb
      have h1 := pass2_pers cal now (pass1 c0.blocks (cleanUnused c0.store c0.blocks) (readTs c0.store) cal now)
      rw [hp] at h1
      obtain ⟨y, hy, hy1, hy2⟩ := h1 b hb hpb
      obtain ⟨z, hz, hz1, hz2⟩ := pass1_pers c0.blocks _ _ cal now y hy hy1
      exact ⟨z, hz, hz1, hz2.trans hy2⟩
    simp only
    split
    · constructor
      · intro hr
        rw [saveAll_other bs _ (k := k)]
        · exact hclean_res hr
        · intro b hb _ heq
          have : reserved b.key = false := h0.plain _ (by rw [← hk]; exact List.mem_map_of_mem hb)
          rw [← heq, hr] at this; simp at this
      · intro hr hun
        rw [saveAll_other bs _ (k := k)]
        · exact hclean_un hr hun
        · intro b hb hpb heq
          obtain ⟨y, hy, hy1, hy2⟩ := hpers b hb hpb
          exact hun y hy hy1 (hy2.trans heq.symm)
    · exact ⟨hclean_res, hclean_un⟩

/-! ### start-up with events between the blocks (`Circ.startL`) -/

/-- the repair of `AddonPersistence.event`: the sync save after an event that leaves the block uninitialised
    (a conditional event resolved to "no event" arriving before the block's early initialisation) does not
    touch the storage — the entry saved by the previous run stays until it is restored -/
theorem sync_save_skips_uninitialised_block (s : Storage) (b : Blk) (h : b.dyn.inited = false) :
    syncSave s b = s := syncSave_uninit s b h

/-- an `on_output` event through an `EventCond` that resolves to `None` changes nothing at all -/
theorem conditional_no_event_changes_nothing (ts : Option Time) (cal : Val → Option Bool) (now : Time)
    (S : IState) (i : Nat) (b : Blk) (l : Link) (hb : S.blocks[i]? = some b) (hl : b.link = some l)
    (hc : (if b.dyn.out.truthy then l.etrue else l.efalse) = false) : emit ts cal now S i = S := by
  unfold emit
  simp only [hb, hl, hc, Bool.false_eq_true, if_false]

/-- what `startL` is made of -/
theorem startL_shape (c : Circ) (h : Fresh0 c) (cal : Val → Option Bool) (now : Time) :
    ∃ S : IState, IInv (readTs c.store) cal now c.blocks (cleanUnused c.store c.blocks) S ∧
      (c.startL cal now).blocks = S.blocks ∧
      (((c.startL cal now).phase = .running ∧ (c.startL cal now).store = saveAll S.store S.blocks ∧
          ∀ b ∈ S.blocks, b.dyn.inited = true) ∨
       ((c.startL cal now).phase = .failed ∧ (c.startL cal now).store = S.store)) := by
  have hf : ∀ b ∈ c.blocks, b.restored = false := fun b hb => (h.untouched b hb).2
  have hs : ∀ b ∈ c.blocks, b.steps = 0 := fun b hb => (h.untouched b hb).1
  have hI0 := iinv_initial (ts := readTs c.store) (cal := cal) (now := now) hs (cleanUnused c.store c.blocks)
  have hI1 := iinv_foldl (turn1 (readTs c.store) cal now) (fun S i hI => iinv_turn1 h.nodup hf hI i)
    (List.range c.blocks.length) hI0
  have hI2 := iinv_foldl (turn2 (readTs c.store) cal now) (fun S i hI => iinv_turn2 h.nodup hf hI i)
    (List.range c.blocks.length) hI1
  unfold Circ.startL
  simp only [h.idle, bne_self_eq_false, Bool.false_eq_true, if_false]
  generalize List.foldl (turn2 (readTs c.store) cal now) _ _ = S2 at hI2
  refine ⟨S2, hI2, ?_, ?_⟩
  · split <;> rfl
  · split
    · next hc =>
      simp only [Bool.and_eq_true, List.all_eq_true, decide_eq_true_eq] at hc
      exact Or.inl ⟨rfl, rfl, hc.2⟩
    · exact Or.inr ⟨rfl, rfl⟩

/-- `startup_restores_every_valid_entry`: after a successful start-up — whatever `on_output` events (plain or
    conditional, resolved to an event or to none) the blocks sent each other while they were restored, and
    in whatever order the blocks were created — block `j` was restored from the storage exactly when its
    entry in the ORIGINAL storage was present, not expired and accepted by `_restore_state`: a condition
    that mentions neither the other blocks nor the creation order -/
theorem startup_restores_every_valid_entry (c : Circ) (h : Fresh0 c) (cal : Val → Option Bool) (now : Time)
    (hrun : (c.startL cal now).phase = .running) (j : Nat) (b0 b : Blk)
    (hb0 : c.blocks[j]? = some b0) (hb : (c.startL cal now).blocks[j]? = some b) :
    b.key = b0.key ∧ (b.restored = true ↔ (load b0 c.store (readTs c.store) cal now).isSome = true) := by
  obtain ⟨S, hI, hbl, hcase⟩ := startL_shape c h cal now
  rw [hbl] at hb
  rcases hcase with ⟨_, _, hall⟩ | ⟨hph, _⟩
  · have hsteps : b.steps ≠ 0 := by
      intro h0
      have := (hI.untouched j b hb h0).1
      have hun := h.uninit b (List.mem_of_getElem? this)
      rw [hall b (List.mem_of_getElem? hb)] at hun; simp at hun
    obtain ⟨b0', h1, h2, h3⟩ := hI.touched j b hb hsteps
    rw [hb0] at h1; simp only [Option.some.injEq] at h1; subst h1
    rw [load_cleanUnused b0 c.blocks (List.mem_of_getElem? hb0)] at h3
    exact ⟨h2, h3⟩
  · rw [hph] at hrun; simp at hrun

/-- after a successful start-up the storage holds the state of every persistent block -/
theorem startup_saves_all (c : Circ) (h : Fresh0 c) (cal : Val → Option Bool) (now : Time)
    (hrun : (c.startL cal now).phase = .running) :
    ∀ b ∈ (c.startL cal now).blocks, b.persistent = true →
      (c.startL cal now).store.get? b.key = getState b.kind b.dyn := by
  obtain ⟨S, hI, hbl, hcase⟩ := startL_shape c h cal now
  rcases hcase with ⟨_, hst, _⟩ | ⟨hph, _⟩
  · intro b hb hp
    rw [hbl] at hb
    rw [hst]
    exact saveAll_mem _ (by rw [hI.keys]; exact h.nodup) _ hb hp
  · rw [hph] at hrun; simp at hrun

/-- …and when the start-up fails, the entry of every persistent block that was not reached is still what the
    previous run saved -/
theorem failed_startup_keeps_untouched_entries (c : Circ) (h : Fresh0 c) (cal : Val → Option Bool) (now : Time)
    (hfail : (c.startL cal now).phase = .failed) (j : Nat) (b : Blk)
    (hb : (c.startL cal now).blocks[j]? = some b) (hs : b.steps = 0) (hp : b.persistent = true) :
    (c.startL cal now).store.get? b.key = c.store.get? b.key := by
  obtain ⟨S, hI, hbl, hcase⟩ := startL_shape c h cal now
  rw [hbl] at hb
  rcases hcase with ⟨hph, _, _⟩ | ⟨_, hst⟩
  · rw [hph] at hfail; simp at hfail
  · obtain ⟨h1, h2⟩ := hI.untouched j b hb hs
    rw [hst, h2]
    exact cleanUnused_keeps _ _ _ (Or.inr ⟨b, List.mem_of_getElem? h1, hp, rfl⟩)

/-! ### a storage that fails (`Faults`: which operations of the application's mapping raise at the moment) -/

/-- a failing WRITE is suppressed by `save_persistent_state`: no exception leaves it as long as the `pop` that
    removes the stale entry works, and then no stale entry stays -/
theorem write_fault_is_suppressed (f : Faults) (s : Storage) (b : Blk) (hr : f.remove = false) :
    (saveBlkF f s b).2 = false ∧
    (f.write = true → b.persistent = true → (saveBlkF f s b).1.get? b.key = none) := by
  unfold saveBlkF
  cases hp : b.persistent <;> cases hg : getState b.kind b.dyn <;> cases hw : f.write <;>
    simp [hr, Storage.get?_erase_same]

/-- …but the `pop` itself is not protected: with writes AND removals failing the exception leaves the method
    (what the code does; "Suppress errors" of the docstring does not hold for this case) -/
theorem double_fault_leaves_save (f : Faults) (s : Storage) (b : Blk) (hw : f.write = true) (hr : f.remove = true)
    (hp : b.persistent = true) : saveBlkF f s b = (s, true) := by
  unfold saveBlkF
  cases hg : getState b.kind b.dyn <;> simp [hp, hw, hr]

/-- `event_unaffected_by_storage_fault`: on a storage whose writes (and reads, and iteration) fail — as long as
    `pop` works — an event gives the caller exactly what it gives on a working storage: the handler's result or
    the handler's exception, never an exception of the storage; the blocks and the phase of the circuit are those
    of the fault-free run (the simulation is not aborted by the fault) -/
theorem event_unaffected_by_storage_fault (c c' : Circ) (f : Faults) (hr : f.remove = false)
    (cal : Val → Option Bool) (i : Nat) (ev : Ev) (r : ResF) (h : c.eventF f cal i ev = some (c', r)) :
    ∃ c0 r0, c.event cal i ev = some (c0, r0) ∧ r = .res r0 ∧ c'.blocks = c0.blocks ∧ c'.phase = c0.phase := by
  unfold Circ.eventF at h
  cases he : c.event cal i ev with
  | none => rw [he] at h; simp at h
  | some p =>
    obtain ⟨c0, r0⟩ := p
    rw [he] at h
    refine ⟨c0, r0, rfl, ?_⟩
    cases r0 with
    | ret v =>
      simp only [Option.some.injEq] at h
      unfold resave at h
      split at h
      · next b' hb' =>
        split at h
        · have hs := (write_fault_is_suppressed f c.store b' hr).1
          cases hx : saveBlkF f c.store b' with
          | mk st x =>
            rw [hx] at hs h
            simp only at hs
            subst hs
            simp only [Prod.mk.injEq] at h
            obtain ⟨rfl, rfl⟩ := h
            exact ⟨rfl, rfl, rfl⟩
        · simp only [Prod.mk.injEq] at h
          obtain ⟨rfl, rfl⟩ := h
          exact ⟨rfl, rfl, rfl⟩
      · simp only [Prod.mk.injEq] at h
        obtain ⟨rfl, rfl⟩ := h
        exact ⟨rfl, rfl, rfl⟩
    | handlerError => simp only [Option.some.injEq, Prod.mk.injEq] at h; obtain ⟨rfl, rfl⟩ := h; exact ⟨rfl, rfl, rfl⟩
    | paramError => simp only [Option.some.injEq, Prod.mk.injEq] at h; obtain ⟨rfl, rfl⟩ := h; exact ⟨rfl, rfl, rfl⟩
    | unknown => simp only [Option.some.injEq, Prod.mk.injEq] at h; obtain ⟨rfl, rfl⟩ := h; exact ⟨rfl, rfl, rfl⟩

/-- `next_save_after_outage_stores_state`: once the storage works again, the next handled event of a block with
    `persistent and sync_state` leaves the block's CURRENT state in its slot — whatever the outage did to the slot -/
theorem next_save_after_outage_stores_state (c c' : Circ) (cal : Val → Option Bool) (i : Nat) (ev : Ev) (v : Val)
    (b' : Blk) (h : c.eventF {} cal i ev = some (c', .res (.ret v))) (hb' : c'.blocks[i]? = some b')
    (hp : b'.persistent = true) (hs : b'.sync = true) (hi : b'.dyn.inited = true) :
    c'.store.get? b'.key = getState b'.kind b'.dyn := by
  unfold Circ.eventF at h
  cases he : c.event cal i ev with
  | none => rw [he] at h; simp at h
  | some p =>
    obtain ⟨c0, r0⟩ := p
    rw [he] at h
    cases r0 with
    | ret v0 =>
      simp only [Option.some.injEq] at h
      unfold resave at h
      split at h
      · next b0 hb0 =>
        rw [saveBlkF_nofault] at h
        split at h
        · simp only [Prod.mk.injEq] at h
          obtain ⟨rfl, _⟩ := h
          simp only at hb'
          rw [hb0] at hb'
          simp only [Option.some.injEq] at hb'
          subst hb'
          exact saveBlk_same c.store b0 hp
        · next hc =>
          simp only [Prod.mk.injEq] at h
          obtain ⟨rfl, _⟩ := h
          rw [hb0] at hb'
          simp only [Option.some.injEq] at hb'
          subst hb'
          simp [hp, hs, hi] at hc
      · next hn =>
        simp only [Prod.mk.injEq] at h
        obtain ⟨rfl, _⟩ := h
        rw [hn] at hb'; simp at hb'
    | handlerError => simp at h
    | paramError => simp at h
    | unknown => simp at h

/-- `stop_on_failing_storage` (with the repair `patches/C08-storage-fault-at-stop-skips-cleanup.diff`): a storage fault
    at the stop no longer ends in an exception — whatever fails, the clean-up begins (`stopping`) with the blocks as
    they are, and its end leaves the circuit `stopped` with every timer cancelled.  The storage then holds what was
    written before the fault: with working writes and no save letting an exception out, the stop time of THIS stop;
    with failing writes the stop-time slot is untouched (no stamp, or the stale one of the previous run) -/
theorem stop_on_failing_storage (c : Circ) (f : Faults) (t : Time)
    (hph : c.phase = .running ∨ c.phase = .aborted) (hok : c.startOk = true)
    (hkeys : ∀ b ∈ c.blocks, b.key ≠ stopKey) :
    (c.stopBeginF f t).phase = .stopping ∧ (c.stopBeginF f t).blocks = c.blocks ∧
    ((c.stopBeginF f t).stopEnd t true).phase = .stopped ∧
    (∀ b ∈ ((c.stopBeginF f t).stopEnd t true).blocks, b.dyn.timer = none) ∧
    (f.write = false → (saveAllF f c.store c.blocks).2 = false →
      (c.stopBeginF f t).store.get? stopKey = some (.ts t)) ∧
    (f.write = true → (c.stopBeginF f t).store.get? stopKey = c.store.get? stopKey) := by
  have hother : ∀ (bs : List Blk) (s : Storage), (∀ b ∈ bs, b.key ≠ stopKey) →
      (saveAllF f s bs).1.get? stopKey = s.get? stopKey := by
    intro bs
    induction bs with
    | nil => intro s _; rfl
    | cons b r ih =>
      intro s hk
      have hb : (saveBlkF f s b).1.get? stopKey = s.get? stopKey := by
        have hne : stopKey ≠ b.key := fun h => hk b (List.mem_cons_self ..) h.symm
        unfold saveBlkF
        cases b.persistent <;> cases getState b.kind b.dyn <;> cases f.write <;> cases f.remove <;>
          simp [Storage.get?_set_ne _ _ hne, Storage.get?_erase_ne _ hne]
      simp only [saveAllF]
      cases hx : saveBlkF f s b with
      | mk s1 x =>
        rw [hx] at hb
        cases x
        · simp only; rw [ih s1 (fun b' hb' => hk b' (List.mem_cons_of_mem _ hb'))]; exact hb
        · exact hb
  have hst := hother c.blocks c.store hkeys
  unfold Circ.stopBeginF Circ.stopEnd
  rcases hph with h | h <;> cases hw : f.write <;>
    cases hx : saveAllF f c.store c.blocks with
    | mk s x =>
      rw [hx] at hst
      cases x <;> simp_all [Storage.get?_set_same]

/-- the start on a storage whose reads fail: an entry that cannot be read is treated as absent (the error is
    suppressed, the block is initialised normally), while an exception of `_check_persistent_data` — the read of
    the stop time, `keys()`, a `del` of the purge: none is protected — ends the start before any block is started
    and leaves blocks and storage as they were -/
theorem start_on_failing_storage (c : Circ) (f : Faults) (cal : Val → Option Bool) (now : Time)
    (hidle : c.phase = .idle) :
    (∀ b : Blk, b.key ∈ f.read → ∀ ts, load b (c.store.filter (fun p => !(f.read.contains p.1))) ts cal now = none) ∧
    (checkRaises f c.store c.blocks = true →
      (c.startF f cal now).phase = .stopped ∧ (c.startF f cal now).blocks = c.blocks ∧
      (c.startF f cal now).store = c.store ∧ (c.startF f cal now).startOk = false) := by
  constructor
  · intro b hb ts
    unfold load
    have : Storage.get? (c.store.filter (fun p => !(f.read.contains p.1))) b.key = none := by
      rw [Storage.get?_filterKey (fun k => !(f.read.contains k))]
      simp [hb]
    rw [this]
    split <;> rfl
  · intro hc
    unfold Circ.startF
    simp [hidle, hc]

/-! ### non-vacuity: a concrete circuit (an Input and a timed FSM whose timed event is refused) -/

def exCls : FsmCls :=
  { states := ["s0", "s1"], trans := [("e0", none, "s1"), ("tk", some "s0", "s1")],
    timers := [("s1", some 1000000, .ev "tk")], conds := [], enters := [], outMode := .state,
    initState := "s0", initSdata := [] }

def exCirc : Circ :=
  { blocks := [{ key := "<Input 'i'>", kind := .input (.int 0), persistent := true, sync := true, expiration := none },
               { key := "<GFsm 'f'>", kind := .fsm exCls, persistent := true, sync := true, expiration := some 5000000 }],
    store := [("edzed-app", .val (.int 1)), ("<Input 'gone'>", .val (.int 5))] }

example : Fresh exCirc :=
  ⟨⟨rfl, by decide +kernel, by decide +kernel, by
    intro b hb
    simp only [exCirc, List.mem_cons, List.not_mem_nil, or_false] at hb
    rcases hb with rfl | rfl
    · trivial
    · show exCls.valid = true; decide +kernel, by
    intro b hb
    simp only [exCirc, List.mem_cons, List.not_mem_nil, or_false] at hb
    rcases hb with rfl | rfl <;> rfl, by
    intro b hb
    simp only [exCirc, List.mem_cons, List.not_mem_nil, or_false] at hb
    rcases hb with rfl | rfl <;> exact ⟨rfl, rfl⟩⟩, by
    intro b hb
    simp only [exCirc, List.mem_cons, List.not_mem_nil, or_false] at hb
    rcases hb with rfl | rfl <;> rfl⟩

/-- the history of defect 8: enter the timed state, the timed event fires and is refused (no transition
    from `s1`): the slot then holds the state WITHOUT a timer, and a restart restores `s1` -/
example :
    let c := run (fun _ _ => none) (exCirc.start (fun _ => none) 100 .ok) [.ev 1 (.named "e0" none), .fire 1]
    c.phase = .running ∧ c.store.get? "<GFsm 'f'>" = some (.fsm "s1" none []) ∧
    c.store.get? "<Input 'gone'>" = none ∧ c.store.get? "edzed-app" = some (.val (.int 1)) := by
  decide +kernel

/-- the start-up of the finding: `src` (restored value 0, falsy) is created first and sends
    `EventCond('put', None)` to `dst`; both are restored — `dst` keeps `'saved'` -/
def exLink : Circ :=
  { blocks := [{ key := "<Input 'src'>", kind := .input (.int 5), persistent := true, sync := true, expiration := none,
                 link := some ⟨1, true, false⟩ },
               { key := "<Input 'dst'>", kind := .input (.str "dflt"), persistent := true, sync := true,
                 expiration := none }],
    store := [("<Input 'src'>", .val (.int 0)), ("<Input 'dst'>", .val (.str "saved"))] }

example :
    let c := exLink.startL (fun _ => none) 100
    c.phase = .running ∧ c.blocks.map (·.restored) = [true, true] ∧
    c.blocks.map (·.dyn.out) = [.int 0, .str "saved"] ∧ c.store.get? "<Input 'dst'>" = some (.val (.str "saved")) := by
  decide +kernel

/-! ### nested events: chained transitions requested by entry actions

`AddonPersistence.event` is the outermost `event()` of a persistent block, so the `self.event(…)` with which an FSM
entry action requests a chained transition re-enters it in the MIDDLE of the outer transition (finding
C06-nested-event-saves-intermediate-state: the unrepaired wrapper saved there).  `Circ.eventN` / `Circ.fireN` - what
the driver executes for every event and timer firing - run every wrapper call the event contains (`blockMids`: the
block's state when each nested call returned) and log the storage after every write: the crash points inside an
event. -/

/-- `nested_event_never_saves`: a call of the wrapper made while another `event()` of the block is active writes
    nothing, whatever state the block is in and however many such calls an event contains; the circuit and result
    of an event with all its nested calls are those of `Circ.event`; and a save happens only when the OUTERMOST
    `event()` of the block returns: an event writes at most once, the write is the last thing it does (the storage
    it leaves is the final one) and the event was handled without error - an event that raises writes nothing -/
theorem nested_event_never_saves (c : Circ) (cal : Val → Option Bool) (i : Nat) (ev : Ev) :
    (∀ (s : Storage) (b : Blk), wrapperSave true s b = (s, false) ∧ syncSaveN true s b = s) ∧
    (∀ (s : Storage) (b : Blk) (mids : List Dyn) (log : List Storage), nestedSaves b mids s log = (s, log)) ∧
    (c.eventN cal i ev).map (fun x => (x.1, x.2.1)) = c.event cal i ev ∧
    (c.fireN cal i).map (fun x => (x.1, x.2.1)) = c.fire cal i ∧
    (∀ c' r ws, c.eventN cal i ev = some (c', r, ws) →
      (ws = [] ∧ c'.store = c.store) ∨ (∃ v, r = .ret v ∧ ws = [c'.store])) :=
  ⟨fun s b => ⟨wrapperSave_nested s b, rfl⟩, fun s b mids log => nestedSaves_eq b mids s log,
   eventN_is_event c cal i ev, fireN_is_fire c cal i, fun _ _ _ h => eventN_writes h⟩

/-- `storage_never_holds_intermediate_state`: for every circuit, initial storage and history (events, chained
    transitions, failing entry actions, timer firings), at EVERY write made while the next event is handled the
    storage holds, for every block with `persistent and sync_state` (the block handling the event included), the
    block's state after that completed event - never a state the block only passes through - and a write is made
    only by an event that was handled without error; an event that fails leaves the storage as it was after the
    last completed event -/
theorem storage_never_holds_intermediate_state (env : Time → Val → Option Bool) (c0 : Circ) (h0 : Fresh c0)
    (now : Time) (ops : List Op) (cal : Val → Option Bool) (i : Nat) (ev : Ev) (c' : Circ) (r : Res)
    (ws : List Storage)
    (h : (run env (c0.start (env now) now .ok) ops).eventN cal i ev = some (c', r, ws)) :
    (∀ s ∈ ws, (∃ v, r = .ret v) ∧
      ((c'.phase = .running ∨ c'.phase = .aborted) →
        ∀ b ∈ c'.blocks, b.persistent = true → b.sync = true → s.get? b.key = getState b.kind b.dyn)) ∧
    ((∀ v, r ≠ .ret v) → ws = [] ∧ c'.store = (run env (c0.start (env now) now .ok) ops).store) := by
  have hi := inv_run env ops (h0.inv (env now) now .ok)
  generalize run env (c0.start (env now) now .ok) ops = c at hi h
  have hi' : Inv c' := inv_event hi (eventN_event h)
  rcases eventN_writes h with ⟨rfl, hs⟩ | ⟨v, rfl, rfl⟩
  · exact ⟨fun s hs => by simp at hs, fun _ => ⟨rfl, hs⟩⟩
  · refine ⟨fun s hs => ?_, fun hne => absurd rfl (hne v)⟩
    simp only [List.mem_singleton] at hs
    subst hs
    exact ⟨⟨v, rfl⟩, fun hg => hi'.synced (hg.elim Or.inl (fun h => Or.inr (Or.inl h)))⟩

/-- the same for a timer firing -/
theorem storage_never_holds_intermediate_state_fire (env : Time → Val → Option Bool) (c0 : Circ) (h0 : Fresh c0)
    (now : Time) (ops : List Op) (cal : Val → Option Bool) (i : Nat) (c' : Circ) (r : Res) (ws : List Storage)
    (h : (run env (c0.start (env now) now .ok) ops).fireN cal i = some (c', r, ws)) :
    ∀ s ∈ ws, (∃ v, r = .ret v) ∧ s = c'.store ∧
      ((c'.phase = .running ∨ c'.phase = .aborted) →
        ∀ b ∈ c'.blocks, b.persistent = true → b.sync = true → s.get? b.key = getState b.kind b.dyn) := by
  have hi := inv_run env ops (h0.inv (env now) now .ok)
  generalize run env (c0.start (env now) now .ok) ops = c at hi h
  have hf : c.fire cal i = some (c', r) := by rw [← fireN_is_fire, h]; rfl
  have hi' : Inv c' := inv_fire hi hf
  unfold Circ.fireN at h
  split at h
  · simp at h
  · split at h
    · simp at h
    · split at h
      · simp at h
      · split at h
        · simp at h
        · rcases eventN_writes h with ⟨rfl, _⟩ | ⟨v, rfl, rfl⟩
          · intro s hs; simp at hs
          · intro s hs
            simp only [List.mem_singleton] at hs
            subst hs
            exact ⟨⟨v, rfl⟩, rfl, fun hg => hi'.synced (hg.elim Or.inl (fun h => Or.inr (Or.inl h)))⟩

/-- the FSM of the finding: `go: A → X`, `next: X → Y`, `enter_X` requests `next` with an event to its own block;
    `yFails`: `enter_Y` raises -/
def exChainCls (yFails : Bool) : FsmCls :=
  { states := ["A", "X", "Y"], trans := [("go", some "A", "X"), ("next", some "X", "Y"), ("back", none, "A")],
    timers := [("Y", some 1000000, .ev "back")], conds := [],
    enters := [("X", .chain "next")] ++ (if yFails then [("Y", .raise)] else []),
    outMode := .state, initState := "A", initSdata := [] }

def exChain (yFails : Bool) : Circ :=
  { blocks := [{ key := "<Chain 'f'>", kind := .fsm (exChainCls yFails), persistent := true, sync := true,
                 expiration := none }],
    store := [] }

/-- the hypotheses are satisfiable, and the statement is not empty: the chained transition `A → X → Y` contains one
    nested call of the wrapper, made in the intermediate state `X`; the event writes once, `Y` with its timer -/
example :
    Fresh (exChain false) ∧
    (blockMids (.fsm (exChainCls false)) 5 (((exChain false).start (fun _ => none) 0 .ok).blocks.map (·.dyn)).head!
      (.named "go" none)).map (·.fstate) = ["X"] ∧
    (((exChain false).start (fun _ => none) 0 .ok).eventN (fun _ => none) 0 (.named "go" none)).map
      (fun x => (x.2.1, x.2.2.map (·.get? "<Chain 'f'>"), x.1.blocks.map (·.dyn.entered)))
      = some (.ret (.bool true), [some (.fsm "Y" (some 1000000) [])], [["A", "X", "Y"]]) := by
  refine ⟨⟨⟨rfl, by decide +kernel, by decide +kernel, ?_, ?_, ?_⟩, ?_⟩, by decide +kernel, by decide +kernel⟩
  all_goals
    intro b hb
    simp only [exChain, List.mem_cons, List.not_mem_nil, or_false] at hb
    subst hb
  · show (exChainCls false).valid = true; decide +kernel
  · rfl
  · exact ⟨rfl, rfl⟩
  · rfl

/-- …and when `enter_Y` fails nothing is written: the storage keeps `A`, the state after the last completed event -/
example :
    (((exChain true).start (fun _ => none) 0 .ok).eventN (fun _ => none) 0 (.named "go" none)).map
      (fun x => (x.2.1, x.2.2.length, x.1.store.get? "<Chain 'f'>", x.1.blocks.map (·.dyn.fstate)))
      = some (.handlerError, 0, some (.fsm "A" none []), ["Y"]) := by
  decide +kernel

end Edzed.Persist

/-! ### the translation tie: the decision of `init_from_persistent_data` -/
namespace Edzed.TrTie
open Edzed

/-- `_restore_state` is called exactly when the entry was found and the model's expiration test says
    "not expired" (the model counts integer microseconds, the code float seconds: the comparison is the
    same linear one); a failing storage and a missing entry restore nothing -/
theorem translated_restore_decision_is_model (expiration : Option Int) (ts : Option Nat) (now : Nat)
    (lookup : Gen.TrP.Lookup) :
    (Gen.TrP.Prim.restore ∈ Gen.TrP.restoreActs lookup
        (expiration.map (fun x => (x : Rat))) (ts.map (fun t => (t : Rat))) (now : Rat))
      ↔ (lookup = .found ∧ Persist.expired expiration ts now = false) := by
  unfold Gen.TrP.restoreActs Persist.expired
  cases lookup <;> cases expiration <;> cases ts <;> simp
  · rename_i x
    by_cases h : x ≤ 0 <;> simp [h]; omega
  · rename_i x t
    by_cases h : x ≤ 0
    · simp [h]
    · simp only [h, ↓reduceIte]
      have hx : 0 < x := by omega
      by_cases h2 : ((t : Rat) + (x : Rat) < (now : Rat))
      · simp only [h2, ↓reduceIte]
        have : (t : Int) + x < (now : Int) := by exact_mod_cast h2
        simp; intro _; omega
      · simp only [h2, ↓reduceIte]
        have : ¬ ((t : Int) + x < (now : Int)) := fun h' => h2 (by exact_mod_cast h')
        simp; exact ⟨hx, by omega⟩

/-- the model's `load` restores only under that decision -/
theorem load_only_if_translated_decision (b : Persist.Blk) (store : Persist.Storage) (ts : Option Nat)
    (cal : Val → Option Bool) (now : Nat) (d : Persist.Dyn) (h : Persist.load b store ts cal now = some d) :
    Gen.TrP.Prim.restore ∈ Gen.TrP.restoreActs .found
      (b.expiration.map (fun x => (x : Rat))) (ts.map (fun t => (t : Rat))) (now : Rat) := by
  rw [translated_restore_decision_is_model]
  refine ⟨rfl, ?_⟩
  unfold Persist.load at h
  cases hp : b.persistent <;> simp [hp] at h
  cases hs : store.get? b.key <;> simp [hs] at h
  cases he : Persist.expired b.expiration ts now <;> simp [he] at h
  rfl

/-! #### `AddonPersistence.event`, `save_persistent_state`, `Circuit._check_persistent_data` and the save / stamp part
of `Circuit.run_forever`, translated by tools/py2lean_persist.py (Gen/TranslatedPersist2.lean).  Every access to the
storage is a primitive that MAY RAISE, so its position relative to the `try` blocks is part of the translation. -/

open Persist Gen.TrP2

/-- meaning of the primitives of `save_persistent_state` on the storage: `e` is what `get_state()` returns
    (`none`: it raises); an operation that `fails` has no effect; the flag: an exception left the method -/
def runSave (key : String) (e : Option Entry) : List Prim → Storage × Bool → Storage × Bool
  | [], s => s
  | .setItem :: r, (s, x) => runSave key e r ((match e with | some v => s.set key v | none => s), x)
  | .popKey :: r, (s, x) => runSave key e r (s.erase key, x)
  | .propagate :: _, (s, _) => (s, true)
  | _ :: r, s => runSave key e r s

/-- (b) the translated `save_persistent_state` on a storage with faults `f` IS the model's `saveBlkF`: nothing
    unless persistent; the state is stored under the key; an exception of `get_state()` OR OF THE WRITE is
    suppressed and the entry removed; only an exception of that removing `pop` leaves the method -/
theorem translated_persist_save_is_model (f : Faults) (s : Storage) (b : Blk) :
    runSave b.key (getState b.kind b.dyn)
      (saveActs b.persistent (getState b.kind b.dyn).isNone f.write f.remove) (s, false) = saveBlkF f s b := by
  unfold saveActs saveBlkF
  cases hp : b.persistent <;> cases hg : getState b.kind b.dyn <;> cases hw : f.write <;> cases hr : f.remove <;>
    simp [runSave]

/-- …on a working storage that is `saveBlk` -/
theorem translated_persist_save_without_faults (s : Storage) (b : Blk) :
    runSave b.key (getState b.kind b.dyn) (saveActs b.persistent (getState b.kind b.dyn).isNone false false) (s, false)
      = (saveBlk s b, false) := by
  have := translated_persist_save_is_model {} s b
  rw [saveBlkF_nofault] at this
  exact this

/-- the wrapper's state: the block's `persistent` flag, the storage, "an exception leaves `event()` although the
    handler returned" -/
structure WSt where
  persistent : Bool
  store : Storage
  raised : Bool := false

/-- meaning of the primitives of `AddonPersistence.event`; `b` is the block as the handler left it; the `save`
    primitive — also when it `fails` — is the TRANSLATED `save_persistent_state` on the storage with faults `f` -/
def runEvent (f : Faults) (b : Blk) : List Prim → WSt → WSt
  | [], s => s
  | .disable :: r, s => runEvent f b r { s with persistent := false }
  | .save :: r, s =>
    runEvent f b r { s with store := (runSave b.key (getState b.kind b.dyn)
      (saveActs s.persistent (getState b.kind b.dyn).isNone f.write f.remove) (s.store, false)).1 }
  | .fails .save :: r, s =>
    runEvent f b r { s with store := (runSave b.key (getState b.kind b.dyn)
      (saveActs s.persistent (getState b.kind b.dyn).isNone f.write f.remove) (s.store, false)).1 }
  | .propagate :: _, s => { s with raised := true }
  | _ :: r, s => runEvent f b r s

/-- (a) success path on a storage with faults `f`: after `super().event` returned, the wrapper saves exactly when
    it is the OUTERMOST `event()` of the block (`nested` = the flag `_persist_event_active` at entry; the repair
    patches/C06-nested-event-saves-intermediate-state.diff) and `persistent ∧ sync_state ∧ is_initialized()` (the
    repair 85849b6); the storage afterwards is the model's `saveBlkF`, and an exception leaves `event()` iff that
    save lets one out -/
theorem translated_persist_event_success_is_model (f : Faults) (s : Storage) (b : Blk) (ready nested : Bool) :
    runEvent f b (eventActs false b.persistent ready b.sync b.dyn.inited (saveBlkF f s b).2 nested)
        ⟨b.persistent, s, false⟩
      = (if !nested && b.persistent && b.sync && b.dyn.inited
         then ⟨b.persistent, (saveBlkF f s b).1, (saveBlkF f s b).2⟩
         else ⟨b.persistent, s, false⟩) := by
  have hsave := translated_persist_save_is_model f s b
  unfold eventActs
  cases nested <;> cases hp : b.persistent <;> cases hs : b.sync <;> cases hi : b.dyn.inited <;>
    cases hx : (saveBlkF f s b).2 <;> simp_all [runEvent]

/-- …on a working storage that is the model's `syncSaveN` (the outermost call: `syncSave`), and the handler's
    result is returned -/
theorem translated_persist_event_success_without_faults (s : Storage) (b : Blk) (ready nested : Bool) :
    runEvent {} b (eventActs false b.persistent ready b.sync b.dyn.inited false nested) ⟨b.persistent, s, false⟩
      = ⟨b.persistent, syncSaveN nested s b, false⟩ ∧
    (eventActs false b.persistent ready b.sync b.dyn.inited false nested).head? = some .enter ∧
    (eventActs false b.persistent ready b.sync b.dyn.inited false nested).getLast? = some .ret := by
  have h := translated_persist_event_success_is_model {} s b ready nested
  rw [saveBlkF_nofault] at h
  refine ⟨?_, ?_, ?_⟩
  · rw [h]; unfold syncSaveN syncSave; cases nested <;> simp <;> split <;> rfl
  · unfold eventActs; simp
  · unfold eventActs; cases nested <;> cases b.persistent <;> cases b.sync <;> cases b.dyn.inited <;> simp

/-- (a) exception path: nothing is saved, persistence is switched off iff the block is persistent and the
    circuit is not ready (`persistent := persistent ∧ ready`, the model's rule), the exception is re-raised -/
theorem translated_persist_event_failure_is_model (f : Faults) (s : Storage) (b : Blk)
    (p ready sy ini sr nested : Bool) :
    runEvent f b (eventActs true p ready sy ini sr nested) ⟨p, s, false⟩ = ⟨p && ready, s, false⟩ ∧
    (eventActs true p ready sy ini sr nested).getLast? = some .reraise := by
  unfold eventActs
  cases p <;> cases ready <;> simp [runEvent]

/-- the flag `_persist_event_active` along the action list: `enter` sets it, `leave` puts the entry value back -/
def runFlag (nested : Bool) : List Prim → Bool → Bool
  | [], a => a
  | .enter :: r, _ => runFlag nested r true
  | .leave :: r, _ => runFlag nested r nested
  | _ :: r, a => runFlag nested r a

/-- is the flag set whenever `super().event` is called (attempted)? -/
def flagAtSuper (nested : Bool) : List Prim → Bool → Option Bool
  | [], _ => none
  | .enter :: r, _ => flagAtSuper nested r true
  | .leave :: r, _ => flagAtSuper nested r nested
  | .superEvent :: _, a => some a
  | .fails .superEvent :: _, a => some a
  | _ :: r, a => flagAtSuper nested r a

/-- the nesting flag is sound: on every path (handler returned or raised, save done, failed or skipped) the flag
    is set while `super().event` runs - so an `event()` the handler sends to its own block finds `nested = True` -
    and has its entry value again when `event()` is left; a block no `event()` has entered yet has it cleared (the
    class attribute).  Hence `nested` is true exactly in the calls made while another `event()` of the block is
    active, whatever `_enable_event` does to `_event_active`. -/
theorem translated_persist_event_flag_is_balanced (sr p ready sy ini svr nested : Bool) :
    runFlag nested (eventActs sr p ready sy ini svr nested) nested = nested ∧
    flagAtSuper nested (eventActs sr p ready sy ini svr nested) nested = some true ∧
    eventFlagDefault = false := by
  unfold eventActs eventFlagDefault
  cases sr <;> cases p <;> cases ready <;> cases sy <;> cases ini <;> cases svr <;> cases nested <;>
    simp [runFlag, flagAtSuper]

/-- `nested_event_never_saves` at the level of the translated code: a nested call of the wrapper contains no
    `save` action at all, whatever the handler, the flags and the storage do; the storage stays as it was -/
theorem translated_persist_nested_event_never_saves (f : Faults) (b : Blk) (sr p ready sy ini svr : Bool)
    (w : WSt) :
    (eventActs sr p ready sy ini svr true).all (fun a => match a with
      | .save => false | .fails .save => false | _ => true) = true ∧
    (runEvent f b (eventActs sr p ready sy ini svr true) w).store = w.store := by
  unfold eventActs
  cases sr <;> cases p <;> cases ready <;> cases sy <;> cases ini <;> cases svr <;> simp [runEvent]

/-- (a) the model's wrapper on a failing storage (`resave`, used by `Circ.eventF` / `Circ.fireF`) IS the
    translated wrapper: same storage, and `saveError` exactly when an exception leaves the translated `event()` -/
theorem translated_persist_event_on_failing_storage_is_model (c c' : Circ) (f : Faults) (i : Nat) (v : Val)
    (b' : Blk) (hb' : c'.blocks[i]? = some b') (ready : Bool) :
    resave c c' f i v =
      (let w := runEvent f b' (eventActs false b'.persistent ready b'.sync b'.dyn.inited (saveBlkF f c.store b').2 false)
        ⟨b'.persistent, c.store, false⟩
       if b'.persistent && b'.sync && b'.dyn.inited then
         ({ c' with store := w.store }, if w.raised then .saveError else .res (.ret v))
       else (c', .res (.ret v))) := by
  have h := translated_persist_event_success_is_model f c.store b' ready false
  simp only [Bool.not_false, Bool.true_and] at h
  unfold resave
  simp only [hb', h]
  cases hc : (b'.persistent && b'.sync && b'.dyn.inited)
  · simp
  · simp only [if_true]
    cases hx : saveBlkF f c.store b' with
    | mk s x => cases x <;> simp

/-- (a) the model's run-time wrapper `Circ.event` IS the translated wrapper on a working storage: with
    `superRaises` = "the handler's result is an exception", `ready` = `is_ready()` after the event, the block's flag
    and the storage after `Circ.event` are what the translated action list computes -/
theorem translated_persist_event_is_circ_event (c c' : Circ) (cal : Val → Option Bool) (i : Nat)
    (ev : Ev) (r : Res) (b b' : Blk)
    (h : c.event cal i ev = some (c', r)) (hb : c.blocks[i]? = some b) (hb' : c'.blocks[i]? = some b')
    (hin : b'.dyn.inited = true) :
    runEvent {} b' (eventActs (match r with | .ret _ => false | _ => true) b.persistent c'.ready b.sync
      b'.dyn.inited false false) ⟨b.persistent, c.store, false⟩ = ⟨b'.persistent, c'.store, false⟩ := by
  have hlen : i < c.blocks.length := (List.getElem?_eq_some_iff.mp hb).1
  unfold Circ.event at h
  split at h
  · simp at h
  · rw [hb] at h
    simp only at h
    generalize blockEvent b.kind cal c.now b.dyn ev = p at h
    obtain ⟨d, r0⟩ := p
    cases r0 with
    | ret v =>
      simp only [Option.some.injEq, Prod.mk.injEq] at h
      obtain ⟨rfl, rfl⟩ := h
      simp only [List.getElem?_set, hlen, if_true, Option.some.injEq] at hb'
      subst hb'
      have h1 := fun rd => (translated_persist_event_success_without_faults c.store { b with dyn := d } rd false).1
      simp only at h1 hin
      rw [h1]
      simp only [syncSaveN, syncSave, hin, Bool.and_true, Bool.false_eq_true, if_false]
    | handlerError =>
      simp only [Option.some.injEq, Prod.mk.injEq] at h
      obtain ⟨rfl, rfl⟩ := h
      simp only [List.getElem?_set, hlen, if_true, Option.some.injEq] at hb'
      subst hb'
      rw [(translated_persist_event_failure_is_model {} c.store _ b.persistent _ b.sync _ false false).1]
      simp only [Circ.ready]
      cases hp : c.phase <;> simp
    | paramError =>
      simp only [Option.some.injEq, Prod.mk.injEq] at h
      obtain ⟨rfl, rfl⟩ := h
      simp only [List.getElem?_set, hlen, if_true, Option.some.injEq] at hb'
      subst hb'
      rw [(translated_persist_event_failure_is_model {} c.store _ b.persistent _ b.sync _ false false).1]
      rfl
    | unknown =>
      simp only [Option.some.injEq, Prod.mk.injEq] at h
      obtain ⟨rfl, rfl⟩ := h
      simp only [List.getElem?_set, hlen, if_true, Option.some.injEq] at hb'
      subst hb'
      rw [(translated_persist_event_failure_is_model {} c.store _ b.persistent _ b.sync _ false false).1]
      rfl

/-- the read of the stop time on a storage with faults -/
def stampRead (f : Faults) (s : Storage) : StampRead :=
  if f.read.contains stopKey then .failed else
  match s.get? stopKey with
  | none => .missing
  | some e => .found e

/-- (c) `_check_persistent_data` with a storage that may fail: it raises exactly when the model's `checkRaises` says
    so (an unreadable stop time, a failing `keys()`, a failing `del` when there is something to purge — none of
    them is caught); otherwise `persistent_ts` is the model's `readTs` and the entries that remain are exactly the
    model's `cleanUnused` (keys of persistent blocks and reserved `edzed-…` keys) -/
theorem translated_persist_check_is_model (f : Faults) (s : Storage) (bs : List Blk) :
    if checkRaises f s bs then
      checkPersistentData true (stampRead f s) (s.map (·.1)) bs f.iter f.remove = .error
    else
      ∃ deleted, checkPersistentData true (stampRead f s) (s.map (·.1)) bs f.iter f.remove
          = .checked (readTs s) deleted ∧
        cleanUnused s bs = s.filter (fun p => !(deleted.contains p.1)) := by
  have hfold : ∀ (c : String → Bool) (l acc : List String),
      l.foldl (fun del key => if c key then del ++ [key] else del) acc = acc ++ l.filter c := by
    intro c l
    induction l with
    | nil => intro acc; simp
    | cons a r ih =>
      intro acc
      simp only [List.foldl_cons, List.filter_cons]
      cases hc : c a <;> simp [ih]
  have side : ∀ (d : String → Bool), (∀ k, d k = !(k.startsWith "edzed-")) →
      cleanUnused s bs = s.filter (fun p => !(((s.map (·.1)).filter
        (fun k => !((bs.filter fun blk => blk.persistent).map fun blk => blk.key).contains k)).filter d).contains p.1) := by
    intro d hd
    unfold cleanUnused
    apply List.filter_congr
    intro p hp
    have hk' : ∃ e, (p.1, e) ∈ s := ⟨p.2, hp⟩
    simp only [reserved, persistentKeys, List.contains_eq_mem, List.mem_filter, List.mem_map, hd]
    cases h1 : p.1.startsWith "edzed-" <;>
      by_cases h2 : p.1 ∈ List.map (fun blk => blk.key) (List.filter (fun blk => blk.persistent) bs) <;>
      simp_all
  -- "there is something to purge" = the translated list of deleted keys is not empty
  have hany : ∀ (d : String → Bool), (∀ k, d k = !(k.startsWith "edzed-")) →
      (((s.map (·.1)).filter (fun k => !((bs.filter fun blk => blk.persistent).map fun blk => blk.key).contains k)).filter d).isEmpty
        = !(s.any (fun p => !(reserved p.1 || (persistentKeys bs).contains p.1))) := by
    intro d hd
    have hpk : persistentKeys bs = (bs.filter fun blk => blk.persistent).map fun blk => blk.key := rfl
    cases hany : s.any (fun p => !(reserved p.1 || (persistentKeys bs).contains p.1))
    · -- nothing to purge
      simp only [Bool.not_false, List.isEmpty_iff, List.filter_eq_nil_iff]
      intro k hk
      simp only [List.mem_filter, List.mem_map] at hk
      obtain ⟨⟨p, hp, rfl⟩, hnot⟩ := hk
      have := List.any_eq_false.mp hany p hp
      rw [hd]
      cases hq : (reserved p.1 || (persistentKeys bs).contains p.1)
      · rw [hq] at this; simp at this
      · rcases Bool.or_eq_true_iff.mp hq with h1 | h1
        · simp only [reserved] at h1; simp [h1]
        · rw [hpk] at h1; rw [h1] at hnot; simp at hnot
    · obtain ⟨p, hp, hP⟩ := List.any_eq_true.mp hany
      simp only [Bool.not_eq_true', Bool.or_eq_false_iff] at hP
      have hmem : p.1 ∈ ((s.map (·.1)).filter
          (fun k => !((bs.filter fun blk => blk.persistent).map fun blk => blk.key).contains k)).filter d := by
        simp only [List.mem_filter, List.mem_map]
        refine ⟨⟨⟨p, hp, rfl⟩, ?_⟩, ?_⟩
        · rw [← hpk, hP.2]; rfl
        · rw [hd]; simp only [reserved] at hP; rw [hP.1]; rfl
      simp only [Bool.not_true]
      cases hX : ((s.map (·.1)).filter
          (fun k => !((bs.filter fun blk => blk.persistent).map fun blk => blk.key).contains k)).filter d with
      | nil => rw [hX] at hmem; cases hmem
      | cons a r => rfl
  unfold checkPersistentData readTs checkRaises stampRead
  simp only [Bool.not_true, Bool.false_eq_true, if_false, hfold, List.nil_append]
  cases hrd : f.read.contains stopKey
  · cases hit : f.iter
    · cases hrm : f.remove
      · simp only [Bool.false_or, Bool.false_and, Bool.or_false, Bool.false_eq_true, if_false]
        rcases hst : s.get? stopKey with _ | e
        · exact ⟨_, rfl, side _ (fun k => by cases h : k.startsWith "edzed-" <;> simp [h])⟩
        · cases e <;> exact ⟨_, rfl, side _ (fun k => by cases h : k.startsWith "edzed-" <;> simp [h])⟩
      · simp only [Bool.false_or, Bool.true_and, Bool.or_false]
        have hh := hany (fun key => !(key.startsWith "edzed-")) (fun k => rfl)
        cases hne : s.any (fun p => !(reserved p.1 || (persistentKeys bs).contains p.1))
        · rw [hne] at hh
          simp only [Bool.false_eq_true, if_false]
          rcases hst : s.get? stopKey with _ | e
          · simp only [hh, Bool.not_true, Bool.false_eq_true, if_false]
            exact ⟨_, rfl, side _ (fun k => by cases h : k.startsWith "edzed-" <;> simp [h])⟩
          · cases e <;> simp only [hh, Bool.not_true, Bool.false_eq_true, if_false] <;>
              exact ⟨_, rfl, side _ (fun k => by cases h : k.startsWith "edzed-" <;> simp [h])⟩
        · rw [hne] at hh
          simp only [Bool.not_true] at hh
          simp only [if_true]
          rcases hst : s.get? stopKey with _ | e
          · simp only [hh, Bool.not_false, Bool.and_self, if_true]; simp
          · cases e <;> (simp only [hh, Bool.not_false, Bool.and_self, if_true]; simp)
    · simp only [Bool.false_or, Bool.true_or, if_true]
      rcases hst : s.get? stopKey with _ | e
      · rfl
      · cases e <;> rfl
  · simp

/-- (c) without a storage nothing is read or removed: every persistent block gets `persistent = False` -/
theorem translated_persist_check_without_storage (st : StampRead) (ks : List String)
    (bs : List Blk) (ir dr : Bool) :
    checkPersistentData false st ks bs ir dr = .noStorage (bs.filter (·.persistent)) := by
  unfold checkPersistentData
  cases h : (bs.filter (·.persistent)) <;> simp_all

/-- meaning of the primitives of the stop fragment on a storage with faults `f`, up to the first `await` of the
    clean-up; the flag: an exception leaves `run_forever` BEFORE the clean-up (never, with the repair) -/
def runStop (f : Faults) (t : Nat) : List Prim → Circ × Bool → Circ × Bool
  | [], c => c
  | .saveAll :: r, (c, x) => runStop f t r ({ c with store := (saveAllF f c.store c.blocks).1 }, x)
  | .fails .saveAll :: r, (c, x) => runStop f t r ({ c with store := (saveAllF f c.store c.blocks).1 }, x)
  | .stamp :: r, (c, x) => runStop f t r ({ c with store := c.store.set stopKey (.ts t) }, x)
  | .cleanup :: _, (c, x) =>
    ({ c with now := t, phase := if c.phase == .failed then .stoppingF else .stopping }, x)
  | .propagate :: _, (c, _) => ({ c with now := t, phase := .stopped }, true)
  | _ :: r, c => runStop f t r c

/-- (d) ORDER: all saves, then the stop time, then the first await of the clean-up; a save that lets an exception
    out, or a failing stop-time write, ends the save-and-stamp section (the handler only logs) and the clean-up
    FOLLOWS all the same (the repair of C08-storage-fault-at-stop-skips-cleanup); nothing but the clean-up when the
    start did not go through or there is no storage; nothing when no block was started -/
theorem translated_persist_stop_order (so hs sr wr : Bool) :
    stopActs true true true false false = [.saveAll, .stamp, .cleanup] ∧
    stopActs true true true true wr = [.fails .saveAll, .cleanup] ∧
    stopActs true true true false true = [.saveAll, .fails .stamp, .cleanup] ∧
    stopActs true false hs sr wr = [.cleanup] ∧ stopActs true so false sr wr = [.cleanup] ∧
    stopActs false so hs sr wr = [] := by
  unfold stopActs
  cases so <;> cases hs <;> cases sr <;> cases wr <;> simp

/-- (d) the translated fragment, run up to the first await on a storage with faults `f`, IS the model's
    `stopBeginF`, and no exception leaves it -/
theorem translated_persist_stop_is_model (f : Faults) (c : Circ) (t : Nat)
    (hph : c.phase = .running ∨ c.phase = .aborted ∨ c.phase = .failed) :
    runStop f t (stopActs true c.startOk true (saveAllF f c.store c.blocks).2 f.write) (c, false)
      = (c.stopBeginF f t, false) := by
  unfold stopActs Circ.stopBeginF Circ.stopBegin
  rcases hph with h | h | h <;> cases hs : c.startOk <;> cases hw : f.write <;>
    cases hx : saveAllF f c.store c.blocks with
    | mk s x => cases x <;> simp [runStop, h, hs, hw, hx]

/-- …on a working storage that is `stopBegin` -/
theorem translated_persist_stop_without_faults (c : Circ) (t : Nat)
    (hph : c.phase = .running ∨ c.phase = .aborted ∨ c.phase = .failed) :
    runStop {} t (stopActs true c.startOk true false false) (c, false) = (c.stopBegin t, false) := by
  have h := translated_persist_stop_is_model {} c t hph
  rw [saveAllF_nofault] at h
  rw [h]
  unfold Circ.stopBeginF Circ.stopBegin
  rcases hph with h | h | h <;> cases hs : c.startOk <;> simp [h, hs, saveAllF_nofault]

/-! #### `utils/looptimes.py`: the conversion every saved / restored timer expiry goes through -/

/-- `_get_timediff` IS the midpoint of the two Unix readings minus the loop reading taken between them; with the
    readings of one instant it is the offset "wall clock minus loop clock" of the model's virtual wall clock -/
theorem translated_looptimes_timediff_is_model (u1 l u2 : Rat) :
    getTimediff u1 l u2 = (u1 + u2) / 2 - l ∧ getTimediff u1 l u1 = u1 - l := by
  constructor <;> (simp only [getTimediff]; try ring)

/-- direction of the two conversions: loop → Unix ADDS the difference, Unix → loop SUBTRACTS it; a given
    `timediff` is used as it is, `None` means a fresh `_get_timediff()` -/
theorem translated_looptimes_direction (x d u1 l u2 : Rat) :
    loopToUnixtime x (some d) u1 l u2 = x + d ∧ unixToLooptime x (some d) u1 l u2 = x - d ∧
    loopToUnixtime x none u1 l u2 = x + getTimediff u1 l u2 ∧
    unixToLooptime x none u1 l u2 = x - getTimediff u1 l u2 := by
  refine ⟨?_, ?_, ?_, ?_⟩ <;> (simp only [loopToUnixtime, unixToLooptime]; try ring)

/-- `unix_to_looptime ∘ loop_to_unixtime = id` (and the other way round) for a fixed `timediff`, and for a fixed
    triple of clock readings -/
theorem translated_looptimes_roundtrip (x d u1 l u2 v1 m v2 : Rat) :
    unixToLooptime (loopToUnixtime x (some d) u1 l u2) (some d) v1 m v2 = x ∧
    loopToUnixtime (unixToLooptime x (some d) u1 l u2) (some d) v1 m v2 = x ∧
    unixToLooptime (loopToUnixtime x none u1 l u2) none u1 l u2 = x := by
  refine ⟨?_, ?_, ?_⟩ <;> (simp only [loopToUnixtime, unixToLooptime]; try ring)

/-- a restored timer keeps its ABSOLUTE expiry: `get_state` saved `E = loop_to_unixtime(when)`; `_restore_state`
    computes the remaining time on the SAME (Unix) clock, `remaining = E - time.time()`, and `call_later(remaining)` at
    loop time `l'` creates a handle whose own `loop_to_unixtime` is `E` again — whatever the new loop's time base -/
theorem translated_looptimes_restart_preserves_expiry (when_ u l u' l' : Rat) :
    loopToUnixtime (l' + (loopToUnixtime when_ none u l u - u')) none u' l' u' = loopToUnixtime when_ none u l u := by
  simp only [loopToUnixtime, getTimediff]; ring

/-- the model's virtual wall clock is "loop clock + offset": the saved expiry of a handle due at loop time `when_` is
    the model's absolute wall-clock expiry `when_ + off` -/
theorem translated_looptimes_is_model_wall_clock (when_ l off : Rat) :
    loopToUnixtime when_ none (l + off) l (l + off) = when_ + off := by
  simp only [loopToUnixtime, getTimediff]; ring

/-! #### `AddonPersistence.__init__` -/

/-- the translated constructor IS the model's `mkBlk`: truthiness of `persistent` / `sync_state`, `time_period` of
    `expiration` (which may refuse the value), the key -/
theorem translated_persist_init_is_model (key : String) (kind : Persist.Kind) (p sy e : Val) (link : Option Link) :
    (persistInit TimeUnits.timePeriod (.ok ()) key p sy e).map
        (fun a => (a.key, a.persistent, a.sync_state, a.expiration.map usOf))
      = (mkBlk key kind { persistent := p, syncState := sy, expiration := e } link).map
        (fun b => (b.key, b.persistent, b.sync, b.expiration)) := by
  unfold persistInit mkBlk
  cases h : TimeUnits.timePeriod e <;> rfl

/-- the defaults of the signature are the model's: not persistent, sync_state on, no expiration -/
theorem translated_persist_init_defaults (key : String) :
    persistInitDefaults = (({} : PArgs).persistent, ({} : PArgs).syncState, ({} : PArgs).expiration) ∧
    (persistInit TimeUnits.timePeriod (.ok ()) key persistInitDefaults.1 persistInitDefaults.2.1
      persistInitDefaults.2.2).map (fun a => (a.persistent, a.sync_state, a.expiration)) = .ok (false, true, none) := by
  constructor <;> rfl

/-- `expiration` None, 0 (or less) and a positive duration are kept apart: None stays None (never expires), a number
    `≤ 0` becomes 0 (the saved state is always disregarded), a positive number of seconds is kept -/
theorem translated_persist_init_expiration_kinds (key : String) (p sy : Val) (q : Rat) (k : Edzed.Kind) (ts : Option Time)
    (now : Time) :
    (persistInit TimeUnits.timePeriod (.ok ()) key p sy Val.none).map (·.expiration) = .ok none ∧
    (q ≤ 0 → (persistInit TimeUnits.timePeriod (.ok ()) key p sy (.atom (.num q k))).map (·.expiration) = .ok (some 0)) ∧
    (0 < q → (persistInit TimeUnits.timePeriod (.ok ()) key p sy (.atom (.num q k))).map (·.expiration) = .ok (some q)) ∧
    expired none ts now = false ∧ expired (some (usOf 0)) ts now = true := by
  refine ⟨rfl, ?_, ?_, rfl, ?_⟩
  · intro hq
    have : TimeUnits.timePeriod (.atom (.num q k)) = .ok (some 0) := by
      have h : TimeUnits.timePeriod (.atom (.num q k)) = .ok (some (if q < 0 then 0 else q)) := rfl
      rw [h]
      by_cases h0 : q < 0
      · rw [if_pos h0]
      · have : q = 0 := le_antisymm hq (not_lt.mp h0)
        rw [if_neg h0, this]
    simp only [persistInit, this]; rfl
  · intro hq
    have : TimeUnits.timePeriod (.atom (.num q k)) = .ok (some q) := by
      have h : TimeUnits.timePeriod (.atom (.num q k)) = .ok (some (if q < 0 then 0 else q)) := rfl
      rw [h, if_neg (not_lt.mpr (le_of_lt hq))]
    simp only [persistInit, this]; rfl
  · have h0 : usOf 0 = 0 := by decide +kernel
    rw [h0]; simp [expired]

/-- a value `time_period` refuses makes the constructor raise BEFORE `super().__init__` is reached -/
theorem translated_persist_init_refusal_comes_first (key : String) (p sy e : Val) (err : TimeUnits.PErr)
    (h : TimeUnits.timePeriod e = .error err) (superInit : Except TimeUnits.PErr Unit) :
    (persistInit TimeUnits.timePeriod superInit key p sy e).map (fun _ => ()) = .error err := by
  simp [persistInit, h, bind, Except.bind, Except.map]

/-- `persistent=False` (any falsy value, and the default): no key is ever written — neither by
    `save_persistent_state` nor by the event wrapper, on any storage -/
theorem translated_persist_not_persistent_never_writes (key : String) (p sy e : Val) (a : PersistAttrs)
    (h : persistInit TimeUnits.timePeriod (.ok ()) key p sy e = .ok a) (hp : p.truthy = false)
    (f : Faults) (b : Blk) (st : Option Entry) (g w r sr ready ini nested : Bool) (s : Storage) :
    a.persistent = false ∧
    runSave key st (saveActs a.persistent g w r) (s, false) = (s, false) ∧
    (runEvent f b (eventActs false a.persistent ready a.sync_state ini sr nested) ⟨a.persistent, s, false⟩).store = s := by
  have ha : a.persistent = false := by
    unfold persistInit at h
    cases ht : TimeUnits.timePeriod e with
    | error x => rw [ht] at h; simp [bind, Except.bind] at h
    | ok x =>
      rw [ht] at h
      simp only [bind, Except.bind, pure, Except.pure, Except.ok.injEq] at h
      rw [← h]; exact hp
  refine ⟨ha, ?_, ?_⟩
  · rw [ha]; simp [saveActs, runSave]
  · rw [ha]; simp [eventActs, runEvent]

/-- `InputExp.on_enter_expired` removes `sdata['input']` — the method exists, but no FSM hook of that name is ever
    looked up (`enter_expired` would be): the model never applies it, as the correspondence confirms -/
theorem translated_inputexp_on_enter_expired_is_model (sd : Data) :
    inputExpOnEnterExpired sd = sd.erase "input" := rfl

/-- non-vacuity: a concrete constructor call -/
example : (persistInit TimeUnits.timePeriod (.ok ()) "<Input 'i'>" (Val.int 1) (Val.str "") (Val.flt (-3/2))).map
    (fun a => (a.persistent, a.sync_state, a.expiration)) = .ok (true, false, some 0) := by
  decide +kernel

/-! ### `get_state()` of the cron clients (round ten, finding C06-uninitialised-cal-state-saved)

`TimeDate.get_state` / `TimeSpan.get_state` are translated by tools/py2lean_cron_cfg.py together with the state of
initialisation of the block (`tdGetStateOpt`, `tsGetStateOpt`: `none` = EdzedInvalidState).  The model's `getState`
answers `none` for EVERY uninitialised block, hence `saveBlk` removes the entry and a restart initialises the block
from its arguments.  The unrepaired methods had no guard: the generated definitions answered `some …` for an
uninitialised block, the two theorems below did not hold, and run_forever saved a state the block never had. -/

open Gen.TrCronCfg in
/-- `get_state()` of an uninitialised TimeDate / TimeSpan raises, as the model's `getState` says of every kind -/
theorem translated_croncfg_get_state_of_uninitialised_block_raises
    {TA DA SA TI DI SI TL DL SL ε : Type} (P : CfgPrims TA DA SA TI DI SI TL DL SL ε)
    (t : Option TI) (d : Option DI) (w : Option (List Int)) (x : SI) (i : Val) (dyn : Dyn) (h : dyn.inited = false) :
    tdGetStateOpt P false t d w = none ∧ tsGetStateOpt P false x = none ∧ getState (.cal i) dyn = none := by
  refine ⟨rfl, rfl, ?_⟩
  simp [getState, h]

open Gen.TrCronCfg in
/-- … and they answer exactly when the model does: the translated methods are defined iff the block is initialised,
    and then they are the translated `_export3` / `as_list()` of the stored configuration -/
theorem translated_croncfg_get_state_defined_iff_model
    {TA DA SA TI DI SI TL DL SL ε : Type} (P : CfgPrims TA DA SA TI DI SI TL DL SL ε)
    (t : Option TI) (d : Option DI) (w : Option (List Int)) (x : SI) (i : Val) (dyn : Dyn) :
    (tdGetStateOpt P dyn.inited t d w).isSome = (getState (.cal i) dyn).isSome ∧
    (tsGetStateOpt P dyn.inited x).isSome = (getState (.cal i) dyn).isSome ∧
    (dyn.inited = true → tdGetStateOpt P dyn.inited t d w = some (export3 P t d w) ∧
      tsGetStateOpt P dyn.inited x = some (P.spanAsList x)) := by
  cases h : dyn.inited <;> simp [tdGetStateOpt, tsGetStateOpt, tdGetState, tsGetState, getState, h]

/-- consequence for the final save of `run_forever`: the entry of an uninitialised persistent block of ANY kind is
    removed, never written -/
theorem uninitialised_block_is_never_saved (s : Storage) (b : Blk) (hp : b.persistent = true)
    (hi : b.dyn.inited = false) : saveBlk s b = s.erase b.key := by
  simp [saveBlk, hp, getState, hi]

/-! ### a stopped FSM does not save any more (round ten, finding C06-late-event-overwrites-saved-timer)

`FSM.stop()` cancels the timer; an event that reaches the block afterwards (sent by the `stop()` of another block:
the blocks without asynchronous clean-up are stopped in set order) used to make `AddonPersistence.event` save the
state WITHOUT the timer over what `run_forever` had saved before it stopped the blocks – a restart then restored a
timed state that never expires.  The repaired `stop()` switches the block's persistence off (translated statement
`self.persistent = False`, tied in C04: `translated_fsmtimer_stop_is_model`, `stop_switches_persistence_off`). -/

/-- after a complete clean-up every FSM block has its persistence switched off, every other block keeps its flag -/
theorem stopped_fsm_is_not_persistent (c : Circ) (t : Time) (hp : c.phase = .stopping ∨ c.phase = .stoppingF)
    (hs : c.started = true) (b : Blk) (hb : b ∈ (c.stopEnd t true).blocks) :
    (∀ k, b.kind = .fsm k → b.persistent = false) ∧ b.dyn.timer = none := by
  have hph : (c.phase != .stopping && c.phase != .stoppingF) = false := by
    rcases hp with h | h <;> simp [h]
  simp only [Circ.stopEnd, hph, Bool.false_eq_true, ↓reduceIte, List.mem_map] at hb
  obtain ⟨b0, _, rfl⟩ := hb
  refine ⟨?_, rfl⟩
  intro k hk
  simp only at hk
  simp [hk, hs]

/-- … and whatever an event does to such a block afterwards, neither `save_persistent_state` nor the sync save writes:
    the entry saved when the stop began is what a restart finds -/
theorem stopped_fsm_never_overwrites_saved_state (s : Storage) (b : Blk) (hp : b.persistent = false) (d : Dyn) :
    saveBlk s { b with dyn := d } = s ∧ syncSave s { b with dyn := d } = s := by
  simp [saveBlk, syncSave, hp]

/-- the final save of a start-up that failed DURING the initialisation (`start_ok` set, phase `failed`; round ten):
    afterwards the storage holds, for every persistent block, exactly what `get_state()` answers - the state of an
    initialised block, and NO entry for a block that was never initialised (whatever the storage held before), so
    that a restart initialises it from its arguments -/
theorem failed_init_final_save (c : Circ) (t : Time) (hph : c.phase = .failed) (hok : c.startOk = true)
    (hn : (keys c.blocks).Nodup) (b : Blk) (hb : b ∈ c.blocks) (hp : b.persistent = true) (hk : b.key ≠ stopKey) :
    (c.stopBegin t).store.get? b.key = getState b.kind b.dyn ∧
    (b.dyn.inited = false → (c.stopBegin t).store.get? b.key = none) := by
  have h1 : (c.stopBegin t).store.get? b.key = getState b.kind b.dyn := by
    simp only [Circ.stopBegin, hph, hok]
    have hc : (Phase.failed != Phase.running && Phase.failed != Phase.aborted && Phase.failed != Phase.failed) = false := by
      decide
    simp only [hc, Bool.false_eq_true, ↓reduceIte]
    rw [Storage.get?_set_ne _ _ hk]
    exact saveAll_mem c.blocks hn c.store hb hp
  refine ⟨h1, fun hi => ?_⟩
  rw [h1]; simp [getState, hi]

end Edzed.TrTie
