/-
C11 — a block never handles two events at once.

Model: EdzedModel/Dispatch.lean (`deliver` mirrors `SBlock.event`; handlers are scripts; the
ghost `stack` holds the `event()` frames, the ghost `trace` the handler entries with the nesting
depth of the block).  All statements are for every circuit (any number of blocks of any kind, any
event graph with cycles, self-loops and diamonds, any filters and conditional events), every
state, every event and every amount of fuel; `Idle` states are the states between two top-level
deliveries (no block inside `event()`).
-/
import EdzedModel.Dispatch
import EdzedProofs.Dispatch
import EdzedProofs.DispatchTie
import EdzedProofs.DispatchPersist
import EdzedProofs.HandlersTie
import EdzedModel.Gen.Constants

namespace Edzed.Dispatch

/-! ### guard_balanced -/

/-- After EVERY outcome of a call of `event()` – handled, "no event" of an EventCond, unknown type,
    parameter error, handler error, refused recursion, failure of an early initialisation, malformed
    type – every `_event_active` flag has the value it had before the call (induction on the call
    tree; filters are part of `sendEdges` inside the handlers). -/
theorem guard_balanced (c : Circ) (fuel : Nat) (s : St) (d : Nat) (et : EType) (data : Data) :
    (deliver c fuel s d et data).1.active = s.active :=
  (deliver_frm c fuel s d et data).active

/-- hence after a top-level delivery (direct call of `event()`) no block is locked -/
theorem guard_balanced_top (c : Circ) (s : St) (d : Nat) (et : EType) (data : Data) (h : Idle s) :
    Idle (rawSend c s d et data).1 :=
  h.of_frm (deliver_frm c _ s d et data)

/-- the same for an external event (`ExtEvent.send`) -/
theorem guard_balanced_ext (c : Circ) (s : St) (d : Nat) (name : String) (data : Data) (h : Idle s) :
    Idle (extSend c s d name data).1 := by
  unfold extSend
  split
  · exact h
  · exact h.of_frm (deliver_frm c _ s d _ _)

/-- and for the circuit's start-up (events exchanged during the initialisation), failed or not -/
theorem guard_balanced_init (c : Circ) (s : St) (h : Idle s) : Idle (initAll c s).1 :=
  h.of_frm (initAll_frm c s)

/-! ### no_nested_handling -/

/-- In every execution the handler of a block is entered with nesting depth 1, i.e. never while a
    handler of the same block is running (`TItem.ok` of an `enter` item says `depth = 1`, where
    `depth` counts the frames of the block on the stack that are in phase `handler`).  The other
    frames of the block that may be below it are in phase `init` – the documented window
    "initialisation of a block by an event" (`_enable_event` around `init_sblock`) – or in phase
    `window` – an FSM transition suspended in `with self._enable_event:` around its entry action or
    the start of its timer, where the nested handler only parks ONE chained request
    (`chained_request_is_parked`, `second_chained_request_is_refused`).  This covers the handlers of
    FSMs, their initial transition (`fsm_initial_transition_is_an_event`) and timer-driven
    transitions (`timer_expiry_is_an_event`). -/
theorem no_nested_handling (c : Circ) (fuel : Nat) (s : St) (d : Nat) (et : EType) (data : Data)
    (hi : Inv s) (ht : TraceOk s) : TraceOk (deliver c fuel s d et data).1 :=
  (deliver_good c fuel s d et data ⟨hi, ht⟩).2

/-- top-level form: every handler entry recorded during a top-level delivery has depth 1 -/
theorem no_nested_handling_top (c : Circ) (s : St) (d : Nat) (et : EType) (data : Data) (h : Idle s)
    (ht : s.trace = []) : ∀ t ∈ (rawSend c s d et data).1.trace, t.ok :=
  no_nested_handling c _ s d et data h.inv (by intro t; simp [ht])

/-- … and during the start-up of the circuit -/
theorem no_nested_handling_init (c : Circ) (s : St) (h : Idle s) (ht : s.trace = []) :
    ∀ t ∈ (initAll c s).1.trace, t.ok :=
  (initAll_good c s ⟨h.inv, by intro t; simp [ht]⟩).2

/-- the guard and the stack agree at every handler entry: the invariant is kept by every call -/
theorem guard_tracks_stack (c : Circ) (fuel : Nat) (s : St) (d : Nat) (et : EType) (data : Data)
    (hi : Inv s) : Inv (deliver c fuel s d et data).1 :=
  hi.of_frm (deliver_frm c fuel s d et data)

/-! ### recursion_is_refused_and_aborts -/

/-- an event addressed to a block that is handling an event is refused with EdzedCircuitError;
    the handler is not entered; the only change of the state is `Circuit.abort(exc)` – the simulation
    is stopped AT the refusal (repaired `SBlock.event`: `exc = …; self.circuit.abort(exc); raise exc`);
    the type checks come first -/
theorem recursive_event_is_refused (c : Circ) (fuel : Nat) (s : St) (d : Nat) (b : Blk) (et : EType)
    (data : Data) (hb : c.blocks[d]? = some b) (ht : et.check = Option.none) (ha : s.active d = true) :
    deliver c (fuel + 1) s d et data =
      ({ s.abort .circuitError with trace := .refused d :: s.trace }, .exc .circuitError) := by
  unfold deliver
  simp [hb, ht, ha]

/-- a refused recursive event sets `Circuit.error` at the refusal itself … -/
theorem recursion_is_refused_and_aborts (c : Circ) (fuel : Nat) (s : St) (d : Nat) (b : Blk)
    (et : EType) (data : Data) (hb : c.blocks[d]? = some b) (ht : et.check = Option.none)
    (ha : s.active d = true) :
    (deliver c (fuel + 1) s d et data).2 = .exc .circuitError ∧
    (deliver c (fuel + 1) s d et data).1.error.isSome := by
  rw [recursive_event_is_refused c fuel s d b et data hb ht ha]
  exact ⟨rfl, abort_error s _⟩

/-- … and it stays set whatever any handler on the stack does afterwards (propagate the exception,
    turn it into other events, or swallow it with `try/except` – `Act.trySend`): if anywhere in the
    call tree of a delivery an event was refused, `Circuit.error` is set when the delivery returns,
    with or without an exception for the sender -/
theorem refusal_stops_simulation (c : Circ) (fuel : Nat) (s : St) (d : Nat) (et : EType) (data : Data)
    (h0 : s.trace = []) (x : Nat) (hx : TItem.refused x ∈ (deliver c fuel s d et data).1.trace) :
    (deliver c fuel s d et data).1.error.isSome :=
  deliver_refAbort c fuel s d et data (by intro ⟨y, hy⟩; simp [h0] at hy) ⟨x, hx⟩

/-- the error is never withdrawn by later deliveries -/
theorem error_is_kept (c : Circ) (fuel : Nat) (s : St) (d : Nat) (et : EType) (data : Data)
    (h : s.error.isSome) : (deliver c fuel s d et data).1.error.isSome :=
  (deliver_frm c fuel s d et data).error h

/-- every exception other than EdzedUnknownEvent that leaves a handler calls `abort` and is
    re-raised (error classification of `SBlock.event`) -/
theorem exception_leaving_handler_aborts (s : St) (e : Exc) (h1 : e ≠ .unknownEvent)
    (h2 : e ≠ .outOfFuel) : (classify s (.exc e)).error.isSome :=
  classify_aborts s e h1 h2

/-- a nested EdzedUnknownEvent passes through the handler without `abort` (DESIGN.md §5 #13,
    property C09): mirrored faithfully -/
theorem unknown_event_passes_handler (s : St) : classify s (.exc .unknownEvent) = s := rfl

/-- the first error wins -/
theorem abort_keeps_first_error (s : St) (e e' : Exc) (h : s.error = some e) :
    (s.abort e').error = some e := by
  simp [St.abort, h]

/-! ### harmless_outcomes_do_not_abort -/

theorem state_restored (s : St) (d : Nat) (h : s.active d = false) :
    ({ ({ s with active := upd s.active d true } : St) with
        active := upd (upd s.active d true) d false } : St) = s := by
  cases s
  simp only [St.mk.injEq, and_true]
  exact upd_restore _ _ h

/-- a filter rejection: the event is not delivered, nothing changes, the loop goes on -/
theorem filter_rejection_is_harmless (dlv : Dlv) (src : Nat) (s : St) (e : Edge) (es : List Edge)
    (data : Data) (h : applyFilters e.filters (data.set "source" (.str (blockName src))) = Option.none) :
    sendEdges dlv src s (e :: es) data = sendEdges dlv src s es data := by
  rw [sendEdges]; simp [h]

/-- a conditional event resolving to "no event": `event()` returns None, the state is as before
    (not locked, not aborted, not even initialised early) -/
theorem eventcond_none_is_harmless (c : Circ) (fuel : Nat) (s : St) (d : Nat) (b : Blk) (et : EType)
    (data : Data) (hb : c.blocks[d]? = some b) (ht : et.check = Option.none)
    (ha : s.active d = false) (hn : et.resolve (dataTruthy data) = .none) :
    deliver c (fuel + 1) s d et data = (s, .ret .none) := by
  unfold deliver
  simp only [hb, ht, ha, Bool.false_eq_true, if_false, eventBody, hn, if_true]
  rw [state_restored s d ha]

/-- an event of unknown type to an initialised block: EdzedUnknownEvent for the caller only -/
theorem unknown_event_is_harmless (c : Circ) (fuel : Nat) (s : St) (d : Nat) (b : Blk) (et : EType)
    (data : Data) (hb : c.blocks[d]? = some b) (ht : et.check = Option.none)
    (ha : s.active d = false) (hi : s.init d ≠ .pending)
    (hn : et.resolve (dataTruthy data) ≠ .none) (hk : b.kind ≠ .fsm) (hk2 : b.kind ≠ .repeat)
    (hl : lookupHandler b.kind (et.resolve (dataTruthy data)) = Option.none) :
    deliver c (fuel + 1) s d et data = (s, .exc .unknownEvent) := by
  unfold deliver
  simp only [hb, ht, ha, Bool.false_eq_true, if_false, eventBody, hn, earlyInit, hi, andThen,
    callHandler, hl, hk, hk2]
  rw [state_restored s d ha]

/-- an event with wrong parameters (the call of the handler does not bind): TypeError for the
    caller only – state unchanged, hence no lock and no abort -/
theorem parameter_error_is_harmless (c : Circ) (fuel : Nat) (s : St) (d : Nat) (b : Blk) (et : EType)
    (data : Data) (h : String × List String × List String × Bool)
    (hb : c.blocks[d]? = some b) (ht : et.check = Option.none)
    (ha : s.active d = false) (hi : s.init d ≠ .pending)
    (hn : et.resolve (dataTruthy data) ≠ .none) (hk : b.kind ≠ .fsm) (hk2 : b.kind ≠ .repeat)
    (hl : lookupHandler b.kind (et.resolve (dataTruthy data)) = some h)
    (hp : paramsOk h data = false) :
    deliver c (fuel + 1) s d et data = (s, .exc .typeError) := by
  unfold deliver
  simp only [hb, ht, ha, Bool.false_eq_true, if_false, eventBody, hn, earlyInit, hi, andThen,
    callHandler, hl, hp, Bool.not_false, if_true, hk, hk2]
  rw [state_restored s d ha]

/-- a malformed event type is rejected before the guard is touched – even by a busy block -/
theorem malformed_type_is_harmless (c : Circ) (fuel : Nat) (s : St) (d : Nat) (b : Blk) (et : EType)
    (data : Data) (x : Exc) (hb : c.blocks[d]? = some b) (ht : et.check = some x) :
    deliver c (fuel + 1) s d et data = (s, .exc x) := by
  unfold deliver
  simp [hb, ht]

/-- summary: whatever a call of `event()` does, an error state is never left and flags are kept;
    in particular the outcomes above neither lock a block nor stop the simulation -/
theorem harmless_outcomes_do_not_abort (c : Circ) (fuel : Nat) (s : St) (d : Nat) (b : Blk)
    (et : EType) (data : Data) (hb : c.blocks[d]? = some b) (ha : s.active d = false)
    (hi : s.init d ≠ .pending) (hk : b.kind ≠ .fsm) (hk2 : b.kind ≠ .repeat)
    (hcase : et.check.isSome ∨ (et.check = Option.none ∧ (et.resolve (dataTruthy data) = .none ∨
      (et.resolve (dataTruthy data) ≠ .none ∧
        (lookupHandler b.kind (et.resolve (dataTruthy data)) = Option.none ∨
         ∃ h, lookupHandler b.kind (et.resolve (dataTruthy data)) = some h ∧ paramsOk h data = false))))) :
    (deliver c (fuel + 1) s d et data).1 = s := by
  rcases hcase with h | ⟨ht, h | ⟨hn, h | ⟨h, hl, hp⟩⟩⟩
  · obtain ⟨x, hx⟩ := Option.isSome_iff_exists.1 h
    rw [malformed_type_is_harmless c fuel s d b et data x hb hx]
  · rw [eventcond_none_is_harmless c fuel s d b et data hb ht ha h]
  · rw [unknown_event_is_harmless c fuel s d b et data hb ht ha hi hn hk hk2 h]
  · rw [parameter_error_is_harmless c fuel s d b et data h hb ht ha hi hn hk hk2 hl hp]

/-! ### FSM blocks: the documented window and the timer -/

/-- While a transition of an FSM is in progress, a further transition request that reaches
    `FSM._event` (only possible through the window `with self._enable_event` around the entry action
    or the start of a zero-delay timer) is parked – exactly one – and acknowledged with True -/
theorem chained_request_is_parked (dlv : Dlv) (b : Blk) (d : Nat) (stk0 : List Frame) (s : St)
    (ns : Nat) (data : Data) (ha : s.fsmActive d = true) (hn : s.nextEv d = Option.none) :
    fsmAccept dlv b d stk0 s ns data =
      ({ s with nextEv := upd s.nextEv d (some (ns, data)) }, .ret (.bool true)) := by
  unfold fsmAccept
  simp [ha, hn]

/-- … a second request in the same transition raises EdzedCircuitError ("Forbidden event
    multiplication") inside the handler, which stops the simulation (`exception_leaving_handler_aborts`) -/
theorem second_chained_request_is_refused (dlv : Dlv) (b : Blk) (d : Nat) (stk0 : List Frame) (s : St)
    (ns : Nat) (data : Data) (nx : Nat × Data) (ha : s.fsmActive d = true) (hn : s.nextEv d = some nx) :
    fsmAccept dlv b d stk0 s ns data = (s, .exc .circuitError) := by
  unfold fsmAccept
  simp [ha, hn]

/-! ### FSM blocks: `cond_EVENT` callbacks (user code inside the handler) -/

/-- an event with a transition is accepted (parked or executed: `fsmAccept`) exactly after its condition
    returned a true value, in the state the callback left … -/
theorem cond_true_accepts_event (dlv : Dlv) (b : Blk) (d : Nat) (stk0 : List Frame) (s s' : St)
    (et : EType) (data : Data) (ns : Nat) (ht : fsmTarget b (s.fstate d) et = .to ns)
    (hc : fsmCond dlv b d s et data = (s', .ret (.bool true))) :
    fsmEvent dlv b d stk0 s et data = fsmAccept dlv b d stk0 s' ns data := by
  unfold fsmEvent
  simp [ht, hc, Val.bool, Val.truthy, Atom.truthy]

/-- … a condition returning false REJECTS the event: `_event` returns False, and nothing of the FSM has
    changed beyond what the callback itself did – no transition, no parked request, `_fsm_event_active`
    untouched; the block is unlocked by the `finally` of `event()` like after any other outcome
    (`guard_balanced`, `cond_rejection_is_harmless`) -/
theorem cond_false_rejects_event (dlv : Dlv) (b : Blk) (d : Nat) (stk0 : List Frame) (s s' : St)
    (et : EType) (data : Data) (ns : Nat) (ht : fsmTarget b (s.fstate d) et = .to ns)
    (hc : fsmCond dlv b d s et data = (s', .ret (.bool false))) :
    fsmEvent dlv b d stk0 s et data = (s', .ret (.bool false)) := by
  unfold fsmEvent
  simp [ht, hc, Val.bool, Val.truthy, Atom.truthy]

/-- … an exception of the callback (incl. the refusal of an event it sent) leaves the handler: it is
    classified by `SBlock.event` (`exception_leaving_handler_aborts`) -/
theorem cond_exception_leaves_handler (dlv : Dlv) (b : Blk) (d : Nat) (stk0 : List Frame) (s s' : St)
    (et : EType) (data : Data) (ns : Nat) (x : Exc) (ht : fsmTarget b (s.fstate d) et = .to ns)
    (hc : fsmCond dlv b d s et data = (s', .exc x)) :
    fsmEvent dlv b d stk0 s et data = (s', .exc x) := by
  unfold fsmEvent
  simp [ht, hc]

/-- the callback runs INSIDE the handler, before `_fsm_event_active` is consulted: flags, frames and
    `_fsm_event_active` are the same before and after it, whatever it sends (so an event it sends that leads
    back to this FSM meets the set guard and is refused: `recursion_is_refused_and_aborts`; it is not one
    of the documented windows: `no_nested_handling` holds with the callback running in phase `handler`) -/
theorem cond_callback_runs_with_guard_set (c : Circ) (fuel : Nat) (b : Blk) (d : Nat) (s : St) (et : EType)
    (data : Data) :
    (fsmCond (deliver c fuel) b d s et data).1.active = s.active ∧
    (fsmCond (deliver c fuel) b d s et data).1.stack = s.stack ∧
    (fsmCond (deliver c fuel) b d s et data).1.fsmActive = s.fsmActive :=
  let f := fsmCond_frm (deliver_frm c fuel) b d s et data
  ⟨f.active, f.stack, f.fsm⟩

/-- conditions are consulted for named events of an initialised FSM only (not for Goto, not during the
    initial transition) -/
theorem cond_not_consulted (dlv : Dlv) (b : Blk) (d : Nat) (s : St) (et : EType) (data : Data)
    (h : (∃ st, et = .goto st) ∨ (s.out d).isUndef = true) :
    fsmCond dlv b d s et data = (s, .ret (.bool true)) := by
  unfold fsmCond
  rcases h with ⟨st, rfl⟩ | h
  · rfl
  · split <;> simp_all

/-- a top-level event rejected by a condition without statements: the whole `event()` call returns False
    and the state is as before – apart from the (ghost) enter/exit record of the handler: no block locked,
    no abort, no transition, no timer touched -/
theorem cond_rejection_is_harmless (c : Circ) (fuel : Nat) (s : St) (d : Nat) (b : Blk) (ev : String)
    (data : Data) (ns : Nat) (cv : CondVal)
    (hb : c.blocks[d]? = some b) (hk : b.kind = .fsm) (ha : s.active d = false) (hi : s.init d ≠ .pending)
    (ho : (s.out d).isUndef = false) (ht : fsmTarget b (s.fstate d) (.name ev) = .to ns)
    (hc : b.conds.find? (·.1 == ev) = some (ev, [], cv)) (hv : cv.eval data = false) :
    deliver c (fuel + 1) s d (.name ev) data =
      ({ s with trace := .exit d true :: .enter d (handlerDepth s.stack d + 1) (data.get? "value")
                  (windowDepth s.stack d) :: s.trace }, .ret (.bool false)) := by
  have hcond : ∀ s4 : St, s4.out = s.out → fsmCond (deliver c fuel) b d s4 (.name ev) data = (s4, .ret (.bool false)) := by
    intro s4 h4
    unfold fsmCond
    simp [h4, ho, hc, runActs, andThen, hv]
  unfold deliver
  simp only [hb, EType.check, ha, Bool.false_eq_true, if_false, eventBody, EType.resolve, earlyInit, hi,
    andThen, callHandler, hk, if_true, inHandler]
  have hne : (EType.name ev = EType.none) = False := by simp
  simp only [hne, if_false]
  have hev := cond_false_rejects_event (deliver c fuel) b d s.stack
    { s with active := upd s.active d true, stack := ⟨d, .handler⟩ :: s.stack,
             trace := .enter d (handlerDepth s.stack d + 1) (data.get? "value") (windowDepth s.stack d) :: s.trace }
    _ (.name ev) data ns ht (hcond _ rfl)
  rw [hev]
  simp only [classify]
  congr 1
  cases s
  simp only [St.mk.injEq, and_true, true_and]
  exact upd_restore _ _ ha

/-- the window is closed again on every outcome of what runs inside it: flag and frame of the FSM
    are as before (the handler goes on with the guard set) -/
theorem window_is_closed (c : Circ) (fuel : Nat) (b : Blk) (d : Nat) (stk0 : List Frame) (s : St)
    (wb : WinBody) (hs : s.stack = ⟨d, .handler⟩ :: stk0) :
    (fsmWindow (deliver c fuel) b d stk0 s wb).1.active = s.active ∧
    (fsmWindow (deliver c fuel) b d stk0 s wb).1.stack = s.stack :=
  ⟨(fsmWindow_frm (deliver_frm c fuel) b d stk0 s wb hs).active,
   (fsmWindow_frm (deliver_frm c fuel) b d stk0 s wb hs).stack⟩

/-- the `duration` item of the event that caused the transition overrides the default duration of the timed
    state; absent (or None) the default applies -/
theorem duration_item_overrides_default (dflt : Nat) (q : Rat) (k : Kind) :
    effDuration Option.none dflt = dflt ∧ effDuration (some Val.none) dflt = dflt ∧
    effDuration (some (.atom (.num q k))) dflt = (if q ≤ 0 then 0 else 1) := ⟨rfl, rfl, rfl⟩

/-- a zero (or negative) duration – by default or through the `duration` item – makes the expiry a nested
    `self.event(timed_event)` INSIDE the documented window (`_start_timer` runs under `_enable_event`): it is
    the one chained transition, parked like a request of the entry action (`chained_request_is_parked`);
    a positive one only arms the timer, whose expiry is a later top-level event (`timer_expiry_is_an_event`) -/
theorem zero_duration_is_a_chained_transition (dlv : Dlv) (b : Blk) (d : Nat) (s : St) (st : Nat)
    (duration : Option Val) (ev : EType) (dur : Nat) (ht : b.timed.getD st Option.none = some (ev, dur)) :
    winBody dlv b d s (.startTimer st duration) =
      if effDuration duration dur = 0 then dlv s d ev []
      else if s.timersEnabled then ({ s with timer := upd s.timer d (some ev) }, .ret .none)
      else (s, .ret .none) := by
  unfold winBody
  simp only [ht]

/-- the expiry of a timer is an event like any other: it enters through `deliver` (guard, frames,
    refusal, abort), so all theorems above apply to timer-driven transitions; no block is left locked -/
theorem timer_expiry_is_an_event (c : Circ) (s : St) (d : Nat) (p : St × Res) (h : Idle s)
    (ht : tick c s d = some p) : Idle p.1 := by
  unfold tick at ht
  split at ht
  · cases ht
  · rename_i ev _
    simp only [Option.some.injEq] at ht
    subst ht
    have f := deliver_frm c c.fuel { s with timer := upd s.timer d Option.none } d ev []
    have hi : Idle { s with timer := upd s.timer d Option.none } := h
    have : (andThen (deliver c c.fuel { s with timer := upd s.timer d Option.none } d ev [])
        (fun s1 => (s1, Res.ret Val.none))).1 = (deliver c c.fuel { s with timer := upd s.timer d Option.none } d ev []).1 := by
      unfold andThen; split <;> rfl
    rw [this]
    exact hi.of_frm f

/-- the initial transition of an FSM is an event as well: `init_from_value` delivers `Goto(initdef)` -/
theorem fsm_initial_transition_is_an_event (dlv : Dlv) (b : Blk) (d : Nat) (s : St) (hk : b.kind = .fsm)
    (hu : (s.out d).isUndef = true) : initFromValue dlv b d s = dlv s d (.goto 0) [] := by
  unfold initFromValue
  simp [hk, hu]

/-! ### Repeat blocks: the forward from inside the handler, the repetitions from the main task

`guard_balanced`, `no_nested_handling`, `refusal_stops_simulation`, `fuel_suffices` above are stated for every
circuit – Repeat blocks included (`BKind.repeat`: `callHandler` runs `repeatEvent` inside the block's handler
frame; the inductions of EdzedProofs/Dispatch.lean go through it).  What follows is specific to Repeat. -/

/-- `Repeat._event` forwards the event with the block's own guard SET: the state in which the destination
    is entered has `_event_active` of the Repeat block true whenever the handler was entered by `deliver`;
    hence a destination chain that leads back to the Repeat block – or a sender that is still busy – is
    refused like any other recursion (`recursion_is_refused_and_aborts`): the forward is one step of the
    ordinary `sendEdges` on the single edge `Event(dest, etype)`, run between `set_output(0)` and the queuing -/
theorem repeat_forwards_inside_handler (dlv : Dlv) (b : Blk) (d : Nat) (s : St) (data : Data) :
    repeatEvent dlv b d s b.retype data =
      andThen (setOutput dlv b d s (.int 0)) fun s1 =>
      andThen (sendEdges dlv d s1 [repeatEdge b] (withRepeat (withOrigSource data) 0)) fun s2 =>
      ({ s2 with rcur := upd s2.rcur d (some (withOrigSource data, 0)) }, .ret .none) := by
  unfold repeatEvent
  simp

/-- … and while the forward runs the Repeat block is locked and its handler frame is on the stack (for every
    state the handler can be in): the guard is untouched by `set_output(0)` and everything it triggers -/
theorem repeat_is_locked_during_forward (c : Circ) (fuel : Nat) (b : Blk) (d : Nat) (s : St) (v : Val)
    (ha : s.active d = true) : (setOutput (deliver c fuel) b d s v).1.active d = true := by
  rw [(setOutput_frm (deliver_frm c fuel) b d s v).active]; exact ha

/-- a forward that fails (refused recursion, unknown type, parameter error, error in the destination) leaves
    `Repeat._event` before `self._queue.put_nowait(data)`: nothing is queued, nothing will be repeated
    (the dispatch-level form of C18's `translated_refused_forward_queues_nothing`) -/
theorem repeat_failed_forward_queues_nothing (dlv : Dlv) (b : Blk) (d : Nat) (s : St) (et : EType)
    (data : Data) (x : Exc) (h : (repeatEvent dlv b d s et data).2 = .exc x) :
    (repeatEvent dlv b d s et data).1 = (setOutput dlv b d s (.int 0)).1 ∨
    (repeatEvent dlv b d s et data).1 =
      (sendEdges dlv d (setOutput dlv b d s (.int 0)).1 [repeatEdge b] (withRepeat (withOrigSource data) 0)).1 := by
  unfold repeatEvent at h ⊢
  split at h
  · cases h
  · simp only [andThen] at h ⊢
    split at h
    · left; split <;> simp_all
    · split at h
      · right
        split <;> simp_all
      · cases h

/-- an event of another type is ignored (logged once): no output change, nothing sent, nothing queued -/
theorem repeat_other_event_is_ignored (dlv : Dlv) (b : Blk) (d : Nat) (s : St) (et : EType) (data : Data)
    (h : et ≠ b.retype) : repeatEvent dlv b d s et data = (s, .ret .none) := by
  unfold repeatEvent
  simp [h]

/-- **A repetition is a fresh top-level delivery**: the main task sends it from outside of every handler.
    It starts from the very flags of the idle circuit (all `_event_active` false, no `event()` frame: the
    state handed to `resendBody` is `s` with only the repetition counter updated) and leaves them false –
    whatever happened (handled, refused somewhere down the chain, failed; then the task's monitor aborts) -/
theorem repeat_resend_is_top_level (c : Circ) (s : St) (d : Nat) (p : St × Res) (h : Idle s)
    (hr : resend c s d = some p) :
    Idle p.1 ∧ ∃ b data rep, c.blocks[d]? = some b ∧ b.kind = .repeat ∧ s.rcur d = some (data, rep) ∧
      repeatGoesOn b rep = true ∧
      p = taskOutcome d (resendBody (deliver c c.fuel) b d s data (rep + 1)) ∧
      Idle { s with rcur := upd s.rcur d (some (data, rep + 1)) } := by
  refine ⟨h.of_frm (resend_frm c s d p hr), ?_⟩
  unfold resend at hr
  split at hr
  · rename_i b data rep hb hc
    split at hr
    · rename_i hk
      simp only [Bool.and_eq_true, decide_eq_true_eq] at hk
      cases hr
      exact ⟨b, data, rep, hb, hk.1, hc, hk.2, rfl, h⟩
    · cases hr
  · cases hr

/-- every handler entered during a repetition has nesting depth 1 -/
theorem no_nested_handling_resend (c : Circ) (s : St) (d : Nat) (p : St × Res) (h : Idle s)
    (ht : s.trace = []) (hr : resend c s d = some p) : ∀ t ∈ p.1.trace, t.ok :=
  (resend_good c s d p hr ⟨h.inv, by intro t; simp [ht]⟩).2

/-- if the chain of a repetition loops back (to the Repeat block, which is inside its handler again when it
    forwards, or to any other busy block) the event is refused and the simulation stopped -/
theorem refusal_stops_simulation_resend (c : Circ) (s : St) (d : Nat) (p : St × Res) (ht : s.trace = [])
    (hr : resend c s d = some p) (x : Nat) (hx : TItem.refused x ∈ p.1.trace) : p.1.error.isSome :=
  resend_refAbort c s d p hr (by intro ⟨y, hy⟩; simp [ht] at hy) ⟨x, hx⟩

/-- an exception that ends the main task stops the simulation (`AddonAsync._task_monitor`) and ends the
    repetitions of the block -/
theorem failed_resend_aborts (d : Nat) (p : St × Res) (x : Exc) (h : p.2 = .exc x) (hx : x ≠ .outOfFuel) :
    (taskOutcome d p).1.error.isSome ∧ (taskOutcome d p).1.rcur d = Option.none ∧
    (taskOutcome d p).2 = .exc x := by
  obtain ⟨s', r⟩ := p
  simp only at h
  subst h
  cases x <;> first
    | exact absurd rfl hx
    | exact ⟨abort_error _ _, by simp [taskOutcome, upd], rfl⟩

/-- the repetitions end with the simulation task (`AddonMainTask.stop_async`) -/
theorem no_resend_after_stop (c : Circ) (s : St) (d : Nat) : resend c (stopAll s) d = Option.none := by
  unfold resend stopAll
  split <;> simp_all

/-- the fuel suffices for a repetition as well -/
theorem fuel_suffices_resend (c : Circ) (s : St) (d : Nat) (p : St × Res) (hr : resend c s d = some p) :
    p.2 ≠ .exc .outOfFuel := by
  unfold resend at hr
  split at hr
  · split at hr
    · cases hr
      rename_i b data rep _ _ _
      have hK : ∀ s' : St, phi c.n s' < c.fuel := fun s' => by
        unfold Circ.fuel; have := phi_le c.n s'; omega
      have h1 : NoOOF (resendBody (deliver c c.fuel) b d s data (rep + 1)) := by
        unfold resendBody
        exact andThen_G (setOutput_G (kclosed_phi c.n c.fuel) (deliver_frm c _) (deliver_G c _) _ _ _ _ (hK _))
          (sendEdges_G (kclosed_phi c.n c.fuel) (deliver_frm c _) (deliver_G c _) _ _ _ _ (hK _))
      generalize resendBody (deliver c c.fuel) b d s data (rep + 1) = q at h1
      obtain ⟨s', r⟩ := q
      cases r with
      | ret v => simp [taskOutcome]
      | exc y => cases y <;> simp_all [taskOutcome, NoOOF]
    · cases hr
  · cases hr

/-! ### persistent blocks: `AddonPersistence.event` around `SBlock.event`

`persistEvent` (EdzedProofs/DispatchPersist.lean) runs the action list translated from the CURRENT source of
`AddonPersistence.event` (`Gen.TrP2.eventActs`, generated for C06) with `super().event()` = the model's
`deliver`.  For every circuit, state, event, every value of `persistent` / `sync_state` and whether or not the
save fails: -/

/-- the wrapper never leaves `_event_active` set (nor changes any flag or frame): it adds nothing between the
    `finally` of `SBlock.event` and its caller but the save -/
theorem persist_wrapper_keeps_guard (c : Circ) (fuel : Nat) (sync saveRaises : Bool) (p : PSt) (d : Nat)
    (et : EType) (data : Data) :
    (persistEvent c fuel sync saveRaises p d et data).1.st = (deliver c fuel p.st d et data).1 := by
  unfold persistEvent Gen.TrP2.eventActs
  simp only []
  repeat' split
  all_goals simp [runPersistPrims]

theorem persist_wrapper_guard_balanced (c : Circ) (fuel : Nat) (sync saveRaises : Bool) (p : PSt) (d : Nat)
    (et : EType) (data : Data) :
    (persistEvent c fuel sync saveRaises p d et data).1.st.active = p.st.active := by
  rw [persist_wrapper_keeps_guard]; exact guard_balanced c fuel p.st d et data

/-- **the save runs outside the guard**: at most one save per call, and `get_state()` then sees the block's
    own `_event_active` false – the save comes after `SBlock.event` has returned (after its `finally`), never
    for a refused or failed event, so it cannot re-enter a handler that is still running.  (What it can see is
    an OUTER transition of the same FSM suspended in the documented chained-transition window, when this call
    is the nested one: the harness tags those runs `saved:inside-chained-transition-window`.) -/
theorem persist_save_runs_outside_guard (c : Circ) (fuel : Nat) (sync saveRaises : Bool) (p : PSt) (d : Nat)
    (et : EType) (data : Data) :
    (persistEvent c fuel sync saveRaises p d et data).1.saves = p.saves ∨
    ((persistEvent c fuel sync saveRaises p d et data).1.saves = false :: p.saves ∧
      isExc (deliver c fuel p.st d et data).2 = false ∧ p.st.active d = false) := by
  have hg := congrFun (guard_balanced c fuel p.st d et data) d
  by_cases hact : p.st.active d = true
  · -- a busy block refuses (or the type check fails): `super().event` raises, no save
    left
    have hexc : isExc (deliver c fuel p.st d et data).2 = true := by
      cases fuel with
      | zero => simp [deliver, isExc]
      | succ fuel =>
        unfold deliver
        split
        · simp [isExc]
        · split
          · simp [isExc]
          · simp [hact, isExc]
    unfold persistEvent Gen.TrP2.eventActs
    simp only [hexc, if_true]
    split <;> simp [runPersistPrims]
  · have hact : p.st.active d = false := by simpa using hact
    unfold persistEvent Gen.TrP2.eventActs
    simp only []
    split
    · left; split <;> simp [runPersistPrims]
    · rename_i hne
      split
      · right
        refine ⟨?_, by simpa using hne, hact⟩
        split <;> simp [runPersistPrims, hg, hact]
      · left; simp [runPersistPrims]

/-- since the repair 2ca67fc (`_persist_event_active`): a wrapper call that is NESTED in another `event()` of the
    same block (the chained transition requested by an FSM entry action, a zero-length timer) never saves --
    the intermediate state it would see stays out of the storage; only the outermost call saves (the comment of
    `persist_save_runs_outside_guard` about the chained-transition window describes the code before the repair) -/
theorem persist_nested_call_never_saves (c : Circ) (fuel : Nat) (sync saveRaises : Bool) (p : PSt) (d : Nat)
    (et : EType) (data : Data) (hn : p.nested = true) :
    (persistEvent c fuel sync saveRaises p d et data).1.saves = p.saves := by
  unfold persistEvent Gen.TrP2.eventActs
  simp only [hn]
  split
  · split <;> simp [runPersistPrims]
  · simp [runPersistPrims]

/-- an exception of `super().event()` is re-raised unchanged (never swallowed), after persistence has been
    disabled when the simulation is no longer ready -/
theorem persist_wrapper_reraises (c : Circ) (fuel : Nat) (sync saveRaises : Bool) (p : PSt) (d : Nat)
    (et : EType) (data : Data) (x : Exc) (h : (deliver c fuel p.st d et data).2 = .exc x) :
    (persistEvent c fuel sync saveRaises p d et data).2 = some (.exc x) ∧
    ((persistEvent c fuel sync saveRaises p d et data).1.persistent =
      (p.persistent && (deliver c fuel p.st d et data).1.error.isNone)) := by
  unfold persistEvent Gen.TrP2.eventActs
  simp only [h, isExc, if_true]
  split
  · rename_i hc
    simp only [Bool.and_eq_true, Bool.not_eq_eq_eq_not, Bool.not_true] at hc
    simp [runPersistPrims, h, hc.2]
  · rename_i hc
    simp only [Bool.and_eq_true, Bool.not_eq_eq_eq_not, Bool.not_true, not_and, Bool.not_eq_false] at hc
    simp only [runPersistPrims, h, true_and]
    cases hp : p.persistent <;> simp_all

/-- a handled event returns the handler's value (after the save, if any, succeeded) -/
theorem persist_wrapper_returns (c : Circ) (fuel : Nat) (sync : Bool) (p : PSt) (d : Nat)
    (et : EType) (data : Data) (v : Val) (h : (deliver c fuel p.st d et data).2 = .ret v) :
    (persistEvent c fuel sync false p d et data).2 = some (.ret v) ∧
    (persistEvent c fuel sync false p d et data).1.persistent = p.persistent := by
  unfold persistEvent Gen.TrP2.eventActs
  simp only [h, isExc, Bool.false_eq_true, if_false]
  split <;> simp [runPersistPrims, h]

/-! ### fuel_suffices -/

/-- The nesting depth of `event()` calls is bounded by the circuit: with `phi s` = number of blocks
    that are not inside `event()` + number of blocks whose early initialisation is still pending +
    number of FSMs that are not inside a transition, `phi s + 1` units of fuel are never used up (every nested call lowers `phi`). -/
theorem fuel_suffices_general (c : Circ) (fuel : Nat) (s : St) (d : Nat) (et : EType) (data : Data)
    (h : phi c.n s < fuel) : (deliver c fuel s d et data).2 ≠ .exc .outOfFuel :=
  deliver_G c fuel s d et data h

/-- `phi` is at most three times the number of blocks (per block: a handler frame, an
    early-initialisation frame, and for an FSM one request parked in its chained-transition window) … -/
theorem depth_le_blocks (c : Circ) (s : St) : phi c.n s ≤ 3 * c.n := phi_le c.n s

/-- … hence the fuel the model runs with (`3 * blocks + 1`) suffices in every state: the artefact
    `outOfFuel` never occurs, `deliver` is the real recursion -/
theorem fuel_suffices (c : Circ) (s : St) (d : Nat) (et : EType) (data : Data) :
    (deliver c c.fuel s d et data).2 ≠ .exc .outOfFuel :=
  deliver_fuel c s d et data

/-- also for the start-up loop -/
theorem fuel_suffices_init (c : Circ) (s : St) (ds : List Nat) :
    (initLoop c s ds).2 ≠ .exc .outOfFuel := by
  induction ds generalizing s with
  | nil => simp [initLoop]
  | cons d ds ih =>
    unfold initLoop
    split
    · simp
    · split
      · refine andThen_G ?_ (ih _)
        exact initBlock_G (kclosed_phi c.n c.fuel) (deliver_frm c _) (deliver_G c _) _ _ _
          (by unfold Circ.fuel; have := phi_le c.n { s with init := upd s.init d .running }; omega)
      · exact ih s

/-! ### tie to the source -/

/-- the handler tables read from the code are the ones the model classifies parameter errors by -/
theorem handler_tables_match :
    Gen.inputHandlers = [("put", ["value"], [], true)] ∧
    Gen.counterHandlers = [("dec", [], ["amount"], true), ("inc", [], ["amount"], true),
       ("put", ["value"], [], true), ("reset", [], [], true)] := by decide

/-- `put` without a value is a parameter error for Input and Counter (from the generated tables) -/
theorem put_without_value_is_parameter_error (k : BKind) (hk : k = .input ∨ k = .counter) :
    ∃ h, lookupHandler k (.name "put") = some h ∧ paramsOk h [] = false := by
  rcases hk with rfl | rfl
  · exact ⟨("put", ["value"], [], true), by decide, by decide⟩
  · exact ⟨("put", ["value"], [], true), by decide, by decide⟩

/-! ### non-vacuity: concrete executions -/

/-- a running circuit: every block initialised, output None -/
def exReady : St := { (default : St) with init := fun _ => .done, out := fun _ => .none }

/-- one probe block whose handler `a` sends the event `a` to the block itself -/
def exLoop : Circ := ⟨[{ scriptA := [.send 0 Option.none], extra := [⟨0, .name "a", []⟩] }]⟩

/-- the self-loop is refused, the simulation aborted, the block not left locked; the handler was
    entered once, with depth 1 -/
example : (rawSend exLoop exReady 0 (.name "a") []).2 = .exc .circuitError
    ∧ (rawSend exLoop exReady 0 (.name "a") []).1.error = some .circuitError
    ∧ (rawSend exLoop exReady 0 (.name "a") []).1.active 0 = false
    ∧ (rawSend exLoop exReady 0 (.name "a") []).1.trace.length = 3 := by decide +kernel

/-- A -> B(try/except) -> A: B swallows the refusal, the sender gets a normal return value, and the
    simulation is stopped all the same -/
def exSwallow : Circ :=
  ⟨[{ scriptA := [.send 0 Option.none], extra := [⟨1, .name "a", []⟩] },
    { scriptA := [.trySend 0 Option.none], extra := [⟨0, .name "a", []⟩] }]⟩

example : (rawSend exSwallow exReady 0 (.name "a") []).2 = .ret .none
    ∧ (rawSend exSwallow exReady 0 (.name "a") []).1.error = some .circuitError
    ∧ (rawSend exSwallow exReady 0 (.name "a") []).1.active 0 = false
    ∧ (rawSend exSwallow exReady 0 (.name "a") []).1.active 1 = false := by decide +kernel

/-- an FSM s0 -e0-> s1 -e1-> s0 whose entry action of s1 sends e1 to the FSM itself: the documented
    chained transition; the request is parked in the window (handler entered at depth 1 with one
    suspended frame), the FSM ends in s0, nothing is refused, the simulation goes on -/
def exChain : Circ :=
  ⟨[{ kind := .fsm, nStates := 2, trans := [("e0", some 0, some 1), ("e1", some 1, some 0)],
      enterS := [[], [.rawEvent 0 (.name "e1")]] }]⟩

def exFsmReady : St :=
  { (default : St) with init := fun _ => .done, out := fun _ => .str "s0", fstate := fun _ => some 0 }

example : (rawSend exChain exFsmReady 0 (.name "e0") []).2 = .ret (.bool true)
    ∧ (rawSend exChain exFsmReady 0 (.name "e0") []).1.fstate 0 = some 0
    ∧ (rawSend exChain exFsmReady 0 (.name "e0") []).1.error = Option.none
    ∧ (rawSend exChain exFsmReady 0 (.name "e0") []).1.active 0 = false
    ∧ (rawSend exChain exFsmReady 0 (.name "e0") []).1.trace.length = 4 := by decide +kernel

/-- a timed state s1 (default 5 s, expiry -> s0): the event `e0` with `duration=0` makes the expiry a chained
    transition – the FSM is back in s0 when `event()` returns, no timer armed –; without the item the timer is
    armed and the FSM stays in s1 -/
def exDuration : Circ :=
  ⟨[{ kind := .fsm, nStates := 2, trans := [("e0", some 0, some 1), ("e1", some 1, some 0)],
      timed := [Option.none, some (.name "e1", 5)] }]⟩

example : (rawSend exDuration exFsmReady 0 (.name "e0") [("duration", .int 0)]).1.fstate 0 = some 0
    ∧ ((rawSend exDuration exFsmReady 0 (.name "e0") [("duration", .int 0)]).1.timer 0).isNone = true
    ∧ (rawSend exDuration exFsmReady 0 (.name "e0") [("duration", .int 0)]).1.error = Option.none
    ∧ (rawSend exDuration exFsmReady 0 (.name "e0") []).1.fstate 0 = some 1
    ∧ ((rawSend exDuration exFsmReady 0 (.name "e0") []).1.timer 0).isSome = true
    ∧ (rawSend exDuration exFsmReady 0 (.name "e0") [("duration", .int 0)]).1.active 0 = false := by
  decide +kernel

/-- the same FSM with an on_enter event of s1 (not the entry action) leading back to it: refused,
    the simulation is stopped -/
def exFsmLoop : Circ :=
  ⟨[{ kind := .fsm, nStates := 2, trans := [("e0", some 0, some 1), ("e1", Option.none, some 0)],
      onEnter := [[], [⟨0, .name "e1", []⟩]] }]⟩

example : (rawSend exFsmLoop exFsmReady 0 (.name "e0") []).2 = .exc .circuitError
    ∧ (rawSend exFsmLoop exFsmReady 0 (.name "e0") []).1.error = some .circuitError
    ∧ (rawSend exFsmLoop exFsmReady 0 (.name "e0") []).1.active 0 = false
    ∧ (rawSend exFsmLoop exFsmReady 0 (.name "e0") []).1.fsmActive 0 = false := by decide +kernel

/-- cond callbacks: `cond_e0` sends `put` to the Input b1 whose output event leads back to the FSM: refused
    (the FSM is locked while its condition runs), the simulation stopped, nothing locked afterwards;
    with `cond_e0` = constant False the event is rejected and nothing at all happens -/
def exCondLoop : Circ :=
  ⟨[{ kind := .fsm, nStates := 2, trans := [("e0", Option.none, some 1), ("e1", Option.none, some 0)],
      extra := [⟨1, .name "put", []⟩], conds := [("e0", [.send 0 (some (.int 1))], .const true)] },
    { kind := .input, onOutput := [⟨0, .name "e1", []⟩] }]⟩

def exCondFalse : Circ :=
  ⟨[{ kind := .fsm, nStates := 2, trans := [("e0", Option.none, some 1)], conds := [("e0", [], .item "value")] }]⟩

example : (rawSend exCondLoop exFsmReady 0 (.name "e0") []).2 = .exc .circuitError
    ∧ (rawSend exCondLoop exFsmReady 0 (.name "e0") []).1.error = some .circuitError
    ∧ (rawSend exCondLoop exFsmReady 0 (.name "e0") []).1.fstate 0 = some 0
    ∧ (rawSend exCondLoop exFsmReady 0 (.name "e0") []).1.active 0 = false
    ∧ (rawSend exCondLoop exFsmReady 0 (.name "e0") []).1.active 1 = false
    ∧ (rawSend exCondFalse exFsmReady 0 (.name "e0") [("value", .int 0)]).2 = .ret (.bool false)
    ∧ (rawSend exCondFalse exFsmReady 0 (.name "e0") [("value", .int 0)]).1.fstate 0 = some 0
    ∧ (rawSend exCondFalse exFsmReady 0 (.name "e0") [("value", .int 0)]).1.error = Option.none
    ∧ (rawSend exCondFalse exFsmReady 0 (.name "e0") [("value", .int 0)]).1.active 0 = false
    ∧ (rawSend exCondFalse exFsmReady 0 (.name "e0") [("value", .int 3)]).2 = .ret (.bool true)
    ∧ (rawSend exCondFalse exFsmReady 0 (.name "e0") [("value", .int 3)]).1.fstate 0 = some 1 := by
  decide +kernel

/-- the hypotheses of `cond_rejection_is_harmless` are satisfiable (the block of `exCondFalse`, value 0) -/
example : (exCondFalse.blocks[0]?.map fun b => fsmTarget b (exFsmReady.fstate 0) (.name "e0")) = some (.to 1)
    ∧ (CondVal.item "value").eval [("value", .int 0)] = false
    ∧ (exFsmReady.out 0).isUndef = false := by decide +kernel

/-- A -> Repeat -> A: Input b0 sends its output to the Repeat b1 whose destination is b0: the forward
    (from inside b1's handler, b0 still busy) is refused, the simulation stopped, nothing queued, nothing locked -/
def exRepLoop : Circ :=
  ⟨[{ kind := .input, onOutput := [⟨1, .name "put", []⟩] }, { kind := .repeat, rdest := 0 }]⟩

example : (rawSend exRepLoop exReady 0 (.name "put") [("value", .int 1)]).2 = .exc .circuitError
    ∧ (rawSend exRepLoop exReady 0 (.name "put") [("value", .int 1)]).1.error = some .circuitError
    ∧ ((rawSend exRepLoop exReady 0 (.name "put") [("value", .int 1)]).1.rcur 1).isNone = true
    ∧ (rawSend exRepLoop exReady 0 (.name "put") [("value", .int 1)]).1.active 0 = false
    ∧ (rawSend exRepLoop exReady 0 (.name "put") [("value", .int 1)]).1.active 1 = false
    ∧ (rawSend exRepLoop exReady 0 (.name "put") [("value", .int 1)]).1.trace.length = 5 := by decide +kernel

/-- a Repeat repeating to itself: a recursion on the Repeat block, refused at the forward -/
def exRepSelf : Circ := ⟨[{ kind := .repeat, rdest := 0 }]⟩

example : (rawSend exRepSelf exReady 0 (.name "put") []).2 = .exc .circuitError
    ∧ (rawSend exRepSelf exReady 0 (.name "put") []).1.error = some .circuitError
    ∧ (rawSend exRepSelf exReady 0 (.name "put") []).1.active 0 = false := by decide +kernel

/-- Repeat b0 -> Input b1: forwarded and queued; then two repetitions, each a top-level delivery entering
    b1's handler at depth 1; with count = 2 there is no third one; the hypotheses of
    `repeat_resend_is_top_level` / `no_nested_handling_resend` hold in the state after the first event -/
def exRepOk : Circ := ⟨[{ kind := .repeat, rdest := 1, rcount := some 2 }, { kind := .input }]⟩

def exRepQueued : St := { (rawSend exRepOk exReady 0 (.name "put") [("value", .int 7)]).1 with trace := [] }

example : Idle exRepQueued ∧ exRepQueued.trace = [] ∧ exRepQueued.out 1 = .int 7
    ∧ (exRepQueued.rcur 0).isSome = true ∧ (resend exRepOk exRepQueued 0).isSome = true := by
  refine ⟨⟨fun d => ?_, ?_⟩, rfl, ?_, ?_, ?_⟩
  · have := congrFun (guard_balanced exRepOk exRepOk.fuel exReady 0 (.name "put") [("value", .int 7)]) d
    exact this
  · exact (deliver_frm exRepOk exRepOk.fuel exReady 0 (.name "put") [("value", .int 7)]).stack
  all_goals decide +kernel

example :
    ((resend exRepOk exRepQueued 0).map fun p => (p.2, p.1.out 0, p.1.error, p.1.trace.length, p.1.active 1))
      = some (.ret .none, .int 1, Option.none, 2, false)
    ∧ (((resend exRepOk exRepQueued 0).bind fun p => resend exRepOk { p.1 with trace := [] } 0).map
        fun q => (q.1.out 0, (resend exRepOk q.1 0).isNone)) = some (.int 2, true) := by decide +kernel

/-- the loop is met by the repetition only: the repetition's own output event (0 -> 1, filtered at the
    forward by `value` = 0 being false) reaches a probe that sends to the Repeat block … which forwards to
    the Counter; no recursion here – but with the probe sending to itself it is refused: a failed repetition
    aborts (`failed_resend_aborts`) -/
def exRepLate : Circ :=
  ⟨[{ kind := .repeat, rdest := 1, retype := .name "inc", onOutput := [⟨2, .name "a", [.ifValue]⟩] },
    { kind := .counter, initdef := .int 0 },
    { scriptA := [.send 0 Option.none], extra := [⟨2, .name "b", []⟩], scriptB := [.send 0 Option.none] }]⟩

example :
    let s1 : St := { (rawSend exRepLate { exReady with out := fun _ => .int 0 } 0 (.name "inc") []).1 with trace := [] }
    s1.error = Option.none ∧
    ((resend exRepLate s1 0).map fun p => (p.2, p.1.error, (p.1.rcur 0).isNone, p.1.active 2,
        p.1.trace.any (fun t => match t with | .refused 2 => true | _ => false)))
      = some (.exc .circuitError, some .circuitError, true, false, true) := by decide +kernel

/-- `Idle`, `Inv`, `TraceOk` are satisfiable: the start state -/
example : Idle exReady ∧ Inv exReady ∧ TraceOk exReady :=
  ⟨⟨fun _ => rfl, rfl⟩, Idle.inv ⟨fun _ => rfl, rfl⟩, by intro t ht; cases ht⟩

/-- the documented window: Input b0 (initdef 1) sends its first output as `put` to the not yet
    initialised Input b1 (initdef 2); b1 initialises early *by an event to itself* while it is inside
    `event()`: its handler runs twice, one after the other, each time with depth 1; the start-up
    succeeds and nothing is locked -/
def exWindow : Circ :=
  ⟨[{ kind := .input, initdef := .int 1, onOutput := [⟨1, .name "put", []⟩] },
    { kind := .input, initdef := .int 2 }]⟩

example : (initAll exWindow St.start).2 = .ret .none
    ∧ (initAll exWindow St.start).1.trace.length = 6
    ∧ (initAll exWindow St.start).1.error = Option.none
    ∧ (initAll exWindow St.start).1.active 1 = false
    ∧ (initAll exWindow St.start).1.out 1 = .int 1 := by decide +kernel

/-- the persistence wrapper on the self-loop of `exLoop` (refused one level down: re-raised, nothing saved,
    persistence disabled because the simulation was aborted) and on a handled event of `exWindow` (one save,
    with the guard released) -/
def exPersistent : PSt := { st := exReady, persistent := true, saves := [] }

/-- the hypothesis of `persist_nested_call_never_saves` is satisfiable -/
example : ({ exPersistent with nested := true } : PSt).nested = true ∧ exPersistent.persistent = true := ⟨rfl, rfl⟩

example :
    (persistEvent exLoop 4 true false exPersistent 0 (.name "a") []).2 = some (.exc .circuitError)
    ∧ (persistEvent exLoop 4 true false exPersistent 0 (.name "a") []).1.persistent = false
    ∧ (persistEvent exLoop 4 true false exPersistent 0 (.name "a") []).1.saves = []
    ∧ (persistEvent exWindow 7 true false exPersistent 0 (.name "put") [("value", .int 5)]).2 = some (.ret (.bool true))
    ∧ (persistEvent exWindow 7 true false exPersistent 0 (.name "put") [("value", .int 5)]).1.saves = [false]
    ∧ (persistEvent exWindow 7 true false exPersistent 0 (.name "put") [("value", .int 5)]).1.persistent = true := by
  decide +kernel

/-- harmless outcomes exist: unknown event and missing parameter on an Input -/
example : (rawSend exWindow exReady 0 (.name "zz") []).2 = .exc .unknownEvent
    ∧ (rawSend exWindow exReady 0 (.name "put") []).2 = .exc .typeError
    ∧ (rawSend exWindow exReady 0 (.cond .none .none) []).2 = .ret .none
    ∧ (rawSend exWindow exReady 0 .empty []).2 = .exc .valueError := by decide +kernel

end Edzed.Dispatch

/-! ### tie by translation: `SBlock.event` and `Event.send`

`tools/py2lean.py` (scheme TrProg, tools/py2lean_dispatch.py) regenerates
EdzedModel/Gen/TranslatedDispatch.lean from the CURRENT Python AST of the two methods on every run: the
order of the statements, the nesting of if / while / for / try-except-finally / with, every condition and
every `return` / `raise` come from the source; only the meaning of the leaves (attribute accesses, tests,
calls) is declared, as the fields of `EventPrims` / `SendPrims`.  Here the primitives are instantiated with
the operations of the model (`evPrims`, `sendPrims` in EdzedProofs/DispatchTie.lean) and the translated
programs are proved to BE the model's dispatch steps, for every circuit, block, state, event and data.
A semantic edit of either method changes the generated text: `translated_…_is_reference` (closed by
`rfl`) or a lemma about the generated loops stops compiling, and with it this property. -/

namespace Edzed.TrTie
open Edzed.Dispatch Edzed.Gen.TrD

/-- the program generated from the current source of `SBlock.event` IS the reference program -/
theorem translated_event_is_reference {σ ε τ δ ν η ρ γ : Type} :
    @event σ ε τ δ ν η ρ γ = @eventRef σ ε τ δ ν η ρ γ := by
  first
  | rfl
  | -- the same statements with the leading type checks written as a different (equivalent) cascade of tests
    (funext P fuel etype data
     unfold event eventRef checkPart
     cases P.isStr etype <;> cases P.etypeTruthy etype <;> cases P.isEventType etype <;> rfl)

/-- **The model's `deliver` IS `SBlock.event` as translated from the current source**: for every
    circuit, block, state, event type and data the translated program, run on the primitives of the
    model, computes exactly the state and the result of `deliver` (`n` = fuel of the EventCond loop, any
    number above the nesting depth of the event type). -/
theorem translated_event_is_model (c : Circ) (fuel : Nat) (b : Blk) (d : Nat) (s : St) (et : EType)
    (data : Data) (hb : c.blocks[d]? = some b) (n : Nat) (hn : EType.depth et < n) :
    toRes (event (evPrims c fuel b d s.stack) n et data s) = deliver c (fuel + 1) s d et data := by
  rw [translated_event_is_reference]
  unfold eventRef deliver
  simp only [hb, M.bind, checkPart_model]
  cases hc : et.check with
  | some x => simp [toRes]
  | none =>
    have hne : et ≠ .none := by intro h; subst h; simp [EType.check] at hc
    simp only [M.get]
    by_cases ha : s.active d = true
    · have : (evPrims c fuel b d s.stack).getActive s = true := ha
      simp only [this, ha, if_true]
      simp [refusePart, evPrims, mkExc, M.bind, M.modify, M.raise, toRes]
    · have ha' : s.active d = false := by simpa using ha
      have : (evPrims c fuel b d s.stack).getActive s = false := ha'
      simp only [this, ha', Bool.false_eq_true, if_false]
      have hfin := finally_model c fuel b d s.stack (bodyPart (evPrims c fuel b d s.stack) n et data)
        { s with active := upd s.active d true }
      show toRes ((M.bind (M.tryFinally (bodyPart (evPrims c fuel b d s.stack) n et data)
          (M.bind ((evPrims c fuel b d s.stack).setActive false) fun _ => M.pure ())) fun (_ : Unit) => M.pure ())
          { s with active := upd s.active d true }) = _
      rw [hfin, bodyPart_model c fuel b d s.stack n et data _ hn hne]

/-- the program generated from the current source of `Event.send` IS the reference program -/
theorem translated_send_is_reference {σ ε δ φ ψ : Type} : @send σ ε δ φ ψ = @sendRef σ ε δ φ ψ := rfl

/-- … and its filter loop: each iteration IS the hand-written step, the empty list ends the loop -/
theorem translated_filter_loop_is_reference {σ ε δ φ ψ : Type} (Q : SendPrims σ ε δ φ ψ) (f : φ)
    (fs : List φ) (data : δ) :
    send_for1 Q (f :: fs) data = filterStepRef Q (send_for1 Q fs) f data ∧
    send_for1 Q [] data = M.pure data := ⟨rfl, rfl⟩

/-- **One step of the model's `sendEdges` IS `Event.send` as translated from the current source**: the
    circuit check, `data['source'] = source.name` BEFORE the filters, the filter loop (a mapping replaces
    the data, a false value ends the delivery with `return False`, anything else keeps the data), then
    `dest.event(etype, **data)`; an exception of the delivery propagates, otherwise the next event of
    the sender follows. -/
theorem translated_send_is_model (dlv : Dlv) (src : Nat) (s : St) (e : Edge) (es : List Edge) (data : Data) :
    sendEdges dlv src s (e :: es) data =
      andThen (toResS (send (sendPrims dlv src e) data e.filters s))
        (fun s1 => sendEdges dlv src s1 es data) := by
  rw [translated_send_is_reference]
  unfold sendRef
  rw [sendEdges]
  have h1 : (sendPrims dlv src e).sameCircuit = true := rfl
  have h2 : (sendPrims dlv src e).setSource data = data.set "source" (.str (blockName src)) := rfl
  simp only [h1, h2, Bool.not_true, Bool.false_eq_true, if_false, M.bind, filter_loop_is_model]
  cases applyFilters e.filters (data.set "source" (.str (blockName src))) with
  | none => simp [toResS, andThen]
  | some d' =>
    have h3 : (sendPrims dlv src e).destEvent d' s = liftUnit (dlv s e.dest e.etype d') := rfl
    simp only [h3]
    generalize dlv s e.dest e.etype d' = p
    obtain ⟨s', r⟩ := p
    cases r <;> simp [liftUnit, toResS, andThen, M.ret]

/-- `send()` returns False exactly when a filter rejects the event (and then nothing was delivered) -/
theorem translated_send_returns_false_iff_rejected (dlv : Dlv) (src : Nat) (s : St) (e : Edge) (data : Data) :
    (send (sendPrims dlv src e) data e.filters s).2 = .ret false ↔
      applyFilters e.filters (data.set "source" (.str (blockName src))) = Option.none := by
  rw [translated_send_is_reference]
  unfold sendRef
  have h1 : (sendPrims dlv src e).sameCircuit = true := rfl
  have h2 : (sendPrims dlv src e).setSource data = data.set "source" (.str (blockName src)) := rfl
  simp only [h1, h2, Bool.not_true, Bool.false_eq_true, if_false, M.bind, filter_loop_is_model]
  cases applyFilters e.filters (data.set "source" (.str (blockName src))) with
  | none => simp
  | some d' =>
    have h3 : (sendPrims dlv src e).destEvent d' s = liftUnit (dlv s e.dest e.etype d') := rfl
    simp only [h3]
    generalize dlv s e.dest e.etype d' = p
    obtain ⟨s', r⟩ := p
    cases r <;> simp [liftUnit, M.ret]

/-- the `while isinstance(etype, EventCond)` loop as translated IS the model's `EType.resolve`: `etrue`
    for a true `data.get('value')`, `efalse` otherwise, `None` ends the delivery with `return None` -/
theorem translated_eventcond_loop_is_resolve (c : Circ) (fuel : Nat) (b : Blk) (d : Nat)
    (stk0 : List Frame) (data : Data) (n : Nat) (et : EType) (s : St) (hn : EType.depth et < n)
    (het : et ≠ .none) :
    event_loop1 (evPrims c fuel b d stk0) data n et s =
      (s, match optOf (et.resolve (dataTruthy data)) with
          | Option.none => .ret Val.none
          | some e => .next e) :=
  loop_is_resolve c fuel b d stk0 data n et s hn het

/-! #### `Repeat._event` (translated for C18 by tools/py2lean_repeat.py into `Gen.TrR.repeatEventActs`) -/

/-- **The dispatch model's `repeatEvent` IS `Repeat._event` as translated from the current source**: the
    action list generated from the method (type test, `orig_source`, `set_output(0)`, the forward with
    `repeat=0`, and the queuing AFTER it), run with the dispatch meaning of the actions (`runRepActs`:
    `set_output` and the forward are the model's `setOutput` / `sendEdges`, i.e. they run inside the handler
    frame with the guard set), computes exactly `repeatEvent` – for every delivery function, block, state,
    event type and data.  An edit of the method (queue before forwarding, no forward, another order) changes
    the generated list and breaks this theorem. -/
theorem translated_repeat_event_is_dispatch_model (dlv : Dlv) (b : Blk) (d : Nat) (s : St) (et : EType)
    (data : Data) :
    runRepActs dlv b d s data (Gen.TrR.repeatEventActs (et != b.retype)) = repeatEvent dlv b d s et data := by
  unfold repeatEvent Gen.TrR.repeatEventActs
  by_cases h : (et != b.retype) = true
  · simp [h, runRepActs]
  · simp only [h, Bool.false_eq_true, if_false, runRepActs, withOrigSource]
    rfl

/-- the repetition of the main task as translated (`Gen.TrR.maintaskIter`, timeout with an empty queue):
    `repeat + 1`, `set_output(repeat)` then the send – the two actions `resendBody` performs, in this order,
    and repeating goes on exactly while `repeatGoesOn` -/
theorem translated_repeat_maintask_resend_is_dispatch_model (b : Blk) (rep : Nat) :
    Gen.TrR.maintaskIter b.rcount true rep (.timeout true) =
      some ⟨false, rep + 1, [.setOutput (rep + 1), .send (rep + 1)], repeatGoesOn b (rep + 1), false⟩ := by
  unfold Gen.TrR.maintaskIter repeatGoesOn
  simp
  cases b.rcount <;> simp

/-! non-vacuity: concrete deliveries evaluated through BOTH the translated program and the model -/

/-- a recursive event (the block of `exLoop` is busy): refused, `abort` called, by both -/
example :
    let s : St := { exReady with active := fun _ => true }
    let b : Blk := { scriptA := [.send 0 Option.none], extra := [⟨0, .name "a", []⟩] }
    (toRes (event (evPrims exLoop 3 b 0 s.stack) 1 (.name "a") [] s)).2 = .exc .circuitError
    ∧ (toRes (event (evPrims exLoop 3 b 0 s.stack) 1 (.name "a") [] s)).1.error = some .circuitError
    ∧ (deliver exLoop 4 s 0 (.name "a") []).2 = .exc .circuitError
    ∧ (deliver exLoop 4 s 0 (.name "a") []).1.error = some .circuitError := by decide +kernel

/-- an error inside a handler (the self-loop of `exLoop`, refused one level down): the exception leaves
    the handler, `abort`, re-raised, the guard released -- by both -/
example :
    let b : Blk := { scriptA := [.send 0 Option.none], extra := [⟨0, .name "a", []⟩] }
    (toRes (event (evPrims exLoop 3 b 0 exReady.stack) 1 (.name "a") [] exReady)).2 = .exc .circuitError
    ∧ (toRes (event (evPrims exLoop 3 b 0 exReady.stack) 1 (.name "a") [] exReady)).1.active 0 = false
    ∧ (toRes (event (evPrims exLoop 3 b 0 exReady.stack) 1 (.name "a") [] exReady)).1.error = some .circuitError
    ∧ (deliver exLoop 4 exReady 0 (.name "a") []).2 = .exc .circuitError
    ∧ (deliver exLoop 4 exReady 0 (.name "a") []).1.active 0 = false := by decide +kernel

/-- a filter rejection: `send()` returns False, nothing is delivered, the state is untouched -/
example :
    let e : Edge := ⟨0, .name "a", [.accept, .reject]⟩
    (match (send (sendPrims (deliver exLoop 3) 0 e) [] e.filters exReady).2 with
      | .ret false => true | _ => false) = true
    ∧ (send (sendPrims (deliver exLoop 3) 0 e) [] e.filters exReady).1.trace.length = 0
    ∧ (sendEdges (deliver exLoop 3) 0 exReady [e] []).2 = .ret Val.none := by decide +kernel

/-- a conditional event resolving to None through the translated loop -/
example : (toRes (event (evPrims exLoop 3 { } 0 []) 3 (.cond (.cond .none (.name "a")) .none)
    [("value", .bool true)] exReady)).2 = .ret Val.none := by decide +kernel

/-! ### tie by translation: the table of event handlers (`SBlock.__init_subclass__`)

`event()` looks a handler up in `type(self)._ct_handlers` (the primitive `lookup` of `EventPrims`).  That
table is built once per class by `SBlock.__init_subclass__`, translated by tools/py2lean_handlers.py into
EdzedModel/Gen/TranslatedHandlers.lean together with the class hierarchies (MRO, flags, names of every class
body) of the library classes.  The model of the construction is EdzedModel/Handlers.lean. -/

section handlers
open Edzed.Handlers Edzed.Gen.TrH

/-- **The class creation as translated IS the model's `buildHandlers`**: for every MRO (and whatever the
    table held before) the translated `__init_subclass__` either raises TypeError – exactly when an add-on
    follows SBlock in the MRO – or leaves exactly the model's `handlerTable` -/
theorem translated_handlers_init_subclass_is_model (mro : List ClassD) (t0 : Table) :
    toBuild (initSubclass hPrims mro t0) = buildHandlers mro := by
  unfold initSubclass buildHandlers
  have h := for1_is_model mro false []
  simp only [orderOkFrom, Bool.false_eq_true, if_false] at h
  have hsup : hPrims.superInitSubclass t0 = (t0, .next ()) := rfl
  have hres : ∀ t : Table, hPrims.tableReset t = (([] : Table), Out.next ()) := fun _ => rfl
  simp only [M.bind, hsup, hres]
  cases ho : orderOk mro with
  | true =>
    rw [h.1 ho]
    simp [toBuild, M.pure, handlerTable]
  | false =>
    have := h.2 ho
    generalize initSubclass_for1 hPrims mro false [] = p at this
    obtain ⟨t, o⟩ := p
    simp only [] at this
    subst this
    simp [toBuild]

/-- the table maps an event type to the FIRST `_event_<etype>` in MRO order among SBlock, its subclasses
    and the add-ons: a handler defined in a subclass or in an add-on overrides the inherited one, a name
    without the prefix is no handler -/
theorem translated_handlers_first_definition_in_mro_wins (mro : List ClassD) (e : String) :
    (handlerTable mro).lookup e = firstInMro mro e := by
  have := lookup_fold mro [] e
  simpa [handlerTable, Table.lookup] using this

/-- an add-on that follows SBlock in the MRO makes the class creation fail -/
theorem translated_handlers_addon_after_sblock_is_refused (pre post : List ClassD) (sb a : ClassD)
    (hsb : sb.isSBlock = true) (hpre : ∀ c ∈ pre, c.isSBlock = false) (ha : a ∈ post) (haa : a.addon = true) :
    buildHandlers (pre ++ sb :: post) = .error "TypeError" := by
  unfold buildHandlers
  rw [orderOk_split pre post sb hsb hpre]
  have : post.all (fun x => !x.addon) = false := by
    rw [Bool.eq_false_iff]
    intro h
    have := List.all_eq_true.1 h a ha
    simp [haa] at this
  simp [this]

/-- … and with the add-ons in front the class is created -/
theorem translated_handlers_addons_first_is_accepted (pre post : List ClassD) (sb : ClassD)
    (hsb : sb.isSBlock = true) (hpre : ∀ c ∈ pre, c.isSBlock = false) (hpost : ∀ c ∈ post, c.addon = false) :
    buildHandlers (pre ++ sb :: post) = .ok (handlerTable (pre ++ sb :: post)) := by
  unfold buildHandlers
  rw [orderOk_split pre post sb hsb hpre]
  have : post.all (fun x => !x.addon) = true := by
    rw [List.all_eq_true]; intro x hx; simp [hpost x hx]
  simp [this]

/-- the model's construction, run on the REAL class hierarchies (generated from the live classes), gives
    the very keys Python has in `_ct_handlers`, in the same order -/
theorem translated_handlers_library_tables :
    (handlerTable mroInput).map (·.1) = keysInput ∧ (handlerTable mroCounter).map (·.1) = keysCounter
    ∧ (handlerTable mroOutputFunc).map (·.1) = keysOutputFunc
    ∧ (handlerTable mroOutputAsync).map (·.1) = keysOutputAsync
    ∧ (handlerTable mroControlBlock).map (·.1) = keysControlBlock
    ∧ (handlerTable mroRepeat).map (·.1) = keysRepeat ∧ (handlerTable mroTimerBlk).map (·.1) = keysTimerBlk
    ∧ (handlerTable mroTimeDate).map (·.1) = keysTimeDate ∧ (handlerTable mroTimeSpan).map (·.1) = keysTimeSpan
    ∧ orderOk mroInput = true ∧ orderOk mroCounter = true ∧ orderOk mroOutputFunc = true
    ∧ orderOk mroOutputAsync = true ∧ orderOk mroTimerBlk = true := by decide +kernel

/-- which method handles `put`: the class's own -/
theorem translated_handlers_put_is_own_method :
    (handlerTable mroInput).lookup "put" = some "Input._event_put"
    ∧ (handlerTable mroCounter).lookup "put" = some "Counter._event_put"
    ∧ (handlerTable mroOutputFunc).lookup "put" = some "OutputFunc._event_put" := by decide +kernel

/-- the hierarchy a kind of block of the dispatch model stands for -/
def mroOfKind : Dispatch.BKind → Option (List ClassD)
  | .input => some mroInput
  | .counter => some mroCounter
  | .outfunc => some mroOutputFunc
  | _ => Option.none

/-- **The table the translated `event()` consults IS the table built by the translated
    `__init_subclass__`**: for Input, Counter and OutputFunc an event type has a handler in the dispatch
    model (`lookup` of `evPrims` = `lookupHandler`, tables generated by tools/extract.py from
    `_ct_handlers`) iff the table built from the class hierarchy has one -/
theorem translated_handlers_event_consults_built_table (k : Dispatch.BKind) (mro : List ClassD)
    (hk : mroOfKind k = some mro) (e : String) :
    (Dispatch.lookupHandler k (.name e)).isSome = ((handlerTable mro).lookup e).isSome := by
  have hI : Gen.inputHandlers.map (·.1) = (handlerTable mroInput).map (·.1) := by decide +kernel
  have hO : Gen.outputFuncHandlers.map (·.1) = (handlerTable mroOutputFunc).map (·.1) := by decide +kernel
  have hC : ∀ e, (Gen.counterHandlers.map (·.1)).contains e = ((handlerTable mroCounter).map (·.1)).contains e := by
    have h1 : Gen.counterHandlers.map (·.1) = ["dec", "inc", "put", "reset"] := by decide +kernel
    have h2 : (handlerTable mroCounter).map (·.1) = ["inc", "dec", "put", "reset"] := by decide +kernel
    intro e
    rw [h1, h2]
    simp only [List.contains_cons, List.contains_nil, Bool.or_false]
    cases (e == "dec") <;> cases (e == "inc") <;> rfl
  cases k with
  | input =>
    simp only [mroOfKind, Option.some.injEq] at hk; subst hk
    simp only [Dispatch.lookupHandler, Dispatch.handlersOf, contains_keys, find_isSome_contains, hI]
  | counter =>
    simp only [mroOfKind, Option.some.injEq] at hk; subst hk
    simp only [Dispatch.lookupHandler, Dispatch.handlersOf, contains_keys, find_isSome_contains]
    exact hC e
  | outfunc =>
    simp only [mroOfKind, Option.some.injEq] at hk; subst hk
    simp only [Dispatch.lookupHandler, Dispatch.handlersOf, contains_keys, find_isSome_contains, hO]
  | probe => simp [mroOfKind] at hk
  | fsm => simp [mroOfKind] at hk
  | «repeat» => simp [mroOfKind] at hk

/-- non-vacuity: `Sub(AddonX, Input)` – the subclass overrides `_event_put`, the add-on contributes
    `_event_x`, `helper` is no handler; the same classes with the add-on after the SBlock side are refused -/
example :
    let sub : ClassD := ⟨"Sub", false, true, false, ["helper", "_event_put"]⟩
    let addon : ClassD := ⟨"AddonX", false, false, true, ["_event_x", "_event_put"]⟩
    let input : ClassD := ⟨"Input", false, true, false, ["_event_put"]⟩
    let sblock : ClassD := ⟨"SBlock", true, true, false, ["event", "_event"]⟩
    let block : ClassD := ⟨"Block", false, false, false, ["_event_ignored"]⟩
    (toBuild (initSubclass hPrims [sub, addon, input, sblock, block] [("stale", "x")])).toOption
      = some [("put", "Sub._event_put"), ("x", "AddonX._event_x")]
    ∧ errOf (buildHandlers [sub, input, sblock, addon, block]) = some "TypeError"
    ∧ errOf (toBuild (initSubclass hPrims [sub, input, sblock, addon, block] [])) = some "TypeError" := by
  decide +kernel

end handlers

end Edzed.TrTie
