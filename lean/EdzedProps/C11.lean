import EdzedModel.Dispatch

namespace Edzed.Dispatch

theorem stub_placeholder : (1 : Nat) = 1 := rfl

end Edzed.Dispatch
