/-
C03 — an FSM follows its transition table and runs its actions in the documented order.

Model: EdzedModel/Fsm.lean (`buildTables` mirrors FSM._build_tables, `ctxEvent` mirrors
FSM._ctx_event with the repair patches/C03-chained-event-data.diff applied).
All statements are for every FSM definition (tables and callback scripts), every state of the
block, every event and every event data; sequences are covered by induction.
-/
import EdzedModel.Fsm
import EdzedProofs.Fsm
import EdzedModel.Gen.Constants

namespace Edzed.Fsm

/-! ### the transition table -/

/-- `_build_tables` yields a table that is a function of (event, from-state) (duplicates are
    refused), whose targets are declared states, with at least one state, and the chain limit
    `3 * number of states` -/
theorem build_tables_wf (sp : Spec) (t : Tables) (h : buildTables sp = .ok t) :
    KeysUnique t.trans ∧ (∀ a ∈ t.trans, ∀ x, a.2.2 = some x → x ∈ t.states) ∧
    t.states ≠ [] ∧ t.chainLimit = 3 * t.states.length :=
  buildTables_wf' sp t h

/-- `lookup_precedence`: in the tables built from any class definition
    (1) a rule naming the current state decides — also when its target is None (forbidden), the
        any-state rule is then NOT consulted;
    (2) without such a rule the any-state rule decides;
    (3) without either there is no transition. -/
theorem lookup_precedence (sp : Spec) (t : Tables) (hb : buildTables sp = .ok t) (e : EvName) (s : State) :
    (∀ tgt, (e, some s, tgt) ∈ t.trans → lookup t e s = tgt) ∧
    ((∀ x, (e, some s, x) ∉ t.trans) → ∀ tgt, (e, none, tgt) ∈ t.trans → lookup t e s = tgt) ∧
    ((∀ x, (e, some s, x) ∉ t.trans) → (∀ x, (e, none, x) ∉ t.trans) → lookup t e s = none) := by
  have hu := (buildTables_wf' sp t hb).1
  exact ⟨fun tgt h => lookup_specific' t e s tgt hu h,
         fun hno tgt h => lookup_any' t e s tgt hu hno h,
         fun hno hno' => lookup_missing' t e s hno hno'⟩

/-- non-vacuity and the documented example #4 of FSM.EVENTS: default rule, specific rule,
    forbidden rule -/
example :
    ∃ t, buildTables ⟨["state1", "state2", "state3"],
        [⟨"ev1", none, some "state2"⟩, ⟨"ev1", some ["state2"], some "state3"⟩,
         ⟨"ev1", some ["state3"], none⟩], []⟩ = .ok t ∧
      lookup t "ev1" "state1" = some "state2" ∧ lookup t "ev1" "state2" = some "state3" ∧
      lookup t "ev1" "state3" = none ∧ t.chainLimit = 9 :=
  ⟨_, rfl, by decide, by decide, by decide, by decide⟩

/-- a table defining two targets for one (event, state) pair is refused -/
example : buildTables ⟨["a", "b"], [⟨"e", some ["a"], some "b"⟩, ⟨"e", some ["a", "b"], some "a"⟩], []⟩
    = .error .duplicate := by rfl

/-! ### re-entrant use -/

/-- an event arriving while `_fsm_event_active` is set (from an entry action or a zero timer)
    is only scheduled: `ctxEvent` of an active FSM is the function `nested` -/
theorem ctxEvent_active (d : Def) (f : Fsm) (e : EType) (data : Data) (h : f.active = true) :
    ctxEvent d f e data = nested d f e data := by
  simp [ctxEvent, h]

/-! ### acceptance -/

/-- `accept_iff`: for a known event on an FSM that has a state, `event()` returns False exactly
    when the documented acceptance condition fails (no target, or an initialised FSM with a
    condition returning a false value); it returns True only when the condition holds; and when
    the condition holds the only other outcome is an exception (chain errors). -/
theorem accept_iff (d : Def) (f : Fsm) (name : EvName) (data : Data) (s : State)
    (hev : d.events.contains name = true) (hs : f.state = some s) :
    ((ctxEvent d f (.ev name) data).2.1 = .rejected ↔ ¬ Passes d f name data) ∧
    ((ctxEvent d f (.ev name) data).2.1 = .accepted → Passes d f name data) ∧
    (Passes d f name data → (ctxEvent d f (.ev name) data).2.1 = .accepted ∨
      (ctxEvent d f (.ev name) data).2.1.isError = true) := by
  have key : ∀ l t, check d f (.ev name) data = (l, .ok t) →
      (ctxEvent d f (.ev name) data).2.1 ≠ .rejected := by
    intro l t h
    rcases ctxEvent_passed d f (.ev name) data l t h with h' | h' <;> intro hc <;> simp [hc, Res.isError] at h'
  rcases check_ev_cases d f name data s hev hs with ⟨hl, hc⟩ | ⟨t, hl, hu, hc⟩ | ⟨t, hl, hu, hall, hc⟩ |
      ⟨t, hl, hu, hall, hc⟩
  · have hnp : ¬ Passes d f name data := by
      rintro ⟨s', t', hs', hl', _⟩
      rw [hs] at hs'; cases hs'; rw [hl] at hl'; cases hl'
    rw [ctxEvent_check_error d f _ data _ _ hc]
    exact ⟨⟨fun _ => hnp, fun _ => rfl⟩, by simp, fun h => absurd h hnp⟩
  · have hp : Passes d f name data := ⟨s, t, hs, hl, fun h => by rw [hu] at h; cases h⟩
    refine ⟨⟨fun h => absurd h (key _ _ hc), fun h => absurd hp h⟩, fun _ => hp, fun _ => ?_⟩
    exact ctxEvent_passed d f _ data _ t hc
  · have hp : Passes d f name data := ⟨s, t, hs, hl, fun _ => hall⟩
    refine ⟨⟨fun h => absurd h (key _ _ hc), fun h => absurd hp h⟩, fun _ => hp, fun _ => ?_⟩
    exact ctxEvent_passed d f _ data _ t hc
  · have hnp : ¬ Passes d f name data := by
      rintro ⟨s', t', hs', _, hc'⟩
      exact hall (hc' hu)
    rw [ctxEvent_check_error d f _ data _ _ hc]
    exact ⟨⟨fun _ => hnp, fun _ => rfl⟩, by simp, fun h => absurd h hnp⟩

/-- Goto bypasses the table and the conditions: it is never rejected, nothing is logged by the
    first half, and a Goto to a state that does not exist is refused with an error that leaves the
    block unchanged -/
theorem goto_bypasses_table (d : Def) (f : Fsm) (s : State) (data : Data) :
    (ctxEvent d f (.goto s) data).2.1 ≠ .rejected ∧
    (check d f (.goto s) data).1 = [] ∧
    (d.states.contains s = false → ctxEvent d f (.goto s) data = (f, .errBadState, [])) := by
  refine ⟨?_, ?_, ?_⟩
  · cases hc : d.states.contains s with
    | true =>
      have h : check d f (.goto s) data = ([], .ok s) := by rw [check_goto]; simp only [hc, ↓reduceIte]
      rcases ctxEvent_passed d f _ data _ s h with h' | h' <;> intro hr <;> simp [hr, Res.isError] at h'
    | false =>
      have h : check d f (.goto s) data = ([], .error .errBadState) := by rw [check_goto]; simp only [hc, Bool.false_eq_true, ↓reduceIte]
      rw [ctxEvent_check_error d f _ data _ _ h]; simp
  · rw [check_goto]; split <;> rfl
  · intro hc
    have h : check d f (.goto s) data = ([], .error .errBadState) := by rw [check_goto]; simp only [hc, Bool.false_eq_true, ↓reduceIte]
    exact ctxEvent_check_error d f _ data _ _ h

/-- conditions are consulted only for table events on an initialised FSM: on a block whose
    output is still UNDEF the first half logs no condition call -/
theorem conds_only_when_initialised (d : Def) (f : Fsm) (e : EType) (data : Data)
    (hu : f.output.isUndef = true) :
    ∀ a ∈ (check d f e data).1, ∀ w n seen, a ≠ Action.cond w n seen := by
  intro a ha w n seen
  cases e with
  | goto s => rw [check_goto] at ha; split at ha <;> simp at ha
  | ev name =>
    cases hev : d.events.contains name with
    | false => rw [check_unknown d f name data hev] at ha; simp at ha
    | true =>
      cases hs : f.state with
      | none =>
        have hc : check d f (.ev name) data = ([], .error .errAssert) := by
          unfold check; simp only [hev, hs, Bool.not_true, Bool.false_eq_true, ↓reduceIte]
        rw [hc] at ha; simp at ha
      | some s =>
        rcases check_ev_cases d f name data s hev hs with ⟨_, hc⟩ | ⟨t, _, _, hc⟩ | ⟨t, _, hu', _, _⟩ |
          ⟨t, _, hu', _, _⟩
        · rw [hc] at ha; simp at ha; rw [ha]; simp
        · rw [hc] at ha; simp at ha
        · rw [hu] at hu'; cases hu'
        · rw [hu] at hu'; cases hu'

/-- `reject_changes_nothing`: a rejected event leaves state, output and both flags as they were;
    what it did is either the single on_notrans event (no transition defined) or the calls of all
    conditions of that event -/
theorem reject_changes_nothing (d : Def) (f : Fsm) (name : EvName) (data : Data)
    (h : (ctxEvent d f (.ev name) data).2.1 = .rejected) :
    (ctxEvent d f (.ev name) data).1 = f ∧
    ∃ s, f.state = some s ∧
      ((lookup d.toTables name s = none ∧ (ctxEvent d f (.ev name) data).2.2 = [.notrans name s]) ∨
       ((lookup d.toTables name s).isSome = true ∧
         (ctxEvent d f (.ev name) data).2.2 = condLog d name data)) := by
  cases hev : d.events.contains name with
  | false =>
    rw [ctxEvent_check_error d f _ data _ _ (check_unknown d f name data hev)] at h; simp at h
  | true =>
    cases hs : f.state with
    | none =>
      have hc : check d f (.ev name) data = ([], .error .errAssert) := by
        unfold check; simp only [hev, hs, Bool.not_true, Bool.false_eq_true, ↓reduceIte]
      rw [ctxEvent_check_error d f _ data _ _ hc] at h; simp at h
    | some s =>
      have key : ∀ l t, check d f (.ev name) data = (l, .ok t) → False := by
        intro l t hc
        rcases ctxEvent_passed d f (.ev name) data l t hc with h' | h' <;> simp [h, Res.isError] at h'
      rcases check_ev_cases d f name data s hev hs with ⟨hl, hc⟩ | ⟨t, hl, hu, hc⟩ | ⟨t, hl, hu, hall, hc⟩ |
          ⟨t, hl, hu, hall, hc⟩
      · rw [ctxEvent_check_error d f _ data _ _ hc]
        exact ⟨rfl, s, rfl, Or.inl ⟨hl, rfl⟩⟩
      · exact (key _ _ hc).elim
      · exact (key _ _ hc).elim
      · rw [ctxEvent_check_error d f _ data _ _ hc]
        exact ⟨rfl, s, rfl, Or.inr ⟨by simp [hl], rfl⟩⟩

/-- an unknown event type is refused before anything happens -/
theorem unknown_event_changes_nothing (d : Def) (f : Fsm) (name : EvName) (data : Data)
    (hev : d.events.contains name = false) :
    ctxEvent d f (.ev name) data = (f, .unknownEvent, []) :=
  ctxEvent_check_error d f _ data _ _ (check_unknown d f name data hev)


/-! ### flags -/

/-- `flags_released`: whatever a top-level event does (accepted, rejected, any exception),
    `_fsm_event_active` is clear afterwards; and after every outcome that is not an exception
    no chained request is left in `_next_event` -/
theorem flags_released (d : Def) (f : Fsm) (e : EType) (data : Data)
    (ha : f.active = false) (hn : f.next = none) :
    (ctxEvent d f e data).1.active = false ∧
    ((ctxEvent d f e data).2.1.isError = false → (ctxEvent d f e data).1.next = none) := by
  rcases hc : check d f e data with ⟨l, r | tgt⟩
  · rw [ctxEvent_check_error d f e data l r hc]; exact ⟨ha, fun _ => hn⟩
  · rw [ctxEvent_check_ok d f e data l tgt hc ha hn]
    rcases transition_cases d f e data tgt with ⟨f1, r, l1, _, hr, _, ht⟩ | ⟨f1, s, l1, _, _, hn1, _, ht⟩
    · rw [ht]; exact ⟨rfl, fun h => by simp [hr] at h⟩
    · rw [ht]; exact ⟨rfl, fun _ => by simp [(setOutput_same f1 (calcOutput d s)).2.1, hn1]⟩

/-- the flags stay released along every event sequence that raises no exception -/
theorem flags_released_run (d : Def) (f : Fsm) (evs : List (EType × Data))
    (ha : f.active = false) (hn : f.next = none)
    (hok : ∀ x ∈ (run d f evs).2, x.1.isError = false) :
    (run d f evs).1.active = false ∧ (run d f evs).1.next = none := by
  induction evs generalizing f with
  | nil => exact ⟨ha, hn⟩
  | cons ev rest ih =>
    obtain ⟨e, data⟩ := ev
    have h1 := flags_released d f e data ha hn
    rw [run_cons] at hok ⊢
    have hr1 : (ctxEvent d f e data).2.1.isError = false := hok _ (List.mem_cons_self ..)
    exact ih _ h1.1 (h1.2 hr1) (fun x hx => hok x (List.mem_cons_of_mem _ hx))


/-! ### the state -/

/-- `state_in_states`: with well-formed tables (what `_build_tables` produces, see
    `build_tables_wf`) the state after any event — accepted, rejected or ended by an exception,
    top-level or nested — is a declared state, and so is the target of a pending chained request -/
theorem state_in_states (d : Def) (hwf : d.toTables.WF) (f : Fsm) (e : EType) (data : Data)
    (hs : ∀ s, f.state = some s → s ∈ d.states) (hn : ∀ r, f.next = some r → r.target ∈ d.states) :
    (∀ s, (ctxEvent d f e data).1.state = some s → s ∈ d.states) ∧
    (∀ r, (ctxEvent d f e data).1.next = some r → r.target ∈ d.states) :=
  ctxEvent_stateOk d hwf f e data hs hn

/-- … hence after the initialisation and any sequence of events whatsoever -/
theorem state_in_states_run (sp : Spec) (t : Tables) (hb : buildTables sp = .ok t) (scr : Scripts)
    (initdef : State) (evs : List (EType × Data)) :
    ∀ s, (run { toTables := t, toScripts := scr }
            (init { toTables := t, toScripts := scr } initdef).1 evs).1.state = some s → s ∈ t.states := by
  have hwf := buildTables_wf' sp t hb
  generalize hd : ({ toTables := t, toScripts := scr } : Def) = d
  have hwf' : d.toTables.WF := by rw [← hd]; exact hwf
  have hst : d.states = t.states := by rw [← hd]
  have h0 := ctxEvent_stateOk d hwf' Fsm.fresh (.goto initdef) []
    (by intro s h; simp [Fsm.fresh] at h) (by intro r h; simp [Fsm.fresh] at h)
  have key : ∀ (f : Fsm), StateOk d f → NextOk d f → StateOk d (run d f evs).1 := by
    induction evs with
    | nil => intro f h1 _; exact h1
    | cons ev rest ih =>
      intro f h1 h2
      obtain ⟨e, data⟩ := ev
      rw [run_cons]
      have := ctxEvent_stateOk d hwf' f e data h1 h2
      exact ih _ this.1 this.2
  intro s hs
  rw [← hst]
  exact key _ h0.1 h0.2 s hs


/-! ### order of actions, chained transitions -/

/-- `action_order` + `chained_invisible`: an accepted top-level event does, in this order:
    the conditions (first half), then — on an initialised FSM — the exit action of the OLD state
    reading this event's data, the on_exit events carrying the old state and the old output, the
    timer stop; then a middle part that consists ONLY of internal entries (state assignments,
    entry/exit actions, self-sent events with their conditions, timer starts) however many
    chained transitions it contains; then the output update computed by calc_output for the FINAL
    state (one on_output event from the old output, or none when the value is UNDEF or equal), then
    the on_enter events of the FINAL state carrying the new output.  An intermediate state
    therefore causes no output, no on_enter and no on_exit event. -/
theorem action_order (d : Def) (f : Fsm) (e : EType) (data : Data)
    (ha : f.active = false) (hn : f.next = none)
    (hacc : (ctxEvent d f e data).2.1 = .accepted) :
    ∃ s mid, (ctxEvent d f e data).1.state = some s ∧
      (ctxEvent d f e data).1.output = (setOutput f (calcOutput d s)).1.output ∧
      (∀ a ∈ mid, a.internal = true) ∧
      (ctxEvent d f e data).2.2 =
        (check d f e data).1 ++ leaveLog d f data ++ mid ++ (setOutput f (calcOutput d s)).2
          ++ [.onEnter s (setOutput f (calcOutput d s)).1.output] := by
  rcases ctxEvent_top d f e data ha hn with ⟨l, r, _, h, hr, _⟩ | ⟨l, tgt, f1, r, l1, _, _, hr, h⟩ |
      ⟨l, tgt, f1, s, l1, hc, hlo, _, _, h⟩
  · rw [h] at hacc; exact absurd hacc hr
  · rw [h] at hacc; simp at hacc; rw [hacc] at hr; cases hr
  · refine ⟨s, l1, by rw [h], by rw [h], ?_, by rw [h, hc]⟩
    have := (loop_log d d.chainLimit { f with active := true } ⟨e, data, tgt⟩).1
    rw [hlo] at this
    exact this

/-- what the old state's part of the log is: exit action(s) with this event's data, then the
    on_exit event with old state and old output, then the timer stop; nothing before the
    initialisation -/
theorem leave_part (d : Def) (f : Fsm) (data : Data) (s : State) (hs : f.state = some s) :
    leaveLog d f data =
      if f.output.isUndef then []
      else (exitsOf d s).map (fun w => Action.exit w s data) ++ [.onExit s f.output, .stopTimer] := by
  unfold leaveLog exitLog; simp [hs]

/-- `chain_bounded`: one event enters at most `chainLimit` states; the chain-limit error is raised
    exactly when that many states have been entered and the last one requested yet another -/
theorem chain_bounded (d : Def) (f : Fsm) (e : EType) (data : Data)
    (ha : f.active = false) (hn : f.next = none) :
    (ctxEvent d f e data).2.2.countP Action.isSet ≤ d.chainLimit ∧
    ((ctxEvent d f e data).2.1 = .errChain →
      (ctxEvent d f e data).2.2.countP Action.isSet = d.chainLimit) := by
  rcases ctxEvent_top d f e data ha hn with ⟨l, r, hc, h, _, hr⟩ | ⟨l, tgt, f1, r, l1, hc, hlo, _, h⟩ |
      ⟨l, tgt, f1, s, l1, hc, hlo, _, _, h⟩
  · have hq := check_quiet d f e data
    rw [hc] at hq
    rw [h]; simp only
    rw [countP_quiet _ hq]
    exact ⟨Nat.zero_le _, fun h' => absurd h' hr⟩
  · have hq := check_quiet d f e data
    have hl := loop_log d d.chainLimit { f with active := true } ⟨e, data, tgt⟩
    rw [hc] at hq; rw [hlo] at hl
    rw [h]; simp only
    rw [List.countP_append, List.countP_append, countP_quiet _ hq, leaveLog_count]
    simp only [Nat.zero_add]
    exact ⟨hl.2.1, fun h' => hl.2.2 (by rw [h'])⟩
  · have hq := check_quiet d f e data
    have hl := loop_log d d.chainLimit { f with active := true } ⟨e, data, tgt⟩
    rw [hc] at hq; rw [hlo] at hl
    rw [h]; simp only
    rw [List.countP_append, List.countP_append, List.countP_append, List.countP_append, countP_quiet _ hq,
      leaveLog_count, setOutput_log_count]
    simp only [Nat.zero_add, Nat.add_zero]
    exact ⟨by simpa [Action.isSet] using hl.2.1, fun h' => by simp at h'⟩


/-! ### more than one chained request -/

/-- while a chained request is pending every further event that passes its first half is the
    error "forbidden event multiplication"; nothing is changed by it -/
theorem second_request_refused (d : Def) (f : Fsm) (e : EType) (data : Data) (l : List Action)
    (tgt : State) (x : Req) (ha : f.active = true) (hn : f.next = some x)
    (hc : check d f e data = (l, .ok tgt)) :
    ctxEvent d f e data = (f, .errMultiple, l) := by
  rw [ctxEvent_active d f e data ha]; exact nested_second_request d f e data l tgt x hn hc

/-- non-vacuity of `second_request_refused` -/
example :
    let d : Def := { states := ["A", "B"], events := ["go"], trans := [("go", none, some "B")], timed := [],
                     chainLimit := 6 }
    let f : Fsm := { state := some "A", output := .str "A", active := true, next := some ⟨.goto "A", [], "A"⟩ }
    ctxEvent d f (.ev "go") [] = (f, .errMultiple, []) := by
  decide

/-- `two_requests_error`: if the entry action of the state being entered sends two events that
    both pass their first half (table + conditions, or Goto), the whole event ends with the
    multiplication error — for every definition, state, event and data -/
theorem two_requests_error (d : Def) (f : Fsm) (e : EType) (data : Data) (l : List Action) (tgt : State)
    (ha : f.active = false) (hn : f.next = none) (hlim : 0 < d.chainLimit)
    (hc : check d f e data = (l, .ok tgt))
    (w : Who) (s1 s2 : Send) (rest : List Send) (more : List (Who × List Send))
    (hent : entersOf d tgt = (w, s1 :: s2 :: rest) :: more)
    (l1 l2 : List Action) (t1 t2 : State)
    (h1 : check d { f with state := some tgt, active := true } s1.etype s1.data = (l1, .ok t1))
    (h2 : check d { f with state := some tgt, active := true } s2.etype s2.data = (l2, .ok t2)) :
    (ctxEvent d f e data).2.1 = .errMultiple := by
  apply ctxEvent_loop_error d f e data l tgt _ ha hn hc
  obtain ⟨n, hn'⟩ : ∃ n, d.chainLimit = n + 1 := ⟨d.chainLimit - 1, by omega⟩
  rw [hn']
  apply loop_fail
  have hu : unpack { f with active := true } ⟨e, data, tgt⟩ = ⟨e, data, tgt⟩ := by simp [unpack, hn]
  rw [hu]
  apply enterState_error
  simp only [hent]
  apply runCbs_first_error
  exact runSends_two d _ s1 s2 rest l1 l2 t1 t2 rfl h1 h2

/-- non-vacuity: entering `B` sends two Gotos -/
example :
    let d : Def := { states := ["A", "B"], events := ["go"], trans := [("go", none, some "B")], timed := [],
                     chainLimit := 6, enterM := [("B", [⟨.goto "A", []⟩, ⟨.goto "B", []⟩])] }
    (ctxEvent d { state := some "A", output := .str "A" } (.ev "go") []).2.1 = .errMultiple := by
  decide


/-- `chained_invisible`: of an accepted top-level event other blocks see, state-wise, exactly
    this, however many intermediate states were passed through: the on_exit event of the OLD state
    with the old output (initialised FSM only), at most one on_output event (old output -> the
    output calc_output gives for the FINAL state), the on_enter event of the FINAL state with the new
    output — "from an external view the S1 -> S2 -> S3 transition looks like a straightforward
    S1 -> S3 transition" (docs/FSM.rst) -/
theorem chained_invisible (d : Def) (f : Fsm) (e : EType) (data : Data)
    (ha : f.active = false) (hn : f.next = none)
    (hacc : (ctxEvent d f e data).2.1 = .accepted) :
    ∃ s, (ctxEvent d f e data).1.state = some s ∧
      (ctxEvent d f e data).2.2.filter Action.stateEvent =
        (match f.state with
          | some s0 => if f.output.isUndef then [] else [Action.onExit s0 f.output]
          | none => [])
        ++ (setOutput f (calcOutput d s)).2 ++ [.onEnter s (ctxEvent d f e data).1.output] := by
  obtain ⟨s, mid, hs, ho, hmid, hlog⟩ := action_order d f e data ha hn hacc
  refine ⟨s, hs, ?_⟩
  rw [hlog, ho]
  simp only [List.filter_append]
  rw [filter_stateEvent_quiet _ (check_quiet d f e data), leaveLog_stateEvents,
    filter_stateEvent_internal mid hmid, setOutput_stateEvents]
  have h1 : ∀ v, List.filter Action.stateEvent [Action.onEnter s v] = [Action.onEnter s v] := fun _ => rfl
  simp [h1]
  cases f.state <;> rfl

/-- `chained_invisible`, second half — "its exit action runs": a pass of the chain loop that
    starts with a pending request (i.e. the state entered by the previous pass is an intermediate
    state) first runs the exit action(s) of that state, reading the data of the CHAINED event,
    and then assigns the requested state -/
theorem chained_exit_runs (d : Def) (n : Nat) (f : Fsm) (cur nx : Req) (s : State)
    (hn : f.next = some nx) (hs : f.state = some s) :
    ∃ rest, (loop d (n + 1) f cur).2.2 =
      (exitsOf d s).map (fun w => Action.exit w s nx.data) ++ Action.setState nx.target :: rest := by
  rw [loop_succ]
  have hu : unpack f cur = nx := by simp [unpack, hn]
  have hl : unpackLog d f = exitLog d s nx.data := by simp [unpackLog, hn, hs]
  rw [hu, hl]
  obtain ⟨⟨rest, hlog, _⟩, _⟩ := enterState_log d f nx (exitLog d s nx.data ++ [Action.setState nx.target])
  rcases he : enterState d f nx (exitLog d s nx.data ++ [Action.setState nx.target]) with ⟨f1, st, l⟩
  rw [he] at hlog
  simp only at hlog
  cases st with
  | fail r => exact ⟨rest, by simp [hlog, exitLog]⟩
  | done => exact ⟨rest, by simp [hlog, exitLog]⟩
  | again => exact ⟨rest ++ (loop d n f1 nx).2.2, by simp [hlog, exitLog]⟩

/-- a complete chained transition A -(go)-> B -(nxt, sent by enter_B)-> C: what is logged and
    what is not (no on_exit/on_enter/on_output for B; exit_B and enter_C read the data of `nxt`) -/
example :
    let d : Def := { states := ["A", "B", "C"], events := ["go", "nxt"],
                     trans := [("go", some "A", some "B"), ("nxt", some "B", some "C")], timed := [],
                     chainLimit := 9, condM := [("nxt", .item "ok")],
                     enterM := [("B", [⟨.ev "nxt", [("ok", .bool true), ("tag", .str "d2")]⟩]), ("C", [])],
                     exitM := ["A", "B", "C"] }
    ctxEvent d { state := some "A", output := .str "A" } (.ev "go") [("tag", .str "d1")] =
      ({ state := some "C", output := .str "C" }, .accepted,
       [.exit .meth "A" [("tag", .str "d1")], .onExit "A" (.str "A"), .stopTimer,
        .setState "B", .enter .meth "B" [("tag", .str "d1")],
        .send (.ev "nxt") [("ok", .bool true), ("tag", .str "d2")],
        .cond .meth "nxt" [("ok", .bool true), ("tag", .str "d2")], .sendRet true,
        .exit .meth "B" [("ok", .bool true), ("tag", .str "d2")],
        .setState "C", .enter .meth "C" [("ok", .bool true), ("tag", .str "d2")],
        .output (.str "A") (.str "C"), .onEnter "C" (.str "C")]) := by
  decide

/-- an endless chain (enter_B requests B again) ends with the chain-limit error after exactly
    `chainLimit` entries -/
example :
    let d : Def := { states := ["A", "B"], events := ["go"], trans := [("go", none, some "B")], timed := [],
                     chainLimit := 6, enterF := [("B", [⟨.goto "B", []⟩])] }
    (ctxEvent d { state := some "A", output := .str "A" } (.ev "go") []).2.1 = .errChain ∧
    (ctxEvent d { state := some "A", output := .str "A" } (.ev "go") []).2.2.countP Action.isSet = 6 := by
  decide

/-! ### event data read through `fsm_event_data` -/

/-- `action_reads_causing_event`: the log of every top-level event — any definition, state, event,
    data; accepted, rejected or ended by an exception; with any number of chained transitions —
    is accepted by the definition-independent checker `attrRun` (EdzedProofs/Fsm.lean):
    every condition reads the data of the event whose acceptance it decides, every exit action the
    data of the event that makes the FSM leave that state (for an intermediate state: the chained
    event), every entry action the data of the event that caused the entry. -/
theorem action_reads_causing_event (d : Def) (f : Fsm) (e : EType) (data : Data)
    (ha : f.active = false) (hn : f.next = none) :
    (attrRun ⟨data, none, none⟩ (ctxEvent d f e data).2.2).isSome = true :=
  attr_ctxEvent d f e data ha hn

/-- the checker is not vacuous: the log the UNREPAIRED code produces for a chained transition
    (exit_B and enter_C still reading the first event's data `d1`) is refused … -/
example :
    attrRun ⟨[("tag", .str "d1")], none, none⟩
      [.setState "B", .enter .meth "B" [("tag", .str "d1")], .send (.ev "nxt") [("tag", .str "d2")],
       .cond .meth "nxt" [("tag", .str "d2")], .sendRet true,
       .exit .meth "B" [("tag", .str "d1")], .setState "C", .enter .meth "C" [("tag", .str "d1")]] = none := by
  decide

/-- … and so is an entry action of the final state alone reading stale data -/
example :
    attrRun ⟨[("tag", .str "d1")], none, none⟩
      [.setState "B", .enter .meth "B" [("tag", .str "d1")], .send (.goto "C") [("tag", .str "d2")],
       .sendRet true, .setState "C", .enter .meth "C" [("tag", .str "d1")]] = none := by
  decide

/-! ### the tables of the library FSMs, generated from the source on every run -/

/-- the control tables of `Timer` extracted from the current code are exactly what the model's
    `buildTables` makes of them: consistent (no duplicate key, targets and timed events declared),
    same event set, chain limit `3 * |states|` -/
theorem timer_tables_consistent :
    ∃ t, buildTables (genSpec Gen.timerStates Gen.timerTrans Gen.timerTimed) = .ok t ∧
      t.states = Gen.timerStates ∧ t.events = Gen.timerEvents ∧ t.trans = Gen.timerTrans ∧
      t.chainLimit = Gen.timerChainLimit ∧ Gen.timerStates.contains Gen.timerDefault = true :=
  ⟨_, rfl, by decide, by decide, by decide, by decide, by decide⟩

theorem inputexp_tables_consistent :
    ∃ t, buildTables (genSpec Gen.inputExpStates Gen.inputExpTrans Gen.inputExpTimed) = .ok t ∧
      t.states = Gen.inputExpStates ∧ t.events = Gen.inputExpEvents ∧ t.trans = Gen.inputExpTrans ∧
      t.chainLimit = Gen.inputExpChainLimit ∧ Gen.inputExpStates.contains Gen.inputExpDefault = true :=
  ⟨_, rfl, by decide, by decide, by decide, by decide, by decide⟩

/-- `Timer` never answers "no transition": every event has a target in every state, and every
    target is a state (decided over the whole generated table) -/
theorem timer_table_total :
    ∀ e ∈ Gen.timerEvents, ∀ s ∈ Gen.timerStates,
      ∃ t ∈ Gen.timerStates,
        lookup { states := Gen.timerStates, events := Gen.timerEvents, trans := Gen.timerTrans,
                 timed := [], chainLimit := Gen.timerChainLimit } e s = some t := by
  decide

theorem inputexp_table_total :
    ∀ e ∈ Gen.inputExpEvents, ∀ s ∈ Gen.inputExpStates,
      ∃ t ∈ Gen.inputExpStates,
        lookup { states := Gen.inputExpStates, events := Gen.inputExpEvents, trans := Gen.inputExpTrans,
                 timed := [], chainLimit := Gen.inputExpChainLimit } e s = some t := by
  decide

/-- the general result instantiated on the generated `Timer` tables: whatever conditions, entry
    and exit actions, outputs and initial state an instance has, after the initialisation and any
    sequence of events (table events, Goto, unknown ones) its state is one of the extracted states -/
theorem timer_state_in_states (t : Tables)
    (hb : buildTables (genSpec Gen.timerStates Gen.timerTrans Gen.timerTimed) = .ok t)
    (scr : Scripts) (initdef : State) (evs : List (EType × Data)) :
    ∀ s, (run { toTables := t, toScripts := scr }
            (init { toTables := t, toScripts := scr } initdef).1 evs).1.state = some s →
      s ∈ Gen.timerStates := by
  intro s hs
  have h := state_in_states_run _ t hb scr initdef evs s hs
  obtain ⟨t', hb', hst, _⟩ := timer_tables_consistent
  rw [hb] at hb'
  cases hb'
  rw [← hst]; exact h


/-! ### the hypotheses above are satisfiable -/

/-- a turnstile with a condition on `coin`: rejected by a false condition (all conditions are
    called), rejected without a transition (on_notrans), accepted otherwise -/
example :
    let d : Def := { states := ["locked", "unlocked"], events := ["coin", "push"],
                     trans := [("coin", some "locked", some "unlocked"), ("push", some "unlocked", some "locked")],
                     timed := [], chainLimit := 6,
                     condF := [("coin", .item "ok")], condM := [("coin", .const (.bool true))] }
    let f : Fsm := { state := some "locked", output := .str "locked" }
    ctxEvent d f (.ev "coin") [("ok", .int 0)] =
      (f, .rejected, [.cond .func "coin" [("ok", .int 0)], .cond .meth "coin" [("ok", .int 0)]]) ∧
    ctxEvent d f (.ev "push") [] = (f, .rejected, [.notrans "push" "locked"]) ∧
    (ctxEvent d f (.ev "coin") [("ok", .int 1)]).2.1 = .accepted ∧
    (ctxEvent d f (.ev "coin") [("ok", .int 1)]).1 = { state := some "unlocked", output := .str "unlocked" } ∧
    ctxEvent d f (.ev "kick") [] = (f, .unknownEvent, []) ∧
    f.active = false ∧ f.next = none := by
  decide

end Edzed.Fsm
