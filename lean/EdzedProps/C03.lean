/-
C03 — an FSM follows its transition table and runs its actions in the documented order.

Model: EdzedModel/Fsm.lean (`buildTables` mirrors FSM._build_tables, `ctxEvent` mirrors
FSM._ctx_event with the repair patches/C03-chained-event-data.diff applied).
All statements are for every FSM definition (tables and callback scripts), every state of the
block, every event and every event data; sequences are covered by induction.
-/
import EdzedModel.Fsm
import EdzedProofs.Fsm
import EdzedProofs.FsmTie03
import EdzedProofs.FsmTablesTie
import EdzedModel.Gen.Constants

namespace Edzed.Fsm

/-! ### the transition table -/

/-- `_build_tables` yields a table that is a function of (event, from-state) (duplicates are
    refused), whose targets are declared states, with at least one state, and the chain limit
    `3 * number of states` -/
theorem build_tables_wf (sp : Spec) (t : Tables) (h : buildTables sp = .ok t) :
    KeysUnique t.trans ∧ (∀ a ∈ t.trans, ∀ x, a.2.2 = some x → x ∈ t.states) ∧
    t.states ≠ [] ∧ t.chainLimit = 3 * t.states.length :=
  buildTables_wf' sp t h

/-- `lookup_precedence`: in the tables built from any class definition
    (1) a rule naming the current state decides — also when its target is None (forbidden), the
        any-state rule is then NOT consulted;
    (2) without such a rule the any-state rule decides;
    (3) without either there is no transition. -/
theorem lookup_precedence (sp : Spec) (t : Tables) (hb : buildTables sp = .ok t) (e : EvName) (s : State) :
    (∀ tgt, (e, some s, tgt) ∈ t.trans → lookup t e s = tgt) ∧
    ((∀ x, (e, some s, x) ∉ t.trans) → ∀ tgt, (e, none, tgt) ∈ t.trans → lookup t e s = tgt) ∧
    ((∀ x, (e, some s, x) ∉ t.trans) → (∀ x, (e, none, x) ∉ t.trans) → lookup t e s = none) := by
  have hu := (buildTables_wf' sp t hb).1
  exact ⟨fun tgt h => lookup_specific' t e s tgt hu h,
         fun hno tgt h => lookup_any' t e s tgt hu hno h,
         fun hno hno' => lookup_missing' t e s hno hno'⟩

/-- non-vacuity and the documented example #4 of FSM.EVENTS: default rule, specific rule,
    forbidden rule -/
example :
    ∃ t, buildTables ⟨["state1", "state2", "state3"],
        [⟨"ev1", none, some "state2"⟩, ⟨"ev1", some ["state2"], some "state3"⟩,
         ⟨"ev1", some ["state3"], none⟩], []⟩ = .ok t ∧
      lookup t "ev1" "state1" = some "state2" ∧ lookup t "ev1" "state2" = some "state3" ∧
      lookup t "ev1" "state3" = none ∧ t.chainLimit = 9 :=
  ⟨_, rfl, by decide, by decide, by decide, by decide⟩

/-- a table defining two targets for one (event, state) pair is refused -/
example : buildTables ⟨["a", "b"], [⟨"e", some ["a"], some "b"⟩, ⟨"e", some ["a", "b"], some "a"⟩], []⟩
    = .error .duplicate := by rfl

/-! ### re-entrant use -/

/-- an event arriving while `_fsm_event_active` is set (from an entry action or a zero timer)
    is only scheduled: `ctxEvent` of an active FSM is the function `nested` -/
theorem ctxEvent_active (d : Def) (f : Fsm) (e : EType) (data : Data) (h : f.active = true) :
    ctxEvent d f e data = nested d f e data := by
  simp [ctxEvent, h]

/-! ### acceptance -/

/-- `accept_iff`: for a known event on an FSM that has a state, `event()` returns False exactly
    when the documented acceptance condition fails (no target, or an initialised FSM with a
    condition returning a false value); it returns True only when the condition holds; and when
    the condition holds the only other outcome is an exception (chain errors). -/
theorem accept_iff (d : Def) (f : Fsm) (name : EvName) (data : Data) (s : State)
    (hev : d.events.contains name = true) (hs : f.state = some s) :
    ((ctxEvent d f (.ev name) data).2.1 = .rejected ↔ ¬ Passes d f name data) ∧
    ((ctxEvent d f (.ev name) data).2.1 = .accepted → Passes d f name data) ∧
    (Passes d f name data → (ctxEvent d f (.ev name) data).2.1 = .accepted ∨
      (ctxEvent d f (.ev name) data).2.1.isError = true) := by
  have key : ∀ l t, check d f (.ev name) data = (l, .ok t) →
      (ctxEvent d f (.ev name) data).2.1 ≠ .rejected := by
    intro l t h
    rcases ctxEvent_passed d f (.ev name) data l t h with h' | h' <;> intro hc <;> simp [hc, Res.isError] at h'
  rcases check_ev_cases d f name data s hev hs with ⟨hl, hc⟩ | ⟨t, hl, hu, hc⟩ | ⟨t, hl, hu, hall, hc⟩ |
      ⟨t, hl, hu, hall, hc⟩
  · have hnp : ¬ Passes d f name data := by
      rintro ⟨s', t', hs', hl', _⟩
      rw [hs] at hs'; cases hs'; rw [hl] at hl'; cases hl'
    rw [ctxEvent_check_error d f _ data _ _ hc]
    exact ⟨⟨fun _ => hnp, fun _ => rfl⟩, by simp, fun h => absurd h hnp⟩
  · have hp : Passes d f name data := ⟨s, t, hs, hl, fun h => by rw [hu] at h; cases h⟩
    refine ⟨⟨fun h => absurd h (key _ _ hc), fun h => absurd hp h⟩, fun _ => hp, fun _ => ?_⟩
    exact ctxEvent_passed d f _ data _ t hc
  · have hp : Passes d f name data := ⟨s, t, hs, hl, fun _ => hall⟩
    refine ⟨⟨fun h => absurd h (key _ _ hc), fun h => absurd hp h⟩, fun _ => hp, fun _ => ?_⟩
    exact ctxEvent_passed d f _ data _ t hc
  · have hnp : ¬ Passes d f name data := by
      rintro ⟨s', t', hs', _, hc'⟩
      exact hall (hc' hu)
    rw [ctxEvent_check_error d f _ data _ _ hc]
    exact ⟨⟨fun _ => hnp, fun _ => rfl⟩, by simp, fun h => absurd h hnp⟩

/-- Goto bypasses the table and the conditions: it is never rejected, nothing is logged by the
    first half, and a Goto to a state that does not exist is refused with an error that leaves the
    block unchanged -/
theorem goto_bypasses_table (d : Def) (f : Fsm) (s : State) (data : Data) :
    (ctxEvent d f (.goto s) data).2.1 ≠ .rejected ∧
    (check d f (.goto s) data).1 = [] ∧
    (d.states.contains s = false → ctxEvent d f (.goto s) data = (f, .errBadState, [])) := by
  refine ⟨?_, ?_, ?_⟩
  · cases hc : d.states.contains s with
    | true =>
      have h : check d f (.goto s) data = ([], .ok s) := by rw [check_goto]; simp only [hc, ↓reduceIte]
      rcases ctxEvent_passed d f _ data _ s h with h' | h' <;> intro hr <;> simp [hr, Res.isError] at h'
    | false =>
      have h : check d f (.goto s) data = ([], .error .errBadState) := by rw [check_goto]; simp only [hc, Bool.false_eq_true, ↓reduceIte]
      rw [ctxEvent_check_error d f _ data _ _ h]; simp
  · rw [check_goto]; split <;> rfl
  · intro hc
    have h : check d f (.goto s) data = ([], .error .errBadState) := by rw [check_goto]; simp only [hc, Bool.false_eq_true, ↓reduceIte]
    exact ctxEvent_check_error d f _ data _ _ h

/-- conditions are consulted only for table events on an initialised FSM: on a block whose
    output is still UNDEF the first half logs no condition call -/
theorem conds_only_when_initialised (d : Def) (f : Fsm) (e : EType) (data : Data)
    (hu : f.output.isUndef = true) :
    ∀ a ∈ (check d f e data).1, ∀ w n seen, a ≠ Action.cond w n seen := by
  intro a ha w n seen
  cases e with
  | goto s => rw [check_goto] at ha; split at ha <;> simp at ha
  | ev name =>
    cases hev : d.events.contains name with
    | false => rw [check_unknown d f name data hev] at ha; simp at ha
    | true =>
      cases hs : f.state with
      | none =>
        have hc : check d f (.ev name) data = ([], .error .errAssert) := by
          unfold check; simp only [hev, hs, Bool.not_true, Bool.false_eq_true, ↓reduceIte]
        rw [hc] at ha; simp at ha
      | some s =>
        rcases check_ev_cases d f name data s hev hs with ⟨_, hc⟩ | ⟨t, _, _, hc⟩ | ⟨t, _, hu', _, _⟩ |
          ⟨t, _, hu', _, _⟩
        · rw [hc] at ha; simp at ha; rw [ha]; simp
        · rw [hc] at ha; simp at ha
        · rw [hu] at hu'; cases hu'
        · rw [hu] at hu'; cases hu'

/-- `reject_changes_nothing`: a rejected event leaves state, output and both flags as they were;
    what it did is either the single on_notrans event (no transition defined) or the calls of all
    conditions of that event -/
theorem reject_changes_nothing (d : Def) (f : Fsm) (name : EvName) (data : Data)
    (h : (ctxEvent d f (.ev name) data).2.1 = .rejected) :
    (ctxEvent d f (.ev name) data).1 = f ∧
    ∃ s, f.state = some s ∧
      ((lookup d.toTables name s = none ∧ (ctxEvent d f (.ev name) data).2.2 = [.notrans name s]) ∨
       ((lookup d.toTables name s).isSome = true ∧
         (ctxEvent d f (.ev name) data).2.2 = condLog d name data)) := by
  cases hev : d.events.contains name with
  | false =>
    rw [ctxEvent_check_error d f _ data _ _ (check_unknown d f name data hev)] at h; simp at h
  | true =>
    cases hs : f.state with
    | none =>
      have hc : check d f (.ev name) data = ([], .error .errAssert) := by
        unfold check; simp only [hev, hs, Bool.not_true, Bool.false_eq_true, ↓reduceIte]
      rw [ctxEvent_check_error d f _ data _ _ hc] at h; simp at h
    | some s =>
      have key : ∀ l t, check d f (.ev name) data = (l, .ok t) → False := by
        intro l t hc
        rcases ctxEvent_passed d f (.ev name) data l t hc with h' | h' <;> simp [h, Res.isError] at h'
      rcases check_ev_cases d f name data s hev hs with ⟨hl, hc⟩ | ⟨t, hl, hu, hc⟩ | ⟨t, hl, hu, hall, hc⟩ |
          ⟨t, hl, hu, hall, hc⟩
      · rw [ctxEvent_check_error d f _ data _ _ hc]
        exact ⟨rfl, s, rfl, Or.inl ⟨hl, rfl⟩⟩
      · exact (key _ _ hc).elim
      · exact (key _ _ hc).elim
      · rw [ctxEvent_check_error d f _ data _ _ hc]
        exact ⟨rfl, s, rfl, Or.inr ⟨by simp [hl], rfl⟩⟩

/-- an unknown event type is refused before anything happens -/
theorem unknown_event_changes_nothing (d : Def) (f : Fsm) (name : EvName) (data : Data)
    (hev : d.events.contains name = false) :
    ctxEvent d f (.ev name) data = (f, .unknownEvent, []) :=
  ctxEvent_check_error d f _ data _ _ (check_unknown d f name data hev)


/-! ### flags -/

/-- `flags_released`: whatever a top-level event does (accepted, rejected, any exception),
    `_fsm_event_active` is clear afterwards; and after every outcome that is not an exception
    no chained request is left in `_next_event` -/
theorem flags_released (d : Def) (f : Fsm) (e : EType) (data : Data)
    (ha : f.active = false) (hn : f.next = none) :
    (ctxEvent d f e data).1.active = false ∧
    ((ctxEvent d f e data).2.1.isError = false → (ctxEvent d f e data).1.next = none) := by
  rcases hc : check d f e data with ⟨l, r | tgt⟩
  · rw [ctxEvent_check_error d f e data l r hc]; exact ⟨ha, fun _ => hn⟩
  · rw [ctxEvent_check_ok d f e data l tgt hc ha hn]
    rcases transition_cases d f e data tgt with ⟨f1, r, l1, _, hr, _, ht⟩ | ⟨f1, s, l1, _, _, hn1, _, ht⟩
    · rw [ht]; exact ⟨rfl, fun h => by simp [hr] at h⟩
    · rw [ht]; exact ⟨rfl, fun _ => by simp [(setOutput_same f1 (calcOutput d s)).2.1, hn1]⟩

/-- the flags stay released along every event sequence that raises no exception -/
theorem flags_released_run (d : Def) (f : Fsm) (evs : List (EType × Data))
    (ha : f.active = false) (hn : f.next = none)
    (hok : ∀ x ∈ (run d f evs).2, x.1.isError = false) :
    (run d f evs).1.active = false ∧ (run d f evs).1.next = none := by
  induction evs generalizing f with
  | nil => exact ⟨ha, hn⟩
  | cons ev rest ih =>
    obtain ⟨e, data⟩ := ev
    have h1 := flags_released d f e data ha hn
    rw [run_cons] at hok ⊢
    have hr1 : (ctxEvent d f e data).2.1.isError = false := hok _ (List.mem_cons_self ..)
    exact ih _ h1.1 (h1.2 hr1) (fun x hx => hok x (List.mem_cons_of_mem _ hx))


/-! ### the state -/

/-- `state_in_states`: with well-formed tables (what `_build_tables` produces, see
    `build_tables_wf`) the state after any event — accepted, rejected or ended by an exception,
    top-level or nested — is a declared state, and so is the target of a pending chained request -/
theorem state_in_states (d : Def) (hwf : d.toTables.WF) (f : Fsm) (e : EType) (data : Data)
    (hs : ∀ s, f.state = some s → s ∈ d.states) (hn : ∀ r, f.next = some r → r.target ∈ d.states) :
    (∀ s, (ctxEvent d f e data).1.state = some s → s ∈ d.states) ∧
    (∀ r, (ctxEvent d f e data).1.next = some r → r.target ∈ d.states) :=
  ctxEvent_stateOk d hwf f e data hs hn

/-- … hence after the initialisation and any sequence of events whatsoever -/
theorem state_in_states_run (sp : Spec) (t : Tables) (hb : buildTables sp = .ok t) (scr : Scripts)
    (initdef : State) (evs : List (EType × Data)) :
    ∀ s, (run { toTables := t, toScripts := scr }
            (init { toTables := t, toScripts := scr } initdef).1 evs).1.state = some s → s ∈ t.states := by
  have hwf := buildTables_wf' sp t hb
  generalize hd : ({ toTables := t, toScripts := scr } : Def) = d
  have hwf' : d.toTables.WF := by rw [← hd]; exact hwf
  have hst : d.states = t.states := by rw [← hd]
  have h0 := ctxEvent_stateOk d hwf' Fsm.fresh (.goto initdef) []
    (by intro s h; simp [Fsm.fresh] at h) (by intro r h; simp [Fsm.fresh] at h)
  have key : ∀ (f : Fsm), StateOk d f → NextOk d f → StateOk d (run d f evs).1 := by
    induction evs with
    | nil => intro f h1 _; exact h1
    | cons ev rest ih =>
      intro f h1 h2
      obtain ⟨e, data⟩ := ev
      rw [run_cons]
      have := ctxEvent_stateOk d hwf' f e data h1 h2
      exact ih _ this.1 this.2
  intro s hs
  rw [← hst]
  exact key _ h0.1 h0.2 s hs


/-! ### order of actions, chained transitions -/

/-- `action_order` + `chained_invisible`: an accepted top-level event does, in this order:
    the conditions (first half), then — on an initialised FSM — the exit action of the OLD state
    reading this event's data, the on_exit events carrying the old state and the old output, the
    timer stop; then a middle part that consists ONLY of internal entries (state assignments,
    entry/exit actions, self-sent events with their conditions, timer starts) however many
    chained transitions it contains; then the output update computed by calc_output for the FINAL
    state (one on_output event from the old output, or none when the value is UNDEF or equal), then
    the on_enter events of the FINAL state carrying the new output.  An intermediate state
    therefore causes no output, no on_enter and no on_exit event. -/
theorem action_order (d : Def) (f : Fsm) (e : EType) (data : Data)
    (ha : f.active = false) (hn : f.next = none)
    (hacc : (ctxEvent d f e data).2.1 = .accepted) :
    ∃ s mid, (ctxEvent d f e data).1.state = some s ∧
      (ctxEvent d f e data).1.output = (setOutput f (calcOutput d s)).1.output ∧
      (∀ a ∈ mid, a.internal = true) ∧
      (ctxEvent d f e data).2.2 =
        (check d f e data).1 ++ leaveLog d f data ++ mid ++ (setOutput f (calcOutput d s)).2
          ++ [.onEnter s (setOutput f (calcOutput d s)).1.output] := by
  rcases ctxEvent_top d f e data ha hn with ⟨l, r, _, h, hr, _⟩ | ⟨l, tgt, f1, r, l1, _, _, hr, h⟩ |
      ⟨l, tgt, f1, s, l1, hc, hlo, _, _, h⟩
  · rw [h] at hacc; exact absurd hacc hr
  · rw [h] at hacc; simp at hacc; rw [hacc] at hr; cases hr
  · refine ⟨s, l1, by rw [h], by rw [h], ?_, by rw [h, hc]⟩
    have := (loop_log d d.chainLimit { f with active := true } ⟨e, data, tgt⟩).1
    rw [hlo] at this
    exact this

/-- what the old state's part of the log is: exit action(s) with this event's data, then the
    on_exit event with old state and old output, then the timer stop; nothing before the
    initialisation -/
theorem leave_part (d : Def) (f : Fsm) (data : Data) (s : State) (hs : f.state = some s) :
    leaveLog d f data =
      if f.output.isUndef then []
      else (exitsOf d s).map (fun w => Action.exit w s data) ++ [.onExit s f.output, .stopTimer] := by
  unfold leaveLog exitLog; simp [hs]

/-- `chain_bounded`: one event enters at most `chainLimit` states; the chain-limit error is raised
    exactly when that many states have been entered and the last one requested yet another -/
theorem chain_bounded (d : Def) (f : Fsm) (e : EType) (data : Data)
    (ha : f.active = false) (hn : f.next = none) :
    (ctxEvent d f e data).2.2.countP Action.isSet ≤ d.chainLimit ∧
    ((ctxEvent d f e data).2.1 = .errChain →
      (ctxEvent d f e data).2.2.countP Action.isSet = d.chainLimit) := by
  rcases ctxEvent_top d f e data ha hn with ⟨l, r, hc, h, _, hr⟩ | ⟨l, tgt, f1, r, l1, hc, hlo, _, h⟩ |
      ⟨l, tgt, f1, s, l1, hc, hlo, _, _, h⟩
  · have hq := check_quiet d f e data
    rw [hc] at hq
    rw [h]; simp only
    rw [countP_quiet _ hq]
    exact ⟨Nat.zero_le _, fun h' => absurd h' hr⟩
  · have hq := check_quiet d f e data
    have hl := loop_log d d.chainLimit { f with active := true } ⟨e, data, tgt⟩
    rw [hc] at hq; rw [hlo] at hl
    rw [h]; simp only
    rw [List.countP_append, List.countP_append, countP_quiet _ hq, leaveLog_count]
    simp only [Nat.zero_add]
    exact ⟨hl.2.1, fun h' => hl.2.2 (by rw [h'])⟩
  · have hq := check_quiet d f e data
    have hl := loop_log d d.chainLimit { f with active := true } ⟨e, data, tgt⟩
    rw [hc] at hq; rw [hlo] at hl
    rw [h]; simp only
    rw [List.countP_append, List.countP_append, List.countP_append, List.countP_append, countP_quiet _ hq,
      leaveLog_count, setOutput_log_count]
    simp only [Nat.zero_add, Nat.add_zero]
    exact ⟨by simpa [Action.isSet] using hl.2.1, fun h' => by simp at h'⟩


/-! ### more than one chained request -/

/-- while a chained request is pending every further event that passes its first half is the
    error "forbidden event multiplication"; nothing is changed by it -/
theorem second_request_refused (d : Def) (f : Fsm) (e : EType) (data : Data) (l : List Action)
    (tgt : State) (x : Req) (ha : f.active = true) (hn : f.next = some x)
    (hc : check d f e data = (l, .ok tgt)) :
    ctxEvent d f e data = (f, .errMultiple, l) := by
  rw [ctxEvent_active d f e data ha]; exact nested_second_request d f e data l tgt x hn hc

/-- non-vacuity of `second_request_refused` -/
example :
    let d : Def := { states := ["A", "B"], events := ["go"], trans := [("go", none, some "B")], timed := [],
                     chainLimit := 6 }
    let f : Fsm := { state := some "A", output := .str "A", active := true, next := some ⟨.goto "A", [], "A"⟩ }
    ctxEvent d f (.ev "go") [] = (f, .errMultiple, []) := by
  decide

/-- `two_requests_error`: if the entry action of the state being entered sends two events that
    both pass their first half (table + conditions, or Goto), the whole event ends with the
    multiplication error — for every definition, state, event and data -/
theorem two_requests_error (d : Def) (f : Fsm) (e : EType) (data : Data) (l : List Action) (tgt : State)
    (ha : f.active = false) (hn : f.next = none) (hlim : 0 < d.chainLimit)
    (hc : check d f e data = (l, .ok tgt))
    (w : Who) (s1 s2 : Send) (rest : List Send) (more : List (Who × List Send))
    (hent : entersOf d tgt = (w, s1 :: s2 :: rest) :: more)
    (l1 l2 : List Action) (t1 t2 : State)
    (h1 : check d { f with state := some tgt, active := true } s1.etype s1.data = (l1, .ok t1))
    (h2 : check d { f with state := some tgt, active := true } s2.etype s2.data = (l2, .ok t2)) :
    (ctxEvent d f e data).2.1 = .errMultiple := by
  apply ctxEvent_loop_error d f e data l tgt _ ha hn hc
  obtain ⟨n, hn'⟩ : ∃ n, d.chainLimit = n + 1 := ⟨d.chainLimit - 1, by omega⟩
  rw [hn']
  apply loop_fail
  have hu : unpack { f with active := true } ⟨e, data, tgt⟩ = ⟨e, data, tgt⟩ := by simp [unpack, hn]
  rw [hu]
  apply enterState_error
  simp only [hent]
  apply runCbs_first_error
  exact runSends_two d _ s1 s2 rest l1 l2 t1 t2 rfl h1 h2

/-- non-vacuity: entering `B` sends two Gotos -/
example :
    let d : Def := { states := ["A", "B"], events := ["go"], trans := [("go", none, some "B")], timed := [],
                     chainLimit := 6, enterM := [("B", [⟨.goto "A", []⟩, ⟨.goto "B", []⟩])] }
    (ctxEvent d { state := some "A", output := .str "A" } (.ev "go") []).2.1 = .errMultiple := by
  decide


/-- `chained_invisible`: of an accepted top-level event other blocks see, state-wise, exactly
    this, however many intermediate states were passed through: the on_exit event of the OLD state
    with the old output (initialised FSM only), at most one on_output event (old output -> the
    output calc_output gives for the FINAL state), the on_enter event of the FINAL state with the new
    output — "from an external view the S1 -> S2 -> S3 transition looks like a straightforward
    S1 -> S3 transition" (docs/FSM.rst) -/
theorem chained_invisible (d : Def) (f : Fsm) (e : EType) (data : Data)
    (ha : f.active = false) (hn : f.next = none)
    (hacc : (ctxEvent d f e data).2.1 = .accepted) :
    ∃ s, (ctxEvent d f e data).1.state = some s ∧
      (ctxEvent d f e data).2.2.filter Action.stateEvent =
        (match f.state with
          | some s0 => if f.output.isUndef then [] else [Action.onExit s0 f.output]
          | none => [])
        ++ (setOutput f (calcOutput d s)).2 ++ [.onEnter s (ctxEvent d f e data).1.output] := by
  obtain ⟨s, mid, hs, ho, hmid, hlog⟩ := action_order d f e data ha hn hacc
  refine ⟨s, hs, ?_⟩
  rw [hlog, ho]
  simp only [List.filter_append]
  rw [filter_stateEvent_quiet _ (check_quiet d f e data), leaveLog_stateEvents,
    filter_stateEvent_internal mid hmid, setOutput_stateEvents]
  have h1 : ∀ v, List.filter Action.stateEvent [Action.onEnter s v] = [Action.onEnter s v] := fun _ => rfl
  simp [h1]
  cases f.state <;> rfl

/-- `chained_invisible`, second half — "its exit action runs": a pass of the chain loop that
    starts with a pending request (i.e. the state entered by the previous pass is an intermediate
    state) first runs the exit action(s) of that state, reading the data of the CHAINED event,
    and then assigns the requested state -/
theorem chained_exit_runs (d : Def) (n : Nat) (f : Fsm) (cur nx : Req) (s : State)
    (hn : f.next = some nx) (hs : f.state = some s) :
    ∃ rest, (loop d (n + 1) f cur).2.2 =
      (exitsOf d s).map (fun w => Action.exit w s nx.data) ++ Action.setState nx.target :: rest := by
  rw [loop_succ]
  have hu : unpack f cur = nx := by simp [unpack, hn]
  have hl : unpackLog d f = exitLog d s nx.data := by simp [unpackLog, hn, hs]
  rw [hu, hl]
  obtain ⟨⟨rest, hlog, _⟩, _⟩ := enterState_log d f nx (exitLog d s nx.data ++ [Action.setState nx.target])
  rcases he : enterState d f nx (exitLog d s nx.data ++ [Action.setState nx.target]) with ⟨f1, st, l⟩
  rw [he] at hlog
  simp only at hlog
  cases st with
  | fail r => exact ⟨rest, by simp [hlog, exitLog]⟩
  | done => exact ⟨rest, by simp [hlog, exitLog]⟩
  | again => exact ⟨rest ++ (loop d n f1 nx).2.2, by simp [hlog, exitLog]⟩

/-- a complete chained transition A -(go)-> B -(nxt, sent by enter_B)-> C: what is logged and
    what is not (no on_exit/on_enter/on_output for B; exit_B and enter_C read the data of `nxt`) -/
example :
    let d : Def := { states := ["A", "B", "C"], events := ["go", "nxt"],
                     trans := [("go", some "A", some "B"), ("nxt", some "B", some "C")], timed := [],
                     chainLimit := 9, condM := [("nxt", .item "ok")],
                     enterM := [("B", [⟨.ev "nxt", [("ok", .bool true), ("tag", .str "d2")]⟩]), ("C", [])],
                     exitM := ["A", "B", "C"] }
    ctxEvent d { state := some "A", output := .str "A" } (.ev "go") [("tag", .str "d1")] =
      ({ state := some "C", output := .str "C" }, .accepted,
       [.exit .meth "A" [("tag", .str "d1")], .onExit "A" (.str "A"), .stopTimer,
        .setState "B", .enter .meth "B" [("tag", .str "d1")],
        .send (.ev "nxt") [("ok", .bool true), ("tag", .str "d2")],
        .cond .meth "nxt" [("ok", .bool true), ("tag", .str "d2")], .sendRet true,
        .exit .meth "B" [("ok", .bool true), ("tag", .str "d2")],
        .setState "C", .enter .meth "C" [("ok", .bool true), ("tag", .str "d2")],
        .output (.str "A") (.str "C"), .onEnter "C" (.str "C")]) := by
  decide

/-- an endless chain (enter_B requests B again) ends with the chain-limit error after exactly
    `chainLimit` entries -/
example :
    let d : Def := { states := ["A", "B"], events := ["go"], trans := [("go", none, some "B")], timed := [],
                     chainLimit := 6, enterF := [("B", [⟨.goto "B", []⟩])] }
    (ctxEvent d { state := some "A", output := .str "A" } (.ev "go") []).2.1 = .errChain ∧
    (ctxEvent d { state := some "A", output := .str "A" } (.ev "go") []).2.2.countP Action.isSet = 6 := by
  decide

/-! ### event data read through `fsm_event_data` -/

/-- `action_reads_causing_event`: the log of every top-level event — any definition, state, event,
    data; accepted, rejected or ended by an exception; with any number of chained transitions —
    is accepted by the definition-independent checker `attrRun` (EdzedProofs/Fsm.lean):
    every condition reads the data of the event whose acceptance it decides, every exit action the
    data of the event that makes the FSM leave that state (for an intermediate state: the chained
    event), every entry action the data of the event that caused the entry. -/
theorem action_reads_causing_event (d : Def) (f : Fsm) (e : EType) (data : Data)
    (ha : f.active = false) (hn : f.next = none) :
    (attrRun ⟨data, none, none⟩ (ctxEvent d f e data).2.2).isSome = true :=
  attr_ctxEvent d f e data ha hn

/-- the checker is not vacuous: the log the UNREPAIRED code produces for a chained transition
    (exit_B and enter_C still reading the first event's data `d1`) is refused … -/
example :
    attrRun ⟨[("tag", .str "d1")], none, none⟩
      [.setState "B", .enter .meth "B" [("tag", .str "d1")], .send (.ev "nxt") [("tag", .str "d2")],
       .cond .meth "nxt" [("tag", .str "d2")], .sendRet true,
       .exit .meth "B" [("tag", .str "d1")], .setState "C", .enter .meth "C" [("tag", .str "d1")]] = none := by
  decide

/-- … and so is an entry action of the final state alone reading stale data -/
example :
    attrRun ⟨[("tag", .str "d1")], none, none⟩
      [.setState "B", .enter .meth "B" [("tag", .str "d1")], .send (.goto "C") [("tag", .str "d2")],
       .sendRet true, .setState "C", .enter .meth "C" [("tag", .str "d1")]] = none := by
  decide

/-! ### the tables of the library FSMs, generated from the source on every run -/

/-- the control tables of `Timer` extracted from the current code are exactly what the model's
    `buildTables` makes of them: consistent (no duplicate key, targets and timed events declared),
    same event set, chain limit `3 * |states|` -/
theorem timer_tables_consistent :
    ∃ t, buildTables (genSpec Gen.timerStates Gen.timerTrans Gen.timerTimed) = .ok t ∧
      t.states = Gen.timerStates ∧ t.events = Gen.timerEvents ∧ t.trans = Gen.timerTrans ∧
      t.chainLimit = Gen.timerChainLimit ∧ Gen.timerStates.contains Gen.timerDefault = true :=
  ⟨_, rfl, by decide, by decide, by decide, by decide, by decide⟩

theorem inputexp_tables_consistent :
    ∃ t, buildTables (genSpec Gen.inputExpStates Gen.inputExpTrans Gen.inputExpTimed) = .ok t ∧
      t.states = Gen.inputExpStates ∧ t.events = Gen.inputExpEvents ∧ t.trans = Gen.inputExpTrans ∧
      t.chainLimit = Gen.inputExpChainLimit ∧ Gen.inputExpStates.contains Gen.inputExpDefault = true :=
  ⟨_, rfl, by decide, by decide, by decide, by decide, by decide⟩

/-- `Timer` never answers "no transition": every event has a target in every state, and every
    target is a state (decided over the whole generated table) -/
theorem timer_table_total :
    ∀ e ∈ Gen.timerEvents, ∀ s ∈ Gen.timerStates,
      ∃ t ∈ Gen.timerStates,
        lookup { states := Gen.timerStates, events := Gen.timerEvents, trans := Gen.timerTrans,
                 timed := [], chainLimit := Gen.timerChainLimit } e s = some t := by
  decide

theorem inputexp_table_total :
    ∀ e ∈ Gen.inputExpEvents, ∀ s ∈ Gen.inputExpStates,
      ∃ t ∈ Gen.inputExpStates,
        lookup { states := Gen.inputExpStates, events := Gen.inputExpEvents, trans := Gen.inputExpTrans,
                 timed := [], chainLimit := Gen.inputExpChainLimit } e s = some t := by
  decide

/-- the general result instantiated on the generated `Timer` tables: whatever conditions, entry
    and exit actions, outputs and initial state an instance has, after the initialisation and any
    sequence of events (table events, Goto, unknown ones) its state is one of the extracted states -/
theorem timer_state_in_states (t : Tables)
    (hb : buildTables (genSpec Gen.timerStates Gen.timerTrans Gen.timerTimed) = .ok t)
    (scr : Scripts) (initdef : State) (evs : List (EType × Data)) :
    ∀ s, (run { toTables := t, toScripts := scr }
            (init { toTables := t, toScripts := scr } initdef).1 evs).1.state = some s →
      s ∈ Gen.timerStates := by
  intro s hs
  have h := state_in_states_run _ t hb scr initdef evs s hs
  obtain ⟨t', hb', hst, _⟩ := timer_tables_consistent
  rw [hb] at hb'
  cases hb'
  rw [← hst]; exact h


/-! ### the hypotheses above are satisfiable -/

/-- a turnstile with a condition on `coin`: rejected by a false condition (all conditions are
    called), rejected without a transition (on_notrans), accepted otherwise -/
example :
    let d : Def := { states := ["locked", "unlocked"], events := ["coin", "push"],
                     trans := [("coin", some "locked", some "unlocked"), ("push", some "unlocked", some "locked")],
                     timed := [], chainLimit := 6,
                     condF := [("coin", .item "ok")], condM := [("coin", .const (.bool true))] }
    let f : Fsm := { state := some "locked", output := .str "locked" }
    ctxEvent d f (.ev "coin") [("ok", .int 0)] =
      (f, .rejected, [.cond .func "coin" [("ok", .int 0)], .cond .meth "coin" [("ok", .int 0)]]) ∧
    ctxEvent d f (.ev "push") [] = (f, .rejected, [.notrans "push" "locked"]) ∧
    (ctxEvent d f (.ev "coin") [("ok", .int 1)]).2.1 = .accepted ∧
    (ctxEvent d f (.ev "coin") [("ok", .int 1)]).1 = { state := some "unlocked", output := .str "unlocked" } ∧
    ctxEvent d f (.ev "kick") [] = (f, .unknownEvent, []) ∧
    f.active = false ∧ f.next = none := by
  decide

end Edzed.Fsm

/-! ## Tie by translation

`FSM._ctx_event` is translated from the CURRENT Python source on every check into the program
`Gen.TrM.ctxEvent` (lean/EdzedModel/Gen/TranslatedFsm.lean, generator tools/py2lean_fsm.py -- the same generated
program that C04 ties to its timer model): statement order, conditions, early returns, raises, `try/finally`,
the `for … else` loop with `continue`/`break` and the arguments of every call come from the AST; each call or
lookup the method makes is a field of `FsmPrims`.  `F03.prims d` (EdzedProofs/FsmTie03.lean) instantiates these
fields with the operations of THIS model (`tget`, `condsOf`/`condLog`, `exitLog`, `runCbs`, `nested`,
`calcOutput`, `setOutput`, …) over the block `F03.TS` = (`Fsm`, the context variable `fsm_event_data`, the log so
far, `_enable_event`).  The callbacks read the event data from the context variable, which only the translated
program sets; the model passes the data explicitly.  The theorems say that the translated method computes
exactly the model's `ctxEvent` (event from outside) and `nested` (recursive call while `_fsm_event_active`):
same block afterwards, same ordered log with the same data read by every action, same return value / exception
class.  A semantic edit of the method changes the generated program and these theorems stop compiling. -/

namespace Edzed.TrTie
open Edzed.Fsm Edzed.Gen.TrM F03

/-- the recursive call (`self.event()` from an entry action or from `_start_timer` of a zero-duration state,
    `_fsm_event_active` set): the translated method = the model's `nested` — unknown event, missing state,
    table lookup with the specific rule first and no fall-through of a stored None, on_notrans, conditions only
    when initialised (all of them, reading the data of THIS call), Goto with `_check_state`, the multiplication
    error and the posting of `_next_event` -/
theorem translated_fsm03_post_is_model (d : Def) (t : TS) (e : EType) (data : Data)
    (ha : t.f.active = true) :
    view (Gen.TrM.ctxEvent (prims d) e data t) =
      ((nested d t.f e data).1, t.log ++ (nested d t.f e data).2.2, flowOf (nested d t.f e data).2.1) := by
  obtain ⟨f, ctx, log, en⟩ := t
  simp only at ha
  cases e with
  | goto q =>
    unfold Gen.TrM.ctxEvent ctxEventBody
    by_cases hq : q ∈ d.states <;> cases hn : f.next <;>
      t3simp [view, nested, check, flowOf, hq, ha, hn]
  | ev n =>
    unfold Gen.TrM.ctxEvent ctxEventBody
    by_cases hev : n ∈ d.events
    rotate_left
    · t3simp [view, nested, check, flowOf, hev, ha]
    · cases hst : f.state with
      | none => t3simp [view, nested, check, flowOf, hev, ha, hst]
      | some cur =>
        have fin : ∀ (o : Option State), lookup d.toTables n cur = o →
            ((tget d.trans n (some cur) = some o ∧ True) ∨
              (tget d.trans n (some cur) = none ∧ (tget d.trans n none).getD none = o)) := by
          intro o ho
          unfold lookup at ho
          cases h1 : tget d.trans n (some cur) with
          | some x => rw [h1] at ho; exact .inl ⟨by rw [← ho], trivial⟩
          | none =>
            rw [h1] at ho
            refine .inr ⟨rfl, ?_⟩
            cases h0 : tget d.trans n none with
            | some x => rw [h0] at ho; simpa using ho
            | none => rw [h0] at ho; simpa using ho
        cases ho : lookup d.toTables n cur with
        | none =>
          rcases fin _ ho with ⟨h1, h0⟩ | ⟨h1, h0⟩ <;>
            t3simp [view, nested, check, flowOf, hev, ha, hst, h1, h0, ho]
        | some q =>
          cases hu : f.output.isUndef with
          | true =>
            rcases fin _ ho with ⟨h1, h0⟩ | ⟨h1, h0⟩ <;> cases hn : f.next <;>
              t3simp [view, nested, check, flowOf, hev, ha, hst, h1, h0, ho, hu, hn]
          | false =>
            by_cases hall : (condsOf d n).all (fun c => (c.2.eval data).truthy) = true <;>
              rcases fin _ ho with ⟨h1, h0⟩ | ⟨h1, h0⟩ <;> cases hn : f.next <;>
              t3simp [view, nested, check, flowOf, hev, ha, hst, h1, h0, ho, hu, hn, hall]


/-- one pass of the translated loop body = the model's `iter`: unpacking of `_next_event` (context variable set
    to the chained event's data BEFORE the exit action of the intermediate state), state assignment, entry
    action, `continue`, timer start, `continue` / `break`, exceptions -/
theorem translated_fsm03_round (d : Def) (t : TS) (loc : Loc EType Data State) (cur : Req)
    (hen : t.enabled = false)
    (hq : t.f.next = none → loc.v3 = some cur.target ∧ loc.v1 = cur.data ∧ t.ctx = cur.data) :
    (ctxEventLoop0 (prims d) (t, loc)).1.1.f = (iter d t.f cur).1 ∧
    (ctxEventLoop0 (prims d) (t, loc)).1.1.log = t.log ++ (iter d t.f cur).2.2.2 ∧
    (ctxEventLoop0 (prims d) (t, loc)).1.1.enabled = false ∧
    RoundEnds (iter d t.f cur).2.2.1 (ctxEventLoop0 (prims d) (t, loc)).2 ∧
    (ctxEventLoop0 (prims d) (t, loc)).1.2.v1 = (iter d t.f cur).2.1.data ∧
    (ctxEventLoop0 (prims d) (t, loc)).1.2.v3 = some (iter d t.f cur).2.1.target ∧
    (ctxEventLoop0 (prims d) (t, loc)).1.1.ctx = (iter d t.f cur).2.1.data := by
  obtain ⟨⟨st, out, act, nx⟩, ctx, log, en⟩ := t
  simp only at hen hq
  subst hen
  unfold ctxEventLoop0
  cases nx with
  | none =>
    obtain ⟨h3, h1, hc⟩ := hq rfl
    obtain ⟨v0, v1, v2, v3⟩ := loc
    simp only at h3 h1
    subst h3 h1 hc
    t3simp [iter, enterState, unpack, unpackLog]
    round_tail03 d (runCbs d cur.target cur.data { state := some cur.target, output := out, active := act } (entersOf d cur.target)) cur.target
  | some x =>
    obtain ⟨e', d', q'⟩ := x
    cases st with
    | none =>
      t3simp [iter, enterState, unpack, unpackLog]
      round_tail03 d (runCbs d q' d' { state := some q', output := out, active := act } (entersOf d q')) q'
    | some s0 =>
      t3simp [iter, enterState, unpack, unpackLog]
      round_tail03 d (runCbs d q' d' { state := some q', output := out, active := act } (entersOf d q')) q'


/-- the translated `for _ in range(self._ct_chainlimit): … else: raise …` = the model's `loop`, by induction
    on the count -/
theorem translated_fsm03_loop (d : Def) : ∀ (n : Nat) (t : TS) (loc : Loc EType Data State) (cur : Req),
    t.enabled = false →
    (t.f.next = none → loc.v3 = some cur.target ∧ loc.v1 = cur.data ∧ t.ctx = cur.data) →
    (forRange (ctxEventLoop0 (prims d)) (Gen.TrM.raise ((prims d).exc "EdzedCircuitError")) n (t, loc)).1.1.f
      = (loop d n t.f cur).1 ∧
    (forRange (ctxEventLoop0 (prims d)) (Gen.TrM.raise ((prims d).exc "EdzedCircuitError")) n (t, loc)).1.1.log
      = t.log ++ (loop d n t.f cur).2.2 ∧
    (forRange (ctxEventLoop0 (prims d)) (Gen.TrM.raise ((prims d).exc "EdzedCircuitError")) n (t, loc)).1.1.enabled
      = false ∧
    LoopEnds (loop d n t.f cur).2.1
      (forRange (ctxEventLoop0 (prims d)) (Gen.TrM.raise ((prims d).exc "EdzedCircuitError")) n (t, loc)).2 := by
  intro n
  induction n with
  | zero =>
    intro t loc cur hen _
    simp [forRange, Gen.TrM.raise, loop, LoopEnds, prims_exc, excOf, excOfRes, hen]
  | succ n ih =>
    intro t loc cur hen hq
    obtain ⟨h1, h2, h3, h4, h5, h6, h7⟩ := translated_fsm03_round d t loc cur hen hq
    unfold forRange loop
    generalize ctxEventLoop0 (prims d) (t, loc) = R at h1 h2 h3 h4 h5 h6 h7 ⊢
    generalize iter d t.f cur = I at h1 h2 h4 h5 h6 h7 ⊢
    obtain ⟨⟨t1, loc1⟩, fl⟩ := R
    obtain ⟨f1, cur', st, l⟩ := I
    simp only at h1 h2 h3 h4 h5 h6 h7
    cases st with
    | fail r =>
      simp only [RoundEnds] at h4
      subst h4
      simp [h1, h2, h3, LoopEnds]
    | done =>
      simp only [RoundEnds] at h4
      subst h4
      simp [h1, h2, h3, LoopEnds]
    | again =>
      simp only [RoundEnds] at h4
      subst h4
      obtain ⟨i1, i2, i3, i4⟩ := ih t1 loc1 cur' h3 (fun _ => ⟨h6, h5, h7⟩)
      simp only
      rw [h1] at i1 i2 i4
      refine ⟨i1, ?_, i3, i4⟩
      rw [i2, h2, List.append_assoc]


/-- the `try:` block of `_ctx_event` (exit action, on_exit, timer stop, assertion, chain loop, output,
    on_enter) = the model's `leaveLog` followed by `transition`, up to the `finally:` clause -/
theorem translated_fsm03_try (d : Def) (f : Fsm) (e : EType) (data : Data) (tgt : State)
    (log0 : List Action) (loc : Loc EType Data State) (hv3 : loc.v3 = some tgt) (hv1 : loc.v1 = data)
    (hn : f.next = none) (hinit : f.output.isUndef = false → f.state ≠ none) :
    { (ctxEventTry0 (prims d) (⟨{ f with active := true }, data, log0, false⟩, loc)).1.1.f with active := false }
      = (transition d f e data tgt).1 ∧
    (ctxEventTry0 (prims d) (⟨{ f with active := true }, data, log0, false⟩, loc)).1.1.log
      = log0 ++ leaveLog d f data ++ (transition d f e data tgt).2.2 ∧
    (ctxEventTry0 (prims d) (⟨{ f with active := true }, data, log0, false⟩, loc)).2
      = flowOf (transition d f e data tgt).2.1 := by
  unfold ctxEventTry0
  -- exit action, on_exit events, `_stop_timer()`
  rw [seq_next (sl1 := (⟨{ f with active := true }, data, log0 ++ leaveLog d f data, false⟩, loc))]
  rotate_left
  · cases hu : f.output.isUndef with
    | true => cases hs : f.state <;> t3simp [leaveLog, hu, hs]
    | false =>
      cases hs : f.state with
      | none => exact absurd hs (hinit hu)
      | some s0 => t3simp [leaveLog, hu, hs]
  -- `assert self._next_event is None`
  rw [seq_next (sl1 := (⟨{ f with active := true }, data, log0 ++ leaveLog d f data, false⟩, loc))]
  rotate_left
  · t3simp [hn]
  -- the chain loop
  obtain ⟨i1, i2, i3, i4⟩ := translated_fsm03_loop d d.chainLimit
    ⟨{ f with active := true }, data, log0 ++ leaveLog d f data, false⟩ loc ⟨e, data, tgt⟩ rfl
    (fun _ => ⟨hv3, hv1, rfl⟩)
  have hp := loop_props d d.chainLimit { f with active := true } ⟨e, data, tgt⟩
  have hforN : ∀ (body orelse : Stmt (TS × Loc EType Data State) Exc Bool),
      forN (fun sl => (prims d).chainLimit sl.1) body orelse
        (⟨{ f with active := true }, data, log0 ++ leaveLog d f data, false⟩, loc)
      = forRange body orelse d.chainLimit
        (⟨{ f with active := true }, data, log0 ++ leaveLog d f data, false⟩, loc) := fun _ _ => rfl
  unfold transition
  simp only at i1 i2 i3 i4
  generalize hR : forRange (ctxEventLoop0 (prims d)) (Gen.TrM.raise ((prims d).exc "EdzedCircuitError"))
    d.chainLimit (⟨{ f with active := true }, data, log0 ++ leaveLog d f data, false⟩, loc) = R at i1 i2 i3 i4
  generalize loop d d.chainLimit { f with active := true } ⟨e, data, tgt⟩ = M at i1 i2 i4 hp ⊢
  obtain ⟨⟨⟨f1, ctx1, log1, en1⟩, loc1⟩, fl⟩ := R
  obtain ⟨fm, rm, lm⟩ := M
  simp only at i1 i2 i3 i4 hp
  subst i1 i2 i3
  cases rm with
  | some r =>
    simp only [LoopEnds] at i4
    subst i4
    rw [seq_stop (sl1 := (⟨f1, ctx1, _, false⟩, loc1)) (f := Flow.raise (excOfRes r))
      (by rw [hforN]; exact hR) (by simp)]
    simp [flowOf_error r (hp.2.2.2 r rfl)]
  | none =>
    simp only [LoopEnds] at i4
    subst i4
    rw [seq_next (sl1 := (⟨f1, ctx1, _, false⟩, loc1)) (by rw [hforN]; exact hR)]
    obtain ⟨hnx, hst⟩ := hp.2.2.1 rfl
    cases hs : f1.state with
    | none => rw [hs] at hst; cases hst
    | some s =>
      have hk := setOutput_keeps f1 (Fsm.calcOutput d s)
      cases hu : (Fsm.calcOutput d s).isUndef with
      | true =>
        have : Fsm.setOutput f1 (Fsm.calcOutput d s) = (f1, []) := by simp [Fsm.setOutput, hu]
        t3simp [hs, hu, this, flowOf]
      | false => t3simp [hs, hu, hk.1, flowOf]


/-- … and with a stale `_next_event` (left behind by an exception inside an entry action): the assertion
    after the exit action fails -/
theorem translated_fsm03_try_stale (d : Def) (f : Fsm) (data : Data) (x : Req)
    (log0 : List Action) (loc : Loc EType Data State)
    (hn : f.next = some x) (hinit : f.output.isUndef = false → f.state ≠ none) :
    (ctxEventTry0 (prims d) (⟨{ f with active := true }, data, log0, false⟩, loc)).1.1.f
      = { f with active := true } ∧
    (ctxEventTry0 (prims d) (⟨{ f with active := true }, data, log0, false⟩, loc)).1.1.log
      = log0 ++ leaveLog d f data ∧
    (ctxEventTry0 (prims d) (⟨{ f with active := true }, data, log0, false⟩, loc)).2
      = Flow.raise Exc.assertion := by
  unfold ctxEventTry0
  rw [seq_next (sl1 := (⟨{ f with active := true }, data, log0 ++ leaveLog d f data, false⟩, loc))]
  rotate_left
  · cases hu : f.output.isUndef with
    | true => cases hs : f.state <;> t3simp [leaveLog, hu, hs]
    | false =>
      cases hs : f.state with
      | none => exact absurd hs (hinit hu)
      | some s0 => t3simp [leaveLog, hu, hs]
  rw [seq_stop (sl1 := (⟨{ f with active := true }, data, log0 ++ leaveLog d f data, false⟩, loc))
    (f := Flow.raise Exc.assertion) (by t3simp [hn]) (by simp)]
  exact ⟨rfl, rfl, rfl⟩

/-- **the tie**: `FSM._ctx_event`, as translated from the current source, run on the operations of the C03
    model for an event arriving from outside (`_fsm_event_active` clear) computes exactly the model's
    `ctxEvent`: the block afterwards, the ordered log of actions and events (each with the event data it read
    through `fsm_event_data`), and the value returned / the class of the exception -/
theorem translated_fsm03_ctx_event_is_model (d : Def) (f : Fsm) (e : EType) (data ctx0 : Data)
    (log0 : List Action) (ha : f.active = false)
    (hinit : f.output.isUndef = false → f.state ≠ none) :
    view (Gen.TrM.ctxEvent (prims d) e data ⟨f, ctx0, log0, false⟩) =
      ((Fsm.ctxEvent d f e data).1, log0 ++ (Fsm.ctxEvent d f e data).2.2,
        flowOf (Fsm.ctxEvent d f e data).2.1) := by
  -- what happens once the first half has passed with target `tgt`, having logged `l`
  have tail : ∀ (l : List Action) (tgt : State) (loc : Loc EType Data State),
      loc.v3 = some tgt → loc.v1 = data → check d f e data = (l, .ok tgt) →
      ({ (ctxEventTry0 (prims d) (⟨{ f with active := true }, data, log0 ++ l, false⟩, loc)).1.1.f
          with active := false },
       (ctxEventTry0 (prims d) (⟨{ f with active := true }, data, log0 ++ l, false⟩, loc)).1.1.log,
       (ctxEventTry0 (prims d) (⟨{ f with active := true }, data, log0 ++ l, false⟩, loc)).2) =
      ((Fsm.ctxEvent d f e data).1, log0 ++ (Fsm.ctxEvent d f e data).2.2,
        flowOf (Fsm.ctxEvent d f e data).2.1) := by
    intro l tgt loc h3 h1 hc
    cases hn : f.next with
    | none =>
      rw [ctxEvent_check_ok d f e data l tgt hc ha hn]
      obtain ⟨a, b, c⟩ := translated_fsm03_try d f e data tgt (log0 ++ l) loc h3 h1 hn hinit
      rw [hn] at a b c
      simp only [a, b, c]
      simp [List.append_assoc]
    | some x =>
      rw [ctxEvent_stale_next d f e data l tgt x hc ha hn]
      obtain ⟨a, b, c⟩ := translated_fsm03_try_stale d f data x (log0 ++ l) loc hn hinit
      rw [hn] at a b c
      simp only [a, b, c]
      simp [List.append_assoc, flowOf]
      cases f; simp_all
  cases e with
  | goto q =>
    unfold Gen.TrM.ctxEvent ctxEventBody
    by_cases hq : q ∈ d.states
    · have hc : check d f (.goto q) data = ([], .ok q) := by simp [check, hq]
      have := tail [] q ⟨.goto q, data, data, some q⟩ rfl rfl hc
      t3simp [view, hq, ha]
      simpa [view] using this
    · t3simp [view, Fsm.ctxEvent, nested, check, flowOf, hq, ha]
  | ev n =>
    by_cases hev : n ∈ d.events
    rotate_left
    · unfold Gen.TrM.ctxEvent ctxEventBody
      t3simp [view, Fsm.ctxEvent, nested, check, flowOf, hev, ha]
    · cases hst : f.state with
      | none =>
        unfold Gen.TrM.ctxEvent ctxEventBody
        t3simp [view, Fsm.ctxEvent, nested, check, flowOf, hev, ha, hst]
      | some cur =>
        have fin : ∀ (o : Option State), lookup d.toTables n cur = o →
            ((tget d.trans n (some cur) = some o ∧ True) ∨
              (tget d.trans n (some cur) = none ∧ (tget d.trans n none).getD none = o)) := by
          intro o ho
          unfold lookup at ho
          cases h1 : tget d.trans n (some cur) with
          | some x => rw [h1] at ho; exact .inl ⟨by rw [← ho], trivial⟩
          | none =>
            rw [h1] at ho
            refine .inr ⟨rfl, ?_⟩
            cases h0 : tget d.trans n none with
            | some x => rw [h0] at ho; simpa using ho
            | none => rw [h0] at ho; simpa using ho
        cases ho : lookup d.toTables n cur with
        | none =>
          unfold Gen.TrM.ctxEvent ctxEventBody
          rcases fin _ ho with ⟨h1, h0⟩ | ⟨h1, h0⟩ <;>
            t3simp [view, Fsm.ctxEvent, nested, check, flowOf, hev, ha, hst, h1, h0, ho]
        | some q =>
          cases hu : f.output.isUndef with
          | true =>
            have hc : check d f (.ev n) data = ([], .ok q) := by simp [check, hev, hst, ho, hu]
            have := tail [] q ⟨.ev n, data, data, some q⟩ rfl rfl hc
            unfold Gen.TrM.ctxEvent ctxEventBody
            rcases fin _ ho with ⟨h1, h0⟩ | ⟨h1, h0⟩ <;>
              (t3simp [view, hev, ha, hst, h1, h0, hu]; simpa [view, hst] using this)
          | false =>
            by_cases hall : (condsOf d n).all (fun c => (c.2.eval data).truthy) = true
            · have hc : check d f (.ev n) data = (condLog d n data, .ok q) := by
                simp [check, hev, hst, ho, hu, hall]
              have := tail (condLog d n data) q ⟨.ev n, data, data, some q⟩ rfl rfl hc
              unfold Gen.TrM.ctxEvent ctxEventBody
              rcases fin _ ho with ⟨h1, h0⟩ | ⟨h1, h0⟩ <;>
                (t3simp [view, hev, ha, hst, h1, h0, hu, hall]; simpa [view, hst] using this)
            · unfold Gen.TrM.ctxEvent ctxEventBody
              rcases fin _ ho with ⟨h1, h0⟩ | ⟨h1, h0⟩ <;>
                t3simp [view, Fsm.ctxEvent, nested, check, flowOf, hev, ha, hst, h1, h0, ho, hu, hall]


/-- the hypotheses of `translated_fsm03_ctx_event_is_model` hold in every state a block can reach: after the
    initialisation and any sequence of events whatsoever an initialised FSM has a state; and after any sequence
    that raised no exception `_fsm_event_active` is clear and no request is pending (`flags_released_run`) -/
theorem translated_fsm03_tie_hypotheses_hold_when_reachable (d : Def) (initdef : State)
    (evs : List (EType × Data)) :
    (run d (init d initdef).1 evs).1.output.isUndef = false → (run d (init d initdef).1 evs).1.state ≠ none :=
  run_hasState d _ evs (ctxEvent_hasState d Fsm.fresh (.goto initdef) [] (by intro h; simp [Fsm.fresh, Val.isUndef] at h))

/-- what the tie gives for the clause "every condition, entry and exit action reads the data of the event that
    caused it": the log written by the TRANSLATED method (callbacks reading the context variable that the
    translated `fsm_event_data.set(…)` calls maintain) is accepted by the definition-independent checker
    `attrRun` -/
theorem translated_fsm03_actions_read_causing_event (d : Def) (f : Fsm) (e : EType) (data ctx0 : Data)
    (ha : f.active = false) (hn : f.next = none) (hinit : f.output.isUndef = false → f.state ≠ none) :
    (attrRun ⟨data, none, none⟩ (Gen.TrM.ctxEvent (prims d) e data ⟨f, ctx0, [], false⟩).1.log).isSome = true := by
  have h := translated_fsm03_ctx_event_is_model d f e data ctx0 [] ha hinit
  simp only [view, Prod.mk.injEq, List.nil_append] at h
  rw [h.2.1]
  exact action_reads_causing_event d f e data ha hn

/-- non-vacuity: the chained transition A -(go)-> B -(nxt, sent by enter_B)-> C evaluated through the translated
    method: it agrees with the model, ends in C, and the exit action of the intermediate state B as well as the
    entry action of C read the data of `nxt` (`d2`), not of `go` (`d1`) -/
def ex03 : Def :=
  { states := ["A", "B", "C"], events := ["go", "nxt"],
    trans := [("go", some "A", some "B"), ("nxt", some "B", some "C")], timed := [],
    chainLimit := 9, condM := [("nxt", .item "ok")],
    enterM := [("B", [⟨.ev "nxt", [("ok", .bool true), ("tag", .str "d2")]⟩]), ("C", [])],
    exitM := ["A", "B", "C"] }

example :
    (fun r => (r.1, r.2.1, retOf r.2.2)) (view (Gen.TrM.ctxEvent (prims ex03) (.ev "go") [("tag", .str "d1")]
        ⟨{ state := some "A", output := .str "A" }, [], [], false⟩)) =
      ({ state := some "C", output := .str "C" },
       [.exit .meth "A" [("tag", .str "d1")], .onExit "A" (.str "A"), .stopTimer,
        .setState "B", .enter .meth "B" [("tag", .str "d1")],
        .send (.ev "nxt") [("ok", .bool true), ("tag", .str "d2")],
        .cond .meth "nxt" [("ok", .bool true), ("tag", .str "d2")], .sendRet true,
        .exit .meth "B" [("ok", .bool true), ("tag", .str "d2")],
        .setState "C", .enter .meth "C" [("ok", .bool true), ("tag", .str "d2")],
        .output (.str "A") (.str "C"), .onEnter "C" (.str "C")],
       some true) := by
  decide +kernel

/-- … and the recursive call itself: `self.event('nxt', …)` while `_fsm_event_active` posts the request -/
example :
    (fun r => (r.1, r.2.1, retOf r.2.2))
      (view (Gen.TrM.ctxEvent (prims ex03) (.ev "nxt") [("ok", .bool true), ("tag", .str "d2")]
        ⟨{ state := some "B", output := .str "A", active := true }, [("tag", .str "d1")], [], true⟩)) =
      ({ state := some "B", output := .str "A", active := true,
         next := some ⟨.ev "nxt", [("ok", .bool true), ("tag", .str "d2")], "C"⟩ },
       [.cond .meth "nxt" [("ok", .bool true), ("tag", .str "d2")]], some true) := by
  decide +kernel


/-! ## Tie by translation, second part: the tables, the callbacks, the events, the context copy

`FSM._check_state`, `_build_tables` (with `add_transition`), `__init__`, `_send_events`, `_run_cb` and `_event` are
translated from the current source by tools/py2lean_fsmtables.py into programs of lean/EdzedModel/Gen/
TranslatedFsmTables.lean (namespace `Gen.TrFT`): a monad with the class / instance attributes as state,
exceptions, `return`, `break` / `continue`; dicts, sets and defaultdicts are association lists; what the
methods call outside themselves is a field of `Prims`.  The proofs are in EdzedProofs/FsmTablesTie.lean. -/

section tables
open FT Gen.TrFT
variable {δ Du κ α ε χ η : Type}

/-- **the tables**: for every class definition a user can write (STATES a sequence of names; EVENTS rules with
    from-states None / `'a | b'` / a sequence, targets a name or None; TIMERS with event names or Goto), provided no
    name is refused by `check_name`, no event name is an SBlock event and the TIMERS durations are well-formed,
    the translated `_build_tables` fails (ValueError) exactly when the model's `buildTables` refuses the
    definition, and otherwise produces the model's tables: `_ct_states`, `_ct_events`, `_ct_transition` (same
    keys incl. the any-state key None and the forbidding targets None, same insertion order), `_ct_chainlimit`,
    and in addition `_ct_timed_event`, the collected `cond_/enter_/exit_` methods (`collectStep`: the attribute
    name is split at the FIRST `_`, the kind must be one of the three, the rest an event resp. a state, the
    attribute callable) and the `_ct_prefixes` rows that `__init__` uses -/
theorem translated_fsm03_tables_build_is_model (p : Prims δ Du κ α ε χ η) (zero : δ → Bool)
    (o : Obj δ Du κ α ε χ) (sts : List String) (hS : o.STATES = .seq sts)
    (hcn : ∀ n w, p.checkName n w = .ok ())
    (hh : ∀ r ∈ o.EVENTS, dhas o.ctHandlers r.1 = false)
    (hper : ∀ t ∈ o.TIMERS, ∃ du, p.timePeriod t.2.1 = .ok du) :
    match Fsm.buildTables (specOf p zero o sts) with
    | .error _ => (Gen.TrFT.buildTables p o).2 = .raise "ValueError"
    | .ok t =>
      (Gen.TrFT.buildTables p o).2 = .next () ∧
      (Gen.TrFT.buildTables p o).1.ctStates = t.states ∧
      (Gen.TrFT.buildTables p o).1.ctEvents = t.events ∧
      trOf (Gen.TrFT.buildTables p o).1.ctTransition = t.trans ∧
      (Gen.TrFT.buildTables p o).1.ctChainlimit = t.chainLimit ∧
      (Gen.TrFT.buildTables p o).1.ctTimedEvent = o.TIMERS.foldl (fun d t => dset d t.1 t.2.2) [] ∧
      (Gen.TrFT.buildTables p o).1.ctMethods =
        o.classVars.foldl (collectStep p t.events t.states) [("enter", []), ("exit", []), ("cond", [])] ∧
      (Gen.TrFT.buildTables p o).1.ctPrefixes = (resetObj o).ctPrefixes :=
  buildTables_spec p zero o sts hS hcn hh hper

/-- hence "the FSM follows its transition table" starts from the class attributes: the lookup the model does
    in the tables built by the TRANSLATED `_build_tables` obeys `lookup_precedence` -/
theorem translated_fsm03_tables_lookup_precedence (p : Prims δ Du κ α ε χ η) (zero : δ → Bool)
    (o : Obj δ Du κ α ε χ) (sts : List String) (hS : o.STATES = .seq sts)
    (hcn : ∀ n w, p.checkName n w = .ok ())
    (hh : ∀ r ∈ o.EVENTS, dhas o.ctHandlers r.1 = false)
    (hper : ∀ t ∈ o.TIMERS, ∃ du, p.timePeriod t.2.1 = .ok du)
    (t : Tables) (hb : Fsm.buildTables (specOf p zero o sts) = .ok t) (e : EvName) (s : State) :
    trOf (Gen.TrFT.buildTables p o).1.ctTransition = t.trans ∧
    (∀ tgt, (e, some s, tgt) ∈ t.trans → lookup t e s = tgt) ∧
    ((∀ x, (e, some s, x) ∉ t.trans) → ∀ tgt, (e, none, tgt) ∈ t.trans → lookup t e s = tgt) ∧
    ((∀ x, (e, some s, x) ∉ t.trans) → (∀ x, (e, none, x) ∉ t.trans) → lookup t e s = none) := by
  have h := buildTables_spec p zero o sts hS hcn hh hper
  rw [hb] at h
  exact ⟨h.2.2.2.1, Edzed.Fsm.lookup_precedence _ t hb e s⟩

/-- `_check_state` -/
theorem translated_fsm03_check_state (p : Prims δ Du κ α ε χ η) (s : String) (o : Obj δ Du κ α ε χ) :
    checkState p s o = if o.ctStates.contains s then (o, .next ()) else (o, .raise "ValueError") :=
  checkState_spec p s o

/-- **`_run_cb`**: the instance callback first, then the class method, each if it exists; both results are
    collected in that order; nothing else happens -/
theorem translated_fsm03_run_cb_calls (p : Prims δ Du κ α ε χ η) (kind name : String) (o : Obj δ Du κ α ε χ)
    (F : List (String × κ)) (Mt : List (String × α))
    (hF : o.fsmFunctions.lookup kind = some F) (hM : o.ctMethods.lookup kind = some Mt) :
    (runCb p kind name o).1.calls =
      o.calls ++ ((F.lookup name).map Call.func).toList ++ ((Mt.lookup name).map Call.meth).toList :=
  runCb_calls p kind name o F Mt hF hM

/-- … which is the model's `condsOf` (function before method) with the values the model gives to
    `all(…)`: each condition evaluated on the data in the context variable -/
theorem translated_fsm03_run_cb_is_condsOf (d : Def) (p : Prims δ Du CondS CondS ε χ η) (e : String)
    (o : Obj δ Du CondS CondS ε χ)
    (hF : o.fsmFunctions.lookup "cond" = some d.condF) (hM : o.ctMethods.lookup "cond" = some d.condM)
    (hfr : ∀ c (o' : Obj δ Du CondS CondS ε χ), p.funcResult c o' = c.eval o'.ctxVar)
    (hmr : ∀ c (o' : Obj δ Du CondS CondS ε χ), p.methResult c o' = c.eval o'.ctxVar) :
    (runCb p "cond" e o).2 = .ret ((condsOf d e).map fun c => c.2.eval o.ctxVar) ∧
    (runCb p "cond" e o).1.calls = o.calls ++ (condsOf d e).map (fun c =>
      match c.1 with
      | .func => Call.func c.2
      | .meth => Call.meth c.2) :=
  runCb_cond_model d p e o hF hM hfr hmr

/-- **`_send_events`**: every event configured for the current state is sent once, in order, with `sdata`
    minus the private items, the trigger without `on_`, the CURRENT state and the CURRENT output (what the
    model logs as `onExit s output` / `onEnter s output`); nothing for a state without events -/
theorem translated_fsm03_send_events_items (p : Prims δ Du κ α ε χ η) (trigger s : String)
    (o : Obj δ Du κ α ε χ) (tbl : List (String × List ε)) (hs : o.state = some s)
    (ht : o.stateEvents.lookup trigger = some tbl) :
    sendEvents p trigger o =
      match tbl.lookup s with
      | none => (o, .ret ())
      | some evs => ({ o with calls := o.calls ++ evs.map fun ev => Call.send ev (sendItems p trigger s o) },
          .next ()) :=
  sendEvents_spec p trigger s o tbl hs ht

/-- **`_event`**: `contextvars.copy_context().run(self._ctx_event, …)` -- the result and everything
    `_ctx_event` did to the block are handed on, its writes to `fsm_event_data` are not -/
theorem translated_fsm03_event_copies_context (p : Prims δ Du κ α ε χ η) (e : η) (data : Data)
    (o : Obj δ Du κ α ε χ) :
    event p e data o =
      match p.ctxEvent e data o with
      | (o1, .ok b) => ({ o1 with ctxVar := o.ctxVar }, .ret b)
      | (o1, .error x) => ({ o1 with ctxVar := o.ctxVar }, .raise x) :=
  event_spec p e data o

/-- what the `_ctx_event` tie relies on (F03.prims: `runCbEnter` / `startTimer` apply `nested` and leave the
    context variable alone): a `self.event()` of an entry action, i.e. the translated `_event` around the
    translated `_ctx_event` on the model's primitives while `_fsm_event_active`, IS the model's `nested` --
    request posted / multiplication error / rejection, conditions logged with the data of THIS call -- and the
    caller's context variable is what it was -/
theorem translated_fsm03_event_is_post (d : Def) (q : Prims δ Du κ α ε (Option Req × List Action × Bool) EType)
    (t : TS) (base : Obj δ Du κ α ε (Option Req × List Action × Bool)) (e : EType) (data : Data)
    (ha : t.f.active = true) :
    (tsOf (event { q with ctxEvent := ctxEventObj d } e data (objOf t base)).1).f = (nested d t.f e data).1 ∧
    (tsOf (event { q with ctxEvent := ctxEventObj d } e data (objOf t base)).1).log
      = t.log ++ (nested d t.f e data).2.2 ∧
    (tsOf (event { q with ctxEvent := ctxEventObj d } e data (objOf t base)).1).ctx = t.ctx ∧
    (event { q with ctxEvent := ctxEventObj d } e data (objOf t base)).2 =
      (match flowOf (nested d t.f e data).2.1 with
       | .ret b => Out.ret b
       | .raise x => Out.raise (excName x)
       | _ => Out.raise "?") := by
  have hp := translated_fsm03_post_is_model d t e data ha
  simp only [view, Prod.mk.injEq] at hp
  obtain ⟨h1, h2, h3⟩ := hp
  rw [event_spec]
  simp only [ctxEventObj, tsOf_objOf]
  rw [h3]
  cases hfl : flowOf (nested d t.f e data).2.1 <;> simp [tsOf, objOf, h1, h2]

/-- **`__init__`, keyword parsing**: every keyword argument is tried against EVERY row of `_ct_prefixes`, in
    order; a matching prefix with a rest that is not in the container the row refers to (`t_`: the timed states
    with a default duration entry, `cond_`: the events, the others: the states) is TypeError; otherwise the
    pair (rest, keyword) is appended under that prefix -/
theorem translated_fsm03_init_sorts_keywords (p : Prims δ Du κ α ε χ η) (n : Option κ) (o : Obj δ Du κ α ε χ)
    (args : List String) (dd : List (String × List (String × String))) :
    match sortArgs p (refContains o) o.ctPrefixes dd args with
    | .ok dd' => forEach args (initLoop0 p n) { o with tmpDD := dd } = ({ o with tmpDD := dd' }, .next ())
    | .error _ => (forEach args (initLoop0 p n) { o with tmpDD := dd }).2 = .raise "TypeError" :=
  sortArgs_spec p n o args dd

/-- **`__init__`** of a block without FSM-specific keywords, statement by statement: shared durations, empty
    callback / event tables, `_on_notrans`, `_state = UNDEF`, timer / flags / pending request reset, empty
    `sdata`, `initdef` defaulting to the first state, then `super().__init__` with all keywords -/
theorem translated_fsm03_init_plain (p : Prims δ Du κ α ε χ η) (n : Option κ) (o : Obj δ Du κ α ε χ)
    (dd : List (String × List (String × String))) (evs : List ε)
    (hT : o.typeIsFSM = false)
    (hdd : sortArgs p (refContains o) o.ctPrefixes [] (o.kwargs.map (·.1)) = .ok dd)
    (hnone : ∀ k, ddget dd k = []) (hev : p.eventTuple n = .ok evs) :
    Gen.TrFT.init p n o =
      ({ o with
          tmpDD := dd
          duration := DurRef.shared
          fsmFunctions := [("cond", []), ("enter", []), ("exit", [])]
          stateEvents := [("on_enter", []), ("on_exit", [])]
          onNotrans := evs
          state := none
          activeTimerNone := true
          timersEnabled := false
          fsmEventActive := false
          nextEventNone := true
          sdata := []
          initdefDefault := (if dhas o.kwargs "initdef" then o.initdefDefault else some o.ctDefaultState)
          calls := (o.calls ++ [Call.superInit o.kwargs
            (if dhas o.kwargs "initdef" then o.initdefDefault else some o.ctDefaultState)]) },
        .next ()) :=
  init_plain_spec p n o dd evs hT hdd hnone hev

/-- **`__init__`, `t_STATE=value`**: the instance works on ITS OWN copy of the default durations (the class's
    dict is not modified), the value goes through `time_period`, the keyword is consumed before
    `super().__init__` sees the rest -/
theorem translated_fsm03_init_duration_is_own_copy (p : Prims δ Du κ α ε χ η) (n : Option κ)
    (o : Obj δ Du κ α ε χ) (dd : List (String × List (String × String))) (evs : List ε) (ts arg : String)
    (v : κ) (du : Du) (rest : List (String × κ))
    (hT : o.typeIsFSM = false)
    (hdd : sortArgs p (refContains o) o.ctPrefixes [] (o.kwargs.map (·.1)) = .ok dd)
    (ht : ddget dd "t_" = [(ts, arg)])
    (hnone : ∀ k, k ≠ "t_" → ddget dd k = [])
    (hts : dhas o.ctDefaultDuration ts = true)
    (hpop : dpop o.kwargs arg = .ok (v, rest))
    (hper : p.timePeriodKw v = .ok (some du))
    (hev : p.eventTuple n = .ok evs) :
    (Gen.TrFT.init p n o).2 = .next () ∧
    (Gen.TrFT.init p n o).1.duration = DurRef.own (dset o.ctDefaultDuration ts (some du)) ∧
    (Gen.TrFT.init p n o).1.ctDefaultDuration = o.ctDefaultDuration ∧
    (Gen.TrFT.init p n o).1.kwargs = rest ∧
    (Gen.TrFT.init p n o).1.calls = o.calls ++ [Call.superInit rest
      (if dhas rest "initdef" then o.initdefDefault else some o.ctDefaultState)] :=
  init_one_duration_spec p n o dd evs ts arg v du rest hT hdd ht hnone hts hpop hper hev

end tables

end Edzed.TrTie
