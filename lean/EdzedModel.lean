import EdzedModel.Basic.Val
import EdzedModel.Counter
import EdzedModel.Drv.Counter
import EdzedModel.Gen.Constants
