import EdzedModel.Basic.Val
import EdzedModel.Counter
import EdzedModel.Drv.Counter
import EdzedModel.Drv.Init
import EdzedModel.Drv.Simulate
import EdzedModel.Gen.Constants
import EdzedModel.Init
import EdzedModel.Simulate
