import EdzedModel.Basic.Val
import EdzedModel.Counter
import EdzedModel.Drv.Counter
import EdzedModel.Drv.Interval
import EdzedModel.Drv.Simulate
import EdzedModel.Gen.Constants
import EdzedModel.Interval
import EdzedModel.Simulate
