import EdzedModel.Basic.Val
import EdzedModel.Counter
import EdzedModel.Drv.Counter
import EdzedModel.Drv.Fsm
import EdzedModel.Drv.Simulate
import EdzedModel.Fsm
import EdzedModel.Gen.Constants
import EdzedModel.Simulate
