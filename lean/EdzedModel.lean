import EdzedModel.Basic.Val
import EdzedModel.Counter
import EdzedModel.Drv.Counter
import EdzedModel.Drv.Filters
import EdzedModel.Drv.Simulate
import EdzedModel.Filters
import EdzedModel.Gen.Constants
import EdzedModel.Simulate
