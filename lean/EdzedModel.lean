import EdzedModel.Basic.Val
import EdzedModel.Counter
import EdzedModel.Drv.Counter
import EdzedModel.Drv.OutputAsync
import EdzedModel.Drv.Simulate
import EdzedModel.Gen.Constants
import EdzedModel.OutputAsync
import EdzedModel.Simulate
