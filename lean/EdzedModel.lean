import EdzedModel.Basic.Val
import EdzedModel.Counter
import EdzedModel.Drv.Counter
import EdzedModel.Drv.Persist
import EdzedModel.Drv.Simulate
import EdzedModel.Gen.Constants
import EdzedModel.Persist
import EdzedModel.Simulate
