import EdzedModel.Basic.Val
import EdzedModel.Burst
import EdzedModel.Counter
import EdzedModel.Drv.Burst
import EdzedModel.Drv.Counter
import EdzedModel.Drv.Simulate
import EdzedModel.Gen.Constants
import EdzedModel.Simulate
