import EdzedModel.Basic.Val
import EdzedModel.Counter
import EdzedModel.Drv.Counter
import EdzedModel.Drv.ErrorReg
import EdzedModel.Drv.Simulate
import EdzedModel.ErrorReg
import EdzedModel.Gen.Constants
import EdzedModel.Simulate
