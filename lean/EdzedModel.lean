import EdzedModel.Basic.Val
import EdzedModel.Counter
import EdzedModel.Drv.Counter
import EdzedModel.Drv.Repeat
import EdzedModel.Drv.Simulate
import EdzedModel.Gen.Constants
import EdzedModel.Repeat
import EdzedModel.Simulate
