import EdzedModel.Basic.Val
import EdzedModel.Counter
import EdzedModel.Cron
import EdzedModel.Drv.Counter
import EdzedModel.Drv.Cron
import EdzedModel.Drv.Simulate
import EdzedModel.Gen.Constants
import EdzedModel.Simulate
