import EdzedModel.Basic.Val
import EdzedModel.Counter
import EdzedModel.Dispatch
import EdzedModel.Drv.Counter
import EdzedModel.Drv.Dispatch
import EdzedModel.Drv.Simulate
import EdzedModel.Gen.Constants
import EdzedModel.Simulate
