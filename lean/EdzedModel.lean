import EdzedModel.Basic.Val
import EdzedModel.Counter
import EdzedModel.Drv.Counter
import EdzedModel.Drv.Simulate
import EdzedModel.Drv.TimeUnits
import EdzedModel.Gen.Constants
import EdzedModel.Simulate
import EdzedModel.TimeUnits
