import EdzedModel.Basic.Val
import EdzedModel.Counter
import EdzedModel.Drv.Counter
import EdzedModel.Drv.Lifecycle
import EdzedModel.Drv.Simulate
import EdzedModel.Gen.Constants
import EdzedModel.Lifecycle
import EdzedModel.Simulate
