import EdzedModel.Basic.Val
import EdzedModel.Counter
import EdzedModel.Drv.Counter
import EdzedModel.Drv.Output
import EdzedModel.Drv.Simulate
import EdzedModel.Gen.Constants
import EdzedModel.Output
import EdzedModel.Simulate
