import EdzedModel.Basic.Val
import EdzedModel.Counter
import EdzedModel.Drv.Counter
import EdzedModel.Drv.FsmTimer
import EdzedModel.Drv.Simulate
import EdzedModel.FsmTimer
import EdzedModel.Gen.Constants
import EdzedModel.Simulate
