/- helper lemmas for C20: Python's floored modulo on exact rationals -/
import EdzedModel.Counter

namespace Edzed.Counter

theorem fmod_nonneg (a m : Rat) (hm : 0 < m) : 0 ≤ fmod a m := by
  unfold fmod
  have h1 := Rat.floor_le (a / m)
  have h2 : ((a / m).floor : Rat) * m ≤ a := by
    have := Rat.mul_le_mul_of_nonneg_right h1 (Rat.le_of_lt hm)
    rwa [Rat.div_mul_cancel (Rat.ne_of_gt hm)] at this
  grind

theorem fmod_lt (a m : Rat) (hm : 0 < m) : fmod a m < m := by
  unfold fmod
  have h1 := Rat.lt_floor_add_one (a / m)
  have h2 : a < (((a / m).floor + 1 : Int) : Rat) * m := by
    have := Rat.mul_lt_mul_of_pos_right h1 hm
    rwa [Rat.div_mul_cancel (Rat.ne_of_gt hm)] at this
  have h3 : (((a / m).floor + 1 : Int) : Rat) = ((a / m).floor : Rat) + 1 := by
    simp [Rat.intCast_add]
  grind

theorem fmod_add_int (a m : Rat) (k : Int) (hm : m ≠ 0) : fmod (a + m * k) m = fmod a m := by
  unfold fmod
  have h : (a + m * k) / m = a / m + (k : Rat) := by
    rw [Rat.div_def, Rat.div_def, Rat.add_mul, Rat.mul_comm m, Rat.mul_assoc, Rat.mul_inv_cancel _ hm, Rat.mul_one]
  rw [h, Rat.floor_add_intCast]
  simp [Rat.intCast_add]
  grind

theorem fmod_fmod_add (a b m : Rat) (hm : m ≠ 0) : fmod (fmod a m + b) m = fmod (a + b) m := by
  have : fmod a m + b = (a + b) + m * ((-(a / m).floor : Int) : Rat) := by
    unfold fmod; simp [Rat.intCast_neg]; grind
  rw [this, fmod_add_int _ _ _ hm]

theorem fmod_fmod_sub (a b m : Rat) (hm : m ≠ 0) : fmod (fmod a m - b) m = fmod (a - b) m := by
  have := fmod_fmod_add a (-b) m hm
  simpa [Rat.sub_eq_add_neg] using this

/-- a NEGATIVE modulo: Python's floored `%` gives a result in `(m, 0]` -/
theorem fmod_nonpos (a m : Rat) (hm : m < 0) : fmod a m ≤ 0 := by
  unfold fmod
  have hm' : (0:Rat) < -m := by grind
  have h1 := Rat.floor_le (a / m)
  have h2 := Rat.mul_le_mul_of_nonneg_right h1 (Rat.le_of_lt hm')
  have h3 : a / m * m = a := Rat.div_mul_cancel (by grind)
  grind

theorem fmod_gt (a m : Rat) (hm : m < 0) : m < fmod a m := by
  unfold fmod
  have hm' : (0:Rat) < -m := by grind
  have h1 := Rat.lt_floor_add_one (a / m)
  have h2 := Rat.mul_lt_mul_of_pos_right h1 hm'
  have h3 : a / m * m = a := Rat.div_mul_cancel (by grind)
  have h4 : (((a / m).floor + 1 : Int) : Rat) = ((a / m).floor : Rat) + 1 := by
    simp [Rat.intCast_add]
  grind

end Edzed.Counter
