/-
Helper definitions and lemmas for the translation tie of `SBlock.__init_subclass__` (C11): the primitives of
the generated program (EdzedModel/Gen/TranslatedHandlers.lean) instantiated with the model
EdzedModel/Handlers.lean, the loops of the program as folds of the model, and the characterisation of the
table: an event type is handled by the first `_event_<etype>` in MRO order.
-/
import EdzedModel.Handlers
import EdzedModel.Gen.TranslatedHandlers

namespace Edzed.TrTie
open Edzed.Handlers Edzed.Gen.TrD Edzed.Gen.TrH

/-- a str object: its value and "it is a new object made by removeprefix" -/
abbrev NameObj := String × Bool

/-- `x.removeprefix(p)`: a new object when the prefix is there, else `x` itself -/
def rmPrefix (p : String) (x : NameObj) : NameObj :=
  match stripPrefix p x.1 with
  | some e => (e, true)
  | none => x

theorem rmPrefix_none {p n : String} (h : stripPrefix p n = none) : rmPrefix p (n, false) = (n, false) := by
  simp [rmPrefix, h]

theorem rmPrefix_some {p n e : String} (h : stripPrefix p n = some e) : rmPrefix p (n, false) = (e, true) := by
  simp [rmPrefix, h]

/-- the primitives of `__init_subclass__` on the model: the state is the table under construction -/
def hPrims : HandlerPrims Table String ClassD NameObj String where
  superInitSubclass := M.pure ()
  tableReset := M.modify fun _ => []
  isAddon := fun c => c.addon
  isSBlock := fun c => c.isSBlock
  isSBlockOrAddon := fun c => c.eligible
  varsItems := fun c => c.methods.map fun n => ((n, false), c.name ++ "." ++ n)
  removePrefix := rmPrefix
  sameObject := fun a b => a == b
  tableHas := fun t e => t.any (·.1 == e.1)
  tableSet := fun e m => M.modify fun t => t ++ [(e.1, m)]
  mkExc := fun cls _ => cls

theorem hp_remove (x : NameObj) : hPrims.removePrefix "_event_" x = rmPrefix "_event_" x := rfl
theorem hp_same (a b : NameObj) : hPrims.sameObject a b = (a == b) := rfl
theorem hp_has (t : Table) (e : NameObj) : hPrims.tableHas t e = t.any (·.1 == e.1) := rfl
theorem hp_set (e : NameObj) (m : String) : hPrims.tableSet e m = M.modify fun t => t ++ [(e.1, m)] := rfl

/-- the inner loop IS the fold of `addName` over the names of the class body -/
theorem for2_is_addMethods (c : ClassD) (ns : List String) (t : Table) :
    initSubclass_for2 hPrims (ns.map fun n => ((n, false), c.name ++ "." ++ n)) t =
      (ns.foldl (addName c) t, .next ()) := by
  induction ns generalizing t with
  | nil => rfl
  | cons n ns ih =>
    rw [List.map_cons, initSubclass_for2, List.foldl_cons]
    simp only [M.bind, M.get]
    rcases Option.eq_none_or_eq_some (stripPrefix "_event_" n) with hs | ⟨e, hs⟩
    · have hadd : addName c t n = t := by simp [addName, eventName, hs]
      have hr : hPrims.removePrefix "_event_" (n, false) = (n, false) := rmPrefix_none hs
      have hc : (!hPrims.sameObject (hPrims.removePrefix "_event_" (n, false)) (n, false)
          && !hPrims.tableHas t (hPrims.removePrefix "_event_" (n, false))) = false := by
        rw [hr]; simp [hp_same]
      simp only [hc, hadd, Bool.false_eq_true, if_false]
      exact ih t
    · have hr : hPrims.removePrefix "_event_" (n, false) = (e, true) := rmPrefix_some hs
      by_cases ha : t.any (fun x => x.1 == e) = true
      · have hadd : addName c t n = t := by
          unfold addName eventName; rw [hs]; simp only [ha, if_true]
        have hc : (!hPrims.sameObject (hPrims.removePrefix "_event_" (n, false)) (n, false)
            && !hPrims.tableHas t (hPrims.removePrefix "_event_" (n, false))) = false := by
          rw [hr]; simp only [hp_has, ha, Bool.not_true, Bool.and_false]
        simp only [hc, hadd, Bool.false_eq_true, if_false]
        exact ih t
      · have ha' : t.any (fun x => x.1 == e) = false := Bool.eq_false_iff.2 ha
        have hadd : addName c t n = t ++ [(e, c.name ++ "." ++ n)] := by
          unfold addName eventName; rw [hs]; simp only [ha', Bool.false_eq_true, if_false]
        have hc : (!hPrims.sameObject (hPrims.removePrefix "_event_" (n, false)) (n, false)
            && !hPrims.tableHas t (hPrims.removePrefix "_event_" (n, false))) = true := by
          rw [hr]; simp [hp_same, hp_has, ha']
        simp only [hc, hadd, if_true]
        rw [hr]
        simp only [hp_set, M.modify]
        exact ih _

/-- the order check as the loop sees it: `seen` = SBlock has been met already -/
def orderOkFrom (seen : Bool) (mro : List ClassD) : Bool :=
  if seen then mro.all (fun x => !x.addon) else orderOk mro

theorem for1_step_tail (c : ClassD) (mro : List ClassD) (seen' : Bool) (t : Table) :
    (if hPrims.isSBlockOrAddon c then
        M.bind (initSubclass_for2 hPrims (hPrims.varsItems c)) fun (_ : Unit) => initSubclass_for1 hPrims mro seen'
      else initSubclass_for1 hPrims mro seen') t = initSubclass_for1 hPrims mro seen' (addClass t c) := by
  have hE : hPrims.isSBlockOrAddon c = c.eligible := rfl
  have hv : hPrims.varsItems c = c.methods.map fun n => ((n, false), c.name ++ "." ++ n) := rfl
  unfold addClass
  cases he : c.eligible with
  | false => simp only [hE, he, Bool.false_eq_true, if_false]
  | true =>
    simp only [hE, he, if_true, M.bind, hv, for2_is_addMethods]
    rfl

theorem for1_is_model (mro : List ClassD) (seen : Bool) (t : Table) :
    (orderOkFrom seen mro = true →
      initSubclass_for1 hPrims mro seen t = (mro.foldl addClass t, .next (seen || mro.any (·.isSBlock))))
    ∧ (orderOkFrom seen mro = false → (initSubclass_for1 hPrims mro seen t).2 = .raise "TypeError") := by
  induction mro generalizing seen t with
  | nil => cases seen <;> simp [orderOkFrom, orderOk, initSubclass_for1, M.pure]
  | cons c mro ih =>
    rw [initSubclass_for1]
    simp only [M.bind]
    cases seen with
    | true =>
      cases hadd : c.addon with
      | true =>
        have hA : hPrims.isAddon c = true := hadd
        have ho : orderOkFrom true (c :: mro) = false := by simp [orderOkFrom, hadd]
        simp only [ho, hA, if_true, M.raise]
        exact ⟨fun h => Bool.noConfusion h, fun _ => rfl⟩
      | false =>
        have hA : hPrims.isAddon c = false := hadd
        have ho : orderOkFrom true (c :: mro) = orderOkFrom true mro := by simp [orderOkFrom, hadd]
        simp only [ho, hA, if_true, Bool.false_eq_true, if_false, M.pure, for1_step_tail, List.foldl_cons,
          Bool.true_or]
        have := ih true (addClass t c)
        simpa using this
    | false =>
      have hS : hPrims.isSBlock c = c.isSBlock := rfl
      cases hsb : c.isSBlock with
      | true =>
        have ho : orderOkFrom false (c :: mro) = orderOkFrom true mro := by simp [orderOkFrom, orderOk, hsb]
        simp only [ho, hS, hsb, if_true, Bool.false_eq_true, if_false, M.pure, for1_step_tail, List.foldl_cons,
          List.any_cons, Bool.true_or, Bool.false_or]
        have := ih true (addClass t c)
        simpa using this
      | false =>
        have ho : orderOkFrom false (c :: mro) = orderOkFrom false mro := by simp [orderOkFrom, orderOk, hsb]
        simp only [ho, hS, hsb, Bool.false_eq_true, if_false, M.pure, for1_step_tail, List.foldl_cons,
          List.any_cons, Bool.false_or]
        exact ih false (addClass t c)

/-! ### the table: first definition in MRO order -/

theorem lookup_append (t : Table) (e e' v : String) :
    Table.lookup (t ++ [(e', v)]) e = (Table.lookup t e).or (if e' == e then some v else none) := by
  unfold Table.lookup
  rw [List.find?_append]
  cases t.find? (fun x => x.1 == e) <;> simp [List.find?]
  split <;> simp_all

theorem any_iff_lookup (t : Table) (e : String) : t.any (·.1 == e) = (Table.lookup t e).isSome := by
  unfold Table.lookup
  induction t with
  | nil => rfl
  | cons x t ih =>
    by_cases h : (x.1 == e) = true
    · simp [List.find?, h]
    · have h' : (x.1 == e) = false := Bool.eq_false_iff.2 h
      simp only [List.any_cons, List.find?, h', Bool.false_or]
      exact ih

theorem lookup_addName (c : ClassD) (t : Table) (n e : String) :
    Table.lookup (addName c t n) e =
      (Table.lookup t e).or (if eventName n == some e then some (c.name ++ "." ++ n) else none) := by
  unfold addName
  cases hn : eventName n with
  | none => simp
  | some e' =>
    by_cases ha : t.any (fun x => x.1 == e') = true
    · simp only [ha, if_true]
      by_cases hee : e' = e
      · subst hee
        rw [any_iff_lookup] at ha
        cases h : Table.lookup t e' <;> simp_all
      · simp [hee]
    · have ha' : t.any (fun x => x.1 == e') = false := Bool.eq_false_iff.2 ha
      simp only [ha', Bool.false_eq_true, if_false, lookup_append]
      by_cases hee : e' = e <;> simp [hee]

theorem lookup_addMethods (c : ClassD) (ns : List String) (t : Table) (e : String) :
    Table.lookup (ns.foldl (addName c) t) e =
      (Table.lookup t e).or ((ns.find? (fun n => eventName n == some e)).map (fun n => c.name ++ "." ++ n)) := by
  induction ns generalizing t with
  | nil => simp
  | cons n ns ih =>
    rw [List.foldl_cons, ih, lookup_addName]
    by_cases hn : (eventName n == some e) = true
    · simp [hn, List.find?, Option.or_assoc]
    · have hn' : (eventName n == some e) = false := by simpa using hn
      simp [hn', List.find?]

theorem lookup_fold (mro : List ClassD) (t : Table) (e : String) :
    Table.lookup (mro.foldl addClass t) e = (Table.lookup t e).or (firstInMro mro e) := by
  induction mro generalizing t with
  | nil => simp [firstInMro]
  | cons c mro ih =>
    rw [List.foldl_cons, ih]
    unfold addClass firstInMro
    cases he : c.eligible with
    | false => simp [he, List.filter]
    | true =>
      simp only [he, if_true, addMethods, lookup_addMethods, List.filter, List.findSome?_cons, Option.or_assoc]
      congr 1
      cases (c.methods.find? fun n => eventName n == some e) <;> simp

theorem contains_keys (t : Table) (e : String) :
    (Table.lookup t e).isSome = (t.map (·.1)).contains e := by
  rw [← any_iff_lookup]
  induction t with
  | nil => rfl
  | cons x t ih =>
    simp only [List.any_cons, List.map_cons, List.contains_cons, ih]
    congr 1
    exact Bool.beq_comm

/-- membership of a key in an association list, for any kind of entries -/
theorem find_isSome_contains {β : Type} (l : List (String × β)) (e : String) :
    (l.find? (·.1 == e)).isSome = (l.map (·.1)).contains e := by
  induction l with
  | nil => rfl
  | cons x l ih =>
    by_cases h : (x.1 == e) = true
    · have h2 : (e == x.1) = true := by rw [Bool.beq_comm]; exact h
      simp [List.find?, h, h2]
    · have h' : (x.1 == e) = false := Bool.eq_false_iff.2 h
      have h2 : (e == x.1) = false := by rw [Bool.beq_comm]; exact h'
      simp only [List.find?, h', List.map_cons, List.contains_cons, h2, Bool.false_or]
      exact ih

/-- the outcome of the translated class creation as the model's result -/
def toBuild (p : Table × Out String Unit Unit) : Except String Table :=
  match p.2 with
  | .next _ => .ok p.1
  | .raise e => .error e
  | .ret _ => .ok p.1
  | .diverged => .error "diverged"

/-- the error of a failed class creation -/
def errOf : Except String Table → Option String
  | .error e => some e
  | .ok _ => none

theorem orderOk_split (pre post : List ClassD) (sb : ClassD) (hsb : sb.isSBlock = true)
    (hpre : ∀ c ∈ pre, c.isSBlock = false) :
    orderOk (pre ++ sb :: post) = post.all (fun x => !x.addon) := by
  induction pre with
  | nil => simp [orderOk, hsb]
  | cons c pre ih =>
    have hc : c.isSBlock = false := hpre c (by simp)
    simp only [List.cons_append, orderOk, hc, Bool.false_eq_true, if_false]
    exact ih (fun x hx => hpre x (by simp [hx]))

end Edzed.TrTie
