/-
Tie by translation for C15: the primitives of the generated programs
(lean/EdzedModel/Gen/TranslatedWiring.lean, namespace Edzed.Gen.TrW) interpreted in the hand-written
model (lean/EdzedModel/Wiring.lean), and the lemmas behind the `translated_wiring_…` theorems of
EdzedProps/C15.lean.
-/
import EdzedModel.Wiring
import EdzedModel.Gen.TranslatedWiring
import EdzedProofs.Wiring

namespace Edzed.WiringTie
open Edzed.Wiring

/-- the Python class of the model's error kinds -/
def excOf : Err → Gen.TrW.PyExc
  | .keyError => "KeyError"
  | .valueError => "ValueError"
  | .typeError => "TypeError"
  | .invalidState => "EdzedInvalidState"
  | .circuitError => "EdzedCircuitError"

/-- Python `d[k] = v` on the ordered dict `CBlock.inputs` -/
def dictSet (l : Inputs) (k : String) (v : Inp) : Inputs :=
  if l.any (fun p => p.1 == k) then l.map (fun p => if p.1 == k then (k, v) else p) else l ++ [(k, v)]

/-- a positional argument of `connect()` is one reference -/
def argRef : Inp → Ref
  | .single r => r
  | .group _ => .val .undef

def refOfS : SRef → Ref
  | .name s => .name s
  | .obj n => .obj false n

def sOfRef : Ref → SRef
  | .obj _ n => .obj n
  | .name s => .name s
  | _ => .name ""

def setAt (l : List Slot) (i : Nat) (f : Slot → Slot) : List Slot :=
  match l, i with
  | [], _ => []
  | x :: r, 0 => f x :: r
  | x :: r, i + 1 => x :: setAt r i f

/-- indices (with the required type) of the registrations that still hold a name, from `i` on -/
def unresolvedFrom : Nat → List Slot → List (Nat × Bool)
  | _, [] => []
  | i, sl :: r =>
    match sl.ref with
    | .name _ => (i, sl.needS) :: unresolvedFrom (i + 1) r
    | .obj _ => unresolvedFrom (i + 1) r

/-- the primitives in the model; `newKind`: the class of the block being created (`addblock`) -/
def prims (newKind : BKind) : Gen.TrW.WPrims Circ String Inp Inp Ref (Option Nat) (Nat × Bool) Bool where
  hasError c := c.stopped
  finalized c := c.finalized
  setFinalized v c := { c with finalized := v }
  setStorage d c := { c with storage := d }
  isBlockObj _ := true
  nameKnown c n := (c.kind n).isSome
  storeBlock n c := { c with order := c.order ++ [n], kind := upd c.kind n (some newKind) }
  inputsTruthy c b := !(c.inputs b).isEmpty
  isIterator _ := false
  isStr a := match a with
    | .single (.name _) => true
    | .single (.val (.atom (.str _))) => true
    | _ => false
  isSequence a := match a with
    | .group _ => true
    | .single r => r.isMultiple
  storeArgs l := .group (l.map argRef)
  storeTuple a := normInp a
  storeSingle a := a
  setInput b k v c := { c with inputs := upd c.inputs b (dictSet (c.inputs b) k v) }
  snapshot t c := match t with
    | .cblock => cblockNames c
    | .not => notNames c
  inputItems c b := c.inputs b
  isGroup i := match i with
    | .group _ => true
    | .single _ => false
  members i := i.refs
  single i := match i with
    | .single r => r
    | .group _ => .val .undef
  mkGroup rs := .group rs
  mkSingle r := .single r
  validateBlk r c := match validateBlk c r with
    | .ok (c', r') => (c', .ok r')
    | .error e => (c, .error (excOf e))
  isConst r := match r with
    | .obj _ _ => false
    | _ => true
  addIconn b r c := match r with
    | .obj _ a => { c with iconn := upd c.iconn b (addSet (c.iconn b) a) }
    | _ => c
  addOconnByName r b c := match r with
    | .obj _ a => { c with oconn := upd c.oconn a (addSet (c.oconn a) b) }
    | _ => c
  getRef c k := match c.slots[k.1]? with
    | some sl => refOfS sl.ref
    | none => .val .undef
  setRef k r c := { c with slots := setAt c.slots k.1 fun sl => { sl with ref := sOfRef r } }
  refIsStr r := match r with
    | .name _ => true
    | _ => false
  isInstance c r needS := match r with
    | .obj _ n =>
      match c.kind n with
      | none => false
      | some k => !(needS && k != .s)
    | _ => false
  appendUnresolved _ c := c                 -- the worklist is derived: the registrations holding a name
  unresolved c := unresolvedFrom 0 c.slots
  clearUnresolved c := c
  typeOf k := k.2

/-- the result of a program as the model reports it -/
def outcome {α : Type} (r : Circ × Except Gen.TrW.PyExc α) : Circ × Option Gen.TrW.PyExc :=
  match r with
  | (c, .ok _) => (c, none)
  | (c, .error e) => (c, some e)

/-! ### running a program -/

section monad
variable {σ α β γ : Type}

theorem gets_bind (f : σ → α) (k : α → Gen.TrW.W σ β) (s : σ) :
    Gen.TrW.W.bind (Gen.TrW.W.gets f) k s = k (f s) s := rfl
theorem pure_bind (a : α) (k : α → Gen.TrW.W σ β) (s : σ) :
    Gen.TrW.W.bind (Gen.TrW.W.pure a) k s = k a s := rfl
theorem modify_bind (f : σ → σ) (k : Unit → Gen.TrW.W σ β) (s : σ) :
    Gen.TrW.W.bind (Gen.TrW.W.modify f) k s = k () (f s) := rfl
theorem raise_bind (e : Gen.TrW.PyExc) (k : α → Gen.TrW.W σ β) (s : σ) :
    Gen.TrW.W.bind (Gen.TrW.W.raise e) k s = (s, .error e) := rfl
theorem bind_bind (m : Gen.TrW.W σ α) (f : α → Gen.TrW.W σ β) (g : β → Gen.TrW.W σ γ) (s : σ) :
    Gen.TrW.W.bind (Gen.TrW.W.bind m f) g s = Gen.TrW.W.bind m (fun a => Gen.TrW.W.bind (f a) g) s := by
  unfold Gen.TrW.W.bind
  rcases m s with ⟨s1, r⟩
  cases r <;> rfl
theorem bind_ok {m : Gen.TrW.W σ α} {s s' : σ} {a : α} (h : m s = (s', .ok a)) (k : α → Gen.TrW.W σ β) :
    Gen.TrW.W.bind m k s = k a s' := by
  unfold Gen.TrW.W.bind; rw [h]
theorem bind_err {m : Gen.TrW.W σ α} {s s' : σ} {e : Gen.TrW.PyExc} (h : m s = (s', .error e))
    (k : α → Gen.TrW.W σ β) : Gen.TrW.W.bind m k s = (s', .error e) := by
  unfold Gen.TrW.W.bind; rw [h]
theorem ite_run (c : Bool) (a b : Gen.TrW.W σ α) (s : σ) :
    (if c = true then a else b) s = if c = true then a s else b s := by
  cases c <;> rfl

end monad

/-! ### `check_not_finalized`, `set_persistent_data`, `addblock` -/

theorem checkNotFinalized_run (k : BKind) (c : Circ) :
    Gen.TrW.checkNotFinalized (prims k) c =
      (c, match Wiring.checkNotFinalized c with
          | Except.ok () => Except.ok ()
          | Except.error e => Except.error (excOf e)) := by
  unfold Gen.TrW.checkNotFinalized Wiring.checkNotFinalized
  cases h1 : c.stopped <;> cases h2 : c.finalized <;>
    simp [Gen.TrW.W.bind, Gen.TrW.W.gets, Gen.TrW.W.raise, Gen.TrW.W.pure, prims, excOf, h1, h2]

/-! ### `connect` -/

theorem isMultiple_prims (k : BKind) (a : Inp) :
    Gen.TrW.isMultiple (prims k) a = (match a with
      | .group _ => true
      | .single r => r.isMultiple) := by
  unfold Gen.TrW.isMultiple
  simp only [prims]
  cases a with
  | group rs => simp
  | single r =>
    cases r with
    | name s => simp [Ref.isMultiple]
    | obj f n => simp
    | const v => simp
    | val v =>
      cases v with
      | undef => simp
      | tup l => simp
      | lst l => simp
      | atom a => cases a <;> simp [Ref.isMultiple]

theorem stored_is_normInp (k : BKind) (a : Inp) :
    (if Gen.TrW.isMultiple (prims k) a then (prims k).storeTuple a else (prims k).storeSingle a) = normInp a := by
  rw [isMultiple_prims]
  cases a with
  | group rs => simp [prims]
  | single r =>
    cases r with
    | val v =>
      cases v with
      | tup l => simp [prims, Ref.isMultiple]
      | lst l => simp [prims, Ref.isMultiple]
      | undef => simp [prims, Ref.isMultiple, normInp]
      | atom a => simp [prims, Ref.isMultiple, normInp]
    | name s => simp [prims, Ref.isMultiple, normInp]
    | obj f n => simp [prims, Ref.isMultiple, normInp]
    | const v => simp [prims, Ref.isMultiple, normInp]

/-- the loop over the positional arguments: refuses the first multiple one, changes nothing -/
theorem posLoop_run (k : BKind) (c : Circ) (pos : List Ref) :
    Gen.TrW.W.foldM (pos.map Inp.single) () (fun _ v2 =>
      Gen.TrW.W.bind (Gen.TrW.W.gets fun _ => Gen.TrW.isMultiple (prims k) v2) fun (c_ : Bool) =>
        if c_ then Gen.TrW.W.raise "ValueError" else Gen.TrW.W.pure ()) c =
    (c, if pos.any Ref.isMultiple then .error "ValueError" else .ok ()) := by
  induction pos with
  | nil => rfl
  | cons r rest ih =>
    have hm : Gen.TrW.isMultiple (prims k) (Inp.single r) = r.isMultiple := isMultiple_prims k _
    cases h : r.isMultiple
    · simp only [List.map_cons, Gen.TrW.W.foldM, Gen.TrW.W.bind, Gen.TrW.W.gets, hm, h, Gen.TrW.W.pure,
        List.any_cons, Bool.false_or, Bool.false_eq_true, if_false]
      exact ih
    · simp [Gen.TrW.W.foldM, Gen.TrW.W.bind, Gen.TrW.W.gets, hm, h, Gen.TrW.W.raise]

theorem upd_self {α : Type} (f : String → α) (b : String) : upd f b (f b) = f := by
  funext x; simp only [upd]; split
  · next h => rw [h]
  · rfl

theorem dictSet_new (l : Inputs) (k : String) (v : Inp) (h : l.any (fun p => p.1 == k) = false) :
    dictSet l k v = l ++ [(k, v)] := by
  simp [dictSet, h]

/-- the loop over the keyword arguments appends one item per (distinct, new) name -/
theorem kwLoop_run (k : BKind) (b : String) (named : Inputs) : ∀ (c : Circ),
    (named.map (·.1)).Nodup →
    (∀ p ∈ named, (c.inputs b).any (fun q => q.1 == p.1) = false) →
    Gen.TrW.W.foldM named () (fun _ (x : String × Inp) =>
      Gen.TrW.W.bind (Gen.TrW.W.modify ((prims k).setInput b x.1 (normInp x.2)))
        fun _ => Gen.TrW.W.pure ()) c =
    ({ c with inputs := upd c.inputs b (c.inputs b ++ named.map fun p => (p.1, normInp p.2)) }, .ok ()) := by
  induction named with
  | nil =>
    intro c _ _
    simp only [Gen.TrW.W.foldM, Gen.TrW.W.pure, List.map_nil, List.append_nil, upd_self]
  | cons p rest ih =>
    intro c hnd hnew
    obtain ⟨kk, i⟩ := p
    simp only [List.map_cons, List.nodup_cons] at hnd
    simp only [Gen.TrW.W.foldM, Gen.TrW.W.bind, Gen.TrW.W.modify, Gen.TrW.W.pure]
    have h0 := hnew (kk, i) (by simp)
    have hstep : (prims k).setInput b kk (normInp i) c =
        { c with inputs := upd c.inputs b (c.inputs b ++ [(kk, normInp i)]) } := by
      simp only [prims, dictSet_new _ _ _ h0]
    rw [hstep]
    have := ih { c with inputs := upd c.inputs b (c.inputs b ++ [(kk, normInp i)]) } hnd.2 (by
      intro p hp
      simp only [upd_same, List.any_append, List.any_cons, List.any_nil, Bool.or_false]
      rw [hnew p (by simp [hp])]
      simp only [Bool.false_or, beq_eq_false_iff_ne, ne_eq]
      intro e
      exact hnd.1 (by rw [e]; exact List.mem_map.mpr ⟨p, hp, rfl⟩))
    rw [this]
    congr 1
    simp only [upd_same, List.map_cons, List.append_assoc, List.cons_append, List.nil_append]
    congr 1
    funext x; simp only [upd]; split <;> rfl

theorem upd_upd {α : Type} (f : String → α) (b : String) (x y : α) : upd (upd f b x) b y = upd f b y := by
  funext z; simp only [upd]; split <;> rfl

theorem prims_inputsTruthy (k : BKind) (c : Circ) (b : String) :
    (prims k).inputsTruthy c b = !(c.inputs b).isEmpty := rfl
theorem prims_setInput (k : BKind) (c : Circ) (b x : String) (v : Inp) :
    (prims k).setInput b x v c = { c with inputs := upd c.inputs b (dictSet (c.inputs b) x v) } := rfl
theorem prims_storeArgs (k : BKind) (l : List Inp) : (prims k).storeArgs l = .group (l.map argRef) := rfl

/-- what the model's operation reports, as a run of a program: on an error the circuit is unchanged -/
def ofExcept (c : Circ) : Except Err Circ → Circ × Except Gen.TrW.PyExc Unit
  | .ok c' => (c', .ok ())
  | .error e => (c, .error (excOf e))

theorem connect_run (k : BKind) (c : Circ) (b : String) (cls : CCls) (pos : List Ref) (named : Inputs)
    (hb : c.kind b = some (.c cls)) (hnd : (named.map (·.1)).Nodup) :
    Gen.TrW.connect (prims k) b (pos.map Inp.single) named c = ofExcept c (Wiring.connect c b pos named) := by
  have hkw : ∀ (c0 : Circ), (∀ p ∈ named, (c0.inputs b).any (fun q => q.1 == p.1) = false) →
      Gen.TrW.W.foldM named () (fun _ (x : String × Inp) =>
        Gen.TrW.W.bind (Gen.TrW.W.modify ((prims k).setInput b x.1
          (if Gen.TrW.isMultiple (prims k) x.2 then (prims k).storeTuple x.2 else (prims k).storeSingle x.2)))
          fun _ => Gen.TrW.W.pure ()) c0 =
      ({ c0 with inputs := upd c0.inputs b (c0.inputs b ++ named.map fun p => (p.1, normInp p.2)) }, .ok ()) := by
    intro c0 h0
    have := kwLoop_run k b named c0 hnd h0
    simpa only [stored_is_normInp] using this
  have hpl := posLoop_run k c pos
  have hcnf := checkNotFinalized_run k c
  unfold Gen.TrW.connect Wiring.connect
  simp only [hb]
  cases hc : Wiring.checkNotFinalized c with
  | error e =>
    rw [hc] at hcnf
    rw [bind_err hcnf]; rfl
  | ok u =>
    rw [hc] at hcnf
    rw [bind_ok hcnf]
    simp only [gets_bind, prims_inputsTruthy]
    cases hin : (c.inputs b).isEmpty
    · simp [ofExcept, Gen.TrW.W.raise, excOf]
    · have hin' : c.inputs b = [] := by simpa using hin
      simp only [Bool.not_true, Bool.false_eq_true, if_false, gets_bind, List.isEmpty_map, Bool.not_not]
      cases he : (pos.isEmpty && named.isEmpty)
      · simp only [Bool.false_eq_true, if_false, gets_bind]
        cases hu : named.any (fun p => p.1 == "_")
        · simp only [Bool.false_eq_true, if_false, gets_bind]
          cases hp : pos.isEmpty
          · -- positional inputs given
            simp only [Bool.not_false, if_true, bind_bind, pure_bind]
            cases hm : pos.any Ref.isMultiple
            · have hset : (prims k).setInput b "_" ((prims k).storeArgs (pos.map Inp.single)) c =
                  { c with inputs := upd c.inputs b [("_", Inp.group pos)] } := by
                simp only [prims_setInput, prims_storeArgs, hin', dictSet, List.any_nil, Bool.false_eq_true,
                  if_false, List.nil_append, List.map_map]
                have : ∀ l : List Ref, l.map (argRef ∘ Inp.single) = l := by
                  intro l; induction l with
                  | nil => rfl
                  | cons r rest ih => simp [argRef, ih]
                rw [this]
              have h2 := hkw { c with inputs := upd c.inputs b [("_", Inp.group pos)] } (by
                intro p hp'
                simp only [upd_same, List.any_cons, List.any_nil, Bool.or_false, beq_eq_false_iff_ne, ne_eq]
                intro e
                have := List.any_eq_false.mp hu p hp'
                simp [← e] at this)
              simp only [hm, Bool.false_eq_true, if_false] at hpl
              rw [bind_ok hpl, modify_bind, hset]
              simp only [bind_bind, pure_bind]
              rw [bind_ok h2]
              simp only [Gen.TrW.W.pure, ofExcept, upd_same, upd_upd, connectInputs, hm, hp, Bool.false_eq_true,
                if_false, List.cons_append, List.nil_append]
            · simp only [hm, if_true] at hpl
              rw [bind_err hpl]
              simp [ofExcept, excOf, hm]
          · -- keyword inputs only
            have hpe : pos = [] := by simpa using hp
            subst hpe
            have h2 := hkw c (by intro p _; simp [hin'])
            simp only [Bool.not_true, Bool.false_eq_true, if_false, bind_bind, pure_bind]
            rw [bind_ok h2]
            simp [Gen.TrW.W.pure, ofExcept, connectInputs, hin']
        · simp [ofExcept, Gen.TrW.W.raise, excOf]
      · simp [ofExcept, Gen.TrW.W.raise, excOf]

theorem setPersistentData_run (k : BKind) (c : Circ) (d : Option Nat) :
    Gen.TrW.setPersistentData (prims k) d c = ofExcept c (Wiring.setStorage c d) := by
  have hcnf := checkNotFinalized_run k c
  unfold Gen.TrW.setPersistentData Wiring.setStorage
  cases hc : Wiring.checkNotFinalized c with
  | error e =>
    rw [hc] at hcnf
    rw [bind_err hcnf]; rfl
  | ok u =>
    rw [hc] at hcnf
    rw [bind_ok hcnf, modify_bind]; rfl

/-- `Block.__init__`'s name rules come first, then `Circuit.addblock` -/
theorem addblock_run (k : BKind) (c : Circ) (n : String) (reserved : Bool) :
    Wiring.addBlock c n k reserved =
      if n.isEmpty then .error .valueError
      else if startsUnderscore n && !reserved then .error .valueError
      else match Gen.TrW.addblock (prims k) n c with
        | (c', .ok ()) => .ok c'
        | (_, .error _) =>
          match Wiring.checkNotFinalized c with
          | .error e => .error e
          | .ok () => .error .valueError := by
  have hcnf := checkNotFinalized_run k c
  unfold Wiring.addBlock Gen.TrW.addblock
  split
  · rfl
  · split
    · rfl
    · cases hc : Wiring.checkNotFinalized c with
      | error e =>
        rw [hc] at hcnf
        rw [bind_err hcnf]
      | ok u =>
        rw [hc] at hcnf
        rw [bind_ok hcnf]
        cases hk : (c.kind n).isSome <;>
          simp [gets_bind, modify_bind, Gen.TrW.W.raise, Gen.TrW.W.pure, prims, hk]

/-! ### the resolver -/

/-- `{ c with slots := l }` -/
def withSlots (l : List Slot) (c : Circ) : Circ := { c with slots := l }

theorem addBlock_slots (c : Circ) (l : List Slot) (n : String) (k : BKind) (r : Bool) :
    Wiring.addBlock (withSlots l c) n k r = (Wiring.addBlock c n k r).map (withSlots l) := by
  unfold Wiring.addBlock Wiring.checkNotFinalized withSlots
  cases n.isEmpty <;> cases (startsUnderscore n && !r) <;> cases c.stopped <;> cases c.finalized <;>
    cases (c.kind n).isSome <;> simp [Except.map]

theorem connect_slots (c : Circ) (l : List Slot) (b : String) (pos : List Ref) (named : Inputs) :
    Wiring.connect (withSlots l c) b pos named = (Wiring.connect c b pos named).map (withSlots l) := by
  unfold Wiring.connect Wiring.checkNotFinalized withSlots
  cases hk : c.kind b with
  | none => simp [Except.map]
  | some kd =>
    cases kd with
    | s => simp [Except.map]
    | c cls =>
      cases c.stopped <;> cases c.finalized <;> cases (c.inputs b).isEmpty <;>
        cases (pos.isEmpty && named.isEmpty) <;> cases named.any (fun p => p.1 == "_") <;>
        cases pos.any Ref.isMultiple <;> simp [Except.map]

theorem findblock_slots (c : Circ) (l : List Slot) (s : String) :
    Wiring.findblock (withSlots l c) s = (Wiring.findblock c s).map (fun p => (withSlots l p.1, p.2)) := by
  unfold Wiring.findblock withSlots
  cases (c.kind s).isSome <;> simp [Except.map]

theorem validateName_slots (c : Circ) (l : List Slot) (s : String) :
    Wiring.validateName (withSlots l c) s =
      (Wiring.validateName c s).map (fun p => (withSlots l p.1, p.2)) := by
  unfold Wiring.validateName
  rw [findblock_slots, addBlock_slots, addBlock_slots]
  have hk : (withSlots l c).kind = c.kind := rfl
  rw [hk]
  split
  · split
    · cases Wiring.addBlock c s .s true <;> simp [Except.map]
    · split
      · cases h1 : Wiring.addBlock c s (.c .not) true with
        | error e => simp [Except.map]
        | ok c1 =>
          simp only [Except.map, connect_slots]
          cases Wiring.connect c1 s _ [] <;> simp [Except.map]
      · rfl
  · rfl

/-- `_validate_blk` does not look at the resolver's registrations -/
theorem validateBlk_slots (c : Circ) (l : List Slot) (r : Ref) :
    Wiring.validateBlk (withSlots l c) r =
      (Wiring.validateBlk c r).map (fun p => (withSlots l p.1, p.2)) := by
  cases r with
  | const v => rfl
  | name s => exact validateName_slots c l s
  | obj f n =>
    simp only [Wiring.validateBlk]
    have hk : (withSlots l c).kind = c.kind := rfl
    rw [hk]
    split <;> rfl
  | val v =>
    cases v with
    | undef => rfl
    | tup l => rfl
    | lst l => rfl
    | atom a =>
      cases a with
      | none => rfl
      | num q k => rfl
      | str s => exact validateName_slots c l s

theorem getElem?_done (done rest : List Slot) (sl : Slot) :
    (done ++ sl :: rest)[done.length]? = some sl := by
  induction done with
  | nil => rfl
  | cons x r ih => simpa using ih

theorem setAt_done (done rest : List Slot) (sl : Slot) (f : Slot → Slot) :
    setAt (done ++ sl :: rest) done.length f = done ++ f sl :: rest := by
  induction done with
  | nil => rfl
  | cons x r ih => simp [setAt, ih]

/-- one iteration of the loop of `_BlockResolver.resolve` -/
def resolveBody (kd : BKind) : Unit → Nat × Bool → Gen.TrW.W Circ Unit := fun _ k_ =>
  Gen.TrW.W.bind (Gen.TrW.W.bind (Gen.TrW.W.gets fun s_ => (prims kd).getRef s_ k_) fun r_ =>
    (prims kd).validateBlk r_) fun v3 =>
  Gen.TrW.W.bind (Gen.TrW.checkType (prims kd) v3 ((prims kd).typeOf k_)) fun _ =>
  Gen.TrW.W.bind (Gen.TrW.W.modify ((prims kd).setRef k_ v3)) fun _ =>
  Gen.TrW.W.pure ()

theorem resolve_step (kd : BKind) (cm : Circ) (done rest : List Slot) (sl : Slot) (s : String)
    (hs : sl.ref = .name s) :
    resolveBody kd () (done.length, sl.needS) (withSlots (done ++ sl :: rest) cm) =
      match Wiring.validateBlk cm (.name s) with
      | .error e => (withSlots (done ++ sl :: rest) cm, .error (excOf e))
      | .ok (c1, _) =>
        if sl.needS && c1.kind s != some .s then (withSlots (done ++ sl :: rest) c1, .error "TypeError")
        else (withSlots (done ++ { sl with ref := .obj s } :: rest) c1, .ok ()) := by
  unfold resolveBody
  have hget : (prims kd).getRef (withSlots (done ++ sl :: rest) cm) (done.length, sl.needS) = .name s := by
    simp only [prims, withSlots, getElem?_done, hs, refOfS]
  have hval : (prims kd).validateBlk (.name s) (withSlots (done ++ sl :: rest) cm) =
      match Wiring.validateBlk cm (.name s) with
      | .ok (c1, r') => (withSlots (done ++ sl :: rest) c1, .ok r')
      | .error e => (withSlots (done ++ sl :: rest) cm, .error (excOf e)) := by
    show (match Wiring.validateBlk (withSlots (done ++ sl :: rest) cm) (.name s) with
      | .ok (c', r') => (c', Except.ok r')
      | .error e => (withSlots (done ++ sl :: rest) cm, Except.error (excOf e))) = _
    rw [validateBlk_slots]
    cases Wiring.validateBlk cm (.name s) with
    | error e => rfl
    | ok p => rfl
  rw [bind_bind, gets_bind, hget]
  cases hv : Wiring.validateBlk cm (.name s) with
  | error e =>
    rw [hv] at hval
    rw [bind_err hval]
  | ok p =>
    obtain ⟨c1, r'⟩ := p
    rw [hv] at hval
    rw [bind_ok hval]
    have hsp := validateName_spec (show Wiring.validateName cm s = .ok (c1, r') from hv)
    obtain ⟨hr, hn⟩ := hsp
    subst hr
    obtain ⟨kk, hkk⟩ := Option.isSome_iff_exists.mp hn.kind
    unfold Gen.TrW.checkType
    simp only [bind_bind, gets_bind]
    have hinst : (prims kd).isInstance (withSlots (done ++ sl :: rest) c1) (.obj false s) sl.needS =
        !(sl.needS && kk != .s) := by
      simp only [prims, withSlots, hkk]
    have hty : (prims kd).typeOf (done.length, sl.needS) = sl.needS := rfl
    rw [hty, hinst]
    have hcond : (sl.needS && c1.kind s != some .s) = (sl.needS && kk != .s) := by
      rw [hkk]; cases sl.needS <;> cases kk <;> simp [bne]
    rw [hcond]
    cases hc : (sl.needS && kk != .s)
    · simp only [Bool.not_false, Bool.not_true, Bool.false_eq_true, if_false, pure_bind, modify_bind,
        Gen.TrW.W.pure]
      simp only [prims, withSlots, setAt_done, sOfRef]
    · simp only [Bool.not_true, Bool.not_false, if_true, raise_bind]

/-- how the model reports the state reached and the error, as a run of a program -/
def ofState (r : Circ × Option Err) : Circ × Except Gen.TrW.PyExc Unit :=
  match r with
  | (w, none) => (w, .ok ())
  | (w, some e) => (w, .error (excOf e))

theorem resolve_loop (kd : BKind) (todo : List Slot) : ∀ (done : List Slot) (cm : Circ),
    Gen.TrW.W.foldM (unresolvedFrom done.length todo) () (resolveBody kd) (withSlots (done ++ todo) cm) =
      ofState (Wiring.resolveSlots cm done todo) := by
  induction todo with
  | nil =>
    intro done cm
    simp only [unresolvedFrom, Gen.TrW.W.foldM, Gen.TrW.W.pure, List.append_nil, Wiring.resolveSlots, ofState]
    rfl
  | cons sl rest ih =>
    intro done cm
    unfold Wiring.resolveSlots unresolvedFrom
    cases hs : sl.ref with
    | obj n =>
      simp only
      have := ih (done ++ [sl]) cm
      simp only [List.length_append, List.length_cons, List.length_nil, List.append_assoc, List.cons_append,
        List.nil_append] at this
      exact this
    | name s =>
      simp only [Gen.TrW.W.foldM]
      have hstep := resolve_step kd cm done rest sl s hs
      cases hv : Wiring.validateBlk cm (.name s) with
      | error e =>
        rw [hv] at hstep
        rw [bind_err hstep]
        rfl
      | ok p =>
        obtain ⟨c1, r'⟩ := p
        rw [hv] at hstep
        simp only at hstep
        cases hc : (sl.needS && c1.kind s != some .s)
        · rw [hc] at hstep
          simp only [Bool.false_eq_true, if_false] at hstep
          rw [bind_ok hstep]
          have := ih (done ++ [{ sl with ref := .obj s }]) c1
          simp only [List.length_append, List.length_cons, List.length_nil, List.append_assoc, List.cons_append,
            List.nil_append] at this
          simp only [hc, Bool.false_eq_true, if_false]
          exact this
        · rw [hc] at hstep
          simp only [if_true] at hstep
          rw [bind_err hstep]
          simp only [hc, if_true]
          rfl

/-- `_BlockResolver.resolve` -/
theorem resolve_run (kd : BKind) (c : Circ) :
    Gen.TrW.resolve (prims kd) c = ofState (Wiring.resolve c) := by
  unfold Gen.TrW.resolve Wiring.resolve
  have hloop := resolve_loop kd c.slots [] c
  simp only [List.length_nil, List.nil_append] at hloop
  have hst : withSlots c.slots c = c := rfl
  rw [hst] at hloop
  rw [bind_bind, gets_bind]
  have hu : (prims kd).unresolved c = unresolvedFrom 0 c.slots := rfl
  rw [hu]
  show Gen.TrW.W.bind (Gen.TrW.W.foldM (unresolvedFrom 0 c.slots) () (resolveBody kd)) _ c = _
  cases hr : Wiring.resolveSlots c [] c.slots with
  | mk w e =>
    rw [hr] at hloop
    cases e with
    | none =>
      simp only [ofState] at hloop ⊢
      rw [bind_ok hloop, modify_bind]
      rfl
    | some e =>
      simp only [ofState] at hloop ⊢
      rw [bind_err hloop]

/-- `_BlockResolver.register`, run on the holder object just created (the last registration) -/
theorem register_run (kd : BKind) (c : Circ) (r : SRef) (needS : Bool) :
    Gen.TrW.register (prims kd) (c.slots.length, needS) (withSlots (c.slots ++ [⟨r, needS⟩]) c) =
      match Wiring.register c r needS with
      | .ok c' => (c', .ok ())
      | .error e => (withSlots (c.slots ++ [⟨r, needS⟩]) c, .error (excOf e)) := by
  unfold Gen.TrW.register Wiring.register
  have hget : (prims kd).getRef (withSlots (c.slots ++ [⟨r, needS⟩]) c) (c.slots.length, needS) = refOfS r := by
    simp only [prims, withSlots, getElem?_done]
  rw [gets_bind, hget]
  cases r with
  | name s =>
    simp only [refOfS, gets_bind, prims, if_true, modify_bind, Gen.TrW.W.pure]
    rfl
  | obj n =>
    simp only [refOfS, gets_bind]
    have h1 : (prims kd).refIsStr (.obj false n) = false := rfl
    rw [h1]
    simp only [Bool.false_eq_true, if_false]
    unfold Gen.TrW.checkType
    simp only [bind_bind, gets_bind]
    have hinst : (prims kd).isInstance (withSlots (c.slots ++ [⟨SRef.obj n, needS⟩]) c) (.obj false n) needS =
        (match c.kind n with
          | none => false
          | some k => !(needS && k != .s)) := rfl
    have hty : (prims kd).typeOf (c.slots.length, needS) = needS := rfl
    rw [hty, hinst]
    cases hk : c.kind n with
    | none => simp [raise_bind, excOf]
    | some k =>
      simp only
      by_cases hc : (needS && k != .s) = true
      · simp [hc, raise_bind, excOf]
      · simp only [hc, Bool.not_not, if_false, pure_bind, Gen.TrW.W.pure]
        rfl

/-! ### `_finalize` -/

theorem validateOutput_run (kd : BKind) (b : String) (r : Ref) (c : Circ) :
    Gen.TrW.validateOutput (prims kd) b r c = (prims kd).validateBlk r c := by
  unfold Gen.TrW.validateOutput Gen.TrW.W.tryExcept
  rcases (prims kd).validateBlk r c with ⟨c1, res⟩
  cases res with
  | ok a => rfl
  | error e => simp only; split <;> rfl

theorem prims_validateBlk (kd : BKind) (r : Ref) (c : Circ) :
    (prims kd).validateBlk r c = (match Wiring.validateBlk c r with
      | .ok (c', r') => (c', .ok r')
      | .error e => (c, .error (excOf e))) := rfl

theorem mapM_validate (kd : BKind) (b : String) (rs : List Ref) : ∀ (c : Circ),
    Gen.TrW.W.mapM rs (fun r => Gen.TrW.validateOutput (prims kd) b r) c =
      (match Wiring.validateList c rs with
        | (c', .ok rs') => (c', .ok rs')
        | (c', .error e) => (c', .error (excOf e))) := by
  induction rs with
  | nil => intro c; rfl
  | cons r rest ih =>
    intro c
    simp only [Gen.TrW.W.mapM, Wiring.validateList]
    have h1 := validateOutput_run kd b r c
    rw [prims_validateBlk] at h1
    cases hv : Wiring.validateBlk c r with
    | error e =>
      rw [hv] at h1
      rw [bind_err h1]
    | ok p =>
      obtain ⟨c1, r'⟩ := p
      rw [hv] at h1
      rw [bind_ok h1]
      have h2 := ih c1
      cases hl : Wiring.validateList c1 rest with
      | mk c2 res =>
        rw [hl] at h2
        cases res with
        | error e => rw [bind_err h2]; simp only [hl]
        | ok rs' => rw [bind_ok h2]; simp only [hl]; rfl

theorem dictSet_mid (done rest : Inputs) (k : String) (i v : Inp)
    (hnd : ((done ++ (k, i) :: rest).map (·.1)).Nodup) :
    dictSet (done ++ (k, i) :: rest) k v = done ++ (k, v) :: rest := by
  have hany : (done ++ (k, i) :: rest).any (fun p => p.1 == k) = true := by simp
  simp only [dictSet, hany, if_true, List.map_append, List.map_cons, beq_self_eq_true]
  simp only [List.map_append, List.map_cons, List.nodup_append, List.nodup_cons, List.mem_map,
    List.mem_cons] at hnd
  have h1 : ∀ p ∈ done, (p.1 == k) = false := by
    intro p hp
    simp only [beq_eq_false_iff_ne, ne_eq]
    intro e
    exact hnd.2.2 p.1 ⟨p, hp, rfl⟩ k (Or.inl rfl) e
  have h2 : ∀ p ∈ rest, (p.1 == k) = false := by
    intro p hp
    simp only [beq_eq_false_iff_ne, ne_eq]
    intro e
    exact hnd.2.1.1 ⟨p, hp, e⟩
  congr 1
  · have : ∀ l : Inputs, (∀ p ∈ l, (p.1 == k) = false) →
        l.map (fun p => if (p.1 == k) = true then (k, v) else p) = l := by
      intro l hl
      induction l with
      | nil => rfl
      | cons x r ih =>
        simp only [List.map_cons, hl x (by simp), Bool.false_eq_true, if_false]
        rw [ih (fun p hp => hl p (by simp [hp]))]
    exact this done h1
  · congr 1
    have : ∀ l : Inputs, (∀ p ∈ l, (p.1 == k) = false) →
        l.map (fun p => if (p.1 == k) = true then (k, v) else p) = l := by
      intro l hl
      induction l with
      | nil => rfl
      | cons x r ih =>
        simp only [List.map_cons, hl x (by simp), Bool.false_eq_true, if_false]
        rw [ih (fun p hp => hl p (by simp [hp]))]
    exact this rest h2

/-- the body of the loop over `blk.inputs.items()` -/
def itemBody (kd : BKind) (v1 : String) : List Ref → String × Inp → Gen.TrW.W Circ (List Ref) :=
  fun v2 (v3, v4) =>
    Gen.TrW.W.bind (Gen.TrW.W.gets fun s_ => (prims kd).isGroup v4) fun (c_ : Bool) =>
    if c_ then
      Gen.TrW.W.bind (Gen.TrW.W.mapM ((prims kd).members v4) fun v6 => Gen.TrW.validateOutput (prims kd) v1 v6) fun v5 =>
      Gen.TrW.W.bind (Gen.TrW.W.pure (v2 ++ v5)) fun v2 =>
      Gen.TrW.W.bind (Gen.TrW.W.modify ((prims kd).setInput v1 v3 ((prims kd).mkGroup v5))) fun _ =>
      Gen.TrW.W.pure v2
    else
      Gen.TrW.W.bind (Gen.TrW.validateOutput (prims kd) v1 ((prims kd).single v4)) fun v7 =>
      Gen.TrW.W.bind (Gen.TrW.W.pure (v2 ++ [v7])) fun v2 =>
      Gen.TrW.W.bind (Gen.TrW.W.modify ((prims kd).setInput v1 v3 ((prims kd).mkSingle v7))) fun _ =>
      Gen.TrW.W.pure v2

/-- the body of the loop over `all_inputs` -/
def connBody (kd : BKind) (v1 : String) : Unit → Ref → Gen.TrW.W Circ Unit :=
  fun _ v4 =>
    Gen.TrW.W.bind (Gen.TrW.W.gets fun s_ => !((prims kd).isConst v4)) fun (c_ : Bool) =>
    if c_ then
      Gen.TrW.W.bind (Gen.TrW.W.modify ((prims kd).addIconn v1 v4)) fun _ =>
      Gen.TrW.W.bind (Gen.TrW.W.modify ((prims kd).addOconnByName v4 v1)) fun _ =>
      Gen.TrW.W.pure ()
    else
      Gen.TrW.W.pure ()

theorem item_step (kd : BKind) (b : String) (c : Circ) (done rest : Inputs) (k : String) (i : Inp)
    (acc : List Ref) (hb : (c.kind b).isSome) (hin : c.inputs b = done ++ (k, i) :: rest)
    (hnd : ((done ++ (k, i) :: rest).map (·.1)).Nodup) :
    itemBody kd b acc (k, i) c =
      (match Wiring.resolveInput c i with
        | (c1, .error e) => (c1, .error (excOf e))
        | (c1, .ok i') =>
          ({ c1 with inputs := upd c1.inputs b (done ++ (k, i') :: rest) }, .ok (acc ++ i'.refs))) := by
  unfold itemBody
  simp only [gets_bind]
  cases i with
  | group rs =>
    have hg : (prims kd).isGroup (.group rs) = true := rfl
    have hm : (prims kd).members (.group rs) = rs := rfl
    rw [hg, hm]
    simp only [if_true]
    have h1 := mapM_validate kd b rs c
    simp only [Wiring.resolveInput]
    cases hl : Wiring.validateList c rs with
    | mk c1 res =>
      rw [hl] at h1
      have vl := validateList_vl rs _ _ _ hl
      cases res with
      | error e => rw [bind_err h1]
      | ok rs' =>
        rw [bind_ok h1, pure_bind, modify_bind, prims_setInput]
        have : c1.inputs b = done ++ (k, .group rs) :: rest := by
          rw [vl.grow.inputs b (fun hf => hf) hb]; exact hin
        rw [this, dictSet_mid _ _ _ _ _ hnd]
        rfl
  | single r =>
    have hg : (prims kd).isGroup (.single r) = false := rfl
    have hm : (prims kd).single (.single r) = r := rfl
    rw [hg, hm]
    simp only [Bool.false_eq_true, if_false]
    have h1 := validateOutput_run kd b r c
    rw [prims_validateBlk] at h1
    simp only [Wiring.resolveInput]
    cases hv : Wiring.validateBlk c r with
    | error e =>
      rw [hv] at h1
      rw [bind_err h1]
    | ok p =>
      obtain ⟨c1, r'⟩ := p
      rw [hv] at h1
      have vb := validateBlk_vb hv
      rw [bind_ok h1, pure_bind, modify_bind, prims_setInput]
      have : c1.inputs b = done ++ (k, .single r) :: rest := by
        rw [vb.grow.inputs b (fun hf => hf) hb]; exact hin
      rw [this, dictSet_mid _ _ _ _ _ hnd]
      rfl

theorem items_loop (kd : BKind) (b : String) (todo : Inputs) : ∀ (c : Circ) (done : Inputs) (acc : List Ref),
    (c.kind b).isSome → c.inputs b = done ++ todo → ((done ++ todo).map (·.1)).Nodup →
    Gen.TrW.W.foldM todo acc (itemBody kd b) c =
      (match Wiring.resolveItems c b done todo with
        | (c', none) => (c', .ok (acc ++ allRefs (mapI todo)))
        | (c', some e) => (c', .error (excOf e))) := by
  induction todo with
  | nil =>
    intro c done acc _ _ _
    simp [Gen.TrW.W.foldM, Gen.TrW.W.pure, Wiring.resolveItems, mapI, allRefs]
  | cons p rest ih =>
    obtain ⟨k, i⟩ := p
    intro c done acc hb hin hnd
    simp only [Gen.TrW.W.foldM, Wiring.resolveItems]
    have hstep := item_step kd b c done rest k i acc hb hin hnd
    cases hr : Wiring.resolveInput c i with
    | mk c1 res =>
      rw [hr] at hstep
      have ri := resolveInput_ri hr
      cases res with
      | error e => rw [bind_err hstep]
      | ok i' =>
        rw [bind_ok hstep]
        obtain ⟨ei, _, _⟩ := ri.ok i' rfl
        obtain ⟨kb, hkb⟩ := Option.isSome_iff_exists.mp hb
        have hb1 : (c1.kind b).isSome := isSome_of_kind (ri.grow.kind b kb hkb)
        have := ih { c1 with inputs := upd c1.inputs b (done ++ (k, i') :: rest) } (done ++ [(k, i')])
          (acc ++ i'.refs) hb1 (by simp [upd]) (by
            simpa [List.map_append] using hnd)
        rw [this]
        simp only
        cases Wiring.resolveItems { c1 with inputs := upd c1.inputs b (done ++ (k, i') :: rest) } b
            (done ++ [(k, i')]) rest with
        | mk c' e =>
          cases e with
          | some e => rfl
          | none =>
            simp only
            congr 2
            have : mapI ((k, i) :: rest) = (k, i.mapT) :: mapI rest := by simp [mapI]
            rw [this, allRefs_cons, ei, List.append_assoc]

theorem conn_loop (kd : BKind) (b : String) (refs : List Ref) : ∀ (c : Circ),
    Gen.TrW.W.foldM refs () (connBody kd b) c = (Wiring.connectAll c b refs, .ok ()) := by
  induction refs with
  | nil => intro c; rfl
  | cons r rest ih =>
    intro c
    simp only [Gen.TrW.W.foldM]
    cases r with
    | obj f a =>
      have : connBody kd b () (.obj f a) c =
          ({ c with iconn := upd c.iconn b (addSet (c.iconn b) a),
                    oconn := upd c.oconn a (addSet (c.oconn a) b) }, .ok ()) := rfl
      rw [bind_ok this]
      simp only [Wiring.connectAll]
      exact ih _
    | name s =>
      have : connBody kd b () (.name s) c = (c, .ok ()) := rfl
      rw [bind_ok this]; simp only [Wiring.connectAll]; exact ih _
    | const v =>
      have : connBody kd b () (.const v) c = (c, .ok ()) := rfl
      rw [bind_ok this]; simp only [Wiring.connectAll]; exact ih _
    | val v =>
      have : connBody kd b () (.val v) c = (c, .ok ()) := rfl
      rw [bind_ok this]; simp only [Wiring.connectAll]; exact ih _

/-- the body of the loop over the snapshot `list(self.getblocks(btype))` -/
def blkBody (kd : BKind) : Unit → String → Gen.TrW.W Circ Unit :=
  fun _ v1 =>
    Gen.TrW.W.bind (Gen.TrW.W.pure (([] : List Ref))) fun v2 =>
    Gen.TrW.W.bind (Gen.TrW.W.bind (Gen.TrW.W.gets fun s_ => (prims kd).inputItems s_ v1) fun l_ =>
      Gen.TrW.W.foldM l_ v2 (itemBody kd v1)) fun v2 =>
    Gen.TrW.W.bind (Gen.TrW.W.bind (Gen.TrW.W.pure v2) fun l_ =>
      Gen.TrW.W.foldM l_ () (connBody kd v1)) fun _ =>
    Gen.TrW.W.pure ()

/-- the keys of every `CBlock.inputs` dict are distinct (they are the keys of a Python dict) -/
def KeysOK (c : Circ) : Prop :=
  ∀ b cls, c.kind b = some (.c cls) → ((c.inputs b).map (·.1)).Nodup

theorem blk_run (kd : BKind) (b : String) (c : Circ) (hb : (c.kind b).isSome)
    (hnd : ((c.inputs b).map (·.1)).Nodup) :
    blkBody kd () b c = ofState (Wiring.finalizeBlk c b) := by
  unfold blkBody Wiring.finalizeBlk
  rw [pure_bind, bind_bind, gets_bind]
  have hit : (prims kd).inputItems c b = c.inputs b := rfl
  rw [hit]
  have hl := items_loop kd b (c.inputs b) c [] [] hb (by simp) (by simpa using hnd)
  cases hr : Wiring.resolveItems c b [] (c.inputs b) with
  | mk c1 e =>
    rw [hr] at hl
    have rit := resolveItems_rit b _ c [] _ _ hb (by simp) hr
    cases e with
    | some e =>
      simp only at hl
      rw [bind_err hl]; rfl
    | none =>
      simp only [List.nil_append] at hl
      rw [bind_ok hl, bind_bind, pure_bind]
      obtain ⟨a1, _, _⟩ := rit.ok rfl
      rw [bind_ok (conn_loop kd b _ c1)]
      simp only [Gen.TrW.W.pure, ofState, a1, List.nil_append]

theorem keysOK_step {c c1 : Circ} {b : String} (hk : KeysOK c) (hb : (c.kind b).isSome)
    (h : Wiring.finalizeBlk c b = (c1, none)) : KeysOK c1 := by
  have fb := finalizeBlk_fb hb h
  obtain ⟨f1, _, _⟩ := fb.ok rfl
  intro x cls hx
  by_cases exb : x = b
  · subst exb
    obtain ⟨kb, hkb⟩ := Option.isSome_iff_exists.mp hb
    have := fb.grow.kind x kb hkb
    rw [hx] at this; cases this
    rw [f1]
    have : (mapI (c.inputs x)).map (·.1) = (c.inputs x).map (·.1) := by simp [mapI]
    rw [this]; exact hk x cls hkb
  · cases hc : c.kind x with
    | some k0 =>
      have := fb.grow.kind x k0 hc
      rw [hx] at this; cases this
      rw [fb.grow.inputs x exb (isSome_of_kind hc)]
      exact hk x cls hc
    | none =>
      rcases fb.grow.newFresh x hc with h0 | h0 | ⟨_, t, ht, _⟩
      · rw [hx] at h0; cases h0
      · rw [hx] at h0; cases h0
      · rw [ht]; simp

theorem pass_run (kd : BKind) (L : List String) : ∀ (c : Circ), KeysOK c →
    (∀ b ∈ L, ∃ cls, c.kind b = some (.c cls)) →
    Gen.TrW.W.foldM L () (blkBody kd) c = ofState (Wiring.finalizePass c L) ∧
    (∀ c', Wiring.finalizePass c L = (c', none) → KeysOK c') := by
  induction L with
  | nil =>
    intro c hk _
    exact ⟨rfl, fun c' h => by simp [Wiring.finalizePass] at h; rw [← h]; exact hk⟩
  | cons b rest ih =>
    intro c hk hL
    obtain ⟨cls, hb⟩ := hL b (by simp)
    have hrun := blk_run kd b c (isSome_of_kind hb) (hk b cls hb)
    simp only [Gen.TrW.W.foldM, Wiring.finalizePass]
    cases hf : Wiring.finalizeBlk c b with
    | mk c1 e =>
      rw [hf] at hrun
      cases e with
      | some e =>
        simp only [ofState] at hrun
        rw [bind_err hrun]
        exact ⟨rfl, fun c' h => by cases h⟩
      | none =>
        simp only [ofState] at hrun
        rw [bind_ok hrun]
        have fb := finalizeBlk_fb (isSome_of_kind hb) hf
        have hk1 := keysOK_step hk (isSome_of_kind hb) hf
        have hL1 : ∀ x ∈ rest, ∃ cls, c1.kind x = some (.c cls) := fun x hx => by
          obtain ⟨cx, hcx⟩ := hL x (by simp [hx])
          exact ⟨cx, fb.grow.kind x _ hcx⟩
        exact ih c1 hk1 hL1

theorem snapshot_cblock (kd : BKind) (c : Circ) : (prims kd).snapshot .cblock c = cblockNames c := rfl
theorem snapshot_not (kd : BKind) (c : Circ) : (prims kd).snapshot .not c = notNames c := rfl

/-- `Circuit._finalize`: the translated program IS the model's two passes; the second snapshot is
    taken from the circuit the first pass left -/
theorem finalizeInner_run (kd : BKind) (c : Circ) (hk : KeysOK c) :
    Gen.TrW.finalizeInner (prims kd) c = ofState (Wiring.finalizeCore c) ∧
    (∀ c', Wiring.finalizeCore c = (c', none) → KeysOK c') := by
  have hshape : Gen.TrW.finalizeInner (prims kd) =
      Gen.TrW.W.bind (Gen.TrW.W.bind (Gen.TrW.W.pure [Gen.TrW.BType.cblock, Gen.TrW.BType.not]) fun l_ =>
        Gen.TrW.W.foldM l_ () fun _ v0 =>
          Gen.TrW.W.bind (Gen.TrW.W.bind (Gen.TrW.W.gets fun s_ => (prims kd).snapshot v0 s_) fun l_ =>
            Gen.TrW.W.foldM l_ () (blkBody kd)) fun _ =>
          Gen.TrW.W.pure ()) fun _ =>
      Gen.TrW.W.pure () := rfl
  rw [hshape]
  unfold Wiring.finalizeCore
  simp only [bind_bind, pure_bind, Gen.TrW.W.foldM, gets_bind, snapshot_cblock]
  have hL1 : ∀ b ∈ cblockNames c, ∃ cls, c.kind b = some (.c cls) := fun b hb => (mem_cblockNames.mp hb).2
  obtain ⟨p1, k1⟩ := pass_run kd (cblockNames c) c hk hL1
  cases h1 : Wiring.finalizePass c (cblockNames c) with
  | mk c1 e =>
    rw [h1] at p1
    cases e with
    | some e =>
      simp only [ofState] at p1
      rw [bind_err p1]
      exact ⟨rfl, fun c' h => by cases h⟩
    | none =>
      simp only [ofState] at p1
      rw [bind_ok p1]
      simp only [bind_bind, pure_bind, gets_bind, snapshot_not]
      have hk1 := k1 c1 h1
      have hL2 : ∀ b ∈ notNames c1, ∃ cls, c1.kind b = some (.c cls) := fun b hb =>
        ⟨.not, (mem_notNames.mp hb).2⟩
      obtain ⟨p2, k2⟩ := pass_run kd (notNames c1) c1 hk1 hL2
      cases h2 : Wiring.finalizePass c1 (notNames c1) with
      | mk c2 e2 =>
        rw [h2] at p2
        cases e2 with
        | some e =>
          simp only [ofState] at p2
          rw [bind_err p2]
          exact ⟨rfl, fun c' h => by cases h⟩
        | none =>
          simp only [ofState] at p2
          rw [bind_ok p2]
          exact ⟨rfl, fun c' h => by cases h; exact k2 c2 h2⟩

/-! ### `finalize` -/

theorem keysOK_grow {c c' : Circ} (g : Grow NoP c c') (hk : KeysOK c) : KeysOK c' := by
  intro x cls hx
  cases hc : c.kind x with
  | some k0 =>
    have := g.kind x k0 hc
    rw [hx] at this; cases this
    rw [g.inputs x (fun hf => hf) (isSome_of_kind hc)]
    exact hk x cls hc
  | none =>
    rcases g.newFresh x hc with h0 | h0 | ⟨_, t, ht, _⟩
    · rw [hx] at h0; cases h0
    · rw [hx] at h0; cases h0
    · rw [ht]; simp

theorem resolveSlots_keys (todo : List Slot) : ∀ (c : Circ) (done : List Slot) (c' : Circ)
    (e : Option Err), Wiring.resolveSlots c done todo = (c', e) → KeysOK c → KeysOK c' := by
  induction todo with
  | nil =>
    intro c done c' e h hk
    simp [Wiring.resolveSlots] at h; obtain ⟨rfl, rfl⟩ := h
    exact hk
  | cons sl rest ih =>
    intro c done c' e h hk
    unfold Wiring.resolveSlots at h
    split at h
    · exact ih _ _ _ _ h hk
    · split at h
      · cases h; exact hk
      · next c1 r' hv =>
        have hk1 := keysOK_grow (validateBlk_vb hv).grow hk
        split at h
        · cases h; exact hk1
        · exact ih _ _ _ _ h hk1

/-- `Circuit.finalize` -/
theorem finalize_run (kd : BKind) (c : Circ) (hk : KeysOK c) :
    Gen.TrW.finalize (prims kd) c = ofState (Wiring.finalize c) := by
  unfold Gen.TrW.finalize Wiring.finalize
  rw [gets_bind]
  have hf : (prims kd).finalized c = c.finalized := rfl
  rw [hf]
  cases hfin : c.finalized
  · simp only [Bool.not_false, if_true, Bool.false_eq_true, if_false]
    have hr := resolve_run kd c
    cases h1 : Wiring.resolve c with
    | mk c1 e1 =>
      rw [h1] at hr
      cases e1 with
      | some e =>
        simp only [ofState] at hr ⊢
        rw [bind_err hr]
      | none =>
        simp only [ofState] at hr
        rw [bind_ok hr]
        have hk1 := resolveSlots_keys _ _ _ _ _ h1 hk
        obtain ⟨hi, _⟩ := finalizeInner_run kd c1 hk1
        cases h2 : Wiring.finalizeCore c1 with
        | mk c2 e2 =>
          rw [h2] at hi
          cases e2 with
          | some e =>
            simp only [ofState] at hi ⊢
            rw [bind_err hi]; simp only [h2]
          | none =>
            simp only [ofState] at hi ⊢
            rw [bind_ok hi, modify_bind]; simp only [h2]
            rfl
  · simp only [Bool.not_true, Bool.false_eq_true, if_false, if_true]
    rfl

/-! ### the start: resolver, then `finalize` -/

/-- the model's completion of the wiring at the start -/
def startPrefix (c : Circ) : Circ × Option Err :=
  match Wiring.resolve c with
  | (c1, some e) => (c1, some e)
  | (c1, none) => Wiring.finalize c1

theorem startWiring_run (kd : BKind) (c : Circ) (hk : KeysOK c) :
    Gen.TrW.startWiring (prims kd) c = ofState (startPrefix c) := by
  unfold Gen.TrW.startWiring startPrefix
  have hr := resolve_run kd c
  cases h1 : Wiring.resolve c with
  | mk c1 e1 =>
    rw [h1] at hr
    cases e1 with
    | some e =>
      simp only [ofState] at hr ⊢
      rw [bind_err hr]
    | none =>
      simp only [ofState] at hr
      rw [bind_ok hr]
      have hk1 := resolveSlots_keys _ _ _ _ _ h1 hk
      have hf := finalize_run kd c1 hk1
      cases h2 : Wiring.finalize c1 with
      | mk c2 e2 =>
        rw [h2] at hf
        cases e2 with
        | some e => simp only [ofState] at hf ⊢; rw [bind_err hf]; simp only [h2]
        | none => simp only [ofState] at hf ⊢; rw [bind_ok hf]; simp only [h2]; rfl

/-- the model's `start` is built on exactly that prefix -/
theorem start_uses_prefix (c : Circ) (h1 : c.stopped = false) (h2 : c.order.isEmpty = false) :
    Wiring.start c =
      (match startPrefix c with
        | (c2, some e) => ({ c2 with stopped := true }, some e)
        | (c2, none) => ({ c2 with stopped := true }, Wiring.startBlocks c2 c2.order)) := by
  unfold Wiring.start startPrefix
  simp only [h1, h2, Bool.false_eq_true, if_false]
  cases Wiring.resolve c with
  | mk c1 e1 =>
    cases e1 with
    | some e => rfl
    | none =>
      simp only
      cases Wiring.finalize c1 with
      | mk c2 e2 => cases e2 <;> rfl

end Edzed.WiringTie
