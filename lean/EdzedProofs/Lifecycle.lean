/- helper lemmas for C08 (life cycle) -/
import EdzedModel.Lifecycle

namespace Edzed.Lifecycle

/-! ### what the property observes in a trace -/

def stops (tr : List Ev) : List Nat := tr.filterMap fun | .stop k => some k | _ => none
def starteds (tr : List Ev) : List Nat := tr.filterMap fun | .started k => some k | _ => none
def starts (tr : List Ev) : List Nat := tr.filterMap fun | .start k => some k | _ => none
def sabs (tr : List Ev) : List Nat := tr.filterMap fun | .sab k => some k | _ => none
def saes (tr : List Ev) : List Nat := tr.filterMap fun | .sae k _ => some k | _ => none
/-- calls of the output function of block `k` (true = with stop_data) -/
def outsOf (k : Nat) (tr : List Ev) : List Bool :=
  tr.filterMap fun | .out j sd => if j = k then some sd else none | _ => none

@[simp] theorem stops_append (a b : List Ev) : stops (a ++ b) = stops a ++ stops b := by simp [stops]
@[simp] theorem starteds_append (a b : List Ev) : starteds (a ++ b) = starteds a ++ starteds b := by simp [starteds]
@[simp] theorem sabs_append (a b : List Ev) : sabs (a ++ b) = sabs a ++ sabs b := by simp [sabs]
@[simp] theorem saes_append (a b : List Ev) : saes (a ++ b) = saes a ++ saes b := by simp [saes]
@[simp] theorem outsOf_append (k : Nat) (a b : List Ev) : outsOf k (a ++ b) = outsOf k a ++ outsOf k b := by simp [outsOf]

/-! ### start loop -/

theorem startLoop_stops (i : Nat) (bs : List Blk) :
    stops (startLoop i bs).1 = [] ∧ sabs (startLoop i bs).1 = [] ∧ saes (startLoop i bs).1 = [] ∧
    ∀ k, outsOf k (startLoop i bs).1 = [] := by
  induction bs generalizing i with
  | nil => simp [startLoop, stops, sabs, saes, outsOf]
  | cons b rest ih =>
    unfold startLoop
    split
    · simp [stops, sabs, saes, outsOf]
    · have := ih (i + 1)
      simp [stops, sabs, saes, outsOf] at this ⊢
      exact this

theorem startLoop_starteds (i : Nat) (bs : List Blk) :
    starteds (startLoop i bs).1 = (startLoop i bs).2.1 := by
  induction bs generalizing i with
  | nil => simp [startLoop, starteds]
  | cons b rest ih =>
    unfold startLoop
    split
    · simp [starteds]
    · have := ih (i + 1)
      simp [starteds] at this ⊢
      exact this

theorem startLoop_range (i : Nat) (bs : List Blk) :
    ∃ n, n ≤ bs.length ∧ (startLoop i bs).2.1 = List.range' i n := by
  induction bs generalizing i with
  | nil => exact ⟨0, by simp, by simp [startLoop]⟩
  | cons b rest ih =>
    unfold startLoop
    split
    · exact ⟨0, by simp, by simp⟩
    · obtain ⟨n, hn, h⟩ := ih (i + 1)
      exact ⟨n + 1, by simp; omega, by simp [h, List.range'_succ]⟩

theorem startLoop_nodup (i : Nat) (bs : List Blk) : (startLoop i bs).2.1.Nodup := by
  obtain ⟨n, _, h⟩ := startLoop_range i bs
  rw [h]; exact List.nodup_range' ..

/-- a block is started iff no start() of it or of an earlier block raises -/
theorem startLoop_mem (i : Nat) (bs : List Blk) (k : Nat) :
    k ∈ (startLoop i bs).2.1 ↔ i ≤ k ∧ k < i + bs.length ∧ ∀ j, j ≤ k - i → (bs.getD j {}).fStart = false := by
  induction bs generalizing i with
  | nil => simp [startLoop]
  | cons b rest ih =>
    unfold startLoop
    split
    · next hb =>
      simp only [List.not_mem_nil, false_iff]
      intro ⟨_, _, h⟩
      have := h 0 (by omega)
      simp [hb] at this
    · next hb =>
      simp only [List.mem_cons, ih (i + 1)]
      constructor
      · rintro (rfl | ⟨h1, h2, h3⟩)
        · refine ⟨by omega, by simp, ?_⟩
          intro j hj
          have : j = 0 := by omega
          subst this; simpa using hb
        · refine ⟨by omega, by simp; omega, ?_⟩
          intro j hj
          cases j with
          | zero => simpa using hb
          | succ j => simpa using h3 j (by omega)
      · rintro ⟨h1, h2, h3⟩
        by_cases hk : k = i
        · exact .inl hk
        · refine .inr ⟨by omega, by simp at h2; omega, ?_⟩
          intro j hj
          simpa using h3 (j + 1) (by omega)

/-- no second termination cause cancels the simulation task -/
@[simp] theorem second_any_false (o : Option (Second × Nat)) :
    (o.any fun x => x.1.cancelsSimtask) = false := by
  cases o with
  | none => rfl
  | some x => cases x with | mk a b => cases a <;> rfl

/-! ### `_run_tasks` -/

theorem cancelEnd_k (l T : Nat) (j : Job) : (Job.cancelEnd l T j).k = j.k := by
  unfold Job.cancelEnd; split <;> rfl

theorem atCancel_k (l T : Nat) (j : Job) : (Job.atCancel l T j).k = j.k := by
  unfold Job.atCancel; split
  · split
    · rfl
    · exact cancelEnd_k l T j
  · exact cancelEnd_k l T j

/-- every job gets exactly one fate -/
theorem awaitJobs_ks (limit : Option Nat) (T now : Nat) (js : List Job) :
    (awaitJobs limit T now js).1.map (·.k) = js.map (·.k) := by
  induction js generalizing now with
  | nil => simp [awaitJobs]
  | cons j js ih =>
    unfold awaitJobs
    split
    · simp [ih]
    · split
      · simp [atCancel_k, Function.comp_def]
      · simp [ih]

theorem doneBy_time (j : Job) (now : Nat) (h : j.doneBy now = true) : j.dur.getD now ≤ now := by
  unfold Job.doneBy at h
  cases hd : j.dur with
  | none => simp [hd] at h
  | some d => simp [hd] at h ⊢; exact h

theorem wake_le (j : Job) (now M : Nat) (hnow : now ≤ M) (hj : j.timeout ≤ M) : (j.wake now).1 ≤ M := by
  unfold Job.wake
  cases j.dur with
  | none => simp; omega
  | some d =>
    simp only []
    split
    · simp; omega
    · simp; omega

/-- without a cancellation the loop and every task end within the longest time-out -/
theorem awaitJobs_bound (M T : Nat) (now : Nat) (js : List Job) (hnow : now ≤ M)
    (h : ∀ j ∈ js, j.timeout ≤ M) :
    (awaitJobs none T now js).2.1 ≤ M ∧ ∀ e ∈ (awaitJobs none T now js).1, e.time ≤ M := by
  induction js generalizing now with
  | nil => simp [awaitJobs, hnow]
  | cons j js ih =>
    have hj : j.timeout ≤ M := h j (by simp)
    have hjs : ∀ x ∈ js, x.timeout ≤ M := fun x hx => h x (by simp [hx])
    unfold awaitJobs
    split
    · next hd =>
      have := ih now hnow hjs
      refine ⟨this.1, ?_⟩
      intro e he
      simp only [List.mem_cons] at he
      rcases he with rfl | he
      · have := doneBy_time j now hd
        simp only; omega
      · exact this.2 e he
    · have hw := wake_le j now M hnow hj
      simp only [cancelledBefore]
      have := ih _ hw hjs
      refine ⟨this.1, ?_⟩
      intro e he
      simp only [List.mem_cons] at he
      rcases he with rfl | he
      · exact hw
      · exact this.2 e he

theorem runTasks_ks (limit : Option Nat) (js : List Job) :
    (runTasks limit js).1.map (·.k) = (sortJobs js).map (·.k) := awaitJobs_ks ..

theorem sortJobs_perm (js : List Job) : (sortJobs js).Perm js := List.mergeSort_perm ..
theorem sortEnds_perm (l : List JobEnd) : (sortEnds l).Perm l := List.mergeSort_perm ..

/-! ### synchronous set -/

/-- the on_success event to another OutputFunc is one call of that block's function, or nothing -/
theorem chain_cases (bs : List Blk) (k : Nat) :
    chain bs k = [] ∨ ∃ j, (blk bs k).onSuccess = some j ∧ (blk bs j).kind = .outf ∧ chain bs k = [Ev.out j false] := by
  unfold chain
  cases h : (blk bs k).onSuccess with
  | none => simp
  | some j =>
    by_cases hk : (blk bs j).kind = .outf
    · exact .inr ⟨j, rfl, hk, by simp [hk]⟩
    · simp [hk]

theorem chain_evs (bs : List Blk) (k : Nat) :
    stops (chain bs k) = [] ∧ starteds (chain bs k) = [] ∧ sabs (chain bs k) = [] ∧ saes (chain bs k) = [] := by
  rcases chain_cases bs k with h | ⟨j, _, _, h⟩ <;> simp [h, stops, starteds, sabs, saes]

theorem stopSync_evs (bs : List Blk) (s : CState) (k : Nat) :
    stops (stopSync bs s k).2 = [k] ∧ starteds (stopSync bs s k).2 = [] ∧
    sabs (stopSync bs s k).2 = [] ∧ saes (stopSync bs s k).2 = [] := by
  have hc := chain_evs bs k
  unfold stopSync; simp only []
  split <;> simp [stops, starteds, sabs, saes] <;> simp_all [stops, starteds, sabs, saes]

theorem stopSyncAll_evs (bs : List Blk) (s : CState) (os : List Nat) :
    stops (stopSyncAll bs s os).2 = os ∧ starteds (stopSyncAll bs s os).2 = [] ∧
    sabs (stopSyncAll bs s os).2 = [] ∧ saes (stopSyncAll bs s os).2 = [] := by
  induction os generalizing s with
  | nil => simp [stopSyncAll, stops, starteds, sabs, saes]
  | cons k ks ih =>
    unfold stopSyncAll
    have h1 := stopSync_evs bs s k
    have h2 := ih (stopSync bs s k).1
    simp [h1, h2]

/-- the events of the synchronous part: only stop() calls of the listed blocks and calls of
    output functions -/
theorem stopSyncAll_mem (bs : List Blk) (s : CState) (os : List Nat) (e : Ev)
    (he : e ∈ (stopSyncAll bs s os).2) :
    (∃ k, k ∈ os ∧ e = .stop k) ∨ (∃ k b, e = .out k b) := by
  induction os generalizing s with
  | nil => simp [stopSyncAll] at he
  | cons k ks ih =>
    unfold stopSyncAll at he
    simp only [List.mem_append] at he
    rcases he with he | he
    · unfold stopSync at he
      simp only [] at he
      split at he
      · simp only [List.cons_append, List.nil_append, List.mem_cons] at he
        rcases he with rfl | rfl | he
        · exact .inl ⟨k, by simp, rfl⟩
        · exact .inr ⟨k, true, rfl⟩
        · rcases chain_cases bs k with h | ⟨j, _, _, h⟩
          · simp [h] at he
          · simp only [h, List.mem_singleton] at he
            exact .inr ⟨j, false, he⟩
      · simp at he
        exact .inl ⟨k, by simp, he⟩
    · rcases ih _ he with ⟨j, hj, rfl⟩ | ⟨j, b, rfl⟩
      · exact .inl ⟨j, by simp [hj], rfl⟩
      · exact .inr ⟨j, b, rfl⟩

/-! ### `_stop_sblocks` -/

theorem stopJob_timeout (bs : List Blk) (failed inited : List Nat) (k : Nat) :
    (stopJob bs failed inited k).timeout = (blk bs k).stopTimeout := by
  unfold stopJob; simp only []
  split
  · split <;> rfl
  · split <;> rfl

theorem stopJob_k (bs : List Blk) (failed inited : List Nat) (k : Nat) :
    (stopJob bs failed inited k).k = k := by
  unfold stopJob; simp only []
  split
  · split <;> rfl
  · split <;> rfl

section
variable (bs : List Blk) (failed inited started timers0 oa os : List Nat)

/-- the five segments of the clean-up trace -/
def seg1 : List Ev := oa.map Ev.stop
def seg2 : List Ev := (oa.filter (outaDelivers bs inited)).map (Ev.out · true)
def seg3 : List Ev := oa.flatMap fun k =>
    if immediate bs failed inited k then [Ev.sab k, Ev.sae k (stopJob bs failed inited k).fin]
    else [Ev.sab k]
def ends : List JobEnd := (runTasks none (oa.map (stopJob bs failed inited))).1
def seg4 : List Ev :=
  (sortEnds ((ends bs failed inited oa).filter fun e => !immediate bs failed inited e.k)).map
    fun e => Ev.sae e.k (seenRes bs e)
def seg5 : List Ev := (stopSyncAll bs { timers := timers0, stopped := oa, started := started } os).2

theorem stopSblocks_trace :
    (stopSblocks bs failed inited started timers0 oa os).trace =
      seg1 oa ++ seg2 bs inited oa ++ seg3 bs failed inited oa ++ seg4 bs failed inited oa
        ++ seg5 bs started timers0 oa os := rfl

theorem seg1_evs : stops (seg1 oa) = oa ∧ starteds (seg1 oa) = [] ∧ sabs (seg1 oa) = [] ∧ saes (seg1 oa) = [] := by
  induction oa with
  | nil => simp [seg1, stops, starteds, sabs, saes]
  | cons k ks ih =>
    simp only [seg1, List.map_cons] at ih ⊢
    simp [stops, starteds, sabs, saes] at ih ⊢
    exact ih

theorem seg2_evs : stops (seg2 bs inited oa) = [] ∧ starteds (seg2 bs inited oa) = [] ∧
    sabs (seg2 bs inited oa) = [] ∧ saes (seg2 bs inited oa) = [] := by
  simp [seg2, stops, starteds, sabs, saes, List.filterMap_map]

theorem seg3_evs : stops (seg3 bs failed inited oa) = [] ∧ starteds (seg3 bs failed inited oa) = [] ∧
    sabs (seg3 bs failed inited oa) = oa ∧
    saes (seg3 bs failed inited oa) = oa.filter (immediate bs failed inited) := by
  induction oa with
  | nil => simp [seg3, stops, starteds, sabs, saes]
  | cons k ks ih =>
    simp only [seg3, List.flatMap_cons] at ih ⊢
    simp only [stops_append, starteds_append, sabs_append, saes_append, ih]
    by_cases h : immediate bs failed inited k
    · simp [h, stops, starteds, sabs, saes]
    · simp [h, stops, starteds, sabs, saes]

theorem seg4_evs : stops (seg4 bs failed inited oa) = [] ∧ starteds (seg4 bs failed inited oa) = [] ∧
    sabs (seg4 bs failed inited oa) = [] ∧
    (saes (seg4 bs failed inited oa)).Perm (oa.filter fun k => !immediate bs failed inited k) := by
  refine ⟨by simp [seg4, stops, List.filterMap_map], by simp [seg4, starteds, List.filterMap_map],
    by simp [seg4, sabs, List.filterMap_map], ?_⟩
  have h1 : saes (seg4 bs failed inited oa) =
      (sortEnds ((ends bs failed inited oa).filter fun e => !immediate bs failed inited e.k)).map (·.k) := by
    simp [seg4, saes, List.filterMap_map, Function.comp_def]
  rw [h1]
  refine ((sortEnds_perm _).map _).trans ?_
  have h2 : ((ends bs failed inited oa).filter fun e => !immediate bs failed inited e.k).map (·.k) =
      ((ends bs failed inited oa).map (·.k)).filter fun k => !immediate bs failed inited k := by
    rw [List.filter_map]; rfl
  rw [h2, ends, runTasks_ks]
  refine ((sortJobs_perm _).map _).filter _ |>.trans ?_
  simp [List.map_map, Function.comp_def, stopJob_k]

theorem seg5_evs : stops (seg5 bs started timers0 oa os) = os ∧ starteds (seg5 bs started timers0 oa os) = [] ∧
    sabs (seg5 bs started timers0 oa os) = [] ∧ saes (seg5 bs started timers0 oa os) = [] :=
  stopSyncAll_evs ..

theorem stopSblocks_stops :
    stops (stopSblocks bs failed inited started timers0 oa os).trace = oa ++ os := by
  rw [stopSblocks_trace]
  simp [(seg1_evs oa).1, (seg2_evs bs inited oa).1, (seg3_evs bs failed inited oa).1,
    (seg4_evs bs failed inited oa).1, (seg5_evs bs started timers0 oa os).1]

theorem stopSblocks_starteds :
    starteds (stopSblocks bs failed inited started timers0 oa os).trace = [] := by
  rw [stopSblocks_trace]
  simp [(seg1_evs oa).2.1, (seg2_evs bs inited oa).2.1, (seg3_evs bs failed inited oa).2.1,
    (seg4_evs bs failed inited oa).2.1, (seg5_evs bs started timers0 oa os).2.1]

theorem stopSblocks_sabs :
    sabs (stopSblocks bs failed inited started timers0 oa os).trace = oa := by
  rw [stopSblocks_trace]
  simp [(seg1_evs oa).2.2.1, (seg2_evs bs inited oa).2.2.1, (seg3_evs bs failed inited oa).2.2.1,
    (seg4_evs bs failed inited oa).2.2.1, (seg5_evs bs started timers0 oa os).2.2.1]

theorem stopSblocks_saes :
    (saes (stopSblocks bs failed inited started timers0 oa os).trace).Perm oa := by
  rw [stopSblocks_trace]
  simp only [saes_append, (seg1_evs oa).2.2.2, (seg2_evs bs inited oa).2.2.2, (seg3_evs bs failed inited oa).2.2.2,
    (seg5_evs bs started timers0 oa os).2.2.2, List.nil_append, List.append_nil]
  refine (List.Perm.append_left _ (seg4_evs bs failed inited oa).2.2.2).trans ?_
  exact List.filter_append_perm _ _

theorem stopSblocks_dur (M : Nat) (h : ∀ k ∈ oa, (blk bs k).stopTimeout ≤ M) :
    (stopSblocks bs failed inited started timers0 oa os).dur ≤ M := by
  have : (stopSblocks bs failed inited started timers0 oa os).dur =
      (runTasks none (oa.map (stopJob bs failed inited))).2.1 := rfl
  rw [this]
  unfold runTasks
  refine (awaitJobs_bound M _ 0 _ (Nat.zero_le _) ?_).1
  intro j hj
  rw [(sortJobs_perm _).mem_iff] at hj
  obtain ⟨k, hk, rfl⟩ := List.mem_map.1 hj
  rw [stopJob_timeout]; exact h k hk

end

/-! ### timers -/

theorem arm_stopped (bs : List Blk) (s : CState) (j : Nat) : (arm bs s j).stopped = s.stopped := by
  unfold arm; split <;> rfl

theorem arm_started (bs : List Blk) (s : CState) (j : Nat) : (arm bs s j).started = s.started := by
  unfold arm; split <;> rfl

/-- a timer is armed only for a timer block between its start() and its stop() -/
theorem arm_mem (bs : List Blk) (s : CState) (j x : Nat) (hx : x ∈ (arm bs s j).timers) :
    x ∈ s.timers ∨ (x = j ∧ (blk bs j).kind = .timer ∧ j ∈ s.started ∧ j ∉ s.stopped) := by
  unfold arm at hx
  split at hx
  · next h =>
    simp only [List.mem_cons, List.mem_filter] at hx
    rcases hx with rfl | ⟨hx, _⟩
    · right
      simp only [Bool.and_eq_true, beq_iff_eq, Bool.not_eq_true', List.contains_eq_mem,
        decide_eq_false_iff_not, decide_eq_true_eq] at h
      exact ⟨rfl, h.1.1, h.1.2, h.2⟩
    · exact .inl hx
  · exact .inl hx

theorem armAll_started (bs : List Blk) (s : CState) (ks : List Nat) :
    (armAll bs s ks).started = s.started := by
  induction ks generalizing s with
  | nil => rfl
  | cons k ks ih =>
    have h1 : armAll bs s (k :: ks) =
        armAll bs (match (blk bs k).onSuccess with | some j => arm bs s j | none => s) ks := rfl
    rw [h1, ih]
    split
    · exact arm_started ..
    · rfl

theorem armAll_mem (bs : List Blk) (s : CState) (ks : List Nat) (x : Nat)
    (hx : x ∈ (armAll bs s ks).timers) :
    x ∈ s.timers ∨ (x ∈ s.started ∧ (blk bs x).kind = .timer) := by
  induction ks generalizing s with
  | nil => exact .inl hx
  | cons k ks ih =>
    simp only [armAll, List.foldl_cons] at hx
    rcases ih _ hx with h | ⟨h1, h2⟩
    · split at h
      · next j hj =>
        rcases arm_mem bs s j x h with h | ⟨rfl, h2, h3, _⟩
        · exact .inl h
        · exact .inr ⟨h3, h2⟩
      · exact .inl h
    · right
      refine ⟨?_, h2⟩
      split at h1
      · rwa [arm_started] at h1
      · exact h1

theorem stopSync_stopped (bs : List Blk) (s : CState) (k : Nat) :
    (stopSync bs s k).1.stopped = k :: s.stopped := by
  unfold stopSync; simp only []
  split
  · split <;> simp [arm_stopped]
  · rfl

theorem stopSync_started (bs : List Blk) (s : CState) (k : Nat) :
    (stopSync bs s k).1.started = s.started := by
  unfold stopSync; simp only []
  split
  · split <;> simp [arm_started]
  · rfl

theorem stopSync_timers (bs : List Blk) (s : CState) (k x : Nat)
    (hx : x ∈ (stopSync bs s k).1.timers) :
    x ≠ k ∧ (x ∈ s.timers ∨ (x ∉ s.stopped ∧ x ∈ s.started ∧ (blk bs x).kind = .timer)) := by
  unfold stopSync at hx; simp only [] at hx
  simp only [List.mem_filter, bne_iff_ne, ne_eq] at hx
  refine ⟨hx.2, ?_⟩
  have hx := hx.1
  split at hx
  · split at hx
    · next j hj =>
      rcases arm_mem bs s j x hx with h | ⟨rfl, h2, h3, h4⟩
      · exact .inl h
      · exact .inr ⟨h4, h3, h2⟩
    · exact .inl hx
  · exact .inl hx

/-- a timer handle that is pending after the synchronous set was stopped belongs to a block
    outside the set: it was pending before, or it was armed for a started, not yet stopped
    timer block -/
theorem stopSyncAll_timers (bs : List Blk) (s : CState) (os : List Nat) (x : Nat)
    (hx : x ∈ (stopSyncAll bs s os).1.timers) :
    x ∉ os ∧ (x ∈ s.timers ∨ (x ∉ s.stopped ∧ x ∈ s.started ∧ (blk bs x).kind = .timer)) := by
  induction os generalizing s with
  | nil => exact ⟨by simp, .inl hx⟩
  | cons k ks ih =>
    unfold stopSyncAll at hx
    obtain ⟨h1, h2⟩ := ih _ hx
    rw [stopSync_stopped, stopSync_started] at h2
    rcases h2 with h2 | ⟨h2, h3, h4⟩
    · obtain ⟨hne, h5⟩ := stopSync_timers bs s k x h2
      exact ⟨by simp [h1, hne], h5⟩
    · simp only [List.mem_cons, not_or] at h2
      exact ⟨by simp [h1, h2.1], .inr ⟨h2.2, h3, h4⟩⟩

/-! ### the whole run -/

theorem plan_startEvs (c : Cfg) : (plan c).startEvs = (startLoop 0 c.blocks).1 := rfl
theorem plan_started (c : Cfg) : (plan c).started = (startLoop 0 c.blocks).2.1 := rfl
/-- the destination of the on_success event when it is another OutputFunc -/
def chainK (bs : List Blk) (k : Nat) : List Nat :=
  match (blk bs k).onSuccess with
  | some j => if (blk bs j).kind == .outf then [j] else []
  | none => []

theorem chain_eq_map (bs : List Blk) (k : Nat) : chain bs k = (chainK bs k).map (Ev.out · false) := by
  unfold chain chainK
  cases (blk bs k).onSuccess with
  | none => rfl
  | some j => by_cases h : (blk bs j).kind = .outf <;> simp [h]

theorem chainK_kind (bs : List Blk) (k j : Nat) (h : j ∈ chainK bs k) : (blk bs j).kind = .outf := by
  unfold chainK at h
  cases hs : (blk bs k).onSuccess with
  | none => simp [hs] at h
  | some i =>
    by_cases hk : (blk bs i).kind = .outf
    · simp [hs, hk] at h; subst h; exact hk
    · simp [hs, hk] at h

/-- the calls of output functions made by the running circuit: every one a call WITHOUT stop_data
    of an OutputFunc block -/
theorem plan_puts (c : Cfg) : ∃ ks : List Nat, (plan c).puts = ks.map (Ev.out · false) ∧
    ∀ k ∈ ks, (blk c.blocks k).kind = .outf := by
  refine ⟨(putBlocksOf c.blocks (plan c).started (plan c).phase).flatMap fun k => k :: chainK c.blocks k, ?_, ?_⟩
  · show (putBlocksOf c.blocks (plan c).started (plan c).phase).flatMap
        (fun k => Ev.out k false :: chain c.blocks k) = _
    simp only [List.map_flatMap, List.map_cons, chain_eq_map]
  · intro k hk
    simp only [List.mem_flatMap, List.mem_cons] at hk
    obtain ⟨i, hi, rfl | hk⟩ := hk
    · unfold putBlocksOf at hi
      split at hi
      · simp only [List.mem_filter, beq_iff_eq] at hi; exact hi.2
      · simp at hi
    · exact chainK_kind _ _ _ hk
theorem plan_timers (c : Cfg) : ∃ pass1 pass2 ph, (plan c).timers =
    (armAll c.blocks
      { timers := initTimers c.blocks (plan c).started pass1 pass2, stopped := [], started := (plan c).started }
      (putBlocksOf c.blocks (plan c).started ph)).timers := ⟨_, _, _, rfl⟩

theorem puts_evs (ks : List Nat) : stops (ks.map (Ev.out · false)) = [] ∧
    starteds (ks.map (Ev.out · false)) = [] ∧ sabs (ks.map (Ev.out · false)) = [] ∧
    saes (ks.map (Ev.out · false)) = [] := by
  simp [stops, starteds, sabs, saes, List.filterMap_map]

structure FinishSpec (c : Cfg) (p : Plan) (r : Result) : Prop where
  permA : c.oa.Perm (setA c.blocks p.started)
  permS : c.os.Perm (setS c.blocks p.started)
  trace : r.trace = p.startEvs ++ p.puts ++ (stopSblocks c.blocks p.failed p.inited p.started p.timers c.oa c.os).trace
  started : r.started = p.started
  endTime : r.endTime = p.termTime + (stopSblocks c.blocks p.failed p.inited p.started p.timers c.oa c.os).dur
  termTime : r.termTime = p.termTime
  tasks : r.tasks = ((blockTasks c.blocks p.started p.failed ++ (if p.helper then [Task.helper] else [])).filter
      fun t => !t.cleanedBy c.oa).filter (· != Task.helper)
  timers : r.timers = (stopSblocks c.blocks p.failed p.inited p.started p.timers c.oa c.os).st.timers
  error : r.error.isSome = true
  simDone : r.simDone = true

theorem finish_spec (c : Cfg) (p : Plan) (r : Result) (h : finish c p = some r) : FinishSpec c p r := by
  unfold finish at h
  -- the pending cancellation was consumed: the truncated clean-up cannot happen
  simp only [consumePending, second_any_false, Bool.or_false, Bool.false_and, Bool.false_eq_true, if_false] at h
  split at h
  · simp at h
  · next hp =>
    simp only [Bool.not_eq_true, Bool.not_eq_false', Bool.and_eq_true, permOf, List.isPerm_iff] at hp
    simp only [Option.some.injEq] at h
    subst h
    exact ⟨hp.1, hp.2, rfl, rfl, rfl, rfl, rfl, rfl, rfl, rfl⟩

theorem mem_stops {tr : List Ev} {k : Nat} (h : Ev.stop k ∈ tr) : k ∈ stops tr := by
  simp only [stops, List.mem_filterMap]
  exact ⟨_, h, rfl⟩


/-- two block lists that differ at most in the clean-up fault scripts (`stop()` raises,
    `stop_async()` raises) of their blocks -/
inductive SameButCleanup : List Blk → List Blk → Prop
  | nil : SameButCleanup [] []
  | cons {b b' : Blk} {l l' : List Blk} :
      b' = { b with fStop := b'.fStop, fStopAsync := b'.fStopAsync } →
      SameButCleanup l l' → SameButCleanup (b :: l) (b' :: l')

/-! ### calls of the output functions -/

/-- no OutputFunc with stop_data sends its on_success event to block `k` -/
def NoStopDataSender (bs : List Blk) (k : Nat) : Prop :=
  ∀ j, (blk bs j).kind = .outf → (blk bs j).stopData = true → (blk bs j).onSuccess ≠ some k

theorem outsOf_chain_ne (bs : List Blk) (k j : Nat) (h : (blk bs j).onSuccess ≠ some k) :
    outsOf k (chain bs j) = [] := by
  rcases chain_cases bs j with hc | ⟨i, hi, _, hc⟩
  · simp [hc, outsOf]
  · have : i ≠ k := fun e => h (e ▸ hi)
    simp [hc, outsOf, this]

theorem outsOf_stopSync_ne (bs : List Blk) (s : CState) (k j : Nat) (h : j ≠ k) (hno : NoStopDataSender bs k) :
    outsOf k (stopSync bs s j).2 = [] := by
  unfold stopSync; simp only []
  split
  · next hc =>
    simp only [Bool.and_eq_true, beq_iff_eq] at hc
    rw [outsOf_append, outsOf_chain_ne bs k j (hno j hc.1 hc.2)]
    simp [outsOf, h]
  · simp [outsOf]

theorem outsOf_stopSync_eq (bs : List Blk) (s : CState) (k : Nat)
    (hf : (blk bs k).kind = .outf) (hsd : (blk bs k).stopData = true) (hno : NoStopDataSender bs k) :
    outsOf k (stopSync bs s k).2 = [true] := by
  unfold stopSync
  simp only [hf, hsd, beq_self_eq_true, Bool.and_self, if_true]
  rw [outsOf_append, outsOf_chain_ne bs k k (hno k hf hsd)]
  simp [outsOf]

theorem outsOf_stopSyncAll_not_mem (bs : List Blk) (s : CState) (os : List Nat) (k : Nat) (h : k ∉ os)
    (hno : NoStopDataSender bs k) :
    outsOf k (stopSyncAll bs s os).2 = [] := by
  induction os generalizing s with
  | nil => simp [stopSyncAll, outsOf]
  | cons j js ih =>
    simp only [List.mem_cons, not_or] at h
    unfold stopSyncAll
    simp [outsOf_stopSync_ne bs s k j (Ne.symm h.1) hno, ih _ h.2]

theorem outsOf_stopSyncAll_mem (bs : List Blk) (s : CState) (os : List Nat) (k : Nat)
    (hnd : os.Nodup) (h : k ∈ os) (hf : (blk bs k).kind = .outf) (hsd : (blk bs k).stopData = true)
    (hno : NoStopDataSender bs k) :
    outsOf k (stopSyncAll bs s os).2 = [true] := by
  induction os generalizing s with
  | nil => simp at h
  | cons j js ih =>
    unfold stopSyncAll
    simp only [List.nodup_cons] at hnd
    by_cases hjk : j = k
    · subst hjk
      simp [outsOf_stopSync_eq bs s j hf hsd hno, outsOf_stopSyncAll_not_mem bs _ js j hnd.1 hno]
    · have hk : k ∈ js := by
        simp only [List.mem_cons] at h
        rcases h with h | h
        · exact absurd h.symm hjk
        · exact h
      simp [outsOf_stopSync_ne bs s k j hjk hno, ih _ hnd.2 hk]

theorem outsOf_puts (k : Nat) (ks : List Nat) : ∀ x ∈ outsOf k (ks.map (Ev.out · false)), x = false := by
  intro x hx
  simp only [outsOf, List.filterMap_map, List.mem_filterMap, Function.comp_apply] at hx
  obtain ⟨j, _, hj⟩ := hx
  split at hj <;> simp_all

theorem outsOf_seg1 (k : Nat) (oa : List Nat) : outsOf k (seg1 oa) = [] := by
  simp [seg1, outsOf, List.filterMap_map]

theorem outsOf_seg2_ne (bs : List Blk) (inited oa : List Nat) (k : Nat) (h : (blk bs k).kind ≠ .outa) :
    outsOf k (seg2 bs inited oa) = [] := by
  simp only [seg2, outsOf, List.filterMap_map]
  apply List.filterMap_eq_nil_iff.2
  intro j hj
  simp only [List.mem_filter, outaDelivers, Bool.and_eq_true, beq_iff_eq] at hj
  simp only [Function.comp_apply]
  split
  · next hjk => subst hjk; exact absurd hj.2.1.1 h
  · rfl

theorem outsOf_seg3 (bs : List Blk) (failed inited oa : List Nat) (k : Nat) :
    outsOf k (seg3 bs failed inited oa) = [] := by
  induction oa with
  | nil => simp [seg3, outsOf]
  | cons j js ih =>
    simp only [seg3, List.flatMap_cons] at ih ⊢
    rw [outsOf_append, ih]
    split <;> simp [outsOf]

theorem outsOf_seg4 (bs : List Blk) (failed inited oa : List Nat) (k : Nat) :
    outsOf k (seg4 bs failed inited oa) = [] := by
  simp [seg4, outsOf, List.filterMap_map]

/-- a run that is not refused before the start has the shape: start loop, output calls of the
    running circuit, `_stop_sblocks` -/
theorem run_spec (c : Cfg) (r : Result) (h : runForever c = some r) (hb : c.cause.before = false) :
    FinishSpec c (plan c) r := by
  unfold runForever at h
  simp only [hb, Bool.false_eq_true, if_false] at h
  exact finish_spec c (plan c) r h

/-- abort() before the start: nothing is started, nothing is stopped -/
theorem nothing_started_when_aborted_before (c : Cfg) (r : Result) (h : runForever c = some r)
    (hb : c.cause.before = true) : r.trace = [] ∧ r.started = [] ∧ r.tasks = [] ∧ r.timers = [] := by
  unfold runForever at h
  simp only [hb, if_true, Option.some.injEq] at h
  subst h; exact ⟨rfl, rfl, rfl, rfl⟩

theorem trace_stops (c : Cfg) (r : Result) (h : runForever c = some r) (hb : c.cause.before = false) :
    stops r.trace = c.oa ++ c.os ∧ starteds r.trace = r.started ∧ sabs r.trace = c.oa ∧
    (saes r.trace).Perm c.oa := by
  have sp := run_spec c r h hb
  obtain ⟨ks, hks, _⟩ := plan_puts c
  have hs := startLoop_stops 0 c.blocks
  have hp := puts_evs ks
  rw [sp.trace, sp.started, hks, plan_startEvs]
  simp only [stops_append, starteds_append, sabs_append, saes_append, hs.1, hs.2.1, hs.2.2.1, hp.1, hp.2.1,
    hp.2.2.1, hp.2.2.2, stopSblocks_stops, stopSblocks_starteds, stopSblocks_sabs, startLoop_starteds,
    List.nil_append, List.append_nil, plan_started, true_and]
  exact stopSblocks_saes ..



/-- two block lists that differ at most in `persistent` / `restored` (whether a block takes part in
    the "save the state" step of run_forever and whether the storage holds an entry of it) -/
inductive SameButPersistence : List Blk → List Blk → Prop
  | nil : SameButPersistence [] []
  | cons {b b' : Blk} {l l' : List Blk} :
      b' = { b with persistent := b'.persistent, restored := b'.restored } →
      SameButPersistence l l' → SameButPersistence (b :: l) (b' :: l')

/-- two block lists that agree in what decides which blocks are started and to which clean-up
    set a block belongs -/
inductive SameStartStop : List Blk → List Blk → Prop
  | nil : SameStartStop [] []
  | cons {b b' : Blk} {l l' : List Blk} :
      b'.fStart = b.fStart → b'.asyncStop = b.asyncStop →
      SameStartStop l l' → SameStartStop (b :: l) (b' :: l')

theorem SameButCleanup.toStartStop {l l' : List Blk} (h : SameButCleanup l l') : SameStartStop l l' := by
  induction h with
  | nil => exact .nil
  | @cons b b' l₁ l₂ hbb _ ih => exact .cons (by rw [hbb]) (by rw [hbb]; rfl) ih

theorem SameButPersistence.toStartStop {l l' : List Blk} (h : SameButPersistence l l') :
    SameStartStop l l' := by
  induction h with
  | nil => exact .nil
  | @cons b b' l₁ l₂ hbb _ ih => exact .cons (by rw [hbb]) (by rw [hbb]; rfl) ih

theorem SameStartStop.startLoop {l l' : List Blk} (h : SameStartStop l l') (i : Nat) :
    startLoop i l' = startLoop i l := by
  induction h generalizing i with
  | nil => rfl
  | @cons b b' l₁ l₂ hs _ _ ih =>
    unfold Edzed.Lifecycle.startLoop
    simp only [hs, ih]

theorem SameStartStop.asyncStop {l l' : List Blk} (h : SameStartStop l l') (k : Nat) :
    (blk l' k).asyncStop = (blk l k).asyncStop := by
  unfold blk
  induction h generalizing k with
  | nil => rfl
  | @cons b b' l₁ l₂ _ ha _ ih =>
    cases k with
    | zero => simpa using ha
    | succ k => simpa using ih k

/-- configurations that agree in the start() faults and in the classification of the blocks
    admit the same stop orders and give the same stop() calls, stop_async begins and started set -/
theorem same_partition_same_stops (c c' : Cfg) (r : Result) (h : runForever c = some r)
    (hb : c.cause.before = false) (hb' : c'.cause.before = false) (hoa : c'.oa = c.oa) (hos : c'.os = c.os)
    (hbl : SameStartStop c.blocks c'.blocks) :
    ∃ r', runForever c' = some r' ∧ stops r'.trace = stops r.trace ∧ sabs r'.trace = sabs r.trace ∧
      r'.started = r.started := by
  have sp := run_spec c r h hb
  have hblk := hbl.asyncStop
  have hst : (plan c').started = (plan c).started := by
    rw [plan_started, plan_started, hbl.startLoop 0]
  have hA : setA c'.blocks (plan c').started = setA c.blocks (plan c).started := by
    simp only [setA, hst, hblk]
  have hS : setS c'.blocks (plan c').started = setS c.blocks (plan c).started := by
    simp only [setS, hst, hblk]
  have hfin : ∃ r', finish c' (plan c') = some r' := by
    unfold finish
    simp only [consumePending, second_any_false, Bool.or_false, Bool.false_and, Bool.false_eq_true, if_false]
    have : (permOf c'.oa (setA c'.blocks (plan c').started) && permOf c'.os (setS c'.blocks (plan c').started)) = true := by
      simp only [permOf, Bool.and_eq_true, List.isPerm_iff, hA, hS, hoa, hos]
      exact ⟨sp.permA, sp.permS⟩
    simp [this]
  obtain ⟨r', hr'⟩ := hfin
  have hrun : runForever c' = some r' := by
    unfold runForever; simp only [hb', Bool.false_eq_true, if_false]; exact hr'
  obtain ⟨h1, h2, h3, _⟩ := trace_stops c r h hb
  obtain ⟨h1', h2', h3', _⟩ := trace_stops c' r' hrun hb'
  refine ⟨r', hrun, by rw [h1, h1', hoa, hos], by rw [h3, h3', hoa], ?_⟩
  rw [(run_spec c' r' hrun hb').started, sp.started, hst]

end Edzed.Lifecycle
