import EdzedModel.Lifecycle

namespace Edzed.Lifecycle

end Edzed.Lifecycle
