/- helper lemmas for C19 -/
import EdzedModel.TimeUnits

namespace Edzed.TimeUnits

end Edzed.TimeUnits
