/- helper lemmas for C19: lexical level, renderings, parse ∘ print -/
import EdzedModel.TimeUnits

namespace Edzed.TimeUnits

instance : DecidableEq (Except Err Rat) := fun a b =>
  match a, b with
  | .ok x, .ok y => if h : x = y then isTrue (by rw [h]) else isFalse (fun e => h (by cases e; rfl))
  | .error x, .error y => if h : x = y then isTrue (by rw [h]) else isFalse (fun e => h (by cases e; rfl))
  | .ok _, .error _ => isFalse (fun e => nomatch e)
  | .error _, .ok _ => isFalse (fun e => nomatch e)

/-! ### characters -/

def allWs (w : List Char) : Prop := ∀ c ∈ w, isWs c = true
def allDigits (w : List Char) : Prop := ∀ c ∈ w, c.isDigit = true

/-- first character (if any) satisfies `p` -/
def headSat (p : Char → Bool) : List Char → Prop
  | [] => True
  | c :: _ => p c = true

/-- a character that ends a number: no digit, no decimal mark -/
def numEnd (c : Char) : Bool := !c.isDigit && !isMark c

theorem isWs_not_digit {c : Char} (h : isWs c = true) : c.isDigit = false := by
  simp only [isWs, Bool.or_eq_true, beq_iff_eq] at h
  rcases h with ((((h | h) | h) | h) | h) | h <;> subst h <;> decide

theorem isWs_numEnd {c : Char} (h : isWs c = true) : numEnd c = true := by
  simp only [isWs, Bool.or_eq_true, beq_iff_eq] at h
  rcases h with ((((h | h) | h) | h) | h) | h <;> subst h <;> decide

theorem digit_not_ws {c : Char} (h : c.isDigit = true) : isWs c = false := by
  cases hw : isWs c with
  | false => rfl
  | true => rw [isWs_not_digit hw] at h; cases h

/-! ### `\s*` -/

theorem skipWs_cons_of_not_ws {c : Char} (cs : List Char) (h : isWs c = false) :
    skipWs (c :: cs) = c :: cs := by simp [skipWs, h]

theorem skipWs_append_ws (w cs : List Char) (hw : allWs w) : skipWs (w ++ cs) = skipWs cs := by
  induction w with
  | nil => rfl
  | cons c w ih =>
    have hc : isWs c = true := hw c (by simp)
    have : allWs w := fun x hx => hw x (by simp [hx])
    simp [skipWs, hc, ih this]

theorem skipWs_all_ws (w : List Char) (hw : allWs w) : skipWs w = [] := by
  have := skipWs_append_ws w [] hw
  simpa [skipWs] using this

theorem skipWs_idem (cs : List Char) : skipWs (skipWs cs) = skipWs cs := by
  induction cs with
  | nil => rfl
  | cons c cs ih =>
    cases h : isWs c with
    | true => simp [skipWs, h, ih]
    | false => simp [skipWs, h]

theorem skipWs_of_headSat (cs : List Char) (h : headSat (fun c => !isWs c) cs) : skipWs cs = cs := by
  cases cs with
  | nil => rfl
  | cons c cs => simp [headSat] at h; simp [skipWs, h]

/-! ### digits -/

theorem takeDigits_append (ds : List Char) (hds : allDigits ds) (rest : List Char)
    (hr : headSat (fun c => !c.isDigit) rest) : takeDigits (ds ++ rest) = (ds, rest) := by
  induction ds with
  | nil =>
    cases rest with
    | nil => rfl
    | cons c r => simp [headSat] at hr; simp [takeDigits, hr]
  | cons d ds ih =>
    have hd : d.isDigit = true := hds d (by simp)
    have := ih (fun c hc => hds c (by simp [hc]))
    simp [takeDigits, hd, this]

theorem allDigits_natStr (n : Nat) : allDigits (natStr n) := fun _ hc =>
  Nat.isDigit_of_mem_toDigits (by decide) (by decide) hc

theorem natStr_ne_nil (n : Nat) : natStr n ≠ [] := Nat.toDigits_ne_nil

theorem digitsVal_natStr (n : Nat) : digitsVal (natStr n) = n := Nat.ofDigitChars_ten_toDigits

/-! ### number texts -/

/-- the text of a number: a non-empty digit string, optionally a decimal mark and a non-empty
    digit string -/
structure NumText where
  ip : List Char
  fr : Option (Char × List Char) := none

def fracText : Option (Char × List Char) → List Char
  | none => []
  | some (c, fd) => c :: fd

def fracVal : Option (Char × List Char) → Rat
  | none => 0
  | some (_, fd) => (digitsVal fd : Rat) / ((10 ^ fd.length : Nat) : Rat)

def fracWF : Option (Char × List Char) → Prop
  | none => True
  | some (c, fd) => isMark c = true ∧ fd ≠ [] ∧ allDigits fd

namespace NumText

def text (t : NumText) : List Char := t.ip ++ fracText t.fr

def WF (t : NumText) : Prop := t.ip ≠ [] ∧ allDigits t.ip ∧ fracWF t.fr

/-- the decimal value of the text -/
def val (t : NumText) : Rat := (digitsVal t.ip : Rat) + fracVal t.fr

def hasFrac (t : NumText) : Bool := t.fr.isSome

/-- the decimal mark of the text is a comma -/
def isComma (t : NumText) : Bool :=
  match t.fr with
  | some (c, _) => c == ','
  | none => false

def num (t : NumText) : Num := ⟨t.val, t.hasFrac, t.isComma⟩

end NumText

theorem parseNum_text (t : NumText) (wf : t.WF) (rest : List Char) (hr : headSat numEnd rest) :
    parseNum (t.text ++ rest) = some (t.num, rest) := by
  obtain ⟨ip, fr⟩ := t
  obtain ⟨hne, hip, hfr⟩ := wf
  simp only at hne hip hfr
  have hr' : headSat (fun c => !c.isDigit) rest := by
    cases rest with
    | nil => trivial
    | cons c r => simp [headSat, numEnd] at hr ⊢; exact hr.1
  cases ip with
  | nil => exact absurd rfl hne
  | cons d ds =>
  cases fr with
  | none =>
    have htd : takeDigits ((d :: ds) ++ rest) = (d :: ds, rest) := takeDigits_append _ hip _ hr'
    unfold parseNum
    simp only [NumText.text, fracText, List.append_nil, htd]
    cases rest with
    | nil => simp [NumText.num, NumText.val, NumText.hasFrac, NumText.isComma, fracVal, Rat.add_zero]
    | cons c r =>
      have : isMark c = false := by simp [headSat, numEnd] at hr; exact hr.2
      simp [this, NumText.num, NumText.val, NumText.hasFrac, NumText.isComma, fracVal, Rat.add_zero]
  | some mf =>
    obtain ⟨c, fd⟩ := mf
    obtain ⟨hmk, hfne, hfd⟩ := hfr
    have hmd : c.isDigit = false := by
      simp only [isMark, Bool.or_eq_true, beq_iff_eq] at hmk
      rcases hmk with h | h <;> subst h <;> decide
    have htd : takeDigits ((d :: ds) ++ (c :: (fd ++ rest))) = (d :: ds, c :: (fd ++ rest)) :=
      takeDigits_append _ hip _ (by simp [headSat, hmd])
    have htf : takeDigits (fd ++ rest) = (fd, rest) := takeDigits_append _ hfd _ hr'
    unfold parseNum
    simp only [NumText.text, fracText, List.append_assoc, List.cons_append, htd] at htd ⊢
    simp only [hmk, ↓reduceIte, htf]
    cases fd with
    | nil => exact absurd rfl hfne
    | cons e es => simp [NumText.num, NumText.val, NumText.hasFrac, NumText.isComma, fracVal]

theorem NumText.text_skipWs (t : NumText) (wf : t.WF) (rest : List Char) :
    skipWs (t.text ++ rest) = t.text ++ rest := by
  obtain ⟨ip, fr⟩ := t
  obtain ⟨hne, hip, _⟩ := wf
  cases ip with
  | nil => exact absurd rfl hne
  | cons d ds =>
    have : isWs d = false := digit_not_ws (hip d (by simp))
    simp [NumText.text, skipWs, this]

/-- what an optional group does in front of a number text -/
theorem optGroup_text (ws : Bool) (isU : Char → Bool) (t : NumText) (wf : t.WF) (rest : List Char)
    (hr : headSat numEnd rest) :
    optGroup ws isU (t.text ++ rest) =
      match (if ws then skipWs rest else rest) with
      | u :: r => if isU u then (some t.num, r) else (none, t.text ++ rest)
      | [] => (none, t.text ++ rest) := by
  unfold optGroup
  rw [parseNum_text t wf rest hr]
  rfl

theorem optGroupLast_text (isU : Char → Bool) (t : NumText) (wf : t.WF) (rest : List Char)
    (hr : headSat numEnd rest) :
    optGroupLast isU (t.text ++ rest) =
      match skipWs rest with
      | u :: r => if isU u then (some t.num, r) else (some t.num, u :: r)
      | [] => (some t.num, []) := by
  unfold optGroupLast
  rw [parseNum_text t wf rest hr]
  rfl

/-! ### pieces of a traditional duration string -/

/-- `<ws> number <ws> letter` -/
structure Piece where
  pre : List Char := []
  num : NumText
  mid : List Char := []
  upper : Bool := false
  bare : Bool := false      -- the unit letter is left out (seconds only)

namespace Piece

def letter (lo up : Char) (p : Piece) : List Char :=
  if p.bare then [] else [if p.upper then up else lo]

def text (lo up : Char) (p : Piece) : List Char :=
  p.pre ++ (p.num.text ++ (p.mid ++ p.letter lo up))

def WF (p : Piece) : Prop := allWs p.pre ∧ allWs p.mid ∧ p.num.WF

end Piece

/-- properties of a pair of unit letters w.r.t. a unit predicate -/
structure Letters (lo up : Char) : Prop where
  lo_ws : isWs lo = false
  up_ws : isWs up = false
  lo_end : numEnd lo = true
  up_end : numEnd up = true

theorem headSat_mid (mid rest : List Char) (hm : allWs mid) (hr : headSat numEnd rest) :
    headSat numEnd (mid ++ rest) := by
  cases mid with
  | nil => simpa using hr
  | cons c w => simp [headSat]; exact isWs_numEnd (hm c (by simp))

theorem headSat_ws (w : List Char) (hw : allWs w) : headSat numEnd w := by
  cases w with
  | nil => trivial
  | cons c w => simp [headSat]; exact isWs_numEnd (hw c (by simp))

theorem optGroup_piece (isU : Char → Bool) (lo up : Char) (L : Letters lo up) (p : Piece) (wf : p.WF)
    (hb : p.bare = false) (tail : List Char) :
    optGroup true isU (skipWs (p.text lo up ++ tail)) =
      if isU (if p.upper then up else lo) then (some p.num.num, tail)
      else (none, skipWs (p.text lo up ++ tail)) := by
  obtain ⟨hpre, hmid, hnum⟩ := wf
  have e : p.text lo up ++ tail = p.pre ++ (p.num.text ++ (p.mid ++ ((if p.upper then up else lo) :: tail))) := by
    simp [Piece.text, Piece.letter, hb]
  rw [e, skipWs_append_ws _ _ hpre, NumText.text_skipWs _ hnum]
  have hl : isWs (if p.upper then up else lo) = false := by
    cases p.upper <;> simp [L.lo_ws, L.up_ws]
  have hle : numEnd (if p.upper then up else lo) = true := by
    cases p.upper <;> simp [L.lo_end, L.up_end]
  rw [optGroup_text true isU _ hnum _ (headSat_mid _ _ hmid (by simpa [headSat] using hle))]
  simp only [↓reduceIte, skipWs_append_ws _ _ hmid, skipWs_cons_of_not_ws _ hl]

/-- the group of unit `isU` does not start here -/
def Blocked (isU : Char → Bool) (tail : List Char) : Prop :=
  optGroup true isU (skipWs tail) = (none, skipWs tail)

theorem blocked_ws (isU : Char → Bool) (post : List Char) (h : allWs post) : Blocked isU post := by
  simp [Blocked, skipWs_all_ws _ h, optGroup, parseNum, takeDigits]

theorem blocked_piece (isU : Char → Bool) (lo up : Char) (L : Letters lo up)
    (hlo : isU lo = false) (hup : isU up = false) (p : Piece) (wf : p.WF)
    (hb : p.bare = false) (tail : List Char) : Blocked isU (p.text lo up ++ tail) := by
  unfold Blocked
  rw [optGroup_piece isU lo up L p wf hb tail]
  cases p.upper <;> simp [hlo, hup]

theorem blocked_bare (isU : Char → Bool) (lo up : Char) (p : Piece) (wf : p.WF)
    (hb : p.bare = true) (post : List Char) (hpost : allWs post) :
    Blocked isU (p.text lo up ++ post) := by
  obtain ⟨hpre, hmid, hnum⟩ := wf
  unfold Blocked
  have e : p.text lo up ++ post = p.pre ++ (p.num.text ++ (p.mid ++ post)) := by
    simp [Piece.text, Piece.letter, hb]
  have hmp : allWs (p.mid ++ post) := fun c hc => by
    rcases List.mem_append.mp hc with h | h
    · exact hmid c h
    · exact hpost c h
  rw [e, skipWs_append_ws _ _ hpre, NumText.text_skipWs _ hnum]
  rw [optGroup_text true isU _ hnum _ (headSat_ws _ hmp)]
  simp [skipWs_all_ws _ hmp]

def optText (lo up : Char) : Option Piece → List Char
  | none => []
  | some p => p.text lo up

/-- an optional piece of a unit that is not the last one: well-formed, with its letter -/
def OptWF (p : Option Piece) : Prop := ∀ q, p = some q → q.WF ∧ q.bare = false

theorem blocked_opt (isU : Char → Bool) (lo up : Char) (L : Letters lo up)
    (hlo : isU lo = false) (hup : isU up = false) (p : Option Piece) (wf : OptWF p)
    (tail : List Char) (ht : Blocked isU tail) : Blocked isU (optText lo up p ++ tail) := by
  cases p with
  | none => simpa [optText] using ht
  | some q => exact blocked_piece isU lo up L hlo hup q (wf q rfl).1 (wf q rfl).2 tail

/-- the seconds' piece may go without its letter -/
theorem blocked_optLast (isU : Char → Bool) (lo up : Char) (L : Letters lo up)
    (hlo : isU lo = false) (hup : isU up = false) (p : Option Piece) (wf : ∀ q, p = some q → q.WF)
    (post : List Char) (hpost : allWs post) : Blocked isU (optText lo up p ++ post) := by
  cases p with
  | none => simpa [optText] using blocked_ws isU post hpost
  | some q =>
    cases hb : q.bare with
    | true => exact blocked_bare isU lo up q (wf q rfl) hb post hpost
    | false => exact blocked_piece isU lo up L hlo hup q (wf q rfl) hb post

/-- one optional group of the traditional expression over an optional piece -/
theorem stage (isU : Char → Bool) (lo up : Char) (L : Letters lo up)
    (hlo : isU lo = true) (hup : isU up = true) (p : Option Piece) (wf : OptWF p)
    (tail : List Char) (ht : Blocked isU tail) :
    ∃ r, optGroup true isU (skipWs (optText lo up p ++ tail)) = (p.map (·.num.num), r) ∧
      skipWs r = skipWs tail := by
  cases p with
  | none => exact ⟨skipWs tail, by simpa [optText, Blocked] using ht, skipWs_idem _⟩
  | some q =>
    refine ⟨tail, ?_, rfl⟩
    simp only [optText, Option.map]
    rw [optGroup_piece isU lo up L q (wf q rfl).1 (wf q rfl).2 tail]
    cases q.upper <;> simp [hlo, hup]

theorem stageLast (isU : Char → Bool) (lo up : Char) (L : Letters lo up)
    (hlo : isU lo = true) (hup : isU up = true) (p : Option Piece) (wf : ∀ q, p = some q → q.WF)
    (post : List Char) (hpost : allWs post) :
    ∃ r, optGroupLast isU (skipWs (optText lo up p ++ post)) = (p.map (·.num.num), r) ∧
      skipWs r = [] := by
  cases p with
  | none =>
    exact ⟨[], by simp [optText, skipWs_all_ws _ hpost, optGroupLast, parseNum, takeDigits], rfl⟩
  | some q =>
    obtain ⟨hpre, hmid, hnum⟩ := wf q rfl
    simp only [optText, Option.map]
    cases hb : q.bare with
    | true =>
      have e : q.text lo up ++ post = q.pre ++ (q.num.text ++ (q.mid ++ post)) := by
        simp [Piece.text, Piece.letter, hb]
      have hmp : allWs (q.mid ++ post) := fun c hc => by
        rcases List.mem_append.mp hc with h | h
        · exact hmid c h
        · exact hpost c h
      refine ⟨[], ?_, rfl⟩
      rw [e, skipWs_append_ws _ _ hpre, NumText.text_skipWs _ hnum]
      rw [optGroupLast_text isU _ hnum _ (headSat_ws _ hmp)]
      simp [skipWs_all_ws _ hmp]
    | false =>
      have e : q.text lo up ++ post =
          q.pre ++ (q.num.text ++ (q.mid ++ ((if q.upper then up else lo) :: post))) := by
        simp [Piece.text, Piece.letter, hb]
      have hl : isWs (if q.upper then up else lo) = false := by
        cases q.upper <;> simp [L.lo_ws, L.up_ws]
      have hle : numEnd (if q.upper then up else lo) = true := by
        cases q.upper <;> simp [L.lo_end, L.up_end]
      have hu : isU (if q.upper then up else lo) = true := by
        cases q.upper <;> simp [hlo, hup]
      refine ⟨post, ?_, skipWs_all_ws _ hpost⟩
      rw [e, skipWs_append_ws _ _ hpre, NumText.text_skipWs _ hnum]
      rw [optGroupLast_text isU _ hnum _ (headSat_mid _ _ hmid (by simpa [headSat] using hle))]
      simp [skipWs_append_ws _ _ hmid, skipWs_cons_of_not_ws _ hl, hu]

theorem lettersD : Letters 'd' 'D' := ⟨by decide, by decide, by decide, by decide⟩
theorem lettersH : Letters 'h' 'H' := ⟨by decide, by decide, by decide, by decide⟩
theorem lettersM : Letters 'm' 'M' := ⟨by decide, by decide, by decide, by decide⟩
theorem lettersS : Letters 's' 'S' := ⟨by decide, by decide, by decide, by decide⟩

/-! ### a traditional duration string -/

structure TradR where
  d : Option Piece := none
  h : Option Piece := none
  m : Option Piece := none
  s : Option Piece := none
  post : List Char := []

namespace TradR

def text (r : TradR) : List Char :=
  optText 'd' 'D' r.d ++ (optText 'h' 'H' r.h ++ (optText 'm' 'M' r.m ++ (optText 's' 'S' r.s ++ r.post)))

/-- lexically well formed: whitespace where whitespace is meant, digits in the numbers, every
    unit but the seconds with its letter -/
def WF (r : TradR) : Prop :=
  OptWF r.d ∧ OptWF r.h ∧ OptWF r.m ∧ (∀ q, r.s = some q → q.WF) ∧ allWs r.post

def groups (r : TradR) : Groups :=
  { d := r.d.map (·.num.num), h := r.h.map (·.num.num), m := r.m.map (·.num.num),
    s := r.s.map (·.num.num) }

end TradR

theorem matchTrad_text (r : TradR) (wf : r.WF) : matchTrad r.text = some r.groups := by
  obtain ⟨wd, wh, wm, wsec, wpost⟩ := wf
  have bS := fun isU hlo hup => blocked_optLast isU 's' 'S' lettersS hlo hup r.s wsec r.post wpost
  have bM := fun isU hlo hup hlo' hup' =>
    blocked_opt isU 'm' 'M' lettersM hlo hup r.m wm _ (bS isU hlo' hup')
  have bH := fun isU hlo hup hlo' hup' hlo'' hup'' =>
    blocked_opt isU 'h' 'H' lettersH hlo hup r.h wh _ (bM isU hlo' hup' hlo'' hup'')
  obtain ⟨r0, e0, s0⟩ := stage isD 'd' 'D' lettersD (by decide) (by decide) r.d wd _
    (bH isD (by decide) (by decide) (by decide) (by decide) (by decide) (by decide))
  obtain ⟨r1, e1, s1⟩ := stage isH 'h' 'H' lettersH (by decide) (by decide) r.h wh _
    (bM isH (by decide) (by decide) (by decide) (by decide))
  obtain ⟨r2, e2, s2⟩ := stage isM 'm' 'M' lettersM (by decide) (by decide) r.m wm _
    (bS isM (by decide) (by decide))
  obtain ⟨r3, e3, s3⟩ := stageLast isS 's' 'S' lettersS (by decide) (by decide) r.s wsec r.post wpost
  unfold matchTrad
  simp only [TradR.text] at *
  simp only [e0, s0, e1, s1, e2, s2, e3, s3, List.isEmpty_nil, ↓reduceIte, TradR.groups]

/-! ### evaluation of the captured groups -/

def optVal : Option Num → Rat
  | none => 0
  | some n => n.val

def noFrac : Option Num → Bool
  | none => true
  | some n => !n.frac

def allNoFrac : List (Option Num × Option Nat) → Bool
  | [] => true
  | (g, _) :: r => noFrac g && allNoFrac r

/-- (list from the smallest unit) a fractional part only in the first group that is present -/
def fracOK : List (Option Num × Option Nat) → Bool
  | [] => true
  | (none, _) :: r => fracOK r
  | (some _, _) :: r => allNoFrac r

def allAbsent : List (Option Num × Option Nat) → Bool
  | [] => true
  | (g, _) :: r => g.isNone && allAbsent r

def scaledSum : List (Option Num × Option Nat) → Rat
  | [] => 0
  | (g, some k) :: r => optVal g * (k : Rat) + scaledSum r
  | (_, none) :: r => scaledSum r

/-- years and months are absent or zero -/
def calOK : List (Option Num × Option Nat) → Bool
  | [] => true
  | (g, none) :: r => optVal g == 0 && calOK r
  | (_, some _) :: r => calOK r

theorem calOK_tail (g : Option Num) (k : Option Nat) (gs : List (Option Num × Option Nat))
    (h : calOK ((g, k) :: gs) = true) : calOK gs = true := by
  cases k with
  | none => simp [calOK] at h; exact h.2
  | some k => simpa [calOK] using h

theorem evalLoop_ok (gs : List (Option Num × Option Nat)) (acc : Acc) (hcal : calOK gs = true)
    (hfr : (acc.smallest = true → fracOK gs = true) ∧ (acc.smallest = false → allNoFrac gs = true)) :
    evalLoop acc gs = .ok ⟨acc.result + scaledSum gs, acc.smallest && allAbsent gs⟩ := by
  induction gs generalizing acc with
  | nil => simp [evalLoop, scaledSum, allAbsent, Rat.add_zero]
  | cons gk gs ih =>
    obtain ⟨g, k⟩ := gk
    have hcal' := calOK_tail g k gs hcal
    cases g with
    | none =>
      have hfr' : (acc.smallest = true → fracOK gs = true) ∧ (acc.smallest = false → allNoFrac gs = true) :=
        ⟨fun h => by simpa [fracOK] using hfr.1 h, fun h => by simpa [allNoFrac, noFrac] using hfr.2 h⟩
      have hsum : scaledSum ((none, k) :: gs) = scaledSum gs := by
        cases k <;> simp [scaledSum, optVal, Rat.zero_mul, Rat.zero_add]
      simp [evalLoop, addGroup, ih acc hcal' hfr', hsum, allAbsent]
    | some n =>
      have hnf : (n.frac && !acc.smallest) = false := by
        cases hs : acc.smallest with
        | true => simp
        | false =>
          have := hfr.2 hs
          simp [allNoFrac, noFrac] at this
          simp [this.1]
      have hall : allNoFrac gs = true := by
        cases hs : acc.smallest with
        | true => simpa [fracOK] using hfr.1 hs
        | false =>
          have := hfr.2 hs
          simp [allNoFrac] at this
          exact this.2
      have hfr' : ((false : Bool) = true → fracOK gs = true) ∧ ((false : Bool) = false → allNoFrac gs = true) :=
        And.intro (fun h => nomatch h) (fun _ => hall)
      cases hz : (n.val == 0) with
      | true =>
        have hz' : n.val = 0 := by simpa using hz
        have hsum : scaledSum ((some n, k) :: gs) = scaledSum gs := by
          cases k <;> simp [scaledSum, optVal, hz', Rat.zero_mul, Rat.zero_add]
        have := ih ⟨acc.result, false⟩ hcal' hfr'
        simp [evalLoop, addGroup, hnf, hz, this, hsum, allAbsent]
      | false =>
        cases k with
        | none => simp [calOK, optVal, hz] at hcal
        | some k =>
          have := ih ⟨acc.result + n.val * (k : Rat), false⟩ hcal' hfr'
          simp [evalLoop, addGroup, hnf, hz, this, scaledSum, optVal, Rat.add_assoc, allAbsent]

theorem evalGroups_ok (g : Groups) (hcal : calOK g.scaled = true) (hfr : fracOK g.scaled = true)
    (hne : allAbsent g.scaled = false) :
    evalGroups g = .ok (scaledSum g.scaled) := by
  unfold evalGroups
  rw [evalLoop_ok g.scaled ⟨0, true⟩ hcal ⟨fun _ => hfr, fun h => nomatch h⟩]
  simp [hne, Rat.zero_add]

theorem evalGroups_empty (g : Groups) (hne : allAbsent g.scaled = true) :
    evalGroups g = .error .empty := by
  simp only [Groups.scaled, allAbsent, Bool.and_eq_true, Option.isNone_iff_eq_none, and_true] at hne
  obtain ⟨hs, hm, hh, hd, hmo, hy⟩ := hne
  simp [evalGroups, Groups.scaled, evalLoop, addGroup, hs, hm, hh, hd, hmo, hy]

/-! ### the value of a rendered duration -/

/-- (list from the smallest unit) only the first number that is present may have a fractional part -/
def fracSmallestOnly : List (Option NumText) → Bool
  | [] => true
  | none :: r => fracSmallestOnly r
  | some _ :: r => r.all (fun x => match x with | none => true | some t => !t.hasFrac)

def ntVal : Option NumText → Rat
  | none => 0
  | some t => t.val

def pnum (p : Option Piece) : Option NumText := p.map (·.num)

namespace TradR

/-- the numbers from the smallest unit -/
def nums (r : TradR) : List (Option NumText) := [pnum r.s, pnum r.m, pnum r.h, pnum r.d]

def NonEmpty (r : TradR) : Prop := r.nums.any (·.isSome) = true

end TradR

theorem convert_trad_sum (r : TradR) (wf : r.WF) (hf : fracSmallestOnly r.nums = true)
    (hne : r.NonEmpty) :
    convert r.text = .ok (scaledSum r.groups.scaled) := by
  unfold convert
  rw [matchTrad_text r wf]
  simp only
  obtain ⟨d, h, m, s, post⟩ := r
  apply evalGroups_ok
  · simp [TradR.groups, Groups.scaled, calOK, optVal]
  · cases d <;> cases h <;> cases m <;> cases s <;>
      simp_all [TradR.groups, Groups.scaled, fracOK, allNoFrac, noFrac, TradR.nums, pnum,
        fracSmallestOnly, NumText.num]
  · cases d <;> cases h <;> cases m <;> cases s <;>
      simp_all [TradR.groups, Groups.scaled, allAbsent, TradR.NonEmpty, TradR.nums, pnum]

theorem scaledSum_trad (r : TradR) :
    scaledSum r.groups.scaled =
      86400 * ntVal (pnum r.d) + 3600 * ntVal (pnum r.h) + 60 * ntVal (pnum r.m) + ntVal (pnum r.s) := by
  obtain ⟨d, h, m, s, post⟩ := r
  have e1 : ((Gen.secPerMin : Nat) : Rat) = 60 := by decide
  have e2 : ((Gen.secPerHour : Nat) : Rat) = 3600 := by decide
  have e3 : ((Gen.secPerDay : Nat) : Rat) = 86400 := by decide
  have ev : ∀ p : Option Piece, optVal (p.map (·.num.num)) = ntVal (pnum p) := by
    intro p; cases p <;> rfl
  simp only [TradR.groups, Groups.scaled, scaledSum, e1, e2, e3, ev]
  grind

/-! ### timestr as a rendering -/

theorem pow10_pos (p : Nat) : 0 < 10 ^ p := Nat.pow_pos (by decide)

theorem pow10_rat_ne (p : Nat) : ((10 ^ p : Nat) : Rat) ≠ 0 := by
  have h : (0 : Rat) < ((10 ^ p : Nat) : Rat) := Rat.natCast_pos.mpr (pow10_pos p)
  grind

theorem digitsVal_padZeros (p : Nat) (ds : List Char) : digitsVal (padZeros p ds) = digitsVal ds := by
  simp [digitsVal, padZeros, Nat.ofDigitChars_append, Nat.ofDigitChars_replicate_zero]

theorem length_padZeros (p : Nat) (ds : List Char) (h : ds.length ≤ p) : (padZeros p ds).length = p := by
  simp [padZeros]; omega

theorem allDigits_padZeros (p : Nat) (ds : List Char) (h : allDigits ds) : allDigits (padZeros p ds) := by
  intro c hc
  simp only [padZeros, List.mem_append, List.mem_replicate] at hc
  rcases hc with ⟨_, rfl⟩ | hc
  · decide
  · exact h c hc

/-- the number text of `f"{s:.{p}f}"` -/
def fixedNum (whole frac p : Nat) : NumText :=
  ⟨natStr whole, if p = 0 then none else some ('.', padZeros p (natStr frac))⟩

theorem fixedStr_eq (whole frac p : Nat) : fixedStr whole frac p = (fixedNum whole frac p).text := by
  unfold fixedStr fixedNum NumText.text
  cases p <;> simp [fracText]

theorem fixedNum_wf (whole frac p : Nat) : (fixedNum whole frac p).WF := by
  refine ⟨natStr_ne_nil _, allDigits_natStr _, ?_⟩
  unfold fixedNum
  cases p with
  | zero => simp [fracWF]
  | succ p =>
    simp only [Nat.add_one_ne_zero, ↓reduceIte, fracWF]
    refine ⟨by decide, ?_, allDigits_padZeros _ _ (allDigits_natStr _)⟩
    intro h
    have := congrArg List.length h
    simp [padZeros] at this
    exact natStr_ne_nil _ this.2

theorem fixedNum_val (whole frac p : Nat) (hf : frac < 10 ^ p) :
    (fixedNum whole frac p).val = (whole : Rat) + (frac : Rat) / ((10 ^ p : Nat) : Rat) := by
  unfold fixedNum NumText.val
  cases p with
  | zero =>
    have : frac = 0 := by simpa using hf
    simp [fracVal, digitsVal_natStr, this]
    grind
  | succ p =>
    have hl : (natStr frac).length ≤ p + 1 :=
      (Nat.length_toDigits_le_iff (by decide) (by omega)).mpr hf
    simp only [Nat.add_one_ne_zero, ↓reduceIte, fracVal, digitsVal_natStr, digitsVal_padZeros,
      length_padZeros _ _ hl]

theorem allWs_nil : allWs [] := fun _ h => nomatch h

/-- a piece as `timestr` prints it -/
def plainPiece (pre : List Char) (n : Nat) : Piece := { pre := pre, num := ⟨natStr n, none⟩ }

theorem plainPiece_wf (pre : List Char) (hp : allWs pre) (n : Nat) :
    (plainPiece pre n).WF ∧ (plainPiece pre n).bare = false :=
  ⟨⟨hp, allWs_nil, natStr_ne_nil _, allDigits_natStr _, trivial⟩, rfl⟩

/-- the rendering `timestr` produces for `d h m s` + `frac` ticks of `10^-p` -/
def timestrR (d h m sec frac p : Nat) (sep : List Char) : TradR where
  d := if d ≠ 0 then some (plainPiece [] d) else none
  h := if d ≠ 0 ∨ h ≠ 0 then some (plainPiece (if d ≠ 0 then sep else []) h) else none
  m := some (plainPiece (if d ≠ 0 ∨ h ≠ 0 then sep else []) m)
  s := some { pre := sep, num := fixedNum sec frac p }
  post := []

theorem timestrR_text (d h m sec frac p : Nat) (sep : List Char) :
    joinParts sep (
      (if d ≠ 0 then [natStr d ++ ['d']] else []) ++
      (if d ≠ 0 ∨ h ≠ 0 then [natStr h ++ ['h']] else []) ++
      [natStr m ++ ['m'], fixedStr sec frac p ++ ['s']]) = (timestrR d h m sec frac p sep).text := by
  rw [fixedStr_eq]
  by_cases hd : d = 0 <;> by_cases hh : h = 0 <;>
    simp [hd, hh, timestrR, TradR.text, optText, Piece.text, Piece.letter, plainPiece, joinParts,
      NumText.text, fracText]

theorem timestrR_wf (d h m sec frac p : Nat) (sep : List Char) (hs : allWs sep) :
    (timestrR d h m sec frac p sep).WF := by
  refine ⟨?_, ?_, ?_, ?_, allWs_nil⟩
  · intro q hq
    simp only [timestrR] at hq
    split at hq
    · cases hq; exact plainPiece_wf _ allWs_nil _
    · cases hq
  · intro q hq
    simp only [timestrR] at hq
    split at hq
    · cases hq
      split
      · exact plainPiece_wf _ hs _
      · exact plainPiece_wf _ allWs_nil _
    · cases hq
  · intro q hq
    simp only [timestrR] at hq
    cases hq
    split
    · exact plainPiece_wf _ hs _
    · exact plainPiece_wf _ allWs_nil _
  · intro q hq
    simp only [timestrR] at hq
    cases hq
    exact ⟨hs, allWs_nil, fixedNum_wf _ _ _⟩

theorem timestrR_frac (d h m sec frac p : Nat) (sep : List Char) :
    fracSmallestOnly (timestrR d h m sec frac p sep).nums = true := by
  by_cases hd : d = 0 <;> by_cases hh : h = 0 <;>
    simp [hd, hh, timestrR, TradR.nums, pnum, fracSmallestOnly, plainPiece, NumText.hasFrac]

theorem timestrR_nonempty (d h m sec frac p : Nat) (sep : List Char) :
    (timestrR d h m sec frac p sep).NonEmpty := by
  simp [TradR.NonEmpty, timestrR, TradR.nums, pnum]

theorem ntVal_plain (c : Prop) [Decidable c] (pre : List Char) (n : Nat) (h : ¬c → n = 0) :
    ntVal (pnum (if c then some (plainPiece pre n) else none)) = (n : Rat) := by
  by_cases hc : c
  · simp [hc, pnum, ntVal, plainPiece, NumText.val, fracVal, digitsVal_natStr, Rat.add_zero]
  · simp [hc, pnum, ntVal, h hc]

/-- `convert ∘ timestr` on ticks: the printed string converts back to `ticks / 10^p` -/
theorem convert_timestrTicks (ticks p : Nat) (sep : List Char) (hs : allWs sep) :
    convert (timestrTicks ticks p sep) = .ok ((ticks : Rat) / ((10 ^ p : Nat) : Rat)) := by
  unfold timestrTicks
  simp only []
  rw [timestrR_text, convert_trad_sum _ (timestrR_wf _ _ _ _ _ _ _ hs) (timestrR_frac _ _ _ _ _ _ _)
    (timestrR_nonempty _ _ _ _ _ _ _), scaledSum_trad]
  congr 1
  have hP := pow10_rat_ne p
  have hfr : ticks % 10 ^ p < 10 ^ p := Nat.mod_lt _ (pow10_pos p)
  generalize hw : ticks / 10 ^ p = whole
  generalize hf : ticks % 10 ^ p = frac at hfr
  have ht : ticks = 10 ^ p * whole + frac := by rw [← hw, ← hf]; exact (Nat.div_add_mod _ _).symm
  have e1 : Gen.secPerDay = 86400 := rfl
  have e2 : Gen.secPerHour = 3600 := rfl
  have e3 : Gen.secPerMin = 60 := rfl
  simp only [e1, e2, e3]
  have hwd : whole = 86400 * (whole / 86400) + 3600 * (whole % 86400 / 3600)
      + 60 * (whole % 86400 % 3600 / 60) + whole % 86400 % 3600 % 60 := by omega
  generalize whole / 86400 = d at hwd ⊢
  generalize whole % 86400 / 3600 = h at hwd ⊢
  generalize whole % 86400 % 3600 / 60 = m at hwd ⊢
  generalize whole % 86400 % 3600 % 60 = sec at hwd ⊢
  have vd : ntVal (pnum (timestrR d h m sec frac p sep).d) = (d : Rat) :=
    ntVal_plain _ _ _ (by omega)
  have vh : ntVal (pnum (timestrR d h m sec frac p sep).h) = (h : Rat) :=
    ntVal_plain _ _ _ (by omega)
  have vm : ntVal (pnum (timestrR d h m sec frac p sep).m) = (m : Rat) := by
    simp [timestrR, pnum, ntVal, plainPiece, NumText.val, fracVal, digitsVal_natStr, Rat.add_zero]
  have vs : ntVal (pnum (timestrR d h m sec frac p sep).s) =
      (sec : Rat) + (frac : Rat) / ((10 ^ p : Nat) : Rat) := by
    simp only [timestrR, pnum, Option.map, ntVal]
    exact fixedNum_val _ _ _ hfr
  rw [vd, vh, vm, vs]
  have htq : (ticks : Rat) = ((10 ^ p : Nat) : Rat) * (whole : Rat) + (frac : Rat) := by
    rw [ht]; push_cast; rfl
  have hwq : (whole : Rat) = 86400 * (d : Rat) + 3600 * (h : Rat) + 60 * (m : Rat) + (sec : Rat) := by
    rw [hwd]; push_cast; rfl
  grind

/-! ### rounding -/

theorem roundHalfEven_cases (x : Rat) :
    roundHalfEven x = x.floor ∨ roundHalfEven x = x.floor + 1 := by
  unfold roundHalfEven
  simp only
  split
  · exact Or.inl rfl
  · split
    · exact Or.inr rfl
    · split
      · exact Or.inl rfl
      · exact Or.inr rfl

/-- round-half-even moves a value by at most one half -/
theorem roundHalfEven_bounds (x : Rat) :
    (roundHalfEven x : Rat) - x ≤ 1 / 2 ∧ x - (roundHalfEven x : Rat) ≤ 1 / 2 := by
  have h1 := Rat.floor_le x
  have h2 := Rat.lt_floor_add_one x
  have h3 : ((x.floor + 1 : Int) : Rat) = (x.floor : Rat) + 1 := by push_cast; rfl
  rw [h3] at h2
  unfold roundHalfEven
  simp only
  split
  · constructor <;> grind
  · split
    · rw [h3]; constructor <;> grind
    · split
      · constructor <;> grind
      · rw [h3]; constructor <;> grind

theorem roundHalfEven_nonneg (x : Rat) (hx : 0 ≤ x) : 0 ≤ roundHalfEven x := by
  have hf : (0 : Int) ≤ x.floor := Rat.le_floor_iff.mpr (by simpa using hx)
  rcases roundHalfEven_cases x with h | h <;> omega

theorem pow10_rat_pos (p : Nat) : (0 : Rat) < ((10 ^ p : Nat) : Rat) :=
  Rat.natCast_pos.mpr (pow10_pos p)

/-- `round(q, p)` in ticks is within half a tick of `q` -/
theorem roundTicks_bounds (q : Rat) (hq : 0 ≤ q) (p : Nat) :
    (roundTicks q p : Rat) = ((roundHalfEven (q * ((10 ^ p : Nat) : Rat)) : Int) : Rat) ∧
    (roundTicks q p : Rat) / ((10 ^ p : Nat) : Rat) - q ≤ 1 / (2 * ((10 ^ p : Nat) : Rat)) ∧
    q - (roundTicks q p : Rat) / ((10 ^ p : Nat) : Rat) ≤ 1 / (2 * ((10 ^ p : Nat) : Rat)) := by
  have hP := pow10_rat_pos p
  have hP0 := pow10_rat_ne p
  unfold roundTicks
  generalize ((10 ^ p : Nat) : Rat) = P at hP hP0 ⊢
  have hx : 0 ≤ q * P := Rat.mul_nonneg hq (Rat.le_of_lt hP)
  have hnn := roundHalfEven_nonneg _ hx
  have hb := roundHalfEven_bounds (q * P)
  have hc : (((roundHalfEven (q * P)).toNat : Nat) : Rat) = ((roundHalfEven (q * P) : Int) : Rat) := by
    have := Int.toNat_of_nonneg hnn
    exact_mod_cast congrArg (fun z : Int => (z : Rat)) this
  rw [hc]
  generalize ((roundHalfEven (q * P) : Int) : Rat) = N at hb ⊢
  have he : 1 / (2 * P) * P = 1 / 2 := by grind
  have hy : N / P * P = N := Rat.div_mul_cancel hP0
  refine ⟨rfl, ?_, ?_⟩
  · apply Rat.le_of_mul_le_mul_right _ hP
    have e : (N / P - q) * P = N - q * P := by grind
    rw [he, e]
    exact hb.1
  · apply Rat.le_of_mul_le_mul_right _ hP
    have e : (q - N / P) * P = q * P - N := by grind
    rw [he, e]
    exact hb.2

/-! ### ISO 8601 renderings -/

/-- `number letter` or nothing -/
def og (U : Char) : Option NumText → List Char
  | none => []
  | some t => t.text ++ [U]

def OWF (x : Option NumText) : Prop := ∀ t, x = some t → t.WF

/-- the group with letter `U` does not start here -/
def IBlocked (U : Char) (tail : List Char) : Prop :=
  optGroup false (· == U) tail = (none, tail)

theorem parseNum_none (cs : List Char) (h : headSat (fun c => !c.isDigit) cs) : parseNum cs = none := by
  cases cs with
  | nil => simp [parseNum, takeDigits]
  | cons c r => simp [headSat] at h; simp [parseNum, takeDigits, h]

theorem iblocked_head (U : Char) (tail : List Char) (h : headSat (fun c => !c.isDigit) tail) :
    IBlocked U tail := by
  simp [IBlocked, optGroup, parseNum_none tail h]

theorem iblocked_og (U V : Char) (hV : numEnd V = true) (hne : (V == U) = false)
    (x : Option NumText) (wf : OWF x) (tail : List Char) (hb : IBlocked U tail) :
    IBlocked U (og V x ++ tail) := by
  cases x with
  | none => simpa [og] using hb
  | some t =>
    unfold IBlocked
    have e : og V (some t) ++ tail = t.text ++ (V :: tail) := by simp [og]
    rw [e, optGroup_text false _ t (wf t rfl) _ (by simpa [headSat] using hV)]
    simp [hne]

theorem isoStage (U : Char) (hU : numEnd U = true) (x : Option NumText) (wf : OWF x)
    (tail : List Char) (hb : IBlocked U tail) :
    optGroup false (· == U) (og U x ++ tail) = (x.map (·.num), tail) := by
  cases x with
  | none => simpa [og, IBlocked] using hb
  | some t =>
    have e : og U (some t) ++ tail = t.text ++ (U :: tail) := by simp [og]
    rw [e, optGroup_text false _ t (wf t rfl) _ (by simpa [headSat] using hU)]
    simp

structure IsoR where
  pre : List Char := []
  y : Option NumText := none
  mo : Option NumText := none
  d : Option NumText := none
  t : Bool := false                 -- the letter `T` is there
  h : Option NumText := none
  m : Option NumText := none
  s : Option NumText := none
  post : List Char := []

namespace IsoR

def timeText (r : IsoR) : List Char := og 'H' r.h ++ (og 'M' r.m ++ (og 'S' r.s ++ r.post))

def rest (r : IsoR) : List Char := if r.t then 'T' :: r.timeText else r.post

def text (r : IsoR) : List Char :=
  r.pre ++ 'P' :: (og 'Y' r.y ++ (og 'M' r.mo ++ (og 'D' r.d ++ r.rest)))

def WF (r : IsoR) : Prop :=
  allWs r.pre ∧ allWs r.post ∧ OWF r.y ∧ OWF r.mo ∧ OWF r.d ∧ OWF r.h ∧ OWF r.m ∧ OWF r.s ∧
    (r.t = false → r.h = none ∧ r.m = none ∧ r.s = none)

def groups (r : IsoR) : Groups :=
  { y := r.y.map (·.num), mo := r.mo.map (·.num), d := r.d.map (·.num),
    h := r.h.map (·.num), m := r.m.map (·.num), s := r.s.map (·.num) }

/-- the numbers from the smallest unit -/
def nums (r : IsoR) : List (Option NumText) := [r.s, r.m, r.h, r.d, r.mo, r.y]

def NonEmpty (r : IsoR) : Prop := r.nums.any (·.isSome) = true

end IsoR

theorem headSat_ws_nodigit (w : List Char) (hw : allWs w) : headSat (fun c => !c.isDigit) w := by
  cases w with
  | nil => trivial
  | cons c w => simp [headSat]; exact isWs_not_digit (hw c (by simp))

theorem isoTime_text (r : IsoR) (wf : r.WF) (y mo d : Option Num) :
    isoTime y mo d r.timeText =
      some { y := y, mo := mo, d := d, h := r.h.map (·.num), m := r.m.map (·.num), s := r.s.map (·.num) } := by
  obtain ⟨_, wpost, _, _, _, wh, wm, wsec, _⟩ := wf
  have bP : ∀ U, IBlocked U r.post := fun U => iblocked_head U _ (headSat_ws_nodigit _ wpost)
  have eH := isoStage 'H' (by decide) r.h wh (og 'M' r.m ++ (og 'S' r.s ++ r.post))
    (iblocked_og 'H' 'M' (by decide) (by decide) r.m wm _
      (iblocked_og 'H' 'S' (by decide) (by decide) r.s wsec _ (bP 'H')))
  have eM := isoStage 'M' (by decide) r.m wm (og 'S' r.s ++ r.post)
    (iblocked_og 'M' 'S' (by decide) (by decide) r.s wsec _ (bP 'M'))
  have eS := isoStage 'S' (by decide) r.s wsec r.post (bP 'S')
  unfold isoTime IsoR.timeText
  simp only [eH, eM, eS, skipWs_all_ws _ wpost, List.isEmpty_nil, ↓reduceIte]

theorem matchIso_text (r : IsoR) (wf : r.WF) : matchIso r.text = some r.groups := by
  have wf' := wf
  obtain ⟨wpre, wpost, wy, wmo, wd, wh, wm, wsec, wt⟩ := wf
  have hrest : headSat (fun c => !c.isDigit) r.rest := by
    unfold IsoR.rest
    cases r.t with
    | true => simp [headSat]
    | false => simpa using headSat_ws_nodigit _ wpost
  have bR : ∀ U, IBlocked U r.rest := fun U => iblocked_head U _ hrest
  have eY := isoStage 'Y' (by decide) r.y wy (og 'M' r.mo ++ (og 'D' r.d ++ r.rest))
    (iblocked_og 'Y' 'M' (by decide) (by decide) r.mo wmo _
      (iblocked_og 'Y' 'D' (by decide) (by decide) r.d wd _ (bR 'Y')))
  have eMo := isoStage 'M' (by decide) r.mo wmo (og 'D' r.d ++ r.rest)
    (iblocked_og 'M' 'D' (by decide) (by decide) r.d wd _ (bR 'M'))
  have eD := isoStage 'D' (by decide) r.d wd r.rest (bR 'D')
  unfold matchIso IsoR.text
  rw [skipWs_append_ws _ _ wpre, skipWs_cons_of_not_ws _ (by decide)]
  simp only [beq_self_eq_true, ↓reduceIte]
  unfold isoAfterP
  simp only [eY, eMo, eD]
  unfold IsoR.rest
  cases ht : r.t with
  | true =>
    simp only [↓reduceIte, beq_self_eq_true]
    rw [isoTime_text r wf']
    rfl
  | false =>
    obtain ⟨hh, hm, hs⟩ := wt ht
    simp only [Bool.false_eq_true, ↓reduceIte]
    cases hp : r.post with
    | nil => simp [IsoR.groups, hh, hm, hs]
    | cons c w =>
      have hc : isWs c = true := wpost c (by simp [hp])
      have hcT : (c == 'T') = false := by
        cases h : (c == 'T') with
        | false => rfl
        | true =>
          have : c = 'T' := by simpa using h
          subst this
          exact absurd hc (by decide)
      have hall : skipWs (c :: w) = [] := skipWs_all_ws _ (by rw [← hp]; exact wpost)
      simp [hcT, hall, IsoR.groups, hh, hm, hs]

theorem matchTrad_P (pre rest : List Char) (hpre : allWs pre) : matchTrad (pre ++ 'P' :: rest) = none := by
  have hn : parseNum ('P' :: rest) = none := parseNum_none _ (by simp [headSat])
  have hs : skipWs ('P' :: rest) = 'P' :: rest := skipWs_cons_of_not_ws _ (by decide)
  unfold matchTrad
  rw [skipWs_append_ws _ _ hpre, hs]
  simp [optGroup, optGroupLast, hn, hs]

theorem convert_iso_sum (r : IsoR) (wf : r.WF) (hf : fracSmallestOnly r.nums = true)
    (hcal : ntVal r.y = 0 ∧ ntVal r.mo = 0) (hne : r.NonEmpty) :
    convert r.text = .ok (scaledSum r.groups.scaled) := by
  unfold convert
  have hT : matchTrad r.text = none := matchTrad_P _ _ wf.1
  rw [hT, matchIso_text r wf]
  simp only
  obtain ⟨pre, y, mo, d, t, h, m, s, post⟩ := r
  have ev : ∀ p : Option NumText, optVal (p.map (·.num)) = ntVal p := by
    intro p; cases p <;> rfl
  apply evalGroups_ok
  · simp only [IsoR.groups, Groups.scaled, calOK, ev]
    simp at hcal
    simp [hcal.1, hcal.2]
  · cases y <;> cases mo <;> cases d <;> cases h <;> cases m <;> cases s <;>
      simp_all [IsoR.groups, Groups.scaled, fracOK, allNoFrac, noFrac, IsoR.nums,
        fracSmallestOnly, NumText.num]
  · cases y <;> cases mo <;> cases d <;> cases h <;> cases m <;> cases s <;>
      simp_all [IsoR.groups, Groups.scaled, allAbsent, IsoR.NonEmpty, IsoR.nums]

theorem scaledSum_iso (r : IsoR) :
    scaledSum r.groups.scaled =
      86400 * ntVal r.d + 3600 * ntVal r.h + 60 * ntVal r.m + ntVal r.s := by
  obtain ⟨pre, y, mo, d, t, h, m, s, post⟩ := r
  have e1 : ((Gen.secPerMin : Nat) : Rat) = 60 := by decide
  have e2 : ((Gen.secPerHour : Nat) : Rat) = 3600 := by decide
  have e3 : ((Gen.secPerDay : Nat) : Rat) = 86400 := by decide
  have ev : ∀ p : Option NumText, optVal (p.map (·.num)) = ntVal p := by
    intro p; cases p <;> rfl
  simp only [IsoR.groups, Groups.scaled, scaledSum, e1, e2, e3, ev]
  grind

theorem convert_iso_eval (r : IsoR) (wf : r.WF) : convert r.text = evalGroups r.groups := by
  have hT : matchTrad r.text = none := matchTrad_P _ _ wf.1
  unfold convert
  rw [hT, matchIso_text r wf]

theorem convert_trad_eval (r : TradR) (wf : r.WF) : convert r.text = evalGroups r.groups := by
  unfold convert
  rw [matchTrad_text r wf]

/-! ### what the evaluation loop refuses -/

/-- a successful loop means: years/months zero, fraction only in the smallest present unit -/
theorem evalLoop_ok_imp (gs : List (Option Num × Option Nat)) (acc acc' : Acc)
    (h : evalLoop acc gs = .ok acc') :
    calOK gs = true ∧ (acc.smallest = true → fracOK gs = true) ∧
      (acc.smallest = false → allNoFrac gs = true) := by
  induction gs generalizing acc with
  | nil => simp [calOK, fracOK, allNoFrac]
  | cons gk gs ih =>
    obtain ⟨g, k⟩ := gk
    cases g with
    | none =>
      simp only [evalLoop, addGroup] at h
      obtain ⟨h1, h2, h3⟩ := ih acc h
      refine ⟨?_, ?_, ?_⟩
      · cases k <;> simp [calOK, optVal, h1]
      · intro hs; simpa [fracOK] using h2 hs
      · intro hs; simpa [allNoFrac, noFrac] using h3 hs
    | some n =>
      simp only [evalLoop, addGroup] at h
      cases hfr : (n.frac && !acc.smallest) with
      | true => simp [hfr] at h
      | false =>
        simp only [hfr, Bool.false_eq_true, ↓reduceIte] at h
        cases hz : (n.val == 0) with
        | true =>
          simp only [hz, ↓reduceIte] at h
          obtain ⟨h1, _, h3⟩ := ih _ h
          have hz' : n.val = 0 := by simpa using hz
          refine ⟨?_, ?_, ?_⟩
          · cases k <;> simp [calOK, optVal, h1, hz']
          · intro _; simpa [fracOK] using h3 rfl
          · intro hs
            have : n.frac = false := by simpa [hs] using hfr
            simp [allNoFrac, noFrac, this, h3 rfl]
        | false =>
          simp only [hz, Bool.false_eq_true, ↓reduceIte] at h
          cases k with
          | none => simp at h
          | some k =>
            simp only at h
            obtain ⟨h1, _, h3⟩ := ih _ h
            refine ⟨by simpa [calOK] using h1, ?_, ?_⟩
            · intro _; simpa [fracOK] using h3 rfl
            · intro hs
              have : n.frac = false := by simpa [hs] using hfr
              simp [allNoFrac, noFrac, this, h3 rfl]

theorem evalGroups_ok_imp (g : Groups) (v : Rat) (h : evalGroups g = .ok v) :
    calOK g.scaled = true ∧ fracOK g.scaled = true := by
  unfold evalGroups at h
  cases he : evalLoop ⟨0, true⟩ g.scaled with
  | error e => simp [he] at h
  | ok acc =>
    obtain ⟨h1, h2, _⟩ := evalLoop_ok_imp _ _ _ he
    exact ⟨h1, h2 rfl⟩

theorem except_error_of_not_ok {ε α : Type} (x : Except ε α) (h : ∀ v, x ≠ .ok v) : ∃ e, x = .error e := by
  cases x with
  | error e => exact ⟨e, rfl⟩
  | ok v => exact absurd rfl (h v)

/-- without years/months the only refusals of the loop are the misplaced fraction and "empty" -/
theorem evalLoop_error_fraction (gs : List (Option Num × Option Nat)) (acc : Acc) (e : Err)
    (hsc : ∀ x ∈ gs, (x.1.isSome = true → x.2.isSome = true)) (h : evalLoop acc gs = .error e) :
    e = .fraction := by
  induction gs generalizing acc with
  | nil => simp [evalLoop] at h
  | cons gk gs ih =>
    obtain ⟨g, k⟩ := gk
    have hsc' : ∀ x ∈ gs, (x.1.isSome = true → x.2.isSome = true) := fun x hx => hsc x (by simp [hx])
    cases g with
    | none => simp only [evalLoop, addGroup] at h; exact ih acc hsc' h
    | some n =>
      have hk := hsc (some n, k) (by simp) rfl
      cases k with
      | none => simp at hk
      | some k =>
        simp only [evalLoop, addGroup] at h
        cases hfr : (n.frac && !acc.smallest) with
        | true => simp [hfr] at h; exact h.symm
        | false =>
          simp only [hfr, Bool.false_eq_true, ↓reduceIte] at h
          cases hz : (n.val == 0) with
          | true => simp only [hz, ↓reduceIte] at h; exact ih _ hsc' h
          | false => simp only [hz, Bool.false_eq_true, ↓reduceIte] at h; exact ih _ hsc' h

/-- `unit * int(x / unit + 0.5)` moves a non-negative value by at most half a unit -/
theorem roundUnit_bounds (x : Rat) (hx : 0 ≤ x) (u : Nat) (hu : 0 < u) :
    (roundUnit x u : Rat) - x ≤ (u : Rat) / 2 ∧ x - (roundUnit x u : Rat) ≤ (u : Rat) / 2 := by
  have hU : (0 : Rat) < (u : Rat) := Rat.natCast_pos.mpr hu
  have hU0 : (u : Rat) ≠ 0 := by grind
  unfold roundUnit
  generalize hy : x / (u : Rat) + 1 / 2 = y
  have hyu : y * (u : Rat) = x + (u : Rat) / 2 := by
    rw [← hy]
    have := Rat.div_mul_cancel (a := x) hU0
    grind
  have h1 := Rat.floor_le y
  have h2 := Rat.lt_floor_add_one y
  have h3 : ((y.floor + 1 : Int) : Rat) = (y.floor : Rat) + 1 := by push_cast; rfl
  rw [h3] at h2
  have hy0 : 0 ≤ y := by
    have := Rat.mul_nonneg hx (Rat.le_of_lt (Rat.inv_pos.mpr hU))
    rw [← Rat.div_def] at this
    grind
  have hf : (0 : Int) ≤ y.floor := Rat.le_floor_iff.mpr (by simpa using hy0)
  have hc : ((y.floor.toNat : Nat) : Rat) = ((y.floor : Int) : Rat) := by
    have := Int.toNat_of_nonneg hf
    exact_mod_cast congrArg (fun z : Int => (z : Rat)) this
  have hm1 := Rat.mul_le_mul_of_nonneg_right h1 (Rat.le_of_lt hU)
  have hm2 := Rat.mul_lt_mul_of_pos_right h2 hU
  rw [hyu] at hm1 hm2
  have hcast : ((u * y.floor.toNat : Nat) : Rat) = (u : Rat) * ((y.floor : Int) : Rat) := by
    push_cast; rw [hc]
  rw [hcast]
  generalize ((y.floor : Int) : Rat) = k at hm1 hm2
  constructor <;> grind

theorem roundUnit_multiple (u k : Nat) (hu : 0 < u) : roundUnit ((u * k : Nat) : Rat) u = u * k := by
  have hU : (0 : Rat) < (u : Rat) := Rat.natCast_pos.mpr hu
  have hU0 : (u : Rat) ≠ 0 := by grind
  unfold roundUnit
  have hy : ((u * k : Nat) : Rat) / (u : Rat) + 1 / 2 = (k : Rat) + 1 / 2 := by
    push_cast
    have : (u : Rat) * (k : Rat) / (u : Rat) = (k : Rat) := by
      rw [Rat.mul_comm, Rat.div_def, Rat.mul_assoc, Rat.mul_inv_cancel _ hU0, Rat.mul_one]
    rw [this]
  rw [hy]
  have hfl : ((k : Rat) + 1 / 2).floor = (k : Int) := by
    have h1 : (k : Int) ≤ ((k : Rat) + 1 / 2).floor := Rat.le_floor_iff.mpr (by push_cast; grind)
    have h2 : ((k : Rat) + 1 / 2).floor < (k : Int) + 1 := Rat.floor_lt_iff.mpr (by push_cast; grind)
    omega
  rw [hfl]
  simp

/-- the coarse part of `timestr_approx` (minutes from 10 h, hours from 10 d): the value moves by at
    most half the step of its magnitude class -/
theorem approxCoarse_bounds (a : AVal) (hv : 0 ≤ a.v) :
    (a.v < 36000 → (approxCoarse a).a.v = a.v) ∧
    (36000 ≤ a.v → a.v < 864000 →
      (approxCoarse a).a.v - a.v ≤ 30 ∧ a.v - (approxCoarse a).a.v ≤ 30) ∧
    (864000 ≤ a.v →
      (approxCoarse a).a.v - a.v ≤ 1800 ∧ a.v - (approxCoarse a).a.v ≤ 1800) := by
  have c1 : ((10 * 3600 : Nat) : Rat) = 36000 := by decide
  have c2 : ((10 * 86400 : Nat) : Rat) = 864000 := by decide
  have e1 : Gen.secPerDay = 86400 := rfl
  have e2 : Gen.secPerHour = 3600 := rfl
  have e3 : Gen.secPerMin = 60 := rfl
  unfold approxCoarse
  simp only [e1, e2, e3, c1, c2]
  refine ⟨?_, ?_, ?_⟩
  · intro h
    have n1 : ¬ ((36000 : Rat) ≤ a.v ∧ a.v < 864000) := by grind
    have n2 : ¬ ((864000 : Rat) ≤ a.v) := by grind
    simp only [n1, ↓reduceIte, n2]
  · intro h1 h2
    have p1 : (36000 : Rat) ≤ a.v ∧ a.v < 864000 := ⟨h1, h2⟩
    simp only [p1, and_self, ↓reduceIte]
    have hb := roundUnit_bounds a.v hv 60 (by decide)
    have h60 : ((60 : Nat) : Rat) / 2 = 30 := by grind
    rw [h60] at hb
    by_cases hc : (864000 : Rat) ≤ (roundUnit a.v 60 : Rat)
    · simp only [hc, ↓reduceIte]
      -- the corner: rounding to minutes reached exactly 10 days, a multiple of an hour
      have hlt : (roundUnit a.v 60 : Rat) < 864030 := by grind
      have hlt' : roundUnit a.v 60 < 864030 := by exact_mod_cast hlt
      have hge' : 864000 ≤ roundUnit a.v 60 := by exact_mod_cast hc
      have hm : roundUnit a.v 60 = 3600 * 240 := by
        unfold roundUnit at hlt' hge' ⊢
        omega
      rw [hm, roundUnit_multiple 3600 240 (by decide), ← hm]
      exact hb
    · simp only [hc, ↓reduceIte]
      exact hb
  · intro h
    have n1 : ¬ ((36000 : Rat) ≤ a.v ∧ a.v < 864000) := by grind
    simp only [n1, ↓reduceIte, h]
    have hb := roundUnit_bounds a.v hv 3600 (by decide)
    have h3600 : ((3600 : Nat) : Rat) / 2 = 1800 := by grind
    rw [h3600] at hb
    exact hb

/-! ### the alphabet: whatever the matchers consume is made of allowed characters -/

/-- the characters that can occur in a duration string of either format -/
def allowedChar (c : Char) : Bool :=
  c.isDigit || isWs c || isMark c || isD c || isH c || isM c || isS c ||
    c == 'P' || c == 'T' || c == 'Y'

def allAllowed (cs : List Char) : Prop := ∀ c ∈ cs, allowedChar c = true

/-- `rest` is what is left of `cs` after consuming allowed characters only -/
def Consumes (cs rest : List Char) : Prop := ∃ pre, cs = pre ++ rest ∧ allAllowed pre

theorem Consumes.refl (cs : List Char) : Consumes cs cs := ⟨[], rfl, fun _ h => nomatch h⟩

theorem Consumes.trans {a b c : List Char} (h1 : Consumes a b) (h2 : Consumes b c) : Consumes a c := by
  obtain ⟨p1, e1, a1⟩ := h1
  obtain ⟨p2, e2, a2⟩ := h2
  refine ⟨p1 ++ p2, by rw [e1, e2, List.append_assoc], ?_⟩
  intro x hx
  rcases List.mem_append.mp hx with h | h
  · exact a1 x h
  · exact a2 x h

theorem Consumes.cons {c : Char} {cs rest : List Char} (hc : allowedChar c = true)
    (h : Consumes cs rest) : Consumes (c :: cs) rest := by
  obtain ⟨p, e, a⟩ := h
  refine ⟨c :: p, by rw [e]; rfl, ?_⟩
  intro x hx
  rcases List.mem_cons.mp hx with h | h
  · rw [h]; exact hc
  · exact a x h

theorem Consumes.all {cs : List Char} (h : Consumes cs []) : allAllowed cs := by
  obtain ⟨p, e, a⟩ := h
  rw [e, List.append_nil]; exact a

theorem consumes_skipWs (cs : List Char) : Consumes cs (skipWs cs) := by
  induction cs with
  | nil => exact Consumes.refl _
  | cons c cs ih =>
    cases h : isWs c with
    | true =>
      have : skipWs (c :: cs) = skipWs cs := by simp [skipWs, h]
      rw [this]
      exact Consumes.cons (by simp [allowedChar, h]) ih
    | false => rw [skipWs_cons_of_not_ws _ h]; exact Consumes.refl _

theorem consumes_takeDigits (cs : List Char) : Consumes cs (takeDigits cs).2 := by
  induction cs with
  | nil => exact Consumes.refl _
  | cons c cs ih =>
    cases h : c.isDigit with
    | true =>
      have : (takeDigits (c :: cs)).2 = (takeDigits cs).2 := by simp [takeDigits, h]
      rw [this]
      exact Consumes.cons (by simp [allowedChar, h]) ih
    | false =>
      have : (takeDigits (c :: cs)).2 = c :: cs := by simp [takeDigits, h]
      rw [this]; exact Consumes.refl _

theorem consumes_parseNum (cs : List Char) (n : Num) (rest : List Char)
    (h : parseNum cs = some (n, rest)) : Consumes cs rest := by
  unfold parseNum at h
  have h0 := consumes_takeDigits cs
  generalize takeDigits cs = p at h h0
  obtain ⟨ip, r0⟩ := p
  simp only at h0
  cases ip with
  | nil => simp at h
  | cons d ds =>
    simp only at h
    cases r0 with
    | nil => simp at h; rw [h.2]; exact h0
    | cons c r1 =>
      simp only at h
      cases hm : isMark c with
      | false => simp [hm] at h; rw [← h.2]; exact h0
      | true =>
        simp only [hm, ↓reduceIte] at h
        have h1 := consumes_takeDigits r1
        generalize takeDigits r1 = q at h h1
        obtain ⟨fp, r2⟩ := q
        simp only at h1
        cases fp with
        | nil => simp at h; rw [← h.2]; exact h0
        | cons e es =>
          simp at h
          rw [← h.2]
          exact h0.trans (Consumes.cons (by simp [allowedChar, hm]) h1)

theorem consumes_optGroup (ws : Bool) (isU : Char → Bool) (hU : ∀ c, isU c = true → allowedChar c = true)
    (cs : List Char) : Consumes cs (optGroup ws isU cs).2 := by
  unfold optGroup
  cases hp : parseNum cs with
  | none => exact Consumes.refl _
  | some nr =>
    obtain ⟨n, rest⟩ := nr
    have h1 := consumes_parseNum cs n rest hp
    have h2 : Consumes rest (if ws then skipWs rest else rest) := by
      cases ws
      · exact Consumes.refl _
      · exact consumes_skipWs _
    simp only
    generalize (if ws = true then skipWs rest else rest) = r at h2
    cases r with
    | nil => exact Consumes.refl _
    | cons u r =>
      simp only
      cases hu : isU u with
      | false => simp; exact Consumes.refl _
      | true =>
        simp only [↓reduceIte]
        exact h1.trans (h2.trans (Consumes.cons (hU u hu) (Consumes.refl _)))

theorem consumes_optGroupLast (isU : Char → Bool) (hU : ∀ c, isU c = true → allowedChar c = true)
    (cs : List Char) : Consumes cs (optGroupLast isU cs).2 := by
  unfold optGroupLast
  cases hp : parseNum cs with
  | none => exact Consumes.refl _
  | some nr =>
    obtain ⟨n, rest⟩ := nr
    have h1 := consumes_parseNum cs n rest hp
    have h2 := consumes_skipWs rest
    simp only
    generalize skipWs rest = r at h2
    cases r with
    | nil => exact h1.trans h2
    | cons u r =>
      simp only
      cases hu : isU u with
      | false => simp; exact h1.trans h2
      | true =>
        simp only [↓reduceIte]
        exact h1.trans (h2.trans (Consumes.cons (hU u hu) (Consumes.refl _)))

theorem consumes_of_skipWs_empty (r : List Char) (h : (skipWs r).isEmpty = true) : Consumes r [] := by
  have := consumes_skipWs r
  rwa [List.isEmpty_iff.mp h] at this

theorem allowed_isD (c : Char) (h : isD c = true) : allowedChar c = true := by simp [allowedChar, h]
theorem allowed_isH (c : Char) (h : isH c = true) : allowedChar c = true := by simp [allowedChar, h]
theorem allowed_isM (c : Char) (h : isM c = true) : allowedChar c = true := by simp [allowedChar, h]
theorem allowed_isS (c : Char) (h : isS c = true) : allowedChar c = true := by simp [allowedChar, h]
theorem allowed_eq (u : Char) (hu : allowedChar u = true) (c : Char) (h : (c == u) = true) :
    allowedChar c = true := by
  have : c = u := by simpa using h
  rw [this]; exact hu

theorem matchTrad_allowed (cs : List Char) (g : Groups) (h : matchTrad cs = some g) : allAllowed cs := by
  unfold matchTrad at h
  have c0 := consumes_skipWs cs
  have c1 := consumes_optGroup true isD allowed_isD (skipWs cs)
  generalize optGroup true isD (skipWs cs) = p1 at h c1
  obtain ⟨d, r1⟩ := p1
  simp only at h c1
  have c2 := (consumes_skipWs r1).trans (consumes_optGroup true isH allowed_isH (skipWs r1))
  generalize optGroup true isH (skipWs r1) = p2 at h c2
  obtain ⟨hh, r2⟩ := p2
  simp only at h c2
  have c3 := (consumes_skipWs r2).trans (consumes_optGroup true isM allowed_isM (skipWs r2))
  generalize optGroup true isM (skipWs r2) = p3 at h c3
  obtain ⟨m, r3⟩ := p3
  simp only at h c3
  have c4 := (consumes_skipWs r3).trans (consumes_optGroupLast isS allowed_isS (skipWs r3))
  generalize optGroupLast isS (skipWs r3) = p4 at h c4
  obtain ⟨sec, r4⟩ := p4
  simp only at h c4
  cases he : (skipWs r4).isEmpty with
  | false => simp [he] at h
  | true =>
    exact (c0.trans (c1.trans (c2.trans (c3.trans (c4.trans (consumes_of_skipWs_empty _ he)))))).all

theorem isoTime_allowed (y mo d : Option Num) (r : List Char) (g : Groups)
    (h : isoTime y mo d r = some g) : Consumes r [] := by
  unfold isoTime at h
  have c1 := consumes_optGroup false (· == 'H') (allowed_eq 'H' (by decide)) r
  generalize optGroup false (· == 'H') r = p1 at h c1
  obtain ⟨hh, r1⟩ := p1
  simp only at h c1
  have c2 := consumes_optGroup false (· == 'M') (allowed_eq 'M' (by decide)) r1
  generalize optGroup false (· == 'M') r1 = p2 at h c2
  obtain ⟨m, r2⟩ := p2
  simp only at h c2
  have c3 := consumes_optGroup false (· == 'S') (allowed_eq 'S' (by decide)) r2
  generalize optGroup false (· == 'S') r2 = p3 at h c3
  obtain ⟨sec, r3⟩ := p3
  simp only at h c3
  cases he : (skipWs r3).isEmpty with
  | false => simp [he] at h
  | true => exact c1.trans (c2.trans (c3.trans (consumes_of_skipWs_empty _ he)))

theorem isoAfterP_allowed (r : List Char) (g : Groups) (h : isoAfterP r = some g) : Consumes r [] := by
  unfold isoAfterP at h
  have c1 := consumes_optGroup false (· == 'Y') (allowed_eq 'Y' (by decide)) r
  generalize optGroup false (· == 'Y') r = p1 at h c1
  obtain ⟨y, r1⟩ := p1
  simp only at h c1
  have c2 := consumes_optGroup false (· == 'M') (allowed_eq 'M' (by decide)) r1
  generalize optGroup false (· == 'M') r1 = p2 at h c2
  obtain ⟨mo, r2⟩ := p2
  simp only at h c2
  have c3 := consumes_optGroup false (· == 'D') (allowed_eq 'D' (by decide)) r2
  generalize optGroup false (· == 'D') r2 = p3 at h c3
  obtain ⟨d, r3⟩ := p3
  simp only at h c3
  cases r3 with
  | nil => exact c1.trans (c2.trans c3)
  | cons c r' =>
    simp only at h
    cases hT : (c == 'T') with
    | true =>
      simp only [hT, ↓reduceIte] at h
      have := isoTime_allowed _ _ _ _ _ h
      exact c1.trans (c2.trans (c3.trans (Consumes.cons (allowed_eq 'T' (by decide) c hT) this)))
    | false =>
      simp only [hT, Bool.false_eq_true, ↓reduceIte] at h
      cases he : (skipWs (c :: r')).isEmpty with
      | false => simp [he] at h
      | true => exact c1.trans (c2.trans (c3.trans (consumes_of_skipWs_empty _ he)))

theorem matchIso_allowed (cs : List Char) (g : Groups) (h : matchIso cs = some g) : allAllowed cs := by
  unfold matchIso at h
  have c0 := consumes_skipWs cs
  generalize skipWs cs = r at h c0
  cases r with
  | nil => simp at h
  | cons c r =>
    simp only at h
    cases hP : (c == 'P') with
    | false => simp [hP] at h
    | true =>
      simp only [hP, ↓reduceIte] at h
      exact (c0.trans (Consumes.cons (allowed_eq 'P' (by decide) c hP) (isoAfterP_allowed _ _ h))).all

/-! ### repeated and misordered units -/

/-- the lower-case unit letters and their rank in the fixed order -/
def isUnitLetter (c : Char) : Bool := c == 'd' || c == 'h' || c == 'm' || c == 's'
def unitRank (c : Char) : Nat := if c = 'd' then 0 else if c = 'h' then 1 else if c = 'm' then 2 else 3

theorem unitLetter_facts (c : Char) (h : isUnitLetter c = true) : numEnd c = true ∧ isWs c = false := by
  simp only [isUnitLetter, Bool.or_eq_true, beq_iff_eq] at h
  rcases h with ((h | h) | h) | h <;> subst h <;> decide

theorem optGroup_cons (isU : Char → Bool) (t : NumText) (wf : t.WF) (c : Char) (R : List Char)
    (hc : isUnitLetter c = true) :
    optGroup true isU (t.text ++ c :: R) =
      if isU c then (some t.num, R) else (none, t.text ++ c :: R) := by
  obtain ⟨h1, h2⟩ := unitLetter_facts c hc
  rw [optGroup_text true isU t wf _ (by simpa [headSat] using h1)]
  simp only [↓reduceIte, skipWs_cons_of_not_ws _ h2]

theorem optGroupLast_cons (isU : Char → Bool) (t : NumText) (wf : t.WF) (c : Char) (R : List Char)
    (hc : isUnitLetter c = true) :
    optGroupLast isU (t.text ++ c :: R) =
      if isU c then (some t.num, R) else (some t.num, c :: R) := by
  obtain ⟨h1, h2⟩ := unitLetter_facts c hc
  rw [optGroupLast_text isU t wf _ (by simpa [headSat] using h1)]
  simp only [skipWs_cons_of_not_ws _ h2]

theorem text_ne_nil (t : NumText) (wf : t.WF) (R : List Char) : (t.text ++ R).isEmpty = false := by
  obtain ⟨ip, fr⟩ := t
  cases ip with
  | nil => exact absurd rfl wf.1
  | cons d ds => simp [NumText.text]

theorem matchIso_digit (t : NumText) (wf : t.WF) (R : List Char) : matchIso (t.text ++ R) = none := by
  unfold matchIso
  rw [NumText.text_skipWs t wf]
  obtain ⟨ip, fr⟩ := t
  obtain ⟨hne, hip, _⟩ := wf
  cases ip with
  | nil => exact absurd rfl hne
  | cons d ds =>
    have hd : d.isDigit = true := hip d (by simp)
    have : (d == 'P') = false := by
      cases h : (d == 'P') with
      | false => rfl
      | true => have : d = 'P' := by simpa using h
                subst this; exact absurd hd (by decide)
    simp [NumText.text, this]

/-! ### timestr_approx as a rendering -/

/-- the rendering `timestr_approx` produces -/
def approxR (d h m sec frac p : Nat) (omitMin omitSec : Bool) (sep : List Char) : TradR where
  d := if d ≠ 0 then some (plainPiece [] d) else none
  h := if d ≠ 0 ∨ h ≠ 0 then some (plainPiece (if d ≠ 0 then sep else []) h) else none
  m := if omitMin = false ∧ (d ≠ 0 ∨ h ≠ 0 ∨ m ≠ 0)
    then some (plainPiece (if d ≠ 0 ∨ h ≠ 0 then sep else []) m) else none
  s := if omitSec = false
    then some { pre := if d ≠ 0 ∨ h ≠ 0 ∨ (omitMin = false ∧ m ≠ 0) then sep else [],
                num := fixedNum sec frac p }
    else none
  post := []

theorem approxR_text (d h m sec frac p : Nat) (omitMin omitSec : Bool) (sep : List Char) :
    approxParts d h m sec frac p omitMin omitSec sep =
      (approxR d h m sec frac p omitMin omitSec sep).text := by
  unfold approxParts
  rw [fixedStr_eq]
  by_cases hd : d = 0 <;> by_cases hh : h = 0 <;> by_cases hm : m = 0 <;>
    cases omitMin <;> cases omitSec <;>
    simp [hd, hh, hm, approxR, TradR.text, optText, Piece.text, Piece.letter, plainPiece, joinParts,
      NumText.text, fracText]

theorem approxR_wf (d h m sec frac p : Nat) (omitMin omitSec : Bool) (sep : List Char)
    (hs : allWs sep) : (approxR d h m sec frac p omitMin omitSec sep).WF := by
  have pp : ∀ (c : Prop) [Decidable c] n, ((plainPiece (if c then sep else []) n).WF ∧
      (plainPiece (if c then sep else []) n).bare = false) := by
    intro c _ n
    by_cases hc : c
    · simp only [hc, ↓reduceIte]; exact plainPiece_wf _ hs _
    · simp only [hc, ↓reduceIte]; exact plainPiece_wf _ allWs_nil _
  refine ⟨?_, ?_, ?_, ?_, allWs_nil⟩
  · intro q hq
    simp only [approxR] at hq
    split at hq
    · cases hq; exact plainPiece_wf _ allWs_nil _
    · cases hq
  · intro q hq
    simp only [approxR] at hq
    split at hq
    · cases hq; exact pp _ _
    · cases hq
  · intro q hq
    simp only [approxR] at hq
    split at hq
    · cases hq; exact pp _ _
    · cases hq
  · intro q hq
    simp only [approxR] at hq
    split at hq
    · cases hq
      refine ⟨?_, allWs_nil, fixedNum_wf _ _ _⟩
      simp only
      split
      · exact hs
      · exact allWs_nil
    · cases hq

theorem approxR_frac (d h m sec frac p : Nat) (omitMin omitSec : Bool) (sep : List Char) :
    fracSmallestOnly (approxR d h m sec frac p omitMin omitSec sep).nums = true := by
  by_cases hd : d = 0 <;> by_cases hh : h = 0 <;> by_cases hm : m = 0 <;>
    cases omitMin <;> cases omitSec <;>
    simp [hd, hh, hm, approxR, TradR.nums, pnum, fracSmallestOnly, plainPiece, NumText.hasFrac]

/-- `convert` of the parts `timestr_approx` prints: nothing is lost when what is omitted is zero -/
theorem convert_approxParts (d h m sec frac p : Nat) (omitMin omitSec : Bool) (sep : List Char)
    (hs : allWs sep) (hfr : frac < 10 ^ p)
    (hM : omitMin = true → m = 0)
    (hS : omitSec = true → sec = 0 ∧ frac = 0)
    (hne : omitSec = false ∨ d ≠ 0 ∨ h ≠ 0 ∨ (omitMin = false ∧ m ≠ 0)) :
    convert (approxParts d h m sec frac p omitMin omitSec sep) =
      .ok (86400 * (d : Rat) + 3600 * (h : Rat) + 60 * (m : Rat) +
        ((sec : Rat) + (frac : Rat) / ((10 ^ p : Nat) : Rat))) := by
  have hne' : (approxR d h m sec frac p omitMin omitSec sep).NonEmpty := by
    by_cases hd : d = 0 <;> by_cases hh : h = 0 <;> by_cases hm : m = 0 <;>
      cases omitMin <;> cases omitSec <;>
      simp_all [TradR.NonEmpty, approxR, TradR.nums, pnum]
  rw [approxR_text, convert_trad_sum _ (approxR_wf _ _ _ _ _ _ _ _ _ hs) (approxR_frac _ _ _ _ _ _ _ _ _)
    hne', scaledSum_trad]
  congr 1
  have vd : ntVal (pnum (approxR d h m sec frac p omitMin omitSec sep).d) = (d : Rat) :=
    ntVal_plain _ _ _ (by omega)
  have vh : ntVal (pnum (approxR d h m sec frac p omitMin omitSec sep).h) = (h : Rat) :=
    ntVal_plain _ _ _ (by omega)
  have vm : ntVal (pnum (approxR d h m sec frac p omitMin omitSec sep).m) = (m : Rat) := by
    apply ntVal_plain
    intro hc
    cases omitMin with
    | true => exact hM rfl
    | false => simp at hc; exact hc.2.2
  have vs : ntVal (pnum (approxR d h m sec frac p omitMin omitSec sep).s) =
      (sec : Rat) + (frac : Rat) / ((10 ^ p : Nat) : Rat) := by
    cases omitSec with
    | false =>
      simp only [approxR, ↓reduceIte, pnum, Option.map, ntVal]
      exact fixedNum_val _ _ _ hfr
    | true =>
      obtain ⟨h1, h2⟩ := hS rfl
      subst h1; subst h2
      simp [approxR, pnum, ntVal]
      grind
  rw [vd, vh, vm, vs]

theorem roundHalfEven_intCast (z : Int) : roundHalfEven (z : Rat) = z := by
  unfold roundHalfEven
  simp only [Rat.floor_intCast]
  have : ((z : Int) : Rat) - ((z : Int) : Rat) < 1 / 2 := by grind
  simp only [this, ↓reduceIte]

/-- a value on the `10^-p` grid is not moved by rounding to `p` places -/
theorem roundTicks_on_grid (N p : Nat) : roundTicks ((N : Rat) / ((10 ^ p : Nat) : Rat)) p = N := by
  unfold roundTicks
  rw [Rat.div_mul_cancel (pow10_rat_ne p)]
  have : ((N : Nat) : Rat) = ((N : Int) : Rat) := (Rat.intCast_natCast N).symm
  rw [this, roundHalfEven_intCast]
  simp

/-- nothing omitted: the parts convert back to `ticks / 10^p` -/
theorem convert_approxRender_full (a : AVal) (N : Nat) (sep : List Char) (hs : allWs sep)
    (hN : roundTicks a.v (if a.isFloat then a.sprec else 0) = N) :
    convert (approxRender ⟨a, false, false⟩ sep) =
      .ok ((N : Rat) / ((10 ^ (if a.isFloat then a.sprec else 0) : Nat) : Rat)) := by
  unfold approxRender
  simp only [hN, Bool.false_eq_true, ↓reduceIte]
  generalize (if a.isFloat = true then a.sprec else 0) = p
  have hP := pow10_rat_ne p
  have hfr : N % 10 ^ p < 10 ^ p := Nat.mod_lt _ (pow10_pos p)
  rw [convert_approxParts _ _ _ _ _ _ false false sep hs hfr (by intro h; cases h) (by intro h; cases h)
    (Or.inl rfl)]
  congr 1
  generalize hw : N / 10 ^ p = whole
  generalize hf : N % 10 ^ p = frac
  have ht : N = 10 ^ p * whole + frac := by rw [← hw, ← hf]; exact (Nat.div_add_mod _ _).symm
  have e1 : Gen.secPerDay = 86400 := rfl
  have e2 : Gen.secPerHour = 3600 := rfl
  have e3 : Gen.secPerMin = 60 := rfl
  simp only [e1, e2, e3]
  have hwd : whole = 86400 * (whole / 86400) + 3600 * (whole % 86400 / 3600)
      + 60 * (whole % 86400 % 3600 / 60) + whole % 86400 % 3600 % 60 := by omega
  generalize whole / 86400 = d at hwd ⊢
  generalize whole % 86400 / 3600 = h at hwd ⊢
  generalize whole % 86400 % 3600 / 60 = m at hwd ⊢
  generalize whole % 86400 % 3600 % 60 = sec at hwd ⊢
  have htq : (N : Rat) = ((10 ^ p : Nat) : Rat) * (whole : Rat) + (frac : Rat) := by
    rw [ht]; push_cast; rfl
  have hwq : (whole : Rat) = 86400 * (d : Rat) + 3600 * (h : Rat) + 60 * (m : Rat) + (sec : Rat) := by
    rw [hwd]; push_cast; rfl
  grind

/-- an integer value with seconds (and minutes) omitted: nothing is lost when it is a multiple of a
    minute (an hour) -/
theorem convert_approxRender_int (k : Nat) (omitMin omitSec : Bool) (sep : List Char) (hs : allWs sep)
    (hS : omitSec = true → k % 60 = 0 ∧ 60 ≤ k)
    (hM : omitMin = true → k % 3600 = 0 ∧ 3600 ≤ k ∧ omitSec = true) :
    convert (approxRender ⟨⟨(k : Rat), false, 0⟩, omitMin, omitSec⟩ sep) = .ok (k : Rat) := by
  have hN : roundTicks (k : Rat) 0 = k := by
    have := roundTicks_on_grid k 0
    have e : (k : Rat) / ((10 ^ 0 : Nat) : Rat) = (k : Rat) := by grind
    rwa [e] at this
  unfold approxRender
  simp only [Bool.false_eq_true, ↓reduceIte, hN, Nat.pow_zero, Nat.div_one, Nat.mod_one]
  have e1 : Gen.secPerDay = 86400 := rfl
  have e2 : Gen.secPerHour = 3600 := rfl
  have e3 : Gen.secPerMin = 60 := rfl
  simp only [e1, e2, e3]
  cases omitMin with
  | true =>
    obtain ⟨h1, h2, h3⟩ := hM rfl
    subst h3
    simp only [↓reduceIte]
    rw [convert_approxParts _ _ 0 _ 0 0 true true sep hs (by decide) (fun _ => rfl)
      (fun _ => ⟨by omega, rfl⟩) (by right; omega)]
    congr 1
    have hk : k = 86400 * (k / 86400) + 3600 * (k % 86400 / 3600) + k % 86400 % 3600 := by omega
    generalize k / 86400 = d at hk ⊢
    generalize k % 86400 / 3600 = h at hk ⊢
    generalize k % 86400 % 3600 = sec at hk ⊢
    have hq : (k : Rat) = 86400 * (d : Rat) + 3600 * (h : Rat) + (sec : Rat) := by
      rw [hk]; push_cast; rfl
    rw [hq]
    have z : ((0 : Nat) : Rat) = 0 := rfl
    rw [z]
    grind
  | false =>
    simp only [Bool.false_eq_true, ↓reduceIte]
    rw [convert_approxParts _ _ _ _ 0 0 false omitSec sep hs (by decide) (by intro h; cases h)
      (fun h => ⟨by have := hS h; omega, rfl⟩)
      (by
        cases omitSec with
        | false => exact Or.inl rfl
        | true =>
          have := hS rfl
          by_cases hd : k / 86400 = 0
          · by_cases hh : k % 86400 / 3600 = 0
            · right; right; right; exact ⟨rfl, by omega⟩
            · right; right; left; exact hh
          · right; left; exact hd)]
    congr 1
    have hk : k = 86400 * (k / 86400) + 3600 * (k % 86400 / 3600) + 60 * (k % 86400 % 3600 / 60)
        + k % 86400 % 3600 % 60 := by omega
    generalize k / 86400 = d at hk ⊢
    generalize k % 86400 / 3600 = h at hk ⊢
    generalize k % 86400 % 3600 / 60 = m at hk ⊢
    generalize k % 86400 % 3600 % 60 = sec at hk ⊢
    have hq : (k : Rat) = 86400 * (d : Rat) + 3600 * (h : Rat) + 60 * (m : Rat) + (sec : Rat) := by
      rw [hk]; push_cast; rfl
    rw [hq]
    have z : ((0 : Nat) : Rat) = 0 := rfl
    rw [z]
    grind

/-! ### the rounding chain of timestr_approx -/

theorem roundHalfEven_le_of_lt (x : Rat) (M : Int) (h : x < (M : Rat)) : roundHalfEven x ≤ M := by
  have hf : x.floor < M := Rat.floor_lt_iff.mpr h
  rcases roundHalfEven_cases x with e | e <;> omega

theorem le_roundHalfEven_of_le (x : Rat) (K : Int) (h : (K : Rat) ≤ x) : K ≤ roundHalfEven x := by
  have hf : K ≤ x.floor := Rat.le_floor_iff.mpr h
  rcases roundHalfEven_cases x with e | e <;> omega

theorem roundTicks_le_of_lt (q : Rat) (p M : Nat) (h : q * ((10 ^ p : Nat) : Rat) < (M : Rat)) :
    roundTicks q p ≤ M := by
  unfold roundTicks
  have := roundHalfEven_le_of_lt _ (M : Int) (by rw [Rat.intCast_natCast]; exact h)
  omega

def OnGrid (a : AVal) : Prop :=
  ∃ N : Nat, a.v = (N : Rat) / ((10 ^ (if a.isFloat then a.sprec else 0) : Nat) : Rat)

theorem roundTo_on_grid (N p : Nat) :
    roundTo ((N : Rat) / ((10 ^ p : Nat) : Rat)) p = (N : Rat) / ((10 ^ p : Nat) : Rat) := by
  unfold roundTo
  rw [roundTicks_on_grid]

def fstep1 (q : Rat) : AVal := if q < 1 then ⟨roundTo q 3, true, 3⟩ else ⟨q, true, 0⟩
def fstep2 (a : AVal) : AVal := if 1 ≤ a.v ∧ a.v < 10 then ⟨roundTo a.v 2, true, 2⟩ else a
def fstep3 (a : AVal) : AVal := if 10 ≤ a.v ∧ a.v < 60 then ⟨roundTo a.v 1, true, 1⟩ else a
def fstep4 (a : AVal) : AVal :=
  if 60 ≤ a.v ∧ a.v < ((10 * Gen.secPerHour : Nat) : Rat)
  then ⟨((roundHalfEven a.v).toNat : Rat), false, 0⟩ else a

theorem approxFloat_eq (q : Rat) : approxFloat q = fstep4 (fstep3 (fstep2 (fstep1 q))) := rfl

theorem fstep2_skip (a : AVal) (h : a.v < 1 ∨ 10 ≤ a.v) : fstep2 a = a := by
  have : ¬ (1 ≤ a.v ∧ a.v < 10) := by grind
  simp [fstep2, this]

theorem fstep3_skip (a : AVal) (h : a.v < 10 ∨ 60 ≤ a.v) : fstep3 a = a := by
  have : ¬ (10 ≤ a.v ∧ a.v < 60) := by grind
  simp [fstep3, this]

theorem c36000 : ((10 * Gen.secPerHour : Nat) : Rat) = 36000 := by decide

theorem fstep4_skip (a : AVal) (h : a.v < 60 ∨ 36000 ≤ a.v) : fstep4 a = a := by
  have : ¬ (60 ≤ a.v ∧ a.v < ((10 * Gen.secPerHour : Nat) : Rat)) := by rw [c36000]; grind
  unfold fstep4
  rw [if_neg this]

theorem p3 : ((10 ^ 3 : Nat) : Rat) = 1000 := by decide
theorem p2 : ((10 ^ 2 : Nat) : Rat) = 100 := by decide
theorem p1 : ((10 ^ 1 : Nat) : Rat) = 10 := by decide

/-- what one decimal rounding of the chain does: a value on the grid, not above the class limit,
    within half a unit of the last place -/
theorem roundTo_class (q : Rat) (hq : 0 ≤ q) (p P B : Nat) (hP : ((10 ^ p : Nat) : Rat) = (P : Rat))
    (hP0 : 0 < P) (hB : q < (B : Rat)) :
    ∃ N : Nat, roundTo q p = (N : Rat) / ((10 ^ p : Nat) : Rat) ∧ N ≤ B * P ∧
      roundTo q p - q ≤ 1 / (2 * (P : Rat)) ∧ q - roundTo q p ≤ 1 / (2 * (P : Rat)) := by
  obtain ⟨_, b1, b2⟩ := roundTicks_bounds q hq p
  refine ⟨roundTicks q p, rfl, ?_, ?_, ?_⟩
  · apply roundTicks_le_of_lt
    rw [hP]
    have hPq : (0 : Rat) < (P : Rat) := Rat.natCast_pos.mpr hP0
    have := Rat.mul_lt_mul_of_pos_right hB hPq
    have e : ((B * P : Nat) : Rat) = (B : Rat) * (P : Rat) := by push_cast; rfl
    rw [e]; exact this
  · unfold roundTo; rw [hP] at b1 ⊢; exact b1
  · unfold roundTo; rw [hP] at b2 ⊢; exact b2

/-- what the float part of `timestr_approx` delivers for `q` below 10 hours: a non-negative value on
    its decimal grid, within `half` of `q`, below 10 hours or exactly the integer 36000 -/
def FloatSpec (q : Rat) (a : AVal) (half : Rat) : Prop :=
  0 ≤ a.v ∧ a.v - q ≤ half ∧ q - a.v ≤ half ∧ OnGrid a ∧
    (a.v < 36000 ∨ a = ⟨((36000 : Nat) : Rat), false, 0⟩)

theorem class1 (q : Rat) (hq : 0 ≤ q) (h : q < 1) : FloatSpec q (approxFloat q) (1 / 2000) := by
  rw [approxFloat_eq]
  have e1 : fstep1 q = ⟨roundTo q 3, true, 3⟩ := by simp [fstep1, h]
  rw [e1]
  obtain ⟨N, hv, hN, b1, b2⟩ := roundTo_class q hq 3 1000 1 (by decide) (by decide)
    (by simpa using h)
  have hh : (1 : Rat) / (2 * ((1000 : Nat) : Rat)) = 1 / 2000 := by decide +kernel
  rw [hh] at b1 b2
  have hN0 : (0 : Rat) ≤ (N : Rat) := by exact_mod_cast Nat.zero_le N
  by_cases hc : N < 1000
  · have hNq : (N : Rat) < 1000 := by exact_mod_cast hc
    have hv1 : roundTo q 3 < 1 := by rw [hv, p3]; grind
    have hv0 : 0 ≤ roundTo q 3 := by rw [hv, p3]; grind
    rw [fstep2_skip _ (Or.inl hv1), fstep3_skip _ (Or.inl (by simp only; grind)),
      fstep4_skip _ (Or.inl (by simp only; grind))]
    exact ⟨hv0, b1, b2, ⟨N, hv⟩, Or.inl (by simp only; grind)⟩
  · have hN' : N = 1000 := by omega
    subst hN'
    have hv1 : roundTo q 3 = 1 := by rw [hv]; decide +kernel
    rw [hv1] at b1 b2 ⊢
    have : fstep4 (fstep3 (fstep2 ⟨1, true, 3⟩)) = ⟨1, true, 2⟩ := by decide +kernel
    rw [this]
    exact ⟨by decide, b1, b2, ⟨100, by decide +kernel⟩, Or.inl (by decide)⟩

theorem class2 (q : Rat) (h1 : 1 ≤ q) (h : q < 10) : FloatSpec q (approxFloat q) (1 / 200) := by
  have hq : 0 ≤ q := by grind
  rw [approxFloat_eq]
  have e1 : fstep1 q = ⟨q, true, 0⟩ := by
    have : ¬ q < 1 := by grind
    simp [fstep1, this]
  have e2 : fstep2 ⟨q, true, 0⟩ = ⟨roundTo q 2, true, 2⟩ := by simp [fstep2, h1, h]
  rw [e1, e2]
  obtain ⟨N, hv, hN, b1, b2⟩ := roundTo_class q hq 2 100 10 (by decide) (by decide)
    (by simpa using h)
  have hh : (1 : Rat) / (2 * ((100 : Nat) : Rat)) = 1 / 200 := by decide +kernel
  rw [hh] at b1 b2
  have hN0 : (0 : Rat) ≤ (N : Rat) := by exact_mod_cast Nat.zero_le N
  by_cases hc : N < 1000
  · have hNq : (N : Rat) < 1000 := by exact_mod_cast hc
    have hv1 : roundTo q 2 < 10 := by rw [hv, p2]; grind
    have hv0 : 0 ≤ roundTo q 2 := by rw [hv, p2]; grind
    rw [fstep3_skip _ (Or.inl hv1), fstep4_skip _ (Or.inl (by simp only; grind))]
    exact ⟨hv0, b1, b2, ⟨N, hv⟩, Or.inl (by simp only; grind)⟩
  · have hN' : N = 1000 := by omega
    subst hN'
    have hv1 : roundTo q 2 = 10 := by rw [hv]; decide +kernel
    rw [hv1] at b1 b2 ⊢
    have : fstep4 (fstep3 ⟨10, true, 2⟩) = ⟨10, true, 1⟩ := by decide +kernel
    rw [this]
    exact ⟨by decide, b1, b2, ⟨100, by decide +kernel⟩, Or.inl (by decide)⟩

theorem class3 (q : Rat) (h1 : 10 ≤ q) (h : q < 60) : FloatSpec q (approxFloat q) (1 / 20) := by
  have hq : 0 ≤ q := by grind
  rw [approxFloat_eq]
  have e1 : fstep1 q = ⟨q, true, 0⟩ := by
    have : ¬ q < 1 := by grind
    simp [fstep1, this]
  have e3 : fstep3 ⟨q, true, 0⟩ = ⟨roundTo q 1, true, 1⟩ := by simp [fstep3, h1, h]
  rw [e1, fstep2_skip _ (Or.inr h1), e3]
  obtain ⟨N, hv, hN, b1, b2⟩ := roundTo_class q hq 1 10 60 (by decide) (by decide)
    (by simpa using h)
  have hh : (1 : Rat) / (2 * ((10 : Nat) : Rat)) = 1 / 20 := by decide +kernel
  rw [hh] at b1 b2
  have hN0 : (0 : Rat) ≤ (N : Rat) := by exact_mod_cast Nat.zero_le N
  by_cases hc : N < 600
  · have hNq : (N : Rat) < 600 := by exact_mod_cast hc
    have hv1 : roundTo q 1 < 60 := by rw [hv, p1]; grind
    have hv0 : 0 ≤ roundTo q 1 := by rw [hv, p1]; grind
    rw [fstep4_skip _ (Or.inl hv1)]
    exact ⟨hv0, b1, b2, ⟨N, hv⟩, Or.inl (by simp only; grind)⟩
  · have hN' : N = 600 := by omega
    subst hN'
    have hv1 : roundTo q 1 = 60 := by rw [hv]; decide +kernel
    rw [hv1] at b1 b2 ⊢
    have : fstep4 ⟨60, true, 1⟩ = ⟨60, false, 0⟩ := by decide +kernel
    rw [this]
    exact ⟨by decide, b1, b2, ⟨60, by decide +kernel⟩, Or.inl (by decide)⟩

theorem class4 (q : Rat) (h1 : 60 ≤ q) (h : q < 36000) : FloatSpec q (approxFloat q) (1 / 2) := by
  have hq : 0 ≤ q := by grind
  rw [approxFloat_eq]
  have e1 : fstep1 q = ⟨q, true, 0⟩ := by
    have : ¬ q < 1 := by grind
    simp [fstep1, this]
  have e4 : fstep4 ⟨q, true, 0⟩ = ⟨((roundHalfEven q).toNat : Rat), false, 0⟩ := by
    unfold fstep4
    rw [if_pos ⟨h1, by rw [c36000]; exact h⟩]
  rw [e1, fstep2_skip _ (Or.inr (by simp only; grind)), fstep3_skip _ (Or.inr h1), e4]
  have hnn := roundHalfEven_nonneg q hq
  have hb := roundHalfEven_bounds q
  have hle := roundHalfEven_le_of_lt q 36000 (by simpa using h)
  have hc : (((roundHalfEven q).toNat : Nat) : Rat) = ((roundHalfEven q : Int) : Rat) := by
    have := Int.toNat_of_nonneg hnn
    exact_mod_cast congrArg (fun z : Int => (z : Rat)) this
  generalize hk : (roundHalfEven q).toNat = k at hc
  have hk36 : k ≤ 36000 := by omega
  rw [← hc] at hb
  have hk0 : (0 : Rat) ≤ (k : Rat) := by exact_mod_cast Nat.zero_le k
  refine ⟨hk0, hb.1, hb.2, ⟨k, ?_⟩, ?_⟩
  · simp only [Bool.false_eq_true, ↓reduceIte]
    have : ((10 ^ 0 : Nat) : Rat) = 1 := by decide
    rw [this]
    grind
  · by_cases hlt : k < 36000
    · left
      have : (k : Rat) < 36000 := by exact_mod_cast hlt
      exact this
    · right
      have : k = 36000 := by omega
      rw [this]

theorem approxFloat_large (q : Rat) (h : 36000 ≤ q) : approxFloat q = ⟨q, true, 0⟩ := by
  rw [approxFloat_eq]
  have e1 : fstep1 q = ⟨q, true, 0⟩ := by
    have : ¬ q < 1 := by grind
    simp [fstep1, this]
  rw [e1, fstep2_skip _ (Or.inr (by simp only; grind)), fstep3_skip _ (Or.inr (by simp only; grind)),
    fstep4_skip _ (Or.inr h)]

/-- the three shapes of what the coarse part of `timestr_approx` returns -/
theorem approxCoarse_cases (a : AVal) (hv : 0 ≤ a.v) :
    (a.v < 36000 → approxCoarse a = ⟨a, false, false⟩) ∧
    (36000 ≤ a.v → a.v < 864000 → ∃ k : Nat, k % 60 = 0 ∧ 60 ≤ k ∧
      ((k < 864000 ∧ approxCoarse a = ⟨⟨(k : Rat), false, 0⟩, false, true⟩) ∨
       (k = 864000 ∧ approxCoarse a = ⟨⟨((864000 : Nat) : Rat), false, 0⟩, true, true⟩))) ∧
    (864000 ≤ a.v → ∃ k : Nat, k % 3600 = 0 ∧ 3600 ≤ k ∧
      approxCoarse a = ⟨⟨(k : Rat), false, 0⟩, true, true⟩) := by
  have c1 : ((10 * 3600 : Nat) : Rat) = 36000 := by decide
  have c2 : ((10 * 86400 : Nat) : Rat) = 864000 := by decide
  have e1 : Gen.secPerDay = 86400 := rfl
  have e2 : Gen.secPerHour = 3600 := rfl
  have e3 : Gen.secPerMin = 60 := rfl
  unfold approxCoarse
  simp only [e1, e2, e3, c1, c2]
  refine ⟨?_, ?_, ?_⟩
  · intro h
    have n1 : ¬ ((36000 : Rat) ≤ a.v ∧ a.v < 864000) := by grind
    have n2 : ¬ ((864000 : Rat) ≤ a.v) := by grind
    simp only [n1, ↓reduceIte, n2]
  · intro h1 h2
    have p1 : (36000 : Rat) ≤ a.v ∧ a.v < 864000 := ⟨h1, h2⟩
    simp only [p1, and_self, ↓reduceIte]
    have hb := roundUnit_bounds a.v hv 60 (by decide)
    have h60 : ((60 : Nat) : Rat) / 2 = 30 := by grind
    rw [h60] at hb
    have hge : (35970 : Rat) ≤ (roundUnit a.v 60 : Rat) := by grind
    have hge' : 35970 ≤ roundUnit a.v 60 := by exact_mod_cast hge
    have hmod : roundUnit a.v 60 % 60 = 0 := by unfold roundUnit; exact Nat.mul_mod_right _ _
    refine ⟨roundUnit a.v 60, hmod, by omega, ?_⟩
    by_cases hc : (864000 : Rat) ≤ (roundUnit a.v 60 : Rat)
    · right
      simp only [hc, ↓reduceIte]
      have hlt : (roundUnit a.v 60 : Rat) < 864030 := by grind
      have hlt' : roundUnit a.v 60 < 864030 := by exact_mod_cast hlt
      have hge2 : 864000 ≤ roundUnit a.v 60 := by exact_mod_cast hc
      have hm : roundUnit a.v 60 = 3600 * 240 := by omega
      refine ⟨hm, ?_⟩
      rw [hm, roundUnit_multiple 3600 240 (by decide)]
      rfl
    · left
      simp only [hc, ↓reduceIte]
      have : (roundUnit a.v 60 : Rat) < 864000 := by grind
      exact ⟨by exact_mod_cast this, trivial⟩
  · intro h
    have n1 : ¬ ((36000 : Rat) ≤ a.v ∧ a.v < 864000) := by grind
    simp only [n1, ↓reduceIte, h]
    have hb := roundUnit_bounds a.v hv 3600 (by decide)
    have h3600 : ((3600 : Nat) : Rat) / 2 = 1800 := by grind
    rw [h3600] at hb
    have hge : (3600 : Rat) ≤ (roundUnit a.v 3600 : Rat) := by grind
    have hge' : 3600 ≤ roundUnit a.v 3600 := by exact_mod_cast hge
    have hmod : roundUnit a.v 3600 % 3600 = 0 := by unfold roundUnit; exact Nat.mul_mod_right _ _
    exact ⟨roundUnit a.v 3600, hmod, hge', rfl⟩

/-- **the approximate rendering converts back to the value it stands for** -/
theorem convert_approxRender_coarse (a : AVal) (hv : 0 ≤ a.v) (hg : a.v < 36000 → OnGrid a)
    (sep : List Char) (hs : allWs sep) :
    convert (approxRender (approxCoarse a) sep) = .ok (approxCoarse a).a.v := by
  obtain ⟨k1, k2, k3⟩ := approxCoarse_cases a hv
  by_cases c1 : a.v < 36000
  · rw [k1 c1]
    obtain ⟨N, hN⟩ := hg c1
    have hr : roundTicks a.v (if a.isFloat then a.sprec else 0) = N := by
      rw [hN]; exact roundTicks_on_grid _ _
    rw [convert_approxRender_full a N sep hs hr, ← hN]
  · by_cases c2 : a.v < 864000
    · obtain ⟨k, hm, hk, hcase⟩ := k2 (by grind) c2
      rcases hcase with ⟨_, e⟩ | ⟨hk8, e⟩
      · rw [e]
        exact convert_approxRender_int k false true sep hs (fun _ => ⟨hm, hk⟩) (by intro h; cases h)
      · rw [e]
        exact convert_approxRender_int 864000 true true sep hs (fun _ => ⟨by decide, by decide⟩)
          (fun _ => ⟨by decide, by decide, rfl⟩)
    · obtain ⟨k, hm, hk, e⟩ := k3 (by grind)
      rw [e]
      exact convert_approxRender_int k true true sep hs (fun _ => ⟨by omega, by omega⟩)
        (fun _ => ⟨hm, hk, rfl⟩)

/-- the number a `timestr`/`timestr_approx` argument stands for -/
def Secs.val : Secs → Rat
  | .int n => (n : Rat)
  | .float q => q

theorem approxCoarse_36000 :
    (approxCoarse ⟨((36000 : Nat) : Rat), false, 0⟩).a.v = 36000 := by decide +kernel

/-! ### a well-formed beginning followed by something that cannot go on -/

theorem blocked_opt' (isU : Char → Bool) (lo up : Char) (L : Letters lo up)
    (hlo : isU lo = false) (hup : isU up = false) (p : Option Piece) (wf : OptWF p)
    (tail : List Char) (ht : p.isSome = true ∨ Blocked isU tail) : Blocked isU (optText lo up p ++ tail) := by
  cases p with
  | none =>
    rcases ht with h | h
    · cases h
    · simpa [optText] using h
  | some q => exact blocked_piece isU lo up L hlo hup q (wf q rfl).1 (wf q rfl).2 tail

theorem stage' (isU : Char → Bool) (lo up : Char) (L : Letters lo up)
    (hlo : isU lo = true) (hup : isU up = true) (p : Option Piece) (wf : OptWF p)
    (tail : List Char) (ht : p = none → Blocked isU tail) :
    ∃ r, optGroup true isU (skipWs (optText lo up p ++ tail)) = (p.map (·.num.num), r) ∧
      skipWs r = skipWs tail := by
  cases p with
  | none => exact ⟨skipWs tail, by simpa [optText, Blocked] using ht rfl, skipWs_idem _⟩
  | some q =>
    refine ⟨tail, ?_, rfl⟩
    simp only [optText, Option.map]
    rw [optGroup_piece isU lo up L q (wf q rfl).1 (wf q rfl).2 tail]
    cases q.upper <;> simp [hlo, hup]

theorem optGroupLast_piece (isU : Char → Bool) (lo up : Char) (L : Letters lo up)
    (hlo : isU lo = true) (hup : isU up = true) (q : Piece) (wf : q.WF) (hb : q.bare = false)
    (tail : List Char) :
    optGroupLast isU (skipWs (q.text lo up ++ tail)) = (some q.num.num, tail) := by
  obtain ⟨hpre, hmid, hnum⟩ := wf
  have e : q.text lo up ++ tail =
      q.pre ++ (q.num.text ++ (q.mid ++ ((if q.upper then up else lo) :: tail))) := by
    simp [Piece.text, Piece.letter, hb]
  have hl : isWs (if q.upper then up else lo) = false := by
    cases q.upper <;> simp [L.lo_ws, L.up_ws]
  have hle : numEnd (if q.upper then up else lo) = true := by
    cases q.upper <;> simp [L.lo_end, L.up_end]
  have hu : isU (if q.upper then up else lo) = true := by
    cases q.upper <;> simp [hlo, hup]
  rw [e, skipWs_append_ws _ _ hpre, NumText.text_skipWs _ hnum]
  rw [optGroupLast_text isU _ hnum _ (headSat_mid _ _ hmid (by simpa [headSat] using hle))]
  simp [skipWs_append_ws _ _ hmid, skipWs_cons_of_not_ws _ hl, hu]

/-- a beginning of a traditional duration string: pieces with their unit letters -/
structure TradP where
  d : Option Piece := none
  h : Option Piece := none
  m : Option Piece := none
  s : Option Piece := none

namespace TradP

def text (r : TradP) (tail : List Char) : List Char :=
  optText 'd' 'D' r.d ++ (optText 'h' 'H' r.h ++ (optText 'm' 'M' r.m ++ (optText 's' 'S' r.s ++ tail)))

def WF (r : TradP) : Prop := OptWF r.d ∧ OptWF r.h ∧ OptWF r.m ∧ OptWF r.s

end TradP

/-- If after the pieces that are there, no group that is still allowed can start at `tail`
    (for every unit: a piece of that or a later unit is there, or `tail` does not start with a group
    of that unit) and `tail` is not blank, the traditional expression does not match. -/
theorem matchTrad_bad_tail (r : TradP) (wf : r.WF) (tail : List Char)
    (hd : r.d.isSome = true ∨ r.h.isSome = true ∨ r.m.isSome = true ∨ r.s.isSome = true ∨ Blocked isD tail)
    (hh : r.h.isSome = true ∨ r.m.isSome = true ∨ r.s.isSome = true ∨ Blocked isH tail)
    (hm : r.m.isSome = true ∨ r.s.isSome = true ∨ Blocked isM tail)
    (ht : skipWs tail ≠ [])
    (hs : r.s.isSome = true ∨ ∃ g r', optGroupLast isS (skipWs tail) = (g, r') ∧ skipWs r' ≠ []) :
    matchTrad (r.text tail) = none := by
  obtain ⟨wd, wh, wm, wsec⟩ := wf
  have bS : ∀ isU, isU 's' = false → isU 'S' = false → (r.s.isSome = true ∨ Blocked isU tail) →
      Blocked isU (optText 's' 'S' r.s ++ tail) :=
    fun isU a b c => blocked_opt' isU 's' 'S' lettersS a b r.s wsec tail c
  have bM : ∀ isU, isU 'm' = false → isU 'M' = false → isU 's' = false → isU 'S' = false →
      (r.m.isSome = true ∨ r.s.isSome = true ∨ Blocked isU tail) →
      Blocked isU (optText 'm' 'M' r.m ++ (optText 's' 'S' r.s ++ tail)) := by
    intro isU a b c d e
    apply blocked_opt' isU 'm' 'M' lettersM a b r.m wm
    rcases e with e | e
    · exact Or.inl e
    · exact Or.inr (bS isU c d e)
  have bH : Blocked isD (optText 'h' 'H' r.h ++ (optText 'm' 'M' r.m ++ (optText 's' 'S' r.s ++ tail))) ∨
      r.d.isSome = true := by
    rcases hd with h | h
    · exact Or.inr h
    · left
      apply blocked_opt' isD 'h' 'H' lettersH (by decide) (by decide) r.h wh
      rcases h with h | h
      · exact Or.inl h
      · exact Or.inr (bM isD (by decide) (by decide) (by decide) (by decide) h)
  obtain ⟨r0, e0, s0⟩ := stage' isD 'd' 'D' lettersD (by decide) (by decide) r.d wd _ (by
    intro hn
    rcases bH with h | h
    · exact h
    · rw [hn] at h; cases h)
  obtain ⟨r1, e1, s1⟩ := stage' isH 'h' 'H' lettersH (by decide) (by decide) r.h wh _ (by
    intro hn
    rcases hh with h | h
    · rw [hn] at h; cases h
    · exact bM isH (by decide) (by decide) (by decide) (by decide) h)
  obtain ⟨r2, e2, s2⟩ := stage' isM 'm' 'M' lettersM (by decide) (by decide) r.m wm _ (by
    intro hn
    rcases hm with h | h
    · rw [hn] at h; cases h
    · exact bS isM (by decide) (by decide) h)
  unfold matchTrad TradP.text
  simp only [e0, s0, e1, s1, e2, s2]
  cases hsec : r.s with
  | some q =>
    have := optGroupLast_piece isS 's' 'S' lettersS (by decide) (by decide) q (wsec q hsec).1
      (wsec q hsec).2 tail
    simp only [optText, this]
    cases hq : skipWs tail with
    | nil => exact absurd hq ht
    | cons c cs => simp
  | none =>
    rcases hs with h | ⟨g, r', h1, h2⟩
    · rw [hsec] at h; cases h
    · simp only [optText, List.nil_append, h1]
      cases hq : skipWs r' with
      | nil => exact absurd hq h2
      | cons c cs => simp

/-! ### units of the traditional format, misplaced pieces, a second decimal mark -/

inductive TUnit where
  | d | h | m | s
  deriving DecidableEq, Repr

namespace TUnit
def lo : TUnit → Char | .d => 'd' | .h => 'h' | .m => 'm' | .s => 's'
def up : TUnit → Char | .d => 'D' | .h => 'H' | .m => 'M' | .s => 'S'
theorem letters (u : TUnit) : Letters u.lo u.up := by
  cases u <;> exact ⟨by decide, by decide, by decide, by decide⟩
end TUnit

/-- a piece of unit `v` or of a smaller unit is there -/
def TradP.hasFrom (r : TradP) : TUnit → Bool
  | .d => r.d.isSome || r.h.isSome || r.m.isSome || r.s.isSome
  | .h => r.h.isSome || r.m.isSome || r.s.isSome
  | .m => r.m.isSome || r.s.isSome
  | .s => r.s.isSome

theorem skipWs_piece_ne_nil (q : Piece) (wf : q.WF) (lo up : Char) (rest : List Char) :
    skipWs (q.text lo up ++ rest) ≠ [] := by
  obtain ⟨hpre, _, hnum⟩ := wf
  have e : q.text lo up ++ rest = q.pre ++ (q.num.text ++ ((q.mid ++ q.letter lo up) ++ rest)) := by
    simp [Piece.text]
  rw [e, skipWs_append_ws _ _ hpre, NumText.text_skipWs _ hnum]
  intro h
  have := text_ne_nil q.num hnum ((q.mid ++ q.letter lo up) ++ rest)
  rw [h] at this
  cases this

theorem matchIso_piece (q : Piece) (wf : q.WF) (lo up : Char) (rest : List Char) :
    matchIso (q.text lo up ++ rest) = none := by
  obtain ⟨hpre, _, hnum⟩ := wf
  have e : q.text lo up ++ rest = q.pre ++ (q.num.text ++ ((q.mid ++ q.letter lo up) ++ rest)) := by
    simp [Piece.text]
  have h1 := matchIso_digit q.num hnum ((q.mid ++ q.letter lo up) ++ rest)
  unfold matchIso at h1 ⊢
  rw [e, skipWs_append_ws _ _ hpre]
  exact h1

/-- the ISO expression does not match a string that begins like a traditional one -/
theorem matchIso_tradP (r : TradP) (wf : r.WF) (tail : List Char) (ht : matchIso tail = none) :
    matchIso (r.text tail) = none := by
  obtain ⟨wd, wh, wm, wsec⟩ := wf
  unfold TradP.text
  cases hd : r.d with
  | some q => exact matchIso_piece q (wd q hd).1 _ _ _
  | none =>
    cases hh : r.h with
    | some q => exact matchIso_piece q (wh q hh).1 _ _ _
    | none =>
      cases hm : r.m with
      | some q => exact matchIso_piece q (wm q hm).1 _ _ _
      | none =>
        cases hs : r.s with
        | some q => exact matchIso_piece q (wsec q hs).1 _ _ _
        | none => simpa [optText] using ht

theorem optGroupLast_piece_other (isU : Char → Bool) (lo up : Char) (L : Letters lo up)
    (hlo : isU lo = false) (hup : isU up = false) (q : Piece) (wf : q.WF) (hb : q.bare = false)
    (tail : List Char) :
    optGroupLast isU (skipWs (q.text lo up ++ tail)) =
      (some q.num.num, (if q.upper then up else lo) :: tail) := by
  obtain ⟨hpre, hmid, hnum⟩ := wf
  have e : q.text lo up ++ tail =
      q.pre ++ (q.num.text ++ (q.mid ++ ((if q.upper then up else lo) :: tail))) := by
    simp [Piece.text, Piece.letter, hb]
  have hl : isWs (if q.upper then up else lo) = false := by
    cases q.upper <;> simp [L.lo_ws, L.up_ws]
  have hle : numEnd (if q.upper then up else lo) = true := by
    cases q.upper <;> simp [L.lo_end, L.up_end]
  have hu : isU (if q.upper then up else lo) = false := by
    cases q.upper <;> simp [hlo, hup]
  rw [e, skipWs_append_ws _ _ hpre, NumText.text_skipWs _ hnum]
  rw [optGroupLast_text isU _ hnum _ (headSat_mid _ _ hmid (by simpa [headSat] using hle))]
  simp [skipWs_append_ws _ _ hmid, skipWs_cons_of_not_ws _ hl, hu]

/-- **a repeated or misordered unit** (any case, any whitespace, after any well-formed beginning,
    whatever follows): a piece of unit `v` after a piece of `v` or of a smaller unit -/
theorem matchTrad_misordered (r : TradP) (wf : r.WF) (v : TUnit) (hfrom : r.hasFrom v = true)
    (pb : Piece) (wb : pb.WF) (hb : pb.bare = false) (rest : List Char) :
    matchTrad (r.text (pb.text v.lo v.up ++ rest)) = none ∧
      matchIso (r.text (pb.text v.lo v.up ++ rest)) = none := by
  refine ⟨?_, matchIso_tradP r wf _ (matchIso_piece pb wb _ _ _)⟩
  have bl : ∀ isU, isU v.lo = false → isU v.up = false → Blocked isU (pb.text v.lo v.up ++ rest) :=
    fun isU a b => blocked_piece isU v.lo v.up v.letters a b pb wb hb rest
  have hne := skipWs_piece_ne_nil pb wb v.lo v.up rest
  have last : ∀ (a : isS v.lo = false) (b : isS v.up = false),
      ∃ g r', optGroupLast isS (skipWs (pb.text v.lo v.up ++ rest)) = (g, r') ∧ skipWs r' ≠ [] := by
    intro a b
    refine ⟨_, _, optGroupLast_piece_other isS v.lo v.up v.letters a b pb wb hb rest, ?_⟩
    have hl : isWs (if pb.upper then v.up else v.lo) = false := by
      cases pb.upper <;> simp [v.letters.lo_ws, v.letters.up_ws]
    rw [skipWs_cons_of_not_ws _ hl]
    exact List.cons_ne_nil _ _
  apply matchTrad_bad_tail r wf _ ?_ ?_ ?_ hne ?_
  · cases v with
    | d => simp only [TradP.hasFrom, Bool.or_eq_true] at hfrom; grind
    | h => exact Or.inr (Or.inr (Or.inr (Or.inr (bl isD (by decide) (by decide)))))
    | m => exact Or.inr (Or.inr (Or.inr (Or.inr (bl isD (by decide) (by decide)))))
    | s => exact Or.inr (Or.inr (Or.inr (Or.inr (bl isD (by decide) (by decide)))))
  · cases v with
    | h => simp only [TradP.hasFrom, Bool.or_eq_true] at hfrom; grind
    | d => exact Or.inr (Or.inr (Or.inr (bl isH (by decide) (by decide))))
    | m => exact Or.inr (Or.inr (Or.inr (bl isH (by decide) (by decide))))
    | s => exact Or.inr (Or.inr (Or.inr (bl isH (by decide) (by decide))))
  · cases v with
    | m => simp only [TradP.hasFrom, Bool.or_eq_true] at hfrom; grind
    | d => exact Or.inr (Or.inr (bl isM (by decide) (by decide)))
    | h => exact Or.inr (Or.inr (bl isM (by decide) (by decide)))
    | s => exact Or.inr (Or.inr (bl isM (by decide) (by decide)))
  · cases v with
    | s => exact Or.inl (by simpa [TradP.hasFrom] using hfrom)
    | d => exact Or.inr (last (by decide) (by decide))
    | h => exact Or.inr (last (by decide) (by decide))
    | m => exact Or.inr (last (by decide) (by decide))

/-- a number text with a fraction in front of anything that is not a digit -/
theorem parseNum_text_frac (t : NumText) (wf : t.WF) (hfr : t.fr.isSome = true) (rest : List Char)
    (hr : headSat (fun c => !c.isDigit) rest) : parseNum (t.text ++ rest) = some (t.num, rest) := by
  obtain ⟨ip, fr⟩ := t
  obtain ⟨hne, hip, hfrw⟩ := wf
  simp only at hne hip hfrw hfr
  cases ip with
  | nil => exact absurd rfl hne
  | cons d ds =>
  cases fr with
  | none => cases hfr
  | some mf =>
    obtain ⟨c, fd⟩ := mf
    obtain ⟨hmk, hfne, hfd⟩ := hfrw
    have hmd : c.isDigit = false := by
      simp only [isMark, Bool.or_eq_true, beq_iff_eq] at hmk
      rcases hmk with h | h <;> subst h <;> decide
    have htd : takeDigits ((d :: ds) ++ (c :: (fd ++ rest))) = (d :: ds, c :: (fd ++ rest)) :=
      takeDigits_append _ hip _ (by simp [headSat, hmd])
    have htf : takeDigits (fd ++ rest) = (fd, rest) := takeDigits_append _ hfd _ hr
    unfold parseNum
    simp only [NumText.text, fracText, List.append_assoc, List.cons_append, htd] at htd ⊢
    simp only [hmk, ↓reduceIte, htf]
    cases fd with
    | nil => exact absurd rfl hfne
    | cons e es => simp [NumText.num, NumText.val, NumText.hasFrac, NumText.isComma, fracVal]

/-- **a second decimal mark** directly behind a number that already has a fraction (`1.5.5`,
    `1,5,5s`, `2h 3.4.5m` …), after any well-formed beginning, whatever follows -/
theorem matchTrad_second_mark (r : TradP) (wf : r.WF) (w : List Char) (hw : allWs w)
    (t : NumText) (wt : t.WF) (hfr : t.fr.isSome = true) (c : Char) (hc : isMark c = true)
    (rest : List Char) :
    matchTrad (r.text (w ++ (t.text ++ c :: rest))) = none ∧
      matchIso (r.text (w ++ (t.text ++ c :: rest))) = none := by
  have hcd : c.isDigit = false := by
    simp only [isMark, Bool.or_eq_true, beq_iff_eq] at hc
    rcases hc with h | h <;> subst h <;> decide
  have hcw : isWs c = false := by
    simp only [isMark, Bool.or_eq_true, beq_iff_eq] at hc
    rcases hc with h | h <;> subst h <;> decide
  have hsk : skipWs (w ++ (t.text ++ c :: rest)) = t.text ++ c :: rest := by
    rw [skipWs_append_ws _ _ hw, NumText.text_skipWs _ wt]
  have hp := parseNum_text_frac t wt hfr (c :: rest) (by simp [headSat, hcd])
  have hiso : matchIso (w ++ (t.text ++ c :: rest)) = none := by
    have := matchIso_digit t wt (c :: rest)
    unfold matchIso at this ⊢
    rw [skipWs_append_ws _ _ hw]; exact this
  refine ⟨?_, matchIso_tradP r wf _ hiso⟩
  have bl : ∀ isU : Char → Bool, isU c = false → Blocked isU (w ++ (t.text ++ c :: rest)) := by
    intro isU hu
    unfold Blocked
    rw [hsk]
    unfold optGroup
    rw [hp]
    simp [skipWs_cons_of_not_ws _ hcw, hu]
  have hU : ∀ isU ∈ [isD, isH, isM, isS], isU c = false := by
    simp only [isMark, Bool.or_eq_true, beq_iff_eq] at hc
    intro isU hm
    simp only [List.mem_cons, List.not_mem_nil, or_false] at hm
    rcases hc with h | h <;> subst h <;> rcases hm with rfl | rfl | rfl | rfl <;> decide
  apply matchTrad_bad_tail r wf _
    (Or.inr (Or.inr (Or.inr (Or.inr (bl isD (hU isD (by simp)))))))
    (Or.inr (Or.inr (Or.inr (bl isH (hU isH (by simp))))))
    (Or.inr (Or.inr (bl isM (hU isM (by simp)))))
  · rw [hsk]
    intro h
    have := text_ne_nil t wt (c :: rest)
    rw [h] at this; cases this
  · right
    refine ⟨some t.num, c :: rest, ?_, ?_⟩
    · rw [hsk]
      unfold optGroupLast
      rw [hp]
      simp [skipWs_cons_of_not_ws _ hcw, hU isS (by simp)]
    · rw [skipWs_cons_of_not_ws _ hcw]; exact List.cons_ne_nil _ _

/-! ### the same for the ISO format -/

theorem iblocked_og' (U V : Char) (hV : numEnd V = true) (hne : (V == U) = false)
    (x : Option NumText) (wf : OWF x) (tail : List Char) (hb : x.isSome = true ∨ IBlocked U tail) :
    IBlocked U (og V x ++ tail) := by
  cases x with
  | none =>
    rcases hb with h | h
    · cases h
    · simpa [og] using h
  | some t =>
    unfold IBlocked
    have e : og V (some t) ++ tail = t.text ++ (V :: tail) := by simp [og]
    rw [e, optGroup_text false _ t (wf t rfl) _ (by simpa [headSat] using hV)]
    simp [hne]

theorem isoStage' (U : Char) (hU : numEnd U = true) (x : Option NumText) (wf : OWF x)
    (tail : List Char) (hb : x = none → IBlocked U tail) :
    optGroup false (· == U) (og U x ++ tail) = (x.map (·.num), tail) := by
  cases x with
  | none => simpa [og, IBlocked] using hb rfl
  | some t =>
    have e : og U (some t) ++ tail = t.text ++ (U :: tail) := by simp [og]
    rw [e, optGroup_text false _ t (wf t rfl) _ (by simpa [headSat] using hU)]
    simp

theorem isEmpty_false_of_ne_nil {l : List Char} (h : l ≠ []) : l.isEmpty = false := by
  cases l with
  | nil => exact absurd rfl h
  | cons c cs => rfl

/-- behind the `T`: if no group that is still allowed can start at `tail` and `tail` is not blank,
    there is no match -/
theorem isoTime_bad_tail (y mo d : Option Num) (h m s : Option NumText)
    (wh : OWF h) (wm : OWF m) (wsec : OWF s) (tail : List Char)
    (hh : h.isSome = true ∨ m.isSome = true ∨ s.isSome = true ∨ IBlocked 'H' tail)
    (hm : m.isSome = true ∨ s.isSome = true ∨ IBlocked 'M' tail)
    (hs : s.isSome = true ∨ IBlocked 'S' tail)
    (ht : skipWs tail ≠ []) :
    isoTime y mo d (og 'H' h ++ (og 'M' m ++ (og 'S' s ++ tail))) = none := by
  have eH := isoStage' 'H' (by decide) h wh (og 'M' m ++ (og 'S' s ++ tail)) (by
    intro hn
    rcases hh with c | c
    · rw [hn] at c; cases c
    · apply iblocked_og' 'H' 'M' (by decide) (by decide) m wm
      rcases c with c | c
      · exact Or.inl c
      · exact Or.inr (iblocked_og' 'H' 'S' (by decide) (by decide) s wsec _ c))
  have eM := isoStage' 'M' (by decide) m wm (og 'S' s ++ tail) (by
    intro hn
    rcases hm with c | c
    · rw [hn] at c; cases c
    · exact iblocked_og' 'M' 'S' (by decide) (by decide) s wsec _ c)
  have eS := isoStage' 'S' (by decide) s wsec tail (by
    intro hn
    rcases hs with c | c
    · rw [hn] at c; cases c
    · exact c)
  unfold isoTime
  simp only [eH, eM, eS, isEmpty_false_of_ne_nil ht, Bool.false_eq_true, ↓reduceIte]

/-- a beginning of an ISO duration string -/
structure IsoP where
  pre : List Char := []
  y : Option NumText := none
  mo : Option NumText := none
  d : Option NumText := none
  t : Bool := false
  h : Option NumText := none
  m : Option NumText := none
  s : Option NumText := none

namespace IsoP

def text (r : IsoP) (tail : List Char) : List Char :=
  r.pre ++ 'P' :: (og 'Y' r.y ++ (og 'M' r.mo ++ (og 'D' r.d ++
    (if r.t then 'T' :: (og 'H' r.h ++ (og 'M' r.m ++ (og 'S' r.s ++ tail))) else tail))))

def WF (r : IsoP) : Prop :=
  allWs r.pre ∧ OWF r.y ∧ OWF r.mo ∧ OWF r.d ∧ OWF r.h ∧ OWF r.m ∧ OWF r.s

/-- designator `V` may not follow any more: in the part of the string where the beginning ends
    (date part, or time part behind the `T`), `V` or a later designator has been used already -/
def Closed (r : IsoP) (V : Char) : Prop :=
  if r.t then
    (V = 'H' → (r.h.isSome || r.m.isSome || r.s.isSome) = true) ∧
    (V = 'M' → (r.m.isSome || r.s.isSome) = true) ∧ (V = 'S' → r.s.isSome = true)
  else
    (V = 'Y' → (r.y.isSome || r.mo.isSome || r.d.isSome) = true) ∧
    (V = 'M' → (r.mo.isSome || r.d.isSome) = true) ∧ (V = 'D' → r.d.isSome = true)

end IsoP

/-- If, where the beginning `r` ends, no group that is still allowed can start at `tail`, `tail` is
    not blank and does not start with `T`, the ISO expression does not match. `blk U` says that the
    group of designator `U` is excluded (a piece of `U` or later is there, or `tail` is no such group). -/
theorem matchIso_bad_tail (r : IsoP) (wf : r.WF) (tail : List Char)
    (hdig : headSat (fun c => c.isDigit) tail) (htne : tail ≠ [])
    (hdate : r.t = false →
      (r.y.isSome = true ∨ r.mo.isSome = true ∨ r.d.isSome = true ∨ IBlocked 'Y' tail) ∧
      (r.mo.isSome = true ∨ r.d.isSome = true ∨ IBlocked 'M' tail) ∧
      (r.d.isSome = true ∨ IBlocked 'D' tail))
    (htime : r.t = true →
      (r.h.isSome = true ∨ r.m.isSome = true ∨ r.s.isSome = true ∨ IBlocked 'H' tail) ∧
      (r.m.isSome = true ∨ r.s.isSome = true ∨ IBlocked 'M' tail) ∧
      (r.s.isSome = true ∨ IBlocked 'S' tail)) :
    matchIso (r.text tail) = none := by
  obtain ⟨wpre, wy, wmo, wd, wh, wm, wsec⟩ := wf
  -- `tail` starts with a digit
  obtain ⟨c0, t0, rfl⟩ : ∃ c t, tail = c :: t := by
    cases tail with
    | nil => exact absurd rfl htne
    | cons c t => exact ⟨c, t, rfl⟩
  have hc0 : c0.isDigit = true := by simpa [headSat] using hdig
  have hsk : skipWs (c0 :: t0) ≠ [] := by
    rw [skipWs_cons_of_not_ws _ (digit_not_ws hc0)]; exact List.cons_ne_nil _ _
  have hT : (c0 == 'T') = false := by
    cases h : (c0 == 'T') with
    | false => rfl
    | true =>
      have : c0 = 'T' := by simpa using h
      subst this; exact absurd hc0 (by decide)
  unfold matchIso IsoP.text
  rw [skipWs_append_ws _ _ wpre, skipWs_cons_of_not_ws _ (by decide)]
  simp only [beq_self_eq_true, ↓reduceIte]
  unfold isoAfterP
  cases ht : r.t with
  | true =>
    obtain ⟨c1, c2, c3⟩ := htime ht
    have bT : ∀ U R, IBlocked U ('T' :: R) := fun U R => iblocked_head U _ (by simp [headSat])
    have eY := isoStage' 'Y' (by decide) r.y wy
      (og 'M' r.mo ++ (og 'D' r.d ++ 'T' :: (og 'H' r.h ++ (og 'M' r.m ++ (og 'S' r.s ++ c0 :: t0)))))
      (fun _ => iblocked_og 'Y' 'M' (by decide) (by decide) r.mo wmo _
        (iblocked_og 'Y' 'D' (by decide) (by decide) r.d wd _ (bT _ _)))
    have eMo := isoStage' 'M' (by decide) r.mo wmo
      (og 'D' r.d ++ 'T' :: (og 'H' r.h ++ (og 'M' r.m ++ (og 'S' r.s ++ c0 :: t0))))
      (fun _ => iblocked_og 'M' 'D' (by decide) (by decide) r.d wd _ (bT _ _))
    have eD := isoStage' 'D' (by decide) r.d wd
      ('T' :: (og 'H' r.h ++ (og 'M' r.m ++ (og 'S' r.s ++ c0 :: t0)))) (fun _ => bT _ _)
    simp only [↓reduceIte, eY, eMo, eD, beq_self_eq_true]
    exact isoTime_bad_tail _ _ _ r.h r.m r.s wh wm wsec _ c1 c2 c3 hsk
  | false =>
    obtain ⟨c1, c2, c3⟩ := hdate ht
    have eY := isoStage' 'Y' (by decide) r.y wy (og 'M' r.mo ++ (og 'D' r.d ++ c0 :: t0)) (by
      intro hn
      rcases c1 with c | c
      · rw [hn] at c; cases c
      · apply iblocked_og' 'Y' 'M' (by decide) (by decide) r.mo wmo
        rcases c with c | c
        · exact Or.inl c
        · exact Or.inr (iblocked_og' 'Y' 'D' (by decide) (by decide) r.d wd _ c))
    have eMo := isoStage' 'M' (by decide) r.mo wmo (og 'D' r.d ++ c0 :: t0) (by
      intro hn
      rcases c2 with c | c
      · rw [hn] at c; cases c
      · exact iblocked_og' 'M' 'D' (by decide) (by decide) r.d wd _ c)
    have eD := isoStage' 'D' (by decide) r.d wd (c0 :: t0) (by
      intro hn
      rcases c3 with c | c
      · rw [hn] at c; cases c
      · exact c)
    simp only [Bool.false_eq_true, ↓reduceIte, eY, eMo, eD, hT, isEmpty_false_of_ne_nil hsk]

theorem convert_syntax (cs : List Char) (h1 : matchTrad cs = none) (h2 : matchIso cs = none) :
    convert cs = .error .syntax := by
  unfold convert
  rw [h1, h2]

theorem headSat_digit_text (t : NumText) (wf : t.WF) (rest : List Char) :
    headSat (fun c => c.isDigit) (t.text ++ rest) ∧ t.text ++ rest ≠ [] := by
  obtain ⟨ip, fr⟩ := t
  obtain ⟨hne, hip, _⟩ := wf
  cases ip with
  | nil => exact absurd rfl hne
  | cons d ds => exact ⟨by simpa [NumText.text, headSat] using hip d (by simp), by simp [NumText.text]⟩

theorem iblocked_text (U V : Char) (hV : numEnd V = true) (hne : (V == U) = false)
    (b : NumText) (wb : b.WF) (rest : List Char) : IBlocked U (b.text ++ V :: rest) := by
  have := iblocked_og' U V hV hne (some b) (by intro t ht; cases ht; exact wb) rest (Or.inl rfl)
  simpa [og] using this

theorem iblocked_second_mark (U : Char) (t : NumText) (wt : t.WF) (hfr : t.fr.isSome = true)
    (c : Char) (hc : isMark c = true) (hU : (c == U) = false) (rest : List Char) :
    IBlocked U (t.text ++ c :: rest) := by
  have hcd : c.isDigit = false := by
    simp only [isMark, Bool.or_eq_true, beq_iff_eq] at hc
    rcases hc with h | h <;> subst h <;> decide
  unfold IBlocked optGroup
  rw [parseNum_text_frac t wt hfr (c :: rest) (by simp [headSat, hcd])]
  simp [hU]

end Edzed.TimeUnits
