/-
Translation tie of C12, second part: the programs generated from `_check_arg`, `OutputAsync.__init__ / start /
init_regular` and `OutputFunc.__init__ / _event_put / init_regular / stop`
(EdzedModel/Gen/TranslatedOutputBlocks.lean) run on primitives that are the operations of the model
EdzedModel/OutputBlocks.lean.  Helpers live in `Edzed.TrTie.OB`.
-/
import EdzedModel.OutputBlocks
import EdzedModel.Gen.TranslatedOutputBlocks

namespace Edzed.TrTie.OB
open Edzed.OutputBlocks Edzed.Gen.TrD Edzed.Gen.TrOB

/-! ### constructors -/

/-- the attributes a constructor sets (before: nothing is set) -/
structure Attrs where
  ctrl : Option CtrlMode := none
  guard : Int := 0
  fArgs : ArgSpec := .notSeq
  fKwargs : ArgSpec := .notSeq
  nSuccess : Nat := 0
  nCancel : Nat := 0
  nError : Nat := 0
  stopData : Option Data := none
  stopTimeout : Int := 0
  callable : Bool := false
  queue : Bool := false         -- `start`: the queue exists
  ctrlTask : Bool := false      -- `start`: the control task has been created
  started : Bool := false       -- `super().start()` was called
  output : Option Int := none   -- `init_regular`
  startLog : List String := []  -- the steps of `start`, in order
  deriving DecidableEq, Repr

def kindToMode : CtrlKind → CtrlMode
  | .cancel => .cancel
  | .wait => .wait
  | .start => .start

/-- `Class(message)`: the exception of the model a raise statement stands for -/
def mkExc (cls marker : String) : InitErr :=
  if cls == "TypeError" && marker == "not-a-sequence-of-strings" then .argsNotStrings
  else if cls == "ValueError" && marker == "mode" then .badMode
  else if cls == "ValueError" && marker == "guard-exceeds-stop_timeout" then .guardExceeds
  else .superInit

/-- `guard_time`: None, or a value that `time_period` converts (µs) or refuses -/
def guardArg : GuardArg → Option (Option Int)
  | .none => none
  | .period us => some (some us)
  | .bad => some none

/-- the leaves without `_check_arg` itself; `st` = what `super().__init__` leaves in `stop_timeout` -/
def initP0 (st : Option Int) : InitPrims Attrs InitErr ArgSpec EvArg Nat (Option Int) Data where
  isStr a := match a with | .str _ => true | _ => false
  isSequence a := match a with | .notSeq => false | _ => true
  anyItemNotStr a := match a with | .seq items => items.any Option.isNone | _ => false
  mkExc := mkExc
  checkArg _ _ := M.pure ()
  eventTuple e := match e.count with | .ok n => M.pure n | .error x => M.raise x
  timePeriod g := match g with | some us => M.pure us | none => M.raise .badGuard
  setOnSuccess n := M.modify fun s => { s with nSuccess := n }
  setOnCancel n := M.modify fun s => { s with nCancel := n }
  setOnError n := M.modify fun s => { s with nError := n }
  setGuard g := M.modify fun s => { s with guard := g }
  setCallable := M.modify fun s => { s with callable := true }
  setCtrl k := M.modify fun s => { s with ctrl := some (kindToMode k) }
  setFArgs a := M.modify fun s => { s with fArgs := a }
  setFKwargs a := M.modify fun s => { s with fKwargs := a }
  setStopData d := M.modify fun s => { s with stopData := d }
  superInit := match st with
    | some t => M.modify fun s => { s with stopTimeout := t }
    | none => M.raise .superInit
  getGuard s := s.guard
  getStopTimeout s := s.stopTimeout
  superStart := M.modify fun s => { s with started := true, startLog := s.startLog ++ ["super().start"] }
  newQueue := M.modify fun s => { s with queue := true, startLog := s.startLog ++ ["queue"] }
  createCtrlTask := M.modify fun s => { s with ctrlTask := true, startLog := s.startLog ++ ["control task"] }
  setOutput n := M.modify fun s => { s with output := some n }

/-- in the constructors `_check_arg(name, arg)` is the translated `_check_arg` -/
def initP (st : Option Int) : InitPrims Attrs InitErr ArgSpec EvArg Nat (Option Int) Data :=
  { initP0 st with checkArg := fun name a => check_arg (initP0 st) name a }

/-- the outcome of a constructor as the model states it -/
def asyncResult (r : Attrs × Out InitErr Unit Unit) : Except InitErr AsyncBlk :=
  match r with
  | (s, .next _) =>
    match s.ctrl with
    | some m => .ok { ctrl := m, guard := s.guard, fArgs := s.fArgs, fKwargs := s.fKwargs, nSuccess := s.nSuccess,
                      nCancel := s.nCancel, nError := s.nError, stopData := s.stopData, stopTimeout := s.stopTimeout }
    | none => .error .superInit
  | (_, .raise e) => .error e
  | _ => .error .superInit

def funcResult (r : Attrs × Out InitErr Unit Unit) : Except InitErr FuncBlk :=
  match r with
  | (s, .next _) => .ok { fArgs := s.fArgs, fKwargs := s.fKwargs, nSuccess := s.nSuccess, nError := s.nError,
                          stopData := s.stopData }
  | (_, .raise e) => .error e
  | _ => .error .superInit

theorem check_arg_model (st : Option Int) (name : String) (a : ArgSpec) (s : Attrs) :
    check_arg (initP0 st) name a s = if a.ok then (s, .next ()) else (s, .raise .argsNotStrings) := by
  cases a with
  | str x => simp [check_arg, initP0, ArgSpec.ok, M.raise, mkExc]
  | notSeq => simp [check_arg, initP0, ArgSpec.ok, M.raise, mkExc]
  | seq items =>
    have : (items.any Option.isNone) = !(items.all Option.isSome) := by
      induction items with
      | nil => rfl
      | cons x xs ih => cases x <;> simp_all
    cases h : items.all Option.isSome <;>
      simp [check_arg, initP0, ArgSpec.ok, this, h, M.raise, M.pure, mkExc]

theorem contains2 (a b m : String) : [a, b].contains m = (m == a || m == b) := by
  cases h1 : m == a <;> cases h2 : m == b <;> simp [List.contains, List.elem, h1, h2]

/-! stage lemmas: each primitive step of a constructor followed by the rest of the program `k` -/

theorem bind_eventTuple {β : Type} (st : Option Int) (e : EvArg) (k : Nat → M Attrs InitErr Unit β) :
    M.bind ((initP st).eventTuple e) k
      = fun s => match e.count with
        | .ok n => k n s
        | .error x => (s, .raise x) := by
  funext s; cases e <;> rfl

theorem bind_timePeriod {β : Type} (st : Option Int) (g : Option Int) (k : Int → M Attrs InitErr Unit β) :
    M.bind ((initP st).timePeriod g) k
      = fun s => match g with
        | some us => k us s
        | none => (s, .raise .badGuard) := by
  funext s; cases g <;> rfl

theorem bind_superInit {β : Type} (st : Option Int) (k : Unit → M Attrs InitErr Unit β) :
    M.bind ((initP st).superInit) k
      = fun s => match st with
        | some t => k () { s with stopTimeout := t }
        | none => (s, .raise .superInit) := by
  funext s; cases st <;> rfl

theorem bind_checkArg {β : Type} (st : Option Int) (n : String) (x : ArgSpec) (k : Unit → M Attrs InitErr Unit β) :
    M.bind ((initP st).checkArg n x) k = fun s => if x.ok then k () s else (s, .raise .argsNotStrings) := by
  funext s
  have : (initP st).checkArg n x s = check_arg (initP0 st) n x s := rfl
  simp only [M.bind, this, check_arg_model]
  cases x.ok <;> rfl

theorem bind_setOnSuccess {β : Type} (st : Option Int) (n : Nat) (k : Unit → M Attrs InitErr Unit β) :
    M.bind ((initP st).setOnSuccess n) k = fun s => k () { s with nSuccess := n } := rfl
theorem bind_setOnCancel {β : Type} (st : Option Int) (n : Nat) (k : Unit → M Attrs InitErr Unit β) :
    M.bind ((initP st).setOnCancel n) k = fun s => k () { s with nCancel := n } := rfl
theorem bind_setOnError {β : Type} (st : Option Int) (n : Nat) (k : Unit → M Attrs InitErr Unit β) :
    M.bind ((initP st).setOnError n) k = fun s => k () { s with nError := n } := rfl
theorem bind_setGuard {β : Type} (st : Option Int) (g : Int) (k : Unit → M Attrs InitErr Unit β) :
    M.bind ((initP st).setGuard g) k = fun s => k () { s with guard := g } := rfl
theorem bind_setCallable {β : Type} (st : Option Int) (k : Unit → M Attrs InitErr Unit β) :
    M.bind ((initP st).setCallable) k = fun s => k () { s with callable := true } := rfl
theorem bind_setCtrl {β : Type} (st : Option Int) (c : CtrlKind) (k : Unit → M Attrs InitErr Unit β) :
    M.bind ((initP st).setCtrl c) k = fun s => k () { s with ctrl := some (kindToMode c) } := rfl
theorem bind_setFArgs {β : Type} (st : Option Int) (x : ArgSpec) (k : Unit → M Attrs InitErr Unit β) :
    M.bind ((initP st).setFArgs x) k = fun s => k () { s with fArgs := x } := rfl
theorem bind_setFKwargs {β : Type} (st : Option Int) (x : ArgSpec) (k : Unit → M Attrs InitErr Unit β) :
    M.bind ((initP st).setFKwargs x) k = fun s => k () { s with fKwargs := x } := rfl
theorem bind_setStopData {β : Type} (st : Option Int) (x : Option Data) (k : Unit → M Attrs InitErr Unit β) :
    M.bind ((initP st).setStopData x) k = fun s => k () { s with stopData := x } := rfl
theorem bind_pure_unit {σ ε ρ β : Type} (k : Unit → M σ ε ρ β) : M.bind (M.pure ()) k = k () := rfl

/-- the last test of `OutputAsync.__init__` -/
theorem final_stage (st : Option Int) (s : Attrs) :
    ((M.get (ρ := Unit)).bind (fun st_1 =>
        if decide ((initP st).getGuard st_1 > (initP st).getStopTimeout st_1) = true then
          M.raise ((initP st).mkExc "ValueError" "guard-exceeds-stop_timeout")
        else M.pure ())) s
      = if s.guard > s.stopTimeout then (s, Out.raise (ρ := Unit) InitErr.guardExceeds) else (s, Out.next ()) := by
  by_cases h : s.guard > s.stopTimeout <;>
    simp [M.bind, M.get, M.raise, M.pure, initP, initP0, mkExc, h]

theorem oasync_init_model (a : AsyncArgs) :
    asyncResult (oasync_init (initP a.stopTimeout) a.mode a.fArgs a.fKwargs (guardArg a.guard)
        a.onSuccess a.onCancel a.onError a.stopData () () {})
      = constructAsync a := by
  obtain ⟨mode, fArgs, fKwargs, guard, onS, onC, onE, sd, st⟩ := a
  unfold oasync_init constructAsync
  simp only [bind_checkArg, bind_eventTuple, bind_setOnSuccess, bind_setOnCancel, bind_setOnError, bind_setGuard,
    bind_setCallable, bind_setCtrl, bind_setFArgs, bind_setFKwargs, bind_setStopData, bind_timePeriod,
    bind_superInit, contains2, final_stage]
  cases hok : fArgs.ok
  · simp [asyncResult, bind, Except.bind, throw, throwThe, MonadExceptOf.throw]
  · simp only [if_true]
    cases hS : onS.count with
    | error x => simp [asyncResult, bind, Except.bind]
    | ok ns =>
      cases hC : onC.count with
      | error x => simp [asyncResult, bind, Except.bind, pure, Except.pure]
      | ok nc =>
        cases hE : onE.count with
        | error x => simp [asyncResult, bind, Except.bind, pure, Except.pure]
        | ok ne =>
          cases guard with
          | bad =>
            simp [guardArg, M.bind, asyncResult, bind, Except.bind, pure, Except.pure, throw, throwThe,
              MonadExceptOf.throw]
          | none | period _ =>
            all_goals
              simp only [guardArg, M.bind, M.pure, modeOf, final_stage]
              by_cases h1 : (mode == "c" || mode == "cancel") = true
              · cases st with
                | none =>
                  simp [h1, M.bind, M.pure, M.raise, asyncResult, bind, Except.bind, pure, Except.pure, throw, throwThe,
                    MonadExceptOf.throw]
                | some t =>
                  simp only [h1, if_true, if_false, M.bind, M.pure, final_stage, Bool.false_eq_true]
                  split <;>
                    simp_all [asyncResult, kindToMode, bind, Except.bind, pure, Except.pure, throw, throwThe,
                      MonadExceptOf.throw]
              · by_cases h2 : (mode == "w" || mode == "wait") = true
                · cases st with
                  | none =>
                    simp [h1, h2, M.bind, M.pure, M.raise, asyncResult, bind, Except.bind, pure, Except.pure, throw, throwThe,
                      MonadExceptOf.throw]
                  | some t =>
                    simp only [h1, h2, if_true, if_false, M.bind, M.pure, final_stage, Bool.false_eq_true]
                    split <;>
                      simp_all [asyncResult, kindToMode, bind, Except.bind, pure, Except.pure, throw, throwThe,
                        MonadExceptOf.throw]
                · by_cases h3 : (mode == "s" || mode == "start") = true
                  · cases st with
                    | none =>
                      simp [h1, h2, h3, M.bind, M.pure, M.raise, asyncResult, bind, Except.bind, pure, Except.pure, throw, throwThe,
                        MonadExceptOf.throw]
                    | some t =>
                      simp only [h1, h2, h3, if_true, if_false, M.bind, M.pure, final_stage, Bool.false_eq_true]
                      split <;>
                        simp_all [asyncResult, kindToMode, bind, Except.bind, pure, Except.pure, throw, throwThe,
                          MonadExceptOf.throw]
                  · simp [h1, h2, h3, M.bind, M.pure, M.raise, asyncResult, bind, Except.bind, pure, Except.pure,
                      throw, throwThe, MonadExceptOf.throw, initP, initP0, mkExc]

theorem ofunc_init_model (a : FuncArgs) :
    funcResult (ofunc_init (initP (if a.superOk then some 0 else none)) a.fArgs a.fKwargs a.onSuccess a.onError
        a.stopData () () {})
      = constructFunc a := by
  obtain ⟨fArgs, fKwargs, onS, onE, sd, sup⟩ := a
  unfold ofunc_init constructFunc
  simp only [bind_checkArg, bind_eventTuple, bind_setOnSuccess, bind_setOnError, bind_setCallable, bind_setFArgs,
    bind_setFKwargs, bind_setStopData, bind_superInit]
  cases hok : fArgs.ok
  · simp [funcResult, bind, Except.bind, throw, throwThe, MonadExceptOf.throw]
  · cases hok2 : fKwargs.ok
    · simp [funcResult, bind, Except.bind, pure, Except.pure, throw, throwThe, MonadExceptOf.throw]
    · cases hS : onS.count with
      | error x => simp [funcResult, bind, Except.bind, pure, Except.pure]
      | ok ns =>
        cases hE : onE.count with
        | error x => simp [funcResult, bind, Except.bind, pure, Except.pure]
        | ok ne =>
          cases sup <;>
            simp [funcResult, M.pure, bind, Except.bind, pure, Except.pure, throw, throwThe, MonadExceptOf.throw]

/-! ### OutputFunc -/

/-- exceptions of `_event_put`: the user's function raised exception number `e` (an Exception), or a KeyError
    of `data[k]` -/
inductive FExc where
  | user (e : Nat)
  | keyError (k : String)
  deriving DecidableEq, Repr

/-- the leaves of `OutputFunc` on the model's log; events name their destination by its index -/
def funcP (cfg : FuncCfg) (f : Func) (sdRun : M (List FEv) FExc (String × (FExc ⊕ Val)) (String × (FExc ⊕ Val))) :
    FuncPrims (List FEv) FExc Data Val Nat where
  getItem d k := match d.get? k with | some v => M.pure v | none => M.raise (.keyError k)
  callFunc args kwargs := fun log =>
    match f args kwargs with
    | .ok v => (log ++ [.call args kwargs], .next v)
    | .error e => (log ++ [.call args kwargs], .raise (.user e))
  excIs _ cls := cls == "Exception"
  sendError d e := match e with
    | .user n => M.modify fun log => log ++ [.error d n]
    | .keyError _ => M.pure ()
  sendSuccess d v := M.modify fun log => log ++ [.success d v]
  setOutputBool b := M.modify fun log => log ++ [.output b]
  hasStopData := cfg.stopData.isSome
  eventPutStopData := sdRun
  superStop := M.modify fun log => log ++ [.superStop]

/-- what the translated `_event_put` yields, as the model's result -/
def funcOut (o : Out FExc (String × (FExc ⊕ Val)) Unit) : Option FRes :=
  match o with
  | .ret ("result", .inr v) => some (.result v)
  | .ret ("error", .inl (.user e)) => some (.error e)
  | .raise (.keyError k) => some (.keyError k)
  | _ => none

theorem getItems_model (cfg : FuncCfg) (f : Func) (sd) (d : Data) (keys : List String) (log : List FEv) :
    getItems (funcP cfg f sd).getItem d keys log
      = match getAll d keys with
        | .ok vs => (log, .next vs)
        | .error k => (log, .raise (.keyError k)) := by
  induction keys with
  | nil => rfl
  | cons k ks ih =>
    simp only [getItems, getAll, M.bind]
    cases hk : d.get? k with
    | none => simp [funcP, hk, M.raise]
    | some v =>
      have hg : (funcP cfg f sd).getItem d k log = (log, .next v) := by simp [funcP, hk, M.pure]
      rw [hg]; simp only [ih]
      cases getAll d ks <;> simp [M.pure]

theorem getKwItems_model (cfg : FuncCfg) (f : Func) (sd) (d : Data) (keys : List String) (log : List FEv) :
    getKwItems (funcP cfg f sd).getItem d keys log
      = match getAllKw d keys with
        | .ok vs => (log, .next vs)
        | .error k => (log, .raise (.keyError k)) := by
  induction keys with
  | nil => rfl
  | cons k ks ih =>
    simp only [getKwItems, getAllKw, M.bind]
    cases hk : d.get? k with
    | none => simp [funcP, hk, M.raise]
    | some v =>
      have hg : (funcP cfg f sd).getItem d k log = (log, .next v) := by simp [funcP, hk, M.pure]
      rw [hg]; simp only [ih]
      cases getAllKw d ks <;> simp [M.pure]

theorem error_loop (cfg : FuncCfg) (f : Func) (sd) (fa fk : List String) (ds ss : List Nat) (e : Nat)
    (l : List Nat) (log : List FEv) :
    ofunc_event_put_for1 (funcP cfg f sd) fa fk ds ss (.user e) l log
      = (log ++ l.map (fun d => .error d e), .next ()) := by
  induction l generalizing log with
  | nil => simp [ofunc_event_put_for1, M.pure]
  | cons d l ih =>
    have hs : (funcP cfg f sd).sendError d (.user e) log = (log ++ [.error d e], .next ()) := rfl
    simp only [ofunc_event_put_for1, M.bind, hs, ih]
    simp

theorem success_loop (cfg : FuncCfg) (f : Func) (sd) (fa fk : List String) (ds ss : List Nat) (v : Val)
    (l : List Nat) (log : List FEv) :
    ofunc_event_put_for2 (funcP cfg f sd) fa fk ds ss v l log
      = (log ++ l.map (fun d => .success d v), .next ()) := by
  induction l generalizing log with
  | nil => simp [ofunc_event_put_for2, M.pure]
  | cons d l ih =>
    have hs : (funcP cfg f sd).sendSuccess d v log = (log ++ [.success d v], .next ()) := rfl
    simp only [ofunc_event_put_for2, M.bind, hs, ih]
    simp

/-- `self._event_put(**self._stop_data)` inside `stop()`: the model's `eventPut` on the stop data (that the
    translated `_event_put` IS `eventPut` is the theorem `translated_outputfunc_event_put_is_model`) -/
def sdRunModel (cfg : FuncCfg) (f : Func) : M (List FEv) FExc (String × (FExc ⊕ Val)) (String × (FExc ⊕ Val)) :=
  fun log =>
    match cfg.stopData with
    | none => (log, .next ("", .inr Val.none))
    | some d =>
      match eventPut cfg f log d with
      | (l, .keyError k) => (l, .raise (.keyError k))
      | (l, .result v) => (l, .next ("result", .inr v))
      | (l, .error e) => (l, .next ("error", .inl (.user e)))

/-! ### InExecutor -/

/-- the leaves of `InExecutor.__call__`: a partial object is the function with its arguments bound;
    `run_in_executor(pool, g, *a)` runs `g(*a)` -/
def execP (f : Func) : ExecPrims (List XEv) Nat Val (List Val) Data Unit (List Val × Data) where
  enterPool := fun log => (log ++ [.enter], .next ())
  exitPool _ := M.modify fun log => log ++ [.exit]
  kwargsNonEmpty k := !k.isEmpty
  mkPartial a k := (a, k)
  runPartial _ p := fun log =>
    match f p.1 p.2 with
    | .ok v => (log ++ [.run p.1 p.2], .next v)
    | .error e => (log ++ [.run p.1 p.2], .raise e)
  runPlain _ a := fun log =>
    match f a [] with
    | .ok v => (log ++ [.run a []], .next v)
    | .error e => (log ++ [.run a []], .raise e)
  setFunc := M.pure ()
  setExecutor := M.pure ()

end Edzed.TrTie.OB
