/-
The programs of `Gen/TranslatedBlkCtor.lean` (generated from the current source of the constructors and of the
circuit registry by tools/py2lean_blkctor.py), run with the primitives instantiated on the heap of
`EdzedModel/BlkCtor.lean`, ARE the model's functions.
-/
import EdzedModel.BlkCtor
import EdzedModel.Gen.TranslatedBlkCtor

set_option linter.unusedSimpArgs false

namespace Edzed.BlkCtorTie
open Edzed.BlkCtorPy Edzed.BlkCtor
open Edzed.Gen

/-- the leaves on the model's heap -/
def prims : CPrims World Nat XV Nat Member where
  className := fun w o => w.className o
  isInstance := fun w o k => w.isInstance o k
  setAttr := fun o k v w => w.setAttr o k v
  nameOf := fun w o => w.nameOf o
  current := fun w => w.current
  setCurrent := fun c w => { w with current := c }
  allocCircuit := fun w => ((w.alloc { cls := "Circuit", bases := ["Circuit"] }).1,
    .ok (w.alloc { cls := "Circuit", bases := ["Circuit"] }).2)
  newResolver := XV.resolver
  boundRegister := XV.register
  abort := fun c cls w => abort w c cls
  simtask := fun w c => simtask w c
  currentTask := fun w => (w, match w.curTask with
    | none => .error "RuntimeError"
    | some t => .ok t)
  findblock := fun c n w => (w, match findblock w c n with
    | none => .error "KeyError"
    | some b => .ok b)
  selfTypeBlocks := selfTypeBlocks
  eventTuple := fun a w => (w, eventTuple w a)
  addSelf := fun o w => addSelf w o
  newInputGetter := XV.inputGetter
  getattrM := fun o n w => (w, match lookup w o n with
    | none => .error "AttributeError"
    | some .propAttrError => .error "AttributeError"
    | some .propRuntimeError => .error "RuntimeError"
    | some m => .ok m)
  eqBound := fun a _ f => (a == .dummySync && f == "Block.dummy_method")
    || (a == .dummyAsync && f == "Block.dummy_async_method")
  callable := fun a => a != .data
  instancesGet := fun v w => (w,
    if !hashable v then .error "TypeError"
    else match (w.consts.find? fun p => keyEq p.1 v).map (·.2) with
      | none => .error "KeyError"
      | some o => .ok o)
  instancesSet := fun v o w => { w with consts := w.consts ++ [(v, o)] }
  objectNew := fun cls w => ((w.alloc { cls := cls, bases := [cls, "Const"] }).1,
    .ok (w.alloc { cls := cls, bases := [cls, "Const"] }).2)

/-! ### one step of a program -/
section steps
variable {σ α β : Type}

@[simp] theorem bind_apply (m : M σ α) (k : α → M σ β) (s : σ) :
    M.bind m k s = match m s with
      | (s1, .ok a) => k a s1
      | (s1, .error e) => (s1, .error e) := rfl
@[simp] theorem pure_apply (a : α) (s : σ) : (M.pure a : M σ α) s = (s, .ok a) := rfl
@[simp] theorem gets_apply (f : σ → α) (s : σ) : M.gets f s = (s, .ok (f s)) := rfl
@[simp] theorem modify_apply (f : σ → σ) (s : σ) : M.modify f s = (f s, .ok ()) := rfl
@[simp] theorem raise_apply (e : PyExc) (s : σ) : (M.raise e : M σ α) s = (s, .error e) := rfl
@[simp] theorem tryCatch_apply (m : M σ α) (h : PyExc → M σ α) (s : σ) :
    M.tryCatch m h s = match m s with
      | (s1, .error e) => h e s1
      | p => p := rfl
@[simp] theorem deref_some (a : α) (s : σ) : (M.deref (some a) : M σ α) s = (s, .ok a) := rfl
@[simp] theorem deref_none (s : σ) : (M.deref (none : Option α) : M σ α) s = (s, .error "AttributeError") := rfl
end steps

/-! ### the leaves, one by one -/
@[simp] theorem p_className (w : World) (o : Nat) : prims.className w o = w.className o := rfl
@[simp] theorem p_isInstance (w : World) (o : Nat) (k : String) : prims.isInstance w o k = w.isInstance o k := rfl
@[simp] theorem p_setAttr (o : Nat) (k : String) (v : Attr) (w : World) : prims.setAttr o k v w = w.setAttr o k v := rfl
@[simp] theorem p_nameOf (w : World) (o : Nat) : prims.nameOf w o = w.nameOf o := rfl
@[simp] theorem p_current (w : World) : prims.current w = w.current := rfl
@[simp] theorem p_setCurrent (c : Option Nat) (w : World) : prims.setCurrent c w = { w with current := c } := rfl
@[simp] theorem p_allocCircuit (w : World) : prims.allocCircuit w =
    ((w.alloc { cls := "Circuit", bases := ["Circuit"] }).1, .ok (w.alloc { cls := "Circuit", bases := ["Circuit"] }).2) := rfl
@[simp] theorem p_newResolver (o : Nat) : prims.newResolver o = XV.resolver o := rfl
@[simp] theorem p_boundRegister (o : Nat) : prims.boundRegister o = XV.register o := rfl
@[simp] theorem p_abort (c : Nat) (k : String) (w : World) : prims.abort c k w = abort w c k := rfl
@[simp] theorem p_simtask (w : World) (c : Nat) : prims.simtask w c = simtask w c := rfl
@[simp] theorem p_currentTask (w : World) : prims.currentTask w = (w, match w.curTask with
    | none => .error "RuntimeError"
    | some t => .ok t) := rfl
@[simp] theorem p_findblock (c : Nat) (n : String) (w : World) : prims.findblock c n w = (w, match findblock w c n with
    | none => .error "KeyError"
    | some b => .ok b) := rfl
@[simp] theorem p_selfTypeBlocks (w : World) (o : Nat) : prims.selfTypeBlocks w o = selfTypeBlocks w o := rfl
@[simp] theorem p_eventTuple (a : Arg Nat) (w : World) : prims.eventTuple a w = (w, eventTuple w a) := rfl
@[simp] theorem p_addSelf (o : Nat) (w : World) : prims.addSelf o w = addSelf w o := rfl
@[simp] theorem p_newInputGetter (o : Nat) : prims.newInputGetter o = XV.inputGetter o := rfl
@[simp] theorem p_getattrM (o : Nat) (n : String) (w : World) : prims.getattrM o n w = (w, match lookup w o n with
    | none => .error "AttributeError"
    | some .propAttrError => .error "AttributeError"
    | some .propRuntimeError => .error "RuntimeError"
    | some m => .ok m) := rfl
@[simp] theorem p_eqBound (a : Member) (o : Nat) (f : String) : prims.eqBound a o f =
    ((a == .dummySync && f == "Block.dummy_method") || (a == .dummyAsync && f == "Block.dummy_async_method")) := rfl
@[simp] theorem p_callable (a : Member) : prims.callable a = (a != .data) := rfl
@[simp] theorem p_instancesGet (v : Arg Nat) (w : World) : prims.instancesGet v w = (w,
    if !hashable v then .error "TypeError"
    else match (w.consts.find? fun p => keyEq p.1 v).map (·.2) with
      | none => .error "KeyError"
      | some o => .ok o) := rfl
@[simp] theorem p_instancesSet (v : Arg Nat) (o : Nat) (w : World) :
    prims.instancesSet v o w = { w with consts := w.consts ++ [(v, o)] } := rfl
@[simp] theorem p_objectNew (cls : String) (w : World) : prims.objectNew cls w =
    ((w.alloc { cls := cls, bases := [cls, "Const"] }).1, .ok (w.alloc { cls := cls, bases := [cls, "Const"] }).2) := rfl

theorem checkName_tie (a : Arg Nat) (nt : String) (w : World) :
    TrBC.checkName prims a nt w = (w, (checkName a).map fun _ => ()) := by
  unfold TrBC.checkName checkName
  cases a.str? with
  | none => rfl
  | some s =>
    by_cases h : s = ""
    · subst h; rfl
    · simp [h, Except.map]

/-! ### the circuit registry -/

theorem setAt_last (h : List Obj) (o : Obj) (k : String) (v : Attr) :
    setAt (h ++ [o]) h.length k v = h ++ [o.set k v] := by
  induction h with
  | nil => rfl
  | cons a r ih => simp [setAt, ih]

theorem circuitCall_tie (w : World) :
    TrBC.circuitCall prims w = ((newCircuit w).1, .ok (newCircuit w).2) := by
  simp only [TrBC.circuitCall, TrBC.circuitInit, bind_apply, modify_apply, pure_apply, p_allocCircuit, p_setAttr,
    p_newResolver, p_boundRegister, World.alloc, World.setAttr, setAt_last, newCircuit, freshCircuitAttrs]
  rfl

theorem getCircuit_tie (w : World) :
    TrBC.getCircuit prims w = ((getCircuit w).1, .ok (some (getCircuit w).2)) := by
  unfold TrBC.getCircuit TrBC.getCircuit_j1 getCircuit
  cases hc : w.current with
  | some c => simp [hc]
  | none => simp [hc, circuitCall_tie]

theorem resetCircuit_tie (w : World) :
    TrBC.resetCircuit prims w = (resetCircuit w, .ok ()) := by
  unfold TrBC.resetCircuit resetCircuit
  cases hc : w.current with
  | none => simp [hc]
  | some c =>
    have hcur : ∀ k, (abort w c k).1.current = some c := by
      intro k; unfold abort; split <;> simp [World.setAttr, hc]
    have hex : TrBC.catches "Exception" "RuntimeError" = true := by decide
    cases hr : w.abortRaises <;>
      simp [hc, abort, hr, hex, circuitCall_tie]

theorem isCurrentTask_tie (c : Nat) (w : World) :
    TrBC.isCurrentTask prims c w = (w, .ok (isCurrentTask w c)) := by
  unfold TrBC.isCurrentTask isCurrentTask
  have hex : TrBC.catches "Exception" "RuntimeError" = true := by decide
  cases ht : simtask w c with
  | none => simp [ht]
  | some t =>
    cases hq : w.curTask with
    | none => simp [ht, hq, hex]
    | some cur =>
      by_cases h : some t = cur
      · subst h; simp [ht, hq]
      · have h2 : ¬ cur = some t := fun e => h e.symm
        simp [ht, hq, h, h2]

theorem hasMethod_tie (o : Nat) (n : String) (w : World) :
    TrBC.hasMethod prims o n w = (w, hasMethod w o n) := by
  unfold TrBC.hasMethod hasMethod
  have hex : TrBC.catches "AttributeError" "AttributeError" = true := by decide
  have hex2 : TrBC.catches "AttributeError" "RuntimeError" = false := by decide
  cases hl : lookup w o n with
  | none => simp [hl, hex]
  | some m => cases m <;> simp [hl, hex, hex2]

/-! ### blocks -/

theorem forM_cons {σ β : Type} (x : β) (r : List β) (f : β → M σ Unit) (s : σ) :
    M.forM (x :: r) f s = M.bind (f x) (fun _ => M.forM r f) s := rfl

/-- the body of the loop over `**x_kwargs` -/
def xBody (self : Nat) : String × Arg Nat → M World Unit :=
  fun x =>
    if (!strStartsWith x.fst "x_" && !strStartsWith x.fst "X_") = true then (M.raise "TypeError" : M World Unit)
    else (M.modify (prims.setAttr self x.fst (AV.arg x.snd))).bind fun _ => M.pure ()

theorem storeX_tie' (self : Nat) (kw : Kw (Arg Nat)) (w : World) :
    M.forM kw (xBody self) w = storeX w self kw := by
  induction kw generalizing w with
  | nil => rfl
  | cons p r ih =>
    obtain ⟨k, v⟩ := p
    rw [forM_cons, bind_apply]
    unfold storeX
    by_cases h1 : strStartsWith k "x_" = true
    · simp only [xBody, h1, Bool.not_true, Bool.false_and, Bool.false_eq_true, ↓reduceIte, bind_apply, modify_apply,
        pure_apply, p_setAttr, Bool.true_or]
      exact ih _
    · by_cases h2 : strStartsWith k "X_" = true
      · simp only [xBody, h2, Bool.not_true, Bool.and_false, Bool.false_eq_true, ↓reduceIte, bind_apply,
          modify_apply, pure_apply, p_setAttr, Bool.or_true]
        exact ih _
      · simp [xBody, h1, h2]

theorem storeX_tie (self : Nat) (kw : Kw (Arg Nat)) (w : World) :
    M.forM kw (fun x =>
      if (!strStartsWith x.fst "x_" && !strStartsWith x.fst "X_") = true then (M.raise "TypeError" : M World Unit)
      else (M.modify (prims.setAttr self x.fst (AV.arg x.snd))).bind fun _ => M.pure ()) w = storeX w self kw :=
  storeX_tie' self kw w

theorem blockTail_tie (self : Nat) (name comment onOutput debug : Arg Nat) (xkw : Kw (Arg Nat)) (w : World) :
    TrBC.blockInit_j1 prims self name xkw comment debug onOutput w
      = blockTail w self name comment onOutput debug xkw := by
  unfold TrBC.blockInit_j1 blockTail
  simp only [bind_apply, modify_apply, gets_apply, p_setAttr, p_isInstance, raise_apply, pure_apply, p_eventTuple,
    p_addSelf]
  generalize w.setAttr self "name" (AV.arg name) = w1
  cases w1.isInstance self "SBlock" <;> cases w1.isInstance self "CBlock" <;>
    simp only [Bool.not_true, Bool.not_false, Bool.and_true, Bool.and_false, Bool.false_eq_true, ↓reduceIte,
      Bool.and_self, raise_apply, bind_apply, storeX_tie]
  all_goals
    cases hs : storeX w1 self xkw with
    | mk w2 r =>
      cases r with
      | error e => rfl
      | ok u =>
        simp only [modify_apply, p_setAttr, p_eventTuple, bind_apply, p_addSelf, pure_apply]
        cases eventTuple ((w2.setAttr self "comment" (AV.arg comment)).setAttr self "debug" (AV.bool debug.truthy))
          onOutput with
        | error e => rfl
        | ok ev =>
          simp only []
          cases addSelf (((((w2.setAttr self "comment" (AV.arg comment)).setAttr self "debug"
            (AV.bool debug.truthy)).setAttr self "_output_events" (AV.ext ev)).setAttr self "oconnections"
            (AV.set [])).setAttr self "_output" (AV.arg Arg.undef)) self with
          | mk w3 r3 => cases r3 <;> rfl

theorem blockInit_tie (self : Nat) (name comment onOutput reserved debug : Arg Nat) (xkw : Kw (Arg Nat)) (w : World) :
    TrBC.blockInit prims self name comment onOutput reserved debug xkw w
      = blockInit w self name comment onOutput reserved debug xkw := by
  unfold TrBC.blockInit blockInit
  simp only [bind_apply, getCircuit_tie, modify_apply, p_setAttr]
  generalize ((getCircuit w).1.setAttr self "circuit" (AV.optobj (some (getCircuit w).2))) = w1
  by_cases hn : name.isNone = true
  · simp only [hn, blockName, ↓reduceIte, bind_apply, gets_apply, p_className, p_selfTypeBlocks, p_nameOf,
      blockTail_tie, autoName, List.countP_map]
    rfl
  · simp only [hn, blockName, Bool.false_eq_true, ↓reduceIte, bind_apply, checkName_tie]
    unfold checkName
    cases hs : name.str? with
    | none => rfl
    | some s =>
      by_cases he : s = ""
      · subst he; rfl
      · have hst : Arg.startsWith name "_" w1 = (w1, .ok (strStartsWith s "_")) := by
          unfold Arg.startsWith; rw [hs]; rfl
        simp only [he, beq_iff_eq, ↓reduceIte, Except.map, M.andM, bind_apply, hst, pure_apply]
        cases strStartsWith s "_" <;> cases reserved.truthy <;> simp [blockTail_tie]

theorem blockInitCall_tie (self : Nat) (args : List (Arg Nat)) (kw : Kw (Arg Nat)) (w : World) :
    TrBC.blockInitCall prims self args kw w = blockInitCall w self args kw := by
  unfold TrBC.blockInitCall blockInitCall
  cases bindArgs ["name"] ["comment", "on_output", "_reserved", "debug"] false true args kw with
  | none => rfl
  | some r =>
    obtain ⟨l, extra, rest⟩ := r
    rcases l with _ | ⟨a0, l⟩
    · rfl
    · cases a0 <;> rcases l with _ | ⟨a1, _ | ⟨a2, _ | ⟨a3, _ | ⟨a4, _ | ⟨a5, l⟩⟩⟩⟩⟩ <;>
        first | rfl | (simp only [blockInit_tie])

theorem sblockInit_tie (self : Nat) (args : List (Arg Nat)) (onEvery : Arg Nat) (kw : Kw (Arg Nat)) (w : World) :
    TrBC.sblockInit prims self args onEvery kw w = sblockInit w self args onEvery kw := by
  unfold TrBC.sblockInit TrBC.sblockInit_j1 sblockInit
  simp only [bind_apply, hasMethod_tie, pure_apply, modify_apply, p_setAttr, p_eventTuple, blockInitCall_tie]
  cases hasMethod w self "init_from_value" with
  | error e => rfl
  | ok has =>
    cases has <;>
      simp only [Bool.false_eq_true, ↓reduceIte, bind_apply, modify_apply, p_setAttr, p_eventTuple, pure_apply,
        blockInitCall_tie]
    all_goals
      generalize hw : World.setAttr _ self "_event_active" _ = w1
      cases eventTuple w1 onEvery with
      | error e => rfl
      | ok ev =>
        simp only []
        generalize blockInitCall _ self args _ = r
        obtain ⟨w3, r3⟩ := r
        cases r3 <;> rfl

theorem sblockInitCall_tie (self : Nat) (args : List (Arg Nat)) (kw : Kw (Arg Nat)) (w : World) :
    TrBC.sblockInitCall prims self args kw w = sblockInitCall w self args kw := by
  unfold TrBC.sblockInitCall sblockInitCall
  cases bindArgs [] ["on_every_output"] true true args kw with
  | none => rfl
  | some r =>
    obtain ⟨l, extra, rest⟩ := r
    rcases l with _ | ⟨a0, _ | ⟨a1, l⟩⟩ <;> try rfl
    simp only [sblockInit_tie]

theorem cblockInit_tie (self : Nat) (args : List (Arg Nat)) (kw : Kw (Arg Nat)) (w : World) :
    TrBC.cblockInit prims self args kw w = cblockInit w self args kw := by
  unfold TrBC.cblockInit cblockInit
  simp only [bind_apply, modify_apply, p_setAttr, p_newInputGetter, blockInitCall_tie, pure_apply]
  generalize blockInitCall _ self args kw = r
  obtain ⟨w3, r3⟩ := r
  cases r3 <;> rfl

theorem cblockInitCall_tie (self : Nat) (args : List (Arg Nat)) (kw : Kw (Arg Nat)) (w : World) :
    TrBC.cblockInitCall prims self args kw w = cblockInitCall w self args kw := by
  unfold TrBC.cblockInitCall cblockInitCall
  cases bindArgs [] [] true true args kw with
  | none => rfl
  | some r =>
    obtain ⟨l, extra, rest⟩ := r
    rcases l with _ | ⟨a0, l⟩ <;> try rfl
    simp only [cblockInit_tie]

/-! ### external events -/

theorem extTail_tie (self : Nat) (d etype source : Arg Nat) (w : World) :
    TrBC.extInit_j1 prims self d etype source w =
      if !isSBlock w d then (w, .error "TypeError")
      else
        match etype.str? with
        | none => (w, .error "TypeError")
        | some e =>
          if e == "" then (w, .error "TypeError")
          else
            match source.str? with
            | none => (w, .error "TypeError")
            | some s =>
              (((w.setAttr self "_dest" (.arg d)).setAttr self "_etype" (.arg etype)).setAttr self "_source"
                (.str (extSource s)), .ok ()) := by
  unfold TrBC.extInit_j1
  have hsb : argIsInstance prims w d "SBlock" = isSBlock w d := by cases d <;> rfl
  simp only [M.notM, bind_apply, gets_apply, pure_apply, hsb]
  cases isSBlock w d
  · rfl
  · simp only [Bool.not_true, Bool.false_eq_true, ↓reduceIte]
    rcases etype with v | o
    · rcases v with _ | a | l | l
      · rfl
      · cases a with
        | none => rfl
        | num q k => rfl
        | str e =>
          by_cases he : e = ""
          · subst he; rfl
          · have ht : Arg.truthy (Arg.val (Val.atom (Atom.str e)) : Arg Nat) = true := by
              simp [Arg.truthy, Val.truthy, Atom.truthy, he]
            have hs1 : Arg.isStr (Arg.val (Val.atom (Atom.str e)) : Arg Nat) = true := rfl
            have hs2 : Arg.str? (Arg.val (Val.atom (Atom.str e)) : Arg Nat) = some e := rfl
            simp only [hs1, hs2, ht, Bool.not_true, Bool.or_self, Bool.false_eq_true, ↓reduceIte, beq_iff_eq, he]
            cases source.str? with
            | none => rfl
            | some s => rfl
      · rfl
      · rfl
    · rfl

theorem extInit_tie (self : Nat) (dest etype source : Arg Nat) (w : World) :
    TrBC.extInit prims self dest etype source w = extInit w self dest etype source := by
  unfold TrBC.extInit extInit extDest
  cases hd : dest.str? with
  | some n =>
    simp only [bind_apply, getCircuit_tie, deref_some, p_findblock, extTail_tie]
    cases findblock (getCircuit w).1 (getCircuit w).2 n with
    | none => rfl
    | some b => rfl
  | none =>
    simp only [bind_apply, gets_apply, pure_apply, extTail_tie]
    cases dest with
    | val v => rfl
    | obj o =>
      simp only [argIsInstance, p_isInstance]
      by_cases hb : w.isInstance o "Block" = true
      · simp only [hb, ↓reduceIte, extTail_tie]; rfl
      · simp only [hb, Bool.false_eq_true, ↓reduceIte, raise_apply]

theorem extInitCall_tie (self : Nat) (args : List (Arg Nat)) (kw : Kw (Arg Nat)) (w : World) :
    TrBC.extInitCall prims self args kw w = extInitCall w self args kw := by
  unfold TrBC.extInitCall extInitCall
  cases bindArgs ["dest", "etype", "source"] [] false false args kw with
  | none => rfl
  | some r =>
    obtain ⟨l, extra, rest⟩ := r
    rcases l with _ | ⟨a0, l⟩
    · rfl
    · cases a0 <;> rcases l with _ | ⟨a1, _ | ⟨a2, _ | ⟨a3, l⟩⟩⟩ <;>
        first | rfl | (simp only [extInit_tie])

/-! ### Const -/

theorem constInit_tie (o : Nat) (v : Arg Nat) (w : World) :
    TrBC.constInit prims o v w =
      if v.isUndef then (w, .error "ValueError") else (w.setAttr o "_output" (.arg v), .ok ()) := by
  unfold TrBC.constInit
  cases v.isUndef <;> rfl

theorem constCall_tie (cls : String) (v : Arg Nat) (w : World) :
    TrBC.constCall prims cls v w = constCall w cls v := by
  unfold TrBC.constCall TrBC.constNew TrBC.constNew_j1 constCall
  have hk : TrBC.catches "KeyError" "KeyError" = true := by decide
  have ht : TrBC.catches "KeyError" "TypeError" = false := by decide
  have ht2 : TrBC.catches "TypeError" "TypeError" = true := by decide
  simp only [bind_apply, tryCatch_apply, p_instancesGet, pure_apply, constInit_tie]
  cases hh : hashable v
  · simp [ht, ht2, World.alloc]
    cases v.isUndef <;> rfl
  · cases hf : (w.consts.find? fun p => keyEq p.1 v).map (·.2) with
    | some o =>
      simp [hf]
      cases v.isUndef <;> rfl
    | none =>
      simp [hf, hk, World.alloc]
      cases v.isUndef <;> rfl

end Edzed.BlkCtorTie
