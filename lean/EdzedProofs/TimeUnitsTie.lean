/-
Tie by translation for C19: the definitions generated from the current source of
edzed/utils/timeunits.py (`Gen/TranslatedTimeUnits.lean`, tools/py2lean_timeunits.py) ARE the
hand-written model's definitions (`EdzedModel/TimeUnits.lean`).  Helper lemmas; the theorems proper
are `TrTie.translated_timeunits_…` in EdzedProps/C19.lean.
-/
import EdzedProofs.TimeUnits
import EdzedModel.Gen.TranslatedTimeUnits

namespace Edzed.TimeUnits
open Edzed.TimeUnits.Py

/-! ### time_period -/

theorem pyMax_zero (q : Rat) : pyMax 0 q = if q < 0 then 0 else q := by
  unfold pyMax
  by_cases h1 : (0 : Rat) < q
  · have : ¬ q < 0 := by grind
    simp [h1, this]
  · by_cases h2 : q < 0
    · simp [h1, h2]
    · have : q = 0 := by grind
      simp [this]

theorem tr_timePeriod (v : Val) : Gen.TrTu.timePeriod v = timePeriod v := by
  unfold Gen.TrTu.timePeriod
  cases v with
  | undef => rfl
  | tup l => rfl
  | lst l => rfl
  | atom a =>
    cases a with
    | none => rfl
    | str s =>
      have e : timePeriod (.atom (.str s)) = periodOfConvert (convert s.toList) := rfl
      rw [e]
      simp only [classOf]
      unfold callConvert periodOfConvert
      generalize convert s.toList = r
      cases r <;> rfl
    | num q k =>
      have e : timePeriod (.atom (.num q k)) = .ok (some (if q < 0 then 0 else q)) := rfl
      rw [e]
      cases k <;> simp [classOf, pyMax_zero]

/-! ### _convert -/

theorem tr_convertStep (sm : Bool) (res : Rat) (g : Option Num) (sc : Option Nat) :
    Gen.TrTu.convertStep (res, sm) (g, sc) =
      match addGroup ⟨res, sm⟩ g sc with
      | .ok a => .ok (a.result, a.smallest)
      | .error e => .error e := by
  unfold Gen.TrTu.convertStep addGroup
  cases g with
  | none => rfl
  | some n =>
    obtain ⟨v, fr, cm⟩ := n
    cases fr <;> cases cm <;> cases sm <;> cases sc <;>
      by_cases hz : v = 0 <;>
      simp [hasComma, hasDot, commaToPoint, pyFloat, hz]

theorem tr_foldl (l : List (Option Num × Option Nat)) (sm : Bool) (res : Rat) :
    List.foldlM Gen.TrTu.convertStep (res, sm) l =
      match evalLoop ⟨res, sm⟩ l with
      | .ok a => .ok (a.result, a.smallest)
      | .error e => .error e := by
  induction l generalizing sm res with
  | nil => rfl
  | cons x l ih =>
    obtain ⟨g, sc⟩ := x
    rw [List.foldlM_cons, tr_convertStep, evalLoop]
    cases h : addGroup ⟨res, sm⟩ g sc with
    | error e => rfl
    | ok a => exact ih a.smallest a.result

theorem matchTrad_no_calendar (cs : List Char) (g : Groups) (h : matchTrad cs = some g) :
    g.y = none ∧ g.mo = none := by
  unfold matchTrad at h
  generalize optGroup true isD (skipWs cs) = p1 at h
  obtain ⟨d, r1⟩ := p1
  simp only at h
  generalize optGroup true isH (skipWs r1) = p2 at h
  obtain ⟨hh, r2⟩ := p2
  simp only at h
  generalize optGroup true isM (skipWs r2) = p3 at h
  obtain ⟨m, r3⟩ := p3
  simp only at h
  generalize optGroupLast isS (skipWs r3) = p4 at h
  obtain ⟨sec, r4⟩ := p4
  simp only at h
  split at h
  · cases h; exact ⟨rfl, rfl⟩
  · cases h

theorem evalLoop_trailing_none (l : List (Option Num × Option Nat)) (acc : Acc) (a b : Option Nat) :
    evalLoop acc (l ++ [(none, a), (none, b)]) = evalLoop acc l := by
  induction l generalizing acc with
  | nil => simp [evalLoop, addGroup]
  | cons x l ih =>
    obtain ⟨g, sc⟩ := x
    simp only [List.cons_append, evalLoop]
    cases addGroup acc g sc with
    | error e => rfl
    | ok acc' => exact ih acc'

/-- the generated `_convert` IS the model's `convert` -/
theorem tr_convert (cs : List Char) : Gen.TrTu.convert cs = convert cs := by
  unfold Gen.TrTu.convert convert
  simp only [firstMatch, fullmatchGroups]
  cases hT : matchTrad cs with
  | some g =>
    obtain ⟨hy, hmo⟩ := matchTrad_no_calendar cs g hT
    simp only [Option.map_some, List.reverse_cons, List.reverse_nil, List.nil_append, List.cons_append,
      List.zip_cons_cons, List.zip_nil_left, tr_foldl]
    unfold evalGroups
    have e : g.scaled = [(g.s, some 1), (g.m, some Gen.secPerMin), (g.h, some Gen.secPerHour),
        (g.d, some Gen.secPerDay)] ++ [(none, none), (none, none)] := by
      simp [Groups.scaled, hy, hmo]
    rw [e, evalLoop_trailing_none]
    cases evalLoop ⟨0, true⟩ [(g.s, some 1), (g.m, some Gen.secPerMin), (g.h, some Gen.secPerHour),
        (g.d, some Gen.secPerDay)] with
    | error e => rfl
    | ok a => cases a.smallest <;> rfl
  | none =>
    simp only [Option.map_none]
    cases hI : matchIso cs with
    | none => rfl
    | some g =>
      simp only [Option.map_some, List.reverse_cons, List.reverse_nil, List.nil_append, List.cons_append,
        List.zip_cons_cons, List.zip_nil_left, tr_foldl]
      unfold evalGroups Groups.scaled
      cases evalLoop ⟨0, true⟩ [(g.s, some 1), (g.m, some Gen.secPerMin), (g.h, some Gen.secPerHour),
          (g.d, some Gen.secPerDay), (g.mo, none), (g.y, none)] with
      | error e => rfl
      | ok a => cases a.smallest <;> rfl

/-- the public wrapper `convert` passes the value and the reason of `_convert` on -/
theorem tr_convertPublic (cs : List Char) : Gen.TrTu.convertPublic cs = convert cs := by
  unfold Gen.TrTu.convertPublic
  rw [tr_convert]
  generalize convert cs = r
  cases r <;> rfl

/-! ### numbers: divmod on a decimal grid -/

theorem floor_nat_div (a b : Nat) (hb : 0 < b) : ((a : Rat) / (b : Rat)).floor = ((a / b : Nat) : Int) := by
  have hB : (0 : Rat) < (b : Rat) := Rat.natCast_pos.mpr hb
  have hB0 : (b : Rat) ≠ 0 := by grind
  have hy : (a : Rat) / (b : Rat) * (b : Rat) = (a : Rat) := Rat.div_mul_cancel hB0
  have n1 : a / b * b ≤ a := Nat.div_mul_le_self a b
  have n2 : a < (a / b + 1) * b := by
    have := Nat.lt_div_mul_add (a := a) hb
    rw [Nat.add_mul, Nat.one_mul]; exact this
  generalize a / b = m at n1 n2 ⊢
  have q1 : ((m : Nat) : Rat) * (b : Rat) ≤ (a : Rat) := by exact_mod_cast n1
  have q2 : (a : Rat) < (((m : Nat) : Rat) + 1) * (b : Rat) := by exact_mod_cast n2
  have h1 : ((m : Nat) : Int) ≤ ((a : Rat) / (b : Rat)).floor := by
    apply Rat.le_floor_iff.mpr
    apply Rat.le_of_mul_le_mul_right _ hB
    rw [hy, Rat.intCast_natCast]; exact q1
  have h2 : ((a : Rat) / (b : Rat)).floor < ((m : Nat) : Int) + 1 := by
    apply Rat.floor_lt_iff.mpr
    apply Rat.lt_of_mul_lt_mul_right _ (Rat.le_of_lt hB)
    rw [hy]
    have : (((((m : Nat) : Int) + 1 : Int)) : Rat) = ((m : Nat) : Rat) + 1 := by
      push_cast; rfl
    rw [this]; exact q2
  omega

theorem pyDivmod_grid (N P k : Nat) (hP : 0 < P) (hk : 0 < k) :
    pyDivmod ((N : Rat) / (P : Rat)) k = (((N / P / k : Nat) : Rat), ((N % (P * k) : Nat) : Rat) / (P : Rat)) := by
  have hPq : (P : Rat) ≠ 0 := by
    have : (0 : Rat) < (P : Rat) := Rat.natCast_pos.mpr hP
    grind
  have hkq : (k : Rat) ≠ 0 := by
    have : (0 : Rat) < (k : Rat) := Rat.natCast_pos.mpr hk
    grind
  have e : (N : Rat) / (P : Rat) / (k : Rat) = (N : Rat) / ((P * k : Nat) : Rat) := by
    push_cast; grind
  unfold pyDivmod
  simp only [e, floor_nat_div N (P * k) (Nat.mul_pos hP hk)]
  have hdiv : N / (P * k) = N / P / k := (Nat.div_div_eq_div_mul N P k).symm
  have hN : N = P * k * (N / (P * k)) + N % (P * k) := (Nat.div_add_mod N (P * k)).symm
  have hNq : (N : Rat) = (P : Rat) * (k : Rat) * ((N / (P * k) : Nat) : Rat) + ((N % (P * k) : Nat) : Rat) := by
    conv => lhs; rw [hN]
    push_cast; rfl
  rw [← hdiv, Rat.intCast_natCast]
  refine Prod.ext rfl ?_
  · simp only
    generalize ((N / (P * k) : Nat) : Rat) = q at hNq ⊢
    generalize ((N % (P * k) : Nat) : Rat) = r at hNq ⊢
    rw [hNq]
    grind

theorem pyTrunc_nat (n : Nat) : pyTrunc (n : Rat) = (n : Int) := by
  unfold pyTrunc
  have : ¬ (n : Rat) < 0 := by
    have : (0 : Rat) ≤ (n : Rat) := by exact_mod_cast Nat.zero_le n
    grind
  rw [if_neg this]
  have := Rat.floor_intCast (n : Int)
  rwa [Rat.intCast_natCast] at this

theorem pyIntStr_nat (n : Nat) : pyIntStr (n : Int) = natStr n := by
  unfold pyIntStr
  have : ¬ (n : Int) < 0 := by omega
  simp [this]

theorem natCast_ne_zero_iff (n : Nat) : ((n : Rat) ≠ 0) ↔ n ≠ 0 := by
  constructor
  · intro h hn; exact h (by rw [hn]; rfl)
  · intro h hq
    have : (n : Rat) = ((0 : Nat) : Rat) := hq
    exact h (by exact_mod_cast this)

/-! ### timestr -/

theorem pyFormatFixed_grid (R p : Nat) :
    pyFormatFixed ((R : Rat) / ((10 ^ p : Nat) : Rat)) p = fixedStr (R / 10 ^ p) (R % 10 ^ p) p := by
  unfold pyFormatFixed
  rw [roundTicks_on_grid]

/-- the printing part of `timestr` on a value `N / 10^p` -/
theorem timestr_core (N p : Nat) (sep : List Char) :
    joinParts sep
        ((if
                (decide (N / 10 ^ p / Gen.secPerDay ≠ 0) ||
                    decide (N % (10 ^ p * Gen.secPerDay) / 10 ^ p / Gen.secPerHour ≠ 0)) =
                  true then
              (if decide (N / 10 ^ p / Gen.secPerDay ≠ 0) = true then
                  [] ++ [natStr (N / 10 ^ p / Gen.secPerDay) ++ ['d']]
                else []) ++
                [natStr (N % (10 ^ p * Gen.secPerDay) / 10 ^ p / Gen.secPerHour) ++ ['h']]
            else
              if decide (N / 10 ^ p / Gen.secPerDay ≠ 0) = true then
                [] ++ [natStr (N / 10 ^ p / Gen.secPerDay) ++ ['d']]
              else []) ++
            [natStr (N % (10 ^ p * Gen.secPerDay) % (10 ^ p * Gen.secPerHour) / 10 ^ p / Gen.secPerMin) ++
                ['m']] ++
          [fixedStr
                ((N % (10 ^ p * Gen.secPerDay) % (10 ^ p * Gen.secPerHour) % (10 ^ p * Gen.secPerMin)) / 10 ^ p)
                ((N % (10 ^ p * Gen.secPerDay) % (10 ^ p * Gen.secPerHour) % (10 ^ p * Gen.secPerMin)) % 10 ^ p)
                p ++
              ['s']]) =
    timestrTicks N p sep := by
  unfold timestrTicks
  simp only [Nat.mod_mul_right_div_self, Nat.mod_mul_right_mod]
  by_cases hd : N / 10 ^ p / Gen.secPerDay = 0 <;>
    by_cases hh : N / 10 ^ p % Gen.secPerDay / Gen.secPerHour = 0 <;> simp [hd, hh]

theorem pyStrNum_grid0 (R : Nat) :
    pyStrNum ((R : Rat) / ((10 ^ 0 : Nat) : Rat)) false = fixedStr (R / 10 ^ 0) (R % 10 ^ 0) 0 := by
  have e : (R : Rat) / ((10 ^ 0 : Nat) : Rat) = (R : Rat) := by
    have : ((10 ^ 0 : Nat) : Rat) = 1 := by decide
    rw [this]; grind
  have hf : ((R : Nat) : Rat).floor = (R : Int) := by
    have := Rat.floor_intCast (R : Int)
    rwa [Rat.intCast_natCast] at this
  rw [e]
  simp [pyStrNum, hf, pyIntStr_nat, fixedStr]

/-- the generated `timestr` IS the model's `timestr` -/
theorem tr_timestr (x : Secs) (sep : List Char) (prec : Nat) :
    Gen.TrTu.timestr x sep prec = timestr x sep prec := by
  cases x with
  | float q =>
    simp only [Gen.TrTu.timestr, Gen.TrTu.timestr_s1, Gen.TrTu.timestr_s2, Gen.TrTu.timestr_s3,
      Gen.TrTu.timestr_s4, Gen.TrTu.timestr_s5, Gen.TrTu.timestr_s6, Gen.TrTu.timestr_s7,
      Gen.TrTu.timestr_s8, Gen.TrTu.timestr_s9, Gen.TrTu.timestr_s10, timestr]
    by_cases hq : q < 0
    · simp [secsVal, hq]
    · simp only [secsVal, secsIsFloat, hq, decide_false, Bool.false_eq_true, ↓reduceIte, pyRound2]
      unfold roundTo
      generalize roundTicks q prec = N
      have hP : 0 < 10 ^ prec := pow10_pos prec
      rw [pyDivmod_grid N (10 ^ prec) Gen.secPerDay hP (by decide)]
      simp only
      rw [pyDivmod_grid _ (10 ^ prec) Gen.secPerHour hP (by decide)]
      simp only
      rw [pyDivmod_grid _ (10 ^ prec) Gen.secPerMin hP (by decide)]
      simp only [pyTrunc_nat, pyIntStr_nat, natCast_ne_zero_iff, pyFormatFixed_grid, timestr_core]
  | int n =>
    simp only [Gen.TrTu.timestr, Gen.TrTu.timestr_s1, Gen.TrTu.timestr_s2, Gen.TrTu.timestr_s3,
      Gen.TrTu.timestr_s4, Gen.TrTu.timestr_s5, Gen.TrTu.timestr_s6, Gen.TrTu.timestr_s7,
      Gen.TrTu.timestr_s8, Gen.TrTu.timestr_s9, Gen.TrTu.timestr_s10, timestr]
    by_cases hn : n < 0
    · have : ((n : Int) : Rat) < 0 := by exact_mod_cast hn
      simp [secsVal, hn, this]
    · have hnn : ¬ ((n : Int) : Rat) < 0 := by
        intro h
        have : n < 0 := by exact_mod_cast h
        exact hn this
      obtain ⟨N, rfl⟩ : ∃ N : Nat, n = (N : Int) := ⟨n.toNat, by omega⟩
      have e0 : (((N : Nat) : Int) : Rat) = (N : Rat) / ((10 ^ 0 : Nat) : Rat) := by
        have : ((10 ^ 0 : Nat) : Rat) = 1 := by decide
        rw [this, Rat.intCast_natCast]; grind
      simp only [secsVal, secsIsFloat, hn, hnn, decide_false, Bool.false_eq_true, ↓reduceIte,
        Int.toNat_natCast]
      rw [e0]
      have hP : 0 < 10 ^ 0 := pow10_pos 0
      rw [pyDivmod_grid N (10 ^ 0) Gen.secPerDay hP (by decide)]
      simp only
      rw [pyDivmod_grid _ (10 ^ 0) Gen.secPerHour hP (by decide)]
      simp only
      rw [pyDivmod_grid _ (10 ^ 0) Gen.secPerMin hP (by decide)]
      simp only [pyTrunc_nat, pyIntStr_nat, natCast_ne_zero_iff, pyStrNum_grid0, timestr_core]

/-! ### timestr_approx -/

/-- the printing part of the generated `timestr_approx` on a value `N / 10^p` (`fl`: it is a float,
    printed with `p` places; otherwise `p = 0`) -/
theorem approx_print_core (N p : Nat) (fl oM oS : Bool) (sep : List Char) (hp : fl = false → p = 0) :
    Gen.TrTu.timestrApprox_s14 ((N : Rat) / ((10 ^ p : Nat) : Rat)) fl sep oM oS p =
      some (approxParts (N / 10 ^ p / Gen.secPerDay) (N / 10 ^ p % Gen.secPerDay / Gen.secPerHour)
        (if oM then 0 else N / 10 ^ p % Gen.secPerDay % Gen.secPerHour / Gen.secPerMin)
        (if oM then N / 10 ^ p % Gen.secPerDay % Gen.secPerHour
          else N / 10 ^ p % Gen.secPerDay % Gen.secPerHour % Gen.secPerMin)
        (N % 10 ^ p) p oM oS sep) := by
  simp only [Gen.TrTu.timestrApprox_s14, Gen.TrTu.timestrApprox_s15, Gen.TrTu.timestrApprox_s16,
    Gen.TrTu.timestrApprox_s17, Gen.TrTu.timestrApprox_s18, Gen.TrTu.timestrApprox_s19,
    Gen.TrTu.timestrApprox_s20, Gen.TrTu.timestrApprox_s21, Gen.TrTu.timestrApprox_s22]
  have hP : 0 < 10 ^ p := pow10_pos p
  rw [pyDivmod_grid N (10 ^ p) Gen.secPerDay hP (by decide)]
  simp only
  rw [pyDivmod_grid _ (10 ^ p) Gen.secPerHour hP (by decide)]
  simp only
  have hsec : ∀ R : Nat,
      (if fl = true then pyFormatFixed ((R : Rat) / ((10 ^ p : Nat) : Rat)) p ++ ['s']
       else pyStrNum ((R : Rat) / ((10 ^ p : Nat) : Rat)) fl ++ ['s']) =
      fixedStr (R / 10 ^ p) (R % 10 ^ p) p ++ ['s'] := by
    intro R
    cases fl with
    | true => simp only [↓reduceIte, pyFormatFixed_grid]
    | false =>
      have := hp rfl
      subst this
      simp only [Bool.false_eq_true, ↓reduceIte, pyStrNum_grid0]
  unfold approxParts
  cases oM with
  | false =>
    simp only [Bool.not_false, ↓reduceIte, Bool.false_eq_true]
    rw [pyDivmod_grid _ (10 ^ p) Gen.secPerMin hP (by decide)]
    simp only [pyTrunc_nat, pyIntStr_nat, natCast_ne_zero_iff, hsec, Nat.mod_mul_right_div_self,
      Nat.mod_mul_right_mod]
    by_cases hd : N / 10 ^ p / Gen.secPerDay = 0 <;>
      by_cases hh : N / 10 ^ p % Gen.secPerDay / Gen.secPerHour = 0 <;>
      by_cases hm : N / 10 ^ p % Gen.secPerDay % Gen.secPerHour / Gen.secPerMin = 0 <;>
      cases oS <;> simp [hd, hh, hm]
  | true =>
    simp only [Bool.not_true, Bool.false_eq_true, ↓reduceIte]
    simp only [pyTrunc_nat, pyIntStr_nat, natCast_ne_zero_iff, hsec, Nat.mod_mul_right_div_self,
      Nat.mod_mul_right_mod]
    by_cases hd : N / 10 ^ p / Gen.secPerDay = 0 <;>
      by_cases hh : N / 10 ^ p % Gen.secPerDay / Gen.secPerHour = 0 <;>
      cases oS <;> simp [hd, hh]

theorem approx_print_sprec (v : Rat) (oM oS : Bool) (sep : List Char) (sp sp' : Nat) :
    Gen.TrTu.timestrApprox_s14 v false sep oM oS sp = Gen.TrTu.timestrApprox_s14 v false sep oM oS sp' := by
  simp only [Gen.TrTu.timestrApprox_s14, Gen.TrTu.timestrApprox_s15, Gen.TrTu.timestrApprox_s16,
    Gen.TrTu.timestrApprox_s17, Gen.TrTu.timestrApprox_s18, Gen.TrTu.timestrApprox_s19,
    Gen.TrTu.timestrApprox_s20, Gen.TrTu.timestrApprox_s21, Gen.TrTu.timestrApprox_s22,
    Bool.false_eq_true, ↓reduceIte]

/-- the printing part of the generated function IS the model's `approxRender`, for a value on its grid;
    `sp` is the generated code's `sprec`, which only matters while the value is a float -/
theorem approx_print (a : AVal) (sp : Nat) (oM oS : Bool) (sep : List Char)
    (hag : a.isFloat = true → sp = a.sprec) (hg : OnGrid a) :
    Gen.TrTu.timestrApprox_s14 a.v a.isFloat sep oM oS sp = some (approxRender ⟨a, oM, oS⟩ sep) := by
  obtain ⟨N, hN⟩ := hg
  have hr : roundTicks a.v (if a.isFloat then a.sprec else 0) = N := by
    rw [hN]; exact roundTicks_on_grid _ _
  unfold approxRender
  simp only [hr]
  cases hf : a.isFloat with
  | true =>
    rw [hag hf]
    rw [hf] at hN
    simp only [↓reduceIte] at hN ⊢
    rw [hN]
    exact approx_print_core N a.sprec true oM oS sep (fun h => nomatch h)
  | false =>
    rw [hf] at hN
    simp only [Bool.false_eq_true, ↓reduceIte] at hN ⊢
    rw [hN, approx_print_sprec _ oM oS sep sp 0]
    exact approx_print_core N 0 false oM oS sep (fun _ => rfl)

theorem pyTrunc_nonneg (y : Rat) (hy : 0 ≤ y) : ((pyTrunc y : Int) : Rat) = ((y.floor.toNat : Nat) : Rat) := by
  unfold pyTrunc
  have : ¬ y < 0 := Rat.not_lt.mpr hy
  rw [if_neg this]
  have hf : (0 : Int) ≤ y.floor := Rat.le_floor_iff.mpr (by simpa using hy)
  have := Int.toNat_of_nonneg hf
  exact_mod_cast congrArg (fun z : Int => (z : Rat)) this.symm

theorem trunc_roundUnit (v : Rat) (hv : 0 ≤ v) (u : Nat) (hu : 0 < u) :
    ((u : Nat) : Rat) * ((pyTrunc (v / ((u : Nat) : Rat) + (1 : Rat) / 2) : Int) : Rat) =
      ((roundUnit v u : Nat) : Rat) := by
  have hU : (0 : Rat) < (u : Rat) := Rat.natCast_pos.mpr hu
  have hy : 0 ≤ v / (u : Rat) + (1 : Rat) / 2 := by
    have := Rat.mul_nonneg hv (Rat.le_of_lt (Rat.inv_pos.mpr hU))
    rw [← Rat.div_def] at this
    grind
  rw [pyTrunc_nonneg _ hy]
  unfold roundUnit
  push_cast
  rfl

theorem tr_s8 (a : AVal) (ha : a.isFloat = true) (sep : List Char) (oM oS : Bool) :
    Gen.TrTu.timestrApprox_s8 a.v sep oM oS a.sprec = (a.sprec, (fstep4 a).v, (fstep4 a).isFloat) := by
  unfold Gen.TrTu.timestrApprox_s8 fstep4
  simp only [c36000]
  by_cases c : 60 ≤ a.v ∧ a.v < 36000
  · have hnn : 0 ≤ roundHalfEven a.v := roundHalfEven_nonneg a.v (by grind)
    have hc : ((pyRound1 a.v : Int) : Rat) = (((roundHalfEven a.v).toNat : Nat) : Rat) := by
      have := Int.toNat_of_nonneg hnn
      exact_mod_cast congrArg (fun z : Int => (z : Rat)) this.symm
    simp [c, hc]
  · have c' : ¬ (decide (60 ≤ a.v) && decide (a.v < 36000)) = true := by simpa using c
    rw [if_neg c]
    simp [c', ha]

theorem fstep2_isFloat (a : AVal) (ha : a.isFloat = true) : (fstep2 a).isFloat = true := by
  unfold fstep2; split <;> simp [ha]
theorem fstep3_isFloat (a : AVal) (ha : a.isFloat = true) : (fstep3 a).isFloat = true := by
  unfold fstep3; split <;> simp [ha]

theorem tr_s6 (a : AVal) (ha : a.isFloat = true) (sep : List Char) (oM oS : Bool) :
    Gen.TrTu.timestrApprox_s6 a.v sep oM oS a.sprec =
      ((fstep3 a).sprec, (fstep4 (fstep3 a)).v, (fstep4 (fstep3 a)).isFloat) := by
  have h8 := tr_s8 (fstep3 a) (fstep3_isFloat a ha) sep oM oS
  unfold Gen.TrTu.timestrApprox_s6 Gen.TrTu.timestrApprox_s7
  rw [← h8]
  unfold fstep3
  by_cases c : 10 ≤ a.v ∧ a.v < 60
  · have c' : (decide (10 ≤ a.v) && decide (a.v < 60)) = true := by simpa using c
    simp [c, pyRound2]
  · have c' : ¬ (decide (10 ≤ a.v) && decide (a.v < 60)) = true := by simpa using c
    simp [c, c']

theorem tr_s4 (a : AVal) (ha : a.isFloat = true) (sep : List Char) (oM oS : Bool) :
    Gen.TrTu.timestrApprox_s4 a.v sep oM oS a.sprec =
      ((fstep3 (fstep2 a)).sprec, (fstep4 (fstep3 (fstep2 a))).v, (fstep4 (fstep3 (fstep2 a))).isFloat) := by
  have h6 := tr_s6 (fstep2 a) (fstep2_isFloat a ha) sep oM oS
  unfold Gen.TrTu.timestrApprox_s4 Gen.TrTu.timestrApprox_s5
  rw [← h6]
  unfold fstep2
  by_cases c : 1 ≤ a.v ∧ a.v < 10
  · have c' : (decide (1 ≤ a.v) && decide (a.v < 10)) = true := by simpa using c
    simp [c, pyRound2]
  · have c' : ¬ (decide (1 ≤ a.v) && decide (a.v < 10)) = true := by simpa using c
    simp [c, c']

/-- the float block of the generated function IS the model's `approxFloat` (the generated `sprec`
    is the one before the last step, which resets it in the model when the value becomes an int) -/
theorem tr_s2_float (q : Rat) (sep : List Char) (oM oS : Bool) :
    Gen.TrTu.timestrApprox_s2 q true sep oM oS =
      Gen.TrTu.timestrApprox_s9 (approxFloat q).v (approxFloat q).isFloat sep oM oS
        (fstep3 (fstep2 (fstep1 q))).sprec := by
  have h4 := tr_s4 (fstep1 q) (by unfold fstep1; split <;> rfl) sep oM oS
  unfold Gen.TrTu.timestrApprox_s2 Gen.TrTu.timestrApprox_s3
  rw [approxFloat_eq]
  simp only [↓reduceIte]
  have e : (if decide (q < 1) = true then ((3 : Nat), pyRound2 q 3) else (0, q)) =
      ((fstep1 q).sprec, (fstep1 q).v) := by
    unfold fstep1
    by_cases c : q < 1 <;> simp [c, pyRound2]
  simp only [e, h4]

theorem c864000 : ((10 * Gen.secPerDay : Nat) : Rat) = 864000 := by decide

/-- the coarse part of the generated function IS the model's `approxCoarse` -/
theorem tr_s9 (a : AVal) (hv : 0 ≤ a.v) (sp : Nat) (sep : List Char) :
    Gen.TrTu.timestrApprox_s9 a.v a.isFloat sep false false sp =
      Gen.TrTu.timestrApprox_s14 (approxCoarse a).a.v (approxCoarse a).a.isFloat sep
        (approxCoarse a).omitMin (approxCoarse a).omitSec sp := by
  unfold Gen.TrTu.timestrApprox_s9 Gen.TrTu.timestrApprox_s10 Gen.TrTu.timestrApprox_s11
    Gen.TrTu.timestrApprox_s12 Gen.TrTu.timestrApprox_s13 approxCoarse
  simp only [c36000, c864000]
  have t60 := trunc_roundUnit a.v hv Gen.secPerMin (by decide)
  by_cases c1 : 36000 ≤ a.v ∧ a.v < 864000
  · have c1' : (decide (36000 ≤ a.v) && decide (a.v < 864000)) = true := by simpa using c1
    simp only [c1, and_self, ↓reduceIte, t60]
    have hk : (0 : Rat) ≤ ((roundUnit a.v Gen.secPerMin : Nat) : Rat) := by
      exact_mod_cast Nat.zero_le _
    have t3600 := trunc_roundUnit _ hk Gen.secPerHour (by decide)
    by_cases c2 : (864000 : Rat) ≤ ((roundUnit a.v Gen.secPerMin : Nat) : Rat)
    · simp [c2, t3600]
    · simp [c2]
  · have c1' : ¬ (decide (36000 ≤ a.v) && decide (a.v < 864000)) = true := by simpa using c1
    simp only [c1, c1', ↓reduceIte]
    have t3600 := trunc_roundUnit a.v hv Gen.secPerHour (by decide)
    by_cases c2 : (864000 : Rat) ≤ a.v
    · simp [c2, t3600]
    · simp [c2]

theorem coarse_grid (a : AVal) (hv : 0 ≤ a.v) (hg : a.v < 36000 → OnGrid a) :
    OnGrid (approxCoarse a).a ∧ ((approxCoarse a).a.isFloat = true → (approxCoarse a).a = a) := by
  obtain ⟨k1, k2, k3⟩ := approxCoarse_cases a hv
  have nat_grid : ∀ k : Nat, OnGrid ⟨(k : Rat), false, 0⟩ := by
    intro k
    refine ⟨k, ?_⟩
    simp only [Bool.false_eq_true, ↓reduceIte]
    have : ((10 ^ 0 : Nat) : Rat) = 1 := by decide
    rw [this]; grind
  by_cases c1 : a.v < 36000
  · rw [k1 c1]; exact ⟨hg c1, fun _ => rfl⟩
  · by_cases c2 : a.v < 864000
    · obtain ⟨k, _, _, hcase⟩ := k2 (by grind) c2
      rcases hcase with ⟨_, e⟩ | ⟨_, e⟩ <;> rw [e] <;> exact ⟨nat_grid _, fun h => nomatch h⟩
    · obtain ⟨k, _, _, e⟩ := k3 (by grind)
      rw [e]; exact ⟨nat_grid _, fun h => nomatch h⟩

theorem fstep4_float (b : AVal) (h : (fstep4 b).isFloat = true) : fstep4 b = b := by
  unfold fstep4 at h ⊢
  split
  · rename_i c; rw [if_pos c] at h; cases h
  · rfl

theorem approxFloat_facts (q : Rat) (hq : 0 ≤ q) :
    0 ≤ (approxFloat q).v ∧ ((approxFloat q).v < 36000 → OnGrid (approxFloat q)) := by
  by_cases c : q < 36000
  · have spec : ∃ half, FloatSpec q (approxFloat q) half := by
      by_cases c1 : q < 1
      · exact ⟨_, class1 q hq c1⟩
      · by_cases c2 : q < 10
        · exact ⟨_, class2 q (by grind) c2⟩
        · by_cases c3 : q < 60
          · exact ⟨_, class3 q (by grind) c3⟩
          · exact ⟨_, class4 q (by grind) c⟩
    obtain ⟨half, h0, _, _, hg, _⟩ := spec
    exact ⟨h0, fun _ => hg⟩
  · rw [approxFloat_large q (by grind)]
    exact ⟨hq, fun h => absurd h c⟩

/-- the generated `timestr_approx` IS the model's `timestrApprox` -/
theorem tr_timestrApprox (x : Secs) (sep : List Char) :
    Gen.TrTu.timestrApprox x sep = timestrApprox x sep := by
  cases x with
  | float q =>
    unfold Gen.TrTu.timestrApprox timestrApprox
    by_cases hq : q < 0
    · simp [secsVal, hq]
    · have hq0 : 0 ≤ q := Rat.not_lt.mp hq
      simp only [secsVal, secsIsFloat, hq, decide_false, Bool.false_eq_true, ↓reduceIte,
        Gen.TrTu.timestrApprox_s1]
      rw [tr_s2_float]
      obtain ⟨h0, hg⟩ := approxFloat_facts q hq0
      rw [tr_s9 (approxFloat q) h0]
      obtain ⟨g1, g2⟩ := coarse_grid (approxFloat q) h0 hg
      rw [approx_print (approxCoarse (approxFloat q)).a _ _ _ sep ?_ g1]
      intro hf
      have e := g2 hf
      rw [e] at hf ⊢
      rw [approxFloat_eq] at hf ⊢
      rw [fstep4_float _ hf]
  | int n =>
    unfold Gen.TrTu.timestrApprox timestrApprox
    by_cases hn : n < 0
    · have : ((n : Int) : Rat) < 0 := by exact_mod_cast hn
      simp [secsVal, hn, this]
    · have hnn : ¬ ((n : Int) : Rat) < 0 := by
        intro h
        have : n < 0 := by exact_mod_cast h
        exact hn this
      have h0 : (0 : Rat) ≤ ((n : Int) : Rat) := Rat.not_lt.mp hnn
      have hgrid : OnGrid ⟨((n : Int) : Rat), false, 0⟩ := by
        refine ⟨n.toNat, ?_⟩
        simp only [Bool.false_eq_true, ↓reduceIte]
        have e1 : ((10 ^ 0 : Nat) : Rat) = 1 := by decide
        have e2 : ((n.toNat : Nat) : Rat) = ((n : Int) : Rat) := by
          have := Int.toNat_of_nonneg (show 0 ≤ n by omega)
          exact_mod_cast congrArg (fun z : Int => (z : Rat)) this
        rw [e1, e2]; grind
      simp only [secsVal, secsIsFloat, hn, hnn, decide_false, Bool.false_eq_true, ↓reduceIte,
        Gen.TrTu.timestrApprox_s1, Gen.TrTu.timestrApprox_s2]
      have := tr_s9 ⟨((n : Int) : Rat), false, 0⟩ h0 0 sep
      simp only at this
      rw [this]
      obtain ⟨g1, g2⟩ := coarse_grid ⟨((n : Int) : Rat), false, 0⟩ h0 (fun _ => hgrid)
      rw [approx_print _ 0 _ _ sep ?_ g1]
      intro hf
      have e := g2 hf
      rw [e] at hf
      cases hf

end Edzed.TimeUnits
