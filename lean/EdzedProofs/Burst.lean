/-
Helper lemmas for C10: the evaluation counter of a burst, the path-count potential (every
evaluation lowers the weight of what is pending, for any selection order, with on_output event
feedback), and the pending-set invariant of C01 for circuits that may contain self-loops.
-/
import EdzedModel.Burst
import EdzedProofs.Simulate

namespace Edzed.Burst
open Edzed.Sim

/-! ### weighted sums -/

theorem wsum_mono (P : Nat → Nat) (E F : Nat → Bool) (k : Nat)
    (h : ∀ x, x < k → E x = true → F x = true) : wsum P E k ≤ wsum P F k := by
  induction k with
  | zero => simp [wsum]
  | succ k ih =>
    simp only [wsum]
    have h1 := ih (fun x hx => h x (by omega))
    have h2 := h k (by omega)
    by_cases hE : E k = true
    · simp [hE, h2 hE]; omega
    · simp [hE]; split <;> omega

theorem wsum_congr (P : Nat → Nat) (E F : Nat → Bool) (k : Nat)
    (h : ∀ x, x < k → E x = F x) : wsum P E k = wsum P F k := by
  have a := wsum_mono P E F k (fun x hx hE => by rw [← h x hx]; exact hE)
  have b := wsum_mono P F E k (fun x hx hF => by rw [h x hx]; exact hF)
  omega

theorem wsum_or_one (P : Nat → Nat) (E : Nat → Bool) (c k : Nat) :
    wsum P (fun x => E x || x == c) k ≤ wsum P E k + P c := by
  induction k with
  | zero => simp [wsum]
  | succ k ihk =>
    simp only [wsum]
    by_cases hc : k = c
    · subst hc
      have e1 := wsum_mono P (fun x => E x || x == k) E k
        (by intro x hx h; simp at h; rcases h with h | h; exact h; omega)
      simp; split <;> omega
    · have : (k == c) = false := by simp [hc]
      simp [this]; omega

/-- adding the members of a list to a mask adds at most their weights -/
theorem wsum_or_list (P : Nat → Nat) (E : Nat → Bool) (l : List Nat) (k : Nat) :
    wsum P (fun x => E x || l.contains x) k ≤ wsum P E k + listSum P l := by
  induction l generalizing E with
  | nil => simp [listSum]
  | cons c cs ih =>
    have h1 := ih (fun x => E x || x == c)
    have h2 := wsum_or_one P E c k
    have h3 : wsum P (fun x => E x || (c :: cs).contains x) k
        ≤ wsum P (fun x => (E x || x == c) || cs.contains x) k := by
      apply wsum_mono
      intro x _ hx
      simp at hx ⊢
      rcases hx with h | h | h <;> simp [h]
    simp only [listSum]
    omega

theorem wsum_remove (P : Nat → Nat) (E : Nat → Bool) (b k : Nat) (hb : b < k) (hE : E b = true) :
    wsum P (fun x => E x && x != b) k + P b = wsum P E k := by
  induction k with
  | zero => omega
  | succ k ih =>
    simp only [wsum]
    by_cases hk : k = b
    · subst hk
      simp [hE]
      have : wsum P (fun x => E x && x != k) k = wsum P E k := by
        apply wsum_congr
        intro x hx
        have : x ≠ k := by omega
        simp [this]
      omega
    · have := ih (by omega)
      have hne : (k != b) = true := by simp [hk]
      simp [hne]; omega

theorem wsum_pos (P : Nat → Nat) (E : Nat → Bool) (b k : Nat) (hb : b < k) (hE : E b = true) :
    P b ≤ wsum P E k := by
  have := wsum_remove P E b k hb hE
  omega

theorem wsum_none (P : Nat → Nat) (E : Nat → Bool) (k : Nat) (h : ∀ x, x < k → E x = false) :
    wsum P E k = 0 := by
  induction k with
  | zero => rfl
  | succ k ih =>
    simp only [wsum]
    rw [ih (fun x hx => h x (by omega)), h k (by omega)]
    simp

theorem listSum_append (P : Nat → Nat) (l m : List Nat) :
    listSum P (l ++ m) = listSum P l + listSum P m := by
  induction l with
  | nil => simp [listSum]
  | cons x xs ih => simp only [List.cons_append, listSum, ih]; omega

/-! ### the potential on the generic network -/

variable {V : Type}

theorem wsum_drain (net : Net V) (P : Nat → Nat) (E : Nat → Bool) (Q : List Nat) (k : Nat) :
    wsum P (fun b => E b || Q.any (fun i => (net.succS i).contains b)) k
      ≤ wsum P E k + listSum (sWeight net P) Q := by
  induction Q generalizing E with
  | nil => simp [listSum]
  | cons i Q ih =>
    have h1 := ih (fun b => E b || (net.succS i).contains b)
    have h2 := wsum_or_list P E (net.succS i) k
    have h3 : wsum P (fun b => E b || (i :: Q).any (fun i => (net.succS i).contains b)) k
        ≤ wsum P (fun b => (E b || (net.succS i).contains b) || Q.any (fun i => (net.succS i).contains b)) k := by
      apply wsum_mono
      intro x _ hx
      simp only [List.any_cons, Bool.or_eq_true] at hx ⊢
      rcases hx with h | h | h
      · exact Or.inl (Or.inl h)
      · exact Or.inl (Or.inr h)
      · exact Or.inr h
    simp only [listSum, sWeight] at h1 h2 ⊢
    omega

/-- moving the queue into the eval set does not add weight -/
theorem phi_drain_le (net : Net V) (P : Nat → Nat) (s : St V) :
    phi net P (drain net s) ≤ phi net P s := by
  have := wsum_drain net P s.E s.Q net.n
  simp only [phi, drain, listSum]
  omega

/-- one evaluation: the block leaves the eval set; if it changed, its successors enter and the
    queue grows by `L` -/
theorem phi_evalStep (eq : V → V → Bool) (net : Net V) (P : Nat → Nat) (s : St V) (b : Nat)
    (outS' : Nat → V) (L : List Nat) (hb : b < net.n) (hE : s.E b = true)
    (hP : 1 + listSum P (net.succC b) + listSum (sWeight net P) L ≤ P b) :
    phi net P (evalStep eq net s b outS' (s.Q ++ L)) + 1 ≤ phi net P s := by
  have hrem := wsum_remove P s.E b net.n hb hE
  by_cases hv : eq (s.outC b) (net.fcalc b s.outC s.outS) = true
  · simp only [evalStep, hv, ↓reduceIte, phi]
    omega
  · have hadd := wsum_or_list P (fun x => s.E x && x != b) (net.succC b) net.n
    simp only [evalStep, hv, Bool.false_eq_true, ↓reduceIte, phi, listSum_append]
    omega

/-! ### the concrete loop iteration -/

theorem drain_cnt (c : Circuit) (s : St Val) : (drain c.net s).cnt = s.cnt := rfl
theorem drain_outS (c : Circuit) (s : St Val) : (drain c.net s).outS = s.outS := rfl
theorem drain_Q (c : Circuit) (s : St Val) : (drain c.net s).Q = [] := rfl

/-- the four ways one loop iteration can go -/
theorem evalOp_cases (c : Circuit) (s : St Val) (b : Nat) :
    (anyPending c.net (drain c.net s).E = false ∧ evalOp c s b = (drain c.net s, .illegalChoice)) ∨
    (anyPending c.net (drain c.net s).E = true ∧ c.limit < s.cnt + 1 ∧
      evalOp c s b = (drain c.net s, .instability)) ∨
    (anyPending c.net (drain c.net s).E = true ∧ s.cnt + 1 ≤ c.limit ∧
      ((drain c.net s).E b = false ∨ ¬ b < c.net.n) ∧ evalOp c s b = (drain c.net s, .illegalChoice)) ∨
    (anyPending c.net (drain c.net s).E = true ∧ s.cnt + 1 ≤ c.limit ∧
      (drain c.net s).E b = true ∧ b < c.net.n ∧
      ∃ ch v, evalOp c s b =
        (evalStep Val.pyEq c.net (drain c.net s) b
          (effects c b (c.net.fcalc b (drain c.net s).outC (drain c.net s).outS) (drain c.net s).outS
            (drain c.net s).Q).1
          (effects c b (c.net.fcalc b (drain c.net s).outC (drain c.net s).outS) (drain c.net s).outS
            (drain c.net s).Q).2, .ok ch v)) := by
  unfold evalOp
  simp only []
  cases hp : anyPending c.net (drain c.net s).E
  · left; simp
  · right
    by_cases hl : c.limit < s.cnt + 1
    · left
      have : (drain c.net s).cnt + 1 > c.limit := hl
      simp [this, hl]
    · right
      have hl' : s.cnt + 1 ≤ c.limit := by omega
      have : ¬ (drain c.net s).cnt + 1 > c.limit := hl
      by_cases hb : (drain c.net s).E b = true ∧ b < c.net.n
      · right
        refine ⟨rfl, hl', hb.1, hb.2, ?_⟩
        simp [this, hb.1, hb.2]
      · left
        refine ⟨rfl, hl', ?_, ?_⟩
        · by_cases h1 : (drain c.net s).E b = true
          · right; exact fun h2 => hb ⟨h1, h2⟩
          · left; simpa using h1
        · have h2 : (!(drain c.net s).E b || !decide (b < c.net.n)) = true := by
            by_cases h1 : (drain c.net s).E b = true
            · have : ¬ b < c.net.n := fun h2 => hb ⟨h1, h2⟩
              simp [this]
            · simp at h1; simp [h1]
          simp [this, h2]

theorem isIdle_drain (c : Circuit) (s : St Val) :
    isIdle c.net (drain c.net s) = !anyPending c.net (drain c.net s).E := by
  simp only [isIdle, drain_Q, List.isEmpty_nil, Bool.true_and, anyPending]
  induction List.range c.net.n with
  | nil => rfl
  | cons x xs ih => simp only [List.all_cons, List.any_cons, ih, Bool.not_or]

theorem idleOp_some (c : Circuit) (s s' : St Val) (h : idleOp c s = some s') :
    anyPending c.net (drain c.net s).E = false ∧ s' = { drain c.net s with cnt := 0 } := by
  unfold idleOp at h
  simp only [isIdle_drain] at h
  cases hp : anyPending c.net (drain c.net s).E
  · simp [hp] at h; exact ⟨rfl, h.symm⟩
  · simp [hp] at h

theorem idleOp_none (c : Circuit) (s : St Val) (h : idleOp c s = none) :
    anyPending c.net (drain c.net s).E = true := by
  unfold idleOp at h
  simp only [isIdle_drain] at h
  cases hp : anyPending c.net (drain c.net s).E
  · simp [hp] at h
  · rfl

theorem unstableNow_iff (c : Circuit) (s : St Val) :
    unstableNow c s = true ↔ anyPending c.net (drain c.net s).E = true ∧ c.limit < s.cnt + 1 := by
  unfold unstableNow
  rcases evalOp_cases c s 0 with ⟨h1, h2⟩ | ⟨h1, h2, h3⟩ | ⟨h1, h2, _, h3⟩ | ⟨h1, h2, _, _, ch, v, h3⟩
  · simp [h2, h1]
  · simp [h3, h1, h2]
  · simp [h3]; omega
  · simp [h3]; omega

theorem anyPending_iff (net : Net Val) (E : Nat → Bool) :
    anyPending net E = true ↔ ∃ b, b < net.n ∧ E b = true := by
  simp [anyPending]

/-! ### on_output events only append their destinations to the queue -/

theorem setOutput_queue (outS : Nat → Val) (Q : List Nat) (i : Nat) (v : Val) :
    (setOutput outS Q i v).2 = Q ∨ (setOutput outS Q i v).2 = Q ++ [i] := by
  unfold setOutput
  split
  · left; rfl
  · right; rfl

theorem deliver_queue (kinds : List SKind) (outS : Nat → Val) (Q : List Nat) (i : Nat) (k : EvKind)
    (value : Val) :
    (deliver kinds outS Q i k value).2 = Q ∨ (deliver kinds outS Q i k value).2 = Q ++ [i] := by
  unfold deliver
  split
  · exact setOutput_queue _ _ _ _
  · split
    · exact setOutput_queue _ _ _ _
    · left; rfl
  · exact setOutput_queue _ _ _ _
  · left; rfl

theorem effects_queue (c : Circuit) (b : Nat) (v : Val) (outS : Nat → Val) (Q : List Nat) (w : Nat → Nat) :
    ∃ L, (effects c b v outS Q).2 = Q ++ L ∧ listSum w L ≤ listSum w (evDests c b) := by
  unfold effects evDests
  generalize (c.blk b).events = evs
  induction evs generalizing outS Q with
  | nil => exact ⟨[], by simp, by simp [listSum]⟩
  | cons e evs ih =>
    simp only [List.foldl_cons, List.map_cons, listSum]
    obtain ⟨L, hL, hw⟩ := ih (deliver c.skinds outS Q e.1 e.2 v).1 (deliver c.skinds outS Q e.1 e.2 v).2
    rcases deliver_queue c.skinds outS Q e.1 e.2 v with h | h
    · refine ⟨L, ?_, by omega⟩
      rw [hL, h]
    · refine ⟨e.1 :: L, ?_, by simp only [listSum]; omega⟩
      rw [hL, h]; simp

/-- KEY LEMMA on the real loop iteration: an evaluation lowers the weight of everything pending
    by at least one, whichever block of the eval set was chosen -/
theorem evalOp_phi (c : Circuit) (P : Nat → Nat) (hP : IsPot c P) (s : St Val) (b : Nat) (ch : Bool)
    (v : Val) (h : (evalOp c s b).2 = .ok ch v) :
    phi c.net P (evalOp c s b).1 + 1 ≤ phi c.net P s := by
  rcases evalOp_cases c s b with ⟨_, h2⟩ | ⟨_, _, h3⟩ | ⟨_, _, _, h3⟩ | ⟨_, _, hE, hb, ch', v', h3⟩
  · rw [h2] at h; cases h
  · rw [h3] at h; cases h
  · rw [h3] at h; cases h
  · rw [h3]
    simp only []
    obtain ⟨L, hL, hw⟩ := effects_queue c b (c.net.fcalc b (drain c.net s).outC (drain c.net s).outS)
      (drain c.net s).outS (drain c.net s).Q (sWeight c.net P)
    rw [hL]
    have hb' : b < c.cblocks.length := hb
    have hp := hP b hb'
    have := phi_evalStep Val.pyEq c.net P (drain c.net s) b
      (effects c b (c.net.fcalc b (drain c.net s).outC (drain c.net s).outS) (drain c.net s).outS
        (drain c.net s).Q).1 L hb hE (by omega)
    have hd := phi_drain_le c.net P s
    omega

theorem pending_phi_pos (c : Circuit) (P : Nat → Nat) (hP : IsPot c P) (s : St Val)
    (h : anyPending c.net (drain c.net s).E = true) : 1 ≤ phi c.net P s := by
  obtain ⟨b, hb, hE⟩ := (anyPending_iff _ _).mp h
  have h1 := wsum_pos P (drain c.net s).E b c.net.n hb hE
  have h2 := hP b hb
  have h3 := phi_drain_le c.net P s
  simp only [phi] at h3 ⊢
  omega

theorem evalOp_ok_cnt (c : Circuit) (s : St Val) (b : Nat) (ch : Bool) (v : Val)
    (h : (evalOp c s b).2 = .ok ch v) :
    (evalOp c s b).1.cnt = s.cnt + 1 ∧ s.cnt + 1 ≤ c.limit := by
  rcases evalOp_cases c s b with ⟨_, h2⟩ | ⟨_, _, h3⟩ | ⟨_, _, _, h3⟩ | ⟨_, hl, _, _, ch', v', h3⟩
  · rw [h2] at h; cases h
  · rw [h3] at h; cases h
  · rw [h3] at h; cases h
  · rw [h3]
    refine ⟨?_, hl⟩
    simp only [evalStep]
    split <;> rfl

theorem evalOp_instability (c : Circuit) (s : St Val) (b : Nat) (h : (evalOp c s b).2 = .instability) :
    anyPending c.net (drain c.net s).E = true ∧ c.limit < s.cnt + 1 := by
  rcases evalOp_cases c s b with ⟨_, h2⟩ | ⟨h1, h2, _⟩ | ⟨_, _, _, h3⟩ | ⟨_, _, _, _, ch', v', h3⟩
  · rw [h2] at h; cases h
  · exact ⟨h1, h2⟩
  · rw [h3] at h; cases h
  · rw [h3] at h; cases h

/-! ### the pending-set invariant for circuits with self-loops -/

/-- static well-formedness needed here: Compare thresholds ordered (`Compare.__init__` refuses
    `high < low`).  Unlike C01's `Circuit.ok`, a block may read its own output. -/
def OkW (c : Circuit) : Prop := ∀ b, b < c.cblocks.length → (c.blk b).ok = true

theorem okW_of_ok (c : Circuit) (h : c.ok) : OkW c := fun b hb => (h b hb).1

theorem circuit_wf' (c : Circuit) (hok : OkW c) : WF Val.pyEq c.net where
  wireC a b := by
    simp only [Circuit.net, List.mem_filter, List.mem_range, List.contains_iff_mem]
    constructor
    · exact fun h => h.2
    · intro h
      refine ⟨?_, h⟩
      by_cases hb : b < c.cblocks.length
      · exact hb
      · rw [blk_default_of_ge c b (by omega), cIns_default] at h; simp at h
  wireS i b := by
    simp only [Circuit.net, List.mem_filter, List.mem_range, List.contains_iff_mem]
    constructor
    · exact fun h => h.2
    · intro h
      refine ⟨?_, h⟩
      by_cases hb : b < c.cblocks.length
      · exact hb
      · rw [blk_default_of_ge c b (by omega), sIns_default] at h; simp at h
  local_ b o o' e e' hc hs hown := by
    simp only [Circuit.net]
    rw [hown]
    exact calcBlk_congr _ _ _ _ _ _ (agree_of _ _ _ _ _ hc hs)
  idem b o e hself := by
    simp only [Circuit.net] at hself ⊢
    by_cases hb : b < c.cblocks.length
    · have hagree : Agree (c.blk b) (upd o b (calcBlk (c.blk b) (o b) o e)) o e e := by
        apply agree_of
        · intro j hj
          have : j ≠ b := fun h => hself (h ▸ hj)
          simp [upd, this]
        · intro _ _; rfl
      rw [calcBlk_congr _ _ _ _ _ _ hagree]
      simp only [upd, ↓reduceIte]
      rw [calcBlk_idem _ (hok b hb)]
      exact pyEq_refl _
    · have hd := blk_default_of_ge c b (by omega)
      rw [hd]
      have : ∀ own o e, calcBlk (default : CBlk) own o e = Val.bool true := fun _ _ _ => by
        simp [calcBlk, show (default : CBlk).fn = Fn.not from rfl, show (default : CBlk).pos = [] from rfl,
          Val.truthy]
      simp [this, pyEq_refl]

/-- every CBlock agrees (Python `==`) with its function of the current outputs -/
def Consistent (c : Circuit) (outC outS : Nat → Val) : Prop :=
  ∀ b, b < c.cblocks.length → (outC b).pyEq (calcBlk (c.blk b) (outC b) outC outS) = true

theorem evalOp_inv (c : Circuit) (hok : OkW c) (s : St Val) (h : Inv Val.pyEq c.net s) (b : Nat) :
    Inv Val.pyEq c.net (evalOp c s b).1 := by
  have wf := circuit_wf' c hok
  have hd := drain_inv Val.pyEq c.net s h
  rcases evalOp_cases c s b with ⟨_, h2⟩ | ⟨_, _, h3⟩ | ⟨_, _, _, h3⟩ | ⟨_, _, _, _, ch', v', h3⟩
  · rw [h2]; exact hd
  · rw [h3]; exact hd
  · rw [h3]; exact hd
  · rw [h3]
    have g := effects_grows c b (c.net.fcalc b (drain c.net s).outC (drain c.net s).outS)
      (drain c.net s).outS (drain c.net s).Q
    exact eval_inv Val.pyEq c.net wf _ hd b _ _ g.1 g.2

theorem step_inv (c : Circuit) (hok : OkW c) (s : St Val) (h : Inv Val.pyEq c.net s) (op : Op) :
    Inv Val.pyEq c.net (step c s op) := by
  cases op with
  | ext i k v =>
    have g := deliver_grows c.skinds s.outS s.Q i k v
    exact env_change_inv Val.pyEq c.net (circuit_wf' c hok) s h _ _ g.1 g.2
  | eval b => exact evalOp_inv c hok s h b
  | idle =>
    simp only [step]
    cases hi : idleOp c s with
    | none => exact h
    | some s' =>
      obtain ⟨_, rfl⟩ := idleOp_some c s s' hi
      exact drain_inv Val.pyEq c.net s h

theorem run_inv' (c : Circuit) (hok : OkW c) (s : St Val) (h : Inv Val.pyEq c.net s) (ops : List Op) :
    Inv Val.pyEq c.net (run c s ops) := by
  induction ops generalizing s with
  | nil => exact h
  | cons op ops ih => exact ih _ (step_inv c hok s h op)

theorem start_inv (c : Circuit) (outS : Nat → Val) : Inv Val.pyEq c.net (start c outS) := by
  intro b hb _
  left
  simpa [start, Circuit.net] using hb

/-- the counter never exceeds the limit -/
theorem step_cnt (c : Circuit) (s : St Val) (h : s.cnt ≤ c.limit) (op : Op) : (step c s op).cnt ≤ c.limit := by
  cases op with
  | ext i k v => exact h
  | eval b =>
    simp only [step]
    rcases evalOp_cases c s b with ⟨_, h2⟩ | ⟨_, _, h3⟩ | ⟨_, _, _, h3⟩ | ⟨_, hl, _, _, ch', v', h3⟩
    · rw [h2]; exact h
    · rw [h3]; exact h
    · rw [h3]; exact h
    · have := evalOp_ok_cnt c s b ch' v' (by rw [h3])
      omega
  | idle =>
    simp only [step]
    cases hi : idleOp c s with
    | none => exact h
    | some s' =>
      obtain ⟨_, rfl⟩ := idleOp_some c s s' hi
      exact Nat.zero_le _

theorem run_cnt (c : Circuit) (s : St Val) (h : s.cnt ≤ c.limit) (ops : List Op) :
    (run c s ops).cnt ≤ c.limit := by
  induction ops generalizing s with
  | nil => exact h
  | cons op ops ih => exact ih _ (step_cnt c s h op)

/-! ### the burst -/

theorem burst_inv (c : Circuit) (hok : OkW c) (s : St Val) (h : Inv Val.pyEq c.net s) (choices : List Nat) :
    Inv Val.pyEq c.net (burst c s choices).st := by
  induction choices generalizing s with
  | nil =>
    simp only [burst]
    cases hi : idleOp c s with
    | some s' =>
      obtain ⟨_, rfl⟩ := idleOp_some c s s' hi
      exact drain_inv Val.pyEq c.net s h
    | none =>
      simp only []
      split
      · exact drain_inv Val.pyEq c.net s h
      · exact h
  | cons b bs ih =>
    simp only [burst]
    have := evalOp_inv c hok s h b
    split
    · next s1 ch v heq => rw [heq] at this; exact ih s1 this
    · next s1 heq => rw [heq] at this; exact this
    · next s1 heq => rw [heq] at this; exact this

/-- a burst that ends with a pause ends in a state where nothing is pending -/
theorem burst_idle_state (c : Circuit) (s : St Val) (choices : List Nat)
    (h : (burst c s choices).fin = .idle) :
    (burst c s choices).st.Q = [] ∧ (burst c s choices).st.cnt = 0 ∧
    ∀ b, b < c.net.n → (burst c s choices).st.E b = false := by
  induction choices generalizing s with
  | nil =>
    simp only [burst] at h ⊢
    cases hi : idleOp c s with
    | some s' =>
      obtain ⟨hp, rfl⟩ := idleOp_some c s s' hi
      refine ⟨rfl, rfl, fun b hb => ?_⟩
      cases hE : (drain c.net s).E b
      · rfl
      · have := (anyPending_iff c.net (drain c.net s).E).mpr ⟨b, hb, hE⟩
        rw [hp] at this; cases this
    | none =>
      rw [hi] at h
      simp only [] at h
      split at h <;> cases h
  | cons b bs ih =>
    simp only [burst] at h ⊢
    split
    · next s1 ch v heq => rw [heq] at h; exact ih s1 h
    · next s1 heq => rw [heq] at h; cases h
    · next s1 heq => rw [heq] at h; cases h

theorem burst_count (c : Circuit) (s : St Val) (choices : List Nat) (h0 : s.cnt ≤ c.limit) :
    (burst c s choices).evals + s.cnt ≤ c.limit ∧
    ((burst c s choices).fin = .unstable → (burst c s choices).evals + s.cnt = c.limit) ∧
    (c.limit ≤ choices.length + s.cnt → (burst c s choices).fin ≠ .more) := by
  induction choices generalizing s with
  | nil =>
    simp only [burst]
    cases hi : idleOp c s with
    | some s' => simp [Res.evals]; exact h0
    | none =>
      simp only []
      have hp := idleOp_none c s hi
      by_cases hu : unstableNow c s = true
      · have := (unstableNow_iff c s).mp hu
        simp [hu, Res.evals]; omega
      · have hn : ¬ c.limit < s.cnt + 1 := fun hl => hu ((unstableNow_iff c s).mpr ⟨hp, hl⟩)
        simp [hu, Res.evals]; omega
  | cons b bs ih =>
    simp only [burst]
    split
    · next s1 ch v heq =>
      have hc := evalOp_ok_cnt c s b ch v (by rw [heq])
      rw [heq] at hc
      simp only [] at hc
      have := ih s1 (by omega)
      simp only [Res.evals, List.length_cons] at this ⊢
      refine ⟨by omega, fun hf => ?_, fun hl => this.2.2 (by omega)⟩
      have := this.2.1 hf
      omega
    · next s1 heq =>
      have := evalOp_instability c s b (by rw [heq])
      simp [Res.evals]; omega
    · next s1 heq => simp [Res.evals]; exact h0

theorem burst_dag (c : Circuit) (P : Nat → Nat) (hP : IsPot c P) (s : St Val) (choices : List Nat)
    (h : s.cnt + phi c.net P s ≤ c.limit) :
    (burst c s choices).fin ≠ .unstable ∧ (burst c s choices).evals ≤ phi c.net P s := by
  induction choices generalizing s with
  | nil =>
    simp only [burst]
    cases hi : idleOp c s with
    | some s' => simp [Res.evals]
    | none =>
      simp only []
      have hp := idleOp_none c s hi
      have hpos := pending_phi_pos c P hP s hp
      have hu : unstableNow c s = false := by
        cases hx : unstableNow c s
        · rfl
        · have := (unstableNow_iff c s).mp hx
          omega
      simp [hu, Res.evals]
  | cons b bs ih =>
    simp only [burst]
    split
    · next s1 ch v heq =>
      have hc := evalOp_ok_cnt c s b ch v (by rw [heq])
      have hphi := evalOp_phi c P hP s b ch v (by rw [heq])
      rw [heq] at hc hphi
      simp only [] at hc hphi
      have := ih s1 (by omega)
      simp only [Res.evals, List.length_cons] at this ⊢
      exact ⟨this.1, by omega⟩
    · next s1 heq =>
      have hi := evalOp_instability c s b (by rw [heq])
      have hpos := pending_phi_pos c P hP s hi.1
      omega
    · next s1 heq => simp [Res.evals]

/-- without on_output events a burst does not touch the SBlock outputs -/
theorem evalOp_outS (c : Circuit) (hne : ∀ b, (c.blk b).events = []) (s : St Val) (b : Nat) :
    (evalOp c s b).1.outS = s.outS := by
  rcases evalOp_cases c s b with ⟨_, h2⟩ | ⟨_, _, h3⟩ | ⟨_, _, _, h3⟩ | ⟨_, _, _, _, ch', v', h3⟩
  · rw [h2]; rfl
  · rw [h3]; rfl
  · rw [h3]; rfl
  · rw [h3]
    simp only [evalStep, effects, hne b, List.foldl_nil]
    split <;> rfl

theorem burst_outS (c : Circuit) (hne : ∀ b, (c.blk b).events = []) (s : St Val) (choices : List Nat) :
    (burst c s choices).st.outS = s.outS := by
  induction choices generalizing s with
  | nil =>
    simp only [burst]
    cases hi : idleOp c s with
    | some s' =>
      obtain ⟨_, rfl⟩ := idleOp_some c s s' hi
      rfl
    | none =>
      simp only []
      split <;> rfl
  | cons b bs ih =>
    simp only [burst]
    have := evalOp_outS c hne s b
    split
    · next s1 ch v heq => rw [heq] at this; simp only [] at this; rw [ih s1, this]
    · next s1 heq => rw [heq] at this; exact this
    · next s1 heq => rw [heq] at this; exact this

/-! ### weight of a state -/

theorem phi_start (c : Circuit) (P : Nat → Nat) (outS : Nat → Val) :
    phi c.net P (start c outS) = wsum P (fun _ => true) c.cblocks.length := by
  simp only [phi, start, listSum, Nat.add_zero]
  apply wsum_congr
  intro x hx
  simpa [Circuit.net] using hx

theorem phi_ext (c : Circuit) (P : Nat → Nat) (s : St Val) (i : Nat) (k : EvKind) (v : Val) :
    phi c.net P (extOp c s i k v) ≤ phi c.net P s + sWeight c.net P i := by
  simp only [extOp, phi]
  rcases deliver_queue c.skinds s.outS s.Q i k v with h | h
  · rw [h]; omega
  · rw [h, listSum_append]; simp only [listSum]; omega

structure Ext where
  i : Nat
  k : EvKind
  v : Val

def applyExts (c : Circuit) (s : St Val) (es : List Ext) : St Val :=
  es.foldl (fun s e => extOp c s e.i e.k e.v) s

theorem phi_exts (c : Circuit) (P : Nat → Nat) (s : St Val) (es : List Ext) :
    phi c.net P (applyExts c s es) ≤ phi c.net P s + listSum (sWeight c.net P) (es.map (·.i)) := by
  induction es generalizing s with
  | nil => simp [applyExts, listSum]
  | cons e es ih =>
    have h1 := ih (extOp c s e.i e.k e.v)
    have h2 := phi_ext c P s e.i e.k e.v
    simp only [applyExts, List.foldl_cons, List.map_cons, listSum] at h1 ⊢
    omega

theorem exts_cnt (c : Circuit) (s : St Val) (es : List Ext) : (applyExts c s es).cnt = s.cnt := by
  induction es generalizing s with
  | nil => rfl
  | cons e es ih =>
    simp only [applyExts, List.foldl_cons] at ih ⊢
    rw [ih]; rfl

theorem phi_idle (c : Circuit) (P : Nat → Nat) (s s' : St Val) (h : idleOp c s = some s') :
    phi c.net P s' = 0 ∧ s'.cnt = 0 := by
  obtain ⟨hp, rfl⟩ := idleOp_some c s s' h
  refine ⟨?_, rfl⟩
  simp only [phi, drain_Q, listSum, Nat.add_zero]
  apply wsum_none
  intro b hb
  cases hE : (drain c.net s).E b
  · rfl
  · have := (anyPending_iff c.net (drain c.net s).E).mpr ⟨b, hb, hE⟩
    rw [hp] at this; cases this

theorem isPotB_sound (c : Circuit) (P : Nat → Nat) (h : isPotB c P = true) : IsPot c P := by
  intro b hb
  simp only [isPotB, List.all_eq_true, List.mem_range, decide_eq_true_eq] at h
  exact h b hb

/-- where a burst starts: `_simulate` has just been entered, or the loop paused and SBlock
    outputs were changed from outside (any number of events) -/
inductive BurstStart (c : Circuit) : St Val → Prop where
  | first (outS : Nat → Val) : BurstStart c (start c outS)
  | resumed (s0 s' : St Val) (es : List Ext) (h : idleOp c s0 = some s') : BurstStart c (applyExts c s' es)

theorem burstStart_cnt (c : Circuit) (s : St Val) (h : BurstStart c s) : s.cnt = 0 := by
  cases h with
  | first outS => rfl
  | resumed s0 s' es h =>
    rw [exts_cnt]
    exact (idleOp_some c s0 s' h).2 ▸ rfl

/-- Python's `==` with a bool fixes the truth value -/
theorem truthy_of_pyEq_bool (a : Val) (x : Bool) (h : a.pyEq (Val.bool x) = true) : a.truthy = x := by
  cases a with
  | undef => simp [Val.pyEq, Val.bool] at h
  | tup l => simp [Val.pyEq, Val.bool] at h
  | lst l => simp [Val.pyEq, Val.bool] at h
  | atom a =>
    cases a with
    | none => simp [Val.pyEq, Val.bool, Atom.pyEq] at h
    | str s => simp [Val.pyEq, Val.bool, Atom.pyEq] at h
    | num q k =>
      simp only [Val.pyEq, Val.bool, Atom.pyEq, beq_iff_eq] at h
      subst h
      cases x <;> simp [Val.truthy, Atom.truthy]

/-! ### `select_blk` on an acyclic network without event feedback -/

/-- number of pending blocks -/
def card (E : Nat → Bool) (k : Nat) : Nat := wsum (fun _ => 1) E k

theorem listSum_mem (P : Nat → Nat) (l : List Nat) (x : Nat) (h : x ∈ l) : P x ≤ listSum P l := by
  induction l with
  | nil => cases h
  | cons y ys ih =>
    simp only [listSum]
    rcases List.mem_cons.mp h with rfl | h'
    · omega
    · have := ih h'; omega

theorem exists_max (P : Nat → Nat) (E : Nat → Bool) (k : Nat) (h : ∃ b, b < k ∧ E b = true) :
    ∃ x, x < k ∧ E x = true ∧ ∀ y, y < k → E y = true → P y ≤ P x := by
  induction k with
  | zero => obtain ⟨b, hb, _⟩ := h; omega
  | succ k ih =>
    by_cases hk : ∃ b, b < k ∧ E b = true
    · obtain ⟨x, hx, hEx, hmax⟩ := ih hk
      by_cases hEk : E k = true
      · by_cases hle : P k ≤ P x
        · refine ⟨x, by omega, hEx, fun y hy hEy => ?_⟩
          by_cases hyk : y = k
          · subst hyk; exact hle
          · exact hmax y (by omega) hEy
        · refine ⟨k, by omega, hEk, fun y hy hEy => ?_⟩
          by_cases hyk : y = k
          · subst hyk; omega
          · have := hmax y (by omega) hEy; omega
      · refine ⟨x, by omega, hEx, fun y hy hEy => ?_⟩
        by_cases hyk : y = k
        · subst hyk; exact absurd hEy hEk
        · exact hmax y (by omega) hEy
    · obtain ⟨b, hb, hEb⟩ := h
      have hbk : b = k := by
        by_cases hbk : b = k
        · exact hbk
        · exact absurd ⟨b, by omega, hEb⟩ hk
      subst hbk
      refine ⟨b, by omega, hEb, fun y hy hEy => ?_⟩
      by_cases hyk : y = b
      · subst hyk; omega
      · exact absurd ⟨y, by omega, hEy⟩ hk

theorem mem_succC (c : Circuit) (a x : Nat) : x ∈ c.net.succC a ↔ x < c.cblocks.length ∧ a ∈ cIns (c.blk x) := by
  simp [Circuit.net, List.mem_filter, List.mem_range]

theorem idep_zero_iff (c : Circuit) (E : Nat → Bool) (b : Nat) :
    idep c E b = 0 ↔ ∀ a, a ∈ cIns (c.blk b) → E a = false := by
  simp only [idep, List.length_eq_zero_iff, List.filter_eq_nil_iff, List.mem_eraseDups]
  constructor
  · intro h a ha
    cases hE : E a
    · rfl
    · exact absurd hE (h a ha)
  · intro h a ha
    simp [h a ha]

/-- in an acyclic network a non-empty eval set (of real blocks) contains a block none of whose
    inputs is pending -/
theorem exists_idep_zero (c : Circuit) (P : Nat → Nat) (hP : IsPot c P) (E : Nat → Bool)
    (hlt : ∀ a, E a = true → a < c.cblocks.length)
    (h : ∃ b, b < c.cblocks.length ∧ E b = true) :
    ∃ x, x < c.cblocks.length ∧ E x = true ∧ idep c E x = 0 := by
  obtain ⟨x, hx, hEx, hmax⟩ := exists_max P E _ h
  refine ⟨x, hx, hEx, (idep_zero_iff c E x).mpr fun a ha => ?_⟩
  cases hEa : E a
  · rfl
  · have ha' := hlt a hEa
    have h1 := hP a ha'
    have h2 := listSum_mem P (c.net.succC a) x ((mem_succC c a x).mpr ⟨hx, ha⟩)
    have h3 := hmax a ha' hEa
    omega

/-- … hence `select_blk` returns such a block -/
theorem selectOk_idep_zero (c : Circuit) (P : Nat → Nat) (hP : IsPot c P) (E : Nat → Bool)
    (hlt : ∀ a, E a = true → a < c.cblocks.length) (b : Nat) (h : selectOk c E b = true) :
    E b = true ∧ b < c.cblocks.length ∧ idep c E b = 0 := by
  simp only [selectOk, Bool.and_eq_true, Bool.or_eq_true, decide_eq_true_eq, beq_iff_eq] at h
  refine ⟨h.1.1, h.1.2, ?_⟩
  rcases h.2 with h0 | hall
  · exact h0
  · obtain ⟨x, hx, hEx, hix⟩ := exists_idep_zero c P hP E hlt ⟨b, h.1.2, h.1.1⟩
    simp only [List.all_eq_true, List.mem_range, Bool.or_eq_true, Bool.not_eq_true',
      Bool.and_eq_true, bne_iff_ne, ne_eq, decide_eq_true_eq] at hall
    rcases hall x hx with h1 | h1
    · rw [hEx] at h1; cases h1
    · exact absurd hix h1.1

/-- the eval set is closed under successors, contains real blocks only, and the queue is empty -/
structure Closed (c : Circuit) (s : St Val) : Prop where
  lt : ∀ a, s.E a = true → a < c.cblocks.length
  succ : ∀ a, s.E a = true → ∀ x, x ∈ c.net.succC a → s.E x = true
  q : s.Q = []

theorem drain_closed_E (c : Circuit) (s : St Val) (h : Closed c s) (x : Nat) :
    (drain c.net s).E x = s.E x := by
  simp [drain, h.q]

theorem card_remove (E E' : Nat → Bool) (b k : Nat) (hb : b < k) (hE : E b = true)
    (h : ∀ x, E' x = (E x && x != b)) : card E' k + 1 = card E k := by
  have := wsum_remove (fun _ => 1) E b k hb hE
  have e : wsum (fun _ => 1) E' k = wsum (fun _ => 1) (fun x => E x && x != b) k :=
    wsum_congr _ _ _ _ (fun x _ => h x)
  simp only [card]
  omega

/-- one iteration with a choice of `select_blk` on a successor-closed eval set (no on_output
    events): the block leaves the set and nothing enters -/
theorem evalOp_closed (c : Circuit) (P : Nat → Nat) (hP : IsPot c P) (hne : ∀ b, (c.blk b).events = [])
    (s : St Val) (hc : Closed c s) (b : Nat) (hsel : selectOk c (drain c.net s).E b = true)
    (ch : Bool) (v : Val) (h : (evalOp c s b).2 = .ok ch v) :
    Closed c (evalOp c s b).1 ∧ card (evalOp c s b).1.E c.cblocks.length + 1 = card s.E c.cblocks.length := by
  have hEeq : ∀ x, (drain c.net s).E x = s.E x := drain_closed_E c s hc
  have hlt' : ∀ a, (drain c.net s).E a = true → a < c.cblocks.length := fun a ha => hc.lt a (by rw [← hEeq]; exact ha)
  obtain ⟨hEb, hb, hid⟩ := selectOk_idep_zero c P hP _ hlt' b hsel
  have hnopred := (idep_zero_iff c _ b).mp hid
  rw [hEeq] at hEb
  -- successors of b are pending already and differ from b
  have hsucc : ∀ x, x ∈ c.net.succC b → s.E x = true ∧ x ≠ b := by
    intro x hx
    refine ⟨hc.succ b hEb x hx, fun hxb => ?_⟩
    subst hxb
    have := hnopred x ((mem_succC c x x).mp hx).2
    rw [hEeq, hEb] at this; cases this
  rcases evalOp_cases c s b with ⟨_, h2⟩ | ⟨_, _, h3⟩ | ⟨_, _, _, h3⟩ | ⟨_, _, _, _, ch', v', h3⟩
  · rw [h2] at h; cases h
  · rw [h3] at h; cases h
  · rw [h3] at h; cases h
  · rw [h3]
    simp only []
    have hE' : ∀ x, (evalStep Val.pyEq c.net (drain c.net s) b
        (effects c b (c.net.fcalc b (drain c.net s).outC (drain c.net s).outS) (drain c.net s).outS (drain c.net s).Q).1
        (effects c b (c.net.fcalc b (drain c.net s).outC (drain c.net s).outS) (drain c.net s).outS (drain c.net s).Q).2).E x
        = (s.E x && x != b) := by
      intro x
      simp only [evalStep]
      split
      · simp only [hEeq]
      · simp only [hEeq]
        cases hx : (c.net.succC b).contains x
        · simp
        · have := hsucc x (by simpa using hx)
          simp [this.1, this.2]
    have hQ' : (evalStep Val.pyEq c.net (drain c.net s) b
        (effects c b (c.net.fcalc b (drain c.net s).outC (drain c.net s).outS) (drain c.net s).outS (drain c.net s).Q).1
        (effects c b (c.net.fcalc b (drain c.net s).outC (drain c.net s).outS) (drain c.net s).outS (drain c.net s).Q).2).Q
        = [] := by
      simp only [evalStep, effects, hne b, List.foldl_nil]
      split <;> rfl
    refine ⟨⟨fun a ha => ?_, fun a ha x hx => ?_, hQ'⟩, card_remove _ _ b _ hb hEb hE'⟩
    · rw [hE'] at ha
      simp only [Bool.and_eq_true] at ha
      exact hc.lt a ha.1
    · rw [hE'] at ha ⊢
      simp only [Bool.and_eq_true, bne_iff_ne, ne_eq] at ha ⊢
      refine ⟨hc.succ a ha.1 x hx, fun hxb => ?_⟩
      subst hxb
      have := hnopred a ((mem_succC c a x).mp hx).2
      rw [hEeq, ha.1] at this; cases this

theorem card_pos (E : Nat → Bool) (k b : Nat) (hb : b < k) (hE : E b = true) : 1 ≤ card E k :=
  wsum_pos (fun _ => 1) E b k hb hE

/-- with `select_blk`'s choices a burst on a successor-closed eval set of an acyclic network
    evaluates every pending block exactly once at most -/
theorem burst_select (c : Circuit) (P : Nat → Nat) (hP : IsPot c P) (hne : ∀ b, (c.blk b).events = [])
    (s : St Val) (hc : Closed c s) (choices : List Nat) (hsel : choicesOk c s choices = true)
    (h : s.cnt + card s.E c.cblocks.length ≤ c.limit) :
    (burst c s choices).fin ≠ .unstable ∧ (burst c s choices).evals ≤ card s.E c.cblocks.length := by
  induction choices generalizing s with
  | nil =>
    simp only [burst]
    cases hi : idleOp c s with
    | some s' => simp [Res.evals]
    | none =>
      simp only []
      have hp := idleOp_none c s hi
      obtain ⟨b, hb, hE⟩ := (anyPending_iff _ _).mp hp
      rw [drain_closed_E c s hc] at hE
      have hpos := card_pos s.E c.cblocks.length b hb hE
      have hu : unstableNow c s = false := by
        cases hx : unstableNow c s
        · rfl
        · have := (unstableNow_iff c s).mp hx
          omega
      simp [hu, Res.evals]
  | cons b bs ih =>
    simp only [choicesOk, Bool.and_eq_true] at hsel
    simp only [burst]
    split
    · next s1 ch v heq =>
      have hcnt := evalOp_ok_cnt c s b ch v (by rw [heq])
      have hcl := evalOp_closed c P hP hne s hc b hsel.1 ch v (by rw [heq])
      have hs2 := hsel.2
      rw [heq] at hcnt hcl hs2
      simp only [] at hcnt hcl hs2
      have := ih s1 hcl.1 hs2 (by omega)
      simp only [Res.evals, List.length_cons] at this ⊢
      exact ⟨this.1, by omega⟩
    · next s1 heq =>
      have hi := evalOp_instability c s b (by rw [heq])
      obtain ⟨x, hx, hE⟩ := (anyPending_iff _ _).mp hi.1
      rw [drain_closed_E c s hc] at hE
      have hpos := card_pos s.E c.cblocks.length x hx hE
      omega
    · next s1 heq => simp [Res.evals]

theorem start_closed (c : Circuit) (outS : Nat → Val) : Closed c (start c outS) where
  lt a ha := by simpa [start] using ha
  succ a _ x hx := by
    have := ((mem_succC c a x).mp hx).1
    simpa [start] using this
  q := rfl

theorem card_all (k : Nat) : card (fun b => decide (b < k)) k = k := by
  have : ∀ j, j ≤ k → wsum (fun _ => 1) (fun b => decide (b < k)) j = j := by
    intro j
    induction j with
    | zero => intro _; rfl
    | succ j ih =>
      intro hj
      simp only [wsum]
      rw [ih (by omega)]
      have : j < k := by omega
      simp [this]
  exact this k (Nat.le_refl _)

end Edzed.Burst
