/-
C13: "these endpoint notations denote these ranges", element by element.  Core Lean only.
-/
import EdzedModel.Interval

namespace Edzed.Interval

/-- every pair of endpoint notations (strings in any notation, integer sequences) converts to the corresponding
    range – `convert k n = .ok e` is the conclusion of each notation theorem -/
def Denotes (k : Kind) : List (EpIn × EpIn) → List Range → Prop
  | [], [] => True
  | n :: ns, r :: rs => (convert k n.1 = .ok r.1 ∧ convert k n.2 = .ok r.2) ∧ Denotes k ns rs
  | _, _ => False

theorem Denotes.parseRanges {k : Kind} : ∀ {l : List (EpIn × EpIn)} {rs : List Range}, Denotes k l rs →
    parseRanges k (l.map fun n => RangeIn.seq [n.1, n.2]) = .ok rs
  | [], [], _ => rfl
  | n :: ns, r :: rs, h => by
    have ih := Denotes.parseRanges h.2
    simp only [List.map_cons, Interval.parseRanges, parseRange, h.1.1, h.1.2, ih]
    rfl
  | [], _ :: _, h => h.elim
  | _ :: _, [], h => h.elim

end Edzed.Interval
