/-
Tie of the FSM model to the TRANSLATED timer methods of `fsm.FSM` (lean/EdzedModel/Gen/TranslatedFsmTimer.lean,
regenerated from the current Python AST by tools/py2lean_fsmtimer.py on every check): `_set_timer`,
`_timer_expired`, `_start_timer`, `_stop_timer`, `stop`, `start`, `get_state`.

`tprims c inside` instantiates the primitives of these programs with the model's meaning of the event loop and
of the block: `call_later` puts a handle into the loop's heap (`timers`), `cancel()` marks it, `cancelled()` /
`when()` read it, `utils.time_period` is `clamp` (the function itself is tied in C19), `self.event(…)` is the
recursive `eventRec` inside a transition and `deliver` outside.  The theorems about the translated programs
are in EdzedProps/C04.lean (`translated_fsmtimer_…`).
-/
import EdzedModel.FsmTimer
import EdzedProofs.FsmTimer
import EdzedProofs.FsmTie
import EdzedModel.Gen.TranslatedFsmTimer

namespace Edzed.TrTie
open Edzed.FsmTimer Edzed.Gen.TrM Edzed.Gen.TrT

/-- `n <op> 0` -/
def cmpInt (op : Cmp) (n : Int) : Bool :=
  match op with
  | .lt => decide (n < 0)
  | .le => decide (n ≤ 0)
  | .gt => decide (0 < n)
  | .ge => decide (0 ≤ n)

/-- `call_later(d, self._timer_expired, ev)`: a new handle in the loop's heap -/
def newHandle (s : St) (d : Nat) (ev : TEvent) : Handle :=
  { id := s.nextId, when := s.now + d, ev := ev, epoch := s.epoch }

def armHandle (s : St) (d : Nat) (ev : TEvent) : St :=
  ({ s with timers := s.timers ++ [newHandle s d ev], nextId := s.nextId + 1 } : St).emit
    (.arm (newHandle s d ev))

/-- `timer.cancel()` -/
def cancelHandle (s : St) (id : Nat) : St :=
  ({ s with timers := (s.timers.map
      (fun (h : Handle) => if h.id == id then { h with cancelled := true } else h)) } : St).emit (.cancel id)

/-- the circumstances a timer method may run in: inside a state transition (`self.event` is then the
    recursive call), whether the `stop()` / `start()` of the base classes raises, and the offset of the
    wall clock from the loop clock -/
structure TEnv where
  inside : Bool
  superFails : Bool := false
  wall : Nat := 0
  /-- what `calc_output()` does when `_restore_state` calls it -/
  calcMode : CalcMode := .normal

/-- the primitives of the timer methods = the model's event loop and block -/
def tprims (c : Cfg) (env : TEnv) :
    TimerPrims TSt String TEvent Dur Nat Nat (Option Val) Val (String × Option Nat × Option Val) ErrKind where
  exc := excOf
  getState := fun t => t.st.state
  setState := fun q t => t.map (·.enter q)
  getActiveTimer := fun t => t.st.active
  setActiveTimer := fun o t => t.map fun s => { s with active := o }
  timersEnabled := fun t => !t.st.stopped
  setTimersEnabled := fun b t => t.map fun s => { s with stopped := !b }
  setPersistent := fun b t => t.map fun s => { s with persistOn := b }
  durIsNone := fun d => decide (d = Dur.none)
  durEqInf := fun d => decide (d = Dur.inf)
  durationOf := fun _ oq => match oq with
    | some q => clamp (c.instDur q)
    | none => Dur.none
  timePeriod := fun d t => match d with
    | .bad => (t, .error .valueError)
    | d => (t, .ok (clamp d))
  cmpZero := fun op d t => match d with
    | .us n => (t, .ok (cmpInt op n))
    | .inf => (t, .ok (match op with | .gt => true | .ge => true | _ => false))
    | .bad => (t, .error .valueError)
    | .none => (t, .error .fuel)
  callLater := fun d ev t => match d with
    | .us n => (t.map (armHandle · n.toNat ev), .ok t.st.nextId)
    | _ => (t, .error .fuel)
  cancelled := fun t id => !handleLive t.st id
  cancel := fun id t => (t.map (cancelHandle · id), .ok ())
  timerWhen := fun t id => match liveHandle t.st id with
    | some h => h.when
    | none => 0
  loopToUnix := fun w => w + env.wall
  event := fun ev => if env.inside then lift (fun s => (eventRec c s ev {}).1) else lift (fun s => (deliver c s ev {}).1)
  superStop := fun t => (t, if env.superFails then .error .fuel else .ok ())
  superStart := fun t => (t, if env.superFails then .error .fuel else .ok ())
  getSdata := fun t => t.st.input
  setSdata := fun sd t => t.map (·.setInput sd)
  istateLen2 := fun _ => false
  istatePad := fun x => x
  istateUnpack := fun x => some x
  checkState := fun q t => (t, if c.tbl.states.contains q then .ok () else .error .valueError)
  remaining := fun w t => (t, .ok (.us ((w : Int) - ((t.st.now + env.wall : Nat) : Int))))
  timedEvent := fun _ q => (c.tbl.timedOf q).map (·.1)
  calcOutput := fun t => match calcFor c t.st env.calcMode with
    | none => (t, .error .keyError)
    | some v => (t, .ok v)
  isUndef := fun v => v.isUndef
  setOutput := fun v => lift (setOut · v)

/-! the primitives one by one (so that `tprims c inside` itself is never unfolded) -/
theorem tprims_exc (c : Cfg) (env : TEnv) : (tprims c env).exc = (excOf) := rfl
theorem tprims_getState (c : Cfg) (env : TEnv) : (tprims c env).getState = (fun t => t.st.state) := rfl
theorem tprims_setState (c : Cfg) (env : TEnv) : (tprims c env).setState = (fun q t => t.map (·.enter q)) := rfl
theorem tprims_getActiveTimer (c : Cfg) (env : TEnv) : (tprims c env).getActiveTimer = (fun t => t.st.active) := rfl
theorem tprims_setActiveTimer (c : Cfg) (env : TEnv) : (tprims c env).setActiveTimer = (fun o t => t.map fun s => { s with active := o }) := rfl
theorem tprims_timersEnabled (c : Cfg) (env : TEnv) : (tprims c env).timersEnabled = (fun t => !t.st.stopped) := rfl
theorem tprims_setTimersEnabled (c : Cfg) (env : TEnv) : (tprims c env).setTimersEnabled = (fun b t => t.map fun s => { s with stopped := !b }) := rfl
theorem tprims_setPersistent (c : Cfg) (env : TEnv) : (tprims c env).setPersistent = (fun b t => t.map fun s => { s with persistOn := b }) := rfl
theorem tprims_durIsNone (c : Cfg) (env : TEnv) : (tprims c env).durIsNone = (fun d => decide (d = Dur.none)) := rfl
theorem tprims_durEqInf (c : Cfg) (env : TEnv) : (tprims c env).durEqInf = (fun d => decide (d = Dur.inf)) := rfl
theorem tprims_durationOf (c : Cfg) (env : TEnv) : (tprims c env).durationOf = (fun _ oq => match oq with
    | some q => clamp (c.instDur q)
    | none => Dur.none) := rfl
theorem tprims_timePeriod (c : Cfg) (env : TEnv) : (tprims c env).timePeriod = (fun d t => match d with
    | .bad => (t, .error .valueError)
    | d => (t, .ok (clamp d))) := rfl
theorem tprims_cmpZero (c : Cfg) (env : TEnv) : (tprims c env).cmpZero = (fun op d t => match d with
    | .us n => (t, .ok (cmpInt op n))
    | .inf => (t, .ok (match op with | .gt => true | .ge => true | _ => false))
    | .bad => (t, .error .valueError)
    | .none => (t, .error .fuel)) := rfl
theorem tprims_callLater (c : Cfg) (env : TEnv) : (tprims c env).callLater = (fun d ev t => match d with
    | .us n => (t.map (armHandle · n.toNat ev), .ok t.st.nextId)
    | _ => (t, .error .fuel)) := rfl
theorem tprims_cancelled (c : Cfg) (env : TEnv) : (tprims c env).cancelled = (fun t id => !handleLive t.st id) := rfl
theorem tprims_cancel (c : Cfg) (env : TEnv) : (tprims c env).cancel = (fun id t => (t.map (cancelHandle · id), .ok ())) := rfl
theorem tprims_timerWhen (c : Cfg) (env : TEnv) : (tprims c env).timerWhen = (fun t id => match liveHandle t.st id with
    | some h => h.when
    | none => 0) := rfl
theorem tprims_loopToUnix (c : Cfg) (env : TEnv) : (tprims c env).loopToUnix = (fun w => w + env.wall) := rfl
theorem tprims_event (c : Cfg) (env : TEnv) : (tprims c env).event = (fun ev => if env.inside then lift (fun s => (eventRec c s ev {}).1) else lift (fun s => (deliver c s ev {}).1)) := rfl
theorem tprims_superStop (c : Cfg) (env : TEnv) : (tprims c env).superStop = (fun t => (t, if env.superFails then .error .fuel else .ok ())) := rfl
theorem tprims_superStart (c : Cfg) (env : TEnv) : (tprims c env).superStart = (fun t => (t, if env.superFails then .error .fuel else .ok ())) := rfl
theorem tprims_getSdata (c : Cfg) (env : TEnv) : (tprims c env).getSdata = (fun t => t.st.input) := rfl
theorem tprims_setSdata (c : Cfg) (env : TEnv) : (tprims c env).setSdata = (fun sd t => t.map (·.setInput sd)) := rfl
theorem tprims_istateLen2 (c : Cfg) (env : TEnv) : (tprims c env).istateLen2 = (fun _ => false) := rfl
theorem tprims_istatePad (c : Cfg) (env : TEnv) : (tprims c env).istatePad = (fun x => x) := rfl
theorem tprims_istateUnpack (c : Cfg) (env : TEnv) : (tprims c env).istateUnpack = (fun x => some x) := rfl
theorem tprims_checkState (c : Cfg) (env : TEnv) : (tprims c env).checkState = (fun q t => (t, if c.tbl.states.contains q then .ok () else .error .valueError)) := rfl
theorem tprims_remaining (c : Cfg) (env : TEnv) : (tprims c env).remaining = (fun w t => (t, .ok (.us ((w : Int) - ((t.st.now + env.wall : Nat) : Int))))) := rfl
theorem tprims_timedEvent (c : Cfg) (env : TEnv) : (tprims c env).timedEvent = (fun _ q => (c.tbl.timedOf q).map (·.1)) := rfl
theorem tprims_calcOutput (c : Cfg) (env : TEnv) : (tprims c env).calcOutput = (fun t => match calcFor c t.st env.calcMode with
    | none => (t, .error .keyError)
    | some v => (t, .ok v)) := rfl
theorem tprims_isUndef (c : Cfg) (env : TEnv) : (tprims c env).isUndef = (fun v => v.isUndef) := rfl
theorem tprims_setOutput (c : Cfg) (env : TEnv) : (tprims c env).setOutput = (fun v => lift (setOut · v)) := rfl

/-- symbolic execution of a translated timer method on the model primitives -/
macro "ttsimp" "[" ts:Lean.Parser.Tactic.simpLemma,* "]" : tactic =>
  `(tactic| simp [Gen.TrM.seq, Gen.TrM.branch, Gen.TrM.call, Gen.TrM.assign, Gen.TrM.skip, Gen.TrM.matchOpt,
      Gen.TrM.upd, Gen.TrM.ret, Gen.TrM.raise, Gen.TrT.bindv, Gen.TrT.runProc, lift, TSt.map,
      tprims_exc, tprims_getState, tprims_setState, tprims_getActiveTimer, tprims_setActiveTimer, tprims_timersEnabled, tprims_setTimersEnabled, tprims_setPersistent, tprims_durIsNone, tprims_durEqInf, tprims_durationOf, tprims_timePeriod, tprims_cmpZero, tprims_callLater, tprims_cancelled, tprims_cancel, tprims_timerWhen, tprims_loopToUnix, tprims_event, tprims_superStop, tprims_superStart, tprims_getSdata, tprims_setSdata, tprims_istateLen2, tprims_istatePad, tprims_istateUnpack, tprims_checkState, tprims_remaining, tprims_timedEvent, tprims_calcOutput, tprims_isUndef, tprims_setOutput,
      setCtx_proj, emit_proj, enter_proj, setInput_proj, setNextEv_proj, excOf, $ts,*])

theorem map_cancel_of_not_live (s : St) (id : Nat) (h : handleLive s id = false) :
    s.timers.map (fun (x : Handle) => if x.id == id then { x with cancelled := true } else x) = s.timers := by
  unfold handleLive liveHandle at h
  have hn : s.timers.find? (fun h => h.id == id && !h.cancelled) = none := by
    cases hf : s.timers.find? (fun h => h.id == id && !h.cancelled) with
    | none => rfl
    | some x => rw [hf] at h; simp at h
  rw [List.find?_eq_none] at hn
  conv => rhs; rw [← List.map_id s.timers]
  apply List.map_congr_left
  intro x hx
  have := hn x hx
  by_cases hid : x.id = id
  · simp only [hid, beq_self_eq_true, ↓reduceIte, id_eq]
    have hc : x.cancelled = true := by simpa [hid] using this
    cases x; simp_all
  · simp [hid]

/-- the convention of the tie at a method boundary: an exception leaving the method marks the simulation
    as failed (`SBlock.event` aborts the simulation when a handler raises) -/
def failOnError {α : Type} (r : TSt × Except ErrKind α) : TSt × Except ErrKind α :=
  match r.2 with
  | .error k => (r.1.map (·.fail k), r.2)
  | .ok _ => r

/-- what the event loop does when a handle is due: the clock is at `when`, the handle leaves the heap -/
def loopPop (s : St) (h : Handle) : St := { popTimer s h with active := s.active }

/-! ### `FSM.__init__`: the instance table of durations -/

/-- the dictionary `_duration` -/
abbrev DurTbl := String → Option Dur

/-- `key in dict` -/
def tblHas (tbl : DurTbl) (q : String) : Bool := (tbl q).isSome

/-- `dict[key] = value` -/
def tblSet (tbl : DurTbl) (q : String) (v : Dur) : DurTbl := fun k => if k = q then some v else tbl k

/-- `utils.time_period` on a duration value (tied to the source in C19) -/
def timePeriodD (d : Dur) : Except ErrKind Dur :=
  match d with
  | .bad => .error .valueError
  | d => .ok (clamp d)

/-- `_ct_default_duration`: the class defaults went through `time_period` when the class was built -/
def classDurations (c : Cfg) : DurTbl := fun q => (c.tbl.timedOf q).map (fun x => clamp x.2)

/-- what the instance table must be according to the model: `Cfg.instDur`, converted -/
def instTable (c : Cfg) : DurTbl := fun q => if (c.tbl.timedOf q).isSome then some (clamp (c.instDur q)) else none

theorem lookup_none_of_not_key (q : String) : ∀ (l : List (String × Dur)), q ∉ l.map (·.1) → l.lookup q = none := by
  intro l
  induction l with
  | nil => intro _; rfl
  | cons p tl ih =>
    intro h
    obtain ⟨a, b⟩ := p
    simp only [List.map_cons, List.mem_cons, not_or] at h
    have : (q == a) = false := by simpa using h.1
    simp only [List.lookup, this]
    exact ih h.2

/-- what one round of the loop over the `t_STATE` arguments must do to the table -/
def StepSpec (F : DurTbl → String × Dur → Except ErrKind DurTbl) : Prop :=
  ∀ (T0 : DurTbl) (q0 : String) (d0 : Dur), d0 ≠ Dur.bad → (T0 q0).isSome →
    F T0 (q0, d0) = .ok (fun k => if k = q0 then (if d0 = Dur.none then T0 q0 else some (clamp d0)) else T0 k)

/-- the table after the loop -/
def tableAfter (l : List (String × Dur)) (T0 : DurTbl) : DurTbl := fun k =>
  match l.lookup k with
  | some Dur.none => T0 k
  | some d => if (T0 k).isSome then some (clamp d) else none
  | none => T0 k

/-- the loop of `__init__` over the `t_STATE` arguments -/
theorem initDuration_fold (F : DurTbl → String × Dur → Except ErrKind DurTbl) (hF : StepSpec F) :
    ∀ (l : List (String × Dur)) (T0 : DurTbl),
    (l.map (·.1)).Nodup → (∀ p ∈ l, p.2 ≠ Dur.bad ∧ (T0 p.1).isSome) →
    l.foldlM (m := Except ErrKind) F T0 = .ok (tableAfter l T0) := by
  intro l
  induction l with
  | nil => intro T0 _ _; rfl
  | cons p tl ih =>
    intro T0 hnd hall
    obtain ⟨q0, d0⟩ := p
    have h0 := hall (q0, d0) (by simp)
    simp only at h0
    have hnd' : (tl.map (·.1)).Nodup := (List.nodup_cons.mp hnd).2
    have hq0 : q0 ∉ tl.map (·.1) := (List.nodup_cons.mp hnd).1
    have hlk : tl.lookup q0 = none := lookup_none_of_not_key q0 tl hq0
    let T1 : DurTbl := fun k => if k = q0 then (if d0 = Dur.none then T0 q0 else some (clamp d0)) else T0 k
    have hT1 : ∀ k, (T0 k).isSome → (T1 k).isSome := by
      intro k hk
      show (if k = q0 then (if d0 = Dur.none then T0 q0 else some (clamp d0)) else T0 k).isSome
      split
      · next h => subst h; split <;> simp [hk]
      · exact hk
    have hT := ih T1 hnd' (fun p hp => ⟨(hall p (List.mem_cons_of_mem _ hp)).1,
      hT1 _ (hall p (List.mem_cons_of_mem _ hp)).2⟩)
    rw [List.foldlM_cons, hF T0 q0 d0 h0.1 h0.2]
    show List.foldlM F T1 tl = _
    rw [hT]
    congr 1
    funext k
    unfold tableAfter
    by_cases hk : k = q0
    · subst hk
      have : (k == k) = true := by simp
      simp only [hlk, List.lookup, this]
      show (if k = k then (if d0 = Dur.none then T0 k else some (clamp d0)) else T0 k) = _
      cases d0 <;> simp [h0.2]
    · have hb : (k == q0) = false := by simpa using hk
      simp only [List.lookup, hb]
      have e : T1 k = T0 k := by show (if k = q0 then _ else T0 k) = T0 k; simp [hk]
      rw [e]

end Edzed.TrTie
