/-
Helper lemmas for C07 (EdzedProps/C07.lean): time-of-day membership is piecewise constant,
order lemmas for date-time stamps, boundary-free intervals, the invariant of accepted traces.
Core Lean only.
-/
import EdzedModel.Cron

namespace Edzed.Cron

theorem any_congr_mem {α} (l : List α) (f g : α → Bool) (h : ∀ x ∈ l, f x = g x) :
    l.any f = l.any g := by
  induction l with
  | nil => rfl
  | cons x xs ih =>
    simp only [List.any_cons]
    rw [h x (by simp), ih (fun y hy => h y (by simp [hy]))]

/-! ## arithmetic of (day, time of day) -/

theorem dayOf_mono {a b : Nat} (h : a ≤ b) : dayOf a ≤ dayOf b := by
  unfold dayOf usPerDay; omega

theorem todOf_lt (t : Nat) : todOf t < usPerDay := by
  unfold todOf usPerDay; omega

theorem todOf_mono_same_day {a b : Nat} (h : a ≤ b) (hd : dayOf a = dayOf b) : todOf a ≤ todOf b := by
  unfold dayOf todOf usPerDay at *; omega

theorem lt_same_day {a b : Nat} (h : a < b) (hd : dayOf a = dayOf b) : todOf a < todOf b := by
  unfold dayOf todOf usPerDay at *; omega

/-! ## time of day -/

/-- membership in a (possibly wrapping) half-open range cannot change between two times of one
    day unless an end point lies in `(t1, t2]` -/
theorem inOpen_const (lo hi t1 t2 : Nat) (h12 : t1 ≤ t2)
    (hlo : ¬ (t1 < lo ∧ lo ≤ t2)) (hhi : ¬ (t1 < hi ∧ hi ≤ t2)) :
    inOpen lo t1 hi = inOpen lo t2 hi := by
  unfold inOpen
  by_cases h : lo < hi <;> simp only [h, ↓reduceIte]
  · by_cases a : lo ≤ t1 <;> by_cases b : t1 < hi <;> by_cases c : lo ≤ t2 <;> by_cases d : t2 < hi <;>
      simp [a, b, c, d] <;> omega
  · by_cases a : lo ≤ t1 <;> by_cases b : t1 < hi <;> by_cases c : lo ≤ t2 <;> by_cases d : t2 < hi <;>
      simp [a, b, c, d] <;> omega

theorem timesContain_const (iv : List (Nat × Nat)) (t1 t2 : Nat) (h12 : t1 ≤ t2)
    (hb : ∀ r ∈ iv, ¬ (t1 < r.1 ∧ r.1 ≤ t2) ∧ ¬ (t1 < r.2 ∧ r.2 ≤ t2)) :
    timesContain iv t1 = timesContain iv t2 := by
  induction iv with
  | nil => rfl
  | cons r rs ih =>
    have h1 := hb r (by simp)
    have := ih (fun r' hr' => hb r' (by simp [hr']))
    simp only [timesContain, List.any_cons] at this ⊢
    rw [inOpen_const r.1 r.2 t1 t2 h12 h1.1 h1.2, this]

/-- cyclic characterisation of `_cmp_open` (all values are µs of day, `D` = length of the day) -/
theorem inOpen_cyclic (D lo x hi : Nat) (hlo : lo < D) (hx : x < D) (hhi : hi < D) :
    inOpen lo x hi = true ↔ (lo = hi ∨ (x + D - lo) % D < (hi + D - lo) % D) := by
  unfold inOpen
  by_cases h : lo < hi
  · simp only [h, ↓reduceIte, Bool.and_eq_true, decide_eq_true_eq]
    have e2 : (hi + D - lo) % D = hi - lo := by
      have : hi + D - lo = (hi - lo) + D := by omega
      rw [this, Nat.add_mod_right, Nat.mod_eq_of_lt (by omega)]
    by_cases hxl : lo ≤ x
    · have e1 : (x + D - lo) % D = x - lo := by
        have : x + D - lo = (x - lo) + D := by omega
        rw [this, Nat.add_mod_right, Nat.mod_eq_of_lt (by omega)]
      rw [e1, e2]; constructor
      · intro ⟨_, h2⟩; right; omega
      · intro h'; rcases h' with h' | h'
        · omega
        · exact ⟨hxl, by omega⟩
    · have e1 : (x + D - lo) % D = x + D - lo := Nat.mod_eq_of_lt (by omega)
      rw [e1, e2]; constructor
      · intro ⟨h1, _⟩; omega
      · intro h'; rcases h' with h' | h' <;> omega
  · simp only [h, ↓reduceIte, Bool.or_eq_true, decide_eq_true_eq]
    by_cases heq : lo = hi
    · subst heq; constructor
      · intro _; left; rfl
      · intro _; omega
    · have hlt : hi < lo := by omega
      have e2 : (hi + D - lo) % D = hi + D - lo := Nat.mod_eq_of_lt (by omega)
      by_cases hxl : lo ≤ x
      · have e1 : (x + D - lo) % D = x - lo := by
          have : x + D - lo = (x - lo) + D := by omega
          rw [this, Nat.add_mod_right, Nat.mod_eq_of_lt (by omega)]
        rw [e1, e2]; constructor
        · intro _; right; omega
        · intro _; left; exact hxl
      · have e1 : (x + D - lo) % D = x + D - lo := Nat.mod_eq_of_lt (by omega)
        rw [e1, e2]; constructor
        · intro h'; rcases h' with h' | h'
          · omega
          · right; omega
        · intro h'; rcases h' with h' | h'
          · omega
          · right; omega

/-! ## the boundaries of a TimeDate -/

theorem zero_mem_boundaries (c : TDCfg) : 0 ∈ boundaries c := by simp [boundaries]

theorem endpoints_mem_boundaries (c : TDCfg) (iv : List (Nat × Nat)) (h : c.times = some iv)
    (r : Nat × Nat) (hr : r ∈ iv) : r.1 ∈ boundaries c ∧ r.2 ∈ boundaries c := by
  simp only [boundaries, h, List.mem_cons, List.mem_flatMap]
  constructor
  · right; exact ⟨r, hr, by simp⟩
  · right; exact ⟨r, hr, by simp⟩

/-- for `a < b`: no boundary of a TimeDate in `(a, b]` ⇔ same day and no boundary time of day between -/
theorem td_boundaryIn_false (cal : Calendar) (c : TDCfg) (a b : Nat) (hab : a < b) :
    boundaryIn cal (.timedate c) a b = false ↔
      (dayOf a = dayOf b ∧ ∀ e ∈ boundaries c, ¬ (todOf a < e ∧ e ≤ todOf b)) := by
  have hd := dayOf_mono (Nat.le_of_lt hab)
  unfold boundaryIn
  have hba : ¬ b ≤ a := by omega
  simp only [hba, ↓reduceIte]
  by_cases hlt : dayOf a < dayOf b
  · simp only [hlt, ↓reduceIte]
    constructor
    · intro h; cases h
    · intro ⟨h, _⟩; omega
  · simp only [hlt, ↓reduceIte, List.any_eq_false, Bool.and_eq_true, decide_eq_true_eq]
    constructor
    · intro h; exact ⟨by omega, h⟩
    · intro ⟨_, h⟩; exact h

/-! ## date-time stamps -/

theorem Stamp.le_trans {a b c : Stamp} (h1 : a.Le b) (h2 : b.Le c) : a.Le c := by
  unfold Stamp.Le at *; omega

theorem Stamp.lt_of_le_of_lt {a b c : Stamp} (h1 : a.Le b) (h2 : b.Lt c) : a.Lt c := by
  unfold Stamp.Le Stamp.Lt at *; omega

theorem Stamp.lt_of_lt_of_le {a b c : Stamp} (h1 : a.Lt b) (h2 : b.Le c) : a.Lt c := by
  unfold Stamp.Le Stamp.Lt at *; omega

theorem Stamp.lt_or_le (a b : Stamp) : a.Lt b ∨ b.Le a := by
  unfold Stamp.Le Stamp.Lt; omega

theorem Stamp.le_of_lt {a b : Stamp} (h : a.Lt b) : a.Le b := by
  unfold Stamp.Le Stamp.Lt at *; omega

/-- the calendar maps later days to later dates (the only property of a calendar the theorems use) -/
def CalMono (cal : Calendar) : Prop :=
  ∀ d1 d2, d1 < d2 →
    (cal d1).year < (cal d2).year ∨ ((cal d1).year = (cal d2).year ∧
      ((cal d1).month < (cal d2).month ∨ ((cal d1).month = (cal d2).month ∧ (cal d1).day < (cal d2).day)))

theorem stampOf_mono {cal : Calendar} (hcal : CalMono cal) {a b : Nat} (hab : a ≤ b) :
    (stampOf cal a).Le (stampOf cal b) := by
  have hd := dayOf_mono hab
  by_cases h : dayOf a = dayOf b
  · have ht := todOf_mono_same_day hab h
    simp only [Stamp.Le, stampOf, h, Nat.lt_irrefl, false_or, true_and]; exact ht
  · have := hcal (dayOf a) (dayOf b) (by omega)
    simp only [Stamp.Le, stampOf]; omega

theorem stampOf_strict {cal : Calendar} (hcal : CalMono cal) {a b : Nat} (hab : a < b) :
    (stampOf cal a).Lt (stampOf cal b) := by
  have hd := dayOf_mono (Nat.le_of_lt hab)
  by_cases h : dayOf a = dayOf b
  · have ht := lt_same_day hab h
    simp only [Stamp.Lt, stampOf, h, Nat.lt_irrefl, false_or, true_and]; exact ht
  · have := hcal (dayOf a) (dayOf b) (by omega)
    simp only [Stamp.Lt, stampOf]; omega

theorem inSpan_const (lo hi sa sb : Stamp) (hab : sa.Le sb)
    (hlo : ¬ (sa.Lt lo ∧ lo.Le sb)) (hhi : ¬ (sa.Lt hi ∧ hi.Le sb)) :
    inSpan lo sa hi = inSpan lo sb hi := by
  have e1 : lo.Le sa ↔ lo.Le sb := by
    constructor
    · intro h; exact Stamp.le_trans h hab
    · intro h
      rcases Stamp.lt_or_le sa lo with h' | h'
      · exact absurd ⟨h', h⟩ hlo
      · exact h'
  have e2 : sa.Lt hi ↔ sb.Lt hi := by
    constructor
    · intro h
      rcases Stamp.lt_or_le sb hi with h' | h'
      · exact h'
      · exact absurd ⟨h, h'⟩ hhi
    · intro h; exact Stamp.lt_of_le_of_lt hab h
  unfold inSpan
  rw [decide_eq_decide.mpr e1, decide_eq_decide.mpr e2]

theorem mem_endpoints (sp : Span) (r : Stamp × Stamp) (hr : r ∈ sp) :
    r.1 ∈ endpoints sp ∧ r.2 ∈ endpoints sp := by
  simp only [endpoints, List.mem_flatMap]
  exact ⟨⟨r, hr, by simp⟩, ⟨r, hr, by simp⟩⟩

theorem ts_boundaryIn_false (cal : Calendar) (sp : Span) (a b : Nat) (hab : a < b) :
    boundaryIn cal (.timespan sp) a b = false ↔
      ∀ e ∈ endpoints sp, ¬ ((stampOf cal a).Lt e ∧ e.Le (stampOf cal b)) := by
  unfold boundaryIn
  have hba : ¬ b ≤ a := by omega
  simp only [hba, ↓reduceIte, List.any_eq_false, Bool.and_eq_true, decide_eq_true_eq]

/-! ## the predicate is constant on boundary-free intervals -/

theorem timedatePred_const (cal : Calendar) (c : TDCfg) (a b : Nat) (hab : a ≤ b)
    (h : boundaryIn cal (.timedate c) a b = false) :
    timedatePred cal c a = timedatePred cal c b := by
  by_cases hlt : a < b
  · obtain ⟨hd, hb⟩ := (td_boundaryIn_false cal c a b hlt).mp h
    have ht := todOf_mono_same_day hab hd
    unfold timedatePred
    rw [hd]
    cases htimes : c.times with
    | none => rfl
    | some iv =>
      have : timesContain iv (todOf a) = timesContain iv (todOf b) := by
        apply timesContain_const iv _ _ ht
        intro r hr
        obtain ⟨m1, m2⟩ := endpoints_mem_boundaries c iv htimes r hr
        exact ⟨hb _ m1, hb _ m2⟩
      simp only [this]
  · have : a = b := by omega
    rw [this]

theorem timespanPred_const (cal : Calendar) (hcal : CalMono cal) (sp : Span) (a b : Nat) (hab : a ≤ b)
    (h : boundaryIn cal (.timespan sp) a b = false) :
    timespanPred cal sp a = timespanPred cal sp b := by
  by_cases hlt : a < b
  · have hb := (ts_boundaryIn_false cal sp a b hlt).mp h
    have hs := stampOf_mono hcal hab
    unfold timespanPred
    have : ∀ r ∈ sp, inSpan r.1 (stampOf cal a) r.2 = inSpan r.1 (stampOf cal b) r.2 := by
      intro r hr
      obtain ⟨m1, m2⟩ := mem_endpoints sp r hr
      exact inSpan_const _ _ _ _ hs (hb _ m1) (hb _ m2)
    exact any_congr_mem sp _ _ this
  · have : a = b := by omega
    rw [this]

theorem pred_const (cal : Calendar) (hcal : CalMono cal) (cfg : Cfg) (a b : Nat) (hab : a ≤ b)
    (h : boundaryIn cal cfg a b = false) : pred cal cfg a = pred cal cfg b := by
  cases cfg with
  | timedate c => exact timedatePred_const cal c a b hab h
  | timespan sp => exact timespanPred_const cal hcal sp a b hab h

/-- a boundary-free interval has only boundary-free sub-intervals -/
theorem boundaryIn_mono (cal : Calendar) (hcal : CalMono cal) (cfg : Cfg) (a a' b' b : Nat)
    (h1 : a ≤ a') (h2 : b' ≤ b) (h : boundaryIn cal cfg a b = false) :
    boundaryIn cal cfg a' b' = false := by
  by_cases hlt' : a' < b'
  · have hlt : a < b := by omega
    cases cfg with
    | timedate c =>
      obtain ⟨hd, hb⟩ := (td_boundaryIn_false cal c a b hlt).mp h
      have d1 := dayOf_mono h1
      have d2 := dayOf_mono (Nat.le_of_lt hlt')
      have d3 := dayOf_mono h2
      have hda : dayOf a = dayOf a' := by omega
      have hdb : dayOf b' = dayOf b := by omega
      have t1 := todOf_mono_same_day h1 hda
      have t2 := todOf_mono_same_day h2 hdb
      apply (td_boundaryIn_false cal c a' b' hlt').mpr
      refine ⟨by omega, ?_⟩
      intro e he hh
      exact hb e he ⟨by omega, by omega⟩
    | timespan sp =>
      have hb := (ts_boundaryIn_false cal sp a b hlt).mp h
      apply (ts_boundaryIn_false cal sp a' b' hlt').mpr
      intro e he hh
      have s1 := stampOf_mono hcal h1
      have s2 := stampOf_mono hcal h2
      exact hb e he ⟨Stamp.lt_of_le_of_lt s1 hh.1, Stamp.le_trans hh.2 s2⟩
  · unfold boundaryIn
    have : b' ≤ a' := by omega
    simp [this]

/-! ## sorted duplicate-free lists -/

theorem mem_insertSorted (x y : Nat) (l : List Nat) : y ∈ insertSorted x l ↔ y = x ∨ y ∈ l := by
  induction l with
  | nil => simp [insertSorted]
  | cons z zs ih =>
    unfold insertSorted
    by_cases h1 : x < z
    · simp [h1]
    · by_cases h2 : x = z
      · subst h2; simp [h1]
      · simp only [h1, h2, ↓reduceIte, List.mem_cons, ih]
        constructor
        · rintro (h | h | h)
          · right; left; exact h
          · left; exact h
          · right; right; exact h
        · rintro (h | h | h)
          · right; left; exact h
          · left; exact h
          · right; right; exact h

theorem mem_sortDedup (y : Nat) (l : List Nat) : y ∈ sortDedup l ↔ y ∈ l := by
  induction l with
  | nil => simp [sortDedup]
  | cons z zs ih =>
    have : sortDedup (z :: zs) = insertSorted z (sortDedup zs) := rfl
    rw [this, mem_insertSorted, ih]; simp

/-! ## runs of the acceptance automaton -/

theorem run_append (p : Params) (pre : List Rec) (r : Rec) (post : List Rec) (st s : State)
    (h : run p st (pre ++ r :: post) = some s) :
    run p st pre = some (pre.foldl (apply p) st) ∧ verdict p (pre.foldl (apply p) st) r = .ok := by
  induction pre generalizing st with
  | nil =>
    simp only [List.nil_append, run] at h
    simp only [run, List.foldl_nil, true_and]
    by_cases hv : verdict p st r = .ok
    · exact hv
    · simp [hv] at h
  | cons x xs ih =>
    simp only [List.cons_append, run] at h
    by_cases hv : verdict p st x = .ok
    · simp only [hv, ↓reduceIte] at h
      have := ih (apply p st x) h
      simp only [run, hv, ↓reduceIte, List.foldl_cons]
      exact this
    · simp [hv] at h

/-- what an accepted prefix guarantees about every block -/
structure Inv (p : Params) (st : State) : Prop where
  out_ok : ∀ k b, st.blocks k = some b → b.out = pred p.cal b.cfg b.last
  last_le : ∀ k b, st.blocks k = some b → b.last ≤ st.now
  dl_le : ∀ k b dl, st.blocks k = some b → b.stale = some dl → dl ≤ st.graceEnd
  grace_le : st.graceEnd ≤ st.now + p.bound

theorem inv_init (p : Params) : Inv p {} := by
  refine ⟨?_, ?_, ?_, Nat.zero_le _⟩
  · intro k b h; cases h
  · intro k b h; cases h
  · intro k b dl h; cases h

theorem inv_apply (p : Params) (st : State) (r : Rec) (hi : Inv p st) (hv : verdict p st r = .ok) :
    Inv p (apply p st r) := by
  cases r with
  | config blk cfg read out =>
    simp only [verdict] at hv
    by_cases h1 : read < st.now
    · simp [h1] at hv
    · by_cases h2 : out ≠ pred p.cal cfg read
      · simp [h1, h2] at hv
      · have h2' : out = pred p.cal cfg read := by simpa using h2
        refine ⟨?_, ?_, ?_, ?_⟩
        · intro k b hb
          simp only [apply, update] at hb
          by_cases hk : k = blk
          · simp only [hk, ↓reduceIte, Option.some.injEq] at hb
            subst hb; exact h2'
          · simp only [hk, ↓reduceIte] at hb
            exact hi.out_ok k b hb
        · intro k b hb
          simp only [apply, update] at hb ⊢
          by_cases hk : k = blk
          · simp only [hk, ↓reduceIte, Option.some.injEq] at hb
            subst hb; exact Nat.le_refl _
          · simp only [hk, ↓reduceIte] at hb
            have := hi.last_le k b hb
            omega
        · intro k b dl hb hs
          simp only [apply, update] at hb ⊢
          by_cases hk : k = blk
          · simp only [hk, ↓reduceIte, Option.some.injEq] at hb
            subst hb
            simp only at hs
            cases hold : st.blocks blk with
            | none => simp [hold] at hs
            | some b0 =>
              simp only [hold] at hs
              exact hi.dl_le blk b0 dl hold hs
          · simp only [hk, ↓reduceIte] at hb
            exact hi.dl_le k b dl hb hs
        · have := hi.grace_le
          simp only [apply]; omega
  | recalc blk read out =>
    simp only [verdict] at hv
    cases hold : st.blocks blk with
    | none => simp [hold] at hv
    | some b0 =>
      simp only [hold] at hv
      by_cases h2 : out ≠ pred p.cal b0.cfg read
      · simp [h2] at hv
      have h2' : out = pred p.cal b0.cfg read := by simpa using h2
      have hb0 := hi.last_le blk b0 hold
      have hg := hi.grace_le
      by_cases h1 : read < b0.last
      · -- an older reading: only the output is rewritten, with the value of the latest reading
        by_cases h3 : out ≠ pred p.cal b0.cfg b0.last
        · simp [h2, h1, h3] at hv
        have h3' : out = pred p.cal b0.cfg b0.last := by simpa using h3
        refine ⟨?_, ?_, ?_, ?_⟩
        · intro k b hb
          simp only [apply, hold, update, recalcBlock, h1, ↓reduceIte] at hb
          by_cases hk : k = blk
          · simp only [hk, ↓reduceIte, Option.some.injEq] at hb
            subst hb; exact h3'
          · simp only [hk, ↓reduceIte] at hb
            exact hi.out_ok k b hb
        · intro k b hb
          simp only [apply, hold, update, recalcBlock, h1, ↓reduceIte] at hb ⊢
          by_cases hk : k = blk
          · simp only [hk, ↓reduceIte, Option.some.injEq] at hb
            subst hb
            by_cases hn : st.now ≤ read
            · simp only [hn, ↓reduceIte]; omega
            · simp only [hn, ↓reduceIte]; exact hb0
          · simp only [hk, ↓reduceIte] at hb
            have := hi.last_le k b hb
            by_cases hn : st.now ≤ read
            · simp only [hn, ↓reduceIte]; omega
            · simp only [hn, ↓reduceIte]; exact this
        · intro k b dl hb hs
          simp only [apply, hold, update, recalcBlock, h1, ↓reduceIte] at hb ⊢
          by_cases hk : k = blk
          · simp only [hk, ↓reduceIte, Option.some.injEq] at hb
            subst hb
            exact hi.dl_le blk b0 dl hold hs
          · simp only [hk, ↓reduceIte] at hb
            exact hi.dl_le k b dl hb hs
        · simp only [apply, hold]
          by_cases hn : st.now ≤ read
          · simp only [hn, ↓reduceIte]; omega
          · simp only [hn, ↓reduceIte]; exact hg
      · refine ⟨?_, ?_, ?_, ?_⟩
        · intro k b hb
          simp only [apply, hold, update, recalcBlock, h1, ↓reduceIte] at hb
          by_cases hk : k = blk
          · simp only [hk, ↓reduceIte, Option.some.injEq] at hb
            subst hb; exact h2'
          · simp only [hk, ↓reduceIte] at hb
            exact hi.out_ok k b hb
        · intro k b hb
          simp only [apply, hold, update, recalcBlock, h1, ↓reduceIte] at hb ⊢
          by_cases hk : k = blk
          · simp only [hk, ↓reduceIte, Option.some.injEq] at hb
            subst hb
            by_cases hn : st.now ≤ read
            · simp only [hn, ↓reduceIte]; exact Nat.le_refl _
            · simp only [hn, ↓reduceIte]; omega
          · simp only [hk, ↓reduceIte] at hb
            have := hi.last_le k b hb
            by_cases hn : st.now ≤ read
            · simp only [hn, ↓reduceIte]; omega
            · simp only [hn, ↓reduceIte]; exact this
        · intro k b dl hb hs
          simp only [apply, hold, update, recalcBlock, h1, ↓reduceIte] at hb ⊢
          by_cases hk : k = blk
          · simp only [hk, ↓reduceIte, Option.some.injEq] at hb
            subst hb
            simp at hs
          · simp only [hk, ↓reduceIte] at hb
            exact hi.dl_le k b dl hb hs
        · simp only [apply, hold]
          by_cases hn : st.now ≤ read
          · simp only [hn, ↓reduceIte]; omega
          · simp only [hn, ↓reduceIte]; exact hg
  | jump t delta =>
    simp only [verdict] at hv
    by_cases h1 : t < st.now
    · simp [h1] at hv
    · refine ⟨?_, ?_, ?_, ?_⟩
      · intro k b hb
        simp only [apply] at hb
        cases hold : st.blocks k with
        | none => simp [hold] at hb
        | some b0 =>
          simp only [hold, Option.map_some, Option.some.injEq] at hb
          subst hb
          exact hi.out_ok k b0 hold
      · intro k b hb
        simp only [apply] at hb ⊢
        cases hold : st.blocks k with
        | none => simp [hold] at hb
        | some b0 =>
          simp only [hold, Option.map_some, Option.some.injEq] at hb
          subst hb
          have := hi.last_le k b0 hold
          simp only [markStale]; omega
      · intro k b dl hb hs
        simp only [apply] at hb ⊢
        cases hold : st.blocks k with
        | none => simp [hold] at hb
        | some b0 =>
          simp only [hold, Option.map_some, Option.some.injEq] at hb
          subst hb
          simp only [markStale, Option.some.injEq] at hs
          cases hst : b0.stale with
          | none => simp only [hst] at hs; omega
          | some d0 =>
            simp only [hst] at hs
            have := hi.dl_le k b0 d0 hold hst
            have := hi.grace_le
            by_cases hd : t ≤ d0
            · simp only [hd, ↓reduceIte] at hs; omega
            · simp only [hd, ↓reduceIte] at hs; omega
      · simp only [apply]; omega
  | probe t blk out =>
    simp only [verdict] at hv
    cases hold : st.blocks blk with
    | none => simp [hold] at hv
    | some b0 =>
      simp only [hold] at hv
      by_cases h1 : t < st.now
      · simp [h1] at hv
      · refine ⟨?_, ?_, ?_, ?_⟩
        · intro k b hb; exact hi.out_ok k b hb
        · intro k b hb
          have := hi.last_le k b hb
          simp only [apply]; omega
        · intro k b dl hb hs; exact hi.dl_le k b dl hb hs
        · have := hi.grace_le
          simp only [apply]; omega
  | late t delta =>
    simp only [verdict] at hv
    by_cases h1 : t < st.now ∨ p.bound < delta + p.lam
    · simp [h1] at hv
    · have hg := hi.grace_le
      refine ⟨?_, ?_, ?_, ?_⟩
      · intro k b hb
        simp only [apply] at hb
        cases hold : st.blocks k with
        | none => simp [hold] at hb
        | some b0 =>
          simp only [hold, Option.map_some, Option.some.injEq] at hb
          subst hb
          exact hi.out_ok k b0 hold
      · intro k b hb
        simp only [apply] at hb ⊢
        cases hold : st.blocks k with
        | none => simp [hold] at hb
        | some b0 =>
          simp only [hold, Option.map_some, Option.some.injEq] at hb
          subst hb
          have := hi.last_le k b0 hold
          simp only [markLate]; omega
      · intro k b dl hb hs
        simp only [apply] at hb ⊢
        cases hold : st.blocks k with
        | none => simp [hold] at hb
        | some b0 =>
          simp only [hold, Option.map_some, Option.some.injEq] at hb
          subst hb
          simp only [markLate, Option.some.injEq] at hs
          cases hst : b0.stale with
          | none =>
            simp only [hst] at hs
            by_cases hgg : st.graceEnd ≤ t + delta + p.lam
            · simp only [hgg, ↓reduceIte]; omega
            · simp only [hgg, ↓reduceIte]; omega
          | some d0 =>
            simp only [hst] at hs
            have := hi.dl_le k b0 d0 hold hst
            by_cases hgg : st.graceEnd ≤ t + delta + p.lam
            · simp only [hgg, ↓reduceIte]
              by_cases hd : t + delta + p.lam ≤ d0
              · simp only [hd, ↓reduceIte] at hs; omega
              · simp only [hd, ↓reduceIte] at hs; omega
            · simp only [hgg, ↓reduceIte]
              by_cases hd : t + delta + p.lam ≤ d0
              · simp only [hd, ↓reduceIte] at hs; omega
              · simp only [hd, ↓reduceIte] at hs; omega
      · simp only [apply]
        by_cases hgg : st.graceEnd ≤ t + delta + p.lam
        · simp only [hgg, ↓reduceIte]; omega
        · simp only [hgg, ↓reduceIte]; omega

theorem inv_run (p : Params) (tr : List Rec) (st s : State) (hi : Inv p st) (h : run p st tr = some s) :
    Inv p s := by
  induction tr generalizing st with
  | nil => simp only [run, Option.some.injEq] at h; subst h; exact hi
  | cons x xs ih =>
    simp only [run] at h
    by_cases hv : verdict p st x = .ok
    · simp only [hv, ↓reduceIte] at h
      exact ih _ (inv_apply p st x hi hv) h
    · simp [hv] at h

/-- everything an accepted trace tells about the moment of one of its probes -/
theorem probe_facts (p : Params) (pre post : List Rec) (t blk : Nat) (out : Bool)
    (hacc : accepts p (pre ++ .probe t blk out :: post) = true) :
    Inv p (track p pre) ∧ verdict p (track p pre) (.probe t blk out) = .ok := by
  unfold accepts at hacc
  cases hr : run p {} (pre ++ .probe t blk out :: post) with
  | none => simp [hr] at hacc
  | some s =>
    obtain ⟨h1, h2⟩ := run_append p pre _ post {} s hr
    exact ⟨inv_run p pre {} _ (inv_init p) h1, h2⟩

/-- records other than clock jumps and injected delays do not move the end of the grace period -/
def Rec.isJump : Rec → Bool
  | .jump _ _ => true
  | .late _ _ => true
  | _ => false

theorem graceEnd_foldl (p : Params) (mid : List Rec) (st : State)
    (h : ∀ r ∈ mid, r.isJump = false) : (mid.foldl (apply p) st).graceEnd = st.graceEnd := by
  induction mid generalizing st with
  | nil => rfl
  | cons x xs ih =>
    simp only [List.foldl_cons]
    rw [ih _ (fun r hr => h r (by simp [hr]))]
    have hx := h x (by simp)
    cases x with
    | jump t d => simp [Rec.isJump] at hx
    | late t d => simp [Rec.isJump] at hx
    | config blk cfg read out => rfl
    | recalc blk read out =>
      simp only [apply]
      cases st.blocks blk <;> rfl
    | probe t blk out => rfl

end Edzed.Cron
