/-
Text-level lemmas for C13: the canonical renderings (`as_string()` notation) parse back to the
endpoint they were rendered from.  Core Lean only.
-/
import EdzedModel.Interval
import EdzedProofs.Interval

namespace Edzed.Interval

/-! ### facts about the ten digit characters (whole table by `decide`) -/

theorem digit_facts : ∀ k, k < 10 →
    isDigit (Char.ofNat (48 + k)) = true ∧ dval (Char.ofNat (48 + k)) = k ∧
    isSpace (Char.ofNat (48 + k)) = false ∧ isAlpha (Char.ofNat (48 + k)) = false ∧
    asciiC (Char.ofNat (48 + k)) = true ∧
    (Char.ofNat (48 + k) == 'T') = false ∧ (Char.ofNat (48 + k) == 'Z') = false ∧
    (Char.ofNat (48 + k) == '+') = false ∧ (Char.ofNat (48 + k) == '-') = false ∧
    (Char.ofNat (48 + k) == ':') = false ∧ (Char.ofNat (48 + k) == '.') = false ∧
    (Char.ofNat (48 + k) == ',') = false := by decide

@[simp] theorem isDigit_digitChar (n : Nat) : isDigit (digitChar n) = true :=
  (digit_facts (n % 10) (Nat.mod_lt _ (by decide))).1
@[simp] theorem dval_digitChar (n : Nat) : dval (digitChar n) = n % 10 :=
  (digit_facts (n % 10) (Nat.mod_lt _ (by decide))).2.1
@[simp] theorem isSpace_digitChar (n : Nat) : isSpace (digitChar n) = false :=
  (digit_facts (n % 10) (Nat.mod_lt _ (by decide))).2.2.1
@[simp] theorem isAlpha_digitChar (n : Nat) : isAlpha (digitChar n) = false :=
  (digit_facts (n % 10) (Nat.mod_lt _ (by decide))).2.2.2.1
@[simp] theorem asciiC_digitChar (n : Nat) : asciiC (digitChar n) = true :=
  (digit_facts (n % 10) (Nat.mod_lt _ (by decide))).2.2.2.2.1
@[simp] theorem digitChar_ne_T (n : Nat) : (digitChar n == 'T') = false :=
  (digit_facts (n % 10) (Nat.mod_lt _ (by decide))).2.2.2.2.2.1
@[simp] theorem digitChar_ne_Z (n : Nat) : (digitChar n == 'Z') = false :=
  (digit_facts (n % 10) (Nat.mod_lt _ (by decide))).2.2.2.2.2.2.1
@[simp] theorem digitChar_ne_plus (n : Nat) : (digitChar n == '+') = false :=
  (digit_facts (n % 10) (Nat.mod_lt _ (by decide))).2.2.2.2.2.2.2.1
@[simp] theorem digitChar_ne_minus (n : Nat) : (digitChar n == '-') = false :=
  (digit_facts (n % 10) (Nat.mod_lt _ (by decide))).2.2.2.2.2.2.2.2.1
@[simp] theorem digitChar_ne_colon (n : Nat) : (digitChar n == ':') = false :=
  (digit_facts (n % 10) (Nat.mod_lt _ (by decide))).2.2.2.2.2.2.2.2.2.1
@[simp] theorem digitChar_ne_dot (n : Nat) : (digitChar n == '.') = false :=
  (digit_facts (n % 10) (Nat.mod_lt _ (by decide))).2.2.2.2.2.2.2.2.2.2.1
@[simp] theorem digitChar_ne_comma (n : Nat) : (digitChar n == ',') = false :=
  (digit_facts (n % 10) (Nat.mod_lt _ (by decide))).2.2.2.2.2.2.2.2.2.2.2

@[simp] theorem asciiC_colon : asciiC ':' = true := by decide
@[simp] theorem asciiC_dot : asciiC '.' = true := by decide
@[simp] theorem asciiC_dash : asciiC '-' = true := by decide
@[simp] theorem asciiC_space : asciiC ' ' = true := by decide

theorem pad2 (n : Nat) : pad 2 n = [digitChar (n / 10), digitChar n] := by simp [pad]

theorem pad4 (n : Nat) : pad 4 n =
    [digitChar (n / 1000), digitChar (n / 100), digitChar (n / 10), digitChar n] := by
  simp [pad, Nat.div_div_eq_div_mul]

theorem pad6 (n : Nat) : pad 6 n =
    [digitChar (n / 100000), digitChar (n / 10000), digitChar (n / 1000), digitChar (n / 100),
     digitChar (n / 10), digitChar n] := by
  simp [pad, Nat.div_div_eq_div_mul]

/-! ### time: `str(dt.time)` parses back (through the ISO branch of `convert_time_str`) -/

theorem parse_render_time_core {e : Ep} (h : validTime e = true) :
    convertTimeStripped (renderTime e) = .ok e := by
  obtain ⟨hh, m, s, us, rfl, h1, h2, h3, h4⟩ := validTime_shape h
  have e1 : 10 * (hh / 10 % 10) + hh % 10 = hh := by omega
  have e2 : 10 * (m / 10 % 10) + m % 10 = m := by omega
  have e3 : 10 * (s / 10 % 10) + s % 10 = s := by omega
  have e4 : 10 * (10 * (10 * (10 * (10 * (us / 100000 % 10) + us / 10000 % 10) + us / 1000 % 10)
      + us / 100 % 10) + us / 10 % 10) + us % 10 = us := by omega
  by_cases hus : us = 0
  · subst hus
    simp [renderTime, pad2, convertTimeStripped, dropT, hasTz, isoHMSF, take2, isoNext, e1, e2, e3, h]
  · simp [renderTime, pad2, pad6, hus, convertTimeStripped, dropT, hasTz,
      isoHMSF, take2, isoNext, isoFrac, fracUs, numOf, e1, e2, e3, e4, h]

theorem strip_renderTime {e : Ep} (h : validTime e = true) : strip (renderTime e) = renderTime e := by
  obtain ⟨hh, m, s, us, rfl, -⟩ := validTime_shape h
  by_cases hus : us = 0
  · simp [renderTime, pad2, strip, hus]
  · simp [renderTime, pad2, pad6, strip, hus]

theorem asciiOk_renderTime {e : Ep} (h : validTime e = true) : asciiOk (renderTime e) = true := by
  obtain ⟨hh, m, s, us, rfl, -⟩ := validTime_shape h
  by_cases hus : us = 0
  · simp [renderTime, pad2, asciiOk, hus]
  · simp [renderTime, pad2, pad6, asciiOk, hus]

/-! ### date-time: `str(dt.datetime)` parses back (no `T`: through the traditional parser, i.e. the
leftmost-search of `_RE_TIME` and `_RE_YMD`) -/

@[simp] theorem isDigit_colon : isDigit ':' = false := by decide
@[simp] theorem isDigit_dash : isDigit '-' = false := by decide
@[simp] theorem isDigit_space : isDigit ' ' = false := by decide
@[simp] theorem isDigit_dot : isDigit '.' = false := by decide
@[simp] theorem isAlpha_dash : isAlpha '-' = false := by decide
@[simp] theorem isSpace_space : isSpace ' ' = true := by decide

@[simp] theorem T_ne_digitChar (n : Nat) : ('T' = digitChar n) = False := by
  have := digitChar_ne_T n
  simp only [beq_eq_false_iff_ne, ne_eq] at this
  simp only [eq_iff_iff, iff_false]
  exact fun h => this h.symm

theorem validDateTime_shape {e : Ep} (h : validDateTime e = true) :
    ∃ y mo d hh mi s us, e = [y, mo, d, hh, mi, s, us] ∧ 1 ≤ y ∧ y ≤ 9999 ∧ 1 ≤ mo ∧ mo ≤ 12 ∧ 1 ≤ d ∧ d ≤ 31 ∧
      validTime [hh, mi, s, us] = true := by
  match e, h with
  | [y, mo, d, hh, mi, s, us], h =>
    simp only [validDateTime, validDateIn, Bool.and_eq_true, decide_eq_true_eq] at h
    have : daysInMonth y mo ≤ 31 := by unfold daysInMonth; split <;> (try split) <;> omega
    exact ⟨y, mo, d, hh, mi, s, us, rfl, by omega, by omega, by omega, by omega, by omega, by omega, h.2⟩

theorem parse_render_datetime_core {e : Ep} (h : validDateTime e = true) :
    convertDateTimeStripped (renderDateTime e) = .ok e := by
  obtain ⟨y, mo, d, hh, mi, s, us, rfl, h1, h2, h3, h4, h5, h6, ht⟩ := validDateTime_shape h
  have hc := parse_render_time_core ht
  obtain ⟨_, _, _, _, hte, t1, t2, t3, t4⟩ := validTime_shape ht
  cases hte
  have ey : 10 * (10 * (10 * (y / 1000 % 10) + y / 100 % 10) + y / 10 % 10) + y % 10 = y := by omega
  have emo : 10 * (mo / 10 % 10) + mo % 10 = mo := by omega
  have ed : 10 * (d / 10 % 10) + d % 10 = d := by omega
  by_cases hus : us = 0
  · subst hus
    simp [renderTime, pad2] at hc
    simp [renderDateTime, renderTime, pad2, pad4, convertDateTimeStripped, convertDateTimeCore, dateTimeRaw,
      search, searchGo, reTime, hourColon, digits12, optSeconds, optFraction, removeMatch, reYMD, take4digits,
      take2digits, convertTimeStr, hc, numOf, strip, ey, emo, ed, checkEp, validEp, h]
  · simp [renderTime, pad2, pad6, hus] at hc
    simp [renderDateTime, renderTime, pad2, pad4, pad6, hus, convertDateTimeStripped, convertDateTimeCore,
      dateTimeRaw, search, searchGo, reTime, hourColon, digits12, optSeconds, optFraction, removeMatch, reYMD,
      take4digits, take2digits, convertTimeStr, hc, numOf, strip, ey, emo, ed, checkEp, validEp, h]

theorem strip_renderDateTime {e : Ep} (h : validDateTime e = true) :
    strip (renderDateTime e) = renderDateTime e := by
  obtain ⟨y, mo, d, hh, mi, s, us, rfl, -⟩ := validDateTime_shape h
  by_cases hus : us = 0
  · simp [renderDateTime, renderTime, pad2, pad4, strip, hus]
  · simp [renderDateTime, renderTime, pad2, pad4, pad6, strip, hus]

theorem asciiOk_renderDateTime {e : Ep} (h : validDateTime e = true) : asciiOk (renderDateTime e) = true := by
  obtain ⟨y, mo, d, hh, mi, s, us, rfl, -⟩ := validDateTime_shape h
  by_cases hus : us = 0
  · simp [renderDateTime, renderTime, pad2, pad4, asciiOk, hus]
  · simp [renderDateTime, renderTime, pad2, pad4, pad6, asciiOk, hus]

end Edzed.Interval
