import EdzedModel.Interval
import EdzedProofs.Interval
