/-
Lemmas about the model of the constructors (EdzedModel/BlkCtor.lean): reading the heap after the stores,
the `x_…` loop, the marking of an external source, the automatic names.
-/
import EdzedModel.BlkCtor

namespace Edzed.BlkCtor
open BlkCtorPy

/-! ### the heap -/

theorem setAt_length (h : List Obj) (i : Nat) (k : String) (v : Attr) : (setAt h i k v).length = h.length := by
  induction h generalizing i with
  | nil => rfl
  | cons o r ih => cases i <;> simp [setAt, ih]

theorem getD_setAt_same (h : List Obj) (i : Nat) (k : String) (v : Attr) (hi : i < h.length) :
    (setAt h i k v).getD i {} = (h.getD i {}).set k v := by
  induction h generalizing i with
  | nil => simp at hi
  | cons o r ih =>
    cases i with
    | zero => simp [setAt]
    | succ n => simp only [setAt, List.getD_cons_succ]; exact ih n (by simpa using hi)

theorem getD_setAt_other (h : List Obj) (i j : Nat) (k : String) (v : Attr) (hij : j ≠ i) :
    (setAt h i k v).getD j {} = h.getD j {} := by
  induction h generalizing i j with
  | nil => rfl
  | cons o r ih =>
    cases i with
    | zero =>
      cases j with
      | zero => exact absurd rfl hij
      | succ m => simp [setAt]
    | succ n =>
      cases j with
      | zero => simp [setAt]
      | succ m => simp only [setAt, List.getD_cons_succ]; exact ih n m (by omega)

theorem setAt_out_of_range (h : List Obj) (i : Nat) (k : String) (v : Attr) (hi : h.length ≤ i) :
    setAt h i k v = h := by
  induction h generalizing i with
  | nil => rfl
  | cons o r ih =>
    cases i with
    | zero => simp at hi
    | succ n => simp only [setAt]; rw [ih n (by simpa using hi)]

theorem getKey_setKey_same (l : List (String × Attr)) (k : String) (v : Attr) : getKey (setKey l k v) k = some v := by
  induction l with
  | nil => simp [setKey, getKey]
  | cons p r ih =>
    by_cases hp : (p.1 == k) = true
    · simp [setKey, getKey, hp]
    · simp [setKey, getKey, hp, ih]

theorem getKey_setKey_other (l : List (String × Attr)) (k k' : String) (v : Attr) (hk : k ≠ k') :
    getKey (setKey l k' v) k = getKey l k := by
  have hkk : (k' == k) = false := by simp [Ne.symm hk]
  induction l with
  | nil => simp [setKey, getKey, hkk]
  | cons p r ih =>
    by_cases hp : (p.1 == k') = true
    · have hpk : (p.1 == k) = false := by
        have : p.1 = k' := by simpa using hp
        simp [this, Ne.symm hk]
      simp [setKey, getKey, hp, hkk, hpk]
    · by_cases hq : (p.1 == k) = true <;> simp [setKey, getKey, hp, hq, ih]

theorem Obj.get?_set_same (o : Obj) (k : String) (v : Attr) : (o.set k v).get? k = some v :=
  getKey_setKey_same _ _ _

theorem Obj.get?_set_other (o : Obj) (k k' : String) (v : Attr) (hk : k ≠ k') : (o.set k' v).get? k = o.get? k :=
  getKey_setKey_other _ _ _ _ hk

namespace World

theorem setAttr_heap_length (w : World) (i : Nat) (k : String) (v : Attr) :
    (w.setAttr i k v).heap.length = w.heap.length := setAt_length _ _ _ _

theorem get?_setAttr_same (w : World) (i : Nat) (k : String) (v : Attr) (hi : i < w.heap.length) :
    (w.setAttr i k v).get? i k = some v := by
  unfold get? obj setAttr
  simp only [getD_setAt_same _ _ _ _ hi]
  exact Obj.get?_set_same _ _ _

theorem get?_setAttr_other_key (w : World) (i j : Nat) (k k' : String) (v : Attr) (hk : k ≠ k') :
    (w.setAttr i k' v).get? j k = w.get? j k := by
  unfold get? obj setAttr
  by_cases hij : j = i
  · subst hij
    by_cases hi : j < w.heap.length
    · simp only [getD_setAt_same _ _ _ _ hi]
      exact Obj.get?_set_other _ _ _ _ hk
    · have : setAt w.heap j k' v = w.heap := setAt_out_of_range _ _ _ _ (Nat.le_of_not_lt hi)
      rw [this]
  · simp only [getD_setAt_other _ _ _ _ _ hij]

theorem get?_setAttr_other_obj (w : World) (i j : Nat) (k k' : String) (v : Attr) (hij : j ≠ i) :
    (w.setAttr i k' v).get? j k = w.get? j k := by
  unfold get? obj setAttr
  simp only [getD_setAt_other _ _ _ _ _ hij]

end World

/-! ### marks -/

theorem isPrefixOf_append_self' (l t : List Char) : l.isPrefixOf (l ++ t) = true := by
  induction l with
  | nil => simp [List.isPrefixOf]
  | cons a l ih => simp [List.isPrefixOf, ih]

/-- the stored default source of an ExtEvent is marked, for EVERY source string (the empty one included) -/
theorem extSource_marked (s : String) : strStartsWith (extSource s) "_ext_" = true := by
  unfold extSource
  split
  · assumption
  · simp only [strStartsWith, String.toList_append]
    exact isPrefixOf_append_self' _ _

theorem extSource_empty : extSource "" = "_ext_" := by decide

/-- `_<cls>_<digits>` begins with `_ext_` exactly for the class names `ext` and `ext_…` -/
theorem ext_prefix_iff (c suffix : List Char) :
    (['e', 'x', 't', '_'] : List Char).isPrefixOf (c ++ '_' :: suffix)
      = (decide (c = ['e', 'x', 't']) || (['e', 'x', 't', '_'] : List Char).isPrefixOf c) := by
  rcases c with _ | ⟨a, _ | ⟨b, _ | ⟨c, _ | ⟨d, rest⟩⟩⟩⟩ <;> simp [List.isPrefixOf]
  have hc : ∀ (x y : Char), (x == y) = decide (y = x) := by
    intro x y
    by_cases h : y = x
    · subst h; simp
    · have h2 : ¬ x = y := fun e => h e.symm
      simp [h, h2]
  simp [hc]

theorem autoName_marked_iff (cls : String) (names : List String) :
    strStartsWith (autoName cls names) "_ext_"
      = (decide (cls.toList = ['e', 'x', 't']) || strStartsWith cls "ext_") := by
  unfold autoName strStartsWith
  simp only [String.toList_append]
  have h1 : "_ext_".toList = ['_', 'e', 'x', 't', '_'] := by decide
  have h2 : "_".toList = ['_'] := by decide
  have h3 : "ext_".toList = ['e', 'x', 't', '_'] := by decide
  rw [h1, h2, h3]
  simp only [List.singleton_append, List.cons_append, List.isPrefixOf, BEq.rfl, Bool.true_and, List.append_assoc]
  exact ext_prefix_iff _ _

/-! ### the loop over the extra keywords -/

def goodKey (k : String) : Bool := strStartsWith k "x_" || strStartsWith k "X_"

theorem storeX_bad (w : World) (self : Nat) (kw : Kw (Arg Nat)) (h : kw.any (fun p => !goodKey p.1) = true) :
    ∃ w', storeX w self kw = (w', .error "TypeError") := by
  induction kw generalizing w with
  | nil => simp at h
  | cons p r ih =>
    obtain ⟨k, v⟩ := p
    unfold storeX
    by_cases hg : goodKey k = true
    · have hr : r.any (fun p => !goodKey p.1) = true := by simpa [hg] using h
      simp only [goodKey] at hg
      simp only [hg, ↓reduceIte]
      exact ih _ hr
    · simp only [goodKey] at hg
      simp only [hg, Bool.false_eq_true, ↓reduceIte]
      exact ⟨w, rfl⟩

theorem storeX_keeps (w : World) (self : Nat) (kw : Kw (Arg Nat)) (j : Nat) (k : String) (hk : goodKey k = false) :
    (storeX w self kw).1.get? j k = w.get? j k ∧ (storeX w self kw).1.heap.length = w.heap.length := by
  induction kw generalizing w with
  | nil => exact ⟨rfl, rfl⟩
  | cons p r ih =>
    obtain ⟨k', v⟩ := p
    unfold storeX
    by_cases hg : goodKey k' = true
    · have hne : k ≠ k' := by intro e; subst e; rw [hg] at hk; cases hk
      simp only [goodKey] at hg
      simp only [hg, ↓reduceIte]
      have := ih (w.setAttr self k' (.arg v))
      rw [this.1, this.2, World.get?_setAttr_other_key _ _ _ _ _ _ hne, World.setAttr_heap_length]
      exact ⟨rfl, rfl⟩
    · simp only [goodKey] at hg
      simp only [hg, Bool.false_eq_true, ↓reduceIte]
      exact ⟨trivial, trivial⟩

/-! ### the circuit registry -/

theorem obj_alloc (w : World) (o : Obj) : (w.alloc o).1.obj w.heap.length = o := by
  simp [World.alloc, World.obj]

theorem newCircuit_get? (w : World) (k : String) :
    (newCircuit w).1.get? (newCircuit w).2 k = getKey (freshCircuitAttrs w.heap.length) k := by
  unfold newCircuit World.get?
  rw [show (w.alloc _).2 = w.heap.length from rfl, obj_alloc]
  rfl

theorem newCircuit_heap (w : World) : (newCircuit w).1.heap.length = w.heap.length + 1 := by
  simp [newCircuit, World.alloc]

theorem getCircuit_heap_le (w : World) : w.heap.length ≤ (getCircuit w).1.heap.length := by
  unfold getCircuit
  cases w.current with
  | some c => exact Nat.le_refl _
  | none => simp only [newCircuit_heap]; omega

/-- the state of a circuit right after `Circuit.__init__` -/
theorem newCircuit_state (w : World) :
    isReady (newCircuit w).1 (newCircuit w).2 = false
    ∧ (newCircuit w).1.attrIsNone (newCircuit w).2 "_simtask" = true
    ∧ (newCircuit w).1.attrIsNone (newCircuit w).2 "_error" = true
    ∧ (newCircuit w).1.attrTruthy (newCircuit w).2 "_finalized" = false
    ∧ (newCircuit w).1.blocks (newCircuit w).2 = []
    ∧ simtask (newCircuit w).1 (newCircuit w).2 = none := by
  simp only [isReady, World.attrIsNone, World.attrTruthy, World.blocks, simtask, newCircuit_get?]
  refine ⟨?_, ?_, ?_, ?_, ?_, ?_⟩ <;> rfl

/-! ### what `Block.__init__` leaves behind -/

theorem goodKey_name : goodKey "name" = false := by decide

theorem blockTail_name (w w' : World) (self : Nat) (nm comment onOutput debug : Arg Nat) (xkw : Kw (Arg Nat))
    (hs : self < w.heap.length) (h : blockTail w self nm comment onOutput debug xkw = (w', .ok ())) :
    w'.get? self "name" = some (.arg nm) := by
  unfold blockTail at h
  simp only at h
  split at h
  · cases h
  · split at h
    · cases h
    · have hk := storeX_keeps (w.setAttr self "name" (.arg nm)) self xkw self "name" goodKey_name
      generalize storeX (w.setAttr self "name" (.arg nm)) self xkw = r at h hk
      obtain ⟨w2, r2⟩ := r
      cases r2 with
      | error e => cases h
      | ok u =>
        simp only at h hk
        have h2 : w2.get? self "name" = some (.arg nm) := by
          rw [hk.1]; exact World.get?_setAttr_same _ _ _ _ hs
        generalize hw3 : (w2.setAttr self "comment" (.arg comment)).setAttr self "debug" (.bool debug.truthy) = w3 at h
        have h3 : w3.get? self "name" = some (.arg nm) := by
          rw [← hw3, World.get?_setAttr_other_key _ _ _ _ _ _ (by decide),
            World.get?_setAttr_other_key _ _ _ _ _ _ (by decide)]; exact h2
        cases hev : eventTuple w3 onOutput with
        | error e => rw [hev] at h; cases h
        | ok ev =>
          rw [hev] at h
          simp only at h
          generalize hw4 : ((w3.setAttr self "_output_events" (.ext ev)).setAttr self "oconnections" (.set [])).setAttr
            self "_output" (.arg .undef) = w4 at h
          have h4 : w4.get? self "name" = some (.arg nm) := by
            rw [← hw4, World.get?_setAttr_other_key _ _ _ _ _ _ (by decide),
              World.get?_setAttr_other_key _ _ _ _ _ _ (by decide),
              World.get?_setAttr_other_key _ _ _ _ _ _ (by decide)]; exact h3
          unfold addSelf at h
          cases hc : w4.circuitOf self with
          | none => rw [hc] at h; cases h
          | some c =>
            rw [hc] at h
            unfold addblock at h
            simp only at h
            repeat (split at h; (first | cases h | skip))
            all_goals (try cases h)
            all_goals (rw [World.get?_setAttr_other_key _ _ _ _ _ _ (by decide)]; exact h4)

/-- a successful `Block.__init__` has stored, as `self.name`, what the name rules give -/
theorem blockInit_name_stored (w w' : World) (self : Nat) (name comment onOutput reserved debug : Arg Nat)
    (xkw : Kw (Arg Nat)) (hs : self < w.heap.length)
    (h : blockInit w self name comment onOutput reserved debug xkw = (w', .ok ())) :
    ∃ nm cls names, blockName name reserved cls names = .ok nm ∧ w'.get? self "name" = some (.arg nm) := by
  unfold blockInit at h
  simp only at h
  generalize hw1 : (getCircuit w).1.setAttr self "circuit" (AV.optobj (some (getCircuit w).2)) = w1 at h
  have hs1 : self < w1.heap.length := by
    rw [← hw1, World.setAttr_heap_length]
    exact Nat.lt_of_lt_of_le hs (getCircuit_heap_le w)
  cases hb : blockName name reserved (w1.className self) ((selfTypeBlocks w1 self).map w1.nameOf) with
  | error e => rw [hb] at h; cases h
  | ok nm =>
    rw [hb] at h
    exact ⟨nm, _, _, hb, blockTail_name _ _ _ _ _ _ _ _ hs1 h⟩

/-- a keyword that begins neither with `x_` nor with `X_` makes `Block.__init__` fail -/
theorem blockInit_refuses_keyword (w : World) (self : Nat) (name comment onOutput reserved debug : Arg Nat)
    (xkw : Kw (Arg Nat)) (hbad : xkw.any (fun p => !goodKey p.1) = true) :
    ∃ w' e, blockInit w self name comment onOutput reserved debug xkw = (w', .error e) := by
  unfold blockInit
  simp only
  generalize (getCircuit w).1.setAttr self "circuit" (AV.optobj (some (getCircuit w).2)) = w1
  cases blockName name reserved (w1.className self) ((selfTypeBlocks w1 self).map w1.nameOf) with
  | error e => exact ⟨_, _, rfl⟩
  | ok nm =>
    simp only [blockTail]
    split
    · exact ⟨_, _, rfl⟩
    · split
      · exact ⟨_, _, rfl⟩
      · obtain ⟨w2, h2⟩ := storeX_bad (w1.setAttr self "name" (.arg nm)) self xkw hbad
        rw [h2]
        exact ⟨_, _, rfl⟩

/-! ### names -/

theorem marked_starts_underscore (s : String) (h : strStartsWith s "_ext_" = true) : strStartsWith s "_" = true := by
  unfold strStartsWith at *
  have h1 : "_ext_".toList = ['_', 'e', 'x', 't', '_'] := by decide
  have h2 : "_".toList = ['_'] := by decide
  rw [h1] at h
  rw [h2]
  cases hl : s.toList with
  | nil => rw [hl] at h; simp [List.isPrefixOf] at h
  | cons c r =>
    rw [hl] at h
    simp only [List.isPrefixOf, Bool.and_eq_true] at h
    simp [List.isPrefixOf, h.1]

/-- does a name (as stored) begin with the mark of external sources? -/
def argMarked (a : Arg Nat) : Bool :=
  match a.str? with
  | some s => strStartsWith s "_ext_"
  | none => false

/-- THE RESERVED-NAME RULE over all names and all `_reserved` values: an accepted name begins with `_ext_`
    exactly when it is an automatic name of a class called `ext` / `ext_…`, or a given name with the mark that was
    let through by a true `_reserved` -/
theorem accepted_name_marked_iff (name reserved : Arg Nat) (cls : String) (names : List String) (nm : Arg Nat)
    (h : blockName name reserved cls names = .ok nm) :
    argMarked nm = true ↔
      (name.isNone = true ∧ (cls.toList = ['e', 'x', 't'] ∨ strStartsWith cls "ext_" = true))
      ∨ (name.isNone = false ∧ reserved.truthy = true ∧ argMarked name = true) := by
  unfold blockName at h
  by_cases hn : name.isNone = true
  · simp only [hn, ↓reduceIte, Except.ok.injEq] at h
    subst h
    have : argMarked (Arg.val (Val.str (autoName cls names)) : Arg Nat) = strStartsWith (autoName cls names) "_ext_" := rfl
    rw [this, autoName_marked_iff]
    simp [hn]
  · simp only [hn, Bool.false_eq_true, ↓reduceIte] at h
    unfold checkName at h
    cases hs : name.str? with
    | none => rw [hs] at h; cases h
    | some s =>
      rw [hs] at h
      by_cases he : (s == "") = true
      · simp only [he, ↓reduceIte] at h; cases h
      · simp only [he, Bool.false_eq_true, ↓reduceIte] at h
        by_cases hcond : (strStartsWith s "_" && !reserved.truthy) = true
        · simp only [hcond, ↓reduceIte] at h; cases h
        · simp only [hcond, Bool.false_eq_true, ↓reduceIte, Except.ok.injEq] at h
          subst h
          have hm : argMarked name = strStartsWith s "_ext_" := by unfold argMarked; rw [hs]
          rw [hm]
          constructor
          · intro hmk
            right
            refine ⟨by simpa using hn, ?_, hmk⟩
            have := marked_starts_underscore s hmk
            simpa [this] using hcond
          · intro hh
            rcases hh with hh | hh
            · exact absurd hh.1 hn
            · exact hh.2.2

/-! ### external events -/

theorem extDest_heap_le (w : World) (dest : Arg Nat) : w.heap.length ≤ (extDest w dest).1.heap.length := by
  unfold extDest
  cases dest.str? with
  | some n =>
    simp only
    cases findblock (getCircuit w).1 (getCircuit w).2 n <;> exact getCircuit_heap_le w
  | none =>
    cases dest with
    | val v => exact Nat.le_refl _
    | obj o => simp only; split <;> exact Nat.le_refl _

/-- a successful `ExtEvent.__init__` was given a str as `source` and has stored the MARKED source -/
theorem extInit_source_stored (w w' : World) (self : Nat) (dest etype source : Arg Nat)
    (h : extInit w self dest etype source = (w', .ok ())) :
    ∃ s, source.str? = some s ∧
      (self < w.heap.length → w'.get? self "_source" = some (.str (extSource s))) := by
  unfold extInit at h
  have hle := extDest_heap_le w dest
  generalize extDest w dest = r at h hle
  obtain ⟨w1, r1⟩ := r
  cases r1 with
  | error e => cases h
  | ok d =>
    simp only at h hle
    split at h
    · cases h
    · cases he : etype.str? with
      | none => rw [he] at h; cases h
      | some e =>
        rw [he] at h
        simp only at h
        split at h
        · cases h
        · cases hs : source.str? with
          | none => rw [hs] at h; cases h
          | some s =>
            rw [hs] at h
            simp only [Prod.mk.injEq, and_true] at h
            subst h
            refine ⟨s, rfl, fun hlt => ?_⟩
            apply World.get?_setAttr_same
            rw [World.setAttr_heap_length, World.setAttr_heap_length]
            exact Nat.lt_of_lt_of_le hlt hle

/-- a `source` that is not a str (None included) is refused, whatever the other arguments are -/
theorem extInit_non_string_source (w : World) (self : Nat) (dest etype source : Arg Nat) (hs : source.str? = none) :
    ∃ w' e, extInit w self dest etype source = (w', .error e) := by
  cases hr : extInit w self dest etype source with
  | mk w' r =>
    cases r with
    | error e => exact ⟨w', e, rfl⟩
    | ok u =>
      obtain ⟨s, h1, _⟩ := extInit_source_stored w w' self dest etype source hr
      rw [hs] at h1; cases h1

end Edzed.BlkCtor
