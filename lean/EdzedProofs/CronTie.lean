/-
Tie by translation for C07: hand-written reference of the translated methods of
`blocklib/cron.py`, `blocklib/timedate.py` (lean/EdzedModel/Gen/TranslatedCron.lean, generated from the
current source by tools/py2lean_cron.py) and the lemmas behind `TrTie.translated_cron_…` (EdzedProps/C07.lean).
-/
import EdzedModel.Cron
import EdzedModel.Gen.TranslatedCron

namespace Edzed.Cron
open Gen.TrCron

/-! ## `_maintask`: reference of one pass, written by hand in direct style -/

section maintask
variable {σ T DT B : Type}

/- The fields of the generated record `MtLocals` are canonical (`v<n>`, n = position of the first binding in the
   source), so that renaming a Python local changes nothing here.  At the time of writing:
     v0 overhead   v1 reset   v2 reload   v3 short_sleep   v4 timetable   v5 tlen   v6 index
     v7 nowdt   v8 nowt   v9 wakeup   v10 step   v11 sleeptime   v12 diff -/

/-- `for blk in bs: blk.recalc(now)` -/
def recalcAll (P : MtPrims σ T DT B) (bs : List B) (now : DT) (w : σ) : σ :=
  bs.foldl (fun w b => P.recalc b now w) w

/-- after the sleep loop: a detected clock problem recalculates EVERY block registered at that moment and
    forgets the index; a pending reload just starts the next pass; otherwise the blocks registered for `wakeup`
    NOW (after the sleep) are recalculated and the index advances cyclically -/
def refTail (P : MtPrims σ T DT B) (L : MtLocals T DT) (w : σ) : Res (MtLocals T DT) σ :=
  if L.v1 then
    .next { L with v1 := false, v6 := none } (recalcAll P (P.allClients w) L.v7 w)
  else if L.v2 then .next L w
  else
    let w' := if P.hasAlarm w L.v9 then recalcAll P (P.clientsAt w L.v9) L.v7 w else w
    match L.v6 with
    | none => .raise .typeError L w'
    | some i => .next { L with v6 := some ((i + 1) % L.v5) } w'

theorem tail_is_ref (P : MtPrims σ T DT B) (L : MtLocals T DT) (w : σ) :
    mtAfter1 P L w = refTail P L w := by
  unfold mtAfter1 mt_j3 mt_j4 mt_j5 refTail recalcAll Flag_test_clear Flag_bool
  cases L with
  | mk overhead reset_ reload short_sleep timetable tlen index nowdt nowt wakeup step_ sleeptime diff =>
    cases reset_ <;> cases reload <;> cases index <;> simp <;> first | rfl | (split <;> rfl)

/-- `wakeup = timetable[index]`, then the sleep loop -/
def refWake (P : MtPrims σ T DT B) (L : MtLocals T DT) (w : σ) : Res (MtLocals T DT) σ :=
  match L.v6 with
  | none => .raise .typeError L w
  | some i =>
    match L.v4[i]? with
    | none => .raise .indexError L w
    | some x => mtFor1 P (List.range 3) { L with v9 := x } w

/-- the beginning of a pass: a requested reload rebuilds the timetable from the 24 full hours and the keys of
    the alarm table AS THEY ARE NOW and forgets the index; then the clock is read ONCE; an unknown index
    (start, reload, reset) is found by `bisect_left` for that reading, and ALL blocks registered at that moment
    are recalculated with the very same reading -/
def refHead (P : MtPrims σ T DT B) (L : MtLocals T DT) (w : σ) : Res (MtLocals T DT) σ :=
  let L1 : MtLocals T DT := if L.v2 then
      { L with v2 := false, v4 := P.sortedUnion P.set24 (P.alarmKeys w),
               v5 := (P.sortedUnion P.set24 (P.alarmKeys w)).length, v6 := none }
    else L
  let r := P.dtnow w
  let L2 : MtLocals T DT := { L1 with v7 := r.1, v8 := P.timeOf r.1 }
  match L1.v6 with
  | some _ => refWake P L2 r.2
  | none =>
    refWake P { L2 with v6 := some (P.bisectLeft L2.v4 L2.v8 % L2.v5) }
      (recalcAll P (P.allClients r.2) r.1 r.2)

theorem head_is_ref (P : MtPrims σ T DT B) (L : MtLocals T DT) (w : σ) :
    mtStep P L w = refHead P L w := by
  unfold mtStep mt_j1 mt_j2 refHead refWake recalcAll Flag_test_clear
  cases L with
  | mk overhead reset_ reload short_sleep timetable tlen index nowdt nowt wakeup step_ sleeptime diff =>
    cases reload <;> cases index <;> simp <;> first | rfl | (split <;> simp_all)

/-- seconds from the reading `nowt` to `wakeup` (both times of day), normalised into (−12 h, +12 h]: the next
    wake-up is never more than one hour away, so a larger difference means the other side of midnight -/
def secondsUntil (P : MtPrims σ T DT B) (wakeup nowt : T) : Rat :=
  let s : Rat := secPerHour * (P.hour wakeup - P.hour nowt)
    + secPerMin * (P.minute wakeup - P.minute nowt)
    + (P.second wakeup - P.second nowt) + (P.microsecond wakeup - P.microsecond nowt) / 1000000
  if s < -secPerDay / 2 then s + secPerDay
  else if s > secPerDay / 2 then s - secPerDay
  else s

/-- read the clock again and go on with the next value of `step` -/
def refAgain (P : MtPrims σ T DT B) (next : MtLocals T DT → σ → Res (MtLocals T DT) σ)
    (L : MtLocals T DT) (w : σ) : Res (MtLocals T DT) σ :=
  next { L with v7 := (P.dtnow w).1, v8 := P.timeOf (P.dtnow w).1 } (P.dtnow w).2

/-- how to wait `L.v11` seconds: not at all / blocking (up to half of `_TT_OK`) / `asyncio.sleep` (up to the
    estimated overhead) / waiting for a reload request with the overhead subtracted – only the last one listens
    to the queue; an item makes the pass end with `reload` set -/
def refSleep (P : MtPrims σ T DT B) (next brk : MtLocals T DT → σ → Res (MtLocals T DT) σ)
    (L : MtLocals T DT) (w : σ) : Res (MtLocals T DT) σ :=
  if L.v11 = 0 then refAgain P next L w
  else if L.v11 ≤ ttOk / 2 then
    refAgain P next { L with v3 := true } (P.blockingSleep L.v11 w)
  else if L.v11 ≤ L.v0 then
    .sleep L.v11 w (fun w => refAgain P next { L with v3 := true } w)
  else
    .waitQueue (L.v11 - L.v0) w (fun got w =>
      if got then brk { L with v3 := false, v2 := true } w
      else refAgain P next { L with v3 := false } w)

theorem sleep_is_ref (P : MtPrims σ T DT B) (next brk : MtLocals T DT → σ → Res (MtLocals T DT) σ)
    (L : MtLocals T DT) (w : σ) : mt_j7 P next brk L w = refSleep P next brk L w := by
  unfold mt_j7 mt_j8 refSleep refAgain Flag_set
  cases L with
  | mk overhead reset_ reload short_sleep timetable tlen index nowdt nowt wakeup step_ sleeptime diff =>
    simp only [beq_iff_eq, decide_eq_true_eq]

/-- the time check of steps 1, 2 (and of step 0 when already late); `L.v11` = seconds until the wake-up
    time.  A clock problem (`reset`) is an error above `_TT_ERROR` or still being early at step 2 – the loop is
    left at once, BEFORE the overhead estimate is touched; the estimate is corrected at step 1 after a long sleep
    that ended more than `_TT_OK` late, by half of (error + `_TT_OK`/2); the loop is left when the wake-up time has
    come (`s ≤ 0`), otherwise one more (short) sleep follows -/
def refCheck (P : MtPrims σ T DT B) (next brk : MtLocals T DT → σ → Res (MtLocals T DT) σ)
    (L : MtLocals T DT) (w : σ) : Res (MtLocals T DT) σ :=
  let s := L.v11
  if L.v10 > 1 ∨ s < 0 then
    let problem : Bool := (L.v10 == 2 && decide (s > 0)) || decide (ratAbs s > ttError)
    let L : MtLocals T DT := { L with v12 := ratAbs s, v1 := L.v1 || problem }
    if L.v1 then brk L w
    else
      let L : MtLocals T DT :=
        if L.v10 = 1 ∧ L.v3 = false ∧ ¬ (-ttOk ≤ s ∧ s ≤ 0) then
          { L with v0 := L.v0 - (s + ttOk / 2) * (1 / 2) }
        else L
      if s ≤ 0 then brk L w else refSleep P next brk L w
  else refSleep P next brk L w

theorem check_is_ref (P : MtPrims σ T DT B) (next brk : MtLocals T DT → σ → Res (MtLocals T DT) σ)
    (L : MtLocals T DT) (w : σ) : mt_j6 P next brk L w = refCheck P next brk L w := by
  unfold mt_j6 mt_j9 mt_j10 refCheck Flag_OR
  simp only [sleep_is_ref]
  cases L with
  | mk overhead reset_ reload short_sleep timetable tlen index nowdt nowt wakeup step_ sleeptime diff =>
    dsimp only []
    have hiff : ((step_ == 1 && !short_sleep && !(decide (-ttOk ≤ sleeptime) && decide (sleeptime ≤ 0))) = true) ↔
        (step_ = 1 ∧ short_sleep = false ∧ ¬ (-ttOk ≤ sleeptime ∧ sleeptime ≤ 0)) := by
      constructor
      · intro h
        simp at h
        exact ⟨h.1.1, h.1.2, fun hh => h.2.elim (fun n => n hh.1) (fun n => n hh.2)⟩
      · intro ⟨a, b, c⟩
        simp
        refine ⟨⟨a, b⟩, ?_⟩
        by_cases hx : -ttOk ≤ sleeptime
        · exact Or.inr (fun y => c ⟨hx, y⟩)
        · exact Or.inl hx
    by_cases hc : step_ > 1 ∨ sleeptime < 0
    · have hc' : (decide (step_ > 1) || decide (sleeptime < 0)) = true := by simpa using hc
      rw [if_pos hc', if_pos hc]
      cases hp : (step_ == 2 && decide (sleeptime > 0) || decide (ratAbs sleeptime > ttError))
      · cases reset_
        · simp only [Bool.false_eq_true, ↓reduceIte, Bool.or_false]
          by_cases ho : step_ = 1 ∧ short_sleep = false ∧ ¬ (-ttOk ≤ sleeptime ∧ sleeptime ≤ 0)
          · have ho' := hiff.mpr ho
            rw [if_pos ho', if_pos ho]
            by_cases hz : sleeptime ≤ 0
            · simp only [hz, decide_true, ↓reduceIte]
            · simp only [hz, decide_false, Bool.false_eq_true, ↓reduceIte]
          · have ho' := fun h => ho (hiff.mp h)
            rw [if_neg ho', if_neg ho]
            by_cases hz : sleeptime ≤ 0
            · simp only [hz, decide_true, ↓reduceIte]
            · simp only [hz, decide_false, Bool.false_eq_true, ↓reduceIte]
        · simp
      · cases reset_ <;> simp
    · have hc' : ¬ (decide (step_ > 1) || decide (sleeptime < 0)) = true := by simpa using hc
      rw [if_neg hc', if_neg hc]

/-- the body of `for step in range(3)`: the time difference, then the check -/
def refBody (P : MtPrims σ T DT B) (next brk : MtLocals T DT → σ → Res (MtLocals T DT) σ)
    (L : MtLocals T DT) (w : σ) : Res (MtLocals T DT) σ :=
  refCheck P next brk { L with v11 := secondsUntil P L.v9 L.v8 } w

theorem body_is_ref (P : MtPrims σ T DT B) (next brk : MtLocals T DT → σ → Res (MtLocals T DT) σ)
    (L : MtLocals T DT) (w : σ) : mtFor1Body P next brk L w = refBody P next brk L w := by
  unfold mtFor1Body refBody secondsUntil
  simp only [check_is_ref, decide_eq_true_eq]
  split
  · rfl
  · split <;> rfl

end maintask
/-! ## the alarm table: `add_block`, `remove_block`, `reload` -/

/-- the primitives of the table instantiated with the finite map of the model; `tz` = `_check_tz`,
    `compat` = `hasattr(blk, 'recalc')` -/
def tabPrims (tz : Nat → Except Exc Nat) (compat : Nat → Bool) : TabPrims Table (List Nat) Nat Nat where
  has tb t := (tb t).isSome
  get tb t := (tb t).getD []
  put tb t s := fun t' => if t' = t then some s else tb t'
  del tb t := fun t' => if t' = t then none else tb t'
  single b := [b]
  sAdd s b := if s.contains b then s else b :: s
  sDiscard s b := s.filter (· != b)
  sEmpty s := s.isEmpty
  sLen s := s.length
  hourly := hourly
  checkTz := tz
  compatible := compat

theorem add_is_model (tz : Nat → Except Exc Nat) (compat : Nat → Bool) (tb : Table) (nr : Bool) (t t' b : Nat)
    (hc : compat b = true) (ht : tz t = .ok t') :
    addBlock (tabPrims tz compat) ⟨tb, nr, t, b⟩ = .ok ⟨tb.add t' b, nr || tb.addNeedsReload t', t', b⟩ := by
  unfold addBlock addBlock_j1 Flag_OR Table.add Table.addNeedsReload Table.isKey tabPrims
  simp only [hc, ht]
  cases h : tb t' <;> cases hh : hourly t' <;> cases nr <;> simp [h]

theorem add_incompatible (tz : Nat → Except Exc Nat) (compat : Nat → Bool) (tb : Table) (nr : Bool) (t b : Nat)
    (hc : compat b = false) :
    addBlock (tabPrims tz compat) ⟨tb, nr, t, b⟩ = .error .typeError := by
  unfold addBlock tabPrims
  simp [hc]

theorem remove_is_model (tz : Nat → Except Exc Nat) (compat : Nat → Bool) (tb : Table) (nr : Bool) (t t' b : Nat)
    (ht : tz t = .ok t') :
    removeBlock (tabPrims tz compat) ⟨tb, nr, t, b⟩ =
      .ok ⟨tb.remove t' b, nr || tb.removeNeedsReload t' b, t', b⟩ := by
  unfold removeBlock removeBlock_j1 Flag_OR Table.remove Table.removeNeedsReload tabPrims
  simp only [ht]
  cases h : tb t' with
  | none => simp
  | some s =>
    cases he : (s.filter (· != b)).isEmpty <;> cases hh : hourly t' <;> cases nr <;> simp [he]
    all_goals (funext x; split <;> simp_all)

theorem reload_is_model (nr running wake : Bool) :
    reload ⟨nr, running, wake⟩ = .ok ⟨false, running, wake || (nr && running)⟩ := by
  unfold reload Flag_test_clear
  cases nr <;> cases running <;> cases wake <;> rfl

/-! ### bookkeeping facts of the table -/

theorem registered_add (tb : Table) (t b t' b' : Nat) :
    (tb.add t b).registered t' b' = if t' = t ∧ b' = b then true else tb.registered t' b' := by
  unfold Table.add Table.registered
  by_cases ht : t' = t
  · subst ht
    cases h : tb t' with
    | none => by_cases hb : b' = b <;> simp [hb]
    | some s =>
      by_cases hb : b' = b
      · subst hb; by_cases hm : b' ∈ s <;> simp [hm]
      · by_cases hm : b ∈ s <;> simp [hm, hb]
  · simp [ht]

theorem registered_remove (tb : Table) (t b t' b' : Nat) :
    (tb.remove t b).registered t' b' = if t' = t ∧ b' = b then false else tb.registered t' b' := by
  unfold Table.remove Table.registered
  cases h : tb t with
  | none =>
    by_cases ht : t' = t
    · subst ht; simp [h]
    · simp [ht]
  | some s =>
    by_cases ht : t' = t
    · subst ht
      simp only [h, ↓reduceIte, true_and]
      by_cases he : (s.filter (· != b)).isEmpty = true
      · simp only [he, ↓reduceIte]
        have : s.filter (· != b) = [] := by simpa using he
        by_cases hb : b' = b
        · simp [hb]
        · simp only [hb, ↓reduceIte]
          have hn : b' ∉ s := fun hm => hb ((by simpa using this : ∀ a ∈ s, a = b) b' hm)
          simp [hn]
      · simp only [he]
        by_cases hb : b' = b
        · subst hb; simp
        · simp [hb]
    · simp [ht]

theorem noEmpty_add (tb : Table) (t b : Nat) (h : tb.NoEmpty) : (tb.add t b).NoEmpty := by
  intro t'
  unfold Table.add
  by_cases ht : t' = t
  · simp only [ht, ↓reduceIte]
    cases hs : tb t with
    | none => simp
    | some s =>
      by_cases hm : b ∈ s
      · have := h t; simp_all
      · simp [hm]
  · simp only [ht, ↓reduceIte]; exact h t'

theorem noEmpty_remove (tb : Table) (t b : Nat) (h : tb.NoEmpty) : (tb.remove t b).NoEmpty := by
  intro t'
  unfold Table.remove
  cases hs : tb t with
  | none => exact h t'
  | some s =>
    by_cases ht : t' = t
    · simp only [ht, ↓reduceIte]
      by_cases he : (s.filter (· != b)).isEmpty = true
      · simp [he]
      · simp only [he]
        intro hx
        have h1 : (s.filter (· != b)) = [] := by simpa using hx
        exact he (by simp [h1])
    · simp only [ht, ↓reduceIte]; exact h t'

/-- removing a block from a time it is not registered for changes nothing -/
theorem remove_unregistered (tb : Table) (t b : Nat) (h : tb.NoEmpty) (hr : tb.registered t b = false) :
    tb.remove t b = tb ∧ tb.removeNeedsReload t b = false := by
  unfold Table.registered at hr
  cases hs : tb t with
  | none => simp [Table.remove, Table.removeNeedsReload, hs]
  | some s =>
    have hn : b ∉ s := by simpa [hs] using hr
    have hf : s.filter (· != b) = s := by
      apply List.filter_eq_self.mpr
      intro x hx
      have : x ≠ b := fun e => hn (e ▸ hx)
      simpa using this
    have hne : s ≠ [] := fun e => h t (by rw [hs, e])
    have he : s.isEmpty = false := by cases s <;> simp_all
    have h1 : tb.remove t b = tb := by
      unfold Table.remove
      simp only [hs, hf, he]
      funext x
      by_cases hx : x = t
      · simp [hx, hs]
      · simp [hx]
    refine ⟨h1, ?_⟩
    unfold Table.removeNeedsReload
    simp [hs, hf, he]

/-- a reload is requested by `remove_block` exactly when a non-hourly key disappears -/
theorem removeNeedsReload_iff (tb : Table) (t b : Nat) :
    tb.removeNeedsReload t b = (tb.isKey t && !(tb.remove t b).isKey t && !hourly t) := by
  unfold Table.removeNeedsReload Table.remove Table.isKey
  cases hs : tb t with
  | none => simp [hs]
  | some s => cases he : (s.filter (· != b)).isEmpty <;> simp [he]

/-- only the key `t` can appear or disappear -/
theorem isKey_add (tb : Table) (t b t' : Nat) : (tb.add t b).isKey t' = (decide (t' = t) || tb.isKey t') := by
  unfold Table.add Table.isKey
  by_cases ht : t' = t <;> simp [ht]

theorem isKey_remove_other (tb : Table) (t b t' : Nat) (ht : t' ≠ t) : (tb.remove t b).isKey t' = tb.isKey t' := by
  unfold Table.remove Table.isKey
  cases tb t <;> simp [ht]

/-- a sequence of registrations and removals -/
inductive TOp where
  | add (t b : Nat)
  | remove (t b : Nat)
  deriving Repr, DecidableEq

def TOp.apply (tb : Table) : TOp → Table
  | .add t b => tb.add t b
  | .remove t b => tb.remove t b

/-- what the LAST operation on the pair `(t, b)` was: `some true` = add, `some false` = remove -/
def stepLast (t b : Nat) (acc : Option Bool) : TOp → Option Bool
  | .add t' b' => if t' = t ∧ b' = b then some true else acc
  | .remove t' b' => if t' = t ∧ b' = b then some false else acc

def lastOp (ops : List TOp) (t b : Nat) : Option Bool := ops.foldl (stepLast t b) none

theorem foldl_stepLast_some (t b : Nat) (ops : List TOp) (x : Bool) :
    ∃ y, ops.foldl (stepLast t b) (some x) = some y := by
  induction ops generalizing x with
  | nil => exact ⟨x, rfl⟩
  | cons op ops ih =>
    simp only [List.foldl_cons]
    cases op with
    | add t' b' =>
      by_cases hk : t' = t ∧ b' = b
      · simp only [stepLast, hk, and_self, ↓reduceIte]; exact ih _
      · simp only [stepLast, hk, ↓reduceIte]; exact ih _
    | remove t' b' =>
      by_cases hk : t' = t ∧ b' = b
      · simp only [stepLast, hk, and_self, ↓reduceIte]; exact ih _
      · simp only [stepLast, hk, ↓reduceIte]; exact ih _

theorem registered_foldl (ops : List TOp) (tb : Table) (t b : Nat) (acc : Option Bool)
    (h : acc = none ∨ acc = some (tb.registered t b)) :
    (ops.foldl TOp.apply tb).registered t b = (ops.foldl (stepLast t b) acc).getD (tb.registered t b) := by
  induction ops generalizing tb acc with
  | nil => rcases h with h | h <;> simp [h]
  | cons op ops ih =>
    simp only [List.foldl_cons]
    cases op with
    | add t' b' =>
      by_cases hk : t' = t ∧ b' = b
      · have hk' : t = t' ∧ b = b' := ⟨hk.1.symm, hk.2.symm⟩
        have e := ih (tb.add t' b') (some true) (Or.inr (by simp [registered_add, hk']))
        obtain ⟨y, hy⟩ := foldl_stepLast_some t b ops true
        simp only [TOp.apply, stepLast, hk, and_self, ↓reduceIte, hy, Option.getD_some] at e ⊢
        exact e
      · have hk' : ¬ (t = t' ∧ b = b') := fun x => hk ⟨x.1.symm, x.2.symm⟩
        have hr : (tb.add t' b').registered t b = tb.registered t b := by simp [registered_add, hk']
        have e := ih (tb.add t' b') acc (by rw [hr]; exact h)
        simp only [TOp.apply, stepLast, hk, ↓reduceIte] at e ⊢
        rw [e, hr]
    | remove t' b' =>
      by_cases hk : t' = t ∧ b' = b
      · have hk' : t = t' ∧ b = b' := ⟨hk.1.symm, hk.2.symm⟩
        have e := ih (tb.remove t' b') (some false) (Or.inr (by simp [registered_remove, hk']))
        obtain ⟨y, hy⟩ := foldl_stepLast_some t b ops false
        simp only [TOp.apply, stepLast, hk, and_self, ↓reduceIte, hy, Option.getD_some] at e ⊢
        exact e
      · have hk' : ¬ (t = t' ∧ b = b') := fun x => hk ⟨x.1.symm, x.2.symm⟩
        have hr : (tb.remove t' b').registered t b = tb.registered t b := by simp [registered_remove, hk']
        have e := ih (tb.remove t' b') acc (by rw [hr]; exact h)
        simp only [TOp.apply, stepLast, hk, ↓reduceIte] at e ⊢
        rw [e, hr]

/-- after any sequence of calls a block is registered at a time iff its last call for that time was an
    `add_block` (no call: as before) -/
theorem registered_after_ops (ops : List TOp) (tb : Table) (t b : Nat) :
    (ops.foldl TOp.apply tb).registered t b = ((lastOp ops t b).getD (tb.registered t b)) := by
  unfold lastOp
  exact registered_foldl ops tb t b none (Or.inl rfl)


/-! ## `recalc` and `_event_reconfig` of the two client classes -/

/-- the primitives of `TimeDate.recalc` in terms of the model's membership functions -/
def tdPrims (cal : Calendar) : TdPrims TDCfg Nat Nat where
  timesIsNone c := c.times.isNone
  datesIsNone c := c.dates.isNone
  weekdaysIsNone c := c.weekdays.isNone
  timeOf := todOf
  month now := (cal (dayOf now)).month
  day now := (cal (dayOf now)).day
  isoweekday now := (cal (dayOf now)).wday
  inTimes c t := match c.times with | some iv => timesContain iv t | none => false
  inDates c m d := match c.dates with | some iv => datesContain iv (m, d) | none => false
  inWeekdays c wd := match c.weekdays with | some w => w.contains wd | none => false
  inSpan _ _ := false

/-- … and of `TimeSpan.recalc`: `now in self._span` is membership in one of the ranges -/
def tsPrims (cal : Calendar) : TdPrims Span Nat Nat where
  timesIsNone _ := true
  datesIsNone _ := true
  weekdaysIsNone _ := true
  timeOf := todOf
  month now := (cal (dayOf now)).month
  day now := (cal (dayOf now)).day
  isoweekday now := (cal (dayOf now)).wday
  inTimes _ _ := false
  inDates _ _ _ := false
  inWeekdays _ _ := false
  inSpan sp now := sp.any fun r => inSpan r.1 (stampOf cal now) r.2

theorem td_recalc_is_pred (cal : Calendar) (c : TDCfg) (now : Nat) :
    tdRecalc (tdPrims cal) c now = timedatePred cal c now := by
  unfold tdRecalc tdIsConfigured timedatePred TDCfg.configured tdPrims
  cases c with
  | mk times dates weekdays => cases times <;> cases dates <;> cases weekdays <;> simp

theorem ts_recalc_is_pred (cal : Calendar) (sp : Span) (now : Nat) :
    tsRecalc (tsPrims cal) sp now = timespanPred cal sp now := rfl

/-- the end points of the time ranges of a TimeDate configuration (`self._times.range_endpoints()`) -/
def timeEndpoints (iv : List (Nat × Nat)) : List Nat := iv.flatMap fun r => [r.1, r.2]

/-- the table operations behind one action of `TimeDate._event_reconfig` for block `b`; `none`: the action
    would raise (`None.range_endpoints()`) -/
def tdActOps (old new : TDCfg) (b : Nat) : RAct → Option (List TOp)
  | .removeOldEndpoints => old.times.map fun iv => (timeEndpoints iv).map (TOp.remove · b)
  | .addNewEndpoints => new.times.map fun iv => (timeEndpoints iv).map (TOp.add · b)
  | .addMidnight => some [.add 0 b]
  | .addFutureEndpoints _ => none
  | _ => some []

/-- … of `TimeSpan._event_reconfig`; `read n` = the n-th clock reading of the call -/
def tsActOps (cal : Calendar) (old new : Span) (read : Nat → Nat) (b : Nat) : RAct → Option (List TOp)
  | .removeOldEndpoints => some ((endpoints old).map fun e => TOp.remove e.tod b)
  | .addFutureEndpoints n =>
    some (((endpoints new).filter fun e =>
        decide (({ stampOf cal (read n) with tod := 0 } : Stamp).Le { e with tod := 0 })).map
      fun e => TOp.add e.tod b)
  | .addNewEndpoints => none
  | .addMidnight => none
  | _ => some []

/-- all table operations of an action list, in order -/
def actsOps (f : RAct → Option (List TOp)) : List RAct → Option (List TOp)
  | [] => some []
  | a :: rest => do
    let x ← f a
    let y ← actsOps f rest
    pure (x ++ y)

/-- the readings handed to `recalc`, given the readings taken so far -/
def recalcReadings : List RAct → List Nat
  | [] => []
  | .recalc n :: rest => n :: recalcReadings rest
  | _ :: rest => recalcReadings rest

def countReads : List RAct → Nat
  | [] => 0
  | .readClock :: rest => countReads rest + 1
  | _ :: rest => countReads rest

theorem foldl_stepLast_eq (t b : Nat) (ops : List TOp) (acc : Option Bool) :
    ops.foldl (stepLast t b) acc = (match lastOp ops t b with | some v => some v | none => acc) := by
  unfold lastOp
  induction ops generalizing acc with
  | nil => rfl
  | cons op ops ih =>
    simp only [List.foldl_cons]
    rw [ih, ih (stepLast t b none op)]
    cases op with
    | add t' b' =>
      by_cases hk : t' = t ∧ b' = b
      · simp only [stepLast, hk, and_self, ↓reduceIte]
        cases List.foldl (stepLast t b) none ops <;> rfl
      · simp only [stepLast, hk, ↓reduceIte]
        cases List.foldl (stepLast t b) none ops <;> rfl
    | remove t' b' =>
      by_cases hk : t' = t ∧ b' = b
      · simp only [stepLast, hk, and_self, ↓reduceIte]
        cases List.foldl (stepLast t b) none ops <;> rfl
      · simp only [stepLast, hk, ↓reduceIte]
        cases List.foldl (stepLast t b) none ops <;> rfl

theorem lastOp_append (A Bs : List TOp) (t b : Nat) :
    lastOp (A ++ Bs) t b = (match lastOp Bs t b with | some v => some v | none => lastOp A t b) := by
  show (A ++ Bs).foldl (stepLast t b) none = _
  rw [List.foldl_append, foldl_stepLast_eq]
  rfl

theorem lastOp_adds (l : List Nat) (t b : Nat) :
    lastOp (l.map (TOp.add · b)) t b = if t ∈ l then some true else none := by
  induction l with
  | nil => rfl
  | cons x xs ih =>
    have : (x :: xs).map (TOp.add · b) = [TOp.add x b] ++ xs.map (TOp.add · b) := rfl
    rw [this, lastOp_append, ih]
    by_cases h1 : t ∈ xs
    · simp [h1]
    · by_cases h2 : x = t
      · simp [h1, h2, lastOp, stepLast]
      · have : ¬ t = x := fun e => h2 e.symm
        simp [h1, h2, this, lastOp, stepLast]

theorem lastOp_removes (l : List Nat) (t b : Nat) :
    lastOp (l.map (TOp.remove · b)) t b = if t ∈ l then some false else none := by
  induction l with
  | nil => rfl
  | cons x xs ih =>
    have : (x :: xs).map (TOp.remove · b) = [TOp.remove x b] ++ xs.map (TOp.remove · b) := rfl
    rw [this, lastOp_append, ih]
    by_cases h1 : t ∈ xs
    · simp [h1]
    · by_cases h2 : x = t
      · simp [h1, h2, lastOp, stepLast]
      · have : ¬ t = x := fun e => h2 e.symm
        simp [h1, h2, this, lastOp, stepLast]


/-- the table calls of a reconfiguration: removals, then additions, then midnight -/
theorem registered_reconfig (rem add : List Nat) (b : Nat) (tb : Table) (t : Nat) :
    ((rem.map (TOp.remove · b) ++ (add.map (TOp.add · b) ++ [TOp.add 0 b])).foldl TOp.apply tb).registered t b = true ↔
      (t = 0 ∨ t ∈ add ∨ (t ∉ rem ∧ tb.registered t b = true)) := by
  rw [registered_after_ops, lastOp_append, lastOp_append, lastOp_adds, lastOp_removes]
  have hl : lastOp [TOp.add 0 b] t b = if t = 0 then some true else none := by
    by_cases h : t = 0
    · simp [lastOp, stepLast, h]
    · have h' : ¬ 0 = t := fun e => h e.symm
      simp [lastOp, stepLast, h, h']
  rw [hl]
  by_cases h0 : t = 0
  · simp [h0]
  · by_cases ha : t ∈ add
    · simp [h0, ha]
    · by_cases hr : t ∈ rem
      · simp [h0, ha, hr]
      · simp [h0, ha, hr]

theorem mem_boundaries (c : TDCfg) (t : Nat) :
    t ∈ boundaries c ↔ t = 0 ∨ t ∈ (match c.times with | some iv => timeEndpoints iv | none => []) := by
  unfold boundaries timeEndpoints
  cases c.times <;> simp

end Edzed.Cron
