/-
Tie of the C03 model (EdzedModel/Fsm.lean) to the TRANSLATED source of `FSM._ctx_event`
(lean/EdzedModel/Gen/TranslatedFsm.lean, regenerated from the current Python AST by tools/py2lean_fsm.py on
every check -- the SAME generated program that C04 ties to EdzedModel/FsmTimer.lean):

  * `F03.prims d` instantiates the primitives of the translated program (one per call / lookup the
    method makes) with the operations of EdzedModel/Fsm.lean;
  * helper lemmas that do not depend on the translated program itself (the theorems about it are in
    EdzedProps/C03.lean, `namespace Edzed.TrTie`, names `translated_fsm03_…`).

What the instantiation fixes (everything else comes from the AST):
  * the block as the method sees it is `TS`: the model's `Fsm` (state, output, `_fsm_event_active`,
    `_next_event`), the value of the context variable `fsm_event_data` in the current context, the ordered log
    of actions/events performed so far, and whether an `_enable_event` context is open;
  * callbacks READ the context variable: `runCond`, `runCbExit`, `runCbEnter` take the event data they log from
    `TS.ctx`, i.e. from whatever the translated program has put there with `fsm_event_data.set(…)` -- the model
    passes that data explicitly (`cur.data`, `nx.data`), so the tie proves that each action reads what the
    model says it reads;
  * `self.event(…)` calls made by an entry action and by `_start_timer` of a zero-duration timed state are
    inside the primitives `runCbEnter` / `startTimer` (the model's `runCbs` / `nested`); the recursive call
    itself is tied separately (`translated_fsm03_post_is_model`);
  * timers are markers: `_stop_timer()` logs `stopTimer`, `_start_timer(duration, ev)` logs `startTimer state`
    and ignores the duration (C04 covers durations and timer handles);
  * exceptions are compared by CLASS (`Exc`): the model's `errMultiple` and `errChain` are both
    `EdzedCircuitError` in the source.
-/
import EdzedModel.Fsm
import EdzedProofs.Fsm
import EdzedModel.Gen.TranslatedFsm

namespace Edzed.TrTie.F03
open Edzed.Fsm Edzed.Gen.TrM

/-- exception classes raised by `_ctx_event` and what it calls -/
inductive Exc where
  | unknownEvent | circuitError | valueError | assertion
  | other     -- any class the model does not raise (TypeError, RuntimeError, …)
  deriving DecidableEq, Repr, Inhabited

/-- how the model's result shows at the Python level: the value returned or the exception class -/
def flowOf : Res → Flow Exc Bool
  | .accepted => .ret true
  | .rejected => .ret false
  | .unknownEvent => .raise .unknownEvent
  | .errMultiple => .raise .circuitError
  | .errChain => .raise .circuitError
  | .errBadState => .raise .valueError
  | .errAssert => .raise .assertion

/-- the exception class of an error result -/
def excOfRes : Res → Exc
  | .unknownEvent => .unknownEvent
  | .errBadState => .valueError
  | .errAssert => .assertion
  | _ => .circuitError

def excOf (name : String) : Exc :=
  if name == "EdzedUnknownEvent" then .unknownEvent
  else if name == "EdzedCircuitError" then .circuitError
  else if name == "AssertionError" then .assertion
  else if name == "ValueError" then .valueError
  else .other

/-- the block as `_ctx_event` sees it -/
structure TS where
  f : Fsm
  ctx : Data            -- `fsm_event_data.get()` in the current context
  log : List Action     -- actions and events so far
  enabled : Bool        -- inside `with self._enable_event:`

def TS.emit (t : TS) (l : List Action) : TS := { t with log := t.log ++ l }

/-- the primitives of `_ctx_event` = the operations of the C03 model -/
def prims (d : Def) : FsmPrims TS EType Data State (EType × Bool) Val Val Exc where
  exc := excOf
  asGoto := fun e => match e with | .goto q => some q | .ev _ => none
  isStr := fun e => match e with | .ev _ => true | .goto _ => false
  isEvent := fun _ e => match e with | .ev n => d.events.contains n | .goto _ => false
  isMutableMapping := fun _ => true
  readOnly := fun x => x
  dataGet := fun x key => (x.get? key).getD Val.none
  isUndef := fun v => v.isUndef
  getState := fun t => t.f.state
  setState := fun oq t => match oq with
    | some q => { t with f := { t.f with state := some q }, log := t.log ++ [Action.setState q] }
    | none => { t with f := { t.f with state := none } }
  getNext := fun t => t.f.next.map fun r => (r.etype, r.data, some r.target)
  setNext := fun o t =>
    { t with f := { t.f with next := o.bind fun x => x.2.2.map fun q => ⟨x.1, x.2.1, q⟩ } }
  getActive := fun t => t.f.active
  setActive := fun b t => { t with f := { t.f with active := b } }
  isInitialized := fun t => !t.f.output.isUndef
  chainLimit := fun _ => d.chainLimit
  transition := fun _ e oq => match e with
    | .ev n => tget d.trans n oq
    | .goto _ => none
  timedEvent := fun _ oq => oq.bind fun q => timedOf d q
  setEventData := fun x t => ({ t with ctx := x }, .ok ())
  checkState := fun oq t => match oq with
    | some q => if d.states.contains q then (t, .ok ()) else (t, .error .valueError)
    | none => (t, .error .valueError)
  runCond := fun e t => match e with
    | .ev n => (t.emit (condLog d n t.ctx), .ok ((condsOf d n).all fun c => (c.2.eval t.ctx).truthy))
    | .goto _ => (t, .ok true)
  runCbExit := fun oq t => match oq with
    | some q => (t.emit (exitLog d q t.ctx), .ok ())
    | none => (t, .ok ())
  runCbEnter := fun oq t => match oq with
    | some q =>
      ({ t with f := (runCbs d q t.ctx t.f (entersOf d q)).1,
                log := t.log ++ (runCbs d q t.ctx t.f (entersOf d q)).2.2 },
       match (runCbs d q t.ctx t.f (entersOf d q)).2.1 with
       | some r => .error (excOfRes r)
       | none => .ok ())
    | none => (t, .ok ())
  sendEvents := fun kind t => match t.f.state with
    | some q =>
      (t.emit [if kind == "on_exit" then Action.onExit q t.f.output else Action.onEnter q t.f.output], .ok ())
    | none => (t, .ok ())
  sendNotrans := fun e oq t => match e, oq with
    | .ev n, some q => (t.emit [Action.notrans n q], .ok ())
    | _, _ => (t, .ok ())
  stopTimer := fun t => (t.emit [Action.stopTimer], .ok ())
  startTimer := fun _ te t => match t.f.state with
    | some q =>
      if te.2 then
        ({ t with f := (nested d t.f te.1 []).1,
                  log := t.log ++ Action.startTimer q :: (nested d t.f te.1 []).2.2 },
         if (nested d t.f te.1 []).2.1.isError then .error (excOfRes (nested d t.f te.1 []).2.1) else .ok ())
      else (t.emit [Action.startTimer q], .ok ())
    | none => (t, .ok ())
  calcOutput := fun t => match t.f.state with
    | some q => (t, .ok (Fsm.calcOutput d q))
    | none => (t, .error .assertion)
  setOutput := fun v t =>
    ({ t with f := (Fsm.setOutput t.f v).1, log := t.log ++ (Fsm.setOutput t.f v).2 }, .ok ())
  enableEvent := fun b t => { t with enabled := b }

/-! the primitives one by one (so that `prims d` itself is never unfolded) -/
theorem prims_exc (d : Def) : (prims d).exc = (excOf) := rfl
theorem prims_asGoto (d : Def) : (prims d).asGoto = (fun e => match e with | .goto q => some q | .ev _ => none) := rfl
theorem prims_isStr (d : Def) : (prims d).isStr = (fun e => match e with | .ev _ => true | .goto _ => false) := rfl
theorem prims_isEvent (d : Def) : (prims d).isEvent = (fun _ e => match e with | .ev n => d.events.contains n | .goto _ => false) := rfl
theorem prims_isMutableMapping (d : Def) : (prims d).isMutableMapping = (fun _ => true) := rfl
theorem prims_readOnly (d : Def) : (prims d).readOnly = (fun x => x) := rfl
theorem prims_dataGet (d : Def) : (prims d).dataGet = (fun x key => (x.get? key).getD Val.none) := rfl
theorem prims_isUndef (d : Def) : (prims d).isUndef = (fun v => v.isUndef) := rfl
theorem prims_getState (d : Def) : (prims d).getState = (fun t => t.f.state) := rfl
theorem prims_setState (d : Def) : (prims d).setState = (fun oq t => match oq with
    | some q => { t with f := { t.f with state := some q }, log := t.log ++ [Action.setState q] }
    | none => { t with f := { t.f with state := none } }) := rfl
theorem prims_getNext (d : Def) : (prims d).getNext = (fun t => t.f.next.map fun r => (r.etype, r.data, some r.target)) := rfl
theorem prims_setNext (d : Def) : (prims d).setNext = (fun o t =>
    { t with f := { t.f with next := o.bind fun x => x.2.2.map fun q => ⟨x.1, x.2.1, q⟩ } }) := rfl
theorem prims_getActive (d : Def) : (prims d).getActive = (fun t => t.f.active) := rfl
theorem prims_setActive (d : Def) : (prims d).setActive = (fun b t => { t with f := { t.f with active := b } }) := rfl
theorem prims_isInitialized (d : Def) : (prims d).isInitialized = (fun t => !t.f.output.isUndef) := rfl
theorem prims_chainLimit (d : Def) : (prims d).chainLimit = (fun _ => d.chainLimit) := rfl
theorem prims_transition (d : Def) : (prims d).transition = (fun _ e oq => match e with
    | .ev n => tget d.trans n oq
    | .goto _ => none) := rfl
theorem prims_timedEvent (d : Def) : (prims d).timedEvent = (fun _ oq => oq.bind fun q => timedOf d q) := rfl
theorem prims_setEventData (d : Def) : (prims d).setEventData = (fun x t => ({ t with ctx := x }, .ok ())) := rfl
theorem prims_checkState (d : Def) : (prims d).checkState = (fun oq t => match oq with
    | some q => if d.states.contains q then (t, .ok ()) else (t, .error .valueError)
    | none => (t, .error .valueError)) := rfl
theorem prims_runCond (d : Def) : (prims d).runCond = (fun e t => match e with
    | .ev n => (t.emit (condLog d n t.ctx), .ok ((condsOf d n).all fun c => (c.2.eval t.ctx).truthy))
    | .goto _ => (t, .ok true)) := rfl
theorem prims_runCbExit (d : Def) : (prims d).runCbExit = (fun oq t => match oq with
    | some q => (t.emit (exitLog d q t.ctx), .ok ())
    | none => (t, .ok ())) := rfl
theorem prims_runCbEnter (d : Def) : (prims d).runCbEnter = (fun oq t => match oq with
    | some q =>
      ({ t with f := (runCbs d q t.ctx t.f (entersOf d q)).1,
                log := t.log ++ (runCbs d q t.ctx t.f (entersOf d q)).2.2 },
       match (runCbs d q t.ctx t.f (entersOf d q)).2.1 with
       | some r => .error (excOfRes r)
       | none => .ok ())
    | none => (t, .ok ())) := rfl
theorem prims_sendEvents (d : Def) : (prims d).sendEvents = (fun kind t => match t.f.state with
    | some q =>
      (t.emit [if kind == "on_exit" then Action.onExit q t.f.output else Action.onEnter q t.f.output], .ok ())
    | none => (t, .ok ())) := rfl
theorem prims_sendNotrans (d : Def) : (prims d).sendNotrans = (fun e oq t => match e, oq with
    | .ev n, some q => (t.emit [Action.notrans n q], .ok ())
    | _, _ => (t, .ok ())) := rfl
theorem prims_stopTimer (d : Def) : (prims d).stopTimer = (fun t => (t.emit [Action.stopTimer], .ok ())) := rfl
theorem prims_startTimer (d : Def) : (prims d).startTimer = (fun _ te t => match t.f.state with
    | some q =>
      if te.2 then
        ({ t with f := (nested d t.f te.1 []).1,
                  log := t.log ++ Action.startTimer q :: (nested d t.f te.1 []).2.2 },
         if (nested d t.f te.1 []).2.1.isError then .error (excOfRes (nested d t.f te.1 []).2.1) else .ok ())
      else (t.emit [Action.startTimer q], .ok ())
    | none => (t, .ok ())) := rfl
theorem prims_calcOutput (d : Def) : (prims d).calcOutput = (fun t => match t.f.state with
    | some q => (t, .ok (Fsm.calcOutput d q))
    | none => (t, .error .assertion)) := rfl
theorem prims_setOutput (d : Def) : (prims d).setOutput = (fun v t =>
    ({ t with f := (Fsm.setOutput t.f v).1, log := t.log ++ (Fsm.setOutput t.f v).2 }, .ok ())) := rfl
theorem prims_enableEvent (d : Def) : (prims d).enableEvent = (fun b t => { t with enabled := b }) := rfl

/-- symbolic execution of the translated program on the model primitives -/
macro "t3simp" "[" ts:Lean.Parser.Tactic.simpLemma,* "]" : tactic =>
  `(tactic| simp [Gen.TrM.seq, Gen.TrM.branch, Gen.TrM.call, Gen.TrM.assign, Gen.TrM.skip, Gen.TrM.matchOpt,
      Gen.TrM.upd, Gen.TrM.ret, Gen.TrM.raise, Gen.TrM.brk, Gen.TrM.cont, Gen.TrM.tryFinally, Gen.TrM.forN,
      TS.emit, excOf,
      prims_exc, prims_asGoto, prims_isStr, prims_isEvent, prims_isMutableMapping, prims_readOnly, prims_dataGet, prims_isUndef, prims_getState, prims_setState, prims_getNext, prims_setNext, prims_getActive, prims_setActive, prims_isInitialized, prims_chainLimit, prims_transition, prims_timedEvent, prims_setEventData, prims_checkState, prims_runCond, prims_runCbExit, prims_runCbEnter, prims_sendEvents, prims_sendNotrans, prims_stopTimer, prims_startTimer, prims_calcOutput, prims_setOutput, prims_enableEvent, $ts,*])


/-- what is compared: the block (`_state`, output, `_fsm_event_active`, `_next_event`), the ordered log of
    actions and events with the data each read, and how the call ended -/
def view (r : TS × Flow Exc Bool) : Fsm × List Action × Flow Exc Bool := (r.1.f, r.1.log, r.2)

/-- the value returned, if the call returned -/
def retOf : Flow Exc Bool → Option Bool
  | .ret b => some b
  | _ => none

/-- how a round of the loop ends -/
def RoundEnds (st : Step) (fl : Flow Exc Bool) : Prop :=
  match st with
  | .fail r => fl = Flow.raise (excOfRes r)
  | .again => fl = Flow.cont
  | .done => fl = Flow.brk

/-- the rest of a round, after `self._state = newstate`: entry action, `continue`, timer, `continue`/`break`
    (`re` = the model's run of the entry callbacks, `q` the state entered) -/
macro "round_tail03" dd:term:max re:term:max q:term:max : tactic =>
  `(tactic| (
    have hst := (runCbs_same _ _ _ _ _ : Same _ $re.1).1
    generalize $re = r at hst ⊢
    obtain ⟨f1, err, l1⟩ := r
    simp only at hst
    cases err with
    | some r => simp [RoundEnds]
    | none =>
      cases hn1 : f1.next with
      | some x => simp [hn1, RoundEnds]
      | none =>
        cases ht : timedOf _ $q with
        | none => simp [hn1, ht, RoundEnds]
        | some te =>
          obtain ⟨tev, zero⟩ := te
          cases zero with
          | false => simp [hn1, ht, hst, RoundEnds]
          | true =>
            simp [hn1, ht, hst]
            have hs2 := (nested_same $dd f1 tev []).1
            generalize nested $dd f1 tev [] = r2 at hs2 ⊢
            obtain ⟨f2, r, l3⟩ := r2
            simp only at hs2
            cases hre : r.isError with
            | true => simp [hre, RoundEnds]
            | false => cases hn2 : f2.next <;> simp [hre, hn2, RoundEnds]))



/-- how the translated `for … else` ends, in terms of the model's loop result -/
def LoopEnds (r : Option Res) (fl : Flow Exc Bool) : Prop :=
  match r with
  | none => fl = Flow.next
  | some x => fl = Flow.raise (excOfRes x)

theorem seq_next {σ L X R : Type} {a b : Stmt (σ × L) X R} {sl sl1 : σ × L}
    (h : a sl = (sl1, Flow.next)) : seq a b sl = b sl1 := by
  simp only [seq, h]

theorem seq_stop {σ L X R : Type} {a b : Stmt (σ × L) X R} {sl sl1 : σ × L} {f : Flow X R}
    (h : a sl = (sl1, f)) (hf : f ≠ Flow.next) : seq a b sl = (sl1, f) := by
  simp only [seq, h]
  cases f <;> simp_all

theorem flowOf_error (r : Res) (h : r.isError = true) : flowOf r = Flow.raise (excOfRes r) := by
  cases r <;> simp_all [Res.isError, flowOf, excOfRes]

/-- the state and the pending request survive `set_output` -/
theorem setOutput_keeps (f : Fsm) (v : Val) :
    (Fsm.setOutput f v).1.state = f.state ∧ (Fsm.setOutput f v).1.next = f.next ∧
    (Fsm.setOutput f v).1.active = f.active := setOutput_same f v


/-! ### the hypothesis of the tie: an initialised FSM has a state -/

/-- `is_initialized()` implies `_state is not UNDEF` -/
def HasState (f : Fsm) : Prop := f.output.isUndef = false → f.state ≠ none

theorem loop_state (d : Def) (n : Nat) (f : Fsm) (cur : Req) :
    (loop d n f cur).1.state = f.state ∨ (loop d n f cur).1.state.isSome = true := by
  induction n generalizing f cur with
  | zero => left; rfl
  | succ n ih =>
    rw [loop_succ]
    have hp := enterState_props d f (unpack f cur) (unpackLog d f ++ [Action.setState (unpack f cur).target])
    rcases he : enterState d f (unpack f cur) (unpackLog d f ++ [Action.setState (unpack f cur).target]) with ⟨f1, st, l⟩
    rw [he] at hp
    have hs : f1.state.isSome = true := by
      have := hp.2.2.1
      simp only at this
      rw [this]; rfl
    cases st with
    | fail r => right; exact hs
    | done => right; exact hs
    | again =>
      right
      rcases ih f1 (unpack f cur) with h | h
      · simp only; rw [h]; exact hs
      · exact h

theorem ctxEvent_hasState (d : Def) (f : Fsm) (e : EType) (data : Data) (h : HasState f) :
    HasState (Fsm.ctxEvent d f e data).1 := by
  cases ha : f.active with
  | true =>
    have : Fsm.ctxEvent d f e data = nested d f e data := by simp [Fsm.ctxEvent, ha]
    rw [this]
    have hs := nested_same d f e data
    intro hu
    rw [hs.2.1] at hu
    rw [hs.1]; exact h hu
  | false =>
    rcases hc : check d f e data with ⟨l, r | tgt⟩
    · rw [ctxEvent_check_error d f e data l r hc]; exact h
    · cases hn : f.next with
      | some x => rw [ctxEvent_stale_next d f e data l tgt x hc ha hn]; exact h
      | none =>
        rw [ctxEvent_check_ok d f e data l tgt hc ha hn]
        rcases transition_cases d f e data tgt with ⟨f1, r, l1, hlo, _, ho, htr⟩ | ⟨f1, s, l1, _, hs, _, _, htr⟩
        · rw [htr]
          intro hu
          simp only at hu ⊢
          rw [ho] at hu
          have := loop_state d d.chainLimit { f with active := true } ⟨e, data, tgt⟩
          rw [hlo] at this
          rcases this with h' | h'
          · simp only at h'; rw [h']; exact h hu
          · simp only at h'; intro hn'; rw [hn'] at h'; cases h'
        · rw [htr]
          intro _
          simp only
          rw [(setOutput_same f1 (Fsm.calcOutput d s)).1, hs]
          simp

theorem run_hasState (d : Def) (f : Fsm) (evs : List (EType × Data)) (h : HasState f) :
    HasState (run d f evs).1 := by
  induction evs generalizing f with
  | nil => exact h
  | cons ev rest ih =>
    obtain ⟨e, data⟩ := ev
    rw [run_cons]
    exact ih _ (ctxEvent_hasState d f e data h)

end Edzed.TrTie.F03
