/-
C07 — the TIMING of `Cron._maintask`, as theorems about the translated loop.

`Gen.TrCron.mtStep` (one pass of `while True:`, regenerated from the source) is run in an ENVIRONMENT MODEL:
a wall clock read through `dtnow()`, the four ways of sleeping of the loop, bounded latencies.  All times are
rationals in SECONDS (the convention of `secondsUntil` / the tie: the float arithmetic of the code is treated
as exact).

  * `TimedEnv`   – the assumptions: clock reads are monotone and cost at most `L`; a sleep (blocking,
                   `asyncio.sleep`, `wait_for` time-out) returns no earlier than requested and at most `W` later;
                   a group of recalculations costs at most `C`; the wall clock may be moved FORWARD by declared
                   jumps (`off` = their running sum, at most `J` per primitive step; `J = 0`: no jumps).
  * `Res.wp`     – weakest precondition of a suspended pass for EVERY behaviour of the environment
                   (demonic choice of wake-up instants and of "item / time-out" at the queue); an exception fails
                   it, and every requested sleep must be positive and at most `M`.
  * `check_wp` / `body_wp` / `loop_wp` – the sleep loop `for step in range(3)`;
  * `pass_known` – one pass with a known index.
-/
import EdzedModel.Cron
import EdzedModel.Gen.TranslatedCron
import EdzedProofs.CronTie
import Mathlib.Tactic.Linarith
import Mathlib.Tactic.Ring
import Mathlib.Tactic.NormNum

namespace Edzed.Cron
open Gen.TrCron

section timing
variable {σ T DT B : Type}

/-- a time of day in seconds since midnight, from the four attributes the code reads -/
def todS (P : MtPrims σ T DT B) (t : T) : Rat :=
  secPerHour * P.hour t + secPerMin * P.minute t + P.second t + P.microsecond t / 1000000

/-- the ±12 h normalisation of `_maintask` -/
def normDay (s : Rat) : Rat :=
  if s < -secPerDay / 2 then s + secPerDay else if s > secPerDay / 2 then s - secPerDay else s

theorem secondsUntil_norm (P : MtPrims σ T DT B) (a n : T) :
    secondsUntil P a n = normDay (todS P a - todS P n) := by
  have e : secPerHour * (P.hour a - P.hour n) + secPerMin * (P.minute a - P.minute n)
      + (P.second a - P.second n) + (P.microsecond a - P.microsecond n) / 1000000
      = todS P a - todS P n := by unfold todS; ring
  unfold secondsUntil normDay
  simp only [e]

/-- the environment of one run of the loop -/
structure TimedEnv (P : MtPrims σ T DT B) where
  /-- the wall clock (seconds) in a state of the world -/
  clk : σ → Rat
  /-- the sum of the forward jumps of the wall clock declared so far -/
  off : σ → Rat
  /-- a clock reading in seconds, its day number -/
  abs : DT → Rat
  day : DT → Int
  /-- wake-up latency, cost of a clock read, cost of a group of recalculations, largest jump per step -/
  W : Rat
  L : Rat
  C : Rat
  J : Rat
  hW : 0 ≤ W
  hL : 0 ≤ L
  hC : 0 ≤ C
  hJ : 0 ≤ J
  tod_range : ∀ t, 0 ≤ todS P t ∧ todS P t < secPerDay
  abs_split : ∀ x, abs x = (day x : Rat) * secPerDay + todS P (P.timeOf x)
  /-- `dtnow()`: the reading is the clock at some instant of the call, which takes at most `L` -/
  read_lo : ∀ w, clk w ≤ abs (P.dtnow w).1
  read_hi : ∀ w, abs (P.dtnow w).1 ≤ clk (P.dtnow w).2
  read_cost : ∀ w, clk (P.dtnow w).2 - off (P.dtnow w).2 ≤ clk w - off w + L
  read_el : ∀ w, clk w - off w ≤ clk (P.dtnow w).2 - off (P.dtnow w).2
  read_off : ∀ w, off w ≤ off (P.dtnow w).2 ∧ off (P.dtnow w).2 ≤ off w + J
  /-- `time.sleep(d)` -/
  bsleep_lo : ∀ d w, clk w - off w + d ≤ clk (P.blockingSleep d w) - off (P.blockingSleep d w)
  bsleep_hi : ∀ d w, clk (P.blockingSleep d w) - off (P.blockingSleep d w) ≤ clk w - off w + d + W
  bsleep_off : ∀ d w, off w ≤ off (P.blockingSleep d w) ∧ off (P.blockingSleep d w) ≤ off w + J
  /-- `for blk in …: blk.recalc(x)` -/
  recalc_el : ∀ bs x w, clk w - off w ≤ clk (recalcAll P bs x w) - off (recalcAll P bs x w)
  recalc_cost : ∀ bs x w, clk (recalcAll P bs x w) - off (recalcAll P bs x w) ≤ clk w - off w + C
  recalc_off : ∀ bs x w, off w ≤ off (recalcAll P bs x w) ∧ off (recalcAll P bs x w) ≤ off w + J

variable {P : MtPrims σ T DT B}

/-- `w'` is reached from `w` by waiting at least `d` and at most `d + lat` seconds of elapsed time; the wall
    clock may have been moved forward meanwhile (by at most `J`) -/
def TimedEnv.Waited (E : TimedEnv P) (d lat : Rat) (w w' : σ) : Prop :=
  E.clk w - E.off w + d ≤ E.clk w' - E.off w' ∧ E.clk w' - E.off w' ≤ E.clk w - E.off w + d + lat ∧
  E.off w ≤ E.off w' ∧ E.off w' ≤ E.off w + E.J

/-- weakest precondition of a (suspended) pass: `Φ` holds at the end of the pass for every behaviour of the
    environment; every awaited sleep is positive and at most `M`; no exception -/
def wp (E : TimedEnv P) (M : Rat) (Φ : MtLocals T DT → σ → Prop) : Res (MtLocals T DT) σ → Prop
  | .next l w => Φ l w
  | .sleep d w k => 0 < d ∧ d ≤ M ∧ ∀ w', E.Waited d E.W w w' → wp E M Φ (k w')
  | .waitQueue t w k => 0 < t ∧ t ≤ M ∧ (∀ w', E.Waited t E.W w w' → wp E M Φ (k false w')) ∧
      (∀ w', E.Waited 0 (t + E.W) w w' → wp E M Φ (k true w'))
  | .raise _ _ _ => False

theorem wp_mono (E : TimedEnv P) (M : Rat) (Φ Ψ : MtLocals T DT → σ → Prop) (h : ∀ l w, Φ l w → Ψ l w)
    (r : Res (MtLocals T DT) σ) : wp E M Φ r → wp E M Ψ r := by
  induction r with
  | next l w => exact h l w
  | sleep d w k ih => exact fun ⟨a, b, c⟩ => ⟨a, b, fun w' hw => ih w' (c w' hw)⟩
  | waitQueue t w k ih =>
    exact fun ⟨a, b, c, d⟩ => ⟨a, b, fun w' hw => ih false w' (c w' hw), fun w' hw => ih true w' (d w' hw)⟩
  | raise e l w => exact id

/-- **the ±12 h normalisation is right inside the window**: for an instant `A` whose time of day is `a` and a
    reading less than 12 h away from it, the code's `sleeptime` is exactly `A − reading` -/
theorem secondsUntil_eq (E : TimedEnv P) (a : T) (x : DT) (A : Rat) (k : Int)
    (hA : A = (k : Rat) * secPerDay + todS P a)
    (h1 : -(secPerDay / 2) < A - E.abs x) (h2 : A - E.abs x < secPerDay / 2) :
    secondsUntil P a (P.timeOf x) = A - E.abs x := by
  rw [secondsUntil_norm]
  have hx := E.abs_split x
  have ha := E.tod_range a
  have hn := E.tod_range (P.timeOf x)
  have hd : secPerDay = (86400 : Rat) := rfl
  unfold normDay
  simp only [hd] at hx ha hn h1 h2 hA ⊢
  generalize todS P a = ta at *
  generalize todS P (P.timeOf x) = tn at *
  have hm : A - E.abs x = ((k - E.day x : Int) : Rat) * 86400 + (ta - tn) := by
    rw [hA, hx]; push_cast; ring
  generalize (k - E.day x) = m at hm
  rw [hm] at h1 h2 ⊢
  have hc : m ≤ -2 ∨ m = -1 ∨ m = 0 ∨ m = 1 ∨ 2 ≤ m := by omega
  rcases hc with h | h | h | h | h
  · have : (m : Rat) ≤ -2 := by exact_mod_cast h
    nlinarith
  · subst h
    have e1 : ¬ (ta - tn < -86400 / 2) := by push_cast at h1 h2; linarith [ha.1, ha.2, hn.1, hn.2]
    have e2 : ta - tn > 86400 / 2 := by push_cast at h1 h2; linarith [ha.1, ha.2, hn.1, hn.2]
    rw [if_neg e1, if_pos e2]; push_cast; ring
  · subst h
    have e1 : ¬ (ta - tn < -86400 / 2) := by push_cast at h1 h2; linarith [ha.1, ha.2, hn.1, hn.2]
    have e2 : ¬ (ta - tn > 86400 / 2) := by push_cast at h1 h2; linarith [ha.1, ha.2, hn.1, hn.2]
    rw [if_neg e1, if_neg e2]; push_cast; ring
  · subst h
    have e1 : ta - tn < -86400 / 2 := by push_cast at h1 h2; linarith [ha.1, ha.2, hn.1, hn.2]
    rw [if_pos e1]; push_cast; ring
  · have : (2 : Rat) ≤ m := by exact_mod_cast h
    nlinarith

/-! ## the sleep loop -/

/-- the state of the sleep loop at the beginning of `step = k` with a known index: `A` is the absolute
    instant (time of day `a = timetable[i]`) the pass is heading for, the latest reading `v7` is at most `G`
    before it, the clock is at most `D` past that reading and at most at `up` (both up to the jumps since the
    beginning of the pass, when their sum was `off0`) -/
structure LoopSt (E : TimedEnv P) (tt : List T) (n i : Nat) (a : T) (A G off0 : Rat)
    (k : Nat) (D up m : Rat) (L : MtLocals T DT) (w : σ) : Prop where
  h1 : L.v1 = false
  h2 : L.v2 = false
  h4 : L.v4 = tt
  h5 : L.v5 = n
  h6 : L.v6 = some i
  h8 : L.v8 = P.timeOf L.v7
  h9 : L.v9 = a
  hov : ttOk ≤ L.v0
  hglo : A - G ≤ E.abs L.v7
  he1 : k = 1 → A - L.v0 ≤ E.abs L.v7
  he2 : k = 2 → A ≤ E.abs L.v7
  hnow : E.abs L.v7 ≤ E.clk w
  hd : E.clk w ≤ E.abs L.v7 + D + (E.off w - off0)
  hup : E.clk w ≤ up + (E.off w - off0)
  hoff : off0 ≤ E.off w
  hoffm : E.off w ≤ off0 + m * E.J

/-- the state in which the sleep loop is left (`break` or exhaustion): the alarm is SERVED with a reading in
    `[A, A + _TT_ERROR]` (clock at most at `up`), or a RELOAD request arrived, or a clock problem was flagged
    (RESET) – the latter only with a reading more than `_TT_ERROR` past `A` -/
structure BrkSt (E : TimedEnv P) (tt : List T) (n i : Nat) (a : T) (A G off0 : Rat)
    (up m : Rat) (L : MtLocals T DT) (w : σ) : Prop where
  h4 : L.v4 = tt
  h5 : L.v5 = n
  h6 : L.v6 = some i
  h9 : L.v9 = a
  hov : ttOk ≤ L.v0
  hglo : A - G ≤ E.abs L.v7
  hnow : E.abs L.v7 ≤ E.clk w
  hoff : off0 ≤ E.off w
  hoffm : E.off w ≤ off0 + m * E.J
  hcase : (L.v1 = false ∧ L.v2 = false ∧ A ≤ E.abs L.v7 ∧ E.abs L.v7 ≤ A + ttError ∧
            E.clk w ≤ up + (E.off w - off0))
        ∨ (L.v1 = false ∧ L.v2 = true)
        ∨ (L.v1 = true ∧ L.v2 = false ∧ A + ttError < E.abs L.v7 ∧ E.clk w ≤ up + (E.off w - off0))

theorem BrkSt.mono {E : TimedEnv P} {tt : List T} {n i : Nat} {a : T} {A G off0 up m up' m' : Rat}
    {L : MtLocals T DT} {w : σ} (h : BrkSt E tt n i a A G off0 up m L w) (hu : up ≤ up') (hm : m ≤ m') :
    BrkSt E tt n i a A G off0 up' m' L w := by
  refine ⟨h.h4, h.h5, h.h6, h.h9, h.hov, h.hglo, h.hnow, h.hoff, ?_, ?_⟩
  · have := h.hoffm; have := E.hJ; nlinarith
  · rcases h.hcase with ⟨a1, a2, a3, a4, a5⟩ | h' | h'
    · exact Or.inl ⟨a1, a2, a3, a4, by linarith⟩
    · exact Or.inr (Or.inl h')
    · exact Or.inr (Or.inr ⟨h'.1, h'.2.1, h'.2.2.1, by linarith [h'.2.2.2]⟩)

theorem ttOk_pos : (0 : Rat) < ttOk := by unfold ttOk; norm_num

theorem Waited.refl (E : TimedEnv P) (w : σ) : E.Waited 0 E.W w w :=
  ⟨by linarith, by have := E.hW; linarith, le_refl _, by have := E.hJ; linarith⟩

/-- having waited `d ≤ s` seconds and read the clock again: the state of the next step -/
theorem after_wait (E : TimedEnv P) (tt : List T) (n i : Nat) (a : T) (A G off0 : Rat) (k : Nat) (D up m : Rat)
    (L : MtLocals T DT) (w : σ) (hD : 0 ≤ D)
    (St : LoopSt E tt n i a A G off0 k D up m L w) (hs : L.v11 = A - E.abs L.v7)
    (d : Rat) (hd0 : 0 ≤ d) (hds : d ≤ L.v11) (w' : σ) (hw : E.Waited d E.W w w')
    (hk1 : k = 1 → d = L.v11) (hlow : L.v11 - d ≤ L.v0)
    (L' : MtLocals T DT) (e0 : L'.v0 = L.v0) (e1 : L'.v1 = L.v1) (e2 : L'.v2 = L.v2) (e4 : L'.v4 = L.v4)
    (e5 : L'.v5 = L.v5) (e6 : L'.v6 = L.v6) (e9 : L'.v9 = L.v9)
    (e7 : L'.v7 = (P.dtnow w').1) (e8 : L'.v8 = P.timeOf (P.dtnow w').1) :
    LoopSt E tt n i a A G off0 (k + 1) E.L (A + D + E.W + E.L) (m + 2) L' (P.dtnow w').2 := by
  obtain ⟨h1, h2, h4, h5, h6, h8, h9, hov, hglo, he1, he2, hnow, hd, hup, hoff, hoffm⟩ := St
  obtain ⟨w1, w2, w3, w4⟩ := hw
  have r1 := E.read_lo w'
  have r2 := E.read_hi w'
  have r3 := E.read_cost w'
  have r4 := E.read_off w'
  have hJ := E.hJ
  have hW := E.hW
  have hL := E.hL
  have hok := ttOk_pos
  have hmj : (m + 2) * E.J = m * E.J + 2 * E.J := by ring
  refine ⟨by rw [e1]; exact h1, by rw [e2]; exact h2, by rw [e4]; exact h4, by rw [e5]; exact h5,
    by rw [e6]; exact h6, by rw [e8, e7], by rw [e9]; exact h9, by rw [e0]; exact hov, ?_, ?_, ?_, ?_, ?_, ?_, ?_, ?_⟩
  all_goals try rw [e7]
  · linarith
  · intro _; rw [e0]; linarith
  · intro hk; have := hk1 (by omega); linarith
  · exact r2
  · linarith
  · linarith
  · linarith [r4.1]
  · linarith [r4.2]

/-- **the four ways of sleeping** (`refSleep`) at steps 0 and 1, when the wake-up time is `s ≥ 0` ahead -/
theorem sleep_wp (E : TimedEnv P) (M : Rat) (Φ : MtLocals T DT → σ → Prop)
    (next brk : MtLocals T DT → σ → Res (MtLocals T DT) σ)
    (tt : List T) (n i : Nat) (a : T) (A G off0 : Rat) (k : Nat) (D up m : Rat)
    (L : MtLocals T DT) (w : σ) (hk : k ≤ 1) (hGM : G ≤ M) (hD : 0 ≤ D)
    (St : LoopSt E tt n i a A G off0 k D up m L w)
    (hs : L.v11 = A - E.abs L.v7) (hs0 : 0 ≤ L.v11)
    (hbrk : ∀ L' w', BrkSt E tt n i a A G off0 up (m + 2) L' w' → wp E M Φ (brk L' w'))
    (hnext : ∀ L' w', LoopSt E tt n i a A G off0 (k + 1) E.L (A + D + E.W + E.L) (m + 2) L' w' →
      wp E M Φ (next L' w')) :
    wp E M Φ (refSleep P next brk L w) := by
  have St' := St
  obtain ⟨h1, h2, h4, h5, h6, h8, h9, hov, hglo, he1, he2, hnow, hd, hup, hoff, hoffm⟩ := St
  have hJ := E.hJ
  have hW := E.hW
  have hok := ttOk_pos
  have hmj : (m + 2) * E.J = m * E.J + 2 * E.J := by ring
  unfold refSleep refAgain
  split_ifs with c0 c1 c2
  · -- no sleep at all
    apply hnext
    exact after_wait E tt n i a A G off0 k D up m L w hD St' hs 0 (le_refl _) hs0 w (Waited.refl E w)
      (fun h => by linarith) (by linarith) _ rfl rfl rfl rfl rfl rfl rfl rfl rfl
  · -- blocking sleep
    apply hnext
    have b1 := E.bsleep_lo L.v11 w
    have b2 := E.bsleep_hi L.v11 w
    have b3 := E.bsleep_off L.v11 w
    exact after_wait E tt n i a A G off0 k D up m L w hD St' hs L.v11 hs0 (le_refl _) _ ⟨b1, b2, b3.1, b3.2⟩
      (fun _ => rfl) (by linarith) _ rfl rfl rfl rfl rfl rfl rfl rfl rfl
  · -- asyncio.sleep
    refine ⟨lt_of_le_of_ne hs0 (Ne.symm c0), by linarith, fun w' hw => ?_⟩
    apply hnext
    exact after_wait E tt n i a A G off0 k D up m L w hD St' hs L.v11 hs0 (le_refl _) w' hw
      (fun _ => rfl) (by linarith) _ rfl rfl rfl rfl rfl rfl rfl rfl rfl
  · -- wait_for(queue.get(), s - overhead)
    have c2' : L.v0 < L.v11 := not_le.mp c2
    refine ⟨by linarith, by linarith, fun w' hw => ?_, fun w' hw => ?_⟩
    · simp only [Bool.false_eq_true, ↓reduceIte]
      apply hnext
      exact after_wait E tt n i a A G off0 k D up m L w hD St' hs (L.v11 - L.v0) (by linarith) (by linarith) w' hw
        (fun h => by have := he1 h; linarith) (by linarith) _ rfl rfl rfl rfl rfl rfl rfl rfl rfl
    · simp only [↓reduceIte]
      apply hbrk
      obtain ⟨w1, w2, w3, w4⟩ := hw
      exact ⟨h4, h5, h6, h9, hov, hglo, by show E.abs L.v7 ≤ E.clk w'; linarith, by linarith, by linarith,
        Or.inr (Or.inl ⟨h1, rfl⟩)⟩

/-- **the time check and the sleep of one step** (`refCheck`; `L.v11` = `A − reading`) -/
theorem check_wp (E : TimedEnv P) (M : Rat) (Φ : MtLocals T DT → σ → Prop)
    (next brk : MtLocals T DT → σ → Res (MtLocals T DT) σ)
    (tt : List T) (n i : Nat) (a : T) (A G off0 : Rat) (k : Nat) (D up m : Rat)
    (L : MtLocals T DT) (w : σ) (hk : k ≤ 2) (hGM : G ≤ M) (hD : 0 ≤ D)
    (St : LoopSt E tt n i a A G off0 k D up m L w) (h10 : L.v10 = k)
    (hs : L.v11 = A - E.abs L.v7)
    (hbrk : ∀ L' w', BrkSt E tt n i a A G off0 up (m + 2) L' w' → wp E M Φ (brk L' w'))
    (hnext : k ≤ 1 → ∀ L' w', LoopSt E tt n i a A G off0 (k + 1) E.L (A + D + E.W + E.L) (m + 2) L' w' →
      wp E M Φ (next L' w')) :
    wp E M Φ (refCheck P next brk L w) := by
  have St' := St
  obtain ⟨h1, h2, h4, h5, h6, h8, h9, hov, hglo, he1, he2, hnow, hd, hup, hoff, hoffm⟩ := St
  have hJ := E.hJ
  have hok := ttOk_pos
  have herr : ttError = 5 / 2 := rfl
  have hmj : (m + 2) * E.J = m * E.J + 2 * E.J := by ring
  unfold refCheck
  simp only [h1, h10, Bool.false_or]
  split_ifs with c1 c2 c3 c4
  · -- a clock problem is flagged
    apply hbrk
    refine ⟨h4, h5, h6, h9, hov, hglo, hnow, hoff, by linarith, Or.inr (Or.inr ⟨c2, h2, ?_, hup⟩)⟩
    show A + ttError < E.abs L.v7
    have c2' : (k = 2 ∧ L.v11 > 0) ∨ ratAbs L.v11 > ttError := by
      simpa only [Bool.or_eq_true, Bool.and_eq_true, beq_iff_eq, decide_eq_true_eq] using c2
    rcases c2' with ⟨k2, sp⟩ | c2'
    · have := he2 k2; linarith
    · unfold ratAbs at c2'
      split_ifs at c2' with sn
      · linarith
      · rcases c1 with c1 | c1
        · have := he2 (by omega); linarith
        · exact absurd c1 sn
  · -- the wake-up time has come (overhead estimate corrected)
    apply hbrk
    have cf : ¬ ((k = 2 ∧ L.v11 > 0) ∨ ratAbs L.v11 > ttError) := by
      simpa only [Bool.or_eq_true, Bool.and_eq_true, beq_iff_eq, decide_eq_true_eq] using c2
    have c22 : ¬ ratAbs L.v11 > ttError := fun h => cf (Or.inr h)
    unfold ratAbs at c22
    refine ⟨h4, h5, h6, h9, ?_, hglo, hnow, hoff, by linarith, Or.inl ⟨by simpa using c2, h2, ?_, ?_, hup⟩⟩
    · show ttOk ≤ L.v0 - (L.v11 + ttOk / 2) * (1 / 2)
      obtain ⟨_, _, c6'⟩ := c4
      have : L.v11 < -ttOk := by
        by_contra hh
        exact c6' ⟨by linarith, c3⟩
      linarith
    · show A ≤ E.abs L.v7; linarith
    · show E.abs L.v7 ≤ A + ttError
      split_ifs at c22 <;> linarith
  · -- the wake-up time has come
    apply hbrk
    have cf : ¬ ((k = 2 ∧ L.v11 > 0) ∨ ratAbs L.v11 > ttError) := by
      simpa only [Bool.or_eq_true, Bool.and_eq_true, beq_iff_eq, decide_eq_true_eq] using c2
    have c22 : ¬ ratAbs L.v11 > ttError := fun h => cf (Or.inr h)
    unfold ratAbs at c22
    refine ⟨h4, h5, h6, h9, hov, hglo, hnow, hoff, by linarith, Or.inl ⟨by simpa using c2, h2, ?_, ?_, hup⟩⟩
    · show A ≤ E.abs L.v7; linarith
    · show E.abs L.v7 ≤ A + ttError
      split_ifs at c22 <;> linarith
  · exfalso
    rcases c1 with c1 | c1
    · have := he2 (by omega); linarith
    · linarith
  · exfalso
    rcases c1 with c1 | c1
    · have := he2 (by omega); linarith
    · linarith
  · -- not late (steps 0, 1): sleep
    have hk1 : k ≤ 1 := by
      by_contra hh; exact c1 (Or.inl (by omega))
    have hs0 : 0 ≤ L.v11 := by
      by_contra hh; exact c1 (Or.inr (not_le.mp hh))
    exact sleep_wp E M Φ next brk tt n i a A G off0 k D up m L w hk1 hGM hD St' hs hs0 hbrk (hnext hk1)

theorem LoopSt.of_eq {E : TimedEnv P} {tt : List T} {n i : Nat} {a : T} {A G off0 : Rat} {k : Nat} {D up m : Rat}
    {L : MtLocals T DT} {w : σ} (St : LoopSt E tt n i a A G off0 k D up m L w) (L' : MtLocals T DT)
    (e0 : L'.v0 = L.v0) (e1 : L'.v1 = L.v1) (e2 : L'.v2 = L.v2) (e4 : L'.v4 = L.v4)
    (e5 : L'.v5 = L.v5) (e6 : L'.v6 = L.v6) (e7 : L'.v7 = L.v7) (e8 : L'.v8 = L.v8) (e9 : L'.v9 = L.v9) :
    LoopSt E tt n i a A G off0 k D up m L' w := by
  obtain ⟨h1, h2, h4, h5, h6, h8, h9, hov, hglo, he1, he2, hnow, hd, hup, hoff, hoffm⟩ := St
  exact ⟨by rw [e1]; exact h1, by rw [e2]; exact h2, by rw [e4]; exact h4, by rw [e5]; exact h5,
    by rw [e6]; exact h6, by rw [e8, e7]; exact h8, by rw [e9]; exact h9, by rw [e0]; exact hov,
    by rw [e7]; exact hglo, by rw [e0, e7]; exact he1, by rw [e7]; exact he2, by rw [e7]; exact hnow,
    by rw [e7]; exact hd, hup, hoff, hoffm⟩

/-- **one step of `for step in range(3)`** (`refBody`): inside the ±12 h window the computed `sleeptime` is
    `A − reading`, then `check_wp` -/
theorem body_wp (E : TimedEnv P) (M : Rat) (Φ : MtLocals T DT → σ → Prop)
    (next brk : MtLocals T DT → σ → Res (MtLocals T DT) σ)
    (tt : List T) (n i : Nat) (a : T) (A G off0 : Rat) (k : Nat) (D up m : Rat)
    (L : MtLocals T DT) (w : σ) (hk : k ≤ 2) (hGM : G ≤ M) (hD : 0 ≤ D)
    (St : LoopSt E tt n i a A G off0 k D up m L w) (h10 : L.v10 = k)
    (kA : Int) (hA : A = (kA : Rat) * secPerDay + todS P a)
    (hG : G < secPerDay / 2) (hwin : up + m * E.J < A + secPerDay / 2)
    (hbrk : ∀ L' w', BrkSt E tt n i a A G off0 up (m + 2) L' w' → wp E M Φ (brk L' w'))
    (hnext : k ≤ 1 → ∀ L' w', LoopSt E tt n i a A G off0 (k + 1) E.L (A + D + E.W + E.L) (m + 2) L' w' →
      wp E M Φ (next L' w')) :
    wp E M Φ (refBody P next brk L w) := by
  unfold refBody
  apply check_wp E M Φ next brk tt n i a A G off0 k D up m { L with v11 := secondsUntil P L.v9 L.v8 } w hk hGM hD
    (St.of_eq { L with v11 := secondsUntil P L.v9 L.v8 } rfl rfl rfl rfl rfl rfl rfl rfl rfl) h10 _ hbrk hnext
  show secondsUntil P L.v9 L.v8 = A - E.abs L.v7
  rw [St.h9, St.h8]
  apply secondsUntil_eq E a L.v7 A kA hA
  · have := St.hnow; have := St.hup; have := St.hoffm; linarith
  · have := St.hglo; linarith

/-- **the sleep loop** `for step in range(3)` followed by `brk` = what comes after it -/
theorem loop_wp (E : TimedEnv P) (M : Rat) (Φ : MtLocals T DT → σ → Prop)
    (tt : List T) (n i : Nat) (a : T) (A G off0 : Rat) (D up UP m : Rat)
    (L : MtLocals T DT) (w : σ) (hGM : G ≤ M) (hD : 0 ≤ D)
    (St : LoopSt E tt n i a A G off0 0 D up m L w)
    (kA : Int) (hA : A = (kA : Rat) * secPerDay + todS P a)
    (hG : G < secPerDay / 2)
    (hU0 : up ≤ UP) (hU1 : A + D + E.W + E.L ≤ UP) (hU2 : A + 2 * E.L + E.W ≤ UP)
    (hwin : UP + (m + 6) * E.J < A + secPerDay / 2)
    (htail : ∀ L' w', BrkSt E tt n i a A G off0 UP (m + 6) L' w' → wp E M Φ (refTail P L' w')) :
    wp E M Φ (mtFor1 P (List.range 3) L w) := by
  have e : List.range 3 = [0, 1, 2] := by decide
  have t : mtAfter1 P = refTail P := by funext L w; exact tail_is_ref P L w
  rw [e]
  simp only [mtFor1, body_is_ref, t]
  have hJ := E.hJ
  have hL := E.hL
  have m2 : (m + 2) * E.J = m * E.J + 2 * E.J := by ring
  have m4 : (m + 2 + 2) * E.J = m * E.J + 4 * E.J := by ring
  have m6 : (m + 6) * E.J = m * E.J + 6 * E.J := by ring
  apply body_wp E M Φ _ _ tt n i a A G off0 0 D up m { L with v10 := 0 } w (by omega) hGM hD
    (St.of_eq { L with v10 := 0 } rfl rfl rfl rfl rfl rfl rfl rfl rfl) rfl kA hA hG (by linarith)
  · intro L' w' hb
    exact htail L' w' (hb.mono hU0 (by linarith))
  · intro _ L1 w1 St1
    apply body_wp E M Φ _ _ tt n i a A G off0 1 E.L (A + D + E.W + E.L) (m + 2) { L1 with v10 := 1 } w1 (by omega) hGM hL
      (St1.of_eq { L1 with v10 := 1 } rfl rfl rfl rfl rfl rfl rfl rfl rfl) rfl kA hA hG (by linarith)
    · intro L' w' hb
      exact htail L' w' (hb.mono hU1 (by linarith))
    · intro _ L2 w2 St2
      apply body_wp E M Φ _ _ tt n i a A G off0 2 E.L (A + E.L + E.W + E.L) (m + 2 + 2) { L2 with v10 := 2 } w2 (by omega) hGM hL
        (St2.of_eq { L2 with v10 := 2 } rfl rfl rfl rfl rfl rfl rfl rfl rfl) rfl kA hA hG (by linarith)
      · intro L' w' hb
        exact htail L' w' (hb.mono (by linarith) (by linarith))
      · intro h; omega

/-! ## one pass -/

/-- how a pass that was heading for the instant `A` (time of day `a = timetable[i]`) ends.  `wr` is the world in
    which the sleep loop was left (after the last clock reading `L'.v7`):
    * SERVED: the reading is in `[A, A + _TT_ERROR]`, the clock was at most at `UP` (plus the jumps declared
      during the pass), exactly the blocks registered for `a` in `wr` were recalculated with that reading, and the
      index advanced by one;
    * RELOAD: a request arrived during `wait_for`; nothing was recalculated, the index is kept;
    * RESET: the reading was more than `_TT_ERROR` past `A`; EVERY block registered in `wr` was recalculated
      with it and the index is forgotten. -/
def PassOutcome (E : TimedEnv P) (tt : List T) (n i : Nat) (a : T) (A G off0 UP m : Rat)
    (L' : MtLocals T DT) (w' : σ) : Prop :=
  L'.v4 = tt ∧ L'.v5 = n ∧ L'.v9 = a ∧ ttOk ≤ L'.v0 ∧ L'.v1 = false ∧ A - G ≤ E.abs L'.v7 ∧
  ∃ wr, E.abs L'.v7 ≤ E.clk wr ∧ off0 ≤ E.off wr ∧ E.off wr ≤ off0 + m * E.J ∧
   ((L'.v2 = false ∧ L'.v6 = some ((i + 1) % n) ∧ A ≤ E.abs L'.v7 ∧ E.abs L'.v7 ≤ A + ttError ∧
       E.clk wr ≤ UP + (E.off wr - off0) ∧
       w' = if P.hasAlarm wr a then recalcAll P (P.clientsAt wr a) L'.v7 wr else wr)
    ∨ (L'.v2 = true ∧ L'.v6 = some i ∧ w' = wr)
    ∨ (L'.v2 = false ∧ L'.v6 = none ∧ A + ttError < E.abs L'.v7 ∧ E.clk wr ≤ UP + (E.off wr - off0) ∧
       w' = recalcAll P (P.allClients wr) L'.v7 wr))

/-- what follows the sleep loop (`refTail`) -/
theorem tail_wp (E : TimedEnv P) (M : Rat) (tt : List T) (n i : Nat) (a : T) (A G off0 UP m : Rat)
    (L : MtLocals T DT) (w : σ) (hb : BrkSt E tt n i a A G off0 UP m L w) :
    wp E M (PassOutcome E tt n i a A G off0 UP m) (refTail P L w) := by
  obtain ⟨h4, h5, h6, h9, hov, hglo, hnow, hoff, hoffm, hcase⟩ := hb
  unfold refTail
  rcases hcase with ⟨c1, c2, c3, c4, c5⟩ | ⟨c1, c2⟩ | ⟨c1, c2, c3, c4⟩
  · simp only [c1, c2, h6, Bool.false_eq_true, ↓reduceIte]
    exact ⟨h4, h5, h9, hov, rfl, hglo, w, hnow, hoff, hoffm, Or.inl ⟨rfl, by rw [h5], c3, c4, c5, by rw [h9]⟩⟩
  · simp only [c1, c2, Bool.false_eq_true, ↓reduceIte]
    exact ⟨h4, h5, h9, hov, c1, hglo, w, hnow, hoff, hoffm, Or.inr (Or.inl ⟨c2, h6, rfl⟩)⟩
  · simp only [c1, ↓reduceIte]
    exact ⟨h4, h5, h9, hov, rfl, hglo, w, hnow, hoff, hoffm, Or.inr (Or.inr ⟨c2, rfl, c3, c4, rfl⟩)⟩

/-- the loop at the beginning of a pass whose index is known: it is heading for the instant `A` (time of day
    `a = timetable[i]`), the latest reading is at most `G` before `A`, the clock at most `lat` after it -/
structure KnownSt (E : TimedEnv P) (tt : List T) (n i : Nat) (a : T) (A G lat : Rat)
    (L : MtLocals T DT) (w : σ) : Prop where
  h1 : L.v1 = false
  h2 : L.v2 = false
  h4 : L.v4 = tt
  h5 : L.v5 = n
  h6 : L.v6 = some i
  hget : tt[i]? = some a
  hov : ttOk ≤ L.v0
  hglo : A - G ≤ E.abs L.v7
  hnow : E.abs L.v7 ≤ E.clk w
  hlate : E.clk w ≤ A + lat

/-- **one pass with a known index**, for every behaviour of the environment -/
theorem pass_known (E : TimedEnv P) (M : Rat) (tt : List T) (n i : Nat) (a : T) (A G lat UP : Rat)
    (L : MtLocals T DT) (w : σ) (hGM : G ≤ M)
    (K : KnownSt E tt n i a A G lat L w)
    (kA : Int) (hA : A = (kA : Rat) * secPerDay + todS P a) (hG : G < secPerDay / 2)
    (hU0 : A + lat + E.L ≤ UP) (hU2 : A + 2 * E.L + E.W ≤ UP)
    (hwin : UP + 7 * E.J < A + secPerDay / 2) :
    wp E M (PassOutcome E tt n i a A G (E.off w) UP 7) (mtStep P L w) := by
  obtain ⟨h1, h2, h4, h5, h6, hget, hov, hglo, hnow, hlate⟩ := K
  rw [head_is_ref]
  unfold refHead refWake
  simp only [h2, Bool.false_eq_true, ↓reduceIte, h6, h4, hget]
  have r1 := E.read_lo w
  have r2 := E.read_hi w
  have r3 := E.read_cost w
  have r4 := E.read_off w
  have hL := E.hL
  have hJ := E.hJ
  apply loop_wp E M _ tt n i a A G (E.off w) E.L (A + lat + E.L) UP 1 _ _ hGM hL ?_ kA hA hG hU0
    (by linarith) hU2 (by linarith)
  · intro L' w' hb
    exact tail_wp E M tt n i a A G (E.off w) UP (1 + 6) L' w' hb |> fun h => by
      have e : (1 + 6 : Rat) = 7 := by norm_num
      rw [e] at h; exact h
  · exact ⟨h1, rfl, rfl, h5, rfl, rfl, rfl, hov, by show A - G ≤ E.abs (P.dtnow w).1; linarith,
      fun h => by omega, fun h => by omega, r2,
      by show E.clk (P.dtnow w).2 ≤ E.abs (P.dtnow w).1 + E.L + (E.off (P.dtnow w).2 - E.off w); linarith,
      by linarith, r4.1, by linarith [r4.2]⟩

/-! ## the timetable: consecutive alarms -/

/-- seconds from entry `i` of the timetable to the NEXT entry, cyclically (the last one is followed by the first
    one of the next day) -/
def nextGap (P : MtPrims σ T DT B) (tt : List T) (i : Nat) : Rat :=
  match tt[i]?, tt[(i + 1) % tt.length]? with
  | some x, some y => if i + 1 < tt.length then todS P y - todS P x else todS P y + secPerDay - todS P x
  | _, _ => 0

/-- `bisect.bisect_left(tt, q)` on the times of day: everything before the result is smaller, everything from it
    on is not -/
def BisectOk (P : MtPrims σ T DT B) (tt : List T) (q : T) : Prop :=
  P.bisectLeft tt q ≤ tt.length ∧
  (∀ i x, tt[i]? = some x → i < P.bisectLeft tt q → todS P x < todS P q) ∧
  (∀ i x, tt[i]? = some x → P.bisectLeft tt q ≤ i → todS P q ≤ todS P x)

/-- consecutive entries of the timetable are at least `g` and at most `G` apart, and `bisect_left` works on it -/
structure TTok (P : MtPrims σ T DT B) (tt : List T) (g G : Rat) : Prop where
  pos : 0 < tt.length
  gap_lo : ∀ i, i < tt.length → g ≤ nextGap P tt i
  gap_hi : ∀ i, i < tt.length → nextGap P tt i ≤ G
  bis : ∀ q, BisectOk P tt q

theorem nextGap_step (tt : List T) (i : Nat) (x y : T) (hx : tt[i]? = some x) (hy : tt[i + 1]? = some y)
    (h : i + 1 < tt.length) : nextGap P tt i = todS P y - todS P x := by
  unfold nextGap
  rw [Nat.mod_eq_of_lt h, hx, hy]
  simp only [h, ↓reduceIte]

theorem nextGap_wrap (tt : List T) (i : Nat) (x y : T) (hx : tt[i]? = some x) (hy : tt[0]? = some y)
    (h : i + 1 = tt.length) : nextGap P tt i = todS P y + secPerDay - todS P x := by
  unfold nextGap
  rw [h, Nat.mod_self, hx, hy]
  simp only [Nat.lt_irrefl, ↓reduceIte]

/-- **no alarm is skipped**: after a SERVED pass the loop is positioned at the NEXT entry of the timetable and is
    heading for the instant `A + nextGap` – the first instant after `A` whose time of day is in the timetable -/
theorem served_next (E : TimedEnv P) (tt : List T) (n i : Nat) (a : T) (A G g off0 UP m : Rat)
    (L' : MtLocals T DT) (w' : σ) (hlen : tt.length = n) (hi : i < n) (hget : tt[i]? = some a)
    (ok : TTok P tt g G) (kA : Int) (hA : A = (kA : Rat) * secPerDay + todS P a)
    (h : PassOutcome E tt n i a A G off0 UP m L' w') (hs : L'.v2 = false) (hs6 : L'.v6 ≠ none) :
    ∃ a' kA', tt[(i + 1) % n]? = some a' ∧
      A + nextGap P tt i = ((kA' : Int) : Rat) * secPerDay + todS P a' ∧
      A ≤ E.abs L'.v7 ∧ E.abs L'.v7 ≤ A + ttError ∧ E.abs L'.v7 ≤ UP + m * E.J ∧
      KnownSt E tt n ((i + 1) % n) a' (A + nextGap P tt i) G
        (UP - A + E.C + (m + 1) * E.J - nextGap P tt i) L' w' := by
  obtain ⟨h4, h5, h9, hov, h1, hglo, wr, hnow, hoff, hoffm, hc⟩ := h
  have hJ := E.hJ
  have hmj : (m + 1) * E.J = m * E.J + E.J := by ring
  rcases hc with ⟨c2, c6, c3, c4, c5, cw⟩ | ⟨c2, _⟩ | ⟨_, c6, _⟩
  · have hlt : (i + 1) % n < tt.length := by rw [hlen]; exact Nat.mod_lt _ (by omega)
    obtain ⟨a', hy⟩ : ∃ a', tt[(i + 1) % n]? = some a' := ⟨tt[(i + 1) % n], List.getElem?_eq_getElem hlt⟩
    refine ⟨a', ?_⟩
    have hgap := ok.gap_hi i (by omega)
    have hkA : ∃ kA' : Int, A + nextGap P tt i = (kA' : Rat) * secPerDay + todS P a' := by
      by_cases hw : i + 1 < tt.length
      · have e : (i + 1) % n = i + 1 := Nat.mod_eq_of_lt (by omega)
        refine ⟨kA, ?_⟩
        rw [nextGap_step tt i a a' hget (by rw [e] at hy; exact hy) hw, hA]; ring
      · have e : (i + 1) % n = 0 := by
          have : i + 1 = n := by omega
          rw [this]; exact Nat.mod_self n
        refine ⟨kA + 1, ?_⟩
        rw [nextGap_wrap tt i a a' hget (by rw [e] at hy; exact hy) (by omega), hA]
        push_cast; ring
    obtain ⟨kA', hk'⟩ := hkA
    have hclk : E.abs L'.v7 ≤ E.clk w' ∧ E.clk w' ≤ UP + E.C + (m + 1) * E.J := by
      rw [cw]
      have hC := E.hC
      split
      · have r1 := E.recalc_el (P.clientsAt wr a) L'.v7 wr
        have r2 := E.recalc_cost (P.clientsAt wr a) L'.v7 wr
        have r3 := E.recalc_off (P.clientsAt wr a) L'.v7 wr
        constructor <;> linarith [r3.1, r3.2]
      · constructor <;> linarith
    exact ⟨kA', hy, hk', c3, c4, by linarith,
      ⟨h1, c2, h4, h5, c6, hy, hov, by linarith, hclk.1, by linarith [hclk.2]⟩⟩
  · rw [c2] at hs; exact absurd hs (by decide)
  · exact absurd c6 hs6

/-! ## a pass that (re-)positions the index: start, reload, after a reset -/

theorem head_reload (L : MtLocals T DT) (w : σ) (h : L.v2 = true) :
    mtStep P L w = mtStep P ({ L with v2 := false, v4 := P.sortedUnion P.set24 (P.alarmKeys w), v5 := (P.sortedUnion P.set24 (P.alarmKeys w)).length, v6 := none } : MtLocals T DT) w := by
  rw [head_is_ref, head_is_ref]; unfold refHead; simp [h]

/-- **a pass with an unknown index** (no reload pending): ONE reading `r`; the index is positioned at the first
    entry of the timetable not before the time of day of `r`, i.e. the pass is heading for the first instant
    `A ≥ r` whose time of day is in the timetable (`A ≤ r + G`); all clients are recalculated with `r`; then the
    sleep loop as in `pass_known` (the recalculations add `C` to the bound) -/
theorem pass_resync (E : TimedEnv P) (M : Rat) (tt : List T) (n : Nat) (g G : Rat)
    (L : MtLocals T DT) (w : σ) (hGM : G ≤ M) (h1 : L.v1 = false) (h2 : L.v2 = false) (h6 : L.v6 = none)
    (h4 : L.v4 = tt) (h5 : L.v5 = n) (hlen : tt.length = n) (hov : ttOk ≤ L.v0)
    (ok : TTok P tt g G) (hb : BisectOk P tt (P.timeOf (P.dtnow w).1))
    (hG : G < secPerDay / 2)
    (hwin : 2 * E.L + E.W + E.C + 8 * E.J < secPerDay / 2) :
    ∃ idx a A, ∃ kA : Int, idx < n ∧ tt[idx]? = some a ∧ A = (kA : Rat) * secPerDay + todS P a ∧
      E.abs (P.dtnow w).1 ≤ A ∧ A ≤ E.abs (P.dtnow w).1 + G ∧
      wp E M (PassOutcome E tt n idx a A G (E.off w) (A + 2 * E.L + E.W + E.C) 8) (mtStep P L w) := by
  have hn : 0 < n := by rw [← hlen]; exact ok.pos
  set r := (P.dtnow w).1 with hr
  set q := P.timeOf r with hq
  obtain ⟨b1, b2, b3⟩ := hb
  set j := P.bisectLeft tt q with hj
  have hidx : j % n < tt.length := by rw [hlen]; exact Nat.mod_lt _ hn
  obtain ⟨a, ha⟩ : ∃ a, tt[j % n]? = some a := ⟨tt[j % n], List.getElem?_eq_getElem hidx⟩
  have hd : secPerDay = (86400 : Rat) := rfl
  have qr := E.tod_range q
  have ar := E.tod_range a
  have hx := E.abs_split r
  -- the last entry of the timetable and the wrap-around gap
  obtain ⟨z, hz⟩ : ∃ z, tt[n - 1]? = some z := ⟨tt[n - 1]'(by omega), List.getElem?_eq_getElem (by omega)⟩
  have zr := E.tod_range z
  -- the distance from the reading to the alarm
  have key : ∃ (A : Rat) (kA : Int), A = (kA : Rat) * secPerDay + todS P a ∧ E.abs r ≤ A ∧ A ≤ E.abs r + G := by
    by_cases hjn : j < n
    · have e : j % n = j := Nat.mod_eq_of_lt hjn
      rw [e] at ha
      have q_le := b3 j a ha (le_refl _)
      refine ⟨E.abs r + (todS P a - todS P q), E.day r, by rw [hx]; ring, by linarith, ?_⟩
      by_cases hj0 : j = 0
      · -- before the first entry
        have hw := nextGap_wrap (P := P) tt (n - 1) z a hz (by rw [hj0] at ha; exact ha) (by omega)
        have := ok.gap_hi (n - 1) (by omega)
        rw [hd] at *
        linarith [qr.1, zr.2]
      · obtain ⟨y, hy⟩ : ∃ y, tt[j - 1]? = some y :=
          ⟨tt[j - 1]'(by omega), List.getElem?_eq_getElem (by omega)⟩
        have y_lt := b2 (j - 1) y hy (by omega)
        have e1 : j - 1 + 1 = j := by omega
        have hs := nextGap_step (P := P) tt (j - 1) y a hy (by rw [e1]; exact ha) (by omega)
        have := ok.gap_hi (j - 1) (by omega)
        linarith
    · -- after the last entry: the first entry, tomorrow
      have ejn : j = n := by omega
      have e : j % n = 0 := by rw [ejn]; exact Nat.mod_self n
      rw [e] at ha
      have z_lt := b2 (n - 1) z hz (by omega)
      have hw := nextGap_wrap (P := P) tt (n - 1) z a hz ha (by omega)
      have := ok.gap_hi (n - 1) (by omega)
      refine ⟨E.abs r + (todS P a + secPerDay - todS P q), E.day r + 1, by rw [hx]; push_cast; ring, ?_, ?_⟩
      · rw [hd] at *; linarith [ar.1, qr.2]
      · linarith
  obtain ⟨A, kA, hA, hrA, hAr⟩ := key
  refine ⟨j % n, a, A, kA, Nat.mod_lt _ hn, ha, hA, hrA, hAr, ?_⟩
  rw [head_is_ref]
  unfold refHead refWake
  simp only [h2, Bool.false_eq_true, ↓reduceIte, h6, h4, h5, ← hr, ← hq, ← hj, ha]
  have r1 := E.read_lo w
  have r2 := E.read_hi w
  have r3 := E.read_cost w
  have r4 := E.read_off w
  have c1 := E.recalc_el (P.allClients (P.dtnow w).2) r (P.dtnow w).2
  have c2 := E.recalc_cost (P.allClients (P.dtnow w).2) r (P.dtnow w).2
  have c3 := E.recalc_off (P.allClients (P.dtnow w).2) r (P.dtnow w).2
  have hL := E.hL
  have hJ := E.hJ
  have hC := E.hC
  have hW := E.hW
  rw [← hr] at r1 r2
  apply loop_wp E M _ tt n (j % n) a A G (E.off w) (E.L + E.C) (A + E.L + E.C) (A + 2 * E.L + E.W + E.C) 2 _ _ hGM
    (by linarith) ?_ kA hA hG (by linarith) (by linarith) (by linarith) (by rw [hd] at hwin ⊢; linarith)
  · intro L' w' hb
    have e : (2 + 6 : Rat) = 8 := by norm_num
    have := tail_wp E M tt n (j % n) a A G (E.off w) (A + 2 * E.L + E.W + E.C) (2 + 6) L' w' hb
    rw [e] at this; exact this
  · exact ⟨h1, rfl, rfl, rfl, rfl, rfl, rfl, hov, by show A - G ≤ E.abs r; linarith,
      fun h => by omega, fun h => by omega,
      by show E.abs r ≤ E.clk _; linarith [c3.1],
      by show E.clk _ ≤ E.abs r + (E.L + E.C) + (E.off _ - E.off w); linarith [c3.1, r4.1],
      by show E.clk _ ≤ A + E.L + E.C + (E.off _ - E.off w); linarith [c3.1, r4.1],
      by linarith [c3.1, r4.1], by linarith [c3.2, r4.2]⟩

/-! ## every number of passes -/

/-- the first `N` passes from `(L, w)`: each one ends – for every behaviour of the environment – in a state that
    `Good` relates to the state it started in -/
def allPasses (E : TimedEnv P) (M : Rat) (Good : MtLocals T DT → σ → MtLocals T DT → σ → Prop) :
    Nat → MtLocals T DT → σ → Prop
  | 0, _, _ => True
  | N + 1, L, w => wp E M (fun L' w' => Good L w L' w' ∧ allPasses E M Good N L' w') (mtStep P L w)

/-- the service bound without clock jumps: wake-up latency + two clock reads + one group of recalculations -/
def lamServe (E : TimedEnv P) : Rat := 2 * E.L + E.W + E.C

/-- the state of the loop between two passes (no clock problem flagged; overhead estimate at least `_TT_OK`):
    a reload is pending, or the index is unknown, or the loop is positioned at entry `i` and heading for the
    instant `A`, the clock being at most `L + W + C` past it -/
def Ready (E : TimedEnv P) (g G : Rat) (L : MtLocals T DT) (w : σ) : Prop :=
  L.v1 = false ∧ ttOk ≤ L.v0 ∧
  (L.v2 = true
   ∨ (L.v2 = false ∧ L.v6 = none ∧ TTok P L.v4 g G ∧ L.v4.length = L.v5)
   ∨ (TTok P L.v4 g G ∧ L.v4.length = L.v5 ∧ ∃ i a A, ∃ kA : Int, i < L.v5 ∧
        A = (kA : Rat) * secPerDay + todS P a ∧ KnownSt E L.v4 L.v5 i a A G (E.L + E.W + E.C) L w))

/-- what every pass does when the clock does not jump: it was heading for an instant `A` of the timetable (entry
    `idx`) at most `G` after its first reading and either SERVED it with a reading in `[A, A + lamServe]` –
    recalculating exactly the blocks registered for that time of day – or was cut short by a reload request;
    it never ends in a reset -/
def GoodPass (E : TimedEnv P) (G : Rat) (L : MtLocals T DT) (w : σ) (L' : MtLocals T DT) (w' : σ) : Prop :=
  ∃ idx a A m, PassOutcome E L'.v4 L'.v5 idx a A G (E.off w) (A + lamServe E) m L' w' ∧ L'.v6 ≠ none

theorem KnownSt.mono {E : TimedEnv P} {tt : List T} {n i : Nat} {a : T} {A G lat lat' : Rat}
    {L : MtLocals T DT} {w : σ} (h : KnownSt E tt n i a A G lat L w) (hl : lat ≤ lat') :
    KnownSt E tt n i a A G lat' L w :=
  ⟨h.h1, h.h2, h.h4, h.h5, h.h6, h.hget, h.hov, h.hglo, h.hnow, by linarith [h.hlate]⟩

/-- from the outcome of a pass (no jumps, `lamServe ≤ _TT_ERROR`, alarms at least `L + C` apart) to the state
    before the next one -/
theorem ready_of_outcome (E : TimedEnv P) (g G : Rat) (tt : List T) (n idx : Nat) (a : T) (A m : Rat) (kA : Int)
    (w0 : σ) (L' : MtLocals T DT) (w' : σ) (hJ0 : E.J = 0) (hlam : lamServe E ≤ ttError) (hg : E.L + E.C ≤ g)
    (ok : TTok P tt g G) (hlen : tt.length = n) (hidx : idx < n) (hget : tt[idx]? = some a)
    (hA : A = (kA : Rat) * secPerDay + todS P a)
    (h : PassOutcome E tt n idx a A G (E.off w0) (A + lamServe E) m L' w') :
    GoodPass E G L' w0 L' w' ∧ Ready E g G L' w' := by
  have h' := h
  obtain ⟨h4, h5, h9, hov, h1, hglo, wr, hnow, hoff, hoffm, hc⟩ := h
  have hnr : L'.v6 ≠ none := by
    rcases hc with ⟨_, c6, _⟩ | ⟨_, c6, _⟩ | ⟨_, _, c3, c4, _⟩
    · rw [c6]; simp
    · rw [c6]; simp
    · exfalso; rw [hJ0] at hoffm; unfold lamServe at hlam c4; linarith
  refine ⟨⟨idx, a, A, m, by rw [h4, h5]; exact h', hnr⟩, h1, hov, ?_⟩
  by_cases h2 : L'.v2 = true
  · exact Or.inl h2
  · have h2' : L'.v2 = false := by simpa using h2
    obtain ⟨a', kA', hy, hk', _, _, _, K⟩ :=
      served_next E tt n idx a A G g (E.off w0) (A + lamServe E) m L' w' hlen hidx hget ok kA hA h' h2' hnr
    refine Or.inr (Or.inr ⟨by rw [h4]; exact ok, by rw [h4, h5]; exact hlen, (idx + 1) % n, a', _, kA',
      by rw [h5]; exact Nat.mod_lt _ (by omega), hk', ?_⟩)
    rw [h4, h5]
    apply K.mono
    have := ok.gap_lo idx (by omega)
    rw [hJ0]; unfold lamServe; linarith

/-- **the service guarantee for every number of passes** (no clock jumps: `J = 0`): from any state between two
    passes, each of the next `N` passes is a `GoodPass`, and no awaited sleep is longer than `G` -/
theorem all_passes_good (E : TimedEnv P) (g G : Rat) (hJ0 : E.J = 0) (hlam : lamServe E ≤ ttError)
    (hg : E.L + E.C ≤ g) (hG : G < secPerDay / 2)
    (htt : ∀ w, TTok P (P.sortedUnion P.set24 (P.alarmKeys w)) g G)
    (N : Nat) :
    ∀ (L : MtLocals T DT) (w : σ), Ready E g G L w → allPasses E G (GoodPass E G) N L w := by
  have herr : ttError = 5 / 2 := rfl
  have hd : secPerDay = (86400 : Rat) := rfl
  have hL := E.hL
  have hW := E.hW
  have hC := E.hC
  have hwin : 2 * E.L + E.W + E.C + 8 * E.J < secPerDay / 2 := by
    unfold lamServe at hlam; rw [hJ0, hd]; linarith
  induction N with
  | zero => intro L w _; trivial
  | succ N ih =>
    intro L w ⟨h1, hov, hc⟩
    unfold allPasses
    -- a pass with an unknown index, from locals `L0` that agree with what `mtStep` starts from
    have resync : ∀ L0 : MtLocals T DT, mtStep P L w = mtStep P L0 w → L0.v1 = false → L0.v2 = false →
        L0.v6 = none → TTok P L0.v4 g G → L0.v4.length = L0.v5 → ttOk ≤ L0.v0 →
        wp E G (fun L' w' => GoodPass E G L w L' w' ∧ allPasses E G (GoodPass E G) N L' w') (mtStep P L w) := by
      intro L0 e g1 g2 g6 gok glen gov
      obtain ⟨idx, a, A, kA, hidx, hget, hA, _, _, hw⟩ :=
        pass_resync E G L0.v4 L0.v5 g G L0 w (le_refl _) g1 g2 g6 rfl rfl glen gov gok (gok.bis _) hG hwin
      rw [e]
      refine wp_mono E G _ _ ?_ _ hw
      intro L' w' ho
      have e2 : A + 2 * E.L + E.W + E.C = A + lamServe E := by unfold lamServe; ring
      rw [e2] at ho
      have ⟨gp, rd⟩ := ready_of_outcome E g G L0.v4 L0.v5 idx a A 8 kA w L' w' hJ0 hlam hg gok glen hidx hget hA ho
      exact ⟨gp, ih L' w' rd⟩
    rcases hc with h2 | ⟨h2, h6, ok, hlen⟩ | ⟨ok, hlen, i, a, A, kA, hi, hA, K⟩
    · exact resync _ (head_reload L w h2) h1 rfl rfl (htt w) rfl hov
    · exact resync L rfl h1 h2 h6 ok hlen hov
    · have hw := pass_known E G L.v4 L.v5 i a A G (E.L + E.W + E.C) (A + lamServe E) L w (le_refl _) K kA hA hG
        (by unfold lamServe; linarith) (by unfold lamServe; linarith)
        (by unfold lamServe at hlam ⊢; rw [hJ0, hd]; linarith)
      refine wp_mono E G _ _ ?_ _ hw
      intro L' w' ho
      have ⟨gp, rd⟩ := ready_of_outcome E g G L.v4 L.v5 i a A 7 kA w L' w' hJ0 hlam hg ok hlen hi K.hget hA ho
      exact ⟨gp, ih L' w' rd⟩

/-! ## why consecutive alarms are at most one hour apart: the hourly entries of `_SET24` -/

/-- strictly increasing times of day (`sorted(…)` of a set of distinct times) -/
def SortedTT (P : MtPrims σ T DT B) (tt : List T) : Prop :=
  ∀ (i j : Nat) (x y : T), tt[i]? = some x → tt[j]? = some y → i < j → todS P x < todS P y

/-- every full hour is in the timetable (`_SET24`) -/
def Hourly (P : MtPrims σ T DT B) (tt : List T) : Prop :=
  ∀ h : Nat, h < 24 → ∃ t ∈ tt, todS P t = 3600 * (h : Rat)

theorem hour_of (x : Rat) (h0 : 0 ≤ x) (n : Nat) (hn : x < 3600 * (n : Rat)) :
    ∃ h : Nat, h < n ∧ 3600 * (h : Rat) ≤ x ∧ x < 3600 * ((h : Rat) + 1) := by
  induction n with
  | zero => exfalso; simp at hn; linarith
  | succ n ih =>
    by_cases hx : x < 3600 * (n : Rat)
    · obtain ⟨h, a, b, c⟩ := ih hx
      exact ⟨h, by omega, b, c⟩
    · refine ⟨n, by omega, by linarith, ?_⟩
      push_cast at hn; linarith

/-- **the longest distance in a sorted timetable that contains the 24 full hours is one hour** -/
theorem gap_le_hour (htod : ∀ t, 0 ≤ todS P t ∧ todS P t < secPerDay) (tt : List T) (hs : SortedTT P tt)
    (hh : Hourly P tt) (i : Nat) (hi : i < tt.length) : nextGap P tt i ≤ 3600 := by
  obtain ⟨x, hx⟩ : ∃ x, tt[i]? = some x := ⟨tt[i], List.getElem?_eq_getElem hi⟩
  have xr := htod x
  have hd : secPerDay = (86400 : Rat) := rfl
  rw [hd] at xr
  obtain ⟨h, h24, hlo, hhi⟩ := hour_of (todS P x) xr.1 24 (by push_cast; linarith [xr.2])
  -- an entry at a later full hour lies behind `i`
  have later : h + 1 < 24 → ∃ j t, tt[j]? = some t ∧ todS P t = 3600 * ((h : Rat) + 1) ∧ i < j := by
    intro hlt
    obtain ⟨t, ht, htod⟩ := hh (h + 1) hlt
    obtain ⟨j, hj⟩ := List.mem_iff_getElem?.mp ht
    push_cast at htod
    refine ⟨j, t, hj, htod, ?_⟩
    by_contra hij
    rcases Nat.lt_or_ge j i with hji | hji
    · have := hs j i t x hj hx hji; linarith
    · have e : j = i := by omega
      rw [e, hx] at hj
      have : x = t := by simpa using hj
      rw [this] at hhi; linarith
  by_cases hw : i + 1 < tt.length
  · obtain ⟨y, hy⟩ : ∃ y, tt[i + 1]? = some y := ⟨tt[i + 1], List.getElem?_eq_getElem hw⟩
    rw [nextGap_step tt i x y hx hy hw]
    have yr := htod y
    rw [hd] at yr
    by_cases hlt : h + 1 < 24
    · obtain ⟨j, t, hj, htod, hij⟩ := later hlt
      rcases Nat.lt_or_ge (i + 1) j with h1 | h1
      · have := hs (i + 1) j y t hy hj h1; linarith
      · have e : j = i + 1 := by omega
        rw [e, hy] at hj
        have : y = t := by simpa using hj
        rw [this]; linarith
    · have e : (h : Rat) = 23 := by
        have : h = 23 := by omega
        rw [this]; norm_num
      rw [e] at hlo; linarith [yr.2]
  · have hlast : i + 1 = tt.length := by omega
    obtain ⟨y, hy⟩ : ∃ y, tt[0]? = some y := ⟨tt[0], List.getElem?_eq_getElem (by omega)⟩
    rw [nextGap_wrap tt i x y hx hy hlast, hd]
    have yr := htod y
    have h23 : ¬ h + 1 < 24 := by
      intro hlt
      obtain ⟨j, t, hj, _, hij⟩ := later hlt
      have : j < tt.length := by
        by_contra hh'
        rw [List.getElem?_eq_none (by omega)] at hj; simp at hj
      omega
    have e : (h : Rat) = 23 := by
      have : h = 23 := by omega
      rw [this]; norm_num
    rw [e] at hlo
    -- the first entry is midnight
    obtain ⟨t0, ht0, htod0⟩ := hh 0 (by omega)
    obtain ⟨j, hj⟩ := List.mem_iff_getElem?.mp ht0
    have y0 : todS P y ≤ 0 := by
      rcases Nat.eq_zero_or_pos j with hj0 | hj0
      · rw [hj0, hy] at hj
        have : y = t0 := by simpa using hj
        rw [this, htod0]; simp
      · have := hs 0 j y t0 hy hj hj0
        rw [htod0] at this; simp at this; linarith
    linarith

end timing
end Edzed.Cron
