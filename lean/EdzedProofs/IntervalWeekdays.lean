/-
C13: weekday specifications of `TimeDate.parse` – a digit string means the sequence of its digits; order and
duplicates are irrelevant; 0 ≡ 7; the exported form parses to itself.  Core Lean only.
-/
import EdzedModel.Interval
import EdzedProofs.Interval
import EdzedProofs.IntervalText
import EdzedProofs.IntervalNotations

namespace Edzed.Interval

theorem weekdaysOfInts_congr (l1 l2 : List Int) (h : ∀ x, x ∈ l1 ↔ x ∈ l2) :
    weekdaysOfInts l1 = weekdaysOfInts l2 := by
  have hall : l1.all (fun x => decide (0 ≤ x) && decide (x ≤ 7)) = l2.all (fun x => decide (0 ≤ x) && decide (x ≤ 7)) := by
    rw [Bool.eq_iff_iff]
    simp only [List.all_eq_true]
    exact ⟨fun H x hx => H x ((h x).2 hx), fun H x hx => H x ((h x).1 hx)⟩
  have hf : ([1, 2, 3, 4, 5, 6, 7].filter fun d => (l1.map fun x => if x = 0 then 7 else x.toNat).contains d) =
      ([1, 2, 3, 4, 5, 6, 7].filter fun d => (l2.map fun x => if x = 0 then 7 else x.toNat).contains d) := by
    apply List.filter_congr
    intro d _
    rw [Bool.eq_iff_iff]
    simp only [List.contains_eq_mem, List.mem_map, decide_eq_true_eq]
    exact ⟨fun ⟨x, hx, e⟩ => ⟨x, (h x).1 hx, e⟩, fun ⟨x, hx, e⟩ => ⟨x, (h x).2 hx, e⟩⟩
  simp only [weekdaysOfInts, hall, hf]

theorem weekdaysOfInts_fold (l : List Int) :
    weekdaysOfInts (l.map fun x => if x = 0 then 7 else x) = weekdaysOfInts l := by
  have hall : (l.map fun x => if x = 0 then (7 : Int) else x).all (fun x => decide (0 ≤ x) && decide (x ≤ 7)) =
      l.all (fun x => decide (0 ≤ x) && decide (x ≤ 7)) := by
    rw [List.all_map]
    apply List.all_congr rfl
    intro x
    by_cases h0 : x = 0 <;> simp [h0]
  have hm : (l.map fun x => if x = 0 then (7 : Int) else x).map (fun x => if x = 0 then 7 else x.toNat) =
      l.map fun x => if x = 0 then 7 else x.toNat := by
    rw [List.map_map]
    apply List.map_congr_left
    intro x _
    by_cases h0 : x = 0 <;> simp [h0]
  simp only [weekdaysOfInts, hall, hm]

/-- what `weekdaysOfInts` returns is a sub-list of 1..7 selected by a predicate -/
theorem weekdaysOfInts_eq_ok {l : List Int} {w : List Nat} (h : weekdaysOfInts l = .ok w) :
    ∃ p : Nat → Bool, w = [1, 2, 3, 4, 5, 6, 7].filter p := by
  simp only [weekdaysOfInts] at h
  split at h
  · cases h; exact ⟨_, rfl⟩
  · cases h

theorem weekdaysOfInts_export (p : Nat → Bool) :
    weekdaysOfInts (([1, 2, 3, 4, 5, 6, 7].filter p).map Int.ofNat) = .ok ([1, 2, 3, 4, 5, 6, 7].filter p) := by
  have hall : (([1, 2, 3, 4, 5, 6, 7].filter p).map Int.ofNat).all (fun x => decide (0 ≤ x) && decide (x ≤ 7)) = true := by
    simp only [List.all_eq_true, List.mem_map, List.mem_filter]
    rintro x ⟨d, ⟨hd, -⟩, rfl⟩
    simp only [List.mem_cons, List.not_mem_nil, or_false] at hd
    rcases hd with rfl | rfl | rfl | rfl | rfl | rfl | rfl <;> decide
  have hf : ([1, 2, 3, 4, 5, 6, 7].filter fun d =>
        ((([1, 2, 3, 4, 5, 6, 7].filter p).map Int.ofNat).map fun x => if x = 0 then 7 else x.toNat).contains d) =
      [1, 2, 3, 4, 5, 6, 7].filter p := by
    apply List.filter_congr
    intro d hd
    rw [Bool.eq_iff_iff]
    simp only [List.contains_eq_mem, List.mem_map, List.mem_filter, decide_eq_true_eq]
    constructor
    · rintro ⟨x, ⟨e, ⟨he, hp⟩, rfl⟩, hx⟩
      have : e = d := by
        simp only [List.mem_cons, List.not_mem_nil, or_false] at he
        rcases he with rfl | rfl | rfl | rfl | rfl | rfl | rfl <;> simpa using hx
      rw [← this]; exact hp
    · intro hp
      refine ⟨Int.ofNat d, ⟨d, ⟨hd, hp⟩, rfl⟩, ?_⟩
      simp only [List.mem_cons, List.not_mem_nil, or_false] at hd
      rcases hd with rfl | rfl | rfl | rfl | rfl | rfl | rfl <;> decide
  simp only [weekdaysOfInts, hall, hf, ↓reduceIte]

/-- the character of a digit value -/
theorem char_of_dval {c : Char} (hc : isDigit c = true) : c = digitChar (dval c) := by
  have hb := isDigit_bound hc
  have h1 : dval c % 10 = dval c := by unfold dval; omega
  have h2 : 48 + dval c = c.toNat := by unfold dval; omega
  unfold digitChar
  rw [h1, h2]
  exact (Char.ofNat_toNat c).symm

/-- the non-blank characters of a weekday string -/
def wdChars (s : List Char) : List Char := s.filter fun c => !(c == ' ' || c == '\t')

/-- the digit values of a weekday string, in order -/
def wdDigits (s : List Char) : List Int := (wdChars s).map fun c => Int.ofNat (dval c)

theorem parseWeekdays_str_digits {s : List Char} (ha : asciiOk s = true)
    (hd : ∀ c ∈ s, c = ' ' ∨ c = '\t' ∨ isDigit c = true) :
    parseWeekdays (.str s) = parseWeekdays (.ints (wdDigits s)) := by
  have : (wdChars s).all isDigit = true := by
    simp only [wdChars, List.all_eq_true, List.mem_filter]
    rintro c ⟨hc, hn⟩
    rcases hd c hc with rfl | rfl | h
    · simp at hn
    · simp at hn
    · exact h
  have h' : (s.filter fun c => !(c == ' ' || c == '\t')).all isDigit = true := this
  simp only [parseWeekdays, ha, Bool.not_true, Bool.false_eq_true, ↓reduceIte, h', wdDigits, wdChars]

theorem parseWeekdays_str_nondigit {s : List Char} (ha : asciiOk s = true)
    (hx : ∃ c ∈ s, c ≠ ' ' ∧ c ≠ '\t' ∧ isDigit c = false) : parseWeekdays (.str s) = .err .value := by
  obtain ⟨c, hc, h1, h2, h3⟩ := hx
  have : (s.filter fun c => !(c == ' ' || c == '\t')).all isDigit = false := by
    rw [List.all_eq_false]
    exact ⟨c, List.mem_filter.2 ⟨hc, by simp [h1, h2]⟩, by simp [h3]⟩
  simp only [parseWeekdays, ha, Bool.not_true, Bool.false_eq_true, ↓reduceIte, this]

end Edzed.Interval
