/-
C05: order independence, sufficient direction (synchronous sources).

For an ACYCLIC on_output topology (a rank function that grows along every edge), routines that do not raise and
defined script values, the synchronous call tree of the initialisation never fails (the recursion guard is
never hit), every event initialises its destination, and at every quiescent point the set of initialised
blocks is closed under the edges.  Hence after `_init_sblocks_sync_2` the initialised blocks are exactly the
closure `Reach` of the blocks with an own source -- whatever the creation order.
The only model artefact in the hypotheses: the recursion budget was not exhausted (`NF`).
-/
import EdzedModel.Init
import EdzedProofs.Init
import EdzedProofs.InitOrder
import EdzedProofs.InitAsyncOrder

namespace Edzed.Init

/-- the recursion budget was never exhausted up to this state -/
def NF (s : St) : Prop := Entry.fuelOut ∉ s.log

theorem Ax.nf {s t : St} (h : Ax s t) (ht : NF t) : NF s := by
  obtain ⟨e, he, _⟩ := h.ext
  intro hs; apply ht; rw [he]; exact List.mem_append_left _ hs

/-- hypotheses on the circuit: acyclic init-event topology, non-raising routines, defined values -/
structure Hyp (c : Cfg) (rk : Nat → Nat) : Prop where
  acyc : ∀ b d, d ∈ (c.blk b).dests → rk b < rk d
  noRaise : ∀ b, (c.blk b).regular ≠ .raises
  noQuiet : ∀ b, (c.blk b).regular ≠ .quietNone
  pv : ∀ b v h, (c.blk b).persist = .restores v h → v.isUndef = false
  rv1 : ∀ b v, (c.blk b).regular = .sets v → v.isUndef = false
  rv2 : ∀ b v, (c.blk b).regular = .viaEvent v → v.isUndef = false
  dv : ∀ b v h, (c.blk b).initdef = some (v, h) → v.isUndef = false
  sv : ∀ b v, (c.blk b).start = some v → v.isUndef = false

theorem ne_undef_of_isUndef {v : Val} (h : v.isUndef = false) : v ≠ .undef := by
  intro e; rw [e] at h; simp [Val.isUndef] at h

theorem isUndef_of_ne {v : Val} (h : v ≠ .undef) : v.isUndef = false := by
  cases v <;> simp_all [Val.isUndef]

theorem pyEq_undef_left (v : Val) (h : Val.pyEq .undef v = true) : v = .undef := by
  cases v <;> simp_all [Val.pyEq]

/-- the outputs of the destinations of an initialised block are initialised -/
def Closed (c : Cfg) (s : St) (x : Nat) : Prop :=
  s.out x ≠ .undef → ∀ d ∈ (c.blk x).dests, s.out d ≠ .undef

/-- what the completed steps of a block guarantee -/
structure SI (c : Cfg) (s : St) : Prop where
  p : ∀ x, (s.steps x = 1 ∨ s.steps x = -2 ∨ s.steps x = 2) →
    (∃ v h, (c.blk x).persist = .restores v h) → s.out x ≠ .undef
  r : ∀ x, s.steps x = 2 →
    ((∃ v, (c.blk x).regular = .sets v) ∨ (∃ v, (c.blk x).regular = .viaEvent v) ∨
      (c.blk x).initdef.isSome = true) → s.out x ≠ .undef

theorem SI.of_mono {c : Cfg} {s t : St} (h : SI c s) (hs : t.steps = s.steps)
    (hm : ∀ x, s.out x ≠ .undef → t.out x ≠ .undef) : SI c t :=
  ⟨fun x hx hp => hm x (h.p x (by rw [hs] at hx; exact hx) hp),
   fun x hx hp => hm x (h.r x (by rw [hs] at hx; exact hx) hp)⟩

structure Good (c : Cfg) (ex : Nat → Prop) (s t : St) : Prop where
  ok : t.ok = true
  mono : ∀ x, s.out x ≠ .undef → t.out x ≠ .undef
  ce : ∀ P : Nat → Prop, (∀ x, ¬ P x → Closed c s x) → (∀ x, ¬ P x → Closed c t x)
  nn : ∀ x, ¬ ex x → 0 ≤ s.steps x → 0 ≤ t.steps x

theorem Good.rfl' {c : Cfg} {ex : Nat → Prop} {s : St} (h : s.ok = true) : Good c ex s s :=
  ⟨h, fun _ h => h, fun _ h => h, fun _ _ h => h⟩

theorem Good.trans {c : Cfg} {ex : Nat → Prop} {s t u : St} (h1 : Good c ex s t) (h2 : Good c ex t u) :
    Good c ex s u :=
  ⟨h2.ok, fun x h => h2.mono x (h1.mono x h), fun P h => h2.ce P (h1.ce P h),
   fun x hx h => h2.nn x hx (h1.nn x hx h)⟩

theorem Good.weaken {c : Cfg} {ex ex' : Nat → Prop} {s t : St} (h : Good c ex s t)
    (hw : ∀ x, ex x → ex' x) : Good c ex' s t :=
  ⟨h.ok, h.mono, h.ce, fun x hx => h.nn x (fun e => hx (hw x e))⟩

/-- a step that leaves the outputs alone -/
theorem Good.prim {c : Cfg} {ex : Nat → Prop} {s t : St} (hok : t.ok = true) (hout : t.out = s.out)
    (hnn : ∀ x, ¬ ex x → 0 ≤ s.steps x → 0 ≤ t.steps x) : Good c ex s t :=
  ⟨hok, fun x h => by rw [hout]; exact h,
   fun P h x hx => by
     have := h x hx
     unfold Closed at this ⊢
     rw [hout]; exact this,
   hnn⟩

def ActLt (rk : Nat → Nat) (s : St) (r : Nat) : Prop := ∀ a, s.active a = true → rk a < r
def ActLe (rk : Nat → Nat) (s : St) (r : Nat) : Prop := ∀ a, s.active a = true → rk a ≤ r

def Pre (rk : Nat → Nat) : Call → St → Prop
  | .event d v, s => v.isUndef = false ∧ ActLt rk s (rk d)
  | .setOutput b v, s => v.isUndef = false ∧ ActLe rk s (rk b)
  | .send ds v, s => v.isUndef = false ∧ ∀ d ∈ ds, ActLt rk s (rk d)
  | .initS b _, s => ActLt rk s (rk b)

def Spec : Call → St → St → Prop
  | .event d _, _, t => t.out d ≠ .undef
  | .setOutput b _, _, t => t.out b ≠ .undef
  | .send ds _, _, t => ∀ d ∈ ds, t.out d ≠ .undef
  | .initS b full, s, t => (s.steps b = 0 → full = false → t.steps b = 1) ∧
      ((s.steps b = 1 ∨ (s.steps b = 0 ∧ full = true)) → t.steps b = 2)

/-- the result of a call under the hypotheses -/
structure Res (c : Cfg) (ex : Nat → Prop) (s t : St) : Prop where
  good : Good c ex s t
  act : ∀ a, t.active a = s.active a
  si : SI c s → SI c t

theorem Res.rfl' {c : Cfg} {ex : Nat → Prop} {s : St} (h : s.ok = true) : Res c ex s s :=
  ⟨Good.rfl' h, fun _ => rfl, fun h => h⟩

theorem Res.trans {c : Cfg} {ex : Nat → Prop} {s t u : St} (h1 : Res c ex s t) (h2 : Res c ex t u) :
    Res c ex s u :=
  ⟨h1.good.trans h2.good, fun a => by rw [h2.act, h1.act], fun h => h2.si (h1.si h)⟩

theorem Res.weaken {c : Cfg} {ex ex' : Nat → Prop} {s t : St} (h : Res c ex s t)
    (hw : ∀ x, ex x → ex' x) : Res c ex' s t :=
  ⟨h.good.weaken hw, h.act, h.si⟩

/-- a step that changes neither outputs, nor steps, nor the active flags -/
theorem Res.prim {c : Cfg} {ex : Nat → Prop} {s t : St} (hok : t.ok = true) (hout : t.out = s.out)
    (hst : t.steps = s.steps) (hact : t.active = s.active) : Res c ex s t :=
  ⟨Good.prim hok hout (fun x _ h => by rw [hst]; exact h), fun a => by rw [hact],
   fun h => h.of_mono hst (fun x hx => by rw [hout]; exact hx)⟩

def GSpec (c : Cfg) (rk : Nat → Nat) (rec : Call → St → St) : Prop :=
  ∀ call s, Pre rk call s → s.ok = true → NF (rec call s) →
    Res c (fun _ => False) s (rec call s) ∧ Spec call s (rec call s)

theorem setOutputBody_g (c : Cfg) (rk : Nat → Nat) (hyp : Hyp c rk) (rec : Call → St → St)
    (hg : GSpec c rk rec) (b : Nat) (v : Val) (s : St) (hv : v.isUndef = false)
    (hact : ActLe rk s (rk b)) (hok : s.ok = true) (hnf : NF (setOutputBody c rec b v s)) :
    Res c (fun _ => False) s (setOutputBody c rec b v s) ∧ (setOutputBody c rec b v s).out b ≠ .undef := by
  unfold setOutputBody at hnf ⊢
  simp only [hv, Bool.false_eq_true, if_false] at hnf ⊢
  by_cases hp : (s.out b).pyEq v = true
  · simp only [hp, if_true]
    refine ⟨Res.rfl' hok, ?_⟩
    intro hu
    rw [hu] at hp
    have := pyEq_undef_left v hp
    exact ne_undef_of_isUndef hv this
  · simp only [hp, Bool.false_eq_true, if_false] at hnf ⊢
    have hvn := ne_undef_of_isUndef hv
    have hpre : Pre rk (.send (c.blk b).dests v) (s.setOut b v) :=
      ⟨hv, fun d hd a ha => Nat.lt_of_le_of_lt (hact a ha) (hyp.acyc b d hd)⟩
    obtain ⟨hr, hs⟩ := hg _ _ hpre hok hnf
    have hmono0 : ∀ x, s.out x ≠ .undef → (s.setOut b v).out x ≠ .undef := by
      intro x hx
      by_cases e : x = b
      · subst e; simpa using hvn
      · simpa [upd, e] using hx
    have hb : (rec (.send (c.blk b).dests v) (s.setOut b v)).out b ≠ .undef :=
      hr.good.mono b (by simpa using hvn)
    refine ⟨⟨⟨hr.good.ok, fun x hx => hr.good.mono x (hmono0 x hx), ?_, fun x hx h => hr.good.nn x hx h⟩,
      hr.act, fun h => hr.si (h.of_mono rfl hmono0)⟩, hb⟩
    intro P hP x hx
    by_cases e : x = b
    · subst e
      intro _ d hd
      exact hs d hd
    · refine hr.good.ce (fun y => P y ∨ y = b) ?_ x (fun h => h.elim hx e)
      intro y hy
      have hyP : ¬ P y := fun h => hy (Or.inl h)
      have hyb : y ≠ b := fun h => hy (Or.inr h)
      have hc := hP y hyP
      intro hout d hd
      have hout' : s.out y ≠ .undef := by simpa [upd, hyb] using hout
      exact hmono0 d (hc hout' d hd)

theorem sendBody_g (c : Cfg) (rk : Nat → Nat) (rec : Call → St → St)
    (hg : GSpec c rk rec) (hax : AxSpec rec) (ds : List Nat) (v : Val) (s : St) (hv : v.isUndef = false)
    (hact : ∀ d ∈ ds, ActLt rk s (rk d)) (hok : s.ok = true) (hnf : NF (sendBody rec ds v s)) :
    Res c (fun _ => False) s (sendBody rec ds v s) ∧ ∀ d ∈ ds, (sendBody rec ds v s).out d ≠ .undef := by
  unfold sendBody at hnf ⊢
  cases ds with
  | nil => exact ⟨Res.rfl' hok, fun d hd => by cases hd⟩
  | cons d r =>
    dsimp only at hnf ⊢
    have hnf1 : NF (rec (.event d v) s) := (hax (.send r v) _).nf hnf
    obtain ⟨h1, s1⟩ := hg (.event d v) s ⟨hv, hact d (List.mem_cons_self ..)⟩ hok hnf1
    have hpre2 : Pre rk (.send r v) (rec (.event d v) s) :=
      ⟨hv, fun x hx a ha => hact x (List.mem_cons_of_mem _ hx) a (by rw [← h1.act]; exact ha)⟩
    obtain ⟨h2, s2⟩ := hg (.send r v) _ hpre2 h1.good.ok hnf
    refine ⟨h1.trans h2, ?_⟩
    intro x hx
    rcases List.mem_cons.mp hx with rfl | hx
    · exact h2.good.mono _ s1
    · exact s2 x hx

theorem handlerFrame_of_ok (s : St) (h : s.ok = true) : s.handlerFrame = s := by
  unfold St.handlerFrame
  have : s.exc.isSome = false := by
    simp only [St.ok, Bool.and_eq_true] at h
    cases he : s.exc <;> simp_all
  simp [this]

theorem Good.prim' {c : Cfg} {ex : Nat → Prop} {s t : St} (hok : t.ok = true) (hout : t.out = s.out)
    (hst : t.steps = s.steps) : Good c ex s t :=
  Good.prim hok hout (fun x _ h => by rw [hst]; exact h)

/-- the second half of `SBlock.event`: the handler, with the block marked active -/
theorem handler_g (c : Cfg) (rk : Nat → Nat) (rec : Call → St → St)
    (hg : GSpec c rk rec) (d : Nat) (v : Val) (s s2 : St) (hv : v.isUndef = false)
    (hact : ActLt rk s (rk d)) (hnd : s.active d = false)
    (h2ok : s2.ok = true) (h2g : Good c (fun _ => False) s s2) (h2si : SI c s → SI c s2)
    (h2act : ∀ a, s2.active a = if a = d then true else s.active a)
    (hnf : NF ((if s2.ok = true then
      (rec (.setOutput d v) (s2.push (.handle d v (s2.steps d)))).handlerFrame else s2).setActive d false)) :
    Res c (fun _ => False) s ((if s2.ok = true then
      (rec (.setOutput d v) (s2.push (.handle d v (s2.steps d)))).handlerFrame else s2).setActive d false) ∧
    ((if s2.ok = true then
      (rec (.setOutput d v) (s2.push (.handle d v (s2.steps d)))).handlerFrame else s2).setActive d false).out d
      ≠ .undef := by
  simp only [h2ok, if_true] at hnf ⊢
  have hpre : Pre rk (.setOutput d v) (s2.push (.handle d v (s2.steps d))) := by
    refine ⟨hv, fun a ha => ?_⟩
    have ha' : s2.active a = true := ha
    rw [h2act] at ha'
    by_cases e : a = d
    · subst e; exact Nat.le_refl _
    · simp only [e, if_false] at ha'
      exact Nat.le_of_lt (hact a ha')
  have hnfw : NF (rec (.setOutput d v) (s2.push (.handle d v (s2.steps d)))) := by
    intro h; apply hnf
    simpa using h
  obtain ⟨hr, hs⟩ := hg _ _ hpre (by simpa using h2ok) hnfw
  rw [handlerFrame_of_ok _ hr.good.ok] at hnf ⊢
  have g1 : Good c (fun _ => False) s2 (s2.push (.handle d v (s2.steps d))) :=
    Good.prim' (by simpa using h2ok) rfl rfl
  have g3 : Good c (fun _ => False) (rec (.setOutput d v) (s2.push (.handle d v (s2.steps d))))
      ((rec (.setOutput d v) (s2.push (.handle d v (s2.steps d)))).setActive d false) :=
    Good.prim' (by simpa using hr.good.ok) rfl rfl
  refine ⟨⟨h2g.trans (g1.trans (hr.good.trans g3)), ?_, ?_⟩, by have := hs; simpa [Spec] using this⟩
  · intro a
    show upd _ d false a = s.active a
    by_cases e : a = d
    · subst e; simp [upd, hnd]
    · have := hr.act a
      have h2 := h2act a
      simp only [e, if_false] at h2
      simp only [upd, e, if_false]
      rw [this]; exact h2
  · intro h
    have h3 := hr.si ((h2si h).of_mono rfl (fun x hx => hx))
    exact h3.of_mono rfl (fun x hx => hx)

theorem eventBody_g (c : Cfg) (rk : Nat → Nat) (rec : Call → St → St)
    (hg : GSpec c rk rec) (hax : AxSpec rec) (d : Nat) (v : Val) (s : St) (hv : v.isUndef = false)
    (hact : ActLt rk s (rk d)) (hok : s.ok = true) (hnf : NF (eventBody rec d v s)) :
    Res c (fun _ => False) s (eventBody rec d v s) ∧ (eventBody rec d v s).out d ≠ .undef := by
  have hnd : s.active d = false := by
    cases h : s.active d with
    | false => rfl
    | true => exact absurd (hact d h) (Nat.lt_irrefl _)
  unfold eventBody at hnf ⊢
  dsimp only at hnf ⊢
  have e1 : (s.push (.arrive d)).active d = false := hnd
  simp only [e1, Bool.false_eq_true, if_false] at hnf ⊢
  have gA : Good c (fun _ => False) s ((s.push (.arrive d)).setActive d true) :=
    Good.prim' (by simpa using hok) rfl rfl
  have siA : SI c s → SI c ((s.push (.arrive d)).setActive d true) :=
    fun h => h.of_mono rfl (fun x hx => hx)
  by_cases hc : 0 ≤ ((s.push (.arrive d)).setActive d true).steps d ∧
      ((s.push (.arrive d)).setActive d true).steps d < 2
  · simp only [hc, and_self, if_true] at hnf ⊢
    -- early initialisation with the flag cleared
    have hactB : ∀ a, (((s.push (.arrive d)).setActive d true).setActive d false).active a = s.active a := by
      intro a
      show upd (upd s.active d true) d false a = s.active a
      by_cases e : a = d
      · subst e; simp [upd, hnd]
      · simp [upd, e]
    have hpre : Pre rk (.initS d true) (((s.push (.arrive d)).setActive d true).setActive d false) :=
      fun a ha => hact a (by rw [← hactB a]; exact ha)
    have hnfu : NF (rec (.initS d true) (((s.push (.arrive d)).setActive d true).setActive d false)) := by
      refine Ax.nf ?_ hnf
      refine (Ax.of_eq (s := (rec (.initS d true) (((s.push (.arrive d)).setActive d true).setActive d false))) (t := (rec (.initS d true) (((s.push (.arrive d)).setActive d true).setActive d false)).setActive d true) rfl rfl).trans ?_
      refine Ax.trans (t := if ((rec (.initS d true)
          (((s.push (.arrive d)).setActive d true).setActive d false)).setActive d true).ok = true then _ else _)
        ?_ (Ax.of_eq rfl rfl)
      split
      · exact (Ax.push _ _ rfl (fun _ => by simp [syncKind])).trans ((hax _ _).trans
          (Ax.of_eq (handlerFrame_log _) (handlerFrame_steps _)))
      · exact Ax.rfl' _
    obtain ⟨hr, _⟩ := hg _ _ hpre (by simpa using hok) hnfu
    refine handler_g c rk rec hg d v s _ hv hact hnd (by simpa using hr.good.ok) ?_ ?_ ?_ hnf
    · exact gA.trans ((Good.prim' (s := (s.push (.arrive d)).setActive d true) (t := (((s.push (.arrive d)).setActive d true).setActive d false))
          (by simpa using hok) rfl rfl).trans
        (hr.good.trans (Good.prim' (s := (rec (.initS d true) (((s.push (.arrive d)).setActive d true).setActive d false))) (t := (rec (.initS d true) (((s.push (.arrive d)).setActive d true).setActive d false)).setActive d true)
          (by simpa using hr.good.ok) rfl rfl)))
    · intro h
      have h1 := hr.si ((siA h).of_mono rfl (fun x hx => hx))
      exact h1.of_mono rfl (fun x hx => hx)
    · intro a
      show upd _ d true a = _
      by_cases e : a = d
      · subst e; simp [upd]
      · simp only [upd, e, if_false]
        rw [hr.act a, hactB a]
  · simp only [hc, if_false] at hnf ⊢
    refine handler_g c rk rec hg d v s _ hv hact hnd (by simpa using hok) gA siA ?_ hnf
    intro a
    show upd s.active d true a = _
    by_cases e : a = d
    · subst e; simp [upd]
    · simp [upd, e]

/-! ### `init_sblock` -/

theorem swallow_ok_of_ok (s : St) (h : s.ok = true) : s.swallow.ok = true := by
  simp only [St.ok, St.swallow, Bool.and_eq_true] at h ⊢
  exact ⟨rfl, h.2⟩

theorem SI.setSteps {c : Cfg} {s : St} (h : SI c s) (b : Nat) (k : Int)
    (hp : (k = 1 ∨ k = -2 ∨ k = 2) → (∃ v h, (c.blk b).persist = .restores v h) → s.out b ≠ .undef)
    (hr : k = 2 → ((∃ v, (c.blk b).regular = .sets v) ∨ (∃ v, (c.blk b).regular = .viaEvent v) ∨
      (c.blk b).initdef.isSome = true) → s.out b ≠ .undef) : SI c (s.setSteps b k) := by
  constructor
  · intro x hx hpx
    by_cases e : x = b
    · subst e; simp only [setSteps_steps, upd_same] at hx; exact hp hx hpx
    · simp only [setSteps_steps, upd, e, if_false] at hx; exact h.p x hx hpx
  · intro x hx hrx
    by_cases e : x = b
    · subst e; simp only [setSteps_steps, upd_same] at hx; exact hr hx hrx
    · simp only [setSteps_steps, upd, e, if_false] at hx; exact h.r x hx hrx

theorem Good.setSteps {c : Cfg} (s : St) (b : Nat) (k : Int) (hok : s.ok = true) :
    Good c (· = b) s (s.setSteps b k) :=
  Good.prim (by simpa using hok) rfl (fun x hx h => by simpa [upd, hx] using h)

theorem Res.close {c : Cfg} {b : Nat} {s t : St} (h : Res c (· = b) s t)
    (hb : 0 ≤ s.steps b → 0 ≤ t.steps b) : Res c (fun _ => False) s t :=
  ⟨⟨h.good.ok, h.good.mono, h.good.ce, fun x _ hx => by
      by_cases e : x = b
      · subst e; exact hb hx
      · exact h.good.nn x e hx⟩, h.act, h.si⟩

theorem applyCall_g (c : Cfg) (rk : Nat → Nat) (rec : Call → St → St) (hg : GSpec c rk rec)
    (how : How) (b : Nat) (v : Val) (s : St) (hv : v.isUndef = false) (hact : ActLt rk s (rk b))
    (hok : s.ok = true) (hnf : NF (rec (applyCall how b v) s)) :
    Res c (fun _ => False) s (rec (applyCall how b v) s) ∧ (rec (applyCall how b v) s).out b ≠ .undef := by
  cases how with
  | direct => exact hg (.setOutput b v) s ⟨hv, fun a ha => Nat.le_of_lt (hact a ha)⟩ hok hnf
  | viaEvent => exact hg (.event b v) s ⟨hv, hact⟩ hok hnf

theorem step1_g (c : Cfg) (rk : Nat → Nat) (hyp : Hyp c rk) (rec : Call → St → St) (hg : GSpec c rk rec)
    (b : Nat) (s : St) (hact : ActLt rk s (rk b)) (hok : s.ok = true) (hnf : NF (step1 c rec b s)) :
    Res c (· = b) s (step1 c rec b s) := by
  unfold step1 at hnf ⊢
  dsimp only at hnf ⊢
  have r1 : Res c (· = b) s (s.setSteps b (-1)) :=
    ⟨Good.setSteps s b _ hok, fun _ => rfl, fun h => h.setSteps b _ (by omega) (by omega)⟩
  split at hnf
  · next hp =>
    try simp only [hp]
    refine r1.trans ⟨Good.setSteps _ b _ (by simpa using hok), fun _ => rfl, fun h => ?_⟩
    exact h.setSteps b _ (fun _ ⟨v, hh, e⟩ => by rw [hp] at e; cases e) (by omega)
  · next hp =>
    try simp only [hp]
    have r2 : Res c (· = b) (s.setSteps b (-1)) ((s.setSteps b (-1)).push (.restore b)) :=
      Res.prim (by simpa using hok) rfl rfl rfl
    refine (r1.trans r2).trans ⟨Good.setSteps _ b _ (by simpa using hok), fun _ => rfl, fun h => ?_⟩
    exact h.setSteps b _ (fun _ ⟨v, hh, e⟩ => by rw [hp] at e; cases e) (by omega)
  · next v how hp =>
    try simp only [hp]
    have r2 : Res c (· = b) (s.setSteps b (-1)) ((s.setSteps b (-1)).push (.restore b)) :=
      Res.prim (by simpa using hok) rfl rfl rfl
    have hnfu : NF (rec (applyCall how b v) ((s.setSteps b (-1)).push (.restore b))) := by
      intro h; apply hnf; simpa using h
    obtain ⟨hr, ho⟩ := applyCall_g c rk rec hg how b v ((s.setSteps b (-1)).push (.restore b)) (hyp.pv b v how hp)
      (fun a ha => hact a ha) (by simpa using hok) hnfu
    have r4 : Res c (· = b) (rec (applyCall how b v) ((s.setSteps b (-1)).push (.restore b)))
        (rec (applyCall how b v) ((s.setSteps b (-1)).push (.restore b))).swallow :=
      Res.prim (swallow_ok_of_ok _ hr.good.ok) rfl rfl rfl
    refine (((r1.trans r2).trans (hr.weaken (fun _ h => h.elim))).trans r4).trans
      ⟨Good.setSteps _ b _ (swallow_ok_of_ok _ hr.good.ok), fun _ => rfl, fun h => ?_⟩
    exact h.setSteps b _ (fun _ _ => ho) (by omega)

theorem regularBody_g (c : Cfg) (rk : Nat → Nat) (hyp : Hyp c rk) (rec : Call → St → St)
    (hg : GSpec c rk rec) (b : Nat) (s : St) (hact : ActLt rk s (rk b)) (hok : s.ok = true)
    (hnf : NF (regularBody c rec b s)) :
    Res c (fun _ => False) s (regularBody c rec b s) ∧
    (((∃ v, (c.blk b).regular = .sets v) ∨ (∃ v, (c.blk b).regular = .viaEvent v)) →
      (regularBody c rec b s).out b ≠ .undef) := by
  unfold regularBody at hnf ⊢
  split at hnf
  · next hr =>
    try simp only [hr]
    exact ⟨Res.rfl' hok, fun h => by rcases h with ⟨v, e⟩ | ⟨v, e⟩ <;> cases e⟩
  · next v hr =>
    try simp only [hr]
    obtain ⟨h1, h2⟩ := hg (.setOutput b v) s ⟨hyp.rv1 b v hr, fun a ha => Nat.le_of_lt (hact a ha)⟩ hok hnf
    exact ⟨h1, fun _ => h2⟩
  · next v hr =>
    try simp only [hr]
    obtain ⟨h1, h2⟩ := hg (.event b v) s ⟨hyp.rv2 b v hr, hact⟩ hok hnf
    exact ⟨h1, fun _ => h2⟩
  · next hr => exact absurd hr (hyp.noRaise b)
  · next hr => exact absurd hr (hyp.noQuiet b)

theorem initdefBody_g (c : Cfg) (rk : Nat → Nat) (hyp : Hyp c rk) (rec : Call → St → St)
    (hg : GSpec c rk rec) (b : Nat) (s : St) (hact : ActLt rk s (rk b)) (hok : s.ok = true)
    (hnf : NF (initdefBody c rec b s)) :
    Res c (fun _ => False) s (initdefBody c rec b s) ∧
    ((c.blk b).initdef.isSome = true → (initdefBody c rec b s).out b ≠ .undef) := by
  unfold initdefBody at hnf ⊢
  split at hnf
  · next v how hd =>
    try simp only [hd]
    by_cases hu : (s.out b).isUndef = true
    · simp only [hu, if_true] at hnf ⊢
      have r1 : Res c (fun _ => False) s (s.push (.initdef b true)) :=
        Res.prim (by simpa using hok) rfl rfl rfl
      obtain ⟨h1, h2⟩ := applyCall_g c rk rec hg how b v (s.push (.initdef b true)) (hyp.dv b v how hd)
        (fun a ha => hact a ha) (by simpa using hok) hnf
      exact ⟨r1.trans h1, fun _ => h2⟩
    · simp only [hu, Bool.false_eq_true, if_false] at hnf ⊢
      refine ⟨Res.rfl' hok, fun _ hx => ?_⟩
      rw [hx] at hu; simp [Val.isUndef] at hu
  · next hd =>
    try simp only [hd]
    exact ⟨Res.rfl' hok, fun h => by simp at h⟩

theorem step2_g (c : Cfg) (rk : Nat → Nat) (hyp : Hyp c rk) (rec : Call → St → St) (hg : GSpec c rk rec)
    (hax : AxSpec rec) (b : Nat) (s : St) (h1 : s.steps b = 1) (hact : ActLt rk s (rk b)) (hok : s.ok = true)
    (hnf : NF (step2 c rec b s)) :
    Res c (· = b) s (step2 c rec b s) ∧ (step2 c rec b s).steps b = 2 := by
  have hstep := step2_ok_steps c rec b s
  unfold step2 at hnf hstep ⊢
  dsimp only at hnf hstep ⊢
  generalize ha : regularBody c rec b ((s.setSteps b (-2)).push (.regular b)) = a at hnf hstep ⊢
  have hAxa : Ax a (if (!a.ok) = true then a else
      if (!(initdefBody c rec b a).ok) = true then initdefBody c rec b a
      else (initdefBody c rec b a).setSteps b 2) := by
    split
    · exact Ax.rfl' a
    · refine (initdefBody_ax c rec hax b a).trans ?_
      split
      · exact Ax.rfl' _
      · exact Ax.setSteps _ b 2 (by decide)
  have hnfa : NF a := hAxa.nf hnf
  obtain ⟨ra, hra⟩ := regularBody_g c rk hyp rec hg b ((s.setSteps b (-2)).push (.regular b)) hact
    (by simpa using hok) (by rw [ha]; exact hnfa)
  rw [ha] at ra hra
  have haok : a.ok = true := ra.good.ok
  simp only [haok, Bool.not_true, Bool.false_eq_true, if_false] at hnf hstep ⊢
  have hnfr : NF (initdefBody c rec b a) := by
    refine Ax.nf ?_ hnf
    split
    · exact Ax.rfl' _
    · exact Ax.setSteps _ b 2 (by decide)
  obtain ⟨rr, hrr⟩ := initdefBody_g c rk hyp rec hg b a (fun x hx => hact x (by
    have := ra.act x; rw [this] at hx; exact hx)) haok hnfr
  have hrok : (initdefBody c rec b a).ok = true := rr.good.ok
  simp only [hrok, Bool.not_true, Bool.false_eq_true, if_false] at hnf hstep ⊢
  refine ⟨?_, by simp⟩
  have r0 : Res c (· = b) s ((s.setSteps b (-2)).push (.regular b)) := by
    refine ⟨(Good.setSteps s b _ hok).trans (Good.prim' (by simpa using hok) rfl rfl), fun _ => rfl, fun h => ?_⟩
    exact (h.setSteps b _ (fun _ hp => h.p b (Or.inl h1) hp) (by omega)).of_mono rfl (fun x hx => hx)
  refine ⟨((r0.good.trans (ra.good.weaken (fun _ h => h.elim))).trans
      (rr.good.weaken (fun _ h => h.elim))).trans (Good.setSteps _ b _ hrok), ?_, ?_⟩
  · intro x
    show (initdefBody c rec b a).active x = s.active x
    rw [rr.act, ra.act]; rfl
  · intro hSI
    have hSr : SI c (initdefBody c rec b a) := rr.si (ra.si (r0.si hSI))
    apply hSr.setSteps b 2
    · intro _ hp
      have h0 : s.out b ≠ .undef := hSI.p b (Or.inl h1) hp
      exact rr.good.mono b (ra.good.mono b h0)
    · intro _ hx
      rcases hx with hx | hx | hx
      · exact rr.good.mono b (hra (Or.inl hx))
      · exact rr.good.mono b (hra (Or.inr hx))
      · exact hrr hx

theorem initBody_g (c : Cfg) (rk : Nat → Nat) (hyp : Hyp c rk) (rec : Call → St → St) (hg : GSpec c rk rec)
    (hax : AxSpec rec) (hf : FrameSpec rec) (b : Nat) (full : Bool) (s : St)
    (hact : ActLt rk s (rk b)) (hok : s.ok = true) (hnf : NF (initBody c rec b full s)) :
    Res c (fun _ => False) s (initBody c rec b full s) ∧ Spec (.initS b full) s (initBody c rec b full s) := by
  by_cases h0 : s.steps b = 0
  · have e : initBody c rec b full s =
        if full = true ∧ (step1 c rec b s).ok = true then step2 c rec b (step1 c rec b s)
        else step1 c rec b s := by
      unfold initBody; simp [h0]
    rw [e] at hnf ⊢
    have hnf1 : NF (step1 c rec b s) := by
      refine Ax.nf ?_ hnf
      split
      · exact step2_ax c rec hax b _
      · exact Ax.rfl' _
    have r1 := step1_g c rk hyp rec hg b s hact hok hnf1
    have hs1 : (step1 c rec b s).steps b = 1 := step1_steps c rec b s
    cases full with
    | false =>
      simp only [Bool.false_eq_true, false_and, if_false] at hnf ⊢
      refine ⟨r1.close (fun _ => by rw [hs1]; decide), fun _ _ => hs1, fun h => ?_⟩
      rcases h with h | ⟨_, h⟩
      · omega
      · cases h
    | true =>
      simp only [r1.good.ok, and_self, if_true] at hnf ⊢
      obtain ⟨r2, hs2⟩ := step2_g c rk hyp rec hg hax b _ hs1
        (fun a ha => hact a (by rw [← r1.act a]; exact ha)) r1.good.ok hnf
      have hspec : Spec (.initS b true) s (step2 c rec b (step1 c rec b s)) :=
        ⟨fun _ h => Bool.noConfusion h, fun _ => hs2⟩
      exact ⟨(r1.trans r2).close (fun _ => by rw [hs2]; decide), hspec⟩
  · by_cases h1 : s.steps b = 1
    · have e : initBody c rec b full s = if s.ok = true then step2 c rec b s else s := by
        unfold initBody; simp [h1]
      rw [e] at hnf ⊢
      simp only [hok, if_true] at hnf ⊢
      obtain ⟨r2, hs2⟩ := step2_g c rk hyp rec hg hax b s h1 hact hok hnf
      exact ⟨r2.close (fun _ => by rw [hs2]; decide), fun h => absurd h h0, fun _ => hs2⟩
    · have e : initBody c rec b full s = s := by
        unfold initBody; simp [h0, h1]
      rw [e]
      refine ⟨Res.rfl' hok, fun h => absurd h h0, fun h => ?_⟩
      rcases h with h | ⟨h, _⟩
      · exact absurd h h1
      · exact absurd h h0

theorem body_g (c : Cfg) (rk : Nat → Nat) (hyp : Hyp c rk) (rec : Call → St → St) (hg : GSpec c rk rec)
    (hax : AxSpec rec) (hf : FrameSpec rec) : GSpec c rk (body c rec) := by
  intro call s hpre hok hnf
  unfold body at hnf ⊢
  simp only [hok, Bool.not_true, Bool.false_eq_true, if_false] at hnf ⊢
  cases call with
  | setOutput b v => exact setOutputBody_g c rk hyp rec hg b v s hpre.1 hpre.2 hok hnf
  | send ds v => exact sendBody_g c rk rec hg hax ds v s hpre.1 hpre.2 hok hnf
  | event d v => exact eventBody_g c rk rec hg hax d v s hpre.1 hpre.2 hok hnf
  | initS b full => exact initBody_g c rk hyp rec hg hax hf b full s hpre hok hnf

theorem exec_g (c : Cfg) (rk : Nat → Nat) (hyp : Hyp c rk) : ∀ fuel, GSpec c rk (exec c fuel)
  | 0 => by
    intro call s _ hok hnf
    exfalso
    apply hnf
    simp [exec, hok, St.raise]
  | fuel + 1 => body_g c rk hyp (exec c fuel) (exec_g c rk hyp fuel) (exec_ax c fuel) (exec_frame c fuel)

/-! ### the phases -/

/-- what holds between the top-level calls of the start-up -/
structure Top (c : Cfg) (s : St) : Prop where
  ok : s.ok = true
  act : ∀ a, s.active a = false
  si : SI c s
  cl : ∀ x, Closed c s x
  nn : ∀ x, 0 ≤ s.steps x
  j : J s

theorem monitor_of_ok (s : St) (h : s.ok = true) : s.monitor = s := by
  unfold St.monitor
  have : s.exc.isSome = false := by
    simp only [St.ok, Bool.and_eq_true] at h
    cases he : s.exc <;> simp_all
  simp [this]

theorem top_call (c : Cfg) (rk : Nat → Nat) (hyp : Hyp c rk) (call : Call) (s : St) (h : Top c s)
    (hpre : Pre rk call s) (hnf : NF (exec c c.fuel call s)) :
    Top c (exec c c.fuel call s) ∧ Spec call s (exec c c.fuel call s) ∧
    (∀ x, s.out x ≠ .undef → (exec c c.fuel call s).out x ≠ .undef) := by
  obtain ⟨r, sp⟩ := exec_g c rk hyp c.fuel call s hpre h.ok hnf
  refine ⟨⟨r.good.ok, fun a => by rw [r.act a]; exact h.act a, r.si h.si, ?_, ?_, exec_J c c.fuel call s h.j⟩,
    sp, r.good.mono⟩
  · exact fun x => r.good.ce (fun _ => False) (fun y _ => h.cl y) x (fun e => e)
  · exact fun x => r.good.nn x (fun e => e) (h.nn x)

theorem pre_setOutput_top (c : Cfg) (rk : Nat → Nat) (s : St) (h : Top c s) (b : Nat) (v : Val)
    (hv : v.isUndef = false) : Pre rk (.setOutput b v) s :=
  ⟨hv, fun a ha => by rw [h.act a] at ha; cases ha⟩

theorem pre_initS_top (c : Cfg) (rk : Nat → Nat) (s : St) (h : Top c s) (b : Nat) (full : Bool) :
    Pre rk (.initS b full) s :=
  fun a ha => by rw [h.act a] at ha; cases ha

theorem Top.of_eq {c : Cfg} {s t : St} (h : Top c s) (hok : t.ok = true) (hact : t.active = s.active)
    (hout : t.out = s.out) (hst : t.steps = s.steps) (hlog : ∀ b, proj b t.log = proj b s.log) : Top c t :=
  ⟨hok, fun a => by rw [hact]; exact h.act a, h.si.of_mono hst (fun x hx => by rw [hout]; exact hx),
   fun x => by have := h.cl x; unfold Closed at this ⊢; rw [hout]; exact this,
   fun x => by rw [hst]; exact h.nn x,
   fun b => by rw [hst, hlog b]; exact h.j b⟩

def phase0Step (c : Cfg) (s : St) (b : Nat) : St :=
  if !s.ok then s else
  match (c.blk b).start with
  | some v => (exec c c.fuel (.setOutput b v) (s.push (.start b))).monitor
  | Option.none => s

theorem phase0_eq (c : Cfg) (s : St) : phase0 c s = (List.range c.n).foldl (phase0Step c) s := rfl

theorem phase0Step_ax (c : Cfg) (s : St) (b : Nat) : Ax s (phase0Step c s b) := by
  unfold phase0Step
  split
  · exact Ax.rfl' s
  · split
    · exact (Ax.push s _ rfl (fun _ => by simp [syncKind])).trans
        ((exec_ax c c.fuel _ _).trans (Ax.of_eq (monitor_log _) (monitor_steps _)))
    · exact Ax.rfl' s

theorem phase0_top (c : Cfg) (rk : Nat → Nat) (hyp : Hyp c rk) (l : List Nat) :
    ∀ s, Top c s → NF (l.foldl (phase0Step c) s) →
      Top c (l.foldl (phase0Step c) s) ∧
      (∀ b ∈ l, (c.blk b).start.isSome = true → (l.foldl (phase0Step c) s).out b ≠ .undef) ∧
      (∀ x, s.out x ≠ .undef → (l.foldl (phase0Step c) s).out x ≠ .undef) := by
  induction l with
  | nil => intro s h _; exact ⟨h, fun b hb => (List.not_mem_nil hb).elim, fun _ h => h⟩
  | cons a r ih =>
    intro s h hnf
    simp only [List.foldl] at hnf ⊢
    have hnf1 : NF (phase0Step c s a) := (foldl_ax _ (phase0Step_ax c) r _).nf hnf
    have key : Top c (phase0Step c s a) ∧
        ((c.blk a).start.isSome = true → (phase0Step c s a).out a ≠ .undef) ∧
        (∀ x, s.out x ≠ .undef → (phase0Step c s a).out x ≠ .undef) := by
      unfold phase0Step at hnf1 ⊢
      simp only [h.ok, Bool.not_true, Bool.false_eq_true, if_false] at hnf1 ⊢
      split at hnf1
      · next v hv =>
        try simp only [hv]
        have htop : Top c (s.push (.start a)) :=
          h.of_eq (by simpa using h.ok) rfl rfl rfl (fun b => by rw [proj_push]; simp [syncKind])
        have hnf2 : NF (exec c c.fuel (.setOutput a v) (s.push (.start a))) := by
          intro hh; apply hnf1; simpa using hh
        obtain ⟨ht, hsp, hm⟩ := top_call c rk hyp _ _ htop
          (pre_setOutput_top c rk _ htop a v (hyp.sv a v hv)) hnf2
        rw [monitor_of_ok _ ht.ok]
        exact ⟨ht, fun _ => hsp, fun x hx => hm x hx⟩
      · next hv =>
        try simp only [hv]
        exact ⟨h, fun hh => by simp at hh, fun _ hx => hx⟩
    obtain ⟨ht, hs, hm⟩ := ih _ key.1 hnf
    refine ⟨ht, ?_, fun x hx => hm x (key.2.2 x hx)⟩
    intro b hb hst
    rcases List.mem_cons.mp hb with rfl | hb
    · exact hm _ (key.2.1 hst)
    · exact hs b hb hst

theorem steps12 {c : Cfg} {s : St} (h : Top c s) (b : Nat) (hnz : s.steps b ≠ 0) :
    s.steps b = 1 ∨ s.steps b = 2 := by
  have h0 := h.nn b
  rcases h.j b with ⟨hk, _⟩ | ⟨hk, _⟩ | ⟨hk, _⟩ <;> omega

/-- a loop of `init_sblock(blk, full=False)` calls -/
theorem sync_top (c : Cfg) (rk : Nat → Nat) (hyp : Hyp c rk) (l : List Nat) :
    ∀ s, Top c s → NF (l.foldl (fun s b => exec c c.fuel (.initS b false) s) s) →
      Top c (l.foldl (fun s b => exec c c.fuel (.initS b false) s) s) ∧
      (∀ x, s.out x ≠ .undef → (l.foldl (fun s b => exec c c.fuel (.initS b false) s) s).out x ≠ .undef) ∧
      (∀ x, s.steps x = 2 → (l.foldl (fun s b => exec c c.fuel (.initS b false) s) s).steps x = 2) ∧
      ((∀ b ∈ l, s.steps b ≠ 0) →
        ∀ b ∈ l, (l.foldl (fun s b => exec c c.fuel (.initS b false) s) s).steps b = 2) := by
  induction l with
  | nil => intro s h _; exact ⟨h, fun _ h => h, fun _ h => h, fun _ b hb => (List.not_mem_nil hb).elim⟩
  | cons a r ih =>
    intro s h hnf
    simp only [List.foldl] at hnf ⊢
    have hnf1 : NF (exec c c.fuel (.initS a false) s) :=
      (foldl_ax _ (fun s x => exec_ax c c.fuel (.initS x false) s) r _).nf hnf
    obtain ⟨ht, hsp, hm⟩ := top_call c rk hyp (.initS a false) s h (pre_initS_top c rk s h a false) hnf1
    obtain ⟨ht2, hm2, hk2, hall2⟩ := ih _ ht hnf
    have hkeep : ∀ x, s.steps x = 2 → (exec c c.fuel (.initS a false) s).steps x = 2 := by
      intro x hx
      have := (exec_frame c c.fuel (.initS a false) s x (by omega)).1
      omega
    refine ⟨ht2, fun x hx => hm2 x (hm x hx), fun x hx => hk2 x (hkeep x hx), ?_⟩
    intro hnz b hb
    have hnz' : ∀ y ∈ r, (exec c c.fuel (.initS a false) s).steps y ≠ 0 :=
      fun y hy => (exec_ax c c.fuel (.initS a false) s).nz y (hnz y (List.mem_cons_of_mem _ hy))
    rcases List.mem_cons.mp hb with rfl | hb
    · apply hk2
      rcases steps12 h b (hnz b (List.mem_cons_self ..)) with h1 | h2
      · exact hsp.2 (Or.inl h1)
      · exact hkeep b h2
    · exact hall2 hnz' b hb

theorem eligible_sync (c : Cfg) (s : St) (hsync : ∀ b, (c.blk b).async = .none) : eligible c s = [] := by
  unfold eligible
  apply List.filter_eq_nil_iff.mpr
  intro a _
  simp [hsync a]

theorem asyncPhase_sync (c : Cfg) (s : St) (hsync : ∀ b, (c.blk b).async = .none) (hok : s.ok = true) :
    asyncPhase c s = { s with elapsed := 0 } := by
  unfold asyncPhase
  simp [hok, eligible_sync c s hsync, schedule, runTasks, sortDesc, sortBy]

theorem init_top (c : Cfg) : Top c init :=
  ⟨rfl, fun _ => rfl,
   ⟨fun x hx _ => by simp [init] at hx, fun x hx _ => by simp [init] at hx⟩,
   fun x hx => by simp [init] at hx, fun x => by simp [init],
   fun b => by simp [init, proj, Shape]⟩

/-- synchronous sources only: after `_init_sblocks_sync_2` the initialised blocks are exactly the closure -/
theorem closure_sync (c : Cfg) (rk : Nat → Nat) (hyp : Hyp c rk)
    (hsync : ∀ b, (c.blk b).async = .none) (hwf : ∀ b, OwnSource (c.blk b) → b < c.n)
    (hnf : NF (syncPhase c (afterAsync c))) :
    (syncPhase c (afterAsync c)).ok = true ∧
    ∀ b, ((syncPhase c (afterAsync c)).out b ≠ .undef ↔ Reach c b) := by
  have hnf2 : NF (afterAsync c) := (syncPhase_ax c _).nf hnf
  -- phase 0 and the first synchronous phase
  have hA1 : Ax (afterSync1 c) (afterAsync c) := by
    show Ax (afterSync1 c) (asyncPhase c (afterSync1 c))
    cases hok : (afterSync1 c).ok with
    | false => rw [asyncPhase_not_ok c _ hok]; exact Ax.rfl' _
    | true => rw [asyncPhase_sync c _ hsync hok]; exact Ax.of_eq rfl rfl
  have hnf1 : NF (afterSync1 c) := hA1.nf hnf2
  have hnf0 : NF (phase0 c init) := (syncPhase_ax c _).nf hnf1
  obtain ⟨t0, hstart, _⟩ := phase0_top c rk hyp (List.range c.n) init (init_top c) hnf0
  obtain ⟨t1, hm1, _, _⟩ := sync_top c rk hyp (List.range c.n) (phase0 c init) t0 hnf1
  have hnz1 : ∀ b, b < c.n → (afterSync1 c).steps b ≠ 0 :=
    fun b hb => syncPhase_nz c (phase0 c init) t1.ok b hb
  have e2 : afterAsync c = { afterSync1 c with elapsed := 0 } := asyncPhase_sync c _ hsync t1.ok
  have t2 : Top c (afterAsync c) := by
    rw [e2]; exact Top.of_eq t1 t1.ok rfl rfl rfl (fun _ => rfl)
  have hnz2 : ∀ b ∈ List.range c.n, (afterAsync c).steps b ≠ 0 := by
    intro b hb; rw [e2]; exact hnz1 b (List.mem_range.mp hb)
  obtain ⟨t3, hm3, _, hall⟩ := sync_top c rk hyp (List.range c.n) (afterAsync c) t2 hnf
  have h2 : ∀ b, b < c.n → (syncPhase c (afterAsync c)).steps b = 2 :=
    fun b hb => hall hnz2 b (List.mem_range.mpr hb)
  refine ⟨t3.ok, fun b => ⟨?_, ?_⟩⟩
  · have hinv : Inv c (syncPhase c (afterAsync c)) :=
      syncPhase_inv c _ (asyncPhase_inv c _ (syncPhase_inv c _ (phase0_inv c _ (init_inv c))))
    exact hinv.out b
  · intro hr
    induction hr with
    | own x hsrc =>
      have hx := hwf x hsrc
      have hs2 := h2 x hx
      rcases hsrc with ⟨v, hh, e⟩ | ⟨v, f, e⟩ | ⟨v, e⟩ | ⟨v, e⟩ | e | e | e
      · exact t3.si.p x (Or.inr (Or.inr hs2)) ⟨v, hh, e⟩
      · rw [hsync x] at e; cases e
      · exact t3.si.r x hs2 (Or.inl ⟨v, e⟩)
      · exact t3.si.r x hs2 (Or.inr (Or.inl ⟨v, e⟩))
      · exact absurd e (hyp.noQuiet x)
      · exact t3.si.r x hs2 (Or.inr (Or.inr e))
      · have h0 : (phase0 c init).out x ≠ .undef := hstart x (List.mem_range.mpr hx) e
        have h1 : (afterSync1 c).out x ≠ .undef := hm1 x h0
        have h1' : (afterAsync c).out x ≠ .undef := by rw [e2]; exact h1
        exact hm3 x h1'
    | edge a x _ hmem ih => exact t3.cl a ih x hmem

end Edzed.Init
