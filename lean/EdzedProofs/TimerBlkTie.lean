/-
Tie of the FSM model to the TRANSLATED `Timer.__init__`, `Timer.cond_start` / `cond_stop` / `calc_output`, the body of
`class FSM` and `FSM.__init_subclass__` (lean/EdzedModel/Gen/TranslatedTimerBlk.lean, regenerated from the current
Python AST by tools/py2lean_timerblk.py on every check): what the model side needs.

* the keyword arguments of `Timer(…)` as a mapping (`kwHas` = `in`, `kwPop` = `.pop`, `kwSet` = `[k] = v`) and
  what `FSM.__init__` does with the `t_` arguments (`fsmInitKw`; the conversion itself is tied by
  `translated_fsmtimer_init_duration_is_model`) -- the primitives the translated constructor runs on;
* lemmas of the model about a Timer: entering `on`, the output between events.

Nothing here mentions the generated file: an edit of the Python source shows up in the theorems of
EdzedProps/C04.lean (`translated_timer_…`, `translated_fsm_…`, `timer_…`).
-/
import EdzedModel.FsmTimer
import EdzedProofs.FsmTimer

namespace Edzed.TrTie
open Edzed.FsmTimer

/-- the keyword arguments of `Timer(…)` as a mapping: `'k' in kwargs` -/
def kwHas (kw : TimerKw) (k : String) : Bool :=
  if k == "t_period" then kw.tPeriod.isSome else if k == "t_on" then kw.tOn.isSome
  else if k == "t_off" then kw.tOff.isSome else false

/-- `kwargs.pop('k')` -/
def kwPop (kw : TimerKw) (k : String) : Option (Dur × TimerKw) :=
  if k == "t_period" then kw.tPeriod.map fun v => (v, { kw with tPeriod := none })
  else if k == "t_on" then kw.tOn.map fun v => (v, { kw with tOn := none })
  else if k == "t_off" then kw.tOff.map fun v => (v, { kw with tOff := none })
  else none

/-- `kwargs['k'] = v` -/
def kwSet (kw : TimerKw) (k : String) (v : Dur) : TimerKw :=
  if k == "t_period" then { kw with tPeriod := some v } else if k == "t_on" then { kw with tOn := some v }
  else if k == "t_off" then { kw with tOff := some v } else kw

/-- `FSM.__init__` as far as the durations are concerned: a `t_` argument must be convertible
    (the table it builds is tied by `translated_fsmtimer_init_duration_is_model`) -/
def fsmInitKw (kw : TimerKw) : Except ErrKind TimerKw :=
  if kw.tOn = some .bad || kw.tOff = some .bad then .error .valueError else .ok kw

/-- entering `on` of a Timer with a positive `t_on`, nothing pending: one new handle, due after `t_on` -/
theorem timer_enter_on (n : Int) (hn : 0 < n) (b : Dur) (r : Bool) (init : String) (s : St) (d : EvData)
    (hd : d.dur = Dur.none) (hl : live s = []) (hnx : s.next = none) (hf : s.failed = none)
    (hst : s.stopped = false) :
    (enterLoop (timerCfg (.us n) b r init) (timerCfg (.us n) b r init).tbl.chainLimit s d "on").failed = none ∧
    live (enterLoop (timerCfg (.us n) b r init) (timerCfg (.us n) b r init).tbl.chainLimit s d "on")
      = [{ id := s.nextId, when := s.now + n.toNat, ev := .ev "stop", epoch := s.epoch + 1 }] := by
  have hcl : (timerCfg (.us n) b r init).tbl.chainLimit = 5 + 1 := rfl
  have ht : timerTable.timedOf "on" = some (.ev "stop", .inf) := by decide
  rw [hcl]
  unfold enterLoop
  have hp : popNext s d "on" = (s, d, "on") := by simp [popNext, hnx]
  rw [hp]
  dsimp only
  have he : enterState (timerCfg (.us n) b r init) s d "on"
      = setTimer ((s.enter "on").emit (.enter "on" s.ctx)) n.toNat (.ev "stop") := by
    have hn' : ¬ n ≤ 0 := by omega
    have hn2 : ¬ n < 0 := by omega
    simp [enterState, runEnter, timerCfg, ht, startTimer, effDur, hd, Cfg.instDur, clamp, hn', hn2, St.enter,
      St.emit, hf, hnx]
  rw [he]
  have sf := setTimer_fields ((s.enter "on").emit (.enter "on" s.ctx)) n.toNat (.ev "stop")
  have sl := live_setTimer ((s.enter "on").emit (.enter "on" s.ctx)) n.toNat (.ev "stop") hst
    (by simpa [live, St.enter, St.emit] using hl)
  generalize setTimer ((s.enter "on").emit (.enter "on" s.ctx)) n.toNat (.ev "stop") = s2 at sf sl
  have h1 : s2.failed = none := by rw [sf.2.2.2.2.2.1]; simpa [St.enter, St.emit] using hf
  have h2 : s2.next = none := by rw [sf.2.2.2.2.1]; simpa [St.enter, St.emit] using hnx
  have h3 : s2.state = some "on" := by rw [sf.2.2.2.1]; simp [St.enter, St.emit]
  simp only [h1, h2, Option.isSome_none, Bool.false_eq_true, if_false]
  have ff := frame_finish (timerCfg (.us n) b r init) s2
  refine ⟨?_, ?_⟩
  · simp only [finish, calcOutput, timerCfg, h3, setOut, sendOnEnter]
    split <;> split <;> simp_all [St.emit]
  · unfold live at sl ⊢
    rw [ff.timers, sl]
    simp [St.enter, St.emit]

/-! ### the output of a Timer -/

/-- the output is UNDEF or a bool -/
def OutBoolOrUndef (s : St) : Prop := s.out = .undef ∨ ∃ b, s.out = .bool b

theorem post_out (c : Cfg) (s : St) (e : TEvent) (d : EvData) : (post c s e d).1.out = s.out := by
  unfold post
  have k := (resolve_keeps c (setCtx s d) e d).1
  split <;> rename_i s1 _ heq
  all_goals (rw [heq] at k; dsimp only at k)
  · split
    · rw [fail_out]; exact k
    · exact k
  · exact k
  · rw [fail_out]; exact k
  · rw [fail_out]; exact k

theorem eventRec_out (c : Cfg) (s : St) (e : TEvent) (d : EvData) : (eventRec c s e d).1.out = s.out :=
  post_out c s e d

theorem runEnter_out (c : Cfg) (s : St) (q : String) : (runEnter c s q).out = s.out := by
  unfold runEnter
  dsimp only
  split
  · rfl
  · rw [eventRec_out]; rfl

theorem startTimer_out (c : Cfg) (s : St) (q : String) (tev : TEvent) (item : Dur) :
    (startTimer c s q tev item).out = s.out := by
  unfold startTimer
  split
  · exact fail_out _ _
  · exact fail_out _ _
  · rfl
  · split
    · exact eventRec_out _ _ _ _
    · exact (setTimer_fields _ _ _).2.2.2.2.2.2.1

theorem enterState_out (c : Cfg) (s : St) (d : EvData) (q : String) : (enterState c s d q).out = s.out := by
  unfold enterState
  have h1 : (runEnter c (s.enter q) q).out = s.out := by rw [runEnter_out]; rfl
  dsimp only
  split
  · exact h1
  · split
    · exact h1
    · rw [startTimer_out]; exact h1

theorem popNext_out (s : St) (d : EvData) (q : String) : (popNext s d q).1.out = s.out := by
  unfold popNext
  split
  · unfold exitCur; split <;> rfl
  · rfl

/-- `calc_output` + `set_output` of a Timer -/
theorem timer_finish_out (a b : Dur) (r : Bool) (init : String) (s : St) (q : String) (hs : s.state = some q)
    (ho : OutBoolOrUndef s) :
    (finish (timerCfg a b r init) s).out = .bool (q == "on") ∧ (finish (timerCfg a b r init) s).state = some q ∧
    (finish (timerCfg a b r init) s).failed = s.failed := by
  simp only [finish, calcOutput, timerCfg, hs, setOut, sendOnEnter]
  rcases ho with ho | ⟨x, ho⟩
  · simp [ho, Val.isUndef, Val.pyEq, Val.bool, hs, St.emit]
  · cases x <;> cases hq : (q == "on") <;>
      simp [ho, Val.isUndef, Val.pyEq, Val.bool, Atom.pyEq, hs, St.emit]

theorem timer_enterLoop_out (a b : Dur) (r : Bool) (init : String) : ∀ (fuel : Nat) (s : St) (d : EvData) (q : String),
    OutBoolOrUndef s → (enterLoop (timerCfg a b r init) fuel s d q).failed = none →
    (enterLoop (timerCfg a b r init) fuel s d q).out
      = .bool ((enterLoop (timerCfg a b r init) fuel s d q).state == some "on") := by
  intro fuel
  induction fuel with
  | zero => intro s d q _ h; unfold enterLoop at h; exact absurd h (fail_failed _ _)
  | succ n ih =>
    intro s d q ho
    unfold enterLoop
    dsimp only
    have hp := popNext_out s d q
    generalize popNext s d q = rr at hp
    have hst := enterState_state (timerCfg a b r init) rr.1 rr.2.1 rr.2.2
    have hou := enterState_out (timerCfg a b r init) rr.1 rr.2.1 rr.2.2
    generalize enterState (timerCfg a b r init) rr.1 rr.2.1 rr.2.2 = s2 at hst hou
    have ho2 : OutBoolOrUndef s2 := by unfold OutBoolOrUndef; rw [hou, hp]; exact ho
    split
    · next hf => intro h; rw [h] at hf; simp at hf
    · split
      · exact ih _ _ _ ho2
      · intro _
        have k := timer_finish_out a b r init s2 _ hst ho2
        rw [k.1, k.2.1]
        congr 1

/-- between events: the output of a Timer that is not UNDEF is `calc_output()` of the current state
    (in the model: whether the state is `on`) -/
def TOut (s : St) : Prop := s.failed = none → (s.out = .undef ∨ s.out = .bool (s.state == some "on"))

theorem leave_out (s : St) : (leave s).out = s.out := by
  unfold leave
  split
  · rfl
  · split
    · rw [(stopTimer_fields _).2.2.1]; rfl
    · rfl

theorem tout_ctxEvent {a b : Dur} {r : Bool} {init : String} {s : St} (hq : TOut s) (hf : s.failed = none)
    (e : TEvent) (d : EvData) : TOut (FsmTimer.ctxEvent (timerCfg a b r init) s e d).1 := by
  have hs := hq hf
  unfold FsmTimer.ctxEvent
  have fr := (frame_setCtx s d).trans (frame_resolve (timerCfg a b r init) (setCtx s d) e d)
  have kp := resolve_keeps (timerCfg a b r init) (setCtx s d) e d
  have base : TOut (resolve (timerCfg a b r init) (setCtx s d) e d).1 := by
    intro _
    rw [kp.1, fr.state]; exact hs
  split
  · next s1 heq => rw [heq] at base; exact base
  · next s1 k heq => intro h; exact absurd h (fail_failed _ _)
  · next s1 heq => rw [heq] at base; exact base
  · next s1 q heq =>
    dsimp only
    split
    · next k hk => intro h; rw [hk] at h; cases h
    · next hnf =>
      intro _
      refine .inr (timer_enterLoop_out a b r init _ (leave s1) d q ?_ hnf)
      have h1 : s1.out = s.out := by have := kp.1; rw [heq] at this; exact this
      unfold OutBoolOrUndef
      rw [leave_out, h1]
      rcases hs with h | h
      · exact .inl h
      · exact .inr ⟨_, h⟩

theorem tout_deliver {a b : Dur} {r : Bool} {init : String} {s : St} (hq : TOut s) (hf : s.failed = none)
    (e : TEvent) (d : EvData) : TOut (deliver (timerCfg a b r init) s e d).1 := by
  rcases deliver_eq (timerCfg a b r init) s e d with ⟨heq, _⟩ | ⟨_, _, heq⟩
  · rw [heq]; exact tout_ctxEvent hq hf e d
  · rw [heq]; intro h; exact absurd h (fail_failed _ _)

theorem tout_advanceAux (a b : Dur) (r : Bool) (init : String) (t : Nat) (strict : Bool) : ∀ (fuel : Nat) (s : St),
    TOut s → TOut (advanceAux (timerCfg a b r init) fuel s t strict) := by
  intro fuel
  induction fuel with
  | zero => intro s _; unfold advanceAux; intro h; exact absurd h (fail_failed _ _)
  | succ n ih =>
    intro s hq
    unfold advanceAux
    split
    · exact hq
    · next hf =>
      split
      · exact hq
      · next h _ =>
        apply ih
        unfold fire
        exact tout_deliver (s := popTimer s h) hq (isSome_false_none hf) _ _

theorem tout_step {a b : Dur} {r : Bool} {init : String} {s : St} (hq : TOut s) (op : Op) :
    TOut (step (timerCfg a b r init) s op).1 := by
  cases op with
  | stop =>
    show TOut { stopTimer s with stopped := true }
    have f := stopTimer_fields s
    intro h
    have h' : s.failed = none := f.1 ▸ h
    show (stopTimer s).out = .undef ∨ (stopTimer s).out = .bool ((stopTimer s).state == some "on")
    rw [f.2.2.1, f.2.2.2]; exact hq h'
  | restore q exp sd m =>
    simp only [step]
    split
    · exact hq
    · next h =>
      simp only [Bool.or_eq_true, Bool.not_eq_true', not_or, Bool.not_eq_false] at h
      intro _
      rcases restore_out (timerCfg a b r init) s q exp sd m h.2 with hu | ⟨hs, hc⟩
      · left
        cases ho : (restore (timerCfg a b r init) s q exp sd m).1.out <;> simp [ho, Val.isUndef] at hu ⊢
      · cases m with
        | raises => simp [calcFor] at hc
        | undef => left; simp only [calcFor, Option.some.injEq] at hc; exact hc.symm
        | normal =>
          right
          have hc' : some (Val.bool (q == "on")) = some (restore (timerCfg a b r init) s q exp sd .normal).1.out := by
            rw [← hc]; simp [calcFor, calcOutput, timerCfg, St.enter, St.setInput]
          rw [← Option.some.inj hc', hs]
          congr 1
  | advance t =>
    simp only [step]
    split
    · exact hq
    · exact tout_advanceAux a b r init t false _ s hq
  | gate b => exact hq
  | init =>
    simp only [step]
    split
    · exact hq
    · next hf =>
      unfold initOp
      exact tout_deliver (s := { s with input := (timerCfg a b r init).initInput }) hq (isSome_false_none hf) _ _
  | ev t pl e d =>
    simp only [step]
    split
    · exact hq
    · have q1 := tout_advanceAux a b r init t (pl == .before) ((t - s.now) + s.timers.length + 2) s hq
      split
      · exact q1
      · next hf => exact tout_deliver q1 (isSome_false_none hf) _ _

theorem tout_run (a b : Dur) (r : Bool) (init : String) : ∀ (ops : List Op) (s : St), TOut s →
    TOut (run (timerCfg a b r init) s ops) := by
  intro ops
  induction ops with
  | nil => intro s h; exact h
  | cons op ops ih => intro s h; exact ih _ (tout_step h op)

end Edzed.TrTie
