/-
C13: the traditional (colon) notations of a time of day are `TimeText`s: `_RE_TIME` matches each of them as a
whole inside a date-time string.  H, M, S with one or two digits each (independently), optional seconds, optional
fraction of any number of digits after `.` or `,`.  Core Lean only.
-/
import EdzedModel.Interval
import EdzedProofs.Interval
import EdzedProofs.IntervalText
import EdzedProofs.IntervalString
import EdzedProofs.IntervalNotations
import EdzedProofs.IntervalOrders

namespace Edzed.Interval

/-- one or two digits -/
def Dig12 (t : List Char) : Prop :=
  (∃ x, t = [x] ∧ isDigit x = true) ∨ (∃ x y, t = [x, y] ∧ isDigit x = true ∧ isDigit y = true)

/-- end of the string or a blank -/
def EndOk (R : List Char) : Prop := R = [] ∨ ∃ r, R = ' ' :: r

/-- end of the string or a character that is not a digit -/
def NoDigitNext (R : List Char) : Prop := R = [] ∨ ∃ c r, R = c :: r ∧ isDigit c = false

theorem EndOk.noDigit {R : List Char} (h : EndOk R) : NoDigitNext R := by
  rcases h with rfl | ⟨r, rfl⟩
  · exact Or.inl rfl
  · exact Or.inr ⟨' ', r, rfl, by decide⟩

theorem Dig12.digits {t : List Char} (h : Dig12 t) : ∀ c ∈ t, isDigit c = true := by
  rcases h with ⟨x, rfl, hx⟩ | ⟨x, y, rfl, hx, hy⟩ <;> simp [*]

theorem Dig12.ne_nil {t : List Char} (h : Dig12 t) : t ≠ [] := by
  rcases h with ⟨x, rfl, hx⟩ | ⟨x, y, rfl, hx, hy⟩ <;> simp

theorem dig12_natStr {n : Nat} (h : n < 100) : Dig12 (natStr n) := by
  by_cases c : n < 10
  · exact Or.inl ⟨_, natStr_lt10 c, isDigit_digitChar n⟩
  · exact Or.inr ⟨_, _, natStr_ge10 (Nat.le_of_not_lt c) h, isDigit_digitChar _, isDigit_digitChar _⟩

theorem dig12_pad2 (n : Nat) : Dig12 (pad 2 n) :=
  Or.inr ⟨_, _, pad2 n, isDigit_digitChar _, isDigit_digitChar _⟩

theorem hourColon_tok {H : List Char} (hH : Dig12 H) (R : List Char) :
    hourColon (H ++ ':' :: R) = some (H ++ [':'], R) := by
  rcases hH with ⟨x, rfl, hx⟩ | ⟨x, y, rfl, hx, hy⟩
  · cases R with
    | nil => simp [hourColon, hx]
    | cons c r => simp [hourColon, hx]
  · simp [hourColon, hx, hy]

theorem digits12_tok {M : List Char} (hM : Dig12 M) {R : List Char} (hR : NoDigitNext R) :
    digits12 (M ++ R) = some (M, R) := by
  rcases hM with ⟨x, rfl, hx⟩ | ⟨x, y, rfl, hx, hy⟩ <;> rcases hR with rfl | ⟨c, r, rfl, hc⟩ <;>
    simp [digits12, *]

theorem optSeconds_some {S : List Char} (hS : Dig12 S) {R : List Char} (hR : NoDigitNext R) :
    optSeconds (':' :: (S ++ R)) = (':' :: S, R) := by
  simp [optSeconds, digits12_tok hS hR]

theorem optSeconds_none {R : List Char} (hR : EndOk R) : optSeconds R = ([], R) := by
  rcases hR with rfl | ⟨r, rfl⟩ <;> simp [optSeconds]

theorem optFraction_none {R : List Char} (hR : EndOk R) : optFraction R = ([], R) := by
  rcases hR with rfl | ⟨r, rfl⟩
  · rfl
  · cases r <;> simp [optFraction]

theorem takeWhile_digits (q R : List Char) (hq : ∀ z ∈ q, isDigit z = true) (hR : NoDigitNext R) :
    (q ++ R).takeWhile isDigit = q ∧ (q ++ R).dropWhile isDigit = R := by
  induction q with
  | nil =>
    rcases hR with rfl | ⟨c, r, rfl, hc⟩ <;> simp [*]
  | cons x xs ih =>
    have := ih (fun z hz => hq z (by simp [hz]))
    simp [hq x (by simp), this.1, this.2]

theorem optFraction_some (c : Char) (hc : c = '.' ∨ c = ',') (q : List Char) (hq : q ≠ [])
    (hd : ∀ z ∈ q, isDigit z = true) {R : List Char} (hR : NoDigitNext R) :
    optFraction (c :: (q ++ R)) = (c :: q, R) := by
  cases q with
  | nil => exact absurd rfl hq
  | cons x xs =>
    have hx := hd x (by simp)
    have := takeWhile_digits (x :: xs) R hd hR
    simp only [List.cons_append] at this ⊢
    rcases hc with rfl | rfl <;> simp [optFraction, hx, this.1, this.2]

/-! ### `_RE_TIME` on H:M, H:M:S, H:M:S.f -/

theorem reTime_HM {H M : List Char} (hH : Dig12 H) (hM : Dig12 M) {R : List Char} (hR : EndOk R) :
    reTime (H ++ ':' :: M ++ R) = some ⟨(H ++ ':' :: M).length, [H ++ ':' :: M]⟩ := by
  rw [List.append_assoc, List.cons_append]
  unfold reTime
  rw [hourColon_tok hH]
  simp only [digits12_tok hM hR.noDigit, optSeconds_none hR, optFraction_none hR]
  simp

theorem reTime_HMS {H M S : List Char} (hH : Dig12 H) (hM : Dig12 M) (hS : Dig12 S) {R : List Char} (hR : EndOk R) :
    reTime (H ++ ':' :: M ++ ':' :: S ++ R) = some ⟨(H ++ ':' :: M ++ ':' :: S).length, [H ++ ':' :: M ++ ':' :: S]⟩ := by
  have e : H ++ ':' :: M ++ ':' :: S ++ R = H ++ ':' :: (M ++ ':' :: (S ++ R)) := by simp
  rw [e]
  unfold reTime
  rw [hourColon_tok hH]
  have hn : NoDigitNext (':' :: (S ++ R)) := Or.inr ⟨':', _, rfl, by decide⟩
  simp only [digits12_tok hM hn, optSeconds_some hS hR.noDigit, optFraction_none hR]
  simp

theorem reTime_HMSf {H M S : List Char} (hH : Dig12 H) (hM : Dig12 M) (hS : Dig12 S)
    (c : Char) (hc : c = '.' ∨ c = ',') (q : List Char) (hq : q ≠ []) (hd : ∀ z ∈ q, isDigit z = true)
    {R : List Char} (hR : EndOk R) :
    reTime (H ++ ':' :: M ++ ':' :: S ++ c :: q ++ R) =
      some ⟨(H ++ ':' :: M ++ ':' :: S ++ c :: q).length, [H ++ ':' :: M ++ ':' :: S ++ c :: q]⟩ := by
  have e : H ++ ':' :: M ++ ':' :: S ++ c :: q ++ R = H ++ ':' :: (M ++ ':' :: (S ++ c :: (q ++ R))) := by simp
  rw [e]
  unfold reTime
  rw [hourColon_tok hH]
  have hn : NoDigitNext (':' :: (S ++ c :: (q ++ R))) := Or.inr ⟨':', _, rfl, by decide⟩
  have hn2 : NoDigitNext (c :: (q ++ R)) := Or.inr ⟨c, _, rfl, by rcases hc with rfl | rfl <;> decide⟩
  simp only [digits12_tok hM hn, optSeconds_some hS hn2, optFraction_some c hc q hq hd hR.noDigit]
  simp

/-! ### the other fields of `TimeText` -/

def TimeChar (c : Char) : Prop := isDigit c = true ∨ c = ':' ∨ c = '.' ∨ c = ','

theorem timeText_of (tt : List Char) (hchars : ∀ c ∈ tt, TimeChar c)
    (hfirst : ∃ c r, tt = c :: r ∧ isDigit c = true) (hlast : ∃ z, tt.getLast? = some z ∧ isDigit z = true)
    (whole : ∀ B, (B = [] ∨ ∃ r, B = ' ' :: r) → reTime (tt ++ B) = some ⟨tt.length, [tt]⟩) : TimeText tt := by
  refine ⟨hfirst, ?_, ?_, ?_, whole⟩
  · simp only [asciiOk, List.all_eq_true]
    intro c hc
    rcases hchars c hc with h | rfl | rfl | rfl
    · exact (isDigit_props h).2.1
    all_goals decide
  · rw [trimmedB_iff]
    obtain ⟨c, r, rfl, hc⟩ := hfirst
    obtain ⟨z, hz, hzd⟩ := hlast
    simp [hz, (isDigit_props hc).1, (isDigit_props hzd).1]
  · intro hT
    rcases hchars 'T' hT with h | h | h | h <;> revert h <;> decide

theorem last_digit_append (X : List Char) {q : List Char} (hq : q ≠ []) (hd : ∀ z ∈ q, isDigit z = true) :
    ∃ z, (X ++ q).getLast? = some z ∧ isDigit z = true := by
  cases hl : q.getLast? with
  | none => simp [List.getLast?_eq_none_iff] at hl; exact absurd hl hq
  | some z =>
    refine ⟨z, ?_, hd z (List.mem_of_getLast? hl)⟩
    simp [List.getLast?_append, hl]

theorem timeChar_append {a b : List Char} (ha : ∀ c ∈ a, TimeChar c) (hb : ∀ c ∈ b, TimeChar c) :
    ∀ c ∈ a ++ b, TimeChar c := by
  intro c hc
  rcases List.mem_append.1 hc with h | h
  · exact ha c h
  · exact hb c h

theorem timeChar_cons {x : Char} {b : List Char} (hx : TimeChar x) (hb : ∀ c ∈ b, TimeChar c) :
    ∀ c ∈ x :: b, TimeChar c := by
  intro c hc
  rcases List.mem_cons.1 hc with rfl | h
  · exact hx
  · exact hb c h

theorem timeChar_digits {q : List Char} (hd : ∀ z ∈ q, isDigit z = true) : ∀ c ∈ q, TimeChar c :=
  fun c hc => Or.inl (hd c hc)

theorem Dig12.first {H : List Char} (hH : Dig12 H) (X : List Char) : ∃ c r, H ++ X = c :: r ∧ isDigit c = true := by
  rcases hH with ⟨x, rfl, hx⟩ | ⟨x, y, rfl, hx, hy⟩
  · exact ⟨x, X, rfl, hx⟩
  · exact ⟨x, y :: X, rfl, hx⟩

/-- `H:M` with one or two digits each -/
theorem timeText_HM {H M : List Char} (hH : Dig12 H) (hM : Dig12 M) : TimeText (H ++ ':' :: M) :=
  timeText_of _ (timeChar_append (timeChar_digits hH.digits) (timeChar_cons (Or.inr (Or.inl rfl)) (timeChar_digits hM.digits)))
    (hH.first _) (by
      have := last_digit_append (H ++ [':']) hM.ne_nil hM.digits
      simpa using this)
    (fun _ hB => reTime_HM hH hM hB)

/-- `H:M:S` with one or two digits each -/
theorem timeText_HMS {H M S : List Char} (hH : Dig12 H) (hM : Dig12 M) (hS : Dig12 S) :
    TimeText (H ++ ':' :: M ++ ':' :: S) :=
  timeText_of _ (timeChar_append (timeChar_append (timeChar_digits hH.digits)
      (timeChar_cons (Or.inr (Or.inl rfl)) (timeChar_digits hM.digits)))
      (timeChar_cons (Or.inr (Or.inl rfl)) (timeChar_digits hS.digits)))
    (by
      have := hH.first (':' :: M ++ ':' :: S)
      simpa using this)
    (by
      have := last_digit_append (H ++ ':' :: M ++ [':']) hS.ne_nil hS.digits
      simpa using this)
    (fun _ hB => reTime_HMS hH hM hS hB)

/-- `H:M:S` followed by `.` or `,` and a fraction of one or more digits -/
theorem timeText_HMSf {H M S : List Char} (hH : Dig12 H) (hM : Dig12 M) (hS : Dig12 S)
    (c : Char) (hc : c = '.' ∨ c = ',') (q : List Char) (hq : q ≠ []) (hd : ∀ z ∈ q, isDigit z = true) :
    TimeText (H ++ ':' :: M ++ ':' :: S ++ c :: q) :=
  timeText_of _ (timeChar_append (timeChar_append (timeChar_append (timeChar_digits hH.digits)
      (timeChar_cons (Or.inr (Or.inl rfl)) (timeChar_digits hM.digits)))
      (timeChar_cons (Or.inr (Or.inl rfl)) (timeChar_digits hS.digits)))
      (timeChar_cons (by rcases hc with rfl | rfl <;> simp [TimeChar]) (timeChar_digits hd)))
    (by
      have := hH.first (':' :: M ++ ':' :: S ++ c :: q)
      simpa using this)
    (by
      have := last_digit_append (H ++ ':' :: M ++ ':' :: S ++ [c]) hq hd
      simpa using this)
    (fun _ hB => reTime_HMSf hH hM hS c hc q hq hd hB)

/-! ### the time notations proved for `convert_time_str` that may stand inside a date-time -/

/-- the colon notations of a time of day: `H:M`, `HH:MM`, `H:M:S`, `HH:MM:SS`, the latter two with a fraction of
    1..6 digits after `.` or `,`, and the canonical `str(time)` -/
inductive ColonTime : List Char → Ep → Prop
  | hm {h m : Nat} (hh : h < 24) (hm : m < 60) : ColonTime (tHM h m) [h, m, 0, 0]
  | hmPadded {h m : Nat} (hh : h < 24) (hm : m < 60) : ColonTime (tHMp h m) [h, m, 0, 0]
  | hms {h m s : Nat} (hh : h < 24) (hm : m < 60) (hs : s < 60) : ColonTime (tHMS h m s) [h, m, s, 0]
  | hmsPadded {h m s : Nat} (hh : h < 24) (hm : m < 60) (hs : s < 60) : ColonTime (tHMSp h m s) [h, m, s, 0]
  | hmsFrac {h m s : Nat} (hh : h < 24) (hm : m < 60) (hs : s < 60) (c : Char) (hc : c = '.' ∨ c = ',')
      (q : List Char) (hq : q ≠ []) (hd : ∀ z ∈ q, isDigit z = true) (hl : q.length ≤ 6) :
      ColonTime (tHMS h m s ++ c :: q) [h, m, s, fracUs q]
  | hmsPaddedFrac {h m s : Nat} (hh : h < 24) (hm : m < 60) (hs : s < 60) (c : Char) (hc : c = '.' ∨ c = ',')
      (q : List Char) (hq : q ≠ []) (hd : ∀ z ∈ q, isDigit z = true) (hl : q.length ≤ 6) :
      ColonTime (tHMSp h m s ++ c :: q) [h, m, s, fracUs q]
  | canonical {e : Ep} (h : validTime e = true) : ColonTime (renderTime e) e

theorem renderTime_cases {h m s us : Nat} :
    renderTime [h, m, s, us] = (if us = 0 then tHMSp h m s else tHMSp h m s ++ '.' :: pad 6 us) := by
  by_cases hus : us = 0 <;> simp [renderTime, tHMSp, hus]

theorem ColonTime.timeText {tt : List Char} {tm : Ep} (h : ColonTime tt tm) : TimeText tt := by
  cases h with
  | hm hh hm => exact timeText_HM (dig12_natStr (by omega)) (dig12_natStr (by omega))
  | hmPadded hh hm => exact timeText_HM (dig12_pad2 _) (dig12_pad2 _)
  | hms hh hm hs => exact timeText_HMS (dig12_natStr (by omega)) (dig12_natStr (by omega)) (dig12_natStr (by omega))
  | hmsPadded hh hm hs => exact timeText_HMS (dig12_pad2 _) (dig12_pad2 _) (dig12_pad2 _)
  | hmsFrac hh hm hs c hc q hq hd hl =>
    exact timeText_HMSf (dig12_natStr (by omega)) (dig12_natStr (by omega)) (dig12_natStr (by omega)) c hc q hq hd
  | hmsPaddedFrac hh hm hs c hc q hq hd hl =>
    exact timeText_HMSf (dig12_pad2 _) (dig12_pad2 _) (dig12_pad2 _) c hc q hq hd
  | canonical hv =>
    obtain ⟨h, m, s, us, rfl, -⟩ := validTime_shape hv
    rw [renderTime_cases]
    split
    · exact timeText_HMS (dig12_pad2 _) (dig12_pad2 _) (dig12_pad2 _)
    · exact timeText_HMSf (dig12_pad2 _) (dig12_pad2 _) (dig12_pad2 _) '.' (Or.inl rfl) _
        (by simp [pad6]) (pad_digits 6 us)

theorem ColonTime.convert {tt : List Char} {tm : Ep} (h : ColonTime tt tm) : convertStr .time tt = .ok tm := by
  cases h with
  | hm hh hm => exact time_HM_unpadded hh hm
  | hmPadded hh hm => simpa [optT] using (time_HM_padded hh hm false).1
  | hms hh hm hs => exact time_HMS_unpadded hh hm hs
  | hmsPadded hh hm hs => simpa [optT] using (time_HMS_padded hh hm hs false).1
  | hmsFrac hh hm hs c hc q hq hd hl =>
    exact time_fraction_notations hh hm hs c hc q hq hd hl _ (by simp [timeBases])
  | hmsPaddedFrac hh hm hs c hc q hq hd hl =>
    exact time_fraction_notations hh hm hs c hc q hq hd hl _ (by simp [timeBases])
  | canonical hv => exact convertStr_render (k := .time) hv

/-! ### `YYYY-MM-DD` / `YYYY-mon-DD` before or after the time; `YYYY --MMDD` -/

open Lean.Parser.Tactic in
local macro "osimp" "[" ts:simpLemma,* "]" : tactic =>
  `(tactic| simp [afterTime, joinSp, search, searchGo, removeMatch, reYMD, reYear, take4digits, take2digits, monthDay,
      reIsoDM, reMonth, reDay, periodNext, digits12, numOf, strip, pad4, pad2, $ts,*])

theorem dateTimeRaw_insert {tt : List Char} {tm : Ep} (ht : TimeText tt) (hct : convertStr .time tt = .ok tm)
    (toks : List (List Char)) (hnc : ∀ t ∈ toks, ':' ∉ t) {ts : List (List Char)} (h : ts ∈ insertAll tt toks) :
    ∃ pre post, toks = pre ++ post ∧ dateTimeRaw (joinSp ts) =
      afterTime (removeMatch (if pre = [] then [] else joinSp pre ++ [' ']).reverse
        (if post = [] then [] else ' ' :: joinSp post)) tm := by
  obtain ⟨pre, post, hsplit, rfl⟩ := mem_insertAll h
  refine ⟨pre, post, hsplit, ?_⟩
  have hA : (if pre = [] then [] else joinSp pre ++ [' ']) = [] ∨
      ∃ A0, (if pre = [] then [] else joinSp pre ++ [' ']) = A0 ++ [' '] ∧ ':' ∉ A0 := by
    by_cases hp : pre = []
    · simp [hp]
    · right
      exact ⟨joinSp pre, by simp [hp], not_mem_joinSp (by decide) pre fun t htp => hnc t (by rw [hsplit]; simp [htp])⟩
  have hB : (if post = [] then [] else ' ' :: joinSp post) = [] ∨
      ∃ r, (if post = [] then [] else ' ' :: joinSp post) = ' ' :: r := by
    by_cases hp : post = []
    · simp [hp]
    · right; exact ⟨joinSp post, by simp [hp]⟩
  rw [joinSp_split, dateTimeRaw_time _ _ _ _ hA ht hB hct]

theorem split1 {α : Type} {x : α} {pre post : List α} (h : [x] = pre ++ post) :
    (pre = [] ∧ post = [x]) ∨ (pre = [x] ∧ post = []) := by
  match pre, h with
  | [], h => simp at h; simp [h]
  | [p], h => simp at h; simp [h]
  | p :: q :: r, h => simp at h

theorem split2 {α : Type} {x y : α} {pre post : List α} (h : [x, y] = pre ++ post) :
    (pre = [] ∧ post = [x, y]) ∨ (pre = [x] ∧ post = [y]) ∨ (pre = [x, y] ∧ post = []) := by
  match pre, h with
  | [], h => simp at h; simp [h]
  | [p], h => simp at h; simp [h]
  | [p, q], h => simp at h; simp [h]
  | p :: q :: r :: u, h => simp at h

/-- `YYYY-MM-DD` -/
def ymdNum (y mo d : Nat) : List Char := pad 4 y ++ '-' :: pad 2 mo ++ '-' :: pad 2 d
/-- `YYYY-mon-DD` with a month name of three letters -/
def ymdName (a b c : Char) (y d : Nat) : List Char := pad 4 y ++ '-' :: a :: b :: c :: '-' :: pad 2 d
/-- `--MMDD` -/
def isoMD (mo d : Nat) : List Char := '-' :: '-' :: pad 2 mo ++ pad 2 d
/-- `--MM-DD` -/
def isoMDd (mo d : Nat) : List Char := '-' :: '-' :: pad 2 mo ++ '-' :: pad 2 d

theorem dashed_core (a b c : Char) (ha : isAlpha a = true) (hb : isAlpha b = true) (hc : isAlpha c = true)
    {y mo d : Nat} {tm : Ep} {tt : List Char} (ht : TimeText tt) (hct : convertStr .time tt = .ok tm)
    (hv : validDateTime ([y, mo, d] ++ tm) = true) (hm : nameToMonth [a, b, c] = some mo)
    (Z : List Char) (hZ : Z = ymdNum y mo d ∨ Z = ymdName a b c y d) :
    ∀ ts ∈ insertAll tt [Z], dateTimeRaw (joinSp ts) = .ok ([y, mo, d] ++ tm) := by
  intro ts hts
  obtain ⟨hh, mi, s, us, rfl, -⟩ := validTime_shape (convertStr_valid hct)
  obtain ⟨_, _, _, _, _, _, _, he, h1, h2, h3, h4, h5, h6, -⟩ := validDateTime_shape hv
  simp only [List.cons_append, List.nil_append, List.cons.injEq, and_true] at he
  obtain ⟨rfl, rfl, rfl, rfl, rfl, rfl, rfl⟩ := he
  obtain ⟨a1, -, -, a4, a5, -⟩ := isAlpha_props ha
  obtain ⟨b1, -, -, b4, b5, -⟩ := isAlpha_props hb
  obtain ⟨c1, -, -, c4, c5, -⟩ := isAlpha_props hc
  have ey : 10 * (10 * (10 * (y / 1000 % 10) + y / 100 % 10) + y / 10 % 10) + y % 10 = y := by omega
  have ed := two_digits d (by omega)
  have emo := two_digits mo (by omega)
  have hnc : ∀ t ∈ [Z], ':' ∉ t := by
    intro t htz
    simp only [List.mem_singleton] at htz
    subst htz
    simp only [beq_eq_false_iff_ne, ne_eq] at a4 b4 c4
    rcases hZ with rfl | rfl
    · simp [ymdNum, pad4, pad2]
    · have a4' : ¬ ':' = a := fun e => a4 e.symm
      have b4' : ¬ ':' = b := fun e => b4 e.symm
      have c4' : ¬ ':' = c := fun e => c4 e.symm
      simp [ymdName, pad4, pad2, a4', b4', c4']
  obtain ⟨pre, post, hsplit, hr⟩ := dateTimeRaw_insert ht hct [Z] hnc hts
  rw [hr]
  rcases split1 hsplit with ⟨rfl, rfl⟩ | ⟨rfl, rfl⟩ <;> rcases hZ with rfl | rfl <;>
    osimp [ymdNum, ymdName, ey, ed, emo, a1, a5, b1, b5, c1, c5, ha, hb, hc, hm]

theorem isoMD_core {y mo d : Nat} {tm : Ep} {tt : List Char} (ht : TimeText tt) (hct : convertStr .time tt = .ok tm)
    (hv : validDateTime ([y, mo, d] ++ tm) = true)
    (Z : List Char) (hZ : Z = isoMD mo d ∨ Z = isoMDd mo d) :
    ∀ ts ∈ insertAll tt [pad 4 y, Z], dateTimeRaw (joinSp ts) = .ok ([y, mo, d] ++ tm) := by
  intro ts hts
  obtain ⟨hh, mi, s, us, rfl, -⟩ := validTime_shape (convertStr_valid hct)
  obtain ⟨_, _, _, _, _, _, _, he, h1, h2, h3, h4, h5, h6, -⟩ := validDateTime_shape hv
  simp only [List.cons_append, List.nil_append, List.cons.injEq, and_true] at he
  obtain ⟨rfl, rfl, rfl, rfl, rfl, rfl, rfl⟩ := he
  have ey : 10 * (10 * (10 * (y / 1000 % 10) + y / 100 % 10) + y / 10 % 10) + y % 10 = y := by omega
  have ed := two_digits d (by omega)
  have emo := two_digits mo (by omega)
  have hnc : ∀ t ∈ [pad 4 y, Z], ':' ∉ t := by
    intro t htz
    simp only [List.mem_cons, List.not_mem_nil, or_false] at htz
    rcases htz with rfl | rfl
    · simp [pad4]
    · rcases hZ with rfl | rfl <;> simp [isoMD, isoMDd, pad2]
  obtain ⟨pre, post, hsplit, hr⟩ := dateTimeRaw_insert ht hct _ hnc hts
  rw [hr]
  rcases split2 hsplit with ⟨rfl, rfl⟩ | ⟨rfl, rfl⟩ | ⟨rfl, rfl⟩ <;> rcases hZ with rfl | rfl <;>
    osimp [isoMD, isoMDd, ey, ed, emo]

theorem mem_insertAll_subset {α : Type} {x : α} {l ts : List α} (h : ts ∈ insertAll x l) :
    (∀ t ∈ ts, t = x ∨ t ∈ l) ∧ ts ≠ [] := by
  obtain ⟨pre, post, h1, rfl⟩ := mem_insertAll h
  refine ⟨?_, by simp⟩
  intro t ht
  simp only [List.mem_append, List.mem_cons] at ht
  rcases ht with ht | rfl | ht
  · right; rw [h1]; simp [ht]
  · left; rfl
  · right; rw [h1]; simp [ht]

/-- `YYYY-MM-DD` or `YYYY-mon-DD` (three letters) before or after the time of day -/
theorem datetime_dashed (a b c : Char) (ha : isAlpha a = true) (hb : isAlpha b = true) (hc : isAlpha c = true)
    (hT : a ≠ 'T' ∧ b ≠ 'T' ∧ c ≠ 'T')
    {y mo d : Nat} {tm : Ep} {tt : List Char} (ht : TimeText tt) (hct : convertStr .time tt = .ok tm)
    (hv : validDateTime ([y, mo, d] ++ tm) = true) (hm : nameToMonth [a, b, c] = some mo)
    (Z : List Char) (hZ : Z = ymdNum y mo d ∨ Z = ymdName a b c y d) :
    ∀ ts ∈ insertAll tt [Z], convertStr .datetime (joinSp ts) = .ok ([y, mo, d] ++ tm) := by
  intro ts hts
  obtain ⟨hmem, hne⟩ := mem_insertAll_subset hts
  refine convertStr_datetime_joinSp hne ?_ (dashed_core a b c ha hb hc ht hct hv hm Z hZ ts hts) hv
  intro t htm
  obtain ⟨-, a2, a3, -⟩ := isAlpha_props ha
  obtain ⟨-, -, b3, -⟩ := isAlpha_props hb
  obtain ⟨-, -, c3, -⟩ := isAlpha_props hc
  rcases hmem t htm with rfl | h
  · exact ⟨ht.ascii, ht.trimmed, ht.noT⟩
  · simp only [List.mem_singleton] at h
    subst h
    rcases hZ with rfl | rfl
    · simp [ymdNum, pad4, pad2, asciiOk, trimmedB]
    · simp [ymdName, pad4, pad2, asciiOk, trimmedB, a3, b3, c3, hT.1.symm, hT.2.1.symm, hT.2.2.symm]

/-- year, then `--MMDD` or `--MM-DD`, the time of day anywhere -/
theorem datetime_year_isoMD {y mo d : Nat} {tm : Ep} {tt : List Char} (ht : TimeText tt)
    (hct : convertStr .time tt = .ok tm) (hv : validDateTime ([y, mo, d] ++ tm) = true)
    (Z : List Char) (hZ : Z = isoMD mo d ∨ Z = isoMDd mo d) :
    ∀ ts ∈ insertAll tt [pad 4 y, Z], convertStr .datetime (joinSp ts) = .ok ([y, mo, d] ++ tm) := by
  intro ts hts
  obtain ⟨hmem, hne⟩ := mem_insertAll_subset hts
  refine convertStr_datetime_joinSp hne ?_ (isoMD_core ht hct hv Z hZ ts hts) hv
  intro t htm
  rcases hmem t htm with rfl | h
  · exact ⟨ht.ascii, ht.trimmed, ht.noT⟩
  · simp only [List.mem_cons, List.not_mem_nil, or_false] at h
    rcases h with rfl | rfl
    · exact year_token_clean y
    · have hsp : isSpace '-' = false := by decide
      rcases hZ with rfl | rfl <;> simp [isoMD, isoMDd, pad2, asciiOk, trimmedB, hsp]

/-! ### ISO 8601 date-times through `datetime.fromisoformat`: extended or basic date, `T`, any ISO time -/

/-- a time text `time.fromisoformat` / `parse_hh_mm_ss_ff` accepts -/
structure IsoTimeText (t : List Char) (tm : Ep) : Prop where
  iso : isoHMSF t = some tm
  notz : hasTz t = false
  ascii : asciiOk t = true
  last : ∃ z, t.getLast? = some z ∧ isSpace z = false

/-- `YYYYMMDD` -/
def ymdBasic (y mo d : Nat) : List Char := pad 4 y ++ pad 2 mo ++ pad 2 d

theorem iso_datetime_core {y mo d : Nat} {tm : Ep} {t : List Char} (ht : IsoTimeText t tm)
    (hv : validDateTime ([y, mo, d] ++ tm) = true) (D : List Char) (hD : D = ymdNum y mo d ∨ D = ymdBasic y mo d) :
    convertDateTimeStripped (D ++ 'T' :: t) = .ok ([y, mo, d] ++ tm) := by
  obtain ⟨_, _, _, _, _, _, _, he, h1, h2, h3, h4, h5, h6, -⟩ := validDateTime_shape hv
  have hy : y ≤ 9999 := by
    have := congrArg (fun l => l.getD 0 0) he; simp at this; omega
  have hmo : mo ≤ 12 := by
    have := congrArg (fun l => l.getD 1 0) he; simp at this; omega
  have hd : d ≤ 31 := by
    have := congrArg (fun l => l.getD 2 0) he; simp at this; omega
  have ey : 10 * (10 * (10 * (y / 1000 % 10) + y / 100 % 10) + y / 10 % 10) + y % 10 = y := by omega
  have emo := two_digits mo (by omega)
  have ed := two_digits d (by omega)
  have hv' : validDateTime (y :: mo :: d :: tm) = true := hv
  have hl1 : ¬ (t.length + 1 + 1 + 1 + 1 + 1 + 1 + 1 + 1 + 1 + 1 + 1 < 7) := by omega
  have hl2 : ¬ (t.length + 1 + 1 + 1 + 1 + 1 + 1 + 1 + 1 + 1 < 7) := by omega
  rcases hD with rfl | rfl
  · simp [ymdNum, pad2, pad4, convertDateTimeStripped, isoDateTime, isoDateTimeRaw, take4digits, take2digits,
      ht.notz, ht.iso, numOf, ey, emo, ed, hv', hl1]
  · simp [ymdBasic, pad2, pad4, convertDateTimeStripped, isoDateTime, isoDateTimeRaw, take4digits, take2digits,
      ht.notz, ht.iso, numOf, ey, emo, ed, hv', hl2]

/-- ISO 8601 `YYYY-MM-DDT<time>` and `YYYYMMDDT<time>` for every ISO time text -/
theorem iso_datetime {y mo d : Nat} {tm : Ep} {t : List Char} (ht : IsoTimeText t tm)
    (hv : validDateTime ([y, mo, d] ++ tm) = true) (D : List Char) (hD : D = ymdNum y mo d ∨ D = ymdBasic y mo d) :
    convertStr .datetime (D ++ 'T' :: t) = .ok ([y, mo, d] ++ tm) := by
  apply convertStr_datetime_of_stripped _ _ (iso_datetime_core ht hv D hD)
  · rw [asciiOk_append, asciiOk_cons, ht.ascii]
    rcases hD with rfl | rfl <;> simp [ymdNum, ymdBasic, pad2, pad4, asciiOk]
  · rw [trimmedB_iff]
    obtain ⟨z, hz, hzs⟩ := ht.last
    constructor
    · rcases hD with rfl | rfl <;> simp [ymdNum, ymdBasic, pad4]
    · have : (D ++ 'T' :: t).getLast? = some z := by
        rw [List.getLast?_append]
        cases t with
        | nil => simp at hz
        | cons x xs => rw [List.getLast?_cons_cons, hz]; rfl
      simp [this, hzs]

/-- the ISO 8601 notations of a time of day (without the optional leading `T`): `HH`, `HH:MM`, `HHMM`,
    `HH:MM:SS`, `HHMMSS`, the latter two with a fraction of 1..6 digits after `.` or `,` -/
inductive IsoTime : List Char → Ep → Prop
  | hour {h : Nat} (hh : h < 24) : IsoTime (pad 2 h) [h, 0, 0, 0]
  | hm {h m : Nat} (hh : h < 24) (hm : m < 60) : IsoTime (tHMp h m) [h, m, 0, 0]
  | hmBasic {h m : Nat} (hh : h < 24) (hm : m < 60) : IsoTime (tHMb h m) [h, m, 0, 0]
  | hms {h m s : Nat} (hh : h < 24) (hm : m < 60) (hs : s < 60) : IsoTime (tHMSp h m s) [h, m, s, 0]
  | hmsBasic {h m s : Nat} (hh : h < 24) (hm : m < 60) (hs : s < 60) : IsoTime (tHMSb h m s) [h, m, s, 0]
  | hmsFrac {h m s : Nat} (hh : h < 24) (hm : m < 60) (hs : s < 60) (c : Char) (hc : c = '.' ∨ c = ',')
      (q : List Char) (hq : q ≠ []) (hd : ∀ z ∈ q, isDigit z = true) (hl : q.length ≤ 6) :
      IsoTime (tHMSp h m s ++ c :: q) [h, m, s, fracUs q]
  | hmsBasicFrac {h m s : Nat} (hh : h < 24) (hm : m < 60) (hs : s < 60) (c : Char) (hc : c = '.' ∨ c = ',')
      (q : List Char) (hq : q ≠ []) (hd : ∀ z ∈ q, isDigit z = true) (hl : q.length ≤ 6) :
      IsoTime (tHMSb h m s ++ c :: q) [h, m, s, fracUs q]

theorem IsoTime.valid {t : List Char} {tm : Ep} (h : IsoTime t tm) : validTime tm = true := by
  cases h with
  | hmsFrac hh hm hs c hc q hq hd hl => simp [validTime, *, fracUs_lt q hd hl]
  | hmsBasicFrac hh hm hs c hc q hq hd hl => simp [validTime, *, fracUs_lt q hd hl]
  | _ => simp [validTime, *]

theorem last_nonspace_digits (X : List Char) {q : List Char} (hq : q ≠ []) (hd : ∀ z ∈ q, isDigit z = true) :
    ∃ z, (X ++ q).getLast? = some z ∧ isSpace z = false := by
  obtain ⟨z, h1, h2⟩ := last_digit_append X hq hd
  exact ⟨z, h1, (isDigit_props h2).1⟩

theorem IsoTime.text {t : List Char} {tm : Ep} (h : IsoTime t tm) : IsoTimeText t tm := by
  cases h with
  | @hour h hh =>
    have e := two_digits h (by omega)
    exact ⟨by simp [pad2, isoHMSF, take2, isoNext, e], by simp [pad2, hasTz], by simp [pad2, asciiOk],
      by simp [pad2]⟩
  | @hm h m hh hm =>
    have e1 := two_digits h (by omega)
    have e2 := two_digits m (by omega)
    exact ⟨by simp [tHMp, pad2, isoHMSF, take2, isoNext, e1, e2], by simp [tHMp, pad2, hasTz],
      by simp [tHMp, pad2, asciiOk], by simp [tHMp, pad2]⟩
  | @hmBasic h m hh hm =>
    have e1 := two_digits h (by omega)
    have e2 := two_digits m (by omega)
    exact ⟨by simp [tHMb, pad2, isoHMSF, take2, isoNext, e1, e2], by simp [tHMb, pad2, hasTz],
      by simp [tHMb, pad2, asciiOk], by simp [tHMb, pad2]⟩
  | @hms h m s hh hm hs =>
    have e1 := two_digits h (by omega)
    have e2 := two_digits m (by omega)
    have e3 := two_digits s (by omega)
    exact ⟨by simp [tHMSp, pad2, isoHMSF, take2, isoNext, e1, e2, e3], by simp [tHMSp, pad2, hasTz],
      by simp [tHMSp, pad2, asciiOk], by simp [tHMSp, pad2]⟩
  | @hmsBasic h m s hh hm hs =>
    have e1 := two_digits h (by omega)
    have e2 := two_digits m (by omega)
    have e3 := two_digits s (by omega)
    exact ⟨by simp [tHMSb, pad2, isoHMSF, take2, isoNext, e1, e2, e3], by simp [tHMSb, pad2, hasTz],
      by simp [tHMSb, pad2, asciiOk], by simp [tHMSb, pad2]⟩
  | @hmsFrac h m s hh hm hs c hc q hq hd hl =>
    have e1 := two_digits h (by omega)
    have e2 := two_digits m (by omega)
    have e3 := two_digits s (by omega)
    have hca : asciiC c = true := by rcases hc with rfl | rfl <;> decide
    refine ⟨?_, ?_, by rw [asciiOk_append, asciiOk_cons, asciiOk_digits q hd, hca]; simp [tHMSp, pad2, asciiOk],
      last_nonspace_digits (tHMSp h m s ++ [c]) hq hd |>.imp fun z hz => by simpa using hz⟩
    · cases q with
      | nil => exact absurd rfl hq
      | cons x xs =>
        obtain ⟨f1, f2, f3, f4, f5, f6, f7⟩ := digit_string_facts x xs hd
        rcases hc with rfl | rfl <;>
          simp [tHMSp, pad2, isoHMSF, take2, isoNext, isoFrac, e1, e2, e3, f1, f2]
    · rcases hc with rfl | rfl <;> simp [tHMSp, pad2, hasTz_cons, hasTz_digits q hd]
  | @hmsBasicFrac h m s hh hm hs c hc q hq hd hl =>
    have e1 := two_digits h (by omega)
    have e2 := two_digits m (by omega)
    have e3 := two_digits s (by omega)
    have hca : asciiC c = true := by rcases hc with rfl | rfl <;> decide
    refine ⟨?_, ?_, by rw [asciiOk_append, asciiOk_cons, asciiOk_digits q hd, hca]; simp [tHMSb, pad2, asciiOk],
      last_nonspace_digits (tHMSb h m s ++ [c]) hq hd |>.imp fun z hz => by simpa using hz⟩
    · cases q with
      | nil => exact absurd rfl hq
      | cons x xs =>
        obtain ⟨f1, f2, f3, f4, f5, f6, f7⟩ := digit_string_facts x xs hd
        rcases hc with rfl | rfl <;>
          simp [tHMSb, pad2, isoHMSF, take2, isoNext, isoFrac, e1, e2, e3, f1, f2]
    · rcases hc with rfl | rfl <;> simp [tHMSb, pad2, hasTz_cons, hasTz_digits q hd]

/-! ### times given as the hour only -/

/-- `HH` and `THH` (two digits, ISO 8601) mean that hour at :00:00 -/
theorem time_hour_only {h : Nat} (hh : h < 24) :
    convertStr .time (pad 2 h) = .ok [h, 0, 0, 0] ∧ convertStr .time ('T' :: pad 2 h) = .ok [h, 0, 0, 0] := by
  have e := two_digits h (by omega)
  have v : validTime [h, 0, 0, 0] = true := by simp [validTime, hh]
  constructor <;>
    simp [pad2, convertStr, asciiOk, convertTimeStr, strip, convertTimeStripped, dropT, hasTz, isoHMSF, take2,
      isoNext, e, v]

/-- an hour of 24..99 is rejected, with or without `T` -/
theorem time_hour_24_rejected {h : Nat} (h24 : 24 ≤ h) (h99 : h < 100) :
    convertStr .time (pad 2 h) = .err .value ∧ convertStr .time ('T' :: pad 2 h) = .err .value := by
  have e := two_digits h h99
  have v : validTime [h, 0, 0, 0] = false := by simp [validTime]; omega
  constructor <;>
    simp [pad2, convertStr, asciiOk, convertTimeStr, strip, convertTimeStripped, dropT, hasTz, isoHMSF, take2,
      isoNext, e, v, strpTime, field12, Res.ofOption]

/-- a single digit is not a time (ISO 8601 needs two digits, the traditional notation needs minutes) -/
theorem time_single_digit_rejected (x : Char) (hx : isDigit x = true) :
    convertStr .time [x] = .err .value ∧ convertStr .time ['T', x] = .err .value := by
  obtain ⟨p1, p2, p3, p4, p5, p6, p7, p8, p9⟩ := isDigit_props hx
  have hT : ¬ x = 'T' := by simpa using p3
  constructor <;>
    simp [convertStr, asciiOk, convertTimeStr, strip, convertTimeStripped, dropT, hasTz, isoHMSF, take2,
      strpTime, field12, Res.ofOption, p1, p2, p4, p5, p6, hx, hT]

end Edzed.Interval
