/-
C05: tie of the model's `initBody` / `syncPhase` / `check` to the translated `Circuit.init_sblock`,
`_init_sblocks_sync_1`, `_init_sblocks_sync_2` (EdzedModel/Gen/TranslatedInitSb.lean, tools/py2lean_initsb.py).

1. reference programs written by hand in named parts; the translated programs are DEFINITIONALLY these
   (`rfl` in EdzedProps/C05.lean): every semantic edit of the methods changes the generated text and breaks that;
2. the primitives as operations of the model (`isbPrims`), and the reference programs run on the model state
   are the model's functions -- for runs in which no routine calls `Circuit.abort()`: after an abort the Python
   code goes on while the model stops (the start-up has failed, nothing it still does is observed).
-/
import EdzedModel.Init
import EdzedModel.Gen.TranslatedInitSb
import EdzedProofs.Init
import EdzedProofs.InitAsyncOrder

namespace Edzed.Init

open Edzed.Gen.TrD Edzed.Gen.TrI

/-! ### reference programs -/

section reference
variable {σ ε β : Type} (P : InitPrims σ ε β)

/-- step 1: the saved state -/
def stepOnePart (blk : β) : M σ ε Unit Unit :=
  M.bind (P.setSteps blk (-1 : Int)) fun _ =>
  M.bind (
    M.bind M.get fun st =>
    if (P.hasPersistence blk && P.persistent st blk) then
      M.bind (P.initFromPersistentData blk) fun _ =>
      M.bind M.get fun st =>
      if P.isInitialized st blk then
        M.pure ()
      else
        M.pure ()
    else
      M.pure ()
  ) fun (_ : Unit) =>
  M.bind (P.setSteps blk (1 : Int)) fun _ =>
  M.pure ()

/-- step 2: the regular routine, then the initdef if still uninitialised -/
def stepTwoPart (blk : β) : M σ ε Unit Unit :=
  M.bind (P.setSteps blk (-2 : Int)) fun _ =>
  M.bind (P.initRegular blk) fun _ =>
  M.bind (
    M.bind M.get fun st =>
    if ((!P.isInitialized st blk) && P.hasInitFromValue blk && P.initdefGiven blk) then
      M.bind (P.initFromValue blk) fun _ =>
      M.pure ()
    else
      M.pure ()
  ) fun (_ : Unit) =>
  M.bind (P.setSteps blk (2 : Int)) fun _ =>
  M.pure ()

/-- `except Exception as err: add_note(...); raise` -/
def reraise (exc_ : ε) : M σ ε Unit Unit :=
  if P.excIs exc_ "Exception" then M.raise exc_ else M.raise exc_

/-- `Circuit.init_sblock(blk, full)` -/
def isbRef (blk : β) (full : Bool) : M σ ε Unit Unit :=
  M.bind M.get fun st =>
  let steps := P.steps st blk
  M.bind (
    M.tryExcept (
      M.bind (
        if decide (steps = (0 : Int)) then stepOnePart P blk else M.pure ()
      ) fun (_ : Unit) =>
      if (decide (steps = (1 : Int)) || (decide (steps = (0 : Int)) && full)) then stepTwoPart P blk
      else M.pure ()
    ) (reraise P)
  ) fun (_ : Unit) =>
  M.pure ()

/-- `for blk in self.getblocks(SBlock): self.init_sblock(blk, full=False)` -/
def initLoop : List β → M σ ε Unit Unit
  | [] => M.pure ()
  | blk :: rest_ => M.bind (P.initSblock blk false) fun _ => initLoop rest_

/-- `for blk in …: if not blk.is_initialized(): raise EdzedCircuitError(…not initialized)` -/
def checkLoop : List β → M σ ε Unit Unit
  | [] => M.pure ()
  | blk :: rest_ =>
    M.bind M.get fun st =>
    if (!P.isInitialized st blk) then M.raise (P.mkExc "EdzedCircuitError" "notInit") else checkLoop rest_

def saveLoop : List β → M σ ε Unit Unit
  | [] => M.pure ()
  | blk :: rest_ => M.bind (P.savePersistentState blk) fun _ => saveLoop rest_

def drainLoop : Nat → M σ ε Unit Unit
  | 0 => M.diverge
  | fuel + 1 =>
    M.bind M.get fun st =>
    if (!P.queueEmpty st) then M.bind (P.queueGet) fun _ => drainLoop fuel else M.pure ()

def sync1Ref : M σ ε Unit Unit :=
  M.bind (initLoop P P.sblocks) fun (_ : Unit) => M.pure ()

def sync2Ref (fuel : Nat) : M σ ε Unit Unit :=
  M.bind (initLoop P P.sblocks) fun (_ : Unit) =>
  M.bind (checkLoop P P.sblocks) fun (_ : Unit) =>
  M.bind (
    M.bind M.get fun st =>
    if P.hasStorage st then
      M.bind (saveLoop P P.pblocks) fun (_ : Unit) => M.pure ()
    else
      M.pure ()
  ) fun (_ : Unit) =>
  M.bind (drainLoop P fuel) fun (_ : Unit) =>
  M.pure ()

end reference

/-! ### the primitives as operations of the model -/

/-- a model operation (the exception in flight is a field of the state) as an action of the monad -/
def lift (f : St → St) : M St Err Unit Unit := fun s =>
  match (f s).exc with
  | some e => ((f s).swallow, .raise e)
  | Option.none => (f s, .next ())

/-- the outcome of a translated program as a model state -/
def runM (m : M St Err Unit Unit) (s : St) : St :=
  match m s with
  | (t, .next _) => t
  | (t, .ret _) => t
  | (t, .raise e) => t.raise e
  | (t, .diverged) => (t.push .fuelOut).raise .fuel

/-- `init_from_persistent_data()`: nothing without a saved entry; every exception is suppressed -/
def persistCall (c : Cfg) (rec : Call → St → St) (b : Nat) (a : St) : St :=
  match (c.blk b).persist with
  | .none => a
  | .raises => a.push (.restore b)
  | .restores v how => (rec (applyCall how b v) (a.push (.restore b))).swallow

/-- `init_regular()` -/
def regularCall (c : Cfg) (rec : Call → St → St) (b : Nat) (s : St) : St :=
  regularBody c rec b (s.push (.regular b))

/-- `init_from_value(initdef)` -/
def initFromValueCall (c : Cfg) (rec : Call → St → St) (b : Nat) (s : St) : St :=
  match (c.blk b).initdef with
  | some (v, how) => rec (applyCall how b v) (s.push (.initdef b (s.out b).isUndef))
  | Option.none => s

/-- block `b` of circuit `c`; `rec` = the nested calls.  Outside the model (instantiated as absent): the
    storage (`persistent_dict is None`), `save_persistent_state`, the queue of changed blocks (empty) -/
def isbPrims (c : Cfg) (rec : Call → St → St) : InitPrims St Err Nat where
  steps := fun s b => s.steps b
  setSteps := fun b k => M.modify fun s => s.setSteps b k
  hasPersistence := fun b => decide ((c.blk b).persist ≠ .none)
  persistent := fun _ _ => true
  initFromPersistentData := fun b => lift (persistCall c rec b)
  isInitialized := fun s b => !(s.out b).isUndef
  initRegular := fun b => lift (regularCall c rec b)
  hasInitFromValue := fun b => (c.blk b).initdef.isSome
  initdefGiven := fun b => (c.blk b).initdef.isSome
  initFromValue := fun b => lift (initFromValueCall c rec b)
  excIs := fun _ _ => true
  mkExc := fun _ tag => if tag = "notInit" then .notInit else .routine
  sblocks := List.range c.n
  pblocks := []
  initSblock := fun b full => lift (rec (.initS b full))
  hasStorage := fun _ => false
  savePersistentState := fun _ => M.pure ()
  queueEmpty := fun _ => true
  queueGet := M.pure ()

end Edzed.Init

namespace Edzed.Init
open Edzed.Gen.TrD Edzed.Gen.TrI

/-! ### the reference programs on the model state -/

theorem lift_none (f : St → St) (s : St) (h : (f s).exc = Option.none) : lift f s = (f s, .next ()) := by
  unfold lift; rw [h]

theorem lift_some (f : St → St) (s : St) (e : Err) (h : (f s).exc = some e) :
    lift f s = ((f s).swallow, .raise e) := by
  unfold lift; rw [h]

theorem swallow_raise (t : St) (e : Err) (h : t.exc = some e) : t.swallow.raise e = t := by
  cases t; simp_all [St.swallow, St.raise]

theorem persistCall_exc (c : Cfg) (rec : Call → St → St) (b : Nat) (a : St) (h : a.exc = Option.none) :
    (persistCall c rec b a).exc = Option.none := by
  unfold persistCall
  split
  · exact h
  · exact h
  · rfl

theorem stepOne_model (c : Cfg) (rec : Call → St → St) (b : Nat) (s : St) (h : s.exc = Option.none) :
    stepOnePart (isbPrims c rec) b s = (step1 c rec b s, .next ()) := by
  have e1 : step1 c rec b s = (persistCall c rec b (s.setSteps b (-1))).setSteps b 1 := rfl
  have hx := persistCall_exc c rec b (s.setSteps b (-1)) h
  rw [e1]
  unfold stepOnePart
  by_cases hp : (c.blk b).persist = .none
  · have : persistCall c rec b (s.setSteps b (-1)) = s.setSteps b (-1) := by unfold persistCall; rw [hp]
    simp [M.bind, M.modify, M.get, M.pure, isbPrims, hp, this]
  · simp [M.bind, M.modify, M.get, M.pure, isbPrims, hp, lift_none _ _ hx]

/-- what step 2 does to a state without a pending exception -/
def stepTwoOut (c : Cfg) (rec : Call → St → St) (b : Nat) (s1 : St) : St × Out Err Unit Unit :=
  let a := regularBody c rec b ((s1.setSteps b (-2)).push (.regular b))
  match a.exc with
  | some e => (a.swallow, .raise e)
  | Option.none =>
    let a' := initdefBody c rec b a
    match a'.exc with
    | some e => (a'.swallow, .raise e)
    | Option.none => (a'.setSteps b 2, .next ())

theorem initdef_call (c : Cfg) (rec : Call → St → St) (b : Nat) (a : St) :
    (if (a.out b).isUndef = true ∧ (c.blk b).initdef.isSome = true
      then initFromValueCall c rec b a else a) = initdefBody c rec b a := by
  unfold initFromValueCall initdefBody
  cases hd : (c.blk b).initdef with
  | none => simp
  | some p => obtain ⟨v, how⟩ := p; cases hu : (a.out b).isUndef <;> simp [hu]

theorem stepTwo_model (c : Cfg) (rec : Call → St → St) (b : Nat) (s1 : St) :
    stepTwoPart (isbPrims c rec) b s1 = stepTwoOut c rec b s1 := by
  unfold stepTwoPart stepTwoOut
  generalize ha : regularBody c rec b ((s1.setSteps b (-2)).push (.regular b)) = a
  have hreg : regularCall c rec b (s1.setSteps b (-2)) = a := ha
  cases hx : a.exc with
  | some e =>
    have hl := lift_some (regularCall c rec b) (s1.setSteps b (-2)) e (by rw [hreg]; exact hx)
    rw [hreg] at hl
    simp [M.bind, M.modify, isbPrims, hl, hx]
  | none =>
    have hl := lift_none (regularCall c rec b) (s1.setSteps b (-2)) (by rw [hreg]; exact hx)
    rw [hreg] at hl
    have hid := initdef_call c rec b a
    by_cases hc : (a.out b).isUndef = true ∧ (c.blk b).initdef.isSome = true
    · rw [if_pos hc] at hid
      cases hx' : (initdefBody c rec b a).exc with
      | some e' =>
        have hl2 := lift_some (initFromValueCall c rec b) a e' (by rw [hid]; exact hx')
        rw [hid] at hl2
        simp [M.bind, M.modify, M.get, M.pure, isbPrims, hl, hc, hl2, hx', hx]
      | none =>
        have hl2 := lift_none (initFromValueCall c rec b) a (by rw [hid]; exact hx')
        rw [hid] at hl2
        simp [M.bind, M.modify, M.get, M.pure, isbPrims, hl, hc, hl2, hx', hx]
    · rw [if_neg hc] at hid
      have hx' : (initdefBody c rec b a).exc = Option.none := by rw [← hid]; exact hx
      simp [M.bind, M.modify, M.get, M.pure, isbPrims, hl, hc, hx', hx, ← hid]

/-- the outcome as a model state -/
def fin (p : St × Out Err Unit Unit) : St :=
  match p with
  | (t, .next _) => t
  | (t, .ret _) => t
  | (t, .raise e) => t.raise e
  | (t, .diverged) => (t.push .fuelOut).raise .fuel

theorem runM_eq (m : M St Err Unit Unit) (s : St) : runM m s = fin (m s) := by
  unfold runM fin
  rcases m s with ⟨t, o⟩
  cases o <;> rfl

theorem ok_iff (s : St) : s.ok = true ↔ s.exc = Option.none ∧ s.aborted = false := by
  simp only [St.ok, Bool.and_eq_true]
  cases s.exc <;> cases s.aborted <;> simp

theorem step2_vs_out (c : Cfg) (rec : Call → St → St) (b : Nat) (s1 : St)
    (hna : (step2 c rec b s1).aborted = false) : fin (stepTwoOut c rec b s1) = step2 c rec b s1 := by
  unfold stepTwoOut step2 at *
  dsimp only at *
  generalize regularBody c rec b ((s1.setSteps b (-2)).push (.regular b)) = a at *
  cases hx : a.exc with
  | some e =>
    have hnok : a.ok = false := by
      cases h : a.ok with
      | false => rfl
      | true => rw [(ok_iff a).mp h |>.1] at hx; cases hx
    simp [hnok, fin, swallow_raise a e hx]
  | none =>
    cases hab : a.aborted with
    | true =>
      have hnok : a.ok = false := by
        cases h : a.ok with
        | false => rfl
        | true => rw [(ok_iff a).mp h |>.2] at hab; cases hab
      simp [hnok] at hna
      rw [hab] at hna; cases hna
    | false =>
      have hok : a.ok = true := (ok_iff a).mpr ⟨hx, hab⟩
      simp only [hok, Bool.not_true, Bool.false_eq_true, if_false] at hna ⊢
      generalize initdefBody c rec b a = a' at *
      cases hx' : a'.exc with
      | some e' =>
        have hnok : a'.ok = false := by
          cases h : a'.ok with
          | false => rfl
          | true => rw [(ok_iff a').mp h |>.1] at hx'; cases hx'
        simp [hnok, fin, swallow_raise a' e' hx']
      | none =>
        cases hab' : a'.aborted with
        | true =>
          have hnok : a'.ok = false := by
            cases h : a'.ok with
            | false => rfl
            | true => rw [(ok_iff a').mp h |>.2] at hab'; cases hab'
          simp [hnok] at hna
          rw [hab'] at hna; cases hna
        | false =>
          have hok' : a'.ok = true := (ok_iff a').mpr ⟨hx', hab'⟩
          simp [hok', fin]

theorem step1_exc (c : Cfg) (rec : Call → St → St) (b : Nat) (s : St) (h : s.exc = Option.none) :
    (step1 c rec b s).exc = Option.none :=
  persistCall_exc c rec b (s.setSteps b (-1)) h

theorem reraise_eq (c : Cfg) (rec : Call → St → St) (e : Err) : reraise (isbPrims c rec) e = M.raise e := by
  unfold reraise; simp [isbPrims]

theorem tryExcept_reraise (c : Cfg) (rec : Call → St → St) (m : M St Err Unit Unit) (s : St) :
    M.tryExcept m (reraise (isbPrims c rec)) s = m s := by
  unfold M.tryExcept
  rcases h : m s with ⟨t, o⟩
  cases o <;> simp [reraise_eq, M.raise]

/-- `init_sblock` translated, run on the model state, IS `initBody` -- in every run in which no routine of
    the block (and nothing it triggers) calls `Circuit.abort()` -/
theorem isbRef_model (c : Cfg) (rec : Call → St → St) (b : Nat) (full : Bool) (s : St) (hok : s.ok = true)
    (hna : (initBody c rec b full s).aborted = false) :
    runM (isbRef (isbPrims c rec) b full) s = initBody c rec b full s := by
  obtain ⟨hexc, _⟩ := (ok_iff s).mp hok
  rw [runM_eq]
  unfold isbRef
  simp only [M.bind, M.get, tryExcept_reraise]
  have hst : (isbPrims c rec).steps s b = s.steps b := rfl
  simp only [hst]
  unfold initBody at hna ⊢
  dsimp only at hna ⊢
  by_cases h0 : s.steps b = 0
  · have h1 : ¬ s.steps b = 1 := by omega
    simp only [h0, decide_true, if_true, stepOne_model c rec b s hexc] at hna ⊢
    cases full with
    | false =>
      simp [fin, M.pure] at hna ⊢
    | true =>
      have hx1 := step1_exc c rec b s hexc
      have hab1 : (step1 c rec b s).aborted = false := by
        cases hab : (step1 c rec b s).aborted with
        | false => rfl
        | true =>
          have hnok : (step1 c rec b s).ok = false := by
            cases h : (step1 c rec b s).ok with
            | false => rfl
            | true => rw [(ok_iff _).mp h |>.2] at hab; cases hab
          simp [hnok] at hna
          rw [hab] at hna; cases hna
      have hok1 : (step1 c rec b s).ok = true := (ok_iff _).mpr ⟨hx1, hab1⟩
      simp only [hok1, and_self, Or.inr, if_true, true_and, or_true, Bool.and_true, Bool.or_true,
        decide_true, Bool.true_and, stepTwo_model] at hna ⊢
      have := step2_vs_out c rec b _ hna
      rw [← this]
      rcases stepTwoOut c rec b (step1 c rec b s) with ⟨t, o⟩
      cases o <;> simp [fin, M.pure]
  · by_cases h1 : s.steps b = 1
    · simp [h1, hok, stepTwo_model, M.pure] at hna ⊢
      have := step2_vs_out c rec b s hna
      rw [← this]
      rcases stepTwoOut c rec b s with ⟨t, o⟩
      cases o <;> simp [fin]
    · simp [h0, h1, fin, M.pure]

/-! ### the abort case: the code goes on, the model has stopped -- both end in a failed start-up -/

/-- `Circuit.abort()` is never undone by a nested call -/
def AbortSticky (rec : Call → St → St) : Prop := ∀ call s, s.aborted = true → (rec call s).aborted = true

theorem applyCall_sticky {rec : Call → St → St} (h : AbortSticky rec) (how : How) (b : Nat) (v : Val) (s : St)
    (hs : s.aborted = true) : (rec (applyCall how b v) s).aborted = true := h _ _ hs

theorem initdefBody_sticky (c : Cfg) (rec : Call → St → St) (h : AbortSticky rec) (b : Nat) (a : St)
    (ha : a.aborted = true) : (initdefBody c rec b a).aborted = true := by
  unfold initdefBody
  split
  · split
    · exact h _ _ ha
    · exact ha
  · exact ha

theorem step2_abort (c : Cfg) (rec : Call → St → St) (hst : AbortSticky rec) (b : Nat) (s1 : St)
    (hab : (step2 c rec b s1).aborted = true) : (fin (stepTwoOut c rec b s1)).aborted = true := by
  unfold stepTwoOut step2 at *
  dsimp only at *
  generalize regularBody c rec b ((s1.setSteps b (-2)).push (.regular b)) = a at *
  cases hx : a.exc with
  | some e =>
    have hnok : a.ok = false := by
      cases h : a.ok with
      | false => rfl
      | true => rw [(ok_iff a).mp h |>.1] at hx; cases hx
    simp only [hnok, Bool.not_false, if_true] at hab
    simpa [fin, swallow_raise a e hx] using hab
  | none =>
    dsimp only
    cases haa : a.aborted with
    | true =>
      have := initdefBody_sticky c rec hst b a haa
      generalize initdefBody c rec b a = a' at *
      cases hx' : a'.exc <;> simpa [fin, St.raise, St.swallow, St.setSteps] using this
    | false =>
      have hok : a.ok = true := (ok_iff a).mpr ⟨hx, haa⟩
      simp only [hok, Bool.not_true, Bool.false_eq_true, if_false] at hab
      generalize initdefBody c rec b a = a' at *
      cases hx' : a'.exc with
      | some e' =>
        have hnok : a'.ok = false := by
          cases h : a'.ok with
          | false => rfl
          | true => rw [(ok_iff a').mp h |>.1] at hx'; cases hx'
        simp only [hnok, Bool.not_false, if_true] at hab
        simpa [fin, swallow_raise a' e' hx'] using hab
      | none =>
        cases hab' : a'.aborted with
        | true => simpa [fin, St.setSteps] using hab'
        | false =>
          have hok' : a'.ok = true := (ok_iff a').mpr ⟨hx', hab'⟩
          simp [hok', St.setSteps] at hab
          rw [hab'] at hab; cases hab

theorem stepTwoOut_sticky (c : Cfg) (rec : Call → St → St) (hst : AbortSticky rec) (b : Nat) (s1 : St)
    (h1 : s1.aborted = true) : (fin (stepTwoOut c rec b s1)).aborted = true := by
  have hr : (regularBody c rec b ((s1.setSteps b (-2)).push (.regular b))).aborted = true := by
    unfold regularBody
    split
    · exact h1
    · exact hst _ _ h1
    · exact hst _ _ h1
    · exact h1
    · split <;> exact h1
  unfold stepTwoOut
  dsimp only
  generalize regularBody c rec b ((s1.setSteps b (-2)).push (.regular b)) = a at *
  cases hx : a.exc with
  | some e => simpa [fin, St.raise, St.swallow] using hr
  | none =>
    have := initdefBody_sticky c rec hst b a hr
    generalize initdefBody c rec b a = a' at *
    cases hx' : a'.exc <;> simpa [fin, St.raise, St.swallow, St.setSteps] using this

/-- if a routine aborts, the model stops in a failed state; the translated program goes on (the remaining
    routines still run) but ends in a failed state as well: the start-up fails either way and nothing the
    code still does is looked at -/
theorem isbRef_abort (c : Cfg) (rec : Call → St → St) (hst : AbortSticky rec) (b : Nat) (full : Bool) (s : St)
    (hok : s.ok = true) (hab : (initBody c rec b full s).aborted = true) :
    (runM (isbRef (isbPrims c rec) b full) s).aborted = true := by
  obtain ⟨hexc, hsab⟩ := (ok_iff s).mp hok
  rw [runM_eq]
  unfold isbRef
  simp only [M.bind, M.get, tryExcept_reraise]
  have hstp : (isbPrims c rec).steps s b = s.steps b := rfl
  simp only [hstp]
  unfold initBody at hab
  dsimp only at hab
  by_cases h0 : s.steps b = 0
  · simp only [h0, decide_true, if_true, stepOne_model c rec b s hexc] at hab ⊢
    cases full with
    | false => simpa [fin, M.pure] using hab
    | true =>
      have hx1 := step1_exc c rec b s hexc
      simp only [and_self, Or.inr, true_and, or_true, Bool.and_true, Bool.or_true, decide_true, if_true,
        stepTwo_model] at hab ⊢
      have key : (fin (stepTwoOut c rec b (step1 c rec b s))).aborted = true := by
        cases h1a : (step1 c rec b s).aborted with
        | true => exact stepTwoOut_sticky c rec hst b _ h1a
        | false =>
          have hok1 : (step1 c rec b s).ok = true := (ok_iff _).mpr ⟨hx1, h1a⟩
          simp only [hok1, if_true] at hab
          exact step2_abort c rec hst b _ hab
      generalize stepTwoOut c rec b (step1 c rec b s) = p at key ⊢
      rcases p with ⟨t, o⟩
      cases o <;> simpa [fin, M.pure] using key
  · by_cases h1 : s.steps b = 1
    · simp [h1, hok, stepTwo_model, M.pure] at hab ⊢
      have key := step2_abort c rec hst b s hab
      generalize stepTwoOut c rec b s = p at key ⊢
      rcases p with ⟨t, o⟩
      cases o <;> simpa [fin] using key
    · simp [h0, h1] at hab
      rw [hsab] at hab; cases hab

theorem exec_abortSticky (c : Cfg) (fuel : Nat) : AbortSticky (exec c fuel) := by
  intro call s hs
  have : s.ok = false := by simp [St.ok, hs]
  rw [exec_not_ok c fuel call s this]; exact hs

/-! ### the two loops -/

/-- the loop of `init_sblock(blk, full=False)` calls, started without a pending exception, is the fold of the
    model: it ends at the first exception; an aborted state is a fixed point of `exec` -/
theorem initLoop_lift (c : Cfg) (l : List Nat) : ∀ s, s.exc = Option.none →
    initLoop (isbPrims c (exec c c.fuel)) l s
      = lift (fun s => l.foldl (fun s b => exec c c.fuel (.initS b false) s) s) s := by
  induction l with
  | nil =>
    intro s hs
    simp only [initLoop, List.foldl, M.pure]
    rw [lift_none _ _ hs]
  | cons b r ih =>
    intro s _
    simp only [initLoop, List.foldl, M.bind]
    have hp : (isbPrims c (exec c c.fuel)).initSblock b false = lift (exec c c.fuel (.initS b false)) := rfl
    rw [hp]
    have hfold : ∀ x : St, (fun s => List.foldl (fun s b => exec c c.fuel (.initS b false) s) s (b :: r)) x
        = List.foldl (fun s b => exec c c.fuel (.initS b false) s) (exec c c.fuel (.initS b false) x) r :=
      fun _ => rfl
    cases hx : (exec c c.fuel (.initS b false) s).exc with
    | none =>
      rw [lift_none _ _ hx]
      show initLoop (isbPrims c (exec c c.fuel)) r (exec c c.fuel (.initS b false) s) = _
      rw [ih _ hx]
      unfold lift
      simp only [hfold]
    | some e =>
      rw [lift_some _ _ e hx]
      have hnok : (exec c c.fuel (.initS b false) s).ok = false := by simp [St.ok, hx]
      have hf := foldl_exec_not_ok c r _ hnok
      show ((exec c c.fuel (.initS b false) s).swallow, Out.raise e) = _
      unfold lift
      simp only [hfold, hf, hx]

theorem lift_fin (f : St → St) (s : St) : fin (lift f s) = f s := by
  cases hx : (f s).exc with
  | none => rw [lift_none _ _ hx]; rfl
  | some e => rw [lift_some _ _ e hx]; simp [fin, swallow_raise _ e hx]

/-- `_init_sblocks_sync_1` translated IS `syncPhase` (with `init_sblock` = the model's `exec (.initS b false)`;
    a failed or aborted state is a fixed point of both) -/
theorem sync1Ref_model (c : Cfg) (s : St) (hs : s.exc = Option.none) :
    runM (sync1Ref (isbPrims c (exec c c.fuel))) s = syncPhase c s := by
  rw [runM_eq]
  unfold sync1Ref
  have hb : (isbPrims c (exec c c.fuel)).sblocks = List.range c.n := rfl
  simp only [M.bind, hb, initLoop_lift c _ s hs]
  have := lift_fin (fun s => (List.range c.n).foldl (fun s b => exec c c.fuel (.initS b false) s) s) s
  show _ = (List.range c.n).foldl (fun s b => exec c c.fuel (.initS b false) s) s
  rw [← this]
  rcases lift (fun s => (List.range c.n).foldl (fun s b => exec c c.fuel (.initS b false) s) s) s with ⟨t, o⟩
  cases o <;> simp [fin, M.pure]

theorem checkLoop_model (c : Cfg) (rec : Call → St → St) (l : List Nat) (t : St) :
    checkLoop (isbPrims c rec) l t =
      if l.all (fun b => !(t.out b).isUndef) then (t, .next ()) else (t, .raise .notInit) := by
  induction l with
  | nil => rfl
  | cons b r ih =>
    have hib : (isbPrims c rec).isInitialized t b = !(t.out b).isUndef := rfl
    have hmk : (isbPrims c rec).mkExc "EdzedCircuitError" "notInit" = Err.notInit := by simp [isbPrims]
    simp only [checkLoop, M.bind, M.get, List.all_cons, hib, hmk]
    by_cases hu : (t.out b).isUndef = true
    · simp [hu, M.raise]
    · have hu' : (t.out b).isUndef = false := by simpa using hu
      simp only [hu', Bool.not_false, Bool.not_true, Bool.false_eq_true, if_false, Bool.true_and]
      exact ih

/-- `_init_sblocks_sync_2` translated IS the second loop followed by the all-initialised test of the model --
    when no routine has aborted (after an abort the code still runs the test loop; the model has stopped).
    Outside the model: no storage, an empty queue of changed blocks (so one unit of loop fuel suffices) -/
theorem sync2Ref_model (c : Cfg) (fuel : Nat) (s : St) (hs : s.exc = Option.none)
    (hna : (syncPhase c s).aborted = false) :
    runM (sync2Ref (isbPrims c (exec c c.fuel)) (fuel + 1)) s = check c (syncPhase c s) := by
  rw [runM_eq]
  unfold sync2Ref
  have hb : (isbPrims c (exec c c.fuel)).sblocks = List.range c.n := rfl
  simp only [M.bind, hb, initLoop_lift c _ s hs]
  have hsp : syncPhase c s = (List.range c.n).foldl (fun s b => exec c c.fuel (.initS b false) s) s := rfl
  cases hx : (syncPhase c s).exc with
  | some e =>
    rw [lift_some _ _ e (by rw [← hsp]; exact hx), ← hsp]
    have hnok : (syncPhase c s).ok = false := by simp [St.ok, hx]
    rw [check_of_not_ok c _ hnok]
    simp [fin, swallow_raise _ e hx]
  | none =>
    rw [lift_none _ _ (by rw [← hsp]; exact hx), ← hsp]
    have hok : (syncPhase c s).ok = true := (ok_iff _).mpr ⟨hx, hna⟩
    rw [check_of_ok c _ hok]
    simp only [checkLoop_model]
    unfold allInitialised
    by_cases hall : (List.range c.n).all (fun b => !((syncPhase c s).out b).isUndef) = true
    · simp [hall, M.get, M.pure, M.bind, isbPrims, drainLoop, fin]
    · simp [hall, fin]

end Edzed.Init
