/-
Tie by translation for C09: the primitives of the translated programs of Gen/TranslatedErrReg.lean
(`Circuit._check_started`, `wait_init`, `shutdown`, `run()`, `_TerminatingSignal.__enter__/__exit__/_handler`)
and of the already generated `run_forever` (Gen/TranslatedLifecycle.lean) instantiated with the operations of
the model EdzedModel/ErrorReg.lean, and the lemmas for the theorems `Edzed.TrTie.translated_errreg_…` of
EdzedProps/C09.lean.

An `await` suspends the coroutine; what the rest of the world does meanwhile is an ARBITRARY function on the
model state (`env k`, k = number of awaits performed so far): the theorems hold for every environment.
-/
import EdzedModel.ErrorReg
import EdzedModel.Gen.TranslatedErrReg
import EdzedModel.Gen.TranslatedLifecycle
import EdzedModel.Gen.TranslatedInitSb
import EdzedProofs.ErrorReg

namespace Edzed.ErrorRegTie
open Edzed.ErrorReg Edzed.Gen.TrD Edzed.Gen

/-! ### exceptions -/

/-- the Python exceptions the entry points distinguish -/
inductive PyExc where
  | err (e : Err)        -- an exception that can be held in `Circuit._error`
  | invalidState         -- EdzedInvalidState
  | attributeError       -- AttributeError (`_init_done` does not exist)
  | runtimeError         -- RuntimeError("Simulator task did not start.")
  | typeError            -- `raise None`
  | indexError           -- `coroutines[tnum]` out of range
  | other                -- any other Exception made by the code (EdzedCircuitError("The circuit is empty"))
  deriving DecidableEq, Repr

def PyExc.toErr : PyExc → Err
  | .err e => e
  | _ => .exc 0

/-- `except Class` catches …  (CancelledError is a BaseException, everything else here an Exception) -/
def excIs : PyExc → String → Bool
  | .err (.cancelled _), c => c == "asyncio.CancelledError"
  | _, c => c == "Exception"

/-- `Class(message)` -/
def mkExc (cls _marker : String) : PyExc :=
  if cls == "EdzedInvalidState" then .invalidState
  else if cls == "RuntimeError" then .runtimeError
  else if cls == "TypeError" then .typeError
  else .other

/-- `self._msg` of the SIGTERM context manager (only its identity matters) -/
def sigMsg : String := "Signal"

/-- `asyncio.CancelledError(message)`: the tags of `Err.cancelled` (1 'shutdown', 4 the signal message) -/
def mkCancelled (m : String) : PyExc :=
  .err (.cancelled (if m == "shutdown" then 1 else if m == "shutdown requested by" then 2 else if m == sigMsg then 4 else 0))

@[simp] theorem mkCancelled_shutdown : mkCancelled "shutdown" = .err (.cancelled 1) := by decide
@[simp] theorem mkCancelled_sig : mkCancelled sigMsg = .err (.cancelled 4) := by decide
@[simp] theorem mkCancelled_ctl : mkCancelled "shutdown requested by" = .err (.cancelled 2) := by decide
@[simp] theorem mkExc_invalid (m : String) : mkExc "EdzedInvalidState" m = .invalidState := by simp [mkExc]
@[simp] theorem mkExc_runtime (m : String) : mkExc "RuntimeError" m = .runtimeError := by
  unfold mkExc; rw [if_neg (by decide), if_pos (by decide)]
@[simp] theorem mkExc_type (m : String) : mkExc "TypeError" m = .typeError := by
  unfold mkExc; rw [if_neg (by decide), if_neg (by decide), if_pos (by decide)]
@[simp] theorem excIs_err_c (e : Err) : excIs (.err e) "asyncio.CancelledError" = e.isCancel := by
  cases e <;> simp [excIs, Err.isCancel] <;> decide
@[simp] theorem excIs_err_e (e : Err) : excIs (.err e) "Exception" = !e.isCancel := by
  cases e <;> simp [excIs, Err.isCancel] <;> decide
@[simp] theorem excIs_inv_c : excIs .invalidState "asyncio.CancelledError" = false := by decide
@[simp] theorem excIs_attr_c : excIs .attributeError "asyncio.CancelledError" = false := by decide
@[simp] theorem excIs_idx_c : excIs .indexError "asyncio.CancelledError" = false := by decide
@[simp] theorem excIs_idx_e : excIs .indexError "Exception" = true := by decide
@[simp] theorem toErr_err (e : Err) : (PyExc.err e).toErr = e := rfl

/-! ### evaluation of the monad's combinators on a state -/
section
variable {σ ε ρ α β γ : Type}
theorem bind_apply (m : M σ ε ρ α) (k : α → M σ ε ρ β) (s : σ) :
    M.bind m k s = match m s with
      | (s1, .next a) => k a s1
      | (s1, .ret r) => (s1, .ret r)
      | (s1, .raise e) => (s1, .raise e)
      | (s1, .diverged) => (s1, .diverged) := rfl
theorem pure_apply (a : α) (s : σ) : (M.pure a : M σ ε ρ α) s = (s, .next a) := rfl
theorem raise_apply (e : ε) (s : σ) : (M.raise e : M σ ε ρ α) s = (s, .raise e) := rfl
theorem ret_apply (r : ρ) (s : σ) : (M.ret r : M σ ε ρ α) s = (s, .ret r) := rfl
theorem get_apply (s : σ) : (M.get : M σ ε ρ σ) s = (s, .next s) := rfl
theorem tryExcept_apply (body : M σ ε ρ α) (h : ε → M σ ε ρ α) (s : σ) :
    M.tryExcept body h s = match body s with
      | (s1, .raise e) => h e s1
      | p => p := rfl
theorem tryFinally_apply (body : M σ ε ρ α) (fin : M σ ε ρ Unit) (s : σ) :
    M.tryFinally body fin s = match body s with
      | (s1, o) =>
        match fin s1 with
        | (s2, .next _) => (s2, o)
        | (s2, .ret r) => (s2, .ret r)
        | (s2, .raise e) => (s2, .raise e)
        | (s2, .diverged) => (s2, .diverged) := rfl
theorem withCtx_apply (enter : M σ ε ρ γ) (exit : γ → M σ ε ρ Unit) (body : M σ ε ρ α) (s : σ) :
    M.withCtx enter exit body s = M.bind enter (fun g => M.tryFinally body (exit g)) s := rfl
theorem ite_apply' (c : Prop) [Decidable c] (f g : σ → β) (s : σ) :
    (if c then f else g) s = if c then f s else g s := by split <;> rfl
end

/-! ### the state of the tie -/

/-- the tasks of `run()` -/
inductive Tk where
  | sim              -- the simulation task (position 0 of `all_tasks`)
  | sup (i : Nat)    -- supporting coroutine #i
  deriving DecidableEq, Repr

/-- the awaits of the entry points -/
inductive Aw where
  | yield            -- `await asyncio.sleep(0)`
  | wait             -- `await asyncio.wait(all_tasks, return_when=FIRST_COMPLETED)` in run()
  | waitInit         -- `await asyncio.wait([init_waiter, self._simtask], …)` in wait_init()
  | simtask          -- `await self._simtask` / `await task` for the simulation task
  | runForever       -- `await circuit.run_forever()` in the current task
  deriving DecidableEq, Repr

/-- the model state plus what the entry points touch outside it -/
structure TS where
  st : St := {}
  dels : List Err := []            -- the exceptions handed to `Circuit.abort`, in order
  log : List (Aw × Bool) := []     -- the awaits performed, each with "the SIGTERM handler is installed"
  signo : Bool := false            -- `_TerminatingSignal._signo is not None`
  handler : Bool := false          -- the SIGTERM handler of run() is installed
  saved : Option Bool := none      -- `_saved_handler`: none = not saved, else "our handler was installed" when it was read
  chained : Bool := false          -- the previous handler has been called
  cancelled : List Tk := []        -- `task.cancel()` calls of run(), in order
  sched : List Err := []           -- `call_soon_threadsafe(get_circuit().abort, exc)` calls
  waited : Bool := false           -- run() has returned from `asyncio.wait`
  initDone : Option Bool := none   -- `Circuit._init_done`: none = the attribute does not exist, else `is_set()`
  waiter : Option Bool := none     -- the helper task of wait_init: some true = created, some false = cancelled
  started : List Nat := []         -- run_forever's local `started_blocks`
  startOk : Bool := false          -- run_forever's local `start_ok`
  simulated : Bool := false        -- `_simulate()` was entered
  msg : String := ""               -- `_TerminatingSignal._msg` ("" = not set)
  noted : Nat := 0                 -- notes attached to exceptions by `add_note`
  cancelAt : Nat → Bool := fun _ => false
                                   -- the environment's choice per await of a coroutine that runs in a CALLER's task
                                   -- (wait_init, shutdown, _check_started, run): true = the caller's task is cancelled
                                   -- while it is suspended at its k-th await, which then raises CancelledError

/-- an `await`: the environment runs (`env k` for the k-th await), the await is logged -/
def TS.await (env : Nat → St → St) (a : Aw) (s : TS) : TS :=
  { s with st := env s.log.length s.st, log := s.log ++ [(a, s.handler)] }

/-- the exception with which a cancelled await ends: a bare `task.cancel()` of the caller's task -/
def callerCancelled : PyExc := .err (.cancelled 0)

/-- an `await` in a caller's task as a primitive: the environment runs, then the await returns -- or, when the
    environment cancelled the caller meanwhile (`cancelAt`), raises CancelledError -/
def awaitM {ρ : Type} (env : Nat → St → St) (a : Aw) : M TS PyExc ρ Unit := fun s =>
  (s.await env a, if s.cancelAt s.log.length then .raise callerCancelled else .next ())

/-- `Circuit.abort(exc)` = the model's `St.abort`; the call is logged as a delivery -/
def abortP (x : PyExc) : M TS PyExc ρ Unit := fun s =>
  ({ s with st := s.st.abort x.toErr, dels := s.dels ++ [x.toErr] }, .next ())

/-- awaiting the simulation task: it ends with `raise self._error` (the model's `runForeverRaises`).  When the
    CALLER is cancelled while it awaits the task directly (`await task`), asyncio forwards the cancellation to the
    awaited task -- the model's `rawCancel` -- and the await raises CancelledError -/
def awaitSim (env : Nat → St → St) (a : Aw) : M TS PyExc ρ Unit := fun s =>
  if s.cancelAt s.log.length then
    ({ s.await env a with st := (step (s.await env a).st .rawCancel).1 }, .raise callerCancelled)
  else
    match runForeverRaises (s.await env a).st with
    | some e => (s.await env a, .raise (.err e))
    | none => (s.await env a, .next ())

/-- a CALL of a translated function from another translated function: `return v` ends the call, not the caller -/
def callFn {ρ ρ' : Type} (m : M TS PyExc ρ Unit) : M TS PyExc ρ' Unit := fun s =>
  match m s with
  | (s', .next _) => (s', .next ())
  | (s', .ret _) => (s', .next ())
  | (s', .raise e) => (s', .raise e)
  | (s', .diverged) => (s', .diverged)

/-! ### `_check_started`, `shutdown`, `wait_init` -/

@[reducible] def csPrims (env : Nat → St → St) : TrE.CheckStartedPrims TS PyExc where
  mkExc := mkExc
  simtask s := if s.st.phase == .notStarted then none else some ()
  sleep0 := awaitM env .yield

/-- `cur`: the caller is the simulation task itself -/
@[reducible] def sdPrims (env : Nat → St → St) (cur : Bool) : TrE.ShutdownPrims TS PyExc where
  mkExc := mkExc
  excIs := excIs
  mkCancelled := mkCancelled
  checkStarted := callFn (TrE.checkStarted (csPrims env))        -- the TRANSLATED `_check_started`
  isCurrentTask _ := cur
  abort := abortP
  awaitSimtask := awaitSim env .simtask
  -- `asyncio.wait` does not cancel the tasks it waits for and never raises their exceptions: when the CALLER is
  -- cancelled while it waits, the await is logged, the environment runs, there is NO `rawCancel` step and the await
  -- raises the caller's CancelledError; otherwise it returns normally (when the simulation task is done)
  waitSimtask := awaitM env .simtask
  simtaskCancelled s := match s.st.error with | some e => e.isCancel | none => false
  -- `Task.exception()` of the finished simulation task: what `run_forever` raised (`raise self._error`)
  simtaskException := fun s => (s, .next ((runForeverRaises s.st).map PyExc.err))

@[reducible] def wiPrims (env : Nat → St → St) : TrE.WaitInitPrims TS PyExc Unit where
  mkExc := mkExc
  checkStarted := callFn (TrE.checkStarted (csPrims env))
  createInitWaiter := fun s =>
    match s.initDone with
    | none => (s, .raise .attributeError)            -- evaluating `self._init_done` fails
    | some _ => ({ s with waiter := some true }, .next ())
  waitFirst _ := awaitM env .waitInit       -- `asyncio.wait` does not cancel the tasks it waits for
  cancelWaiter _ := fun s => ({ s with waiter := some false }, .next ())
  simtaskDone s := s.st.phase == .done
  simtaskCancelled s := match s.st.error with | some e => e.isCancel | none => false
  simtaskException := M.pure ()
  getError s := s.st.error.map .err

/-! ### `_TerminatingSignal` -/

@[reducible] def sgPrims (savedCallable : Bool) : TrE.SigPrims TS PyExc where
  signoNone s := !s.signo
  saveHandler := fun s => ({ s with saved := some s.handler }, .next ())
  installHandler := fun s => ({ s with handler := true }, .next ())
  restoreHandler := fun s =>
    match s.saved with
    | some b => ({ s with handler := b }, .next ())
    | none => (s, .raise .attributeError)            -- `_saved_handler` was never set
  sigMsg := sigMsg
  mkCancelled := mkCancelled
  scheduleLog := M.pure ()
  -- the queued callback `abort(exc)` is the model's wake entry `sig`
  scheduleAbort x := fun s => ({ s with st := s.st.addWake .sig, sched := s.sched ++ [x.toErr] }, .next ())
  savedCallable _ := savedCallable
  callSaved := fun s => ({ s with chained := true }, .next ())
  setSigno o := fun s => ({ s with signo := o.isSome }, .next ())
  strsignal := M.pure ()
  setMsg m := fun s => ({ s with msg := m }, .next ())

/-- the `error` item of an 'abort' control event -/
inductive CtlErr where
  | exception (id : Nat)   -- an Exception object (the scripted exception `id`)
  | baseExc                -- a BaseException that is not an Exception (a CancelledError)
  | text                   -- a string, or the default '<no-error-data>'
  deriving DecidableEq, Repr

/-- `ControlBlock._event_abort / _event_shutdown`: `Class(message)` by the declared marker of the message; the
    EdzedCircuitError of the 'abort' event is `reportedText` until a cause is attached -/
@[reducible] def ctPrims : TrE.CtlPrims TS PyExc CtlErr where
  mkExc cls marker :=
    if cls == "EdzedCircuitError" && marker == "error reported by" then .err .reportedText else .other
  mkCancelled := mkCancelled
  isException e := match e with | .exception _ => true | _ => false
  withCause x e := match e with
    | .exception id => M.pure (match x with | .err .reportedText => .err (.reported id) | x => x)
    | .baseExc => M.pure .other              -- an EdzedCircuitError caused by a non-Exception: not an error of the model
    | .text => M.raise .typeError            -- "exception cause must be None or derive from BaseException"
  abort := abortP

/-- `add_note`: `raises` = the native `exc.add_note(note)` raises (a note that is not a str); otherwise a note is
    attached -- the exception object, its class and its identity are untouched -/
@[reducible] def ntPrims (hasNotes firstArgIsStr raises : Bool) : TrE.NotePrims TS PyExc where
  hasNotes := hasNotes
  nativeAddNote _ := fun s => if raises then (s, .raise .typeError) else ({ s with noted := s.noted + 1 }, .next ())
  firstArgIsStr _ := firstArgIsStr
  prependNote _ := fun s => ({ s with noted := s.noted + 1 }, .next ())


/-- `add_note` with primitives that attach the note silently (no counter) -/
@[reducible] def ntQuiet : TrE.NotePrims TS PyExc where
  hasNotes := true
  nativeAddNote _ := M.pure ()
  firstArgIsStr _ := true
  prependNote _ := M.pure ()

theorem addNote_quiet (e : PyExc) (s : TS) : (callFn (TrE.addNote ntQuiet e ()) : M TS PyExc Unit Unit) s = (s, .next ()) := by
  unfold TrE.addNote callFn
  simp [bind_apply, pure_apply]

/-! ### `run()` -/

/-- the exception id with which supporting coroutine #i failed, according to the model's `supDone` -/
def supFailure (done : List (Nat × Option Nat)) (i : Nat) : Option Nat :=
  (done.find? fun p => p.1 == i && p.2.isSome).bind (·.2)

theorem firstSupError_eq (done : List (Nat × Option Nat)) (n : Nat) :
    firstSupError done n = (List.range n).findSome? (supFailure done) := rfl

def taskDone (s : TS) : Tk → Bool
  | .sim => s.st.phase == .done
  | .sup i => s.st.supDone.any (·.1 == i)

/-- `env`: the environment; `n` supporting coroutines -/
@[reducible] def runPrims (env : Nat → St → St) : TrE.RunPrims TS PyExc Tk Unit where
  mkExc := mkExc
  excIs := excIs
  mkCancelled := mkCancelled
  -- the TRANSLATED `_TerminatingSignal(<signo or None>)` and `__enter__`
  sigEnter c := M.bind (callFn (TrE.sigInit (sgPrims false) (if c then some () else none)))
    fun _ => callFn (TrE.sigEnter (sgPrims false))
  sigExit _ := callFn (TrE.sigExit (sgPrims false))                                    -- the TRANSLATED `__exit__`
  runForeverHere := awaitSim env .runForever
  createSimtask := M.pure .sim
  createSupTasks cs := M.pure ((List.range cs.length).map .sup)
  -- after `asyncio.wait` the yield is the model's wake entry `runAbort`
  sleep0 := fun s =>
    awaitM env .yield (if s.waited then { s with st := s.st.addWake .runAbort } else s)
  taskDone := taskDone
  taskResult t := fun s =>
    match t with
    | .sim => (match runForeverRaises s.st with | some e => (s, .raise (.err e)) | none => (s, .next ()))
    | .sup _ => (s, .next ())
  waitFirst _ := fun s =>
    ({ s.await env .wait with waited := true }, if s.cancelAt s.log.length then .raise callerCancelled else .next ())
  -- cancelling the simulation task directly is the model's `rawCancel`; a supporting task is outside the model
  cancelTask t := fun s =>
    ({ s with cancelled := s.cancelled ++ [t]
              st := match t with | .sim => (step s.st .rawCancel).1 | .sup _ => s.st }, .next ())
  abort := abortP
  awaitTask t := match t with
    | .sim => awaitSim env .simtask
    | .sup i => fun s =>
      match supFailure s.st.supDone i with
      | some id => (s, .raise (.err (.exc id)))                  -- it failed with exception `id`
      | none => if s.st.supDone.any (·.1 == i) then (s, .next ())          -- it returned
                else (s, .raise (.err (.cancelled 0)))                     -- it was cancelled by run()
  -- Python indexing: -len ≤ i < len
  coroName cs i := fun s => if -(cs.length : Int) ≤ i ∧ i < (cs.length : Int) then (s, .next ()) else (s, .raise .indexError)
  addNote e := callFn (TrE.addNote ntQuiet e ())       -- the TRANSLATED `add_note` (its notes are not counted here)

/-- `n` coroutine objects -/
def coros (n : Nat) : List Unit := List.replicate n ()

/-! ### `run_forever` (the program of Gen/TranslatedLifecycle.lean, primitives = ErrorReg operations) -/

/-- what the rest of the world does while run_forever is suspended, and how its start-up fails -/
structure RfScript where
  initErr : Option Nat := none     -- a synchronous initialisation routine raises exc id (the model's `start`)
  envInit : St → St := id          -- … during `await self._init_sblocks_async()`
  envSim : St → St := id           -- the history while the circuit is simulated
  envYield : St → St := id         -- the loop iteration of the `sleep(0)` after the try block
  envStop : St → St := id          -- … while the asynchronous clean-up runs

/-- the exception thrown into the try block when the simulation task runs (the model's `wakeStep … sim`
    without its `caught`/`leaveTry` part): a requested cancellation, else the armed evaluation -/
def thrownAt (s : St) : St × Option Err :=
  if s.mustCancel then ({ s with mustCancel := false }, some (.cancelled 0))
  else match s.armed with
    | some (.calc id) => (s, some (.exc id))
    | some (.calcHandler id f) =>
      if (Fault.inHandler f).fatal then (s.abort (.wrapped id), some (.exc id)) else (s, some (.exc id))
    | none => (s, none)

@[reducible] def erfPrims (sc : RfScript) : TrL.RunForeverPrims TS PyExc Nat where
  mkExc := mkExc
  excIs := excIs
  enum := id
  simtaskSet s := s.st.phase != .notStarted
  simtaskDone s := s.st.phase == .done
  testEager := M.pure ()
  -- the task has begun: the model's `start` (run() is in `asyncio.wait` from now on)
  setSimtask := fun s => ({ s with st := { s.st with phase := .tryBlock, runWaiting := s.st.runMode } }, .next ())
  getStartedBlocks := fun s => (s, .next s.started)
  setStartedBlocks l := fun s => ({ s with started := l }, .next ())
  addStartedBlocks k := fun s => ({ s with started := s.started ++ [k] }, .next ())
  getStartOk := fun s => (s, .next s.startOk)
  setStartOk b := fun s => ({ s with startOk := b }, .next ())
  getError s := s.st.error.map .err
  setError x := fun s => ({ s with st := { s.st with error := some x.toErr } }, .next ())
  errIsCancelled s := match s.st.error with | some e => e.isCancel | none => false
  noBlocks _ := false
  newQueue := M.pure ()
  newInitDone := fun s => ({ s with initDone := some false }, .next ())
  checkPersistentData := M.pure ()
  resolve := M.pure ()
  finalize := M.pure ()
  allBlocks := [0]
  start _ := M.pure ()
  sleep0 := fun s =>
    if s.st.error.isNone then (s, .next ())       -- the yield inside the start-up (the model's `start` is one step)
    else
      -- the yield after the try block: the task is now "at sleep0" (`leaveTry`), the other tasks run, then the
      -- task runs again (the model's `wakeStep … sim`): a pending cancellation is thrown in here
      ({ s with st := (wakeStep (sc.envYield s.st.leaveTry) .sim).1 },
       if (sc.envYield s.st.leaveTry).mustCancel then .raise (.err (.cancelled 0)) else .next ())
  initSync1 := fun s =>
    match sc.initErr with
    | some id => (s, .raise (.err (.exc id)))
    | none => (s, .next ())
  initAsync := fun s => ({ s with st := sc.envInit s.st }, .next ())
  -- `_init_sblocks_sync_2`: a block whose initialisation step failed early is not initialised again and is
  -- found uninitialised at the end
  initSync2 := fun s => if s.st.earlyFail then (s, .raise (.err .notInit)) else (s, .next ())
  initDoneSet := fun s => ({ s with initDone := some true }, .next ())
  simulate := fun s =>
    match (thrownAt (sc.envSim s.st)).2 with
    | some e => ({ s with st := (thrownAt (sc.envSim s.st)).1, simulated := true }, .raise (.err e))
    | none => ({ s with st := (thrownAt (sc.envSim s.st)).1, simulated := true }, .next ())
  storageSet _ := false
  isPersistence _ := false
  saveState _ := M.pure ()
  stampStopTime := M.pure ()
  -- the asynchronous clean-up ends with the model's `finish`
  stopSblocks _ := fun s =>
    if s.st.phase == .cleanup then ({ s with st := (step (sc.envStop s.st) .finish).1 }, .next ()) else (s, .next ())

/-- the model's account of one run of run_forever: `start`, the simulation until an exception is thrown into
    the try block, the loop iteration of the `sleep(0)`, the asynchronous clean-up -/
def rfModel (sc : RfScript) (s0 : St) : St :=
  let s1 := (step s0 (.start sc.initErr)).1
  let s2 := if s1.phase == .tryBlock then (wakeStep (sc.envSim s1) .sim).1 else s1
  let s3 := (wakeStep (sc.envYield s2) .sim).1
  if s3.phase == .cleanup then (step (sc.envStop s3) .finish).1 else s3

/-! ### lemmas -/

theorem enumFrom_sups : ∀ (m k : Nat),
    TrE.enumFrom (k : Int) ((List.range' k m).map Tk.sup) = (List.range' k m).map fun (i : Nat) => ((i : Int), Tk.sup i) := by
  intro m
  induction m with
  | zero => intro k; simp [TrE.enumFrom]
  | succ m ih =>
    intro k
    simp only [List.range'_succ, List.map_cons, TrE.enumFrom]
    have h1 : (((k + 1 : Nat)) : Int) = (k : Int) + 1 := by omega
    rw [← h1, ih (k + 1)]

def orElseSup (re : Option PyExc) (x : Option Nat) : Option PyExc :=
  match re with
  | some e => some e
  | none => x.map fun id => .err (.exc id)

@[simp] theorem isCancel_cancelled (t : Nat) : (Err.cancelled t).isCancel = true := rfl
@[simp] theorem isCancel_exc (i : Nat) : (Err.exc i).isCancel = false := rfl
@[simp] theorem isCancel_wrapped (i : Nat) : (Err.wrapped i).isCancel = false := rfl
@[simp] theorem isCancel_reported (i : Nat) : (Err.reported i).isCancel = false := rfl
@[simp] theorem isCancel_notInit : Err.notInit.isCancel = false := rfl

/-- the except clause of run_forever IS the model's `caught` -/
theorem caught_eq (s : St) (e : Err) :
    (if s.error.isNone then { s with error := some e } else s) = s.caught e := by
  unfold St.caught; cases h : s.error <;> simp [h]

/-- the model's `wakeStep … sim` inside the try block: `thrownAt`, then `caught`, then `leaveTry` -/
theorem wakeStep_sim_try_eq (s : St) (hp : s.phase = .tryBlock) :
    (wakeStep s .sim).1 = match (thrownAt s).2 with
      | some e => (((thrownAt s).1).caught e).leaveTry
      | none => s := by
  unfold wakeStep thrownAt
  simp only [hp]
  cases hm : s.mustCancel
  · cases ha : s.armed with
    | none => simp
    | some a => cases a <;> simp <;> split <;> simp_all
  · simp

/-- the model's `start` of a fresh task, in the three cases -/
theorem start_pre_error (s0 : St) (i : Option Nat) (e0 : Err) (hp : s0.phase = .notStarted) (he : s0.error = some e0) :
    (step s0 (.start i)).1 = ({ s0 with phase := .tryBlock, runWaiting := s0.runMode } : St).leaveTry := by
  simp [step, hp, he]

theorem start_init_error (s0 : St) (id : Nat) (hp : s0.phase = .notStarted) (he : s0.error = none) :
    (step s0 (.start (some id))).1 =
      (({ s0 with phase := .tryBlock, runWaiting := s0.runMode } : St).caught (.exc id)).leaveTry := by
  simp [step, hp, he]

theorem start_ok (s0 : St) (hp : s0.phase = .notStarted) (he : s0.error = none) (hf : s0.earlyFail = false) :
    (step s0 (.start none)).1 = { s0 with phase := .tryBlock, runWaiting := s0.runMode } := by
  simp [step, hp, he, hf]

theorem start_early_fail (s0 : St) (hp : s0.phase = .notStarted) (he : s0.error = none) (hf : s0.earlyFail = true) :
    (step s0 (.start none)).1 =
      (({ s0 with phase := .tryBlock, runWaiting := s0.runMode } : St).caught .notInit).leaveTry := by
  simp [step, hp, he, hf]

/-- the model's `wakeStep … sim` at the `sleep(0)` after the try block -/
theorem wake_sleep0 (s : St) (hp : s.phase = .sleep0) :
    (wakeStep s .sim).1.error = s.error ∧
    (wakeStep s .sim).1.phase = (if s.slowCleanup then .cleanup else .done) := by
  unfold wakeStep
  simp only [hp]
  cases s.slowCleanup <;> simp

theorem finish_cleanup (s : St) (hp : s.phase = .cleanup) :
    (step s .finish).1.error = s.error := by
  simp [step, hp]


/-- what `run()` sees of the model when `n` supporting coroutines are given -/
def runModel (env : Nat → St → St) (s0 : St) : St × List Err :=
  let s1 := env 0 s0                                  -- `sleep(0)`: the simulation task starts
  let s2 := env 1 s1                                  -- `asyncio.wait(FIRST_COMPLETED)`
  let s4 := env 2 (wakeStep s2 .runWaiter).1          -- "stop everything", `sleep(0)`
  let r := wakeStep s4 .runAbort                      -- abort(CancelledError('shutdown')) unless the simulation is over
  (env 3 r.1, r.2)                                    -- `await simtask`

def outcomeOf (o : Option Err) : Out PyExc Unit Unit :=
  match o with
  | some e => .raise (.err e)
  | none => .next ()


@[simp] theorem finish_phase (s : St) (hp : s.phase = .cleanup) : (step s .finish).1.phase = .done := by
  simp [step, hp]

/-- under the tie's hypotheses on the environments the model's account of run_forever ends in phase `done` -/
theorem rfModel_done (sc : RfScript) (s0 : St) (hp : s0.phase = .notStarted) (he : s0.error = none)
    (hs : ∀ s, (sc.envSim s).phase = s.phase)
    (ht : sc.initErr = none → s0.earlyFail = false → (thrownAt (sc.envSim (step s0 (.start none)).1)).2.isSome = true)
    (hy : ∀ s, (sc.envYield s).phase = s.phase) (hz : ∀ s, (sc.envStop s).phase = s.phase) :
    (rfModel sc s0).phase = .done := by
  unfold rfModel
  -- the state at the `sleep(0)`
  have h2 : (if ((step s0 (.start sc.initErr)).1.phase == Phase.tryBlock) = true
      then (wakeStep (sc.envSim (step s0 (.start sc.initErr)).1) .sim).1 else (step s0 (.start sc.initErr)).1).phase = .sleep0 := by
    cases hie : sc.initErr with
    | some id => rw [start_init_error s0 id hp he]; simp
    | none =>
      cases hf : s0.earlyFail with
      | true => rw [start_early_fail s0 hp he hf]; simp
      | false =>
        have ht' := ht hie hf
        rw [start_ok s0 hp he hf] at ht' ⊢
        have hph : (sc.envSim { s0 with phase := .tryBlock, runWaiting := s0.runMode }).phase = .tryBlock := by rw [hs]
        simp only [show (({ s0 with phase := .tryBlock, runWaiting := s0.runMode } : St).phase == Phase.tryBlock) = true from rfl,
          if_true, wakeStep_sim_try_eq _ hph]
        cases hT : (thrownAt (sc.envSim { s0 with phase := .tryBlock, runWaiting := s0.runMode })).2 with
        | none => rw [hT] at ht'; simp at ht'
        | some e => simp
  simp only []
  generalize (if ((step s0 (.start sc.initErr)).1.phase == Phase.tryBlock) = true
      then (wakeStep (sc.envSim (step s0 (.start sc.initErr)).1) .sim).1 else (step s0 (.start sc.initErr)).1) = S2 at h2 ⊢
  have h3 := (wake_sleep0 (sc.envYield S2) (by rw [hy]; exact h2)).2
  generalize (wakeStep (sc.envYield S2) .sim).1 = W at h3 ⊢
  cases hsl : (sc.envYield S2).slowCleanup
  · simp [hsl] at h3; simp [h3]
  · simp [hsl] at h3
    have : (sc.envStop W).phase = .cleanup := by rw [hz]; exact h3
    simp [h3, finish_phase _ this]

/-! ### `SBlock.event` and `init_sblock` (the programs of Gen/TranslatedDispatch.lean and Gen/TranslatedInitSb.lean,
    primitives = what the error register sees of one block) -/

/-- the exceptions of one event delivery -/
inductive EvExc where
  | raised (f : Family) (deep : Bool)   -- what the handler call ended with: family, traceback deeper than the call
  | simErr            -- the EdzedCircuitError made by `SBlock.event` for abort() (`__cause__` = the handler's exception)
  | recursion         -- EdzedCircuitError("Forbidden recursive event() call")
  | initFailed        -- the exception raised by a synchronous initialisation routine
  | other             -- ValueError / TypeError for a malformed event type
  deriving DecidableEq, Repr

/-- one SBlock as the error register sees it -/
structure EvSt where
  st : St := {}
  dels : List Err := []        -- the errors handed to `Circuit.abort`
  active : Bool := false       -- `_event_active`
  marker : Int := 2            -- `init_steps_completed`
  initCalls : Nat := 0         -- calls of `init_regular()`
  initialized : Bool := true

/-- the event type: one the block has a handler for, or not -/
inductive EvType where
  | known | unknown
  deriving DecidableEq, Repr

def faultEtype : Fault → EvType
  | .unknownType => .unknown
  | _ => .known

/-- the primitives of `init_sblock` for a block without persistence and without `init_from_value` whose
    `init_regular()` raises (`initFails`) or initialises the block -/
@[reducible] def isPrims (initFails : Bool) : TrI.InitPrims EvSt EvExc Unit where
  steps s _ := s.marker
  setSteps _ k := fun s => ({ s with marker := k }, .next ())
  hasPersistence _ := false
  persistent _ _ := false
  initFromPersistentData _ := M.pure ()
  isInitialized s _ := s.initialized
  initRegular _ := fun s =>
    if initFails then ({ s with initCalls := s.initCalls + 1 }, .raise .initFailed)
    else ({ s with initCalls := s.initCalls + 1, initialized := true }, .next ())
  hasInitFromValue _ := false
  initdefGiven _ := false
  initFromValue _ := M.pure ()
  excIs _ c := c == "Exception"
  mkExc _ _ := .other
  sblocks := [()]
  pblocks := []
  initSblock _ _ := M.pure ()
  hasStorage _ := false
  savePersistentState _ := M.pure ()
  queueEmpty _ := true
  queueGet := M.pure ()

/-- the primitives of `SBlock.event` for one delivery that ends with the fault `flt` (exception id `id`);
    `self.circuit.init_sblock(self, full=True)` is the TRANSLATED `init_sblock` -/
@[reducible] def evPrims (flt : Fault) (id : Nat) (initFails : Bool) :
    TrD.EventPrims EvSt EvExc EvType Unit Unit Unit Unit Bool where
  isStr _ := true
  etypeTruthy _ := true
  isEventType _ := false
  isCond _ := false
  etrue _ := none
  efalse _ := none
  dataValue _ := ()
  valTruthy _ := false
  mkExc cls marker := if cls == "EdzedCircuitError" then (if marker == "recursion" then .recursion else .simErr) else .other
  excIs e c :=
    match e with
    | .raised f _ => c == "Exception" || (c == "EdzedUnknownEvent" && f == .unknownEvent)
    | _ => c == "Exception"
  tbDeep e := match e with | .raised _ d => d | _ => true
  getActive s := s.active
  setActive b := fun s => ({ s with active := b }, .next ())
  -- `abort(sim_err)`: the model's `St.abort` with the wrapped error
  abort x := fun s =>
    let e : Err := match x with | .simErr => .wrapped id | _ => .exc 0
    ({ s with st := s.st.abort e, dels := s.dels ++ [e] }, .next ())
  initSteps s := s.marker
  enableEnter := fun s => ({ s with active := false }, .next s.active)     -- `_enable_event.__enter__`
  enableExit saved := fun s => ({ s with active := saved }, .next ())
  initSblockFull := TrI.init_sblock (isPrims initFails) () true
  lookup t := match t with | .known => some () | .unknown => none
  callHandler _ _ := M.raise (.raised flt.seen.1 flt.seen.2)
  callDefault _ _ := M.raise (.raised .unknownEvent true)      -- the default `_event()`: EdzedUnknownEvent
  noneVal := ()

end Edzed.ErrorRegTie
