/-
Helper lemmas for C12 (model: EdzedModel/OutputAsync.lean).
-/
import EdzedModel.OutputAsync

namespace Edzed.OutputAsync

/-! ### structure of the helpers -/

/-- what `drain` discards and what it finally starts -/
def lastJob (j : Job) : List Job → Job
  | [] => j
  | k :: q => lastJob k q

def discards (s : State) (j : Job) : List Job → State
  | [] => s
  | k :: q => discards (emit s (.canc j)) k q

theorem drain_eq (s : State) (j : Job) (q : List Job) :
    drain s j q = startRun (discards s j q) (lastJob j q) := by
  induction q generalizing s j with
  | nil => rfl
  | cons k q ih => simp [drain, discards, lastJob, ih]

theorem pick_spec {t : Nat} {rs a b : List Run} {r : Run} (h : pick t rs = some (a, r, b)) :
    rs = a ++ r :: b ∧ r.till = t := by
  induction rs generalizing a with
  | nil => simp [pick] at h
  | cons x xs ih =>
    simp only [pick] at h
    split at h
    · next hx => simp at h; obtain ⟨rfl, rfl, rfl⟩ := h; simp [hx]
    · split at h
      · next a' x' b' hp =>
        simp at h; obtain ⟨rfl, rfl, rfl⟩ := h
        have := ih hp; simp [this.1, this.2]
      · simp at h

/-- induction over the primitive transitions: a predicate kept by the controller step, by a firing
    timer, by the passing of time, by an accepted put and by `stop()` holds in every reachable state -/
theorem run_induction (c : Cfg) (P : State → Prop) (h0 : P {})
    (hsettle : ∀ s, P s → P (settle c s))
    (hfire : ∀ s t, P s → P (fire c s t))
    (hexpire : ∀ s d, P s → s.deadline = some d → s.runs ≠ [] → P (expire c s d))
    (hnow : ∀ s t, P s → P { s with now := max s.now t })
    (haccept : ∀ s x, P s → s.stopped = false → P (accept s x))
    (hlate : ∀ s x, P s → s.stopped = true → P (acceptLate s x))
    (hstop : ∀ s, P s → P (doStop c s)) :
    ∀ ops, P (run c ops) := by
  have hadv : ∀ bound fuel s, P s → P (advance c bound fuel s) := by
    intro bound fuel
    induction fuel with
    | zero => intro s h; exact h
    | succ n ih =>
      intro s h
      simp only [advance]
      split
      · next m hm =>
        split
        · next d hd =>
          split
          · refine ih _ (hexpire _ _ h ?_ ?_)
            · unfold deadlineFirst at hd
              split at hd
              · next d' hd' => split at hd <;> simp_all
              · cases hd
            · intro hr; rw [hr] at hm; simp [minTill] at hm
          · exact h
        · split
          · exact ih _ (hfire _ _ h)
          · exact h
      · exact h
  have hadvTo : ∀ bound s, P s → P (advanceTo c bound s) := by
    intro bound s h
    simp only [advanceTo]
    have h2 := hadv bound (measure (settle c s)) _ (hsettle s h)
    cases bound with
    | none => exact h2
    | some b => exact hnow _ _ h2
  have hstep : ∀ s op, P s → P (step c s op) := by
    intro s op h
    cases op with
    | put t pre batch x =>
      have h1 : P (if batch = true then s else advanceTo c (some (t, !pre)) s) := by
        split
        · exact h
        · exact hadvTo _ _ h
      show P (if (if batch = true then s else advanceTo c (some (t, !pre)) s).stopped = true
        then acceptLate _ x else accept _ x)
      generalize (if batch = true then s else advanceTo c (some (t, !pre)) s) = s1 at h1
      by_cases hs : s1.stopped = true
      · simp only [hs, if_true]; exact hlate _ _ h1 hs
      · simp only [hs]; exact haccept _ _ h1 (by simpa using hs)
    | stop t pre batch =>
      refine hstop _ ?_
      show P (if batch = true then s else advanceTo c (some (t, !pre)) s)
      split
      · exact h
      · exact hadvTo _ _ h
    | finish => exact hadvTo none _ h
  intro ops
  suffices ∀ s, P s → P (ops.foldl (step c) s) from this _ h0
  induction ops with
  | nil => intro s h; exact h
  | cons op ops ih => intro s h; exact ih _ (hstep s op h)


/-! ### field projections of the helpers -/

@[simp] theorem emit_runs (s : State) (e : Ev) : (emit s e).runs = s.runs := rfl
@[simp] theorem emit_queue (s : State) (e : Ev) : (emit s e).queue = s.queue := rfl
@[simp] theorem emit_output (s : State) (e : Ev) : (emit s e).output = s.output := rfl
@[simp] theorem emit_now (s : State) (e : Ev) : (emit s e).now = s.now := rfl
@[simp] theorem emit_stopped (s : State) (e : Ev) : (emit s e).stopped = s.stopped := rfl
@[simp] theorem emit_sdPending (s : State) (e : Ev) : (emit s e).sdPending = s.sdPending := rfl
@[simp] theorem emit_nacc (s : State) (e : Ev) : (emit s e).nacc = s.nacc := rfl
@[simp] theorem emit_deadline (s : State) (e : Ev) : (emit s e).deadline = s.deadline := rfl
@[simp] theorem emit_log (s : State) (e : Ev) : (emit s e).log = (s.now, e) :: s.log := rfl

@[simp] theorem discards_runs (s : State) (j : Job) (q : List Job) : (discards s j q).runs = s.runs := by
  induction q generalizing s j <;> simp_all [discards]
@[simp] theorem discards_queue (s : State) (j : Job) (q : List Job) : (discards s j q).queue = s.queue := by
  induction q generalizing s j <;> simp_all [discards]
@[simp] theorem discards_output (s : State) (j : Job) (q : List Job) : (discards s j q).output = s.output := by
  induction q generalizing s j <;> simp_all [discards]
@[simp] theorem discards_now (s : State) (j : Job) (q : List Job) : (discards s j q).now = s.now := by
  induction q generalizing s j <;> simp_all [discards]
@[simp] theorem discards_stopped (s : State) (j : Job) (q : List Job) : (discards s j q).stopped = s.stopped := by
  induction q generalizing s j <;> simp_all [discards]
@[simp] theorem discards_sdPending (s : State) (j : Job) (q : List Job) :
    (discards s j q).sdPending = s.sdPending := by
  induction q generalizing s j <;> simp_all [discards]
@[simp] theorem discards_nacc (s : State) (j : Job) (q : List Job) : (discards s j q).nacc = s.nacc := by
  induction q generalizing s j <;> simp_all [discards]
@[simp] theorem discards_deadline (s : State) (j : Job) (q : List Job) :
    (discards s j q).deadline = s.deadline := by
  induction q generalizing s j <;> simp_all [discards]

@[simp] theorem startRun_runs (s : State) (j : Job) :
    (startRun s j).runs = s.runs ++ [⟨j, true, s.now + j.data.dur⟩] := rfl
@[simp] theorem startRun_queue (s : State) (j : Job) : (startRun s j).queue = s.queue := rfl
@[simp] theorem startRun_output (s : State) (j : Job) : (startRun s j).output = s.output + 1 := rfl
@[simp] theorem startRun_now (s : State) (j : Job) : (startRun s j).now = s.now := rfl
@[simp] theorem startRun_stopped (s : State) (j : Job) : (startRun s j).stopped = s.stopped := rfl
@[simp] theorem startRun_sdPending (s : State) (j : Job) : (startRun s j).sdPending = s.sdPending := rfl
@[simp] theorem startRun_nacc (s : State) (j : Job) : (startRun s j).nacc = s.nacc := rfl
@[simp] theorem startRun_deadline (s : State) (j : Job) : (startRun s j).deadline = s.deadline := rfl
@[simp] theorem startRun_log (s : State) (j : Job) :
    (startRun s j).log = (s.now, .start j) :: (s.now, .out (s.output + 1)) :: s.log := rfl

@[simp] theorem countDown_runs (s : State) : (countDown s).runs = s.runs := rfl
@[simp] theorem countDown_queue (s : State) : (countDown s).queue = s.queue := rfl
@[simp] theorem countDown_output (s : State) : (countDown s).output = s.output - 1 := rfl
@[simp] theorem countDown_now (s : State) : (countDown s).now = s.now := rfl
@[simp] theorem countDown_stopped (s : State) : (countDown s).stopped = s.stopped := rfl
@[simp] theorem countDown_sdPending (s : State) : (countDown s).sdPending = s.sdPending := rfl
@[simp] theorem countDown_nacc (s : State) : (countDown s).nacc = s.nacc := rfl
@[simp] theorem countDown_deadline (s : State) : (countDown s).deadline = s.deadline := rfl
@[simp] theorem countDown_log (s : State) : (countDown s).log = (s.now, .out (s.output - 1)) :: s.log := rfl

@[simp] theorem startAll_queue (s : State) (q : List Job) : (startAll s q).queue = s.queue := by
  induction q generalizing s <;> simp_all [startAll]
@[simp] theorem startAll_now (s : State) (q : List Job) : (startAll s q).now = s.now := by
  induction q generalizing s <;> simp_all [startAll]
@[simp] theorem startAll_stopped (s : State) (q : List Job) : (startAll s q).stopped = s.stopped := by
  induction q generalizing s <;> simp_all [startAll]
@[simp] theorem startAll_sdPending (s : State) (q : List Job) : (startAll s q).sdPending = s.sdPending := by
  induction q generalizing s <;> simp_all [startAll]
@[simp] theorem startAll_nacc (s : State) (q : List Job) : (startAll s q).nacc = s.nacc := by
  induction q generalizing s <;> simp_all [startAll]
@[simp] theorem startAll_deadline (s : State) (q : List Job) : (startAll s q).deadline = s.deadline := by
  induction q generalizing s <;> simp_all [startAll]
theorem startAll_runs (s : State) (q : List Job) :
    (startAll s q).runs = s.runs ++ q.map (fun j => ⟨j, true, s.now + j.data.dur⟩) := by
  induction q generalizing s <;> simp_all [startAll]
theorem startAll_output (s : State) (q : List Job) : (startAll s q).output = s.output + q.length := by
  induction q generalizing s with
  | nil => simp [startAll]
  | cons j q ih => simp [startAll, ih]; omega

/-! ### a put behind the sentinel -/

@[simp] theorem acceptLate_runs (s : State) (x : Item) : (acceptLate s x).runs = s.runs := rfl
@[simp] theorem acceptLate_queue (s : State) (x : Item) : (acceptLate s x).queue = s.queue := rfl
@[simp] theorem acceptLate_output (s : State) (x : Item) : (acceptLate s x).output = s.output := rfl
@[simp] theorem acceptLate_now (s : State) (x : Item) : (acceptLate s x).now = s.now := rfl
@[simp] theorem acceptLate_stopped (s : State) (x : Item) : (acceptLate s x).stopped = s.stopped := rfl
@[simp] theorem acceptLate_sdPending (s : State) (x : Item) : (acceptLate s x).sdPending = s.sdPending := rfl
@[simp] theorem acceptLate_nacc (s : State) (x : Item) : (acceptLate s x).nacc = s.nacc := rfl
@[simp] theorem acceptLate_deadline (s : State) (x : Item) : (acceptLate s x).deadline = s.deadline := rfl
@[simp] theorem acceptLate_stopAt (s : State) (x : Item) : (acceptLate s x).stopAt = s.stopAt := rfl
@[simp] theorem acceptLate_log (s : State) (x : Item) :
    (acceptLate s x).log = (s.now, Ev.late ⟨s.nacc + s.late.length, x⟩) :: s.log := rfl

/-! ### stop_timeout expiry -/

@[simp] theorem expire_queue (c : Cfg) (s : State) (d : Nat) : (expire c s d).queue = s.queue := rfl
@[simp] theorem expire_output (c : Cfg) (s : State) (d : Nat) : (expire c s d).output = s.output := rfl
@[simp] theorem expire_stopped (c : Cfg) (s : State) (d : Nat) : (expire c s d).stopped = s.stopped := rfl
@[simp] theorem expire_sdPending (c : Cfg) (s : State) (d : Nat) : (expire c s d).sdPending = s.sdPending := rfl
@[simp] theorem expire_nacc (c : Cfg) (s : State) (d : Nat) : (expire c s d).nacc = s.nacc := rfl
@[simp] theorem expire_now (c : Cfg) (s : State) (d : Nat) : (expire c s d).now = max s.now d := rfl
@[simp] theorem expire_deadline (c : Cfg) (s : State) (d : Nat) : (expire c s d).deadline = none := rfl
@[simp] theorem expire_runs (c : Cfg) (s : State) (d : Nat) :
    (expire c s d).runs = s.runs.map (toGuard c (max s.now d)) := rfl
theorem expire_log (c : Cfg) (s : State) (d : Nat) :
    (expire c s d).log = expireEvents (max s.now d) s.runs ((max s.now d, Ev.timeout) :: s.log) := rfl

@[simp] theorem toGuard_coro (c : Cfg) (now : Nat) (r : Run) : (toGuard c now r).coro = false := by
  unfold toGuard; split <;> simp_all
@[simp] theorem toGuard_job (c : Cfg) (now : Nat) (r : Run) : (toGuard c now r).job = r.job := by
  unfold toGuard; split <;> rfl
theorem toGuard_of_guard (c : Cfg) (now : Nat) (r : Run) (h : r.coro = false) : toGuard c now r = r := by
  unfold toGuard; simp [h]

theorem expireEvents_append (now : Nat) (rs : List Run) (l : List (Nat × Ev)) :
    expireEvents now rs l = expireEvents now rs [] ++ l := by
  induction rs generalizing l with
  | nil => rfl
  | cons r rs ih =>
    simp only [expireEvents]
    rw [ih, ih (if r.coro = true then _ else [])]
    split <;> simp

theorem expireEvents_mem {now : Nat} {rs : List Run} {x : Nat × Ev} :
    x ∈ expireEvents now rs [] ↔
      ∃ r ∈ rs, r.coro = true ∧ (x = (now, Ev.cancelled r.job) ∨ x = (now, Ev.canc r.job)) := by
  induction rs with
  | nil => simp [expireEvents]
  | cons r rs ih =>
    simp only [expireEvents]
    rw [expireEvents_append, List.mem_append, ih]
    by_cases hc : r.coro = true
    · simp only [hc, if_true, List.mem_cons, List.not_mem_nil, or_false]
      constructor
      · rintro (⟨r', hr', h1, h2⟩ | h | h)
        · exact ⟨r', Or.inr hr', h1, h2⟩
        · exact ⟨r, Or.inl rfl, hc, Or.inr h⟩
        · exact ⟨r, Or.inl rfl, hc, Or.inl h⟩
      · rintro ⟨r', hr', h1, h2⟩
        rcases hr' with rfl | hr'
        · rcases h2 with h2 | h2
          · exact Or.inr (Or.inr h2)
          · exact Or.inr (Or.inl h2)
        · exact Or.inl ⟨r', hr', h1, h2⟩
    · simp only [hc]
      constructor
      · rintro (⟨r', hr', h1, h2⟩ | h)
        · exact ⟨r', List.mem_cons_of_mem _ hr', h1, h2⟩
        · simp at h
      · rintro ⟨r', hr', h1, h2⟩
        rcases List.mem_cons.mp hr' with rfl | hr'
        · exact absurd h1 hc
        · exact Or.inl ⟨r', hr', h1, h2⟩

/-- the new part of the log after an expiry -/
def expireNew (now : Nat) (rs : List Run) : List (Nat × Ev) := expireEvents now rs [] ++ [(now, Ev.timeout)]

theorem expire_log_eq (c : Cfg) (s : State) (d : Nat) :
    (expire c s d).log = expireNew (max s.now d) s.runs ++ s.log := by
  rw [expire_log, expireEvents_append]; simp [expireNew]

theorem expireNew_mem {now : Nat} {rs : List Run} {x : Nat × Ev} (h : x ∈ expireNew now rs) :
    x = (now, Ev.timeout) ∨
      ∃ r ∈ rs, r.coro = true ∧ (x = (now, Ev.cancelled r.job) ∨ x = (now, Ev.canc r.job)) := by
  simp only [expireNew, List.mem_append, List.mem_singleton] at h
  rcases h with h | h
  · exact Or.inr (expireEvents_mem.mp h)
  · exact Or.inl h

theorem expire_log_sub (c : Cfg) (s : State) (d : Nat) : ∀ x ∈ s.log, x ∈ (expire c s d).log := by
  intro x hx; rw [expire_log_eq]; exact List.mem_append_right _ hx

theorem expire_timeout_mem (c : Cfg) (s : State) (d : Nat) :
    (max s.now d, Ev.timeout) ∈ (expire c s d).log := by
  rw [expire_log_eq]; apply List.mem_append_left; simp [expireNew]

/-- projections of the log that ignore cancellations and the timeout marker are unchanged -/
theorem filterMap_expireNew (f : Ev → Option Job) (hf1 : ∀ j, f (Ev.canc j) = none)
    (hf2 : ∀ j, f (Ev.cancelled j) = none) (hf3 : f Ev.timeout = none) (now : Nat) (rs : List Run) :
    (expireNew now rs).filterMap (fun e => f e.2) = [] := by
  rw [List.filterMap_eq_nil_iff]
  intro x hx
  rcases expireNew_mem hx with rfl | ⟨r, _, _, rfl | rfl⟩
  · exact hf3
  · exact hf2 _
  · exact hf1 _

/-! ### case analysis of the controller step and of a firing timer -/

theorem settle_cases (c : Cfg) (s : State) (P : State → Prop)
    (h_id : P s)
    (h_wait : c.mode = Mode.wait → ∀ j q, s.runs = [] → s.queue = j :: q →
      P (startRun { s with queue := q } j))
    (h_drain : c.mode = Mode.cancel → ∀ j q, s.runs = [] → s.queue = j :: q →
      P (startRun (discards { s with queue := [] } j q) (lastJob j q)))
    (h_cancel : c.mode = Mode.cancel → ∀ j q r rest, s.queue = j :: q → s.runs = r :: rest →
      r.coro = true → P (cancelCur c s r rest))
    (h_start : c.mode = Mode.start → P (startStopData (startAll { s with queue := [] } s.queue))) :
    P (settle c s) := by
  unfold settle
  split
  · next hm =>
    split
    · next j q hr hq => exact h_wait hm j q hr hq
    · exact h_id
  · next hm =>
    split
    · exact h_id
    · next j q hq =>
      split
      · next hr => rw [drain_eq]; exact h_drain hm j q hr hq
      · next r rest hr =>
        split
        · next hc => exact h_cancel hm j q r rest hq hr hc
        · exact h_id
  · next hm => exact h_start hm

/-- the state in which the coroutine of `r` has just ended -/
def afterCoro (s : State) (t : Nat) (r : Run) : State :=
  emit (emit { s with now := max s.now t } (.done r.job))
    (if r.job.data.fail then .err r.job else .succ r.job)

theorem fire_cases (c : Cfg) (s : State) (t : Nat) (P : State → Prop)
    (h_id : pick t s.runs = none → P s)
    (h_guard : ∀ a r b, s.runs = a ++ r :: b → r.till = t → r.coro = true → 0 < c.guard →
      P { afterCoro s t r with runs := a ++ { r with coro := false, till := max s.now t + c.guard } :: b })
    (h_fin1 : ∀ a r b, s.runs = a ++ r :: b → r.till = t → r.coro = true → c.guard = 0 →
      P (finishRun c (afterCoro s t r) a b))
    (h_fin2 : ∀ a r b, s.runs = a ++ r :: b → r.till = t → r.coro = false →
      P (finishRun c { s with now := max s.now t } a b)) :
    P (fire c s t) := by
  unfold fire
  split
  · next hp => exact h_id hp
  · next a r b hp =>
    obtain ⟨hrs, ht⟩ := pick_spec hp
    split
    · next hc =>
      unfold coroEnd
      by_cases hg : 0 < c.guard
      · simp only [hg, if_true]; exact h_guard a r b hrs ht hc hg
      · simp only [gt_iff_lt, hg, if_false]; exact h_fin1 a r b hrs ht hc (by omega)
    · next hc => exact h_fin2 a r b hrs ht (by simpa using hc)

/-! ### the output counts the active runs; one run at a time outside start mode -/

def CountInv (c : Cfg) (s : State) : Prop :=
  s.output = s.runs.length ∧ (c.mode ≠ Mode.start → s.runs.length ≤ 1)

theorem startStopData_countInv (c : Cfg) (s : State) (hm : c.mode = Mode.start) (h : CountInv c s) :
    CountInv c (startStopData s) := by
  unfold startStopData
  split
  · split
    · simp [CountInv, hm] at *; exact h
    · exact h
  · exact h

theorem settle_countInv (c : Cfg) (s : State) (h : CountInv c s) : CountInv c (settle c s) := by
  obtain ⟨h1, h2⟩ := h
  apply settle_cases
  · exact ⟨h1, h2⟩
  · intro hm j q hr hq; simp [CountInv, h1, hr]
  · intro hm j q hr hq; simp [CountInv, h1, hr]
  · intro hm j q r rest hq hr hc
    simp [CountInv, cancelCur, h1, hr] at *; exact h2
  · intro hm
    apply startStopData_countInv c _ hm
    simp [CountInv, startAll_runs, startAll_output, h1, hm]

theorem finishRun_countInv (c : Cfg) (s : State) (a b : List Run) (r : Run)
    (hrs : s.runs = a ++ r :: b) (h : CountInv c s) : CountInv c (finishRun c s a b) := by
  apply settle_countInv
  obtain ⟨h1, h2⟩ := h
  simp [CountInv, h1, hrs] at *
  intro hm; have := h2 hm; omega

theorem fire_countInv (c : Cfg) (s : State) (t : Nat) (h : CountInv c s) : CountInv c (fire c s t) := by
  apply fire_cases
  · intro _; exact h
  · intro a r b hrs _ _ _
    obtain ⟨h1, h2⟩ := h
    simp [CountInv, afterCoro, h1, hrs] at *; exact h2
  · intro a r b hrs _ _ _
    exact finishRun_countInv c _ a b r (by simpa [afterCoro] using hrs) (by simpa [CountInv, afterCoro] using h)
  · intro a r b hrs _ _
    exact finishRun_countInv c _ a b r (by simpa using hrs) (by simpa [CountInv] using h)

theorem accept_countInv (c : Cfg) (s : State) (x : Item) (h : CountInv c s) : CountInv c (accept s x) := by
  simpa [CountInv, accept] using h

theorem doStop_countInv (c : Cfg) (s : State) (h : CountInv c s) : CountInv c (doStop c s) := by
  unfold doStop
  split
  · exact h
  · split
    · simpa [CountInv] using h
    · split
      · simpa [CountInv] using h
      · simpa [CountInv, accept] using h

theorem expire_countInv (c : Cfg) (s : State) (d : Nat) (h : CountInv c s) : CountInv c (expire c s d) := by
  simpa [CountInv] using h

theorem run_countInv (c : Cfg) (ops : List Op) : CountInv c (run c ops) :=
  run_induction c (CountInv c) (by simp [CountInv]) (settle_countInv c) (fire_countInv c)
    (fun s d h _ _ => expire_countInv c s d h) (fun _ _ h => h) (fun s x h _ => accept_countInv c s x h) (fun s x h _ => by simpa [CountInv] using h) (doStop_countInv c) ops


/-! ### termination: every internal step lowers `measure`; `finish` reaches the idle state -/

def runCost (r : Run) : Nat := if r.coro then 2 else 1
def sdCost (o : Option Job) : Nat := if o.isSome then 2 else 0

def dlCost (o : Option Nat) : Nat := if o.isSome then 1 else 0

theorem measure_def (s : State) :
    measure s = 2 * s.queue.length + (s.runs.map runCost).sum + sdCost s.sdPending + dlCost s.deadline := rfl

theorem sum_map_const2 (q : List Job) : (q.map (fun j => runCost ⟨j, true, t + j.data.dur⟩)).sum = 2 * q.length := by
  induction q with
  | nil => rfl
  | cons j q ih => simp only [List.map_cons, List.sum_cons, ih, List.length_cons]; simp [runCost]; omega

theorem startStopData_measure (s : State) : measure (startStopData s) ≤ measure s := by
  unfold startStopData
  split
  · next j hj =>
    split
    · simp [measure_def, hj, runCost, sdCost, List.sum_append]; omega
    · exact Nat.le_refl _
  · exact Nat.le_refl _

theorem settle_measure (c : Cfg) (s : State) : measure (settle c s) ≤ measure s := by
  apply settle_cases c s (fun s' => measure s' ≤ measure s)
  · exact Nat.le_refl _
  · intro _ j q hr hq; simp [measure_def, hr, hq, runCost]; omega
  · intro _ j q hr hq; simp [measure_def, hr, hq, runCost]; omega
  · intro _ j q r rest hq hr hc; simp [measure_def, cancelCur, hr, hq, runCost, hc]
  · intro _
    refine Nat.le_trans (startStopData_measure _) ?_
    simp only [measure_def, startAll_runs, List.map_append, List.sum_append, List.map_map, Function.comp_def,
      startAll_queue, startAll_sdPending, sum_map_const2]
    simp; omega

theorem finishRun_measure (c : Cfg) (s : State) (a b : List Run) (r : Run) (hrs : s.runs = a ++ r :: b) :
    measure (finishRun c s a b) < measure s := by
  refine Nat.lt_of_le_of_lt (settle_measure _ _) ?_
  have : 1 ≤ runCost r := by unfold runCost; split <;> omega
  simp [measure_def, hrs, List.sum_append]
  omega

theorem fire_measure (c : Cfg) (s : State) (t : Nat) (h : (pick t s.runs).isSome) :
    measure (fire c s t) < measure s := by
  apply fire_cases c s t (fun s' => measure s' < measure s)
  · intro hp; simp [hp] at h
  · intro a r b hrs _ hc _
    simp [measure_def, afterCoro, hrs, List.sum_append, runCost, hc]
  · intro a r b hrs _ _ _
    exact finishRun_measure c (afterCoro s t r) a b r (by simpa [afterCoro] using hrs)
  · intro a r b hrs _ _
    exact finishRun_measure c { s with now := max s.now t } a b r (by simpa using hrs)

theorem minTill_pick (rs : List Run) (m : Nat) (h : minTill rs = some m) : (pick m rs).isSome := by
  induction rs generalizing m with
  | nil => simp [minTill] at h
  | cons r rs ih =>
    simp only [minTill] at h
    simp only [pick]
    split
    · rfl
    · next hne =>
      split at h
      · simp at h; exact absurd h hne
      · next m' hm' =>
        simp at h
        have : m = m' := by omega
        subst this
        have := ih m hm'
        split <;> simp_all

theorem minTill_none (rs : List Run) (h : minTill rs = none) : rs = [] := by
  cases rs with
  | nil => rfl
  | cons r rs => simp only [minTill] at h; split at h <;> simp at h

theorem measure_zero_runs (s : State) (h : measure s = 0) : s.runs = [] := by
  cases hr : s.runs with
  | nil => rfl
  | cons r rs =>
    have : 1 ≤ runCost r := by unfold runCost; split <;> omega
    simp [measure_def, hr] at h; omega

theorem toGuard_cost (c : Cfg) (now : Nat) (rs : List Run) :
    ((rs.map (toGuard c now)).map runCost).sum ≤ (rs.map runCost).sum := by
  induction rs with
  | nil => simp
  | cons r rs ih =>
    have : runCost (toGuard c now r) ≤ runCost r := by
      unfold toGuard runCost; split <;> simp_all
    simp only [List.map_cons, List.sum_cons]; omega

theorem expire_measure (c : Cfg) (s : State) (d : Nat) (h : s.deadline.isSome) :
    measure (expire c s d) < measure s := by
  have := toGuard_cost c (max s.now d) s.runs
  have hd : dlCost s.deadline = 1 := by simp [dlCost, h]
  have hn : dlCost (none : Option Nat) = 0 := rfl
  simp only [measure_def, expire_queue, expire_runs, expire_sdPending, expire_deadline, hd, hn]
  omega

theorem deadlineFirst_some {s : State} {m d : Nat} (h : deadlineFirst s m = some d) : s.deadline.isSome := by
  unfold deadlineFirst at h
  split at h
  · next hd => simp [hd]
  · cases h

/-- with enough fuel the unbounded `advance` stops only when no run is left -/
theorem advance_none_runs (c : Cfg) (fuel : Nat) (s : State) (h : measure s ≤ fuel) :
    (advance c none fuel s).runs = [] := by
  induction fuel generalizing s with
  | zero => exact measure_zero_runs s (by omega)
  | succ n ih =>
    simp only [advance]
    split
    · next m hm =>
      split
      · next d hd =>
        simp only [due, if_true]
        apply ih
        have := expire_measure c s d (deadlineFirst_some hd)
        omega
      · simp only [due, if_true]
        apply ih
        have := fire_measure c s m (minTill_pick _ _ hm)
        omega
    · next hm => exact minTill_none _ hm

/-! ### after the controller has run nothing startable is left waiting -/

def Quiet (c : Cfg) (s : State) : Prop :=
  (c.mode = Mode.wait → s.runs = [] → s.queue = []) ∧
  (c.mode = Mode.cancel → (s.runs = [] → s.queue = []) ∧
      (∀ r rest, s.runs = r :: rest → r.coro = true → s.queue = [])) ∧
  (c.mode = Mode.start → s.queue = [] ∧ (s.sdPending.isSome → s.stopped = true → s.runs ≠ []))

theorem startStopData_quiet (c : Cfg) (s : State) (hm : c.mode = Mode.start) (hq : s.queue = []) :
    Quiet c (startStopData s) := by
  refine ⟨by simp [hm], by simp [hm], fun _ => ?_⟩
  unfold startStopData
  split
  · next j hj =>
    split
    · simp [hq]
    · next hc =>
      refine ⟨hq, fun _ hst hr => ?_⟩
      simp [hst, hr] at hc
  · next hn => simp [hn, hq]

theorem settle_quiet (c : Cfg) (s : State) : Quiet c (settle c s) := by
  unfold settle
  split
  · next hm =>
    split
    · simp [Quiet, hm]
    · next hno =>
      refine ⟨fun _ hr => ?_, by simp [hm], by simp [hm]⟩
      cases hq : s.queue with
      | nil => rfl
      | cons j q => exact absurd hq (hno j q hr)
  · next hm =>
    split
    · next hq => simp [Quiet, hm, hq]
    · next j q hq =>
      split
      · simp [Quiet, hm, drain_eq]
      · next r rest hr =>
        split
        · simp [Quiet, hm, cancelCur]
        · next hc => simp [Quiet, hm, hr]; intro h; exact absurd h hc
  · next hm => exact startStopData_quiet c _ hm (by simp)

theorem fire_quiet (c : Cfg) (s : State) (t : Nat) (h : Quiet c s) : Quiet c (fire c s t) := by
  apply fire_cases
  · intro _; exact h
  · intro a r b hrs _ _ _
    obtain ⟨h1, h2, h3⟩ := h
    refine ⟨fun _ hr => by simp at hr, fun hm => ⟨fun hr => by simp at hr, ?_⟩, fun hm => ?_⟩
    · intro r0 rest hr0 hc0
      cases a with
      | nil => simp at hr0; rw [← hr0.1] at hc0; simp at hc0
      | cons x a' =>
        simp at hr0
        exact (h2 hm).2 x (a' ++ r :: b) (by simp [hrs]) (by rw [hr0.1]; exact hc0)
    · exact ⟨by simpa [afterCoro] using (h3 hm).1, fun _ _ => by simp⟩
  · intro a r b _ _ _ _; exact settle_quiet _ _
  · intro a r b _ _ _; exact settle_quiet _ _

theorem expire_quiet (c : Cfg) (s : State) (d : Nat) (h : Quiet c s) : Quiet c (expire c s d) := by
  obtain ⟨h1, h2, h3⟩ := h
  refine ⟨fun hm hr => ?_, fun hm => ⟨fun hr => ?_, ?_⟩, fun hm => ⟨(h3 hm).1, fun hp hs hr => ?_⟩⟩
  · exact h1 hm (by simpa using hr)
  · exact (h2 hm).1 (by simpa using hr)
  · intro r rest hr hc
    have : r ∈ (expire c s d).runs := by rw [hr]; simp
    simp only [expire_runs, List.mem_map] at this
    obtain ⟨r0, _, rfl⟩ := this
    simp at hc
  · exact (h3 hm).2 hp hs (by simpa using hr)

theorem advance_quiet (c : Cfg) (bound : Option (Nat × Bool)) (fuel : Nat) (s : State) (h : Quiet c s) :
    Quiet c (advance c bound fuel s) := by
  induction fuel generalizing s with
  | zero => exact h
  | succ n ih =>
    simp only [advance]
    split
    · split
      · split
        · exact ih _ (expire_quiet c s _ h)
        · exact h
      · split
        · exact ih _ (fire_quiet c s _ h)
        · exact h
    · exact h

/-! ### stop_data waits in `sdPending` only in start mode and only after `stop()` -/

def SdInv (c : Cfg) (s : State) : Prop :=
  (c.mode ≠ Mode.start → s.sdPending = none) ∧ (s.sdPending.isSome → s.stopped = true)

theorem startStopData_sdInv (c : Cfg) (s : State) (h : SdInv c s) : SdInv c (startStopData s) := by
  unfold startStopData
  split
  · split
    · simp [SdInv]
    · exact h
  · exact h

theorem settle_sdInv (c : Cfg) (s : State) (h : SdInv c s) : SdInv c (settle c s) := by
  apply settle_cases
  · exact h
  · intros; simpa [SdInv] using h
  · intros; simpa [SdInv] using h
  · intros; simpa [SdInv, cancelCur] using h
  · intro _; apply startStopData_sdInv; simpa [SdInv] using h

theorem fire_sdInv (c : Cfg) (s : State) (t : Nat) (h : SdInv c s) : SdInv c (fire c s t) := by
  apply fire_cases
  · intro _; exact h
  · intros; simpa [SdInv, afterCoro] using h
  · intros; apply settle_sdInv; simpa [SdInv, afterCoro] using h
  · intros; apply settle_sdInv; simpa [SdInv] using h

theorem doStop_sdInv (c : Cfg) (s : State) (h : SdInv c s) : SdInv c (doStop c s) := by
  unfold doStop
  split
  · exact h
  · split
    · simp [SdInv] at *; exact h.1
    · split
      · next hm => simp [SdInv, hm]
      · simp [SdInv, accept] at *; exact h.1

theorem expire_sdInv (c : Cfg) (s : State) (d : Nat) (h : SdInv c s) : SdInv c (expire c s d) := by
  simpa [SdInv] using h

theorem run_sdInv (c : Cfg) (ops : List Op) : SdInv c (run c ops) :=
  run_induction c (SdInv c) (by simp [SdInv]) (settle_sdInv c) (fire_sdInv c)
    (fun s d h _ _ => expire_sdInv c s d h) (fun _ _ h => h) (fun s x h _ => by simpa [SdInv, accept] using h) (fun s x h _ => by simpa [SdInv] using h) (doStop_sdInv c) ops

theorem run_snoc (c : Cfg) (ops : List Op) (op : Op) : run c (ops ++ [op]) = step c (run c ops) op := by
  simp [run, List.foldl_append]

/-- `finish` reaches the idle state -/
theorem finish_idle (c : Cfg) (ops : List Op) :
    let s := step c (run c ops) .finish
    s.runs = [] ∧ s.queue = [] ∧ s.sdPending = none ∧ s.output = 0 := by
  intro s
  have hruns : s.runs = [] := advance_none_runs c _ _ (Nat.le_refl _)
  have hq : Quiet c s := advance_quiet c none _ _ (settle_quiet c _)
  have hsd : SdInv c s := by have := run_sdInv c (ops ++ [.finish]); rwa [run_snoc] at this
  have hcnt : CountInv c s := by have := run_countInv c (ops ++ [.finish]); rwa [run_snoc] at this
  obtain ⟨q1, q2, q3⟩ := hq
  refine ⟨hruns, ?_, ?_, by rw [hcnt.1, hruns]; rfl⟩
  · cases hm : c.mode with
    | wait => exact q1 hm hruns
    | cancel => exact (q2 hm).1 hruns
    | start => exact (q3 hm).1
  · cases hm : c.mode with
    | wait => exact hsd.1 (by simp [hm])
    | cancel => exact hsd.1 (by simp [hm])
    | start =>
      cases hp : s.sdPending with
      | none => rfl
      | some j => exact absurd hruns ((q3 hm).2 (by simp [hp]) (hsd.2 (by simp [hp])))


/-! ### every accepted put is pending or has exactly one result -/

def evPut : Ev → Option Job
  | .put j => some j
  | _ => none

def evRes : Ev → Option Job
  | .succ j => some j
  | .err j => some j
  | .canc j => some j
  | _ => none

def putJobs (log : List (Nat × Ev)) : List Job := log.filterMap (fun e => evPut e.2)
def resJobs (log : List (Nat × Ev)) : List Job := log.filterMap (fun e => evRes e.2)

/-- accepted and still owed a result: queued, or its coroutine is running, or stop_data waiting in stop_async -/
def pendJobs (s : State) : List Job :=
  s.queue ++ ((s.runs.filter (·.coro)).map (·.job) ++ s.sdPending.toList)

def Balanced (s : State) : Prop :=
  ∀ x, (putJobs s.log).count x = (resJobs s.log).count x + (pendJobs s).count x

@[simp] theorem putJobs_cons (t : Nat) (e : Ev) (l : List (Nat × Ev)) :
    putJobs ((t, e) :: l) = (evPut e).toList ++ putJobs l := by
  simp only [putJobs, List.filterMap_cons]; cases evPut e <;> simp
@[simp] theorem resJobs_cons (t : Nat) (e : Ev) (l : List (Nat × Ev)) :
    resJobs ((t, e) :: l) = (evRes e).toList ++ resJobs l := by
  simp only [resJobs, List.filterMap_cons]; cases evRes e <;> simp

theorem discards_put (s : State) (j : Job) (q : List Job) :
    putJobs (discards s j q).log = putJobs s.log := by
  induction q generalizing s j with
  | nil => rfl
  | cons k q ih => simp [discards, ih, evPut]

theorem discards_res (s : State) (j : Job) (q : List Job) (x : Job) :
    (resJobs (discards s j q).log).count x + [lastJob j q].count x
      = (resJobs s.log).count x + (j :: q).count x := by
  induction q generalizing s j with
  | nil => simp [discards, lastJob]
  | cons k q ih =>
    have := ih (emit s (.canc j)) k
    simp [discards, lastJob, evRes, List.count_cons] at this ⊢
    omega

theorem startStopData_balanced (s : State) (h : Balanced s) : Balanced (startStopData s) := by
  unfold startStopData
  split
  · next j hj =>
    split
    · intro x; have := h x
      simp [pendJobs, hj, evPut, evRes, List.filter_append, List.count_cons] at this ⊢
      omega
    · exact h
  · exact h

theorem startAll_balanced (s : State) (q : List Job) (hq : s.queue = [])
    (h : ∀ x, (putJobs s.log).count x = (resJobs s.log).count x + (pendJobs s).count x + q.count x) :
    Balanced (startAll s q) := by
  induction q generalizing s with
  | nil => intro x; simpa [startAll] using h x
  | cons j q ih =>
    apply ih
    · simpa using hq
    · intro x; have := h x
      simp [pendJobs, hq, evPut, evRes, List.filter_append, List.count_cons] at this ⊢
      omega

theorem settle_balanced (c : Cfg) (s : State) (h : Balanced s) : Balanced (settle c s) := by
  apply settle_cases
  · exact h
  · intro _ j q hr hq x; have := h x
    simp [pendJobs, hr, hq, evPut, evRes, List.count_cons] at this ⊢
    omega
  · intro _ j q hr hq x; have := h x
    have hd := discards_res { s with queue := [] } j q x
    simp [pendJobs, hr, hq, evPut, evRes, List.count_cons, discards_put] at this hd ⊢
    omega
  · intro _ j q r rest hq hr hc x; have := h x
    simp [pendJobs, cancelCur, hr, hq, hc, evPut, evRes, List.count_cons] at this ⊢
    omega
  · intro _
    apply startStopData_balanced
    apply startAll_balanced _ _ rfl
    intro x; have := h x
    simp [pendJobs, List.count_append] at this ⊢
    omega

theorem finishRun_balanced (c : Cfg) (s : State) (a b : List Run) (r : Run)
    (hrs : s.runs = a ++ r :: b) (hc : r.coro = false) (h : Balanced s) :
    Balanced (finishRun c s a b) := by
  apply settle_balanced
  intro x; have := h x
  simp [pendJobs, hrs, hc, evPut, evRes, List.filter_append] at this ⊢
  omega

theorem fire_balanced (c : Cfg) (s : State) (t : Nat) (h : Balanced s) : Balanced (fire c s t) := by
  apply fire_cases
  · intro _; exact h
  · intro a r b hrs _ hc _ x; have := h x
    cases hf : r.job.data.fail <;>
    · simp [pendJobs, afterCoro, hrs, hc, hf, evPut, evRes, List.filter_append, List.count_cons] at this ⊢
      omega
  · intro a r b hrs _ hc _
    apply settle_balanced
    intro x; have := h x
    cases hf : r.job.data.fail <;>
    · simp [pendJobs, afterCoro, hrs, hc, hf, evPut, evRes, List.filter_append, List.count_cons] at this ⊢
      omega
  · intro a r b hrs _ hc
    exact finishRun_balanced c _ a b r (by simpa using hrs) hc (by simpa [Balanced, pendJobs] using h)

theorem accept_balanced (s : State) (x : Item) (h : Balanced s) : Balanced (accept s x) := by
  intro y; have := h y
  simp [pendJobs, accept, evPut, evRes, List.count_cons] at this ⊢
  omega

theorem doStop_balanced (c : Cfg) (s : State) (h : Balanced s) (hsd : SdInv c s) (hst : s.stopped = false) :
    Balanced (doStop c s) := by
  unfold doStop
  rw [if_neg (by simp [hst])]
  split
  · simpa [Balanced, pendJobs] using h
  · next d _ =>
    split
    · have hnone : s.sdPending = none := by
        cases hp : s.sdPending with
        | none => rfl
        | some j => have := hsd.2 (by simp [hp]); simp [hst] at this
      intro y; have := h y
      simp [pendJobs, evPut, evRes, hnone, List.count_cons] at this ⊢
      omega
    · have := accept_balanced s d h
      simpa [Balanced, pendJobs] using this


theorem resJobs_expireEvents (now : Nat) (rs : List Run) (l : List (Nat × Ev)) (x : Job) :
    (resJobs (expireEvents now rs l)).count x
      = (resJobs l).count x + ((rs.filter (·.coro)).map (·.job)).count x := by
  induction rs generalizing l with
  | nil => simp [expireEvents]
  | cons r rs ih =>
    simp only [expireEvents]
    rw [ih]
    by_cases hc : r.coro = true
    · simp [hc, evRes, List.count_cons]; omega
    · simp [hc]

theorem filter_toGuard (c : Cfg) (now : Nat) (rs : List Run) :
    (rs.map (toGuard c now)).filter (·.coro) = [] := by
  rw [List.filter_eq_nil_iff]
  intro r hr
  simp only [List.mem_map] at hr
  obtain ⟨r0, _, rfl⟩ := hr
  simp

theorem putJobs_expire (c : Cfg) (s : State) (d : Nat) : putJobs (expire c s d).log = putJobs s.log := by
  rw [expire_log_eq]
  simp only [putJobs, List.filterMap_append]
  rw [filterMap_expireNew evPut (fun _ => rfl) (fun _ => rfl) rfl]; rfl

theorem expire_balanced (c : Cfg) (s : State) (d : Nat) (h : Balanced s) : Balanced (expire c s d) := by
  intro x
  have hx := h x
  have hr := resJobs_expireEvents (max s.now d) s.runs ((max s.now d, Ev.timeout) :: s.log) x
  rw [putJobs_expire, expire_log, hr]
  simp only [pendJobs, expire_queue, expire_runs, expire_sdPending, filter_toGuard] at hx ⊢
  simp [evRes, List.count_append] at hx ⊢
  omega

theorem run_balanced (c : Cfg) (ops : List Op) : Balanced (run c ops) := by
  have := run_induction c (fun s => Balanced s ∧ SdInv c s) ⟨by simp [Balanced, putJobs, resJobs, pendJobs], by simp [SdInv]⟩
    (fun s h => ⟨settle_balanced c s h.1, settle_sdInv c s h.2⟩)
    (fun s t h => ⟨fire_balanced c s t h.1, fire_sdInv c s t h.2⟩)
    (fun s d h _ _ => ⟨expire_balanced c s d h.1, expire_sdInv c s d h.2⟩)
    (fun _ _ h => h)
    (fun s x h _ => ⟨accept_balanced s x h.1, by simpa [SdInv, accept] using h.2⟩)
    (fun s x h _ => ⟨by simpa [Balanced, pendJobs, evPut, evRes] using h.1, by simpa [SdInv] using h.2⟩)
    (fun s h => by
      refine ⟨?_, doStop_sdInv c s h.2⟩
      cases hst : s.stopped with
      | true => simp [doStop, hst]; exact h.1
      | false => exact doStop_balanced c s h.1 h.2 hst) ops
  exact this.1

/-! ### the controller and the timers accept nothing: `put` markers and `nacc` change only in accept/stop -/

theorem discards_log_put (s : State) (j : Job) (q : List Job) : putJobs (discards s j q).log = putJobs s.log :=
  discards_put s j q

theorem startAll_put (s : State) (q : List Job) : putJobs (startAll s q).log = putJobs s.log := by
  induction q generalizing s with
  | nil => rfl
  | cons j q ih => simp [startAll, ih, evPut]

theorem settle_put (c : Cfg) (s : State) :
    putJobs (settle c s).log = putJobs s.log ∧ (settle c s).nacc = s.nacc := by
  apply settle_cases c s (fun s' => putJobs s'.log = putJobs s.log ∧ s'.nacc = s.nacc)
  · exact ⟨rfl, rfl⟩
  · intros; simp [evPut]
  · intros; simp [evPut, discards_put]
  · intros; simp [cancelCur, evPut]
  · intro _
    unfold startStopData
    split
    · split
      · simp [evPut, startAll_put]
      · simp [startAll_put]
    · simp [startAll_put]

theorem fire_put (c : Cfg) (s : State) (t : Nat) :
    putJobs (fire c s t).log = putJobs s.log ∧ (fire c s t).nacc = s.nacc := by
  apply fire_cases c s t (fun s' => putJobs s'.log = putJobs s.log ∧ s'.nacc = s.nacc)
  · intro _; exact ⟨rfl, rfl⟩
  · intro a r b _ _ _ _; cases hf : r.job.data.fail <;> simp [afterCoro, evPut, hf]
  · intro a r b _ _ _ _
    have := settle_put c (countDown { afterCoro s t r with runs := a ++ b })
    unfold finishRun
    rw [this.1, this.2]
    cases hf : r.job.data.fail <;> simp [afterCoro, evPut, hf]
  · intro a r b _ _ _
    have := settle_put c (countDown { s with now := max s.now t, runs := a ++ b })
    unfold finishRun
    rw [this.1, this.2]
    simp [evPut]

/-- accepted puts are numbered consecutively: each `put` marker occurs once, with a number below `nacc` -/
def UniqInv (s : State) : Prop :=
  (∀ x ∈ putJobs s.log, x.seq < s.nacc) ∧ ∀ x, (putJobs s.log).count x ≤ 1

theorem uniq_add (s s' : State) (d : Item) (h : UniqInv s)
    (hp : putJobs s'.log = ⟨s.nacc, d⟩ :: putJobs s.log) (hn : s'.nacc = s.nacc + 1) : UniqInv s' := by
  obtain ⟨h1, h2⟩ := h
  refine ⟨?_, ?_⟩
  · intro x hx; rw [hp] at hx; rw [hn]
    cases hx with
    | head => simp
    | tail _ hx => have := h1 x hx; omega
  · intro x; rw [hp, List.count_cons]
    split
    · next heq =>
      have : (putJobs s.log).count x = 0 := by
        apply List.count_eq_zero_of_not_mem
        intro hx; have := h1 x hx
        have hx2 : x = ⟨s.nacc, d⟩ := by have := eq_of_beq heq; exact this.symm
        rw [hx2] at this; simp at this
      omega
    · exact h2 x

theorem run_uniq (c : Cfg) (ops : List Op) : UniqInv (run c ops) := by
  apply run_induction c UniqInv
  · simp [UniqInv, putJobs]
  · intro s h; have := settle_put c s; simpa [UniqInv, this.1, this.2] using h
  · intro s t h; have := fire_put c s t; simpa [UniqInv, this.1, this.2] using h
  · intro s d h _ _; simpa [UniqInv, putJobs_expire] using h
  · intro s t h; exact h
  · intro s x h _; exact uniq_add s _ x h (by simp [accept, evPut]) rfl
  · intro s x h _; simpa [UniqInv, evPut] using h
  · intro s h
    unfold doStop
    split
    · exact h
    · split
      · exact h
      · next d _ =>
        split
        · exact uniq_add s _ d h (by simp [evPut]) rfl
        · exact uniq_add s _ d h (by simp [accept, evPut]) rfl

theorem mem_putJobs {log : List (Nat × Ev)} {t : Nat} {j : Job} (h : (t, Ev.put j) ∈ log) : j ∈ putJobs log := by
  simp only [putJobs, List.mem_filterMap]
  exact ⟨(t, .put j), h, rfl⟩


/-! ### wait mode: runs start in arrival order -/

def evStart : Ev → Option Job
  | .start j => some j
  | _ => none

def startJobs (log : List (Nat × Ev)) : List Job := log.filterMap (fun e => evStart e.2)

@[simp] theorem startJobs_cons (t : Nat) (e : Ev) (l : List (Nat × Ev)) :
    startJobs ((t, e) :: l) = (evStart e).toList ++ startJobs l := by
  simp only [startJobs, List.filterMap_cons]; cases evStart e <;> simp

/-- newest first: the puts are the queued ones followed by the started ones -/
def Fifo (c : Cfg) (s : State) : Prop :=
  c.mode = Mode.wait → putJobs s.log = s.queue.reverse ++ startJobs s.log

theorem settle_fifo (c : Cfg) (s : State) (h : Fifo c s) : Fifo c (settle c s) := by
  apply settle_cases
  · exact h
  · intro hm j q hr hq _; have := h hm
    simp [hq, evPut, evStart] at this ⊢; exact this
  · intro hm _ _ _ _ hw; rw [hm] at hw; cases hw
  · intro hm _ _ _ _ _ _ _ hw; rw [hm] at hw; cases hw
  · intro hm hw; rw [hm] at hw; cases hw

theorem fire_fifo (c : Cfg) (s : State) (t : Nat) (h : Fifo c s) : Fifo c (fire c s t) := by
  apply fire_cases
  · intro _; exact h
  · intro a r b _ _ _ _ hm; have := h hm
    cases hf : r.job.data.fail <;> simpa [afterCoro, evPut, evStart, hf] using this
  · intro a r b _ _ _ _
    apply settle_fifo
    intro hm; have := h hm
    cases hf : r.job.data.fail <;> simpa [afterCoro, evPut, evStart, hf] using this
  · intro a r b _ _ _
    apply settle_fifo
    intro hm; have := h hm
    simpa [evPut, evStart] using this

theorem run_fifo (c : Cfg) (ops : List Op) : Fifo c (run c ops) := by
  apply run_induction c (Fifo c)
  · intro _; rfl
  · exact settle_fifo c
  · exact fire_fifo c
  · intro s d h _ _ hm
    have := h hm
    rw [putJobs_expire, this, expire_log_eq]
    simp only [startJobs, List.filterMap_append, expire_queue]
    rw [filterMap_expireNew evStart (fun _ => rfl) (fun _ => rfl) rfl]; rfl
  · intro s t h; exact h
  · intro s x h _ hm; have := h hm; simp [accept, evPut, evStart, this]
  · intro s x h _ hm; have := h hm; simpa [evPut, evStart] using this
  · intro s h hm
    have hne : c.mode ≠ Mode.start := by rw [hm]; simp
    unfold doStop
    split
    · exact h hm
    · split
      · exact h hm
      · have := h hm; simp [accept, evPut, evStart, this]


/-! ### cancel mode: whatever is cancelled (run or queued item) has a newer accepted put before it -/

def evCancel : Ev → Option Job
  | .canc j => some j
  | .cancelled j => some j
  | _ => none

/-- every cancellation in the log is preceded (in time) by the arrival of a newer put, or happens in
    the instant in which stop_timeout expired -/
def CancOK (log : List (Nat × Ev)) : Prop :=
  ∀ t e j, (t, e) ∈ log → evCancel e = some j →
    (∃ k t', j.seq < k.seq ∧ t' ≤ t ∧ (t', Ev.put k) ∈ log) ∨ (t, Ev.timeout) ∈ log

theorem cancOK_cons {log : List (Nat × Ev)} {t : Nat} {e : Ev} (h : CancOK log)
    (hnew : ∀ j, evCancel e = some j → ∃ k t', j.seq < k.seq ∧ t' ≤ t ∧ (t', Ev.put k) ∈ log) :
    CancOK ((t, e) :: log) := by
  intro t1 e1 j hmem hj
  cases hmem with
  | head =>
    obtain ⟨k, t', h1, h2, h3⟩ := hnew j hj
    exact Or.inl ⟨k, t', h1, h2, List.mem_cons_of_mem _ h3⟩
  | tail _ hmem =>
    rcases h t1 e1 j hmem hj with ⟨k, t', h1, h2, h3⟩ | hto
    · exact Or.inl ⟨k, t', h1, h2, List.mem_cons_of_mem _ h3⟩
    · exact Or.inr (List.mem_cons_of_mem _ hto)

theorem cancOK_append {new log : List (Nat × Ev)} (h : CancOK log)
    (hnew : ∀ x ∈ new, ∀ j, evCancel x.2 = some j → (x.1, Ev.timeout) ∈ new ++ log) :
    CancOK (new ++ log) := by
  intro t e j hmem hj
  rcases List.mem_append.mp hmem with hm | hm
  · exact Or.inr (hnew (t, e) hm j hj)
  · rcases h t e j hm hj with ⟨k, t', h1, h2, h3⟩ | hto
    · exact Or.inl ⟨k, t', h1, h2, List.mem_append_right _ h3⟩
    · exact Or.inr (List.mem_append_right _ hto)

theorem cancOK_cons_other {log : List (Nat × Ev)} {t : Nat} {e : Ev} (h : CancOK log)
    (he : evCancel e = none) : CancOK ((t, e) :: log) :=
  cancOK_cons h (fun j hj => by rw [he] at hj; cases hj)

/-- the queue holds accepted puts in arrival order, all newer than the active runs -/
def QInv (s : State) : Prop :=
  (∀ k ∈ s.queue, ∃ t', t' ≤ s.now ∧ (t', Ev.put k) ∈ s.log) ∧
  s.queue.Pairwise (fun a b => a.seq < b.seq) ∧
  (∀ r ∈ s.runs, ∀ k ∈ s.queue, r.job.seq < k.seq) ∧
  (∀ k ∈ s.queue, k.seq < s.nacc) ∧ (∀ r ∈ s.runs, r.job.seq < s.nacc)

def CancInv (s : State) : Prop :=
  QInv s ∧ (∀ j, s.sdPending = some j → j.seq < s.nacc) ∧ CancOK s.log

theorem discards_cancOK (s : State) (j : Job) (q : List Job)
    (hput : ∀ k ∈ j :: q, ∃ t', t' ≤ s.now ∧ (t', Ev.put k) ∈ s.log)
    (hpw : (j :: q).Pairwise (fun a b => a.seq < b.seq)) (hc : CancOK s.log) :
    CancOK (discards s j q).log := by
  induction q generalizing s j with
  | nil => exact hc
  | cons k q ih =>
    simp only [discards]
    apply ih
    · intro k' hk'
      obtain ⟨t', h1, h2⟩ := hput k' (List.mem_cons_of_mem _ hk')
      exact ⟨t', h1, List.mem_cons_of_mem _ h2⟩
    · exact (List.pairwise_cons.mp hpw).2
    · apply cancOK_cons hc
      intro j' hj'
      simp [evCancel] at hj'; subst hj'
      obtain ⟨t', h1, h2⟩ := hput k (by simp)
      exact ⟨k, t', (List.pairwise_cons.mp hpw).1 k (by simp), h1, h2⟩

theorem startAll_cancOK (s : State) (q : List Job) (h : CancOK s.log) : CancOK (startAll s q).log := by
  induction q generalizing s with
  | nil => exact h
  | cons j q ih =>
    apply ih
    simp only [startRun_log]
    exact cancOK_cons_other (cancOK_cons_other h rfl) rfl

theorem startStopData_cancInv (s : State) (hq : s.queue = []) (hn : ∀ r ∈ s.runs, r.job.seq < s.nacc)
    (hsd : ∀ j, s.sdPending = some j → j.seq < s.nacc) (hc : CancOK s.log) :
    CancInv (startStopData s) := by
  unfold startStopData
  split
  · next j hj =>
    split
    · refine ⟨⟨by simp [hq], by simp [hq], by simp [hq], by simp [hq], ?_⟩, by simp, ?_⟩
      · intro r hr; simp at hr
        rcases hr with hr | hr
        · exact hn r hr
        · rw [hr]; exact hsd j hj
      · simp only [startRun_log]
        exact cancOK_cons_other (cancOK_cons_other hc rfl) rfl
    · exact ⟨⟨by simp [hq], by simp [hq], by simp [hq], by simp [hq], hn⟩, hsd, hc⟩
  · exact ⟨⟨by simp [hq], by simp [hq], by simp [hq], by simp [hq], hn⟩, hsd, hc⟩


theorem qInv_mono {s s' : State} (hq : s'.queue = s.queue)
    (hr : ∀ r' ∈ s'.runs, ∃ r ∈ s.runs, r'.job = r.job) (hn : s.nacc ≤ s'.nacc) (hnow : s.now ≤ s'.now)
    (hlog : ∀ e ∈ s.log, e ∈ s'.log) (h : QInv s) : QInv s' := by
  obtain ⟨h1, h2, h3, h4, h5⟩ := h
  refine ⟨?_, by rw [hq]; exact h2, ?_, ?_, ?_⟩
  · intro k hk; rw [hq] at hk
    obtain ⟨t', ht, hm⟩ := h1 k hk
    exact ⟨t', by omega, hlog _ hm⟩
  · intro r' hr' k hk; rw [hq] at hk
    obtain ⟨r, hrm, hj⟩ := hr r' hr'
    rw [hj]; exact h3 r hrm k hk
  · intro k hk; rw [hq] at hk; have := h4 k hk; omega
  · intro r' hr'
    obtain ⟨r, hrm, hj⟩ := hr r' hr'
    rw [hj]; have := h5 r hrm; omega

theorem lastJob_mem (j : Job) (q : List Job) : lastJob j q ∈ j :: q := by
  induction q generalizing j with
  | nil => simp [lastJob]
  | cons k q ih => simp only [lastJob]; exact List.mem_cons_of_mem _ (ih k)

theorem discards_log_mem (s : State) (j : Job) (q : List Job) : ∀ e ∈ s.log, e ∈ (discards s j q).log := by
  induction q generalizing s j with
  | nil => intro e h; exact h
  | cons k q ih => intro e h; exact ih _ _ e (List.mem_cons_of_mem _ h)

theorem settle_cancInv (c : Cfg) (s : State) (h : CancInv s) : CancInv (settle c s) := by
  obtain ⟨hQ, hsd, hc⟩ := h
  have ⟨h1, h2, h3, h4, h5⟩ := hQ
  apply settle_cases
  · exact ⟨hQ, hsd, hc⟩
  · intro _ j q hr hq
    rw [hq] at h1 h2 h4
    refine ⟨⟨?_, ?_, ?_, ?_, ?_⟩, hsd, ?_⟩
    · intro k hk
      obtain ⟨t', ht, hm⟩ := h1 k (List.mem_cons_of_mem _ hk)
      exact ⟨t', ht, by simp [hm]⟩
    · exact (List.pairwise_cons.mp h2).2
    · intro r hrm k hk
      simp [hr] at hrm; rw [hrm]
      exact (List.pairwise_cons.mp h2).1 k hk
    · intro k hk; exact h4 k (List.mem_cons_of_mem _ hk)
    · intro r hrm; simp [hr] at hrm; rw [hrm]; exact h4 j (by simp)
    · simp only [startRun_log]
      exact cancOK_cons_other (cancOK_cons_other hc rfl) rfl
  · intro _ j q hr hq
    rw [hq] at h1 h2 h4
    refine ⟨⟨by simp, by simp, by simp, by simp, ?_⟩, by simpa using hsd, ?_⟩
    · intro r hrm; simp [hr] at hrm; rw [hrm]
      simpa using h4 _ (lastJob_mem j q)
    · simp only [startRun_log]
      refine cancOK_cons_other (cancOK_cons_other ?_ rfl) rfl
      exact discards_cancOK _ j q h1 h2 hc
  · intro _ j q r rest hq hr hcoro
    refine ⟨?_, hsd, ?_⟩
    · refine qInv_mono (s := s) (s' := cancelCur c s r rest) (by simp [cancelCur]) ?_
        (by simp [cancelCur]) (by simp [cancelCur]) ?_ hQ
      · intro r' hr'
        simp [cancelCur] at hr'
        rcases hr' with hr' | hr'
        · exact ⟨r, by simp [hr], by rw [hr']⟩
        · exact ⟨r', by simp [hr, hr'], rfl⟩
      · intro e he; simp [cancelCur, he]
    · have hjq : j ∈ s.queue := by simp [hq]
      obtain ⟨t', ht, hm⟩ := h1 j hjq
      have hlt : r.job.seq < j.seq := h3 r (by simp [hr]) j hjq
      simp only [cancelCur, emit_log]
      apply cancOK_cons (cancOK_cons hc _)
      · intro j' hj'; simp [evCancel] at hj'; subst hj'
        exact ⟨j, t', hlt, ht, List.mem_cons_of_mem _ hm⟩
      · intro j' hj'; simp [evCancel] at hj'; subst hj'
        exact ⟨j, t', hlt, ht, hm⟩
  · intro _
    apply startStopData_cancInv
    · simp
    · intro r hrm
      simp [startAll_runs] at hrm
      rcases hrm with hrm | ⟨k, hk, hrk⟩
      · simpa using h5 r hrm
      · rw [← hrk]; simpa using h4 k hk
    · simpa using hsd
    · exact startAll_cancOK _ _ hc


theorem afterCoro_cancOK (s : State) (t : Nat) (r : Run) (h : CancOK s.log) : CancOK (afterCoro s t r).log := by
  simp only [afterCoro, emit_log]
  refine cancOK_cons_other (cancOK_cons_other h rfl) ?_
  cases r.job.data.fail <;> rfl

theorem fire_cancInv (c : Cfg) (s : State) (t : Nat) (h : CancInv s) : CancInv (fire c s t) := by
  obtain ⟨hQ, hsd, hc⟩ := h
  apply fire_cases
  · intro _; exact ⟨hQ, hsd, hc⟩
  · intro a r b hrs _ _ _
    refine ⟨?_, by simpa [afterCoro] using hsd, by simpa using afterCoro_cancOK s t r hc⟩
    refine qInv_mono (s := s) (by simp [afterCoro]) ?_ (by simp [afterCoro]) (by simp [afterCoro]; omega) ?_ hQ
    · intro r' hr'
      simp at hr'
      rcases hr' with hr' | hr' | hr'
      · exact ⟨r', by simp [hrs, hr'], rfl⟩
      · exact ⟨r, by simp [hrs], by rw [hr']⟩
      · exact ⟨r', by simp [hrs, hr'], rfl⟩
    · intro e he; simp [afterCoro, he]
  · intro a r b hrs _ _ _
    apply settle_cancInv
    refine ⟨?_, by simpa [afterCoro] using hsd, ?_⟩
    · refine qInv_mono (s := s) (by simp [afterCoro]) ?_ (by simp [afterCoro]) (by simp [afterCoro]; omega) ?_ hQ
      · intro r' hr'
        simp at hr'
        rcases hr' with hr' | hr'
        · exact ⟨r', by simp [hrs, hr'], rfl⟩
        · exact ⟨r', by simp [hrs, hr'], rfl⟩
      · intro e he; simp [afterCoro, he]
    · simp only [countDown_log]
      exact cancOK_cons_other (by simpa using afterCoro_cancOK s t r hc) rfl
  · intro a r b hrs _ _
    apply settle_cancInv
    refine ⟨?_, by simpa using hsd, ?_⟩
    · refine qInv_mono (s := s) (by simp) ?_ (by simp) (by simp; omega) ?_ hQ
      · intro r' hr'
        simp at hr'
        rcases hr' with hr' | hr'
        · exact ⟨r', by simp [hrs, hr'], rfl⟩
        · exact ⟨r', by simp [hrs, hr'], rfl⟩
      · intro e he; simp [he]
    · simp only [countDown_log]
      exact cancOK_cons_other hc rfl

theorem accept_cancInv (s : State) (x : Item) (h : CancInv s) : CancInv (accept s x) := by
  obtain ⟨⟨h1, h2, h3, h4, h5⟩, hsd, hc⟩ := h
  refine ⟨⟨?_, ?_, ?_, ?_, ?_⟩, ?_, ?_⟩
  · intro k hk
    simp [accept] at hk
    rcases hk with hk | hk
    · obtain ⟨t', ht, hm⟩ := h1 k hk
      exact ⟨t', by simpa [accept] using ht, by simp [accept, hm]⟩
    · exact ⟨s.now, by simp [accept], by simp [accept, hk]⟩
  · simp only [accept, emit_queue, List.pairwise_append]
    refine ⟨h2, by simp, ?_⟩
    intro a ha b hb; simp at hb; rw [hb]; exact h4 a ha
  · intro r hr k hk
    simp [accept] at hr hk
    rcases hk with hk | hk
    · exact h3 r hr k hk
    · rw [hk]; exact h5 r hr
  · intro k hk
    simp [accept] at hk ⊢
    rcases hk with hk | hk
    · have := h4 k hk; omega
    · rw [hk]; simp
  · intro r hr; simp [accept] at hr ⊢; have := h5 r hr; omega
  · intro j hj; simp [accept] at hj ⊢; have := hsd j hj; omega
  · simp only [accept, emit_log]; exact cancOK_cons_other hc rfl

theorem doStop_cancInv (c : Cfg) (s : State) (h : CancInv s) : CancInv (doStop c s) := by
  unfold doStop
  split
  · exact h
  · split
    · exact h
    · next d _ =>
      split
      · obtain ⟨hQ, hsd, hc⟩ := h
        refine ⟨?_, by simp, ?_⟩
        · exact qInv_mono (s := s) (by simp) (fun r' hr' => ⟨r', by simpa using hr', rfl⟩) (by simp) (by simp)
            (fun e he => by simp [he]) hQ
        · simp only [emit_log]; exact cancOK_cons_other hc rfl
      · exact accept_cancInv s d h

theorem run_cancInv (c : Cfg) (ops : List Op) : CancInv (run c ops) := by
  apply run_induction c CancInv
  · exact ⟨⟨by simp, by simp, by simp, by simp, by simp⟩, by simp, by intro t e j h; simp at h⟩
  · exact settle_cancInv c
  · exact fire_cancInv c
  · intro s d ⟨hQ, hsd, hc⟩ _ _
    refine ⟨?_, by simpa using hsd, ?_⟩
    · refine qInv_mono (s := s) rfl ?_ (Nat.le_refl _) (by simp; omega) (expire_log_sub c s d) hQ
      intro r' hr'
      simp only [expire_runs, List.mem_map] at hr'
      obtain ⟨r, hr, rfl⟩ := hr'
      exact ⟨r, hr, by simp⟩
    · rw [expire_log_eq]
      apply cancOK_append hc
      intro x hx j _
      rcases expireNew_mem hx with rfl | ⟨r, _, _, rfl | rfl⟩ <;>
      · apply List.mem_append_left; simp [expireNew]
  · intro s t ⟨hQ, hsd, hc⟩
    exact ⟨qInv_mono (s := s) rfl (fun r' hr' => ⟨r', hr', rfl⟩) (Nat.le_refl _) (Nat.le_max_left _ _)
      (fun e he => he) hQ, hsd, hc⟩
  · intro s x h _; exact accept_cancInv s x h
  · intro s x ⟨hQ, hsd, hc⟩ _
    exact ⟨qInv_mono (s := s) rfl (fun r' hr' => ⟨r', hr', rfl⟩) (Nat.le_refl _) (Nat.le_refl _)
      (fun e he => by simp [he]) hQ, hsd, by simpa using cancOK_cons_other (t := s.now) hc rfl⟩
  · exact doStop_cancInv c


/-! ### guard time: a run starts no earlier than guard after the previous coroutine was over -/

def evOver : Ev → Bool
  | .done _ => true
  | .cancelled _ => true
  | _ => false

/-- every coroutine end in the log is `g` in the past, or its run is still in its guard sleep -/
def G2 (g : Nat) (s : State) : Prop :=
  ∀ t1 e, (t1, e) ∈ s.log → evOver e = true →
    t1 + g ≤ s.now ∨ ∃ r ∈ s.runs, r.coro = false ∧ t1 + g ≤ r.till

/-- newest first: each start is at least `g` after every earlier coroutine end -/
def SepOK (g : Nat) : List (Nat × Ev) → Prop
  | [] => True
  | (t, e) :: l => (∀ k, e = Ev.start k → ∀ t1 e1, (t1, e1) ∈ l → evOver e1 = true → t1 + g ≤ t) ∧ SepOK g l

def GInv (c : Cfg) (s : State) : Prop :=
  G2 c.guard s ∧ (c.mode ≠ Mode.start → SepOK c.guard s.log)

theorem g2_step {g : Nat} {s s' : State}
    (hlog : ∀ t1 e, (t1, e) ∈ s'.log → evOver e = true →
      (t1, e) ∈ s.log ∨ t1 + g ≤ s'.now ∨ ∃ r ∈ s'.runs, r.coro = false ∧ t1 + g ≤ r.till)
    (hnow : s.now ≤ s'.now)
    (hruns : ∀ r ∈ s.runs, r.coro = false → r ∈ s'.runs ∨ r.till ≤ s'.now)
    (h : G2 g s) : G2 g s' := by
  intro t1 e hm ho
  rcases hlog t1 e hm ho with hold | hnew
  · rcases h t1 e hold ho with h1 | ⟨r, hr, hc, ht⟩
    · left; omega
    · rcases hruns r hr hc with h2 | h2
      · right; exact ⟨r, h2, hc, ht⟩
      · left; omega
  · exact hnew

theorem sepOK_cons_other {g : Nat} {t : Nat} {e : Ev} {l : List (Nat × Ev)} (he : evStart e = none)
    (h : SepOK g l) : SepOK g ((t, e) :: l) := by
  refine ⟨?_, h⟩
  intro k hk; rw [hk] at he; simp [evStart] at he

theorem discards_gInv (c : Cfg) (s : State) (j : Job) (q : List Job) (h : GInv c s) :
    GInv c (discards s j q) := by
  induction q generalizing s j with
  | nil => exact h
  | cons k q ih =>
    apply ih
    refine ⟨g2_step (s := s) ?_ (Nat.le_refl _) (fun r hr _ => Or.inl hr) h.1, fun hm => ?_⟩
    · intro t1 e hm ho
      simp at hm
      rcases hm with ⟨_, rfl⟩ | hm
      · simp [evOver] at ho
      · exact Or.inl hm
    · exact sepOK_cons_other rfl (h.2 hm)

/-- starting a run when no run is active -/
theorem startRun_gInv (c : Cfg) (s : State) (j : Job) (hr : s.runs = []) (h : GInv c s) :
    GInv c (startRun s j) := by
  have hall : ∀ t1 e, (t1, e) ∈ s.log → evOver e = true → t1 + c.guard ≤ s.now := by
    intro t1 e hm ho
    rcases h.1 t1 e hm ho with h1 | ⟨r, hrm, _⟩
    · exact h1
    · rw [hr] at hrm; cases hrm
  refine ⟨g2_step (s := s) ?_ (Nat.le_refl _) (fun r hrm _ => by rw [hr] at hrm; cases hrm) h.1, fun hm => ?_⟩
  · intro t1 e hm ho
    simp at hm
    rcases hm with ⟨_, rfl⟩ | ⟨_, rfl⟩ | hm
    · simp [evOver] at ho
    · simp [evOver] at ho
    · exact Or.inl hm
  · simp only [startRun_log]
    refine ⟨?_, sepOK_cons_other rfl (h.2 hm)⟩
    intro k _ t1 e1 hm1 ho
    simp at hm1
    rcases hm1 with ⟨_, rfl⟩ | hm1
    · simp [evOver] at ho
    · exact hall t1 e1 hm1 ho

/-- start mode: only `G2` matters -/
theorem startRun_g2 (g : Nat) (s : State) (j : Job) (h : G2 g s) : G2 g (startRun s j) := by
  refine g2_step (s := s) ?_ (Nat.le_refl _) (fun r hrm _ => Or.inl (by simp [hrm])) h
  intro t1 e hm ho
  simp at hm
  rcases hm with ⟨_, rfl⟩ | ⟨_, rfl⟩ | hm
  · simp [evOver] at ho
  · simp [evOver] at ho
  · exact Or.inl hm

theorem startAll_g2 (g : Nat) (s : State) (q : List Job) (h : G2 g s) : G2 g (startAll s q) := by
  induction q generalizing s with
  | nil => exact h
  | cons j q ih => exact ih _ (startRun_g2 g s j h)

theorem settle_gInv (c : Cfg) (s : State) (h : GInv c s) : GInv c (settle c s) := by
  apply settle_cases
  · exact h
  · intro _ j q hr _
    exact startRun_gInv c _ j hr ⟨fun t1 e hm ho => h.1 t1 e hm ho, h.2⟩
  · intro _ j q hr _
    apply startRun_gInv c _ _ (by simpa using hr)
    apply discards_gInv
    exact ⟨fun t1 e hm ho => h.1 t1 e hm ho, h.2⟩
  · intro _ j q r rest _ hr hc
    refine ⟨g2_step (s := s) ?_ (Nat.le_refl _) ?_ h.1, fun hm => ?_⟩
    · intro t1 e hm ho
      simp [cancelCur] at hm
      rcases hm with ⟨_, rfl⟩ | ⟨rfl, rfl⟩ | hm
      · simp [evOver] at ho
      · right; right
        exact ⟨_, by simp [cancelCur]; exact Or.inl rfl, rfl, Nat.le_refl _⟩
      · exact Or.inl hm
    · intro r0 hr0 hc0
      rw [hr] at hr0
      cases hr0 with
      | head => rw [hc] at hc0; cases hc0
      | tail _ hr0 => left; simp only [cancelCur]; exact List.mem_cons_of_mem _ hr0
    · simp only [cancelCur, emit_log]
      exact sepOK_cons_other rfl (sepOK_cons_other rfl (h.2 hm))
  · intro hm
    have h1 : G2 c.guard (startAll { s with queue := [] } s.queue) :=
      startAll_g2 _ _ _ (fun t1 e hm ho => h.1 t1 e hm ho)
    refine ⟨?_, fun hne => absurd hm hne⟩
    unfold startStopData
    split
    · split
      · exact startRun_g2 _ _ _ (fun t1 e hm ho => h1 t1 e hm ho)
      · exact h1
    · exact h1


theorem evStart_result (r : Run) : evStart (if r.job.data.fail then Ev.err r.job else Ev.succ r.job) = none := by
  cases r.job.data.fail <;> rfl
theorem evOver_result (r : Run) : evOver (if r.job.data.fail then Ev.err r.job else Ev.succ r.job) = false := by
  cases r.job.data.fail <;> rfl

theorem fire_gInv (c : Cfg) (s : State) (t : Nat) (h : GInv c s) : GInv c (fire c s t) := by
  apply fire_cases
  · intro _; exact h
  · -- coroutine end, guard sleep begins
    intro a r b hrs _ hc _
    refine ⟨g2_step (s := s) ?_ (by simp [afterCoro]; omega) ?_ h.1, fun hm => ?_⟩
    · intro t1 e hm ho
      simp [afterCoro] at hm
      rcases hm with ⟨_, rfl⟩ | ⟨rfl, rfl⟩ | hm
      · rw [evOver_result] at ho; cases ho
      · right; right
        exact ⟨⟨r.job, false, max s.now t + c.guard⟩, by simp, rfl, Nat.le_refl _⟩
      · exact Or.inl hm
    · intro r0 hr0 hc0
      left
      rw [hrs] at hr0
      simp at hr0 ⊢
      rcases hr0 with hr0 | hr0 | hr0
      · exact Or.inl hr0
      · rw [hr0, hc] at hc0; cases hc0
      · exact Or.inr (Or.inr hr0)
    · simp only [afterCoro, emit_log]
      exact sepOK_cons_other (evStart_result r) (sepOK_cons_other rfl (h.2 hm))
  · -- coroutine end without guard time: the run is over
    intro a r b hrs _ hc hg
    apply settle_gInv
    refine ⟨g2_step (s := s) ?_ (by simp [afterCoro]; omega) ?_ h.1, fun hm => ?_⟩
    · intro t1 e hm ho
      simp [afterCoro] at hm
      rcases hm with ⟨_, rfl⟩ | ⟨_, rfl⟩ | ⟨rfl, rfl⟩ | hm
      · simp [evOver] at ho
      · rw [evOver_result] at ho; cases ho
      · right; left; simp [afterCoro, hg]
      · exact Or.inl hm
    · intro r0 hr0 hc0
      left
      rw [hrs] at hr0
      simp at hr0 ⊢
      rcases hr0 with hr0 | hr0 | hr0
      · exact Or.inl hr0
      · rw [hr0, hc] at hc0; cases hc0
      · exact Or.inr hr0
    · simp only [countDown_log, afterCoro, emit_log]
      exact sepOK_cons_other rfl (sepOK_cons_other (evStart_result r) (sepOK_cons_other rfl (h.2 hm)))
  · -- end of the guard sleep
    intro a r b hrs ht hc
    apply settle_gInv
    refine ⟨g2_step (s := s) ?_ (by simp; omega) ?_ h.1, fun hm => ?_⟩
    · intro t1 e hm ho
      simp at hm
      rcases hm with ⟨_, rfl⟩ | hm
      · simp [evOver] at ho
      · exact Or.inl hm
    · intro r0 hr0 _
      rw [hrs] at hr0
      simp at hr0 ⊢
      rcases hr0 with hr0 | hr0 | hr0
      · exact Or.inl (Or.inl hr0)
      · right; rw [hr0, ht]; omega
      · exact Or.inl (Or.inr hr0)
    · simp only [countDown_log]
      exact sepOK_cons_other rfl (h.2 hm)

theorem gInv_inert (c : Cfg) (s s' : State) (e : Ev) (ho : evOver e = false) (hs : evStart e = none)
    (hlog : s'.log = (s.now, e) :: s.log)
    (hnow : s'.now = s.now) (hruns : s'.runs = s.runs) (h : GInv c s) : GInv c s' := by
  refine ⟨g2_step (s := s) ?_ (by omega) (fun r hr _ => Or.inl (by rw [hruns]; exact hr)) h.1, fun hm => ?_⟩
  · intro t1 e1 hm ho1
    rw [hlog] at hm
    simp at hm
    rcases hm with ⟨_, rfl⟩ | hm
    · rw [ho] at ho1; cases ho1
    · exact Or.inl hm
  · rw [hlog]; exact sepOK_cons_other hs (h.2 hm)

theorem gInv_put (c : Cfg) (s s' : State) (j : Job) (hlog : s'.log = (s.now, Ev.put j) :: s.log)
    (hnow : s'.now = s.now) (hruns : s'.runs = s.runs) (h : GInv c s) : GInv c s' := by
  refine ⟨g2_step (s := s) ?_ (by omega) (fun r hr _ => Or.inl (by rw [hruns]; exact hr)) h.1, fun hm => ?_⟩
  · intro t1 e hm ho
    rw [hlog] at hm
    simp at hm
    rcases hm with ⟨_, rfl⟩ | hm
    · simp [evOver] at ho
    · exact Or.inl hm
  · rw [hlog]; exact sepOK_cons_other rfl (h.2 hm)

theorem sepOK_append_other {g : Nat} {new l : List (Nat × Ev)} (h : SepOK g l)
    (hnew : ∀ x ∈ new, evStart x.2 = none) : SepOK g (new ++ l) := by
  induction new with
  | nil => exact h
  | cons x new ih =>
    obtain ⟨t, e⟩ := x
    exact sepOK_cons_other (hnew (t, e) (by simp)) (ih (fun y hy => hnew y (List.mem_cons_of_mem _ hy)))

theorem expire_gInv (c : Cfg) (s : State) (d : Nat) (h : GInv c s) : GInv c (expire c s d) := by
  refine ⟨g2_step (s := s) ?_ (by simp; omega) ?_ h.1, fun hm => ?_⟩
  · intro t1 e hm ho
    rw [expire_log_eq] at hm
    rcases List.mem_append.mp hm with hm | hm
    · rcases expireNew_mem hm with h0 | ⟨r, hr, hc, h1 | h1⟩
      · cases h0; simp [evOver] at ho
      · cases h1
        right; right
        refine ⟨toGuard c (max s.now d) r, by simp only [expire_runs]; exact List.mem_map_of_mem hr, by simp, ?_⟩
        simp [toGuard, hc]
      · cases h1; simp [evOver] at ho
    · exact Or.inl hm
  · intro r hr hc
    left
    simp only [expire_runs, List.mem_map]
    exact ⟨r, hr, toGuard_of_guard _ _ _ hc⟩
  · rw [expire_log_eq]
    apply sepOK_append_other (h.2 hm)
    intro x hx
    rcases expireNew_mem hx with rfl | ⟨r, _, _, rfl | rfl⟩ <;> rfl

theorem run_gInv (c : Cfg) (ops : List Op) : GInv c (run c ops) := by
  apply run_induction c (GInv c)
  · exact ⟨by intro t1 e hm; simp at hm, fun _ => trivial⟩
  · exact settle_gInv c
  · exact fire_gInv c
  · exact fun s d h _ _ => expire_gInv c s d h
  · intro s t h
    exact ⟨g2_step (s := s) (fun t1 e hm _ => Or.inl hm) (Nat.le_max_left _ _) (fun r hr _ => Or.inl hr) h.1, h.2⟩
  · intro s x h _; exact gInv_put c s _ ⟨s.nacc, x⟩ rfl rfl rfl h
  · intro s x h _; exact gInv_inert c s _ _ rfl rfl rfl rfl rfl h
  · intro s h
    unfold doStop
    split
    · exact h
    · split
      · exact ⟨fun t1 e hm ho => h.1 t1 e hm ho, h.2⟩
      · next d _ =>
        split
        · exact gInv_put c s _ ⟨s.nacc, d⟩ rfl rfl rfl h
        · exact gInv_put c s _ ⟨s.nacc, d⟩ rfl rfl rfl h

/-- `SepOK` in the form used by the property statement -/
theorem sepOK_split {g : Nat} {log l1 l2 : List (Nat × Ev)} {t2 : Nat} {k : Job} (h : SepOK g log)
    (hl : log = l1 ++ (t2, Ev.start k) :: l2) :
    ∀ t1 e1, (t1, e1) ∈ l2 → evOver e1 = true → t1 + g ≤ t2 := by
  induction l1 generalizing log with
  | nil => subst hl; exact h.1 k rfl
  | cons x l1 ih =>
    subst hl
    obtain ⟨t, e⟩ := x
    exact ih h.2 rfl


/-! ### wait and start mode cancel nothing -- except in the instant in which stop_timeout expires -/

def NoCancel (c : Cfg) (s : State) : Prop :=
  c.mode ≠ Mode.cancel → ∀ t e, (t, e) ∈ s.log → evCancel e = none ∨ (t, Ev.timeout) ∈ s.log

theorem noCancel_ext {c : Cfg} {s s' : State}
    (hlog : ∃ l, s'.log = l ++ s.log ∧ ∀ x ∈ l, evCancel x.2 = none ∨ (x.1, Ev.timeout) ∈ l)
    (h : NoCancel c s) : NoCancel c s' := by
  obtain ⟨l, hl, hnew⟩ := hlog
  intro hm t e hmem
  rw [hl] at hmem ⊢
  rcases List.mem_append.mp hmem with h1 | h1
  · rcases hnew (t, e) h1 with h2 | h2
    · exact Or.inl h2
    · exact Or.inr (List.mem_append_left _ h2)
  · rcases h hm t e h1 with h2 | h2
    · exact Or.inl h2
    · exact Or.inr (List.mem_append_right _ h2)

theorem evCancel_result (r : Run) : evCancel (if r.job.data.fail then Ev.err r.job else Ev.succ r.job) = none := by
  cases r.job.data.fail <;> rfl

theorem startRun_noCancel (c : Cfg) (s : State) (j : Job) (h : NoCancel c s) : NoCancel c (startRun s j) :=
  noCancel_ext ⟨[_, _], rfl, by simp [evCancel]⟩ h

theorem startAll_noCancel (c : Cfg) (s : State) (q : List Job) (h : NoCancel c s) : NoCancel c (startAll s q) := by
  induction q generalizing s with
  | nil => exact h
  | cons j q ih => exact ih _ (startRun_noCancel c s j h)

theorem settle_noCancel (c : Cfg) (s : State) (h : NoCancel c s) : NoCancel c (settle c s) := by
  apply settle_cases
  · exact h
  · intro _ j q _ _
    exact startRun_noCancel c _ j (fun hm t e hmem => h hm t e hmem)
  · intro hm _ _ _ _ hne; exact absurd hm hne
  · intro hm _ _ _ _ _ _ _ hne; exact absurd hm hne
  · intro _
    have h1 := startAll_noCancel c { s with queue := [] } s.queue (fun hm t e hmem => h hm t e hmem)
    unfold startStopData
    split
    · split
      · exact startRun_noCancel c _ _ (fun hm t e hmem => h1 hm t e hmem)
      · exact h1
    · exact h1

theorem fire_noCancel (c : Cfg) (s : State) (t : Nat) (h : NoCancel c s) : NoCancel c (fire c s t) := by
  apply fire_cases
  · intro _; exact h
  · intro a r b _ _ _ _
    refine noCancel_ext (s := s) ⟨[_, _], rfl, ?_⟩ h
    intro x hx
    simp only [List.mem_cons, List.not_mem_nil, or_false] at hx
    rcases hx with rfl | rfl
    · exact Or.inl (evCancel_result r)
    · exact Or.inl rfl
  · intro a r b _ _ _ _
    apply settle_noCancel
    refine noCancel_ext (s := s) ⟨[_, _, _], rfl, ?_⟩ h
    intro x hx
    simp only [List.mem_cons, List.not_mem_nil, or_false] at hx
    rcases hx with rfl | rfl | rfl
    · exact Or.inl rfl
    · exact Or.inl (evCancel_result r)
    · exact Or.inl rfl
  · intro a r b _ _ _
    apply settle_noCancel
    exact noCancel_ext (s := s) ⟨[_], rfl, by simp [evCancel]⟩ h

theorem expire_noCancel (c : Cfg) (s : State) (d : Nat) (h : NoCancel c s) : NoCancel c (expire c s d) := by
  refine noCancel_ext (s := s) ⟨_, expire_log_eq c s d, ?_⟩ h
  intro x hx
  right
  rcases expireNew_mem hx with rfl | ⟨r, _, _, rfl | rfl⟩ <;> simp [expireNew]

theorem run_noCancel (c : Cfg) (ops : List Op) : NoCancel c (run c ops) := by
  apply run_induction c (NoCancel c)
  · intro _ t e hm; simp at hm
  · exact settle_noCancel c
  · exact fire_noCancel c
  · exact fun s d h _ _ => expire_noCancel c s d h
  · intro s t h; exact h
  · intro s x h _; exact noCancel_ext (s := s) ⟨[_], rfl, by simp [evCancel]⟩ h
  · intro s x h _; exact noCancel_ext (s := s) ⟨[_], rfl, by simp [evCancel]⟩ h
  · intro s h
    unfold doStop
    split
    · exact h
    · split
      · exact fun hm t e hmem => h hm t e hmem
      · next d _ =>
        split
        · exact noCancel_ext (s := s) ⟨[_], rfl, by simp [evCancel]⟩ h
        · exact noCancel_ext (s := s) ⟨[_], rfl, by simp [evCancel]⟩ h

/-! ### induction where timers fire and time passes only after the controller has run -/

theorem run_induction_quiet (c : Cfg) (P : State → Prop) (h0 : P {})
    (hsettle : ∀ s, P s → P (settle c s))
    (hfire : ∀ s t, P s → Quiet c s → P (fire c s t))
    (hexpire : ∀ s d, P s → Quiet c s → P (expire c s d))
    (hnow : ∀ s t, P s → Quiet c s → P { s with now := max s.now t })
    (haccept : ∀ s x, P s → s.stopped = false → P (accept s x))
    (hlate : ∀ s x, P s → s.stopped = true → P (acceptLate s x))
    (hstop : ∀ s, P s → P (doStop c s)) :
    ∀ ops, P (run c ops) := by
  have hadv : ∀ bound fuel s, P s → Quiet c s → P (advance c bound fuel s) := by
    intro bound fuel
    induction fuel with
    | zero => intro s h _; exact h
    | succ n ih =>
      intro s h hq
      simp only [advance]
      split
      · split
        · split
          · exact ih _ (hexpire _ _ h hq) (expire_quiet c s _ hq)
          · exact h
        · split
          · exact ih _ (hfire _ _ h hq) (fire_quiet c s _ hq)
          · exact h
      · exact h
  have hadvTo : ∀ bound s, P s → P (advanceTo c bound s) := by
    intro bound s h
    simp only [advanceTo]
    have h2 := hadv bound (measure (settle c s)) _ (hsettle s h) (settle_quiet c s)
    have hq2 := advance_quiet c bound (measure (settle c s)) _ (settle_quiet c s)
    cases bound with
    | none => exact h2
    | some b => exact hnow _ _ h2 hq2
  have hstep : ∀ s op, P s → P (step c s op) := by
    intro s op h
    cases op with
    | put t pre batch x =>
      have h1 : P (if batch = true then s else advanceTo c (some (t, !pre)) s) := by
        split
        · exact h
        · exact hadvTo _ _ h
      show P (if (if batch = true then s else advanceTo c (some (t, !pre)) s).stopped = true
        then acceptLate _ x else accept _ x)
      generalize (if batch = true then s else advanceTo c (some (t, !pre)) s) = s1 at h1
      by_cases hs : s1.stopped = true
      · simp only [hs, if_true]; exact hlate _ _ h1 hs
      · simp only [hs]; exact haccept _ _ h1 (by simpa using hs)
    | stop t pre batch =>
      refine hstop _ ?_
      show P (if batch = true then s else advanceTo c (some (t, !pre)) s)
      split
      · exact h
      · exact hadvTo _ _ h
    | finish => exact hadvTo none _ h
  intro ops
  suffices ∀ s, P s → P (ops.foldl (step c) s) from this _ h0
  induction ops with
  | nil => intro s h; exact h
  | cons op ops ih => intro s h; exact ih _ (hstep s op h)

/-! ### start mode: every put starts its own run in the instant of its arrival -/

/-- a put marker is either still queued in this very instant, or matched by a start at the same time,
    or it is the stop_data job (the one accepted last, by `stop()`) -/
def StartAt (c : Cfg) (s : State) : Prop :=
  c.mode = Mode.start → ∀ t j, (t, Ev.put j) ∈ s.log →
    (j ∈ s.queue ∧ t = s.now) ∨ (t, Ev.start j) ∈ s.log ∨
    (s.stopped = true ∧ j.seq + 1 = s.nacc ∧ c.stopData = some j.data)

theorem startAll_log (s : State) (q : List Job) :
    (∀ e ∈ s.log, e ∈ (startAll s q).log) ∧ (∀ j ∈ q, (s.now, Ev.start j) ∈ (startAll s q).log) ∧
    (∀ t j, (t, Ev.put j) ∈ (startAll s q).log → (t, Ev.put j) ∈ s.log) := by
  induction q generalizing s with
  | nil => exact ⟨fun e h => h, by simp, fun t j h => h⟩
  | cons k q ih =>
    obtain ⟨h1, h2, h3⟩ := ih (startRun s k)
    refine ⟨fun e he => h1 e (by simp [he]), ?_, ?_⟩
    · intro j hj
      cases hj with
      | head => exact h1 _ (by simp)
      | tail _ hj => exact h2 j hj
    · intro t j hm
      have := h3 t j hm
      simpa using this

theorem startStopData_log (s : State) :
    (∀ e ∈ s.log, e ∈ (startStopData s).log) ∧
    (∀ t j, (t, Ev.put j) ∈ (startStopData s).log → (t, Ev.put j) ∈ s.log) ∧
    (startStopData s).stopped = s.stopped ∧
    (startStopData s).nacc = s.nacc ∧ (startStopData s).queue = s.queue ∧ (startStopData s).now = s.now := by
  unfold startStopData
  split
  · split
    · exact ⟨fun e he => by simp [he], fun t j hm => by simpa using hm, rfl, rfl, rfl, rfl⟩
    · exact ⟨fun e he => he, fun t j hm => hm, rfl, rfl, rfl, rfl⟩
  · exact ⟨fun e he => he, fun t j hm => hm, rfl, rfl, rfl, rfl⟩

theorem settle_startAt (c : Cfg) (s : State) (h : StartAt c s) : StartAt c (settle c s) := by
  apply settle_cases
  · exact h
  · intro hm _ _ _ _ hs; rw [hm] at hs; cases hs
  · intro hm _ _ _ _ hs; rw [hm] at hs; cases hs
  · intro hm _ _ _ _ _ _ _ hs; rw [hm] at hs; cases hs
  · intro hm _ t j hput
    obtain ⟨hl1, hl2, hl3⟩ := startAll_log { s with queue := [] } s.queue
    obtain ⟨hs1, hs2, hs3, hs4, hs5, hs6⟩ := startStopData_log (startAll { s with queue := [] } s.queue)
    have hold : (t, Ev.put j) ∈ s.log := hl3 t j (hs2 t j hput)
    rcases h hm t j hold with ⟨hq, ht⟩ | hst | ⟨h1, h2, h3⟩
    · right; left
      apply hs1; rw [ht]; exact hl2 j hq
    · right; left
      exact hs1 _ (hl1 _ hst)
    · right; right
      rw [hs3, hs4]; simp [h1, h2, h3]

theorem fire_startAt (c : Cfg) (s : State) (t : Nat) (h : StartAt c s) (hq : Quiet c s) :
    StartAt c (fire c s t) := by
  -- with an empty queue a put marker is matched or is stop_data; firing only appends to the log
  have hbase : ∀ s' : State, (∀ e ∈ s.log, e ∈ s'.log) → (∀ t j, (t, Ev.put j) ∈ s'.log → (t, Ev.put j) ∈ s.log) →
      s'.stopped = s.stopped → s'.nacc = s.nacc → StartAt c s' := by
    intro s' hl1 hl2 hst hn hm t' j hput
    rcases h hm t' j (hl2 t' j hput) with ⟨hjq, _⟩ | hs | ⟨h1, h2, h3⟩
    · rw [(hq.2.2 hm).1] at hjq; cases hjq
    · exact Or.inr (Or.inl (hl1 _ hs))
    · exact Or.inr (Or.inr ⟨by rw [hst]; exact h1, by rw [hn]; exact h2, h3⟩)
  apply fire_cases
  · intro _; exact h
  · intro a r b _ _ _ _
    apply hbase
    · intro e he; simp [afterCoro, he]
    · intro t' j hm
      simp [afterCoro] at hm
      rcases hm with ⟨_, hm⟩ | hm
      · cases hf : r.job.data.fail <;> simp [hf] at hm
      · exact hm
    · rfl
    · rfl
  · intro a r b _ _ _ _
    apply settle_startAt
    apply hbase
    · intro e he; simp [afterCoro, he]
    · intro t' j hm
      simp [afterCoro] at hm
      rcases hm with ⟨_, hm⟩ | hm
      · cases hf : r.job.data.fail <;> simp [hf] at hm
      · exact hm
    · rfl
    · rfl
  · intro a r b _ _ _
    apply settle_startAt
    apply hbase
    · intro e he; simp [he]
    · intro t' j hm; simpa using hm
    · rfl
    · rfl

theorem run_startAt (c : Cfg) (ops : List Op) : StartAt c (run c ops) := by
  apply run_induction_quiet c (StartAt c)
  · intro _ t j hm; simp at hm
  · exact settle_startAt c
  · exact fire_startAt c
  · intro s d h hq hm t' j hput
    have hold : (t', Ev.put j) ∈ s.log := by
      rw [expire_log_eq] at hput
      rcases List.mem_append.mp hput with hx | hx
      · rcases expireNew_mem hx with h0 | ⟨r, _, _, h0 | h0⟩ <;> cases h0
      · exact hx
    rcases h hm t' j hold with ⟨hjq, _⟩ | hs | ⟨h1, h2, h3⟩
    · rw [(hq.2.2 hm).1] at hjq; cases hjq
    · exact Or.inr (Or.inl (expire_log_sub c s d _ hs))
    · exact Or.inr (Or.inr ⟨h1, h2, h3⟩)
  · intro s t h hq hm t' j hput
    rcases h hm t' j hput with ⟨hjq, _⟩ | hs | h3
    · have : s.queue = [] := (hq.2.2 hm).1
      rw [this] at hjq; cases hjq
    · exact Or.inr (Or.inl hs)
    · exact Or.inr (Or.inr h3)
  · intro s x h hst hm t' j hput
    simp [accept] at hput
    rcases hput with ⟨rfl, rfl⟩ | hput
    · left; simp [accept]
    · rcases h hm t' j hput with ⟨hjq, ht⟩ | hs | ⟨h1, _, _⟩
      · left; simp [accept, hjq, ht]
      · right; left; simp [accept, hs]
      · rw [hst] at h1; cases h1
  · intro s x h _ hm t' j hput
    simp at hput
    rcases h hm t' j hput with h1 | h2 | h3
    · exact Or.inl (by simpa using h1)
    · exact Or.inr (Or.inl (by simp [h2]))
    · exact Or.inr (Or.inr (by simpa using h3))
  · intro s h hm t' j hput
    unfold doStop at hput ⊢
    split at hput
    · next hst => rw [if_pos hst]; exact h hm t' j hput
    · next hst =>
      rw [if_neg hst]
      have hst' : s.stopped = false := by simpa using hst
      cases hd : c.stopData with
      | none =>
        simp only [hd] at hput ⊢
        rcases h hm t' j hput with h1 | h2 | ⟨h3, _, _⟩
        · exact Or.inl h1
        · exact Or.inr (Or.inl h2)
        · rw [hst'] at h3; cases h3
      | some d =>
        simp only [hd, hm, if_true] at hput ⊢
        simp at hput
        rcases hput with ⟨rfl, rfl⟩ | hput
        · right; right; simp
        · rcases h hm t' j hput with h1 | h2 | ⟨h3, _, _⟩
          · exact Or.inl (by simpa using h1)
          · exact Or.inr (Or.inl (by simp [h2]))
          · rw [hst'] at h3; cases h3


/-! ### stop_data is processed last -/

def evJob : Ev → Option Job
  | .put _ => none
  | .late _ => none
  | .out _ => none
  | .timeout => none
  | .start j => some j
  | .done j => some j
  | .cancelled j => some j
  | .succ j => some j
  | .err j => some j
  | .canc j => some j

/-- the stop_data job `J` waits as the last queued item (wait/cancel) or in `stop_async` (start) -/
def SdWaiting (c : Cfg) (J : Job) (s : State) : Prop :=
  (c.mode ≠ Mode.start ∧ ∃ q0, s.queue = q0 ++ [J]) ∨ (c.mode = Mode.start ∧ s.sdPending = some J)

/-- `J` has been started, nothing else is left, and whatever was logged since concerns `J` only -/
def SdStarted (J : Job) (s : State) : Prop :=
  s.queue = [] ∧ s.sdPending = none ∧ (∀ r ∈ s.runs, r.job = J) ∧
  ∃ l1 t l2, s.log = l1 ++ (t, Ev.start J) :: l2 ∧ ∀ x ∈ l1, evJob x.2 = some J ∨ evJob x.2 = none

def SdL (c : Cfg) (J : Job) (s : State) : Prop := SdWaiting c J s ∨ SdStarted J s

theorem lastJob_append (j : Job) (q q0 : List Job) (J : Job) (h : j :: q = q0 ++ [J]) : lastJob j q = J := by
  induction q generalizing j q0 with
  | nil =>
    cases q0 with
    | nil => simp_all [lastJob]
    | cons x q0 => simp at h
  | cons k q ih =>
    cases q0 with
    | nil => simp at h
    | cons x q0 => simp at h; simp only [lastJob]; exact ih k q0 h.2

theorem sdStarted_ext {J : Job} {s s' : State} (hq : s'.queue = s.queue) (hsd : s'.sdPending = s.sdPending)
    (hr : ∀ r' ∈ s'.runs, ∃ r ∈ s.runs, r'.job = r.job)
    (hlog : ∃ l, s'.log = l ++ s.log ∧ ∀ x ∈ l, evJob x.2 = some J ∨ evJob x.2 = none)
    (h : SdStarted J s) : SdStarted J s' := by
  obtain ⟨h1, h2, h3, l1, t, l2, hl, hl1⟩ := h
  obtain ⟨l, hl', hlJ⟩ := hlog
  refine ⟨by rw [hq]; exact h1, by rw [hsd]; exact h2, ?_, l ++ l1, t, l2, by rw [hl', hl]; simp, ?_⟩
  · intro r' hr'
    obtain ⟨r, hrm, hj⟩ := hr r' hr'
    rw [hj]; exact h3 r hrm
  · intro x hx
    rcases List.mem_append.mp hx with hx | hx
    · exact hlJ x hx
    · exact hl1 x hx

theorem settle_sdL (c : Cfg) (J : Job) (s : State)
    (hsd : SdInv c s) (h : SdL c J s) : SdL c J (settle c s) := by
  apply settle_cases
  · exact h
  · -- wait: the head of the queue starts
    intro hm j q hr hq
    have hnone : s.sdPending = none := hsd.1 (by rw [hm]; simp)
    rcases h with (⟨hne, q0, hq0⟩ | ⟨hms, _⟩) | hst
    · rw [hq] at hq0
      cases q0 with
      | nil =>
        simp at hq0
        right
        refine ⟨by simp [hq0.2], by simpa using hnone, ?_, [], s.now, _, by rw [hq0.1]; rfl, by simp⟩
        intro r hrm; simp [hr] at hrm; rw [hrm]; exact hq0.1
      | cons x q0 =>
        simp at hq0
        left; left
        exact ⟨hne, q0, by simpa using hq0.2⟩
    · rw [hm] at hms; cases hms
    · rw [hst.1] at hq; cases hq
  · -- cancel: drain, the last one starts
    intro hm j q hr hq
    have hnone : s.sdPending = none := hsd.1 (by rw [hm]; simp)
    rcases h with (⟨hne, q0, hq0⟩ | ⟨hms, _⟩) | hst
    · rw [hq] at hq0
      have hJ := lastJob_append j q q0 J hq0
      right
      refine ⟨by simp, by simpa using hnone, ?_, [], _, _, by rw [hJ]; rfl, by simp⟩
      intro r hrm; simp [hr] at hrm; rw [hrm]; exact hJ
    · rw [hm] at hms; cases hms
    · rw [hst.1] at hq; cases hq
  · -- cancel: the current run is cancelled, the queue is untouched
    intro hm j q r rest hq hr hc
    rcases h with (⟨hne, q0, hq0⟩ | ⟨hms, _⟩) | hst
    · left; left; exact ⟨hne, q0, by simpa [cancelCur] using hq0⟩
    · rw [hm] at hms; cases hms
    · rw [hst.1] at hq; cases hq
  · -- start mode
    intro hm
    rcases h with (⟨hne, _⟩ | ⟨_, hp⟩) | hst
    · exact absurd hm hne
    · unfold startStopData
      rw [startAll_sdPending]
      simp only [hp]
      split
      · right
        refine ⟨by simp, by simp, ?_, [], _, _, rfl, by simp⟩
        intro r hrm
        next hcond =>
        simp at hcond
        simp [hcond.2] at hrm
        rw [hrm]
      · left; right; exact ⟨hm, by simp⟩
    · right
      have hq : s.queue = [] := hst.1
      have : startAll { s with queue := [] } s.queue = s := by
        rw [hq]; simp only [startAll]
        cases s; simp_all
      rw [this]
      unfold startStopData
      simp only [hst.2.1]
      exact hst


theorem sdWaiting_ext {c : Cfg} {J : Job} {s s' : State} (hq : s'.queue = s.queue)
    (hsd : s'.sdPending = s.sdPending) (h : SdWaiting c J s) : SdWaiting c J s' := by
  rcases h with ⟨hne, q0, hq0⟩ | ⟨hm, hp⟩
  · exact Or.inl ⟨hne, q0, by rw [hq]; exact hq0⟩
  · exact Or.inr ⟨hm, by rw [hsd]; exact hp⟩

theorem evJob_result (r : Run) : evJob (if r.job.data.fail then Ev.err r.job else Ev.succ r.job) = some r.job := by
  cases r.job.data.fail <;> rfl

theorem fire_sdL (c : Cfg) (J : Job) (s : State) (t : Nat) (hsd : SdInv c s) (h : SdL c J s) :
    SdL c J (fire c s t) := by
  apply fire_cases
  · intro _; exact h
  · intro a r b hrs _ _ _
    rcases h with hw | hst
    · exact Or.inl (sdWaiting_ext (s := s) rfl rfl hw)
    · right
      have hrJ : r.job = J := hst.2.2.1 r (by simp [hrs])
      refine sdStarted_ext (s := s) rfl rfl ?_ ⟨[_, _], rfl, ?_⟩ hst
      · intro r' hr'
        simp at hr'
        rcases hr' with hr' | hr' | hr'
        · exact ⟨r', by simp [hrs, hr'], rfl⟩
        · exact ⟨r, by simp [hrs], by rw [hr']⟩
        · exact ⟨r', by simp [hrs, hr'], rfl⟩
      · intro x hx
        simp at hx
        rcases hx with rfl | rfl
        · left; simp only []; rw [evJob_result, hrJ]
        · left; simp [evJob, hrJ]
  · intro a r b hrs _ _ _
    apply settle_sdL
    · simpa [SdInv, afterCoro] using hsd
    · rcases h with hw | hst
      · exact Or.inl (sdWaiting_ext (s := s) rfl rfl hw)
      · right
        have hrJ : r.job = J := hst.2.2.1 r (by simp [hrs])
        refine sdStarted_ext (s := s) rfl rfl ?_ ⟨[_, _, _], rfl, ?_⟩ hst
        · intro r' hr'
          simp at hr'
          rcases hr' with hr' | hr'
          · exact ⟨r', by simp [hrs, hr'], rfl⟩
          · exact ⟨r', by simp [hrs, hr'], rfl⟩
        · intro x hx
          simp at hx
          rcases hx with rfl | rfl | rfl
          · right; rfl
          · left; simp only []; rw [evJob_result, hrJ]
          · left; simp [evJob, hrJ]
  · intro a r b hrs _ _
    apply settle_sdL
    · simpa [SdInv] using hsd
    · rcases h with hw | hst
      · exact Or.inl (sdWaiting_ext (s := s) rfl rfl hw)
      · right
        refine sdStarted_ext (s := s) rfl rfl ?_ ⟨[_], rfl, ?_⟩ hst
        · intro r' hr'
          simp at hr'
          rcases hr' with hr' | hr'
          · exact ⟨r', by simp [hrs, hr'], rfl⟩
          · exact ⟨r', by simp [hrs, hr'], rfl⟩
        · intro x hx
          simp at hx
          rw [hx]; right; rfl

/-- once stopped with stop_data `d`, the job accepted last (it carries `d`) waits or runs as the last one -/
def SdLast (c : Cfg) (s : State) : Prop :=
  s.stopped = true → ∀ d, c.stopData = some d → SdL c ⟨s.nacc - 1, d⟩ s

theorem fire_stopped (c : Cfg) (s : State) (t : Nat) : (fire c s t).stopped = s.stopped := by
  have hset : ∀ s : State, (settle c s).stopped = s.stopped := by
    intro s
    apply settle_cases c s (fun s' => s'.stopped = s.stopped)
    · rfl
    · intros; rfl
    · intros; simp
    · intros; rfl
    · intro _; rw [(startStopData_log _).2.2.1]; simp
  apply fire_cases c s t (fun s' => s'.stopped = s.stopped)
  · intro _; rfl
  · intros; rfl
  · intros; unfold finishRun; rw [hset]; rfl
  · intros; unfold finishRun; rw [hset]; rfl

theorem settle_stopped (c : Cfg) (s : State) : (settle c s).stopped = s.stopped := by
  apply settle_cases c s (fun s' => s'.stopped = s.stopped)
  · rfl
  · intros; rfl
  · intros; simp
  · intros; rfl
  · intro _; rw [(startStopData_log _).2.2.1]; simp

theorem run_sdLast (c : Cfg) (ops : List Op) : SdLast c (run c ops) := by
  have := run_induction c (fun s => SdInv c s ∧ SdLast c s) ⟨by simp [SdInv], by intro h; cases h⟩
    (fun s h => ⟨settle_sdInv c s h.1, by
      intro hst d hd
      rw [settle_stopped] at hst
      rw [(settle_put c s).2]
      exact settle_sdL c _ s h.1 (h.2 hst d hd)⟩)
    (fun s t h => ⟨fire_sdInv c s t h.1, by
      intro hst d hd
      rw [fire_stopped] at hst
      rw [(fire_put c s t).2]
      exact fire_sdL c _ s t h.1 (h.2 hst d hd)⟩)
    (fun s d h _ _ => ⟨expire_sdInv c s d h.1, by
      intro hst dd hd
      have hst' : s.stopped = true := hst
      rcases h.2 hst' dd hd with hw | hs
      · exact Or.inl (sdWaiting_ext (s := s) rfl rfl hw)
      · right
        refine sdStarted_ext (s := s) rfl rfl ?_ ⟨_, expire_log_eq c s d, ?_⟩ hs
        · intro r' hr'
          simp only [expire_runs, List.mem_map] at hr'
          obtain ⟨r, hr, rfl⟩ := hr'
          exact ⟨r, hr, by simp⟩
        · intro x hx
          rcases expireNew_mem hx with rfl | ⟨r, hr, _, rfl | rfl⟩
          · right; rfl
          · left; simp [evJob, hs.2.2.1 r hr]
          · left; simp [evJob, hs.2.2.1 r hr]⟩)
    (fun s t h => ⟨h.1, by
      intro hst d hd
      rcases h.2 hst d hd with hw | hs
      · exact Or.inl (sdWaiting_ext (s := s) rfl rfl hw)
      · exact Or.inr (sdStarted_ext (s := s) rfl rfl (fun r' hr' => ⟨r', hr', rfl⟩) ⟨[], rfl, by simp⟩ hs)⟩)
    (fun s x h hns => ⟨by simpa [SdInv, accept] using h.1, by
      intro hst; simp [accept, hns] at hst⟩)
    (fun s x h hst => ⟨by simpa [SdInv] using h.1, by
      intro _ d hd
      rcases h.2 hst d hd with hw | hs
      · exact Or.inl (sdWaiting_ext (s := s) rfl rfl hw)
      · exact Or.inr (sdStarted_ext (s := s) rfl rfl (fun r' hr' => ⟨r', hr', rfl⟩)
          ⟨[_], rfl, by simp [evJob]⟩ hs)⟩)
    (fun s h => ⟨doStop_sdInv c s h.1, by
      unfold doStop
      split
      · exact h.2
      · next hns =>
        intro _ d hd
        simp only [hd]
        split
        · next hm => left; right; exact ⟨hm, by simp⟩
        · next hm => left; left; exact ⟨hm, s.queue, by simp [accept]⟩⟩) ops
  exact this.2

/-! ### the kind of a result matches what its run did -/

/-- what must accompany an event in the log -/
def kindWitness (log : List (Nat × Ev)) (t : Nat) : Ev → Prop
  | .succ j => j.data.fail = false ∧ (t, Ev.done j) ∈ log
  | .err j => j.data.fail = true ∧ (t, Ev.done j) ∈ log
  | .done j => (t, Ev.succ j) ∈ log ∨ (t, Ev.err j) ∈ log
  | .cancelled j => (t, Ev.canc j) ∈ log
  | _ => True

def KindOK (log : List (Nat × Ev)) : Prop := ∀ t e, (t, e) ∈ log → kindWitness log t e

theorem kindWitness_mono {log log' : List (Nat × Ev)} (hsub : ∀ x ∈ log, x ∈ log') {t : Nat} {e : Ev}
    (h : kindWitness log t e) : kindWitness log' t e := by
  cases e with
  | succ j => exact ⟨h.1, hsub _ h.2⟩
  | err j => exact ⟨h.1, hsub _ h.2⟩
  | done j => exact h.elim (fun h => Or.inl (hsub _ h)) (fun h => Or.inr (hsub _ h))
  | cancelled j => exact hsub _ h
  | _ => trivial

theorem kindOK_append {new log : List (Nat × Ev)} (h : KindOK log)
    (hnew : ∀ x ∈ new, kindWitness (new ++ log) x.1 x.2) : KindOK (new ++ log) := by
  intro t e hm
  rcases List.mem_append.mp hm with h1 | h1
  · exact hnew (t, e) h1
  · exact kindWitness_mono (fun x hx => List.mem_append_right _ hx) (h t e h1)

theorem discards_log_eq (s : State) (j : Job) (q : List Job) :
    ∃ l, (discards s j q).log = l ++ s.log ∧ ∀ x ∈ l, ∃ k, x.2 = Ev.canc k := by
  induction q generalizing s j with
  | nil => exact ⟨[], rfl, by simp⟩
  | cons k q ih =>
    obtain ⟨l, hl, hc⟩ := ih (emit s (.canc j)) k
    refine ⟨l ++ [(s.now, .canc j)], by simp [discards, hl], ?_⟩
    intro x hx
    rcases List.mem_append.mp hx with hx | hx
    · exact hc x hx
    · simp at hx; exact ⟨j, by rw [hx]⟩

theorem startRun_kindOK (s : State) (j : Job) (h : KindOK s.log) : KindOK (startRun s j).log := by
  have : (startRun s j).log = [(s.now, Ev.start j), (s.now, Ev.out (s.output + 1))] ++ s.log := rfl
  rw [this]; apply kindOK_append h
  intro x hx; simp at hx
  rcases hx with rfl | rfl <;> simp [kindWitness]

theorem startAll_kindOK (s : State) (q : List Job) (h : KindOK s.log) : KindOK (startAll s q).log := by
  induction q generalizing s with
  | nil => exact h
  | cons j q ih => exact ih _ (startRun_kindOK s j h)

theorem discards_kindOK (s : State) (j : Job) (q : List Job) (h : KindOK s.log) :
    KindOK (discards s j q).log := by
  obtain ⟨l, hl, hc⟩ := discards_log_eq s j q
  rw [hl]; apply kindOK_append h
  intro x hx
  obtain ⟨k, hk⟩ := hc x hx
  rw [hk]; simp [kindWitness]

theorem settle_kindOK (c : Cfg) (s : State) (h : KindOK s.log) : KindOK (settle c s).log := by
  apply settle_cases c s (fun s' => KindOK s'.log)
  · exact h
  · intros; exact startRun_kindOK _ _ h
  · intros; exact startRun_kindOK _ _ (discards_kindOK _ _ _ h)
  · intro _ j q r rest _ _ _
    have : (cancelCur c s r rest).log = [(s.now, Ev.canc r.job), (s.now, Ev.cancelled r.job)] ++ s.log := rfl
    rw [this]; apply kindOK_append h
    intro x hx; simp at hx
    rcases hx with rfl | rfl <;> simp [kindWitness]
  · intro _
    have h1 := startAll_kindOK { s with queue := [] } s.queue h
    unfold startStopData
    split
    · split
      · exact startRun_kindOK _ _ h1
      · exact h1
    · exact h1

theorem afterCoro_kindOK (s : State) (t : Nat) (r : Run) (h : KindOK s.log) : KindOK (afterCoro s t r).log := by
  have : (afterCoro s t r).log =
      [(max s.now t, if r.job.data.fail then Ev.err r.job else Ev.succ r.job), (max s.now t, Ev.done r.job)]
        ++ s.log := rfl
  rw [this]; apply kindOK_append h
  intro x hx; simp at hx
  rcases hx with rfl | rfl
  · cases hf : r.job.data.fail <;> simp [kindWitness, hf]
  · cases hf : r.job.data.fail <;> simp [kindWitness]

theorem countDown_kindOK (s : State) (h : KindOK s.log) : KindOK (countDown s).log := by
  have : (countDown s).log = [(s.now, Ev.out (s.output - 1))] ++ s.log := rfl
  rw [this]; apply kindOK_append h
  intro x hx; simp at hx; rw [hx]; simp [kindWitness]

theorem fire_kindOK (c : Cfg) (s : State) (t : Nat) (h : KindOK s.log) : KindOK (fire c s t).log := by
  apply fire_cases c s t (fun s' => KindOK s'.log)
  · intro _; exact h
  · intro a r b _ _ _ _; exact afterCoro_kindOK s t r h
  · intro a r b _ _ _ _
    apply settle_kindOK
    exact countDown_kindOK { afterCoro s t r with runs := a ++ b } (afterCoro_kindOK s t r h)
  · intro a r b _ _ _
    apply settle_kindOK
    exact countDown_kindOK { s with now := max s.now t, runs := a ++ b } h

theorem expire_kindOK (c : Cfg) (s : State) (d : Nat) (h : KindOK s.log) : KindOK (expire c s d).log := by
  rw [expire_log_eq]; apply kindOK_append h
  intro x hx
  rcases expireNew_mem hx with rfl | ⟨r, hr, hc, rfl | rfl⟩
  · simp [kindWitness]
  · simp only [kindWitness]
    apply List.mem_append_left
    simp only [expireNew, List.mem_append]
    exact Or.inl (expireEvents_mem.mpr ⟨r, hr, hc, Or.inr rfl⟩)
  · simp [kindWitness]

theorem put_kindOK {log : List (Nat × Ev)} (t : Nat) (j : Job) (h : KindOK log) : KindOK ((t, Ev.put j) :: log) := by
  have : (t, Ev.put j) :: log = [(t, Ev.put j)] ++ log := rfl
  rw [this]; apply kindOK_append h
  intro x hx; simp at hx; rw [hx]; simp [kindWitness]

theorem run_kindOK (c : Cfg) (ops : List Op) : KindOK (run c ops).log := by
  apply run_induction c (fun s => KindOK s.log)
  · intro t e hm; simp at hm
  · exact settle_kindOK c
  · exact fire_kindOK c
  · exact fun s d h _ _ => expire_kindOK c s d h
  · intro s t h; exact h
  · intro s x h _; exact put_kindOK _ _ h
  · intro s x h _
    have : (acceptLate s x).log = [(s.now, Ev.late ⟨s.nacc + s.late.length, x⟩)] ++ s.log := rfl
    rw [this]; apply kindOK_append h
    intro y hy; simp at hy; rw [hy]; simp [kindWitness]
  · intro s h
    unfold doStop
    split
    · exact h
    · split
      · exact h
      · split
        · exact put_kindOK _ _ h
        · exact put_kindOK _ _ h

/-- two different log entries that are results of the same job make its result count at least 2 -/
theorem two_results {log : List (Nat × Ev)} {x y : Nat × Ev} {j : Job} (hx : x ∈ log) (hy : y ∈ log)
    (hne : x ≠ y) (hxj : evRes x.2 = some j) (hyj : evRes y.2 = some j) : 2 ≤ (resJobs log).count j := by
  induction log with
  | nil => cases hx
  | cons z log ih =>
    obtain ⟨tz, ez⟩ := z
    simp only [resJobs_cons, List.count_append]
    rcases List.mem_cons.mp hx with rfl | hx' <;> rcases List.mem_cons.mp hy with rfl | hy'
    · exact absurd rfl hne
    · have : 1 ≤ (resJobs log).count j := List.count_pos_iff.mpr (by
        simp only [resJobs, List.mem_filterMap]; exact ⟨y, hy', hyj⟩)
      simp only [] at hxj; rw [hxj]; simp; omega
    · have : 1 ≤ (resJobs log).count j := List.count_pos_iff.mpr (by
        simp only [resJobs, List.mem_filterMap]; exact ⟨x, hx', hxj⟩)
      simp only [] at hyj; rw [hyj]; simp; omega
    · have := ih hx' hy'; omega

/-! ### the stop_timeout clock -/

/-- what the controller and the block's own timers leave alone -/
def Frame (s s' : State) : Prop :=
  s'.deadline = s.deadline ∧ s'.stopAt = s.stopAt ∧ s'.stopped = s.stopped ∧ s.now ≤ s'.now ∧
  ∃ l, s'.log = l ++ s.log ∧ (∀ x ∈ l, x.2 ≠ Ev.timeout) ∧
    (s.runs ≠ [] → s'.runs ≠ [] ∨ ∃ t' n, s.now ≤ t' ∧ (t', Ev.out n) ∈ l)

theorem frame_refl (s : State) : Frame s s :=
  ⟨rfl, rfl, rfl, Nat.le_refl _, [], rfl, by simp, fun h => Or.inl h⟩

theorem frame_trans {s1 s2 s3 : State} (h12 : Frame s1 s2) (h23 : Frame s2 s3) : Frame s1 s3 := by
  obtain ⟨a1, a2, a3, a4, l1, a5, a6, a7⟩ := h12
  obtain ⟨b1, b2, b3, b4, l2, b5, b6, b7⟩ := h23
  refine ⟨by rw [b1, a1], by rw [b2, a2], by rw [b3, a3], by omega, l2 ++ l1, by rw [b5, a5]; simp, ?_, ?_⟩
  · intro x hx
    rcases List.mem_append.mp hx with hx | hx
    · exact b6 x hx
    · exact a6 x hx
  · intro hr
    rcases a7 hr with h | ⟨t', n, ht, hm⟩
    · rcases b7 h with h' | ⟨t', n, ht, hm⟩
      · exact Or.inl h'
      · exact Or.inr ⟨t', n, by omega, List.mem_append_left _ hm⟩
    · exact Or.inr ⟨t', n, ht, List.mem_append_right _ hm⟩

/-- a step that only appends non-timeout events and keeps the runs non-empty -/
theorem frame_of_append {s s' : State} (l : List (Nat × Ev)) (hd : s'.deadline = s.deadline)
    (hs : s'.stopAt = s.stopAt) (hst : s'.stopped = s.stopped) (hnow : s.now ≤ s'.now)
    (hl : s'.log = l ++ s.log) (hnt : ∀ x ∈ l, x.2 ≠ Ev.timeout)
    (hr : s.runs ≠ [] → s'.runs ≠ [] ∨ ∃ t' n, s.now ≤ t' ∧ (t', Ev.out n) ∈ l) : Frame s s' :=
  ⟨hd, hs, hst, hnow, l, hl, hnt, hr⟩

theorem startRun_frame (s : State) (j : Job) : Frame s (startRun s j) :=
  frame_of_append [_, _] rfl rfl rfl (Nat.le_refl _) rfl (by simp) (fun _ => Or.inl (by simp))

theorem startAll_frame (s : State) (q : List Job) : Frame s (startAll s q) := by
  induction q generalizing s with
  | nil => exact frame_refl s
  | cons j q ih => exact frame_trans (startRun_frame s j) (ih _)

theorem discards_frame (s : State) (j : Job) (q : List Job) : Frame s (discards s j q) := by
  induction q generalizing s j with
  | nil => exact frame_refl s
  | cons k q ih =>
    refine frame_trans ?_ (ih (emit s (.canc j)) k)
    exact frame_of_append [_] rfl rfl rfl (Nat.le_refl _) rfl (by simp) (fun h => Or.inl h)

theorem settle_frame (c : Cfg) (s : State) : Frame s (settle c s) := by
  apply settle_cases c s (fun s' => Frame s s')
  · exact frame_refl s
  · intro _ j q _ _
    exact frame_trans (s2 := { s with queue := q })
      (frame_of_append [] rfl rfl rfl (Nat.le_refl _) rfl (by simp) (fun h => Or.inl h)) (startRun_frame _ j)
  · intro _ j q _ _
    exact frame_trans (s2 := { s with queue := [] })
      (frame_of_append [] rfl rfl rfl (Nat.le_refl _) rfl (by simp) (fun h => Or.inl h))
      (frame_trans (discards_frame _ j q) (startRun_frame _ _))
  · intro _ j q r rest _ _ _
    exact frame_of_append [_, _] rfl rfl rfl (Nat.le_refl _) rfl (by simp) (fun _ => Or.inl (by simp [cancelCur]))
  · intro _
    refine frame_trans (s2 := { s with queue := [] })
      (frame_of_append [] rfl rfl rfl (Nat.le_refl _) rfl (by simp) (fun h => Or.inl h)) ?_
    refine frame_trans (startAll_frame { s with queue := [] } s.queue) ?_
    unfold startStopData
    split
    · split
      · exact frame_trans (s2 := { startAll { s with queue := [] } s.queue with sdPending := none })
          (frame_of_append [] rfl rfl rfl (Nat.le_refl _) rfl (by simp) (fun h => Or.inl h)) (startRun_frame _ _)
      · exact frame_refl _
    · exact frame_refl _

theorem result_ne_timeout (r : Run) : (if r.job.data.fail then Ev.err r.job else Ev.succ r.job) ≠ Ev.timeout := by
  cases r.job.data.fail <;> simp

theorem fire_frame (c : Cfg) (s : State) (t : Nat) : Frame s (fire c s t) := by
  apply fire_cases c s t (fun s' => Frame s s')
  · intro _; exact frame_refl s
  · intro a r b _ _ _ _
    refine frame_of_append [_, _] rfl rfl rfl (Nat.le_max_left _ _) rfl ?_ (fun _ => Or.inl (by simp))
    intro x hx; simp at hx
    rcases hx with rfl | rfl
    · exact result_ne_timeout r
    · simp
  · intro a r b _ _ _ _
    refine frame_trans (s2 := countDown { afterCoro s t r with runs := a ++ b }) ?_ (settle_frame c _)
    refine frame_of_append [_, _, _] rfl rfl rfl (Nat.le_max_left _ _) rfl ?_
      (fun _ => Or.inr ⟨max s.now t, s.output - 1, Nat.le_max_left _ _, by simp [afterCoro]⟩)
    intro x hx; simp at hx
    rcases hx with rfl | rfl | rfl
    · simp
    · exact result_ne_timeout r
    · simp
  · intro a r b _ _ _
    refine frame_trans (s2 := countDown { s with now := max s.now t, runs := a ++ b }) ?_ (settle_frame c _)
    exact frame_of_append [_] rfl rfl rfl (Nat.le_max_left _ _) rfl (by simp)
      (fun _ => Or.inr ⟨max s.now t, s.output - 1, Nat.le_max_left _ _, by simp⟩)

/-- the deadline is stop time + stop_timeout; a `timeout` marker is logged no earlier than that, in one
    instant only, disarms the deadline, and only while some run was still active (a later output
    decrement follows, or the run is still there) -/
def TInv (c : Cfg) (s : State) : Prop :=
  (∀ D, s.deadline = some D → ∃ ts, s.stopAt = some ts ∧ D = ts + c.stopTimeout) ∧
  (∀ t, (t, Ev.timeout) ∈ s.log →
      (∃ ts, s.stopAt = some ts ∧ ts + c.stopTimeout ≤ t) ∧ s.deadline = none ∧
      ((∃ t' n, t ≤ t' ∧ (t', Ev.out n) ∈ s.log) ∨ (s.runs ≠ [] ∧ t ≤ s.now))) ∧
  (∀ t1 t2, (t1, Ev.timeout) ∈ s.log → (t2, Ev.timeout) ∈ s.log → t1 = t2) ∧
  (s.stopAt.isSome → s.stopped = true)

theorem tInv_frame {c : Cfg} {s s' : State} (hf : Frame s s') (h : TInv c s) : TInv c s' := by
  obtain ⟨f1, f2, f3, f4, l, f5, f6, f7⟩ := hf
  obtain ⟨h1, h2, h3, h4⟩ := h
  have hold : ∀ t, (t, Ev.timeout) ∈ s'.log → (t, Ev.timeout) ∈ s.log := by
    intro t hm; rw [f5] at hm
    rcases List.mem_append.mp hm with hm | hm
    · exact absurd rfl (f6 _ hm)
    · exact hm
  refine ⟨by rw [f1, f2]; exact h1, ?_, fun t1 t2 a b => h3 t1 t2 (hold _ a) (hold _ b), by rw [f2, f3]; exact h4⟩
  intro t hm
  obtain ⟨a, b, cc⟩ := h2 t (hold t hm)
  refine ⟨by rw [f2]; exact a, by rw [f1]; exact b, ?_⟩
  rcases cc with ⟨t', n, ht, ho⟩ | ⟨hr, ht⟩
  · exact Or.inl ⟨t', n, ht, by rw [f5]; exact List.mem_append_right _ ho⟩
  · rcases f7 hr with hr' | ⟨t', n, ht', ho⟩
    · exact Or.inr ⟨hr', by omega⟩
    · exact Or.inl ⟨t', n, by omega, by rw [f5]; exact List.mem_append_left _ ho⟩

theorem expire_tInv (c : Cfg) (s : State) (d : Nat) (hd : s.deadline = some d) (hr : s.runs ≠ [])
    (h : TInv c s) : TInv c (expire c s d) := by
  obtain ⟨h1, h2, h3, h4⟩ := h
  have hnone : ∀ t, (t, Ev.timeout) ∉ s.log := by
    intro t hm; have := (h2 t hm).2.1; rw [hd] at this; cases this
  have hnew : ∀ t, (t, Ev.timeout) ∈ (expire c s d).log → t = max s.now d := by
    intro t hm
    rw [expire_log_eq] at hm
    rcases List.mem_append.mp hm with hm | hm
    · rcases expireNew_mem hm with h0 | ⟨r, _, _, h0 | h0⟩
      · cases h0; rfl
      · cases h0
      · cases h0
    · exact absurd hm (hnone t)
  obtain ⟨ts, hts, hD⟩ := h1 d hd
  refine ⟨by simp, ?_, fun t1 t2 a b => by rw [hnew t1 a, hnew t2 b], h4⟩
  intro t hm
  rw [hnew t hm]
  refine ⟨⟨ts, hts, by omega⟩, rfl, Or.inr ⟨?_, Nat.le_refl _⟩⟩
  simp only [expire_runs, ne_eq, List.map_eq_nil_iff]; exact hr

theorem run_tInv (c : Cfg) (ops : List Op) : TInv c (run c ops) := by
  apply run_induction c (TInv c)
  · exact ⟨by simp, by simp, by simp, by simp⟩
  · exact fun s h => tInv_frame (settle_frame c s) h
  · exact fun s t h => tInv_frame (fire_frame c s t) h
  · exact fun s d h hd hr => expire_tInv c s d hd hr h
  · intro s t h
    exact tInv_frame (s := s) (frame_of_append [] rfl rfl rfl (Nat.le_max_left _ _) rfl (by simp)
      (fun hr => Or.inl hr)) h
  · intro s x h _
    exact tInv_frame (s := s) (frame_of_append [_] rfl rfl rfl (Nat.le_refl _) rfl (by simp)
      (fun hr => Or.inl hr)) h
  · intro s x h _
    exact tInv_frame (s := s) (frame_of_append [_] rfl rfl rfl (Nat.le_refl _) rfl (by simp)
      (fun hr => Or.inl hr)) h
  · intro s h
    unfold doStop
    split
    · exact h
    · next hst =>
      obtain ⟨h1, h2, h3, h4⟩ := h
      have hsa : s.stopAt = none := by
        cases hs : s.stopAt with
        | none => rfl
        | some ts => exact absurd (h4 (by simp [hs])) hst
      have hnone : ∀ t, (t, Ev.timeout) ∉ s.log := by
        intro t hm; obtain ⟨⟨ts, hts, _⟩, _⟩ := h2 t hm; rw [hsa] at hts; cases hts
      -- whatever `stop()` queues, it logs at most a put marker
      have key : ∀ s1 : State, (∀ t, (t, Ev.timeout) ∉ s1.log) → s1.now = s.now →
          TInv c { s1 with stopped := true, deadline := some (s1.now + c.stopTimeout), stopAt := some s1.now } := by
        intro s1 hn _
        exact ⟨fun D hD => ⟨s1.now, rfl, by simp at hD; omega⟩, fun t hm => absurd hm (hn t),
          fun t1 _ a _ => absurd a (hn t1), fun _ => rfl⟩
      split
      · exact key s hnone rfl
      · split
        · refine key _ ?_ rfl
          intro t hm; simp at hm; exact hnone t hm
        · refine key _ ?_ rfl
          intro t hm; simp [accept] at hm; exact hnone t hm

/-! ### puts behind the sentinel are never served -/

def evLate : Ev → Option Job
  | .late j => some j
  | _ => none

def lateJobs (log : List (Nat × Ev)) : List Job := log.filterMap (fun e => evLate e.2)

@[simp] theorem lateJobs_cons (t : Nat) (e : Ev) (l : List (Nat × Ev)) :
    lateJobs ((t, e) :: l) = (evLate e).toList ++ lateJobs l := by
  simp only [lateJobs, List.filterMap_cons]; cases evLate e <;> simp

theorem mem_lateJobs {log : List (Nat × Ev)} {t : Nat} {j : Job} (h : (t, Ev.late j) ∈ log) : j ∈ lateJobs log := by
  simp only [lateJobs, List.mem_filterMap]
  exact ⟨(t, .late j), h, rfl⟩

theorem mem_startJobs {log : List (Nat × Ev)} {t : Nat} {j : Job} (h : (t, Ev.start j) ∈ log) : j ∈ startJobs log := by
  simp only [startJobs, List.mem_filterMap]
  exact ⟨(t, .start j), h, rfl⟩

theorem discards_late (s : State) (j : Job) (q : List Job) : lateJobs (discards s j q).log = lateJobs s.log := by
  induction q generalizing s j with
  | nil => rfl
  | cons k q ih => simp [discards, ih, evLate]

theorem discards_start (s : State) (j : Job) (q : List Job) : startJobs (discards s j q).log = startJobs s.log := by
  induction q generalizing s j with
  | nil => rfl
  | cons k q ih => simp [discards, ih, evStart]

theorem startAll_late (s : State) (q : List Job) : lateJobs (startAll s q).log = lateJobs s.log := by
  induction q generalizing s with
  | nil => rfl
  | cons j q ih => simp [startAll, ih, evLate]

theorem startAll_start (s : State) (q : List Job) :
    startJobs (startAll s q).log = q.reverse ++ startJobs s.log := by
  induction q generalizing s with
  | nil => rfl
  | cons j q ih => simp [startAll, ih, evStart]

theorem settle_late (c : Cfg) (s : State) : lateJobs (settle c s).log = lateJobs s.log := by
  apply settle_cases c s (fun s' => lateJobs s'.log = lateJobs s.log)
  · rfl
  · intros; simp [evLate]
  · intros; simp [evLate, discards_late]
  · intros; simp [cancelCur, evLate]
  · intro _
    unfold startStopData
    split
    · split
      · simp [evLate, startAll_late]
      · simp [startAll_late]
    · simp [startAll_late]

theorem fire_late (c : Cfg) (s : State) (t : Nat) : lateJobs (fire c s t).log = lateJobs s.log := by
  apply fire_cases c s t (fun s' => lateJobs s'.log = lateJobs s.log)
  · intro _; rfl
  · intro a r b _ _ _ _; cases hf : r.job.data.fail <;> simp [afterCoro, evLate, hf]
  · intro a r b _ _ _ _
    unfold finishRun
    rw [settle_late]
    cases hf : r.job.data.fail <;> simp [afterCoro, evLate, hf]
  · intro a r b _ _ _
    unfold finishRun
    rw [settle_late]
    simp [evLate]

theorem expire_late (c : Cfg) (s : State) (d : Nat) : lateJobs (expire c s d).log = lateJobs s.log := by
  rw [expire_log_eq]
  simp only [lateJobs, List.filterMap_append]
  rw [filterMap_expireNew evLate (fun _ => rfl) (fun _ => rfl) rfl]; rfl

/-- a late marker exists only after `stop()`, and its number is not below `nacc` (which is frozen then) -/
def LateInv (s : State) : Prop := ∀ j ∈ lateJobs s.log, s.stopped = true ∧ s.nacc ≤ j.seq

theorem run_lateInv (c : Cfg) (ops : List Op) : LateInv (run c ops) := by
  apply run_induction c LateInv
  · intro j hj; simp [lateJobs] at hj
  · intro s h j hj; rw [settle_late] at hj; rw [settle_stopped, (settle_put c s).2]; exact h j hj
  · intro s t h j hj; rw [fire_late] at hj; rw [fire_stopped, (fire_put c s t).2]; exact h j hj
  · intro s d h _ _ j hj; rw [expire_late] at hj; exact h j hj
  · intro s t h; exact h
  · intro s x h hns j hj
    simp [accept, evLate] at hj
    have := (h j hj).1; rw [hns] at this; cases this
  · intro s x h hst j hj
    simp [evLate] at hj
    rcases hj with rfl | hj
    · exact ⟨hst, by simp⟩
    · exact h j hj
  · intro s h
    unfold doStop
    split
    · exact h
    · next hns =>
      have hnone : ∀ j, j ∉ lateJobs s.log := fun j hj => hns (h j hj).1
      split
      · intro j hj; exact absurd hj (hnone j)
      · split
        · intro j hj; simp [evLate] at hj; exact absurd hj (hnone j)
        · intro j hj; simp [accept, evLate] at hj; exact absurd hj (hnone j)

/-- whatever waits to be started, and whatever has been started, has an arrival marker `put` -/
def StartPut (s : State) : Prop :=
  (∀ k ∈ s.queue, k ∈ putJobs s.log) ∧ (∀ j, s.sdPending = some j → j ∈ putJobs s.log) ∧
  (∀ k ∈ startJobs s.log, k ∈ putJobs s.log)

theorem startStopData_startPut (s : State) (h : StartPut s) : StartPut (startStopData s) := by
  unfold startStopData
  split
  · next j hj =>
    split
    · obtain ⟨h1, h2, h3⟩ := h
      refine ⟨by simpa [evPut] using h1, by simp, ?_⟩
      intro k hk
      simp [evStart] at hk
      rcases hk with rfl | hk
      · simpa [evPut] using h2 _ hj
      · simpa [evPut] using h3 k hk
    · exact h
  · exact h

theorem settle_startPut (c : Cfg) (s : State) (h : StartPut s) : StartPut (settle c s) := by
  obtain ⟨h1, h2, h3⟩ := h
  apply settle_cases
  · exact ⟨h1, h2, h3⟩
  · intro _ j q _ hq
    rw [hq] at h1
    refine ⟨fun k hk => by simpa [evPut] using h1 k (List.mem_cons_of_mem _ hk), by simpa [evPut] using h2, ?_⟩
    intro k hk
    simp [evStart] at hk
    rcases hk with rfl | hk
    · simpa [evPut] using h1 _ (by simp)
    · simpa [evPut] using h3 k hk
  · intro _ j q _ hq
    rw [hq] at h1
    refine ⟨by simp, by simpa [evPut, discards_put] using h2, ?_⟩
    intro k hk
    simp [evStart, discards_start] at hk
    rcases hk with rfl | hk
    · simpa [evPut, discards_put] using h1 _ (lastJob_mem j q)
    · simpa [evPut, discards_put] using h3 k hk
  · intro _ j q r rest _ _ _
    exact ⟨by simpa [cancelCur, evPut] using h1, by simpa [cancelCur, evPut] using h2,
      by simpa [cancelCur, evPut, evStart] using h3⟩
  · intro _
    apply startStopData_startPut
    refine ⟨by simp, by simpa [startAll_put] using h2, ?_⟩
    intro k hk
    rw [startAll_start] at hk
    rw [startAll_put]
    rcases List.mem_append.mp hk with hk | hk
    · exact h1 k (by simpa using hk)
    · exact h3 k hk

theorem fire_startPut (c : Cfg) (s : State) (t : Nat) (h : StartPut s) : StartPut (fire c s t) := by
  obtain ⟨h1, h2, h3⟩ := h
  apply fire_cases
  · intro _; exact ⟨h1, h2, h3⟩
  · intro a r b _ _ _ _
    cases hf : r.job.data.fail <;>
    · exact ⟨by simpa [afterCoro, evPut, hf] using h1, by simpa [afterCoro, evPut, hf] using h2,
        by simpa [afterCoro, evPut, evStart, hf] using h3⟩
  · intro a r b _ _ _ _
    apply settle_startPut
    cases hf : r.job.data.fail <;>
    · exact ⟨by simpa [afterCoro, evPut, hf] using h1, by simpa [afterCoro, evPut, hf] using h2,
        by simpa [afterCoro, evPut, evStart, hf] using h3⟩
  · intro a r b _ _ _
    apply settle_startPut
    exact ⟨by simpa [evPut] using h1, by simpa [evPut] using h2, by simpa [evPut, evStart] using h3⟩

theorem run_startPut (c : Cfg) (ops : List Op) : StartPut (run c ops) := by
  apply run_induction c StartPut
  · exact ⟨by simp, by simp, by simp [startJobs]⟩
  · exact settle_startPut c
  · exact fire_startPut c
  · intro s d ⟨h1, h2, h3⟩ _ _
    refine ⟨by simpa [putJobs_expire] using h1, by simpa [putJobs_expire] using h2, ?_⟩
    rw [putJobs_expire, expire_log_eq]
    simp only [startJobs, List.filterMap_append]
    rw [filterMap_expireNew evStart (fun _ => rfl) (fun _ => rfl) rfl]
    exact h3
  · intro s t h; exact h
  · intro s x ⟨h1, h2, h3⟩ _
    refine ⟨?_, by intro j hj; simp [accept, evPut]; exact Or.inr (h2 j hj), ?_⟩
    · intro k hk
      simp [accept] at hk
      simp [accept, evPut]
      rcases hk with hk | hk
      · exact Or.inr (h1 k hk)
      · exact Or.inl hk
    · intro k hk
      simp [accept, evStart] at hk
      simp [accept, evPut]
      exact Or.inr (h3 k hk)
  · intro s x ⟨h1, h2, h3⟩ _
    exact ⟨by simpa [evPut] using h1, by simpa [evPut] using h2, by simpa [evPut, evStart] using h3⟩
  · intro s ⟨h1, h2, h3⟩
    unfold doStop
    split
    · exact ⟨h1, h2, h3⟩
    · split
      · exact ⟨h1, h2, h3⟩
      · next d _ =>
        split
        · refine ⟨fun k hk => by simp [evPut]; exact Or.inr (h1 k hk), by simp [evPut], ?_⟩
          intro k hk; simp [evStart] at hk; simp [evPut]; exact Or.inr (h3 k hk)
        · refine ⟨?_, by intro j hj; simp [accept, evPut]; exact Or.inr (h2 j hj), ?_⟩
          · intro k hk
            simp [accept] at hk
            simp [accept, evPut]
            rcases hk with hk | hk
            · exact Or.inr (h1 k hk)
            · exact Or.inl hk
          · intro k hk
            simp [accept, evStart] at hk
            simp [accept, evPut]
            exact Or.inr (h3 k hk)

end Edzed.OutputAsync
